(* Proofs about the bitmap model (property C14).
   Part A: bit-level facts (masks, complement, clz);  Part B: field lists;
   Part C: the interleaving invariant (exec_sound, step_inv, reachable_inv) and its corollaries;
   Part D: sequential specifications. *)
From Coq Require Import NArith ZArith PeanoNat Lia Bool List ZifyN ZifyBool.
From MiV Require Import Gen.Consts Model.Arith Proofs.Base Model.Bitmap.
Import ListNotations.
Local Open Scope N_scope.
Local Open Scope bool_scope.

(* the generated constants are the ones the model's literals assume *)
Lemma consts_ok : MI_BITMAP_FIELD_BITS = 64 /\ MI_BITMAP_FIELD_FULL = W64 - 1 /\ MI_SIZE_BITS = 64.
Proof. repeat split; reflexivity. Qed.

(* ------------------------------------------------------------------------------------------ *)
(* Part A: bits                                                                                *)
(* ------------------------------------------------------------------------------------------ *)

Lemma FULL_ones : FULL = N.ones 64.
Proof. reflexivity. Qed.
Lemma FULL_lt : FULL < W64.
Proof. reflexivity. Qed.

Lemma testbit_lt_W64_high x b : x < W64 -> 64 <= b -> N.testbit x b = false.
Proof.
  intros Hx Hb. destruct (N.eq_dec x 0) as [->|Hne]; [apply N.bits_0|].
  apply N.bits_above_log2. apply N.log2_lt_pow2; [lia|].
  apply N.lt_le_trans with (2 ^ 64); [exact Hx|]. apply N.pow_le_mono_r; lia.
Qed.

Lemma lt_W64_of_bits x : (forall b, 64 <= b -> N.testbit x b = false) -> x < W64.
Proof.
  intros H. destruct (N.eq_dec x 0) as [->|Hne]; [reflexivity|].
  destruct (N.lt_ge_cases x W64) as [Hlt|Hge]; [exact Hlt|].
  exfalso. assert (Hl : 64 <= N.log2 x) by (apply N.log2_le_pow2; [lia|exact Hge]).
  pose proof (H _ Hl) as Hb. rewrite N.bit_log2 in Hb by exact Hne. discriminate.
Qed.

Lemma FULL_testbit b : N.testbit FULL b = (b <? 64).
Proof.
  rewrite FULL_ones. destruct (b <? 64) eqn:E.
  - apply N.ones_spec_low. lia.
  - apply N.ones_spec_high. lia.
Qed.

Lemma wrap_testbit x b : N.testbit (wrap x) b = N.testbit x b && (b <? 64).
Proof.
  rewrite wrap_mod. change W64 with (2 ^ 64). destruct (b <? 64) eqn:E.
  - rewrite N.mod_pow2_bits_low by lia. rewrite andb_true_r. reflexivity.
  - rewrite N.mod_pow2_bits_high by lia. rewrite andb_false_r. reflexivity.
Qed.

(* the mask of `count` bits at `bitidx`, also when the shifted mask leaves the field *)
Lemma mask_testbit_gen count bitidx b :
  N.testbit (mask_ count bitidx) b =
  if 64 <=? count then (b <? 64)
  else (bitidx <=? b) && (b <? bitidx + count) && (b <? 64).
Proof.
  unfold mask_. destruct (64 <=? count) eqn:E64; [apply FULL_testbit|].
  destruct (count =? 0) eqn:E0.
  - rewrite N.bits_0. assert (count = 0) by lia. subst. lia.
  - rewrite wrap_testbit. destruct (bitidx <=? b) eqn:Eb.
    + rewrite N.shiftl_spec_high' by lia.
      destruct (b <? bitidx + count) eqn:Ec.
      * rewrite N.ones_spec_low by lia. reflexivity.
      * rewrite N.ones_spec_high by lia. reflexivity.
    + rewrite N.shiftl_spec_low by lia. reflexivity.
Qed.

Lemma mask_testbit count bitidx b : bitidx + count <= 64 ->
  N.testbit (mask_ count bitidx) b = (bitidx <=? b) && (b <? bitidx + count).
Proof.
  intros H. rewrite mask_testbit_gen. destruct (64 <=? count) eqn:E; lia.
Qed.

Lemma mask_lt count bitidx : mask_ count bitidx < W64.
Proof.
  apply lt_W64_of_bits. intros b Hb. rewrite mask_testbit_gen. destruct (64 <=? count); lia.
Qed.

Lemma mask_nonzero count bitidx : 1 <= count -> bitidx + count <= 64 -> mask_ count bitidx <> 0.
Proof.
  intros H1 H2 E. assert (Hb : N.testbit (mask_ count bitidx) bitidx = true) by (rewrite mask_testbit by lia; lia).
  rewrite E, N.bits_0 in Hb. discriminate.
Qed.

Lemma wnot_lnot x : x < W64 -> wnot x = N.lnot x 64.
Proof.
  intros Hx. unfold wnot. change (W64 - 1) with (N.ones 64). symmetry.
  destruct (N.eq_dec x 0) as [->|Hne].
  - unfold N.lnot. rewrite N.lxor_0_l. rewrite N.sub_0_r. reflexivity.
  - apply N.lnot_sub_low. apply N.log2_lt_pow2; [lia|exact Hx].
Qed.

Lemma wnot_testbit x b : x < W64 -> N.testbit (wnot x) b = negb (N.testbit x b) && (b <? 64).
Proof.
  intros Hx. rewrite wnot_lnot by exact Hx. destruct (b <? 64) eqn:E.
  - rewrite N.lnot_spec_low by lia. rewrite andb_true_r. reflexivity.
  - rewrite N.lnot_spec_high by lia. rewrite testbit_lt_W64_high by lia. reflexivity.
Qed.

Lemma wnot_lt x : x < W64 -> wnot x < W64.
Proof. intros Hx. unfold wnot. pose proof W64_val. lia. Qed.

Lemma lor_lt x y : x < W64 -> y < W64 -> N.lor x y < W64.
Proof.
  intros Hx Hy. apply lt_W64_of_bits. intros b Hb. rewrite N.lor_spec.
  rewrite !testbit_lt_W64_high by assumption. reflexivity.
Qed.

Lemma land_lt x y : x < W64 -> N.land x y < W64.
Proof.
  intros Hx. apply lt_W64_of_bits. intros b Hb. rewrite N.land_spec.
  rewrite (testbit_lt_W64_high x) by assumption. reflexivity.
Qed.

Lemma land_zero_bit x m b : N.land x m = 0 -> N.testbit x b && N.testbit m b = false.
Proof. intros H. rewrite <- N.land_spec, H. apply N.bits_0. Qed.

Lemma land_zero_of_bits x m : (forall b, N.testbit x b && N.testbit m b = false) -> N.land x m = 0.
Proof. intros H. apply N.bits_inj_iff. intros b. rewrite N.land_spec, N.bits_0. apply H. Qed.

Lemma land_eq_bit x m b : N.land x m = m -> N.testbit m b = true -> N.testbit x b = true.
Proof.
  intros H Hm. rewrite <- H in Hm. rewrite N.land_spec in Hm. apply andb_prop in Hm. tauto.
Qed.

Lemma land_eq_of_bits x m : (forall b, N.testbit m b = true -> N.testbit x b = true) -> N.land x m = m.
Proof.
  intros H. apply N.bits_inj_iff. intros b. rewrite N.land_spec.
  destruct (N.testbit m b) eqn:E; [rewrite (H _ E); reflexivity|apply andb_false_r].
Qed.

Lemma eq_of_bits64 x y : x < W64 -> y < W64 -> (forall b, b < 64 -> N.testbit x b = N.testbit y b) -> x = y.
Proof.
  intros Hx Hy H. apply N.bits_inj_iff. intros b. destruct (N.lt_ge_cases b 64) as [Hb|Hb]; [apply H, Hb|].
  rewrite !testbit_lt_W64_high by assumption. reflexivity.
Qed.

Lemma land_FULL_zero x : x < W64 -> N.land x FULL = 0 -> x = 0.
Proof.
  intros Hx H. apply eq_of_bits64; [exact Hx|reflexivity|]. intros b Hb.
  pose proof (land_zero_bit _ _ b H) as Hz. rewrite FULL_testbit in Hz. rewrite N.bits_0.
  destruct (N.testbit x b); [|reflexivity]. assert (b <? 64 = true) by lia. rewrite H0 in Hz. discriminate.
Qed.

(* count leading zeros *)
Lemma clz_le64 x : clz x <= 64.
Proof. unfold clz. destruct (x =? 0); lia. Qed.

Lemma clz_high_bits x b : x < W64 -> 64 - clz x <= b -> N.testbit x b = false.
Proof.
  intros Hx Hb. unfold clz in Hb. destruct (x =? 0) eqn:E.
  - assert (x = 0) by lia. subst. apply N.bits_0.
  - apply N.bits_above_log2.
    assert (N.log2 x < 64). { apply N.log2_lt_pow2; [lia|exact Hx]. }
    lia.
Qed.

Lemma clz_zero_top x : x < W64 -> clz x = 0 -> N.testbit x 63 = true.
Proof.
  intros Hx H. unfold clz in H. destruct (x =? 0) eqn:E; [discriminate|].
  assert (Hl : N.log2 x < 64) by (apply N.log2_lt_pow2; [lia|exact Hx]).
  assert (N.log2 x = 63) by lia. rewrite <- H0. apply N.bit_log2. lia.
Qed.

Lemma top_clz_zero x : N.testbit x 63 = true -> x < W64 -> clz x = 0.
Proof.
  intros Hb Hx. unfold clz. destruct (x =? 0) eqn:E.
  - assert (x = 0) by lia. subst. rewrite N.bits_0 in Hb. discriminate.
  - assert (N.log2 x < 64) by (apply N.log2_lt_pow2; [lia|exact Hx]).
    assert (63 <= N.log2 x).
    { destruct (N.le_gt_cases 63 (N.log2 x)); [assumption|].
      rewrite N.bits_above_log2 in Hb by assumption. discriminate. }
    lia.
Qed.

(* the shifted mask of the scan loop *)
Lemma wrap_shiftl_shiftl m a s : wrap (N.shiftl (wrap (N.shiftl m a)) s) = wrap (N.shiftl m (a + s)).
Proof.
  apply N.bits_inj_iff. intros b. rewrite !wrap_testbit.
  destruct (b <? 64) eqn:E; [|rewrite !andb_false_r; reflexivity]. rewrite !andb_true_r.
  destruct (s <=? b) eqn:Es.
  - rewrite N.shiftl_spec_high' by lia. rewrite wrap_testbit.
    assert (b - s <? 64 = true) by lia. rewrite H, andb_true_r.
    destruct (a <=? b - s) eqn:Ea.
    + rewrite !N.shiftl_spec_high' by lia. f_equal. lia.
    + rewrite !N.shiftl_spec_low by lia. reflexivity.
  - rewrite !N.shiftl_spec_low by lia. reflexivity.
Qed.

Lemma wrap_shiftl_mask count bitidx : 1 <= count -> count <= 64 -> bitidx + count <= 64 ->
  wrap (N.shiftl (mask_ count 0) bitidx) = mask_ count bitidx.
Proof.
  intros H1 H2 H3. apply N.bits_inj_iff. intros b. rewrite wrap_testbit, mask_testbit by lia.
  destruct (bitidx <=? b) eqn:E.
  - rewrite N.shiftl_spec_high' by lia. rewrite mask_testbit by lia. lia.
  - rewrite N.shiftl_spec_low by lia. lia.
Qed.

(* ------------------------------------------------------------------------------------------ *)
(* Part B: field lists                                                                         *)
(* ------------------------------------------------------------------------------------------ *)

Definition bm_ok (bm : list N) : Prop := Forall (fun x => x < W64) bm.
Definition nfields (bm : list N) : N := N.of_nat (length bm).

Lemma length_setf_nat bm n v : length (setf_nat bm n v) = length bm.
Proof. revert n. induction bm as [|x r IH]; intros [|n]; cbn; auto. Qed.
Lemma length_setf bm i v : length (setf bm i v) = length bm.
Proof. apply length_setf_nat. Qed.
Lemma nfields_setf bm i v : nfields (setf bm i v) = nfields bm.
Proof. unfold nfields. rewrite length_setf. reflexivity. Qed.

Lemma nth_setf_nat_same bm n v : (n < length bm)%nat -> nth n (setf_nat bm n v) 0 = v.
Proof. revert n. induction bm as [|x r IH]; intros [|n] H; cbn in *; try lia; auto. apply IH. lia. Qed.
Lemma nth_setf_nat_other bm n k v : n <> k -> nth k (setf_nat bm n v) 0 = nth k bm 0.
Proof.
  revert n k. induction bm as [|x r IH]; intros [|n] [|k] H; cbn; auto; try congruence.
Qed.

Lemma getf_setf_same bm i v : i < nfields bm -> getf (setf bm i v) i = v.
Proof. unfold nfields, getf, setf. intros H. apply nth_setf_nat_same. lia. Qed.
Lemma getf_setf_other bm i j v : i <> j -> getf (setf bm i v) j = getf bm j.
Proof. unfold getf, setf. intros H. apply nth_setf_nat_other. lia. Qed.
Lemma getf_setf bm i j v : i < nfields bm -> getf (setf bm i v) j = if j =? i then v else getf bm j.
Proof.
  intros H. destruct (j =? i) eqn:E.
  - assert (j = i) by lia. subst. apply getf_setf_same, H.
  - apply getf_setf_other. lia.
Qed.

Lemma getf_lt bm i : bm_ok bm -> getf bm i < W64.
Proof.
  intros H. unfold getf. destruct (Nat.lt_ge_cases (N.to_nat i) (length bm)) as [Hl|Hl].
  - unfold bm_ok in H. rewrite Forall_forall in H. apply H. apply nth_In. exact Hl.
  - rewrite nth_overflow by exact Hl. reflexivity.
Qed.

Lemma getf_out bm i : nfields bm <= i -> getf bm i = 0.
Proof. unfold nfields, getf. intros H. apply nth_overflow. lia. Qed.

Lemma setf_nat_ok bm n v : bm_ok bm -> v < W64 -> bm_ok (setf_nat bm n v).
Proof.
  unfold bm_ok. revert n. induction bm as [|x r IH]; intros [|n] H Hv; cbn; auto.
  - inversion H; subst. constructor; assumption.
  - inversion H; subst. constructor; [assumption|]. apply IH; assumption.
Qed.
Lemma setf_ok bm i v : bm_ok bm -> v < W64 -> bm_ok (setf bm i v).
Proof. apply setf_nat_ok. Qed.

Lemma setf_nat_same_val bm n : setf_nat bm n (nth n bm 0) = bm.
Proof. revert n. induction bm as [|x r IH]; intros [|n]; cbn; auto. rewrite IH. reflexivity. Qed.
Lemma setf_getf bm i : setf bm i (getf bm i) = bm.
Proof. apply setf_nat_same_val. Qed.

Lemma setf_nat_setf_nat bm n v w : setf_nat (setf_nat bm n v) n w = setf_nat bm n w.
Proof. revert n. induction bm as [|x r IH]; intros [|n]; cbn; auto. rewrite IH. reflexivity. Qed.
Lemma setf_setf bm i v w : setf (setf bm i v) i w = setf bm i w.
Proof. apply setf_nat_setf_nat. Qed.

(* two bitmaps of the same length with the same fields are equal *)
Lemma bm_ext bm bm' : length bm = length bm' -> (forall i, i < nfields bm -> getf bm i = getf bm' i) -> bm = bm'.
Proof.
  intros Hl H. apply nth_ext with (d := 0) (d' := 0); [exact Hl|].
  intros n Hn. specialize (H (N.of_nat n)). unfold getf, nfields in H. rewrite Nat2N.id in H. apply H. lia.
Qed.

(* flat bit positions *)
Lemma bm_bit_ib bm i b : b < 64 -> bm_bit bm (64 * i + b) = N.testbit (getf bm i) b.
Proof.
  intros Hb. unfold bm_bit.
  replace ((64 * i + b) / 64) with i by lia. replace ((64 * i + b) mod 64) with b by lia. reflexivity.
Qed.
Lemma flat_split p : p = 64 * (p / 64) + p mod 64 /\ p mod 64 < 64.
Proof. lia. Qed.

Lemma set_nth_length {A} (l : list A) n x : length (set_nth l n x) = length l.
Proof. revert n. induction l as [|y r IH]; intros [|n]; cbn; auto. Qed.
Lemma nth_error_set_nth_same {A} (l : list A) n x : (n < length l)%nat -> nth_error (set_nth l n x) n = Some x.
Proof. revert n. induction l as [|y r IH]; intros [|n] H; cbn in *; try lia; auto. apply IH. lia. Qed.
Lemma nth_error_set_nth_other {A} (l : list A) n k x : n <> k -> nth_error (set_nth l n x) k = nth_error l k.
Proof. revert n k. induction l as [|y r IH]; intros [|n] [|k] H; cbn; auto; congruence. Qed.
Lemma set_nth_set_nth {A} (l : list A) n x y : set_nth (set_nth l n x) n y = set_nth l n y.
Proof. revert n. induction l as [|z r IH]; intros [|n]; cbn; auto. rewrite IH. reflexivity. Qed.
Lemma nth_error_lt {A} (l : list A) n x : nth_error l n = Some x -> (n < length l)%nat.
Proof. intros H. apply nth_error_Some. congruence. Qed.

(* ------------------------------------------------------------------------------------------ *)
(* Part C: the interleaving invariant                                                          *)
(* ------------------------------------------------------------------------------------------ *)

(* ownership gained by the pool in a step *)
Definition gain (ev : gev) (q : N) : nat :=
  match ev with GClaimed s c => Nat.b2n (in_rng (s, s + c) q) | _ => 0%nat end.
Definition nogain (ev : gev) : Prop := match ev with GClaimed _ _ => False | _ => True end.
Lemma nogain_gain ev q : nogain ev -> gain ev q = 0%nat.
Proof. destruct ev; cbn; tauto. Qed.

Lemma thr_cnt_set_nth thr t th th' q :
  nth_error thr t = Some th ->
  (thr_cnt (set_nth thr t th') q + Nat.b2n (in_rng (held (t_pc th)) q) =
   thr_cnt thr q + Nat.b2n (in_rng (held (t_pc th')) q))%nat.
Proof.
  revert t. induction thr as [|x r IH]; intros [|t] H; cbn [nth_error set_nth] in *; try discriminate.
  - inversion H; subst. unfold thr_cnt. cbn [fold_right t_pc]. lia.
  - specialize (IH _ H). unfold thr_cnt in *. cbn [fold_right]. lia.
Qed.

Lemma pool_cnt_cons c pool q : pool_cnt (c :: pool) q = (Nat.b2n (in_rng (claim_rng (snd c)) q) + pool_cnt pool q)%nat.
Proof. reflexivity. Qed.

Lemma pool_remove_cnt pool r pool' q :
  pool_remove pool r = Some pool' ->
  (pool_cnt pool q = pool_cnt pool' q + Nat.b2n (in_rng (claim_rng r) q))%nat.
Proof.
  revert pool'. induction pool as [|c rest IH]; intros pool' H; cbn in H; [discriminate|].
  destruct (range_eqb (snd c) r) eqn:E.
  - inversion H; subst. rewrite pool_cnt_cons. unfold range_eqb in E.
    destruct (snd c) as [a1 a2], r as [r1 r2]. cbn in E. assert (a1 = r1 /\ a2 = r2) as [-> ->] by lia. lia.
  - destruct (pool_remove rest r) as [rest'|] eqn:E2; [|discriminate]. inversion H; subst.
    rewrite !pool_cnt_cons. rewrite (IH _ eq_refl). lia.
Qed.

Lemma pool_remove_wf fields pool r pool' :
  pool_remove pool r = Some pool' ->
  Forall (fun c => wf_claim fields (snd c) = true) pool ->
  Forall (fun c => wf_claim fields (snd c) = true) pool' /\ wf_claim fields r = true.
Proof.
  revert pool'. induction pool as [|c rest IH]; intros pool' H Hw; cbn in H; [discriminate|].
  inversion Hw; subst. destruct (range_eqb (snd c) r) eqn:E.
  - inversion H; subst. split; [assumption|]. unfold range_eqb in E. unfold wf_claim in *.
    destruct (snd c) as [a1 a2], r as [r1 r2]. cbn in *. lia.
  - destruct (pool_remove rest r) as [rest'|] eqn:E2; [|discriminate]. inversion H; subst.
    destruct (IH _ eq_refl H3) as [Hr Hc]. split; [constructor; assumption|assumption].
Qed.

(* a (pc, event) pair that holds nothing and claims nothing *)
Definition quiet (fields : N) (x : pc * gev) : Prop :=
  wf_pc fields (fst x) = true /\ held (fst x) = (0, 0) /\ nogain (snd x).

Lemma next_field_quiet fields l : 1 <= cl_count l -> cl_count l + 64 < W64 -> quiet fields (next_field fields l).
Proof.
  intros Hc Hb. unfold next_field, quiet.
  destruct (cl_visited l + 1 <? fields) eqn:Ev; cbn [fst snd]; [|repeat split; reflexivity].
  unfold attempt_pc. cbn [cl_count].
  destruct (cl_count l <=? 2) eqn:E2; cbn [wf_pc held cl_idx cl_count];
    destruct (fields <=? cl_idx l + 1) eqn:Ef; repeat split; cbn; lia.
Qed.

Lemma scan_field_spec fuel count map bitidx m b m' :
  1 <= count -> count <= 64 -> m = wrap (N.shiftl (mask_ count 0) bitidx) ->
  scan_field fuel count map bitidx m = Some (b, m') ->
  b + count <= 64 /\ m' = mask_ count b /\ N.land map m' = 0 /\ bitidx <= b.
Proof.
  intros H1 H64. revert bitidx m. induction fuel as [|f IH]; intros bitidx m Hm H; cbn [scan_field] in H; [discriminate|].
  destruct (bitidx <=? 64 - count) eqn:Eb; [|discriminate].
  destruct (N.land map m =? 0) eqn:Ez.
  - inversion H; subst b m'. repeat split; try lia. rewrite Hm. apply wrap_shiftl_mask; lia.
  - apply IH in H.
    + destruct H as (Ha & Hb & Hc & Hd). repeat split; try assumption.
      destruct (count =? 1); lia.
    + rewrite Hm. apply wrap_shiftl_shiftl.
Qed.

Lemma field_scan_quiet fields l map bitidx m :
  cl_idx l < fields -> 1 <= cl_count l -> cl_count l <= 64 ->
  m = wrap (N.shiftl (mask_ (cl_count l) 0) bitidx) ->
  quiet fields (field_scan fields l map bitidx m).
Proof.
  intros Hi H1 H64 Hm. assert (HW : cl_count l + 64 < W64) by (pose proof W64_val; lia). unfold field_scan.
  destruct (scan_field SCAN_FUEL (cl_count l) map bitidx m) as [[b m']|] eqn:E.
  - apply scan_field_spec in E; try assumption. destruct E as (Ha & Hb & Hc & _).
    unfold quiet. cbn [fst snd wf_pc held]. repeat split; try reflexivity. rewrite Hc. subst m'. lia.
  - apply next_field_quiet; assumption.
Qed.

Lemma after_rollback_quiet fields l : cl_idx l < fields -> 1 <= cl_count l -> cl_count l + 64 < W64 -> quiet fields (after_rollback fields l).
Proof.
  intros Hi Hc Hb. unfold after_rollback. destruct (cl_retries l <=? 2).
  - unfold quiet. cbn [fst snd wf_pc held nogain cl_idx cl_count]. repeat split; lia.
  - apply next_field_quiet; assumption.
Qed.

Lemma wfA_facts fields l : wfA fields l = true ->
  cl_idx l < cl_final l /\ cl_final l < fields /\ 1 <= cl_initial l /\ cl_initial l <= 64 /\
  mid_bits l < cl_count l /\ cl_count l <= mid_bits l + 64 /\ cl_fmask l = mask_ (cl_count l - mid_bits l) 0 /\
  cl_count l + 64 < W64.
Proof. unfold wfA. intros H. lia. Qed.

Lemma rollback_from_spec fields l f :
  wfA fields l = true -> cl_idx l <= f -> f <= cl_final l ->
  wf_pc fields (fst (rollback_from fields l f)) = true /\ nogain (snd (rollback_from fields l f)) /\
  forall q, in_rng (held (fst (rollback_from fields l f))) q = in_rng (astart l, 64 * f) q.
Proof.
  intros Hw H1 H2. pose proof (wfA_facts _ _ Hw) as (Ha & Hb & Hc & Hd & He & Hf & Hg & HW).
  unfold rollback_from. destruct (f =? cl_idx l) eqn:E1.
  - destruct (after_rollback_quiet fields l) as (Q1 & Q2 & Q3); [lia|unfold mid_bits in *; lia|lia|].
    repeat split; try assumption. intros q. rewrite Q2. unfold in_rng, astart, initial_idx. cbn [fst snd]. lia.
  - destruct (f =? cl_idx l + 1) eqn:E2; cbn [fst snd wf_pc held nogain].
    + repeat split; try assumption. intros q. unfold in_rng. cbn [fst snd]. lia.
    + repeat split; try lia. intros q. unfold in_rng. cbn [fst snd]. lia.
Qed.

Lemma init_try_quiet fields l v : wfA fields l = true -> quiet fields (init_try fields l v).
Proof.
  intros Hw. pose proof (wfA_facts _ _ Hw) as (Ha & Hb & Hc & Hd & He & Hf & Hg & HW).
  unfold init_try. destruct (N.land v (initial_mask l) =? 0) eqn:E; cbn [negb].
  - unfold quiet. cbn [fst snd wf_pc held nogain]. repeat split; try reflexivity. rewrite Hw, E. reflexivity.
  - unfold rollback_from. rewrite N.eqb_refl. apply after_rollback_quiet; [lia|unfold mid_bits in *; lia|lia].
Qed.

Lemma after_claimed_field_spec fields l j :
  wfA fields l = true -> cl_idx l <= j -> j < cl_final l ->
  wf_pc fields (after_claimed_field l j) = true /\
  forall q, in_rng (held (after_claimed_field l j)) q = in_rng (astart l, 64 * (j + 1)) q.
Proof.
  intros Hw H1 H2. pose proof (wfA_facts _ _ Hw) as (Ha & Hb & Hc & Hd & He & Hf & Hg & HW).
  unfold after_claimed_field. destruct (j + 1 <? cl_final l) eqn:E; cbn [wf_pc held].
  - split; [rewrite Hw; lia|]. intros q. reflexivity.
  - split; [exact Hw|]. intros q. assert (cl_final l = j + 1) by lia. rewrite H. reflexivity.
Qed.

Lemma final_try_spec fields l v :
  wfA fields l = true ->
  wf_pc fields (fst (final_try fields l v)) = true /\ nogain (snd (final_try fields l v)) /\
  forall q, in_rng (held (fst (final_try fields l v))) q = in_rng (astart l, 64 * cl_final l) q.
Proof.
  intros Hw. pose proof (wfA_facts _ _ Hw) as (Ha & Hb & Hc & Hd & He & Hf & Hg & HW).
  unfold final_try. destruct (N.land v (cl_fmask l) =? 0) eqn:E; cbn [negb].
  - cbn [fst snd wf_pc held nogain]. repeat split; try reflexivity. rewrite Hw, E. reflexivity.
  - apply rollback_from_spec; [exact Hw|lia|lia].
Qed.

Lemma p_dec_quiet fields bi len :
  1 <= len -> index_bit_in_field bi + len <= 64 -> index_field bi < fields -> quiet fields (p_dec bi len).
Proof.
  intros H1 H2 H3. unfold p_dec. destruct (0 <? len - 1) eqn:E; unfold quiet; cbn; repeat split; lia.
Qed.
Lemma p_try_quiet fields bi len v :
  1 <= len -> index_bit_in_field bi + len <= 64 -> index_field bi < fields -> quiet fields (p_try bi len v).
Proof.
  intros H1 H2 H3. unfold p_try. destruct (N.land v (p_mask bi len) =? 0) eqn:E; cbn [negb].
  - unfold quiet. cbn [fst snd wf_pc held nogain]. repeat split; try reflexivity. rewrite E. lia.
  - apply p_dec_quiet; assumption.
Qed.

(* ---- one atomic access preserves "every set bit has exactly one owner" ---- *)

(* the bits the thread holds in the accessed field are set in the value it reads (from Inv) *)
Definition held_set (p : pc) (v : N) : Prop :=
  forall b, b < 64 -> in_rng (held p) (64 * access_field p + b) = true -> N.testbit v b = true.

(* change of ownership = change of the bits, at every position (field i, bit b) *)
Definition eff_ok (p p' : pc) (ev : gev) (a v v' : N) : Prop :=
  forall i b, b < 64 ->
    (Nat.b2n (in_rng (held p') (64 * i + b)%N) + gain ev (64 * i + b)%N + Nat.b2n ((i =? a)%N && N.testbit v b)
     = Nat.b2n (in_rng (held p) (64 * i + b)%N) + Nat.b2n ((i =? a)%N && N.testbit v' b))%nat.

Definition claim_ok (fields : N) (ev : gev) : Prop :=
  match ev with GClaimed s c => wf_claim fields (s, c) = true | _ => True end.

Definition sound (fields : N) (p : pc) (v : N) : Prop :=
  let '(p', w, ev) := exec fields p v in
  let v' := match w with Some x => x | None => v end in
  wf_pc fields p' = true /\ v' < W64 /\ claim_ok fields ev /\ eff_ok p p' ev (access_field p) v v'.

(* a step that writes nothing, gains nothing and leaves the held range as it is *)
Lemma sound_nowrite fields p v (x : pc * gev) :
  v < W64 -> wf_pc fields (fst x) = true -> nogain (snd x) ->
  (forall q, in_rng (held (fst x)) q = in_rng (held p) q) ->
  wf_pc fields (fst x) = true /\ v < W64 /\ claim_ok fields (snd x) /\ eff_ok p (fst x) (snd x) (access_field p) v v.
Proof.
  intros Hv Hw Hn Hh. repeat split; try assumption.
  - destruct (snd x); cbn in *; tauto.
  - intros i b Hb. rewrite Hh, nogain_gain by assumption. lia.
Qed.

Lemma quiet_nowrite fields p v (x : pc * gev) :
  v < W64 -> held p = (0, 0) -> quiet fields x ->
  wf_pc fields (fst x) = true /\ v < W64 /\ claim_ok fields (snd x) /\ eff_ok p (fst x) (snd x) (access_field p) v v.
Proof.
  intros Hv Hp (Q1 & Q2 & Q3). apply sound_nowrite; try assumption. intros q. rewrite Q2, Hp. reflexivity.
Qed.

Ltac w64lia := pose proof W64_val; lia.

Lemma ex_FLoad fields l v : wf_pc fields (FLoad l) = true -> v < W64 -> sound fields (FLoad l) v.
Proof.
  intros Hw Hv. cbn [wf_pc] in Hw. unfold sound, exec.
  destruct (v =? FULL) eqn:E; cbv zeta.
  - apply quiet_nowrite; [assumption|reflexivity|]. apply next_field_quiet; w64lia.
  - apply quiet_nowrite; [assumption|reflexivity|]. apply field_scan_quiet; lia.
Qed.

Lemma ex_FCas fields l map bitidx m v :
  wf_pc fields (FCas l map bitidx m) = true -> v < W64 -> sound fields (FCas l map bitidx m) v.
Proof.
  intros Hw Hv. cbn [wf_pc] in Hw. unfold sound, exec.
  assert (Hm : m = mask_ (cl_count l) bitidx) by lia.
  assert (Hz : N.land map m = 0) by lia.
  destruct (v =? map) eqn:E; cbv zeta.
  - assert (v = map) by lia. subst v. cbn [wf_pc]. repeat split.
    + apply lor_lt; [assumption|]. rewrite Hm. apply mask_lt.
    + cbn [claim_ok]. unfold wf_claim, index_create. cbn [fst snd]. lia.
    + intros i b Hb. cbn [held gain access_field]. pose proof (land_zero_bit _ _ b Hz) as Hzb.
      rewrite N.lor_spec. rewrite Hm in *. rewrite mask_testbit in * by lia.
      unfold in_rng, index_create. cbn [fst snd]. lia.
  - apply quiet_nowrite; [assumption|reflexivity|]. apply field_scan_quiet; try lia.
    rewrite Hm. symmetry. apply wrap_shiftl_mask; lia.
Qed.

Lemma divide_up_64 x : x + 64 < W64 -> divide_up x 64 = (x + 63) / 64.
Proof.
  intros H. unfold divide_up. cbn [N.eqb]. unfold wadd, wsub. rewrite (wrap_small _ H).
  assert (E : (1 <=? x + 64) = true) by lia. rewrite E. f_equal. lia.
Qed.

Lemma ex_ALoad fields l v : wf_pc fields (ALoad l) = true -> v < W64 -> sound fields (ALoad l) v.
Proof.
  intros Hw Hv. cbn [wf_pc] in Hw. unfold sound, exec. cbv zeta.
  destruct (clz v =? 0) eqn:E0.
  - apply quiet_nowrite; [assumption|reflexivity|]. apply next_field_quiet; w64lia.
  - destruct (cl_count l <=? clz v) eqn:E1.
    + pose proof (clz_le64 v). cbn [wf_pc]. repeat split; try assumption; try lia.
      intros i b Hb. cbn [held gain]. lia.
    + destruct (fields - cl_idx l <=? divide_up (cl_count l - clz v) 64) eqn:E2.
      * apply quiet_nowrite; [assumption|reflexivity|]. apply next_field_quiet; w64lia.
      * pose proof (clz_le64 v). cbn [wf_pc cl_initial cl_idx cl_count]. repeat split; try assumption.
        -- rewrite divide_up_64 in E2 by w64lia. lia.
        -- intros i b Hb. cbn [held gain]. lia.
Qed.

Lemma ex_AScan fields l j found v : wf_pc fields (AScan l j found) = true -> v < W64 -> sound fields (AScan l j found) v.
Proof.
  intros Hw Hv. cbn [wf_pc] in Hw. unfold sound, exec. cbv zeta.
  set (mask_bits := if found + 64 <=? cl_count l then 64 else cl_count l - found).
  destruct (N.land v (mask_ mask_bits 0) =? 0) eqn:E; cbn [negb].
  - destruct (found + mask_bits <? cl_count l) eqn:E2.
    + cbn [wf_pc]. repeat split; try assumption.
      * subst mask_bits. destruct (found + 64 <=? cl_count l) eqn:E3; lia.
      * intros i b Hb. cbn [held gain]. lia.
    + cbn [wf_pc]. repeat split; try assumption.
      * unfold wfA, mid_bits. cbn [cl_idx cl_final cl_initial cl_count cl_fmask].
        subst mask_bits. destruct (found + 64 <=? cl_count l) eqn:E3.
        -- assert (cl_count l - (cl_initial l + 64 * (j - cl_idx l - 1)) = 64) by lia. rewrite H. lia.
        -- assert (cl_count l - (cl_initial l + 64 * (j - cl_idx l - 1)) = cl_count l - found) by lia. rewrite H. lia.
      * intros i b Hb. cbn [held gain]. lia.
  - apply quiet_nowrite; [assumption|reflexivity|]. apply next_field_quiet; lia.
Qed.

Lemma ex_AInitLoad fields l v : wf_pc fields (AInitLoad l) = true -> v < W64 -> sound fields (AInitLoad l) v.
Proof.
  intros Hw Hv. cbn [wf_pc] in Hw. unfold sound, exec. cbv zeta.
  apply quiet_nowrite; [assumption|reflexivity|]. apply init_try_quiet, Hw.
Qed.

Lemma ex_AInitCas fields l map v : wf_pc fields (AInitCas l map) = true -> v < W64 -> sound fields (AInitCas l map) v.
Proof.
  intros Hw Hv. cbn [wf_pc] in Hw. apply andb_prop in Hw as [Hw Hz].
  pose proof (wfA_facts _ _ Hw) as (Ha & Hb & Hc & Hd & He & Hf & Hg & HW).
  unfold sound, exec. cbv zeta. destruct (v =? map) eqn:E.
  - assert (v = map) by lia. subst v.
    destruct (after_claimed_field_spec fields l (cl_idx l) Hw) as [W1 W2]; [lia|lia|].
    assert (Hz' : N.land map (initial_mask l) = 0) by lia.
    repeat split; try assumption.
    + apply lor_lt; [assumption|apply mask_lt].
    + intros i b Hb'. rewrite W2. cbn [held gain access_field]. pose proof (land_zero_bit _ _ b Hz') as Hzb.
      rewrite N.lor_spec. unfold initial_mask, initial_idx in *. rewrite mask_testbit in * by lia.
      unfold in_rng, astart, initial_idx. cbn [fst snd]. lia.
  - apply quiet_nowrite; [assumption|reflexivity|]. apply init_try_quiet, Hw.
Qed.

Lemma ex_AMidCas fields l j v : wf_pc fields (AMidCas l j) = true -> v < W64 -> sound fields (AMidCas l j) v.
Proof.
  intros Hw Hv. cbn [wf_pc] in Hw. apply andb_prop in Hw as [Hw Hj2]. apply andb_prop in Hw as [Hw Hj1].
  pose proof (wfA_facts _ _ Hw) as (Ha & Hb & Hc & Hd & He & Hf & Hg & HW).
  unfold sound, exec. cbv zeta. destruct (v =? 0) eqn:E.
  - assert (v = 0) by lia. subst v.
    destruct (after_claimed_field_spec fields l j Hw) as [W1 W2]; [lia|lia|].
    repeat split; try assumption; try apply FULL_lt.
    intros i b Hb'. rewrite W2. cbn [held gain access_field]. rewrite FULL_testbit, N.bits_0.
    unfold in_rng, astart, initial_idx. cbn [fst snd]. lia.
  - destruct (rollback_from_spec fields l j Hw) as (R1 & R2 & R3); [lia|lia|].
    apply sound_nowrite; try assumption; intros q; rewrite R3; reflexivity.
Qed.

Lemma ex_AFinalLoad fields l v : wf_pc fields (AFinalLoad l) = true -> v < W64 -> sound fields (AFinalLoad l) v.
Proof.
  intros Hw Hv. cbn [wf_pc] in Hw. unfold sound, exec. cbv zeta.
  destruct (final_try_spec fields l v Hw) as (R1 & R2 & R3).
  apply sound_nowrite; try assumption.
Qed.

Lemma ex_AFinalCas fields l map v : wf_pc fields (AFinalCas l map) = true -> v < W64 -> sound fields (AFinalCas l map) v.
Proof.
  intros Hw Hv. cbn [wf_pc] in Hw. apply andb_prop in Hw as [Hw Hz].
  pose proof (wfA_facts _ _ Hw) as (Ha & Hb & Hc & Hd & He & Hf & Hg & HW).
  unfold sound, exec. cbv zeta. destruct (v =? map) eqn:E.
  - assert (v = map) by lia. subst v.
    assert (Hz' : N.land map (cl_fmask l) = 0) by lia.
    cbn [wf_pc]. repeat split; try assumption.
    + apply lor_lt; [assumption|rewrite Hg; apply mask_lt].
    + cbn [claim_ok]. unfold wf_claim, index_create, initial_idx, mid_bits in *. cbn [fst snd]. lia.
    + intros i b Hb'. cbn [held gain access_field]. pose proof (land_zero_bit _ _ b Hz') as Hzb.
      rewrite N.lor_spec. rewrite Hg in *. unfold mid_bits in *. rewrite mask_testbit in * by lia.
      unfold in_rng, astart, index_create, initial_idx. cbn [fst snd]. lia.
  - destruct (final_try_spec fields l v Hw) as (R1 & R2 & R3).
    apply sound_nowrite; try assumption.
Qed.

Lemma ex_ARollStore fields l j v :
  wf_pc fields (ARollStore l j) = true -> v < W64 -> held_set (ARollStore l j) v -> sound fields (ARollStore l j) v.
Proof.
  intros Hw Hv Hs. cbn [wf_pc] in Hw. apply andb_prop in Hw as [Hw Hj2]. apply andb_prop in Hw as [Hw Hj1].
  pose proof (wfA_facts _ _ Hw) as (Ha & Hb & Hc & Hd & He & Hf & Hg & HW).
  unfold sound, exec. cbv zeta.
  destruct (rollback_from_spec fields l j Hw) as (R1 & R2 & R3); [lia|lia|].
  split; [assumption|]. split; [reflexivity|]. split.
  - destruct (snd (rollback_from fields l j)); cbn in *; tauto.
  - intros i b Hb'. rewrite R3, nogain_gain by assumption. cbn [held access_field]. rewrite N.bits_0.
    specialize (Hs b Hb'). cbn [held access_field] in Hs.
    unfold in_rng, astart, initial_idx in *. cbn [fst snd] in *. lia.
Qed.

Lemma ex_ARollInitLoad fields l v : wf_pc fields (ARollInitLoad l) = true -> v < W64 -> sound fields (ARollInitLoad l) v.
Proof.
  intros Hw Hv. cbn [wf_pc] in Hw. unfold sound, exec. cbn [wf_pc]. repeat split; try assumption.
  intros i b Hb. cbn [held gain]. lia.
Qed.

Lemma ex_ARollInitCas fields l map v :
  wf_pc fields (ARollInitCas l map) = true -> v < W64 -> held_set (ARollInitCas l map) v -> sound fields (ARollInitCas l map) v.
Proof.
  intros Hw Hv Hs. cbn [wf_pc] in Hw.
  pose proof (wfA_facts _ _ Hw) as (Ha & Hb & Hc & Hd & He & Hf & Hg & HW).
  unfold sound, exec. cbv zeta. destruct (v =? map) eqn:E.
  - assert (v = map) by lia. subst v.
    destruct (after_rollback_quiet fields l) as (Q1 & Q2 & Q3); [lia|unfold mid_bits in *; lia|lia|].
    split; [assumption|]. split; [apply land_lt, Hv|]. split.
    + destruct (snd (after_rollback fields l)); cbn in *; tauto.
    + intros i b Hb'. rewrite Q2, nogain_gain by assumption. cbn [held access_field].
      rewrite N.land_spec, wnot_testbit by apply mask_lt.
      unfold initial_mask, initial_idx. rewrite mask_testbit by lia.
      specialize (Hs b Hb'). cbn [held access_field] in Hs.
      unfold in_rng, astart, initial_idx in *. cbn [fst snd] in *. lia.
  - cbn [wf_pc]. repeat split; try assumption. intros i b Hb'. cbn [held gain]. lia.
Qed.

Lemma u_next_spec fields u j k a :
  let e := ul_start u + ul_count u in
  64 * (j + k) <= e -> e < 64 * (j + k) + 64 -> e <= 64 * fields -> ul_start u < 64 * j ->
  ul_mid u = FULL -> ul_post u = (if e mod 64 =? 0 then 0 else mask_ (e mod 64) 0) ->
  wf_pc fields (fst (u_next u j k a)) = true /\ nogain (snd (u_next u j k a)) /\
  forall q, in_rng (held (fst (u_next u j k a))) q = in_rng (64 * j, e) q.
Proof.
  intros e H1 H2 H3 H4 H5 H6. unfold u_next. destruct (0 <? k) eqn:Ek.
  - cbn [fst snd wf_pc held nogain]. fold e. repeat split; try reflexivity.
    rewrite H5, H6. rewrite !N.eqb_refl. lia.
  - assert (k = 0) by lia. subst k. destruct (e mod 64 =? 0) eqn:Em.
    + rewrite H6. cbn [N.eqb negb fst snd wf_pc held nogain]. repeat split; try reflexivity.
      intros q. unfold in_rng. cbn [fst snd]. lia.
    + assert (Hnz : ul_post u <> 0). { rewrite H6. apply mask_nonzero; lia. }
      assert (Eq : (ul_post u =? 0) = false) by lia. rewrite Eq.
      cbn [negb fst snd wf_pc held nogain]. fold e. repeat split; try reflexivity.
      rewrite H6. rewrite N.eqb_refl. lia.
Qed.

Lemma ex_UPre fields u v : wf_pc fields (UPre u) = true -> v < W64 -> held_set (UPre u) v -> sound fields (UPre u) v.
Proof.
  intros Hw Hv Hs. cbn [wf_pc] in Hw. unfold wf_claim in Hw. cbn [fst snd] in Hw.
  unfold sound, exec. cbv zeta. unfold mask_across in *.
  set (bit := index_bit_in_field (ul_start u)) in *.
  assert (Hbit : bit = ul_start u mod 64) by reflexivity.
  unfold held_set in Hs. cbn [held access_field] in Hs. unfold index_field in *.
  destruct (bit + ul_count u <=? 64) eqn:Ec.
  - (* the range lies inside one field *)
    cbn [snd] in *. assert (Hpre : ul_pre u = mask_ (ul_count u) bit) by lia.
    assert (Hpost : ul_post u = 0) by lia.
    unfold u_next. cbn [N.ltb N.compare]. rewrite Hpost. cbn [N.eqb negb fst snd wf_pc].
    split; [reflexivity|]. split; [apply land_lt, Hv|]. split; [exact I|].
    intros i b Hb. cbn [held gain access_field]. unfold index_field.
    rewrite N.land_spec, wnot_testbit by (rewrite Hpre; apply mask_lt). rewrite Hpre, mask_testbit by lia.
    specialize (Hs b Hb). unfold in_rng in *. cbn [fst snd] in *. lia.
  - cbn [snd] in *.
    set (c' := ul_count u - (64 - bit)) in *.
    assert (Hpre : ul_pre u = mask_ (64 - bit) bit) by lia.
    assert (Hmid : ul_mid u = FULL) by lia.
    assert (Hpost : ul_post u = (if c' mod 64 =? 0 then 0 else mask_ (c' mod 64) 0)) by lia.
    assert (He : (ul_start u + ul_count u) mod 64 = c' mod 64) by (subst c'; lia).
    destruct (u_next_spec fields u (ul_start u / 64 + 1) (c' / 64) (N.land v (ul_pre u) =? ul_pre u)) as (R1 & R2 & R3);
      try (subst c'; lia).
    { rewrite He. exact Hpost. }
    split; [assumption|]. split; [apply land_lt, Hv|]. split.
    + destruct (snd (u_next u (ul_start u / 64 + 1) (c' / 64) (N.land v (ul_pre u) =? ul_pre u))); cbn in *; tauto.
    + intros i b Hb. rewrite R3, nogain_gain by assumption. cbn [held access_field]. unfold index_field.
      rewrite N.land_spec, wnot_testbit by (rewrite Hpre; apply mask_lt). rewrite Hpre, mask_testbit by lia.
      specialize (Hs b Hb). unfold in_rng in *. cbn [fst snd] in *. lia.
Qed.

Lemma ex_UMid fields u j k a v :
  wf_pc fields (UMid u j k a) = true -> v < W64 -> held_set (UMid u j k a) v -> sound fields (UMid u j k a) v.
Proof.
  intros Hw Hv Hs. cbn [wf_pc] in Hw. cbv zeta in Hw.
  unfold sound, exec. cbv zeta.
  unfold held_set in Hs. cbn [held access_field] in Hs.
  assert (Hmid : ul_mid u = FULL) by lia.
  destruct (u_next_spec fields u (j + 1) (k - 1) (a && (N.land v (ul_mid u) =? ul_mid u))) as (R1 & R2 & R3); try lia.
  split; [assumption|]. split; [apply land_lt, Hv|]. split.
  - destruct (snd (u_next u (j + 1) (k - 1) (a && (N.land v (ul_mid u) =? ul_mid u)))); cbn in *; tauto.
  - intros i b Hb. rewrite R3, nogain_gain by assumption. cbn [held access_field].
    rewrite N.land_spec, wnot_testbit by (rewrite Hmid; apply FULL_lt). rewrite Hmid, FULL_testbit.
    specialize (Hs b Hb). unfold in_rng in *. cbn [fst snd] in *. lia.
Qed.

Lemma ex_UPost fields u j a v :
  wf_pc fields (UPost u j a) = true -> v < W64 -> held_set (UPost u j a) v -> sound fields (UPost u j a) v.
Proof.
  intros Hw Hv Hs. cbn [wf_pc] in Hw. cbv zeta in Hw.
  unfold sound, exec. cbv zeta.
  unfold held_set in Hs. cbn [held access_field] in Hs.
  assert (Hpost : ul_post u = mask_ ((ul_start u + ul_count u) mod 64) 0) by lia.
  cbn [wf_pc]. split; [reflexivity|]. split; [apply land_lt, Hv|]. split; [exact I|].
  intros i b Hb. cbn [held gain access_field].
  rewrite N.land_spec, wnot_testbit by (rewrite Hpost; apply mask_lt). rewrite Hpost, mask_testbit by lia.
  specialize (Hs b Hb). unfold in_rng in *. cbn [fst snd] in *. lia.
Qed.

Lemma ex_PLoad fields bi len v : wf_pc fields (PLoad bi len) = true -> v < W64 -> sound fields (PLoad bi len) v.
Proof.
  intros Hw Hv. cbn [wf_pc] in Hw. unfold sound, exec. cbv zeta.
  apply quiet_nowrite; [assumption|reflexivity|]. apply p_try_quiet; lia.
Qed.

Lemma ex_PCas fields bi len e v : wf_pc fields (PCas bi len e) = true -> v < W64 -> sound fields (PCas bi len e) v.
Proof.
  intros Hw Hv. cbn [wf_pc] in Hw. unfold sound, exec. cbv zeta.
  destruct (v =? e) eqn:E.
  - assert (v = e) by lia. subst v. assert (Hz : N.land e (p_mask bi len) = 0) by lia.
    cbn [wf_pc]. split; [lia|]. split; [apply lor_lt; [assumption|apply mask_lt]|]. split; [exact I|].
    intros i b Hb. cbn [held gain access_field]. pose proof (land_zero_bit _ _ b Hz) as Hzb.
    rewrite N.lor_spec. unfold p_mask, index_bit_in_field, index_field in *. rewrite mask_testbit in * by lia.
    unfold in_rng. cbn [fst snd]. lia.
  - apply quiet_nowrite; [assumption|reflexivity|]. apply p_try_quiet; lia.
Qed.

Lemma ex_PUnclaim fields bi len v :
  wf_pc fields (PUnclaim bi len) = true -> v < W64 -> held_set (PUnclaim bi len) v -> sound fields (PUnclaim bi len) v.
Proof.
  intros Hw Hv Hs. cbn [wf_pc] in Hw. unfold sound, exec. cbv zeta.
  unfold held_set in Hs. cbn [held access_field] in Hs.
  cbn [wf_pc]. split; [reflexivity|]. split; [apply land_lt, Hv|]. split; [exact I|].
  intros i b Hb. cbn [held gain access_field].
  rewrite N.land_spec, wnot_testbit by apply mask_lt.
  unfold p_mask, index_bit_in_field, index_field in *. rewrite mask_testbit by lia.
  specialize (Hs b Hb). unfold in_rng in *. cbn [fst snd] in *. lia.
Qed.

Theorem exec_sound fields p v :
  wf_pc fields p = true -> v < W64 -> held_set p v -> sound fields p v.
Proof.
  intros Hw Hv Hs. destruct p.
  - unfold sound, exec. cbn [wf_pc]. repeat split; try assumption. intros i b Hb. cbn [held gain]. lia.
  - apply ex_FLoad; assumption.
  - apply ex_FCas; assumption.
  - apply ex_ALoad; assumption.
  - apply ex_AScan; assumption.
  - apply ex_AInitLoad; assumption.
  - apply ex_AInitCas; assumption.
  - apply ex_AMidCas; assumption.
  - apply ex_AFinalLoad; assumption.
  - apply ex_AFinalCas; assumption.
  - apply ex_ARollStore; assumption.
  - apply ex_ARollInitLoad; assumption.
  - apply ex_ARollInitCas; assumption.
  - apply ex_UPre; assumption.
  - apply ex_UMid; assumption.
  - apply ex_UPost; assumption.
  - apply ex_PLoad; assumption.
  - apply ex_PCas; assumption.
  - apply ex_PUnclaim; assumption.
Qed.

Lemma wf_access fields p : wf_pc fields p = true -> p <> Idle -> access_field p < fields.
Proof.
  intros Hw Hn. destruct p; cbn [wf_pc access_field] in *; try congruence; try lia;
    try (unfold wfA, wf_claim, index_field in *; cbn [fst snd] in *; lia).
Qed.

(* ---- the invariant (Appendix A.5 of DESIGN.md) ---- *)

Record Inv (pre : list N) (s : state) : Prop := mkInv {
  inv_len : length (s_bm s) = length pre;
  inv_lt : bm_ok (s_bm s);
  inv_wf : Forall (fun th => wf_pc (nfields pre) (t_pc th) = true) (s_thr s);
  inv_pool : Forall (fun c => wf_claim (nfields pre) (snd c) = true) (s_pool s);
  (* every bit of the bitmap is set iff it has an owner, and no bit has two owners; the owners
     are the pre-claimed bits, the completed claims and the partial claims in progress *)
  inv_cnt : forall i b, i < nfields pre -> b < 64 ->
      Nat.b2n (N.testbit (getf (s_bm s) i) b) = owners pre s (64 * i + b)
}.

Lemma thr_cnt_idle progs q : thr_cnt (map (fun pr => mkT pr Idle []) progs) q = 0%nat.
Proof. induction progs as [|p r IH]; [reflexivity|]. unfold thr_cnt in *. cbn [map fold_right t_pc held]. rewrite IH. unfold in_rng. cbn [fst snd]. lia. Qed.

Lemma inv_init pre progs : bm_ok pre -> Inv pre (init_state pre progs).
Proof.
  intros Hp. constructor; cbn [init_state s_bm s_thr s_pool].
  - reflexivity.
  - exact Hp.
  - apply Forall_forall. intros th Hin. apply in_map_iff in Hin as (pr & <- & _). reflexivity.
  - constructor.
  - intros i b Hi Hb. unfold owners, init_state. cbn [s_pool s_thr s_bm]. rewrite thr_cnt_idle.
    rewrite bm_bit_ib by assumption. unfold pool_cnt. cbn [fold_right]. lia.
Qed.

Lemma Forall_set_nth {A} (P : A -> Prop) l n x : Forall P l -> P x -> Forall P (set_nth l n x).
Proof.
  revert n. induction l as [|y r IH]; intros [|n] H Hx; cbn; auto.
  - inversion H; subst. constructor; assumption.
  - inversion H; subst. constructor; [assumption|]. apply IH; assumption.
Qed.
Lemma Forall_nth_error {A} (P : A -> Prop) l n x : Forall P l -> nth_error l n = Some x -> P x.
Proof. intros H Hn. rewrite Forall_forall in H. apply H. eapply nth_error_In, Hn. Qed.

(* replacing the pc of thread t by one that holds the same bits, and the pool by one with the
   same counts *)
Lemma enter_spec fields pool o p ev pool' :
  Forall (fun c => wf_claim fields (snd c) = true) pool ->
  enter fields pool o = (p, ev, pool') ->
  wf_pc fields p = true /\ Forall (fun c => wf_claim fields (snd c) = true) pool' /\
  forall q, (pool_cnt pool' q + Nat.b2n (in_rng (held p) q) = pool_cnt pool q)%nat.
Proof.
  intros Hw He. destruct o as [start count|start count|bi len]; cbn [enter] in He.
  - destruct ((count =? 0) || (fields =? 0) || (W64 <=? count + 64)) eqn:E.
    + inversion He; subst. repeat split; try assumption. intros q. cbn [held]. unfold in_rng. cbn [fst snd]. lia.
    + inversion He; subst. unfold attempt_pc. cbn [cl_count].
      destruct (count <=? 2) eqn:E2; cbn [wf_pc held cl_idx cl_count];
        (split; [destruct (fields <=? start) eqn:Ef; pose proof W64_val; lia|]);
        (split; [assumption|]); intros q; unfold in_rng; cbn [fst snd]; lia.
  - destruct (pool_remove pool (start, count)) as [pool1|] eqn:E.
    + destruct (mask_across start fields count) as [[[a b] c] d] eqn:Em. inversion He; subst.
      destruct (pool_remove_wf _ _ _ _ E Hw) as [W1 W2].
      split; [|split; [assumption|]].
      * cbn [wf_pc ul_start ul_count ul_pre ul_mid ul_post]. rewrite W2, Em. rewrite !N.eqb_refl. reflexivity.
      * intros q. rewrite (pool_remove_cnt _ _ _ q E). cbn [held ul_start ul_count]. unfold claim_rng. cbn [fst snd]. lia.
    + inversion He; subst. repeat split; try assumption. intros q. cbn [held]. unfold in_rng. cbn [fst snd]. lia.
  - destruct ((1 <=? len) && (index_bit_in_field bi + len <=? 64) && (index_field bi <? fields)) eqn:E.
    + inversion He; subst. cbn [wf_pc held]. split; [exact E|]. split; [assumption|].
      intros q. unfold in_rng. cbn [fst snd]. lia.
    + inversion He; subst. repeat split; try assumption. intros q. cbn [held]. unfold in_rng. cbn [fst snd]. lia.
Qed.

(* changing the program / result log of a thread, its pc to one with the same holdings, and the pool
   to one with compensating counts keeps the invariant *)
Lemma inv_enter pre s t th p pool' prog res :
  Inv pre s -> nth_error (s_thr s) t = Some th ->
  wf_pc (nfields pre) p = true ->
  Forall (fun c => wf_claim (nfields pre) (snd c) = true) pool' ->
  (forall q, (pool_cnt pool' q + Nat.b2n (in_rng (held p) q) =
              pool_cnt (s_pool s) q + Nat.b2n (in_rng (held (t_pc th)) q))%nat) ->
  Inv pre (mkS (s_bm s) (set_nth (s_thr s) t (mkT prog p res)) pool').
Proof.
  intros [I1 I2 I3 I4 I5] Hn Hw Hp Hc. constructor; cbn [s_bm s_thr s_pool]; try assumption.
  - apply Forall_set_nth; assumption.
  - intros i b Hi Hb. rewrite (I5 i b Hi Hb). unfold owners. cbn [s_pool s_thr].
    pose proof (thr_cnt_set_nth _ _ _ (mkT prog p res) (64 * i + b) Hn) as Ht. cbn [t_pc] in Ht.
    specialize (Hc (64 * i + b)). lia.
Qed.

Lemma inv_exec pre s t th prog res :
  Inv pre s -> nth_error (s_thr s) t = Some th -> t_pc th <> Idle ->
  let p := t_pc th in
  let i := access_field p in
  let v := getf (s_bm s) i in
  let '(p', w, ev) := exec (nfields pre) p v in
  let bm' := match w with Some x => setf (s_bm s) i x | None => s_bm s end in
  let pool' := match ev with GClaimed st c => (t, (st, c)) :: s_pool s | _ => s_pool s end in
  Inv pre (mkS bm' (set_nth (s_thr s) t (mkT prog p' res)) pool').
Proof.
  intros HI Hn Hidle p a v. destruct HI as [I1 I2 I3 I4 I5].
  assert (Hw : wf_pc (nfields pre) p = true) by (apply (Forall_nth_error _ _ _ _ I3 Hn)).
  assert (Ha : a < nfields pre) by (apply wf_access; assumption).
  assert (Hv : v < W64) by (apply getf_lt, I2).
  assert (Hnf : nfields (s_bm s) = nfields pre) by (unfold nfields; rewrite I1; reflexivity).
  assert (Hs : held_set p v).
  { intros b Hb Hin. specialize (I5 a b Ha Hb). fold v in I5. unfold owners in I5.
    assert (Hc : (1 <= thr_cnt (s_thr s) (64 * a + b))%nat).
    { clear - Hn Hin. fold a p in Hin. revert t Hn. induction (s_thr s) as [|x r IH]; intros [|t] Hn; cbn in Hn; try discriminate.
      - inversion Hn; subst. unfold thr_cnt. cbn [fold_right]. fold p. rewrite Hin. cbn. lia.
      - specialize (IH _ Hn). unfold thr_cnt in *. cbn [fold_right]. lia. }
    destruct (N.testbit v b) eqn:Etb; [reflexivity|]. cbn [Nat.b2n] in I5. lia. }
  pose proof (exec_sound _ _ _ Hw Hv Hs) as Hsound. unfold sound in Hsound.
  destruct (exec (nfields pre) p v) as [[p' w] ev]. cbv zeta in Hsound.
  destruct Hsound as (S1 & S2 & S3 & S4).
  constructor; cbn [s_bm s_thr s_pool].
  - destruct w; [rewrite length_setf|]; assumption.
  - destruct w; [apply setf_ok|]; assumption.
  - apply Forall_set_nth; assumption.
  - destruct ev; try assumption. constructor; assumption.
  - intros i b Hi Hb. specialize (S4 i b Hb). specialize (I5 i b Hi Hb).
    pose proof (thr_cnt_set_nth _ _ _ (mkT prog p' res) (64 * i + b) Hn) as Ht. cbn [t_pc] in Ht. fold p in Ht.
    unfold owners in *. cbn [s_pool s_thr].
    assert (Hpool : pool_cnt (match ev with GClaimed st c => (t, (st, c)) :: s_pool s | _ => s_pool s end) (64 * i + b)
                    = (gain ev (64 * i + b) + pool_cnt (s_pool s) (64 * i + b))%nat).
    { destruct ev; try reflexivity. }
    rewrite Hpool.
    assert (Hbit : N.testbit (getf (match w with Some x => setf (s_bm s) a x | None => s_bm s end) i) b
                   = if i =? a then N.testbit (match w with Some x => x | None => v end) b else N.testbit (getf (s_bm s) i) b).
    { destruct w as [x|].
      - rewrite getf_setf by (rewrite Hnf; exact Ha). destruct (i =? a); reflexivity.
      - destruct (i =? a) eqn:E; [|reflexivity]. assert (i = a) by lia. subst i. reflexivity. }
    rewrite Hbit. destruct (i =? a) eqn:E.
    + assert (i = a) by lia. subst i. fold v in I5. cbn [andb] in S4. lia.
    + cbn [andb] in S4. lia.
Qed.

Definition res_upd (ev : gev) (res : list gev) : list gev := match ev with GNone => res | _ => ev :: res end.

(* one step of the interleaving semantics preserves the invariant *)
Theorem step_inv pre s t s' a : Inv pre s -> stepx s t = Some (s', a) -> Inv pre s'.
Proof.
  intros HI Hst. unfold stepx in Hst.
  destruct (nth_error (s_thr s) t) as [th|] eqn:Hn; [|discriminate].
  assert (Hnf : N.of_nat (length (s_bm s)) = nfields pre) by (unfold nfields; rewrite (inv_len _ _ HI); reflexivity).
  rewrite Hnf in Hst.
  destruct (t_pc th) eqn:Hpc.
  2-19: (* not idle *)
    match type of Hst with
    | context [exec _ ?pp _] =>
      pose proof (inv_exec pre s t th (t_prog th)
                    (res_upd (snd (exec (nfields pre) pp (getf (s_bm s) (access_field pp)))) (t_res th))
                    HI Hn) as HX;
      rewrite Hpc in HX; specialize (HX ltac:(discriminate)); cbv zeta in HX;
      destruct (exec (nfields pre) pp (getf (s_bm s) (access_field pp))) as [[p' w] ev'];
      cbn [snd] in HX; unfold res_upd in HX; inversion Hst; subst; exact HX
    end.
  (* idle: enter the next operation *)
    destruct (t_prog th) as [|o rest] eqn:Hprog; [discriminate|].
    destruct (enter (nfields pre) (s_pool s) o) as [[p ev] pool1] eqn:He.
    destruct (enter_spec _ _ _ _ _ _ (inv_pool _ _ HI) He) as (E1 & E2 & E3).
    assert (HI1 : forall res, Inv pre (mkS (s_bm s) (set_nth (s_thr s) t (mkT rest p res)) pool1)).
    { intros res. apply inv_enter with (th := th); try assumption.
      intros q. rewrite Hpc. cbn [held]. specialize (E3 q). unfold in_rng at 2. cbn [fst snd]. lia. }
    destruct p eqn:Hp; try (inversion Hst; subst; apply HI1);
    (* a real access: run exec from the entered state *)
    match type of Hst with
    | context [exec _ ?pp _] =>
      pose proof (inv_exec pre _ t (mkT rest pp (t_res th)) rest
                    (res_upd (snd (exec (nfields pre) pp (getf (s_bm s) (access_field pp)))) (t_res th))
                    (HI1 (t_res th))) as HX;
      cbn [s_bm s_thr s_pool t_pc] in HX;
      rewrite nth_error_set_nth_same in HX by (eapply nth_error_lt, Hn);
      specialize (HX eq_refl ltac:(discriminate)); cbv zeta in HX;
      destruct (exec (nfields pre) pp (getf (s_bm s) (access_field pp))) as [[p' w] ev'];
      cbn [snd] in HX; unfold res_upd in HX; rewrite set_nth_set_nth in HX; inversion Hst; subst; exact HX
    end.
Qed.

Theorem reachable_inv pre progs s : bm_ok pre -> reachable pre progs s -> Inv pre s.
Proof.
  intros Hp Hr. induction Hr as [|s t s' a Hr IH Hst]; [apply inv_init, Hp|]. eapply step_inv; eassumption.
Qed.

Lemma run_schedule_reachable pre progs s sched : reachable pre progs s -> reachable pre progs (run_schedule s sched).
Proof.
  revert s. induction sched as [|t rest IH]; intros s Hr; cbn [run_schedule]; [exact Hr|].
  apply IH. unfold step. destruct (stepx s t) as [[s' a]|] eqn:E; [|exact Hr]. eapply reach_step; eassumption.
Qed.

(* ---- corollaries ---- *)

Lemma inv_flat pre s p : Inv pre s -> p < 64 * nfields pre -> Nat.b2n (bm_bit (s_bm s) p) = owners pre s p.
Proof.
  intros HI Hp. destruct (flat_split p) as [E Hb]. rewrite E at 1 2. rewrite bm_bit_ib by exact Hb.
  rewrite <- E. assert (Hi : p / 64 < nfields pre) by lia.
  pose proof (inv_cnt _ _ HI _ _ Hi Hb) as H. rewrite <- E in H. exact H.
Qed.

Lemma pool_cnt_in pool k c p : nth_error pool k = Some c -> in_rng (claim_rng (snd c)) p = true -> (1 <= pool_cnt pool p)%nat.
Proof.
  revert k. induction pool as [|x r IH]; intros [|k] H Hin; cbn in H; try discriminate; rewrite pool_cnt_cons.
  - inversion H; subst. rewrite Hin. cbn. lia.
  - specialize (IH _ H Hin). lia.
Qed.
Lemma pool_cnt_two pool k1 k2 c1 c2 p : k1 <> k2 ->
  nth_error pool k1 = Some c1 -> nth_error pool k2 = Some c2 ->
  in_rng (claim_rng (snd c1)) p = true -> in_rng (claim_rng (snd c2)) p = true -> (2 <= pool_cnt pool p)%nat.
Proof.
  revert k1 k2. induction pool as [|x r IH]; intros [|k1] [|k2] Hne H1 H2 I1 I2; cbn in H1, H2; try discriminate;
    try congruence; rewrite pool_cnt_cons.
  - inversion H1; subst. pose proof (pool_cnt_in _ _ _ _ H2 I2). rewrite I1. cbn. lia.
  - inversion H2; subst. pose proof (pool_cnt_in _ _ _ _ H1 I1). rewrite I2. cbn. lia.
  - assert (k1 <> k2) by congruence. specialize (IH _ _ H H1 H2 I1 I2). lia.
Qed.
Lemma pool_cnt_pos pool p : (1 <= pool_cnt pool p)%nat -> exists k c, nth_error pool k = Some c /\ in_rng (claim_rng (snd c)) p = true.
Proof.
  induction pool as [|x r IH]; intros H; [cbn in H; lia|]. rewrite pool_cnt_cons in H.
  destruct (in_rng (claim_rng (snd x)) p) eqn:E.
  - exists 0%nat, x. split; [reflexivity|exact E].
  - cbn [Nat.b2n] in H. destruct (IH ltac:(lia)) as (k & c & Hk & Hc). exists (S k), c. split; assumption.
Qed.

Lemma thr_cnt_in thr t th p : nth_error thr t = Some th -> in_rng (held (t_pc th)) p = true -> (1 <= thr_cnt thr p)%nat.
Proof.
  revert t. induction thr as [|x r IH]; intros [|t] H Hin; cbn in H; try discriminate; unfold thr_cnt in *; cbn [fold_right].
  - inversion H; subst. rewrite Hin. cbn. lia.
  - specialize (IH _ H Hin). lia.
Qed.
Lemma thr_cnt_two thr t1 t2 th1 th2 p : t1 <> t2 ->
  nth_error thr t1 = Some th1 -> nth_error thr t2 = Some th2 ->
  in_rng (held (t_pc th1)) p = true -> in_rng (held (t_pc th2)) p = true -> (2 <= thr_cnt thr p)%nat.
Proof.
  revert t1 t2. induction thr as [|x r IH]; intros [|t1] [|t2] Hne H1 H2 I1 I2; cbn in H1, H2; try discriminate;
    try congruence; unfold thr_cnt in *; cbn [fold_right].
  - inversion H1; subst. pose proof (thr_cnt_in _ _ _ _ H2 I2). unfold thr_cnt in H. rewrite I1. cbn. lia.
  - inversion H2; subst. pose proof (thr_cnt_in _ _ _ _ H1 I1). unfold thr_cnt in H. rewrite I2. cbn. lia.
  - assert (t1 <> t2) by congruence. specialize (IH _ _ H H1 H2 I1 I2). lia.
Qed.
Lemma thr_cnt_pos thr p : (1 <= thr_cnt thr p)%nat -> exists t th, nth_error thr t = Some th /\ in_rng (held (t_pc th)) p = true.
Proof.
  induction thr as [|x r IH]; intros H; unfold thr_cnt in *; cbn [fold_right] in H; [lia|].
  destruct (in_rng (held (t_pc x)) p) eqn:E.
  - exists 0%nat, x. split; [reflexivity|exact E].
  - cbn [Nat.b2n] in H. destruct (IH ltac:(lia)) as (k & c & Hk & Hc). exists (S k), c. split; assumption.
Qed.

(* bitmap_is_union: the bitmap is the disjoint union of the pre-claimed bits, the completed claims
   and the partial claims of the threads inside an operation *)
Theorem bitmap_is_union pre progs s : bm_ok pre -> reachable pre progs s ->
  length (s_bm s) = length pre /\ bm_ok (s_bm s) /\
  forall p, p < 64 * nfields pre ->
    Nat.b2n (bm_bit (s_bm s) p) =
    (Nat.b2n (bm_bit pre p) + pool_cnt (s_pool s) p + thr_cnt (s_thr s) p)%nat.
Proof.
  intros Hp Hr. pose proof (reachable_inv _ _ _ Hp Hr) as HI.
  split; [apply (inv_len _ _ HI)|]. split; [apply (inv_lt _ _ HI)|]. intros p Hlt. apply (inv_flat _ _ _ HI Hlt).
Qed.

(* the same, spelled out: a bit is set iff it has an owner *)
Theorem bit_set_iff_owned pre progs s p : bm_ok pre -> reachable pre progs s -> p < 64 * nfields pre ->
  (bm_bit (s_bm s) p = true <->
   bm_bit pre p = true \/
   (exists k c, nth_error (s_pool s) k = Some c /\ in_rng (claim_rng (snd c)) p = true) \/
   (exists t th, nth_error (s_thr s) t = Some th /\ in_rng (held (t_pc th)) p = true)).
Proof.
  intros Hp Hr Hlt. destruct (bitmap_is_union _ _ _ Hp Hr) as (_ & _ & H). specialize (H p Hlt). split.
  - intros Hb. rewrite Hb in H. cbn [Nat.b2n] in H.
    destruct (bm_bit pre p); [left; reflexivity|right]. cbn [Nat.b2n] in H.
    destruct (Nat.eq_dec (pool_cnt (s_pool s) p) 0) as [E|E].
    + right. apply thr_cnt_pos. lia.
    + left. apply pool_cnt_pos. lia.
  - intros [Hb|[(k & c & Hk & Hc)|(t & th & Ht & Hc)]].
    + rewrite Hb in H. destruct (bm_bit (s_bm s) p); [reflexivity|]. cbn in H. lia.
    + pose proof (pool_cnt_in _ _ _ _ Hk Hc). destruct (bm_bit (s_bm s) p); [reflexivity|]. cbn in H. lia.
    + pose proof (thr_cnt_in _ _ _ _ Ht Hc). destruct (bm_bit (s_bm s) p); [reflexivity|]. cbn in H. lia.
Qed.

(* claims_disjoint_in_range: completed claims are non-empty, inside the bitmap, pairwise disjoint,
   disjoint from the pre-claimed bits and from every partial claim, and all their bits are set
   (so the double-free check of _mi_arena_free passes for them) *)
Theorem claims_disjoint_in_range pre progs s k1 c1 : bm_ok pre -> reachable pre progs s ->
  nth_error (s_pool s) k1 = Some c1 ->
  let '(start, count) := snd c1 in
  1 <= count /\ start + count <= 64 * nfields pre /\
  (forall p, start <= p < start + count ->
     bm_bit (s_bm s) p = true /\ bm_bit pre p = false /\
     (forall k2 c2, k2 <> k1 -> nth_error (s_pool s) k2 = Some c2 -> in_rng (claim_rng (snd c2)) p = false) /\
     (forall t th, nth_error (s_thr s) t = Some th -> in_rng (held (t_pc th)) p = false)).
Proof.
  intros Hp Hr Hk. pose proof (reachable_inv _ _ _ Hp Hr) as HI.
  pose proof (Forall_nth_error _ _ _ _ (inv_pool _ _ HI) Hk) as Hw. unfold wf_claim in Hw.
  destruct (snd c1) as [start count] eqn:Ec. cbn [fst snd] in Hw.
  split; [lia|]. split; [lia|]. intros p Hin.
  assert (Hlt : p < 64 * nfields pre) by lia.
  pose proof (inv_flat _ _ _ HI Hlt) as H. unfold owners in H.
  assert (Hc1 : in_rng (claim_rng (snd c1)) p = true) by (rewrite Ec; unfold in_rng, claim_rng; cbn [fst snd]; lia).
  pose proof (pool_cnt_in _ _ _ _ Hk Hc1) as H1.
  assert (Hle : (Nat.b2n (bm_bit (s_bm s) p) <= 1)%nat) by (destruct (bm_bit (s_bm s) p); cbn; lia).
  repeat split.
  - destruct (bm_bit (s_bm s) p); [reflexivity|]. cbn in H. lia.
  - destruct (bm_bit pre p); [|reflexivity]. cbn in H. lia.
  - intros k2 c2 Hne Hk2. destruct (in_rng (claim_rng (snd c2)) p) eqn:E2; [|reflexivity].
    pose proof (pool_cnt_two _ _ _ _ _ _ Hne Hk2 Hk E2 Hc1). lia.
  - intros t th Ht. destruct (in_rng (held (t_pc th)) p) eqn:E2; [|reflexivity].
    pose proof (thr_cnt_in _ _ _ _ Ht E2). lia.
Qed.

(* purge_claim_exclusive: the bits temporarily claimed by the purger are set, not pre-claimed, in no
   completed claim and held by no other thread *)
Theorem purge_claim_exclusive pre progs s t th bi len : bm_ok pre -> reachable pre progs s ->
  nth_error (s_thr s) t = Some th -> t_pc th = PUnclaim bi len ->
  bi + len <= 64 * nfields pre /\
  forall p, bi <= p < bi + len ->
    bm_bit (s_bm s) p = true /\ bm_bit pre p = false /\ pool_cnt (s_pool s) p = 0%nat /\
    (forall t' th', t' <> t -> nth_error (s_thr s) t' = Some th' -> in_rng (held (t_pc th')) p = false).
Proof.
  intros Hp Hr Ht Hpc. pose proof (reachable_inv _ _ _ Hp Hr) as HI.
  pose proof (Forall_nth_error _ _ _ _ (inv_wf _ _ HI) Ht) as Hw. cbv beta in Hw. rewrite Hpc in Hw. cbn [wf_pc] in Hw.
  unfold index_bit_in_field, index_field in Hw.
  split; [lia|]. intros p Hin. assert (Hlt : p < 64 * nfields pre) by lia.
  pose proof (inv_flat _ _ _ HI Hlt) as H. unfold owners in H.
  assert (Hh : in_rng (held (t_pc th)) p = true) by (rewrite Hpc; unfold in_rng; cbn [held fst snd]; lia).
  pose proof (thr_cnt_in _ _ _ _ Ht Hh) as H1.
  assert (Hle : (Nat.b2n (bm_bit (s_bm s) p) <= 1)%nat) by (destruct (bm_bit (s_bm s) p); cbn; lia).
  repeat split.
  - destruct (bm_bit (s_bm s) p); [reflexivity|]. cbn in H. lia.
  - destruct (bm_bit pre p); [|reflexivity]. cbn in H. lia.
  - lia.
  - intros t' th' Hne Ht'. destruct (in_rng (held (t_pc th')) p) eqn:E2; [|reflexivity].
    pose proof (thr_cnt_two _ _ _ _ _ _ Hne Ht' Ht E2 Hh). lia.
Qed.

(* ---- a failed find-and-claim leaves nothing behind ---- *)

Definition is_claim_pc (p : pc) : bool :=
  match p with
  | FLoad _ | FCas _ _ _ _ | ALoad _ | AScan _ _ _ | AInitLoad _ | AInitCas _ _ | AMidCas _ _ | AFinalLoad _
  | AFinalCas _ _ | ARollStore _ _ | ARollInitLoad _ | ARollInitCas _ _ => true
  | _ => false
  end.

Lemma next_field_failed fields l : snd (next_field fields l) = GClaimFailed -> fst (next_field fields l) = Idle.
Proof. unfold next_field. destruct (cl_visited l + 1 <? fields); cbn; [discriminate|reflexivity]. Qed.
Lemma field_scan_failed fields l map b m : snd (field_scan fields l map b m) = GClaimFailed -> fst (field_scan fields l map b m) = Idle.
Proof. unfold field_scan. destruct (scan_field _ _ _ _ _) as [[? ?]|]; [cbn; discriminate|apply next_field_failed]. Qed.
Lemma after_rollback_failed fields l : snd (after_rollback fields l) = GClaimFailed -> fst (after_rollback fields l) = Idle.
Proof. unfold after_rollback. destruct (cl_retries l <=? 2); [cbn; discriminate|apply next_field_failed]. Qed.
Lemma rollback_from_failed fields l f : snd (rollback_from fields l f) = GClaimFailed -> fst (rollback_from fields l f) = Idle.
Proof.
  unfold rollback_from. destruct (f =? cl_idx l); [apply after_rollback_failed|].
  destruct (f =? cl_idx l + 1); cbn; discriminate.
Qed.
Lemma init_try_failed fields l v : snd (init_try fields l v) = GClaimFailed -> fst (init_try fields l v) = Idle.
Proof. unfold init_try. destruct (negb _); [apply rollback_from_failed|cbn; discriminate]. Qed.
Lemma final_try_failed fields l v : snd (final_try fields l v) = GClaimFailed -> fst (final_try fields l v) = Idle.
Proof. unfold final_try. destruct (negb _); [apply rollback_from_failed|cbn; discriminate]. Qed.
Lemma u_next_not_failed u j k a : snd (u_next u j k a) <> GClaimFailed.
Proof. unfold u_next. destruct (0 <? k); [cbn; discriminate|]. destruct (negb _); cbn; discriminate. Qed.
Lemma p_dec_not_failed bi len : snd (p_dec bi len) <> GClaimFailed.
Proof. unfold p_dec. destruct (0 <? len - 1); cbn; discriminate. Qed.
Lemma p_try_not_failed bi len v : snd (p_try bi len v) <> GClaimFailed.
Proof. unfold p_try. destruct (negb _); [apply p_dec_not_failed|cbn; discriminate]. Qed.

Lemma exec_claimfailed fields p v p' w :
  exec fields p v = (p', w, GClaimFailed) -> p' = Idle /\ is_claim_pc p = true.
Proof.
  intros H.
  assert (G : forall (x : pc * gev) (w0 : option N), (fst x, w0, snd x) = (p', w, GClaimFailed) ->
              (snd x = GClaimFailed -> fst x = Idle) -> p' = Idle).
  { intros x w0 E Hx. inversion E; subst. apply Hx. assumption. }
  destruct p; cbn [exec] in H; cbv zeta in H; cbn [is_claim_pc]; (split; [|try reflexivity]);
    repeat match type of H with
           | context [if ?c then _ else _] => destruct c
           end;
    try (inversion H; fail);
    try (eapply G; [exact H|]; first [apply next_field_failed | apply field_scan_failed | apply after_rollback_failed
                                     | apply rollback_from_failed | apply init_try_failed | apply final_try_failed]);
    try (exfalso; inversion H;
         first [ eapply u_next_not_failed; eassumption | eapply p_try_not_failed; eassumption | eapply p_dec_not_failed; eassumption ]).
Qed.

Lemma list_neq_cons {A} (x : A) l : l <> x :: l.
Proof. intros H. apply (f_equal (@length A)) in H. cbn in H. lia. Qed.

Lemma enter_claim_pool fields pool o p ev pool1 :
  enter fields pool o = (p, ev, pool1) -> is_claim_pc p = true \/ ev = GClaimFailed -> pool1 = pool.
Proof.
  intros He Hc. destruct o as [start count|start count|bi len]; cbn [enter] in He.
  - destruct (_ || _); inversion He; reflexivity.
  - destruct (pool_remove pool (start, count)).
    + destruct (mask_across start fields count) as [[[? ?] ?] ?]. inversion He; subst. cbn in Hc. destruct Hc; discriminate.
    + inversion He; subst. reflexivity.
  - destruct (_ && _); inversion He; reflexivity.
Qed.

(* the step in which an operation of thread t returns false: the thread is idle afterwards, the pool
   of completed claims is unchanged, the thread holds no bit, and every set bit of the bitmap belongs
   to the pre-claimed bits, to a completed claim or to the partial claim of ANOTHER thread *)
Theorem rollback_leaves_nothing pre progs s t s' a th th' :
  bm_ok pre -> reachable pre progs s -> stepx s t = Some (s', a) ->
  nth_error (s_thr s) t = Some th -> nth_error (s_thr s') t = Some th' ->
  t_res th' = GClaimFailed :: t_res th ->
  t_pc th' = Idle /\ s_pool s' = s_pool s /\
  forall p, p < 64 * nfields pre ->
    in_rng (held (t_pc th')) p = false /\
    (bm_bit (s_bm s') p = true ->
       bm_bit pre p = true \/
       (exists k c, nth_error (s_pool s) k = Some c /\ in_rng (claim_rng (snd c)) p = true) \/
       (exists t2 th2, t2 <> t /\ nth_error (s_thr s') t2 = Some th2 /\ in_rng (held (t_pc th2)) p = true)).
Proof.
  intros Hp Hr Hst Hn Hn' Hres.
  assert (Hr' : reachable pre progs s') by (eapply reach_step; eassumption).
  assert (Hcore : t_pc th' = Idle /\ s_pool s' = s_pool s).
  { unfold stepx in Hst. rewrite Hn in Hst.
    assert (Hlen : (t < length (s_thr s))%nat) by (eapply nth_error_lt, Hn).
    destruct (t_pc th) eqn:Hpc.
    2-19: match type of Hst with
      | context [exec ?f ?pp ?vv] =>
        destruct (exec f pp vv) as [[p' w] ev'] eqn:Ex; inversion Hst; subst s'; clear Hst;
        cbn [s_thr s_pool] in *; rewrite nth_error_set_nth_same in Hn' by exact Hlen;
        inversion Hn'; subst th'; cbn [t_res t_pc] in *;
        destruct ev'; try (exfalso; eapply list_neq_cons; eassumption); try discriminate;
        apply exec_claimfailed in Ex; destruct Ex as [-> _]; split; reflexivity
      end.
    destruct (t_prog th) as [|o rest]; [discriminate|].
    destruct (enter _ (s_pool s) o) as [[p ev] pool1] eqn:He.
    destruct p eqn:Hp0.
    { inversion Hst; subst s'; clear Hst. cbn [s_thr s_pool] in *.
      rewrite nth_error_set_nth_same in Hn' by exact Hlen. inversion Hn'; subst th'. cbn [t_res t_pc] in *.
      split; [reflexivity|]. apply (enter_claim_pool _ _ _ _ _ _ He). right. congruence. }
    all: match type of Hst with
      | context [exec ?f ?pp ?vv] =>
        destruct (exec f pp vv) as [[p' w] ev'] eqn:Ex; inversion Hst; subst s'; clear Hst;
        cbn [s_thr s_pool] in *; rewrite nth_error_set_nth_same in Hn' by exact Hlen;
        inversion Hn'; subst th'; cbn [t_res t_pc] in *;
        destruct ev'; try (exfalso; eapply list_neq_cons; eassumption); try discriminate;
        apply exec_claimfailed in Ex; destruct Ex as [-> Hc]; (split; [reflexivity|]);
        apply (enter_claim_pool _ _ _ _ _ _ He); left; exact Hc
      end. }
  destruct Hcore as [Hidle Hpool]. split; [exact Hidle|]. split; [exact Hpool|].
  intros p Hlt. rewrite Hidle. split; [unfold in_rng; cbn [held fst snd]; lia|]. intros Hb.
  apply (bit_set_iff_owned _ _ _ _ Hp Hr' Hlt) in Hb. rewrite Hpool in Hb.
  destruct Hb as [Hb|[Hb|(t2 & th2 & Ht2 & Hin)]]; [left; exact Hb|right; left; exact Hb|].
  right. right. exists t2, th2. repeat split; try assumption.
  intros ->. rewrite Hn' in Ht2. inversion Ht2; subst th2. rewrite Hidle in Hin. unfold in_rng in Hin. cbn [held fst snd] in Hin. lia.
Qed.

(* a thread between two operations holds nothing: in a quiescent state the bitmap consists of the
   pre-claimed bits and the completed claims only *)
Theorem quiescent_bitmap pre progs s : bm_ok pre -> reachable pre progs s ->
  (forall th, In th (s_thr s) -> t_pc th = Idle) ->
  forall p, p < 64 * nfields pre ->
    Nat.b2n (bm_bit (s_bm s) p) = (Nat.b2n (bm_bit pre p) + pool_cnt (s_pool s) p)%nat.
Proof.
  intros Hp Hr Hidle p Hlt. destruct (bitmap_is_union _ _ _ Hp Hr) as (_ & _ & H). rewrite (H p Hlt).
  assert (E : thr_cnt (s_thr s) p = 0%nat).
  { clear - Hidle. induction (s_thr s) as [|x r IH]; [reflexivity|]. unfold thr_cnt in *. cbn [fold_right].
    rewrite (Hidle x (or_introl eq_refl)). rewrite IH by (intros th Hin; apply Hidle; right; exact Hin).
    unfold in_rng. cbn [held fst snd]. lia. }
  lia.
Qed.

(* when every claim has been freed and all threads are idle the bitmap is the initial one again *)
Theorem all_freed_restores pre progs s : bm_ok pre -> reachable pre progs s ->
  (forall th, In th (s_thr s) -> t_pc th = Idle) -> s_pool s = [] -> s_bm s = pre.
Proof.
  intros Hp Hr Hidle Hpool.
  pose proof (reachable_inv _ _ _ Hp Hr) as HI.
  apply bm_ext; [apply (inv_len _ _ HI)|]. intros i Hi.
  assert (Hi' : i < nfields pre) by (unfold nfields in *; rewrite <- (inv_len _ _ HI); exact Hi).
  apply eq_of_bits64; [apply getf_lt, (inv_lt _ _ HI)|apply getf_lt, Hp|]. intros b Hb.
  pose proof (quiescent_bitmap _ _ _ Hp Hr Hidle (64 * i + b) ltac:(lia)) as H.
  rewrite Hpool in H. rewrite !bm_bit_ib in H by exact Hb. unfold pool_cnt in H. cbn [fold_right] in H.
  destruct (N.testbit (getf (s_bm s) i) b), (N.testbit (getf pre i) b); cbn in H; try reflexivity; lia.
Qed.

(* ---- the boolean form of the invariant ---- *)

Lemma all_below_spec n f : all_below n f = true -> forall k, (k < n)%nat -> f (N.of_nat k) = true.
Proof.
  induction n as [|n IH]; intros H k Hk; [lia|]. cbn [all_below] in H. apply andb_prop in H as [H1 H2].
  destruct (Nat.eq_dec k n) as [->|Hne]; [exact H1|]. apply IH; [exact H2|lia].
Qed.
Lemma all_below_intro n f : (forall k, (k < n)%nat -> f (N.of_nat k) = true) -> all_below n f = true.
Proof.
  induction n as [|n IH]; intros H; [reflexivity|]. cbn [all_below]. rewrite H by lia. rewrite IH; [reflexivity|].
  intros k Hk. apply H. lia.
Qed.

Theorem inv_b_sound pre s : inv_b pre s = true -> Inv pre s.
Proof.
  unfold inv_b. intros H.
  apply andb_prop in H as [H H5]. apply andb_prop in H as [H H4]. apply andb_prop in H as [H H3].
  apply andb_prop in H as [H1 H2].
  constructor.
  - apply Nat.eqb_eq. assumption.
  - unfold bm_ok. apply Forall_forall. intros x Hx. rewrite forallb_forall in H2. specialize (H2 x Hx). lia.
  - apply Forall_forall. intros x Hx. rewrite forallb_forall in H3. apply (H3 x Hx).
  - apply Forall_forall. intros x Hx. rewrite forallb_forall in H4. apply (H4 x Hx).
  - intros i b Hi Hb. unfold nfields in Hi.
    pose proof (all_below_spec _ _ H5 (N.to_nat (64 * i + b)) ltac:(lia)) as Hk. rewrite N2Nat.id in Hk.
    apply Nat.eqb_eq in Hk. rewrite bm_bit_ib in Hk by exact Hb. exact Hk.
Qed.

Theorem inv_b_complete pre s : Inv pre s -> inv_b pre s = true.
Proof.
  intros [I1 I2 I3 I4 I5]. unfold inv_b. repeat (apply andb_true_intro; split).
  - apply Nat.eqb_eq. exact I1.
  - apply forallb_forall. intros x Hx. unfold bm_ok in I2. rewrite Forall_forall in I2. specialize (I2 x Hx). lia.
  - apply forallb_forall. intros x Hx. rewrite Forall_forall in I3. apply (I3 x Hx).
  - apply forallb_forall. intros x Hx. rewrite Forall_forall in I4. apply (I4 x Hx).
  - apply all_below_intro. intros k Hk. apply Nat.eqb_eq.
    destruct (flat_split (N.of_nat k)) as [E Hb]. rewrite E. rewrite bm_bit_ib by exact Hb.
    apply I5; [unfold nfields; lia|exact Hb].
Qed.
