(* Finite sweeps (complete enumerations evaluated by vm_compute); lifted in ArithProofs.v.
   Kept in their own file: they are the slow part of the build. *)
From Coq Require Import NArith ZArith Lia Bool List.
From MiV Require Import Gen.Consts Gen.Bins Model.Arith Proofs.Base.
Import ListNotations.
Local Open Scope N_scope.

(* ------------------------------------------------------------------------------------- *)
(* Finite part: all request sizes 0 .. 2*MI_MEDIUM_OBJ_SIZE_MAX, by complete enumeration   *)
(* ------------------------------------------------------------------------------------- *)

Definition sweep_limit : N := 2 * MI_MEDIUM_OBJ_SIZE_MAX + 1.

Definition chk_bin_size_ge (s : N) : bool :=
  if s <=? MI_MEDIUM_OBJ_SIZE_MAX
  then (s <=? bin_size (mi_bin s)) && (1 <=? mi_bin s) && (mi_bin s <? MI_BIN_HUGE)
  else mi_bin s =? MI_BIN_HUGE.

Lemma sweep_bin_size_ge : forallN chk_bin_size_ge sweep_limit = true.
Proof. vm_compute. reflexivity. Qed.

(* the chosen class is the *smallest* class that fits: above 64 bytes the previous class is too
   small; up to 64 bytes (where classes are rounded to double words for 16-byte alignment) the
   block size is the request rounded up to 16 (8 for requests of at most 8 bytes) *)
Definition chk_bin_tight (s : N) : bool :=
  if (64 <? s) && (s <=? MI_MEDIUM_OBJ_SIZE_MAX) then bin_size (mi_bin s - 1) <? s
  else if s <=? 8 then bin_size (mi_bin s) =? 8
  else if s <=? 64 then bin_size (mi_bin s) =? ((s + 15) / 16) * 16
  else true.

Lemma sweep_bin_tight : forallN chk_bin_tight sweep_limit = true.
Proof. vm_compute. reflexivity. Qed.

Definition chk_bin_step (s : N) : bool := mi_bin s <=? mi_bin (s + 1).

Lemma sweep_bin_step : forallN chk_bin_step sweep_limit = true.
Proof. vm_compute. reflexivity. Qed.

(* internal fragmentation: waste is at most 25% of the request for requests above 64 bytes *)
Definition chk_fragmentation (s : N) : bool :=
  if (64 <? s) && (s <=? MI_MEDIUM_OBJ_SIZE_MAX)
  then 4 * (bin_size (mi_bin s) - s) <=? s else true.

Lemma sweep_fragmentation : forallN chk_fragmentation sweep_limit = true.
Proof. vm_compute. reflexivity. Qed.

Definition chk_good_size (s : N) : bool :=
  (s <=? good_size s) && (good_size (good_size s) =? good_size s) &&
  (if s <=? MI_MEDIUM_OBJ_SIZE_MAX then good_size s =? bin_size (mi_bin s) else true).

Lemma sweep_good_size : forallN chk_good_size sweep_limit = true.
Proof. vm_compute. reflexivity. Qed.

(* the bin table itself: strictly increasing over 1..MI_BIN_HUGE-1, multiples of 8, and each
   class size maps back to its own bin (so a page of class b serves exactly the requests of bin b);
   the table entries above MI_MEDIUM_OBJ_SIZE_MAX are unused: mi_bin sends those sizes to MI_BIN_HUGE *)
Definition chk_bin_table (b : N) : bool :=
  if (1 <=? b) && (b <? MI_BIN_HUGE)
  then (if bin_size b <=? MI_MEDIUM_OBJ_SIZE_MAX
        then (mi_bin (bin_size b) =? b) || ((b <? 8) && (mi_bin (bin_size b) =? b + 1))  (* odd bins < 8 are unused (16-byte alignment) *)
        else mi_bin (bin_size b) =? MI_BIN_HUGE) &&
       (bin_size b mod 8 =? 0) && (0 <? bin_size b) &&
       (if 1 <? b then bin_size (b - 1) <? bin_size b else true)
  else true.

Lemma sweep_bin_table : forallN chk_bin_table (MI_BIN_FULL + 1) = true.
Proof. vm_compute. reflexivity. Qed.

Lemma bin_table_length : length bin_sizes = N.to_nat (MI_BIN_FULL + 1).
Proof. vm_compute. reflexivity. Qed.

(* span bins: all slice counts 0 .. MI_SLICES_PER_SEGMENT *)
Definition span_bin_count (b : N) : N := nth (N.to_nat b) span_bin_counts 0.

Definition chk_slice_bin (c : N) : bool :=
  (slice_bin8 c <=? MI_SEGMENT_BIN_MAX) &&
  (slice_bin8 c <=? slice_bin8 (c + 1)) &&
  (if 1 <=? c then (c <=? span_bin_count (slice_bin8 c)) &&
                   (if 1 <? c then span_bin_count (slice_bin8 c - 1) <? c else true)
   else true).

Lemma sweep_slice_bin : forallN chk_slice_bin (MI_SLICES_PER_SEGMENT + 1) = true.
Proof. vm_compute. reflexivity. Qed.

Lemma span_table_length : length span_bin_counts = N.to_nat (MI_SEGMENT_BIN_MAX + 1).
Proof. vm_compute. reflexivity. Qed.

