(* Repeated non-forced passes of mi_arenas_try_purge purge every pending arena (property C18, model Model/Purge.v).
   Measure: the number of arenas that can be purged (not pinned) and have purge_expire <> 0.  A pass that runs either
   visits every arena (measure 0 afterwards) or is cut short after max_purge_count = 2 purging arenas, each of which had
   purge_expire <> 0 before and 0 afterwards (measure decreases), and leaves the global expiry armed at now + delay, which is
   the time of the next pass. *)
From Coq Require Import NArith ZArith List Bool Lia.
From MiV Require Import Gen.Consts Gen.OsConsts Model.Arith Model.Os Model.Mask Model.Purge
  Proofs.OsProofs Proofs.MaskProofs Proofs.PurgeProofs.
Import ListNotations.
Local Open Scope N_scope.

Definition pendb (a : arena) : bool := negb (a_pinned a) && negb (a_expire a =? 0)%Z.
Definition pend (l : list arena) : nat := length (filter pendb l).

Lemma pend_cons a l : pend (a :: l) = ((if pendb a then 1 else 0) + pend l)%nat.
Proof. unfold pend. cbn [filter]. destruct (pendb a); reflexivity. Qed.

Lemma pend_zero l : pend l = 0%nat -> forall a, In a l -> a_pinned a = false -> a_expire a = 0%Z.
Proof.
  induction l as [|x r IH]; intros H a Ha Hp; [destruct Ha|]. rewrite pend_cons in H. destruct Ha as [<-|Ha].
  - unfold pendb in H. rewrite Hp in H. cbn in H. destruct (a_expire x =? 0)%Z eqn:E; [apply Z.eqb_eq; exact E|cbn in H; lia].
  - apply IH; auto. lia.
Qed.

Section WithOracle.
Variable cfg : oscfg.
Variable oracle : nat -> answer.

(* an arena visit that reports `purged` was not idle *)
Lemma purged_not_idle o a now :
  snd (arena_try_purge cfg oracle o a now false) = true -> a_pinned a = false /\ a_expire a <> 0%Z /\ (a_expire a <= now)%Z.
Proof.
  intros H. destruct (a_pinned a) eqn:P.
  { rewrite arena_try_purge_idle in H by (left; exact P). discriminate. }
  destruct (Z.eq_dec (a_expire a) 0) as [Z|NZ].
  { rewrite arena_try_purge_idle in H by (right; left; exact Z). discriminate. }
  destruct (Z.lt_ge_cases now (a_expire a)) as [L|G].
  { rewrite arena_try_purge_idle in H by (right; right; exact L). discriminate. }
  auto.
Qed.

(* one visit when every expiry has passed: pending arenas become not pending, the others are unchanged *)
Lemma visit_pend o a now :
  (a_expire a <= now)%Z -> (0 <= now)%Z ->
  let a' := snd (fst (arena_try_purge cfg oracle o a now false)) in
  pendb a' = false /\ (a_expire a' <= now)%Z /\ a_pinned a' = a_pinned a /\ (pendb a = false -> a' = a).
Proof.
  intros He Hn. cbv zeta. pose proof (arena_try_purge_visited cfg oracle o a now false) as V.
  destruct V as [(E & C)|(P & W & (_ & _ & _ & Fp) & _ & Ex & _)].
  - rewrite E. split; [|auto]. unfold pendb. destruct C as [C|(_ & [C|C])]; [rewrite C; reflexivity| |lia].
    rewrite C. cbn. apply andb_false_r.
  - split; [unfold pendb; rewrite Ex; cbn; apply andb_false_r|]. split; [rewrite Ex; exact Hn|]. split; [exact Fp|].
    intros Hb. exfalso. unfold pendb in Hb. rewrite P in Hb. cbn in Hb. apply negb_false_iff in Hb. apply Z.eqb_eq in Hb.
    destruct W as [W|(W & _)]; [discriminate|contradiction].
Qed.

(* the loop of mi_arenas_try_purge *)
Lemma arenas_loop_progress : forall l o now cnt,
  (forall a, In a l -> (a_expire a <= now)%Z) -> (0 <= now)%Z -> 1 <= cnt ->
  let r := arenas_loop cfg oracle o l now false cnt in
  let l' := snd (fst (fst r)) in
  (forall a, In a l' -> (a_expire a <= now)%Z) /\
  (snd (fst r) = true -> pend l' = 0%nat /\ snd r = existsb (fun a => negb (a_expire a =? 0)%Z) l') /\
  (snd (fst r) = false -> (pend l' < pend l)%nat) /\
  (pend l' <= pend l)%nat.
Proof.
  induction l as [|a l IH]; intros o now cnt He Hn Hc; cbn [arenas_loop]; cbv zeta.
  - cbn. repeat split; auto. discriminate.
  - pose proof (visit_pend o a now (He a (or_introl eq_refl)) Hn) as V. cbv zeta in V.
    pose proof (purged_not_idle o a now) as PN.
    destruct (arena_try_purge cfg oracle o a now false) as [[o1 a1] purged]. cbn [fst snd] in V, PN.
    destruct V as (V1 & V2 & V3 & V4).
    assert (Hrest : forall x, In x l -> (a_expire x <= now)%Z) by (intros x Hx; apply He; right; exact Hx).
    destruct purged.
    + destruct (PN eq_refl) as (P1 & P2 & P3).
      assert (Hpa : pendb a = true) by (unfold pendb; rewrite P1; cbn; apply negb_true_iff, Z.eqb_neq; exact P2).
      destruct (cnt <=? 1) eqn:C.
      * cbn [fst snd]. rewrite !pend_cons, V1, Hpa. split; [|split; [discriminate|split; [intros _; lia|lia]]].
        intros x [<-|Hx]; [exact V2|auto].
      * apply N.leb_gt in C. specialize (IH o1 now (cnt - 1) Hrest Hn ltac:(lia)). cbv zeta in IH.
        destruct (arenas_loop cfg oracle o1 l now false (cnt - 1)) as [[[o2 rest'] v] p]. cbn [fst snd] in *.
        destruct IH as (I1 & I2 & I3 & I4). rewrite !pend_cons, V1, Hpa.
        split; [intros x [<-|Hx]; [exact V2|auto]|]. split; [|split; [intros _; lia|lia]].
        intros Hv. destruct (I2 Hv) as [J1 J2]. split; [lia|]. cbn [existsb]. rewrite J2. reflexivity.
    + specialize (IH o1 now cnt Hrest Hn Hc). cbv zeta in IH.
      destruct (arenas_loop cfg oracle o1 l now false cnt) as [[[o2 rest'] v] p]. cbn [fst snd] in *.
      destruct IH as (I1 & I2 & I3 & I4). rewrite !pend_cons, V1.
      split; [intros x [<-|Hx]; [exact V2|auto]|]. split; [|split].
      * intros Hv. destruct (I2 Hv) as [J1 J2]. split; [lia|]. cbn [existsb]. rewrite J2. reflexivity.
      * intros Hv. specialize (I3 Hv). destruct (pendb a); lia.
      * destruct (pendb a); lia.
Qed.

(* the state of the expiry fields between two passes *)
Definition pass_inv (st : pstate_) (t : Z) : Prop :=
  (forall a, In a (p_arenas st) -> (a_expire a <= t)%Z) /\ (p_g st <= t)%Z /\ expiry_consistent st.

Lemma pass_step st t :
  (0 < arena_purge_delay cfg)%Z -> (0 <= t)%Z -> pass_inv st t ->
  let st' := pstep cfg oracle st (PCollect false) t in
  pass_inv st' (t + arena_purge_delay cfg) /\
  (pend (p_arenas st') = 0%nat \/ (pend (p_arenas st') < pend (p_arenas st))%nat).
Proof.
  intros Hd Ht (H1 & H2 & H3). cbv zeta.
  assert (Hcons : expiry_consistent (pstep cfg oracle st (PCollect false) t)) by (apply pstep_consistent; assumption).
  unfold pstep, arenas_collect in *. destruct st as [o g l]. cbn [p_os p_g p_arenas] in *.
  unfold arenas_try_purge in *.
  assert (E1 : (arena_purge_delay cfg <=? 0)%Z = false) by (apply Z.leb_gt; exact Hd). rewrite E1 in *.
  destruct (Z.eq_dec g 0) as [G0|G0].
  { (* global expiry 0: nothing is pending *)
    subst g. cbn [negb andb Z.eqb orb]. cbn [negb andb Z.eqb orb] in Hcons. unfold pass_inv. cbn [p_arenas p_g].
    split; [split; [intros a Ha; specialize (H1 a Ha); lia|split; [lia|exact Hcons]]|]. left.
    assert (Hz : forall a, In a l -> a_expire a = 0%Z).
    { intros a Ha. destruct (Z.eq_dec (a_expire a) 0) as [Z|NZ]; [exact Z|]. exfalso. exact (H3 a Ha NZ eq_refl). }
    clear - Hz. induction l as [|x r IH]; [reflexivity|]. rewrite pend_cons. unfold pendb. rewrite (Hz x (or_introl eq_refl)).
    cbn. rewrite andb_false_r. apply IH. intros a Ha. apply Hz. right. exact Ha. }
  assert (E2 : negb false && ((g =? 0)%Z || (t <? g)%Z) = false).
  { cbn [negb andb]. apply orb_false_intro; [apply Z.eqb_neq; exact G0|apply Z.ltb_ge; exact H2]. }
  rewrite E2 in *. destruct l as [|a0 l].
  { unfold pass_inv. cbn [p_arenas p_g]. split; [split; [intros a []|split; [lia|exact Hcons]]|left; reflexivity]. }
  pose proof (arenas_loop_progress (a0 :: l) o t 2 H1 Ht ltac:(lia)) as L. cbv zeta in L.
  destruct (arenas_loop cfg oracle o (a0 :: l) t false 2) as [[[o1 l'] v] p]. cbn [fst snd] in *. cbn [p_arenas p_g] in *.
  destruct L as (L1 & L2 & L3 & L4). unfold pass_inv. cbn [p_arenas p_g].
  split.
  - split; [intros a Ha; specialize (L1 a Ha); lia|]. split; [|exact Hcons].
    destruct (v && negb p); lia.
  - destruct v; [left; apply L2; reflexivity|right; apply L3; reflexivity].
Qed.

(* once nothing is pending, nothing becomes pending by further passes *)
Lemma passes_progress : forall (k : nat) st t,
  (0 < arena_purge_delay cfg)%Z -> (0 <= t)%Z -> pass_inv st t -> (pend (p_arenas st) <= k)%nat ->
  let h := map (fun i => (PCollect false, (t + Z.of_nat i * arena_purge_delay cfg)%Z)) (seq 0 (S k)) in
  pend (p_arenas (prun cfg oracle st h)) = 0%nat.
Proof.
  induction k as [|k IH]; intros st t Hd Ht Hi Hk; cbv zeta.
  - cbn [seq map prun fold_left fst snd]. destruct (pass_step st t Hd Ht Hi) as (_ & [Z|L]); cbv zeta in *.
    + replace (t + Z.of_nat 0 * arena_purge_delay cfg)%Z with t by lia. exact Z.
    + lia.
  - rewrite <- cons_seq. cbn [map prun fold_left fst snd]. rewrite <- seq_shift, map_map.
    replace (t + Z.of_nat 0 * arena_purge_delay cfg)%Z with t by lia.
    destruct (pass_step st t Hd Ht Hi) as (Hi' & Hp). cbv zeta in Hi', Hp.
    set (st1 := pstep cfg oracle st (PCollect false) t) in *.
    assert (Hk1 : (pend (p_arenas st1) <= k)%nat) by (destruct Hp; lia).
    pose proof (IH st1 (t + arena_purge_delay cfg)%Z Hd ltac:(lia) Hi' Hk1) as R. cbv zeta in R.
    erewrite map_ext; [exact R|]. intros i. cbn beta. f_equal. lia.
Qed.

(* arena_eventually_purged (the statement that was open in Proofs/OsOpen.v with the hypothesis that the clock is not negative:
   _mi_clock_now() returns milliseconds of a monotonic clock; the second unused quantifier `n` dropped) *)
Theorem arena_eventually_purged st :
  (0 < arena_purge_delay cfg)%Z -> expiry_consistent st ->
  exists k, forall t0, (0 <= t0)%Z -> (forall a, In a (p_arenas st) -> (a_expire a <= t0)%Z) -> (p_g st <= t0)%Z ->
    let h := map (fun i => (PCollect false, (t0 + Z.of_nat i * arena_purge_delay cfg)%Z)) (seq 0 k) in
    forall a', In a' (p_arenas (prun cfg oracle st h)) -> a_pinned a' = false -> a_expire a' = 0%Z.
Proof.
  intros Hd Hc. exists (S (pend (p_arenas st))). intros t0 Ht H1 H2 h a' Ha' Hp.
  apply (pend_zero (p_arenas (prun cfg oracle st h))); [|exact Ha'|exact Hp].
  apply (passes_progress (pend (p_arenas st)) st t0 Hd Ht); [|lia]. split; [exact H1|split; [exact H2|exact Hc]].
Qed.
End WithOracle.

(* ---- why the clock must not be negative: the statement as it stood in Proofs/OsOpen.v (removed) (any t0) is false in the model.
   Three pending arenas, global expiry and arena expiries -100, first pass at t0 = -100 (default options: delay 100 ms):
   the pass re-arms the global expiry to now + delay = 0, which reads as "not armed", is cut short after two purging arenas,
   and no later non-forced pass ever visits the third.  _mi_clock_now() never returns a negative value (milliseconds of
   CLOCK_MONOTONIC), so this is a defect of the statement, not of the code. ---- *)
Definition arena_eventually_purged_any_clock : Prop :=
  forall cfg oracle st (n : nat), (0 < arena_purge_delay cfg)%Z -> expiry_consistent st ->
    exists k, forall t0, (forall a, In a (p_arenas st) -> (a_expire a <= t0)%Z) -> (p_g st <= t0)%Z ->
      let h := map (fun i => (PCollect false, (t0 + Z.of_nat i * arena_purge_delay cfg)%Z)) (seq 0 k) in
      forall a', In a' (p_arenas (prun cfg oracle st h)) -> a_pinned a' = false -> a_expire a' = 0%Z.

Definition neg_arena (start : N) : arena :=
  {| a_start := start; a_block_count := 4; a_field_count := 1; a_inuse := N.ones 64 - 14; a_committed := N.ones 64;
     a_purge := 2; a_expire := (-100)%Z; a_pinned := false |}.
Definition neg_state : pstate_ :=
  {| p_os := wit_os; p_g := (-100)%Z; p_arenas := [neg_arena (2 ^ 40); neg_arena (2 ^ 41); neg_arena (2 ^ 42)] |}.

Lemma neg_first_pass :
  arena_purge_delay default_cfg = 100%Z /\
  let st1 := pstep default_cfg wit_oracle neg_state (PCollect false) (-100)%Z in
  p_g st1 = 0%Z /\ map a_expire (p_arenas st1) = [0%Z; 0%Z; (-100)%Z] /\ map a_pinned (p_arenas st1) = [false; false; false].
Proof. vm_compute. repeat split. Qed.

Lemma arena_eventually_purged_any_clock_refuted : ~ arena_eventually_purged_any_clock.
Proof.
  intros H. destruct neg_first_pass as (Hd & H1).
  destruct (H default_cfg wit_oracle neg_state 0%nat) as (k & Hk).
  - rewrite Hd. reflexivity.
  - intros a _ _. cbn. discriminate.
  - specialize (Hk (-100)%Z). cbv zeta in Hk.
    assert (Hexp : forall a, In a (p_arenas neg_state) -> (a_expire a <= -100)%Z).
    { intros a [<-|[<-|[<-|[]]]]; cbn; lia. }
    specialize (Hk Hexp ltac:(cbn; lia)).
    assert (Hbad : exists a', In a' (p_arenas (prun default_cfg wit_oracle neg_state
                     (map (fun i => (PCollect false, (-100 + Z.of_nat i * arena_purge_delay default_cfg)%Z)) (seq 0 k)))) /\
                   a_pinned a' = false /\ a_expire a' <> 0%Z).
    { destruct k as [|k].
      - exists (neg_arena (2 ^ 42)). split; [cbn; auto|]. split; [reflexivity|cbn; discriminate].
      - rewrite <- cons_seq. cbn [map prun fold_left fst snd]. rewrite <- seq_shift, map_map.
        replace (-100 + Z.of_nat 0 * arena_purge_delay default_cfg)%Z with (-100)%Z by lia.
        cbv zeta in H1. destruct H1 as (G & E & P).
        set (st1 := pstep default_cfg wit_oracle neg_state (PCollect false) (-100)) in *.
        change (fold_left (fun s y => pstep default_cfg wit_oracle s (fst y) (snd y))
                  (map (fun i => (PCollect false, (-100 + Z.of_nat (S i) * arena_purge_delay default_cfg)%Z)) (seq 0 k)) st1)
          with (prun default_cfg wit_oracle st1 (map (fun i => (PCollect false, (-100 + Z.of_nat (S i) * arena_purge_delay default_cfg)%Z)) (seq 0 k))).
        rewrite <- (map_map (fun x => (-100 + Z.of_nat (S x) * arena_purge_delay default_cfg)%Z) (fun t => (PCollect false, t))).
        rewrite (collects_g0 default_cfg wit_oracle _ st1 G).
        destruct (p_arenas st1) as [|a1 [|a2 [|a3 [|a4 r]]]]; try discriminate. cbn in E, P.
        exists a3. split; [cbn; auto|]. injection E as E1 E2 E3. injection P as P1 P2 P3. split; [exact P3|rewrite E3; discriminate]. }
    destruct Hbad as (a' & Hin & Hp & He). apply He. exact (Hk a' Hin Hp).
Qed.
