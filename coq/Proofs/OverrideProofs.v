(* Proofs for property C19 -- drop-in override.
   The table Gen/Override.v is finite and regenerated from the current tree on every run, so the
   statement "the table meets the platform's requirement" is a closed boolean, proved by computation
   (override_complete, override_single_allocator).  The *_spec lemmas say what `= true` means. *)
From Coq Require Import List String Bool Arith.
From MiV Require Import Gen.Override Model.Override.
Import ListNotations.
Local Open Scope string_scope.

(* ---------------------------------------------------------------------------------------------- *)
(* bookkeeping                                                                                      *)
(* ---------------------------------------------------------------------------------------------- *)

Lemma mem_In s l : mem s l = true <-> In s l.
Proof.
  unfold mem. rewrite existsb_exists. split.
  - intros [x [Hin He]]. apply String.eqb_eq in He. subst x. exact Hin.
  - intros H. exists s. split; [exact H | apply String.eqb_refl].
Qed.

Lemma mem_false_not_In s l : mem s l = false -> ~ In s l.
Proof. intros H Hin. apply mem_In in Hin. rewrite Hin in H. discriminate. Qed.

Lemma list_eqb_eq {A} (eqb : A -> A -> bool) :
  (forall x y, eqb x y = true -> x = y) -> forall a b, list_eqb eqb a b = true -> a = b.
Proof.
  intros He. induction a as [|x a IH]; destruct b as [|y b]; simpl; intros H; try discriminate; auto.
  apply andb_prop in H as [H1 H2]. f_equal; auto.
Qed.

Lemma string_eqb_true x y : String.eqb x y = true -> x = y.
Proof. apply String.eqb_eq. Qed.

Lemma nodupb_NoDup l : nodupb l = true -> NoDup l.
Proof.
  induction l as [|x l IH]; simpl; intros H; [constructor|].
  apply andb_prop in H as [H1 H2]. constructor; [|auto].
  apply mem_false_not_In. destruct (mem x l); [discriminate|reflexivity].
Qed.

Lemma find_entry_some t s e : find_entry t s = Some e -> In e (l_entries t) /\ e_sym e = s.
Proof.
  unfold find_entry. intros H. apply find_some in H as [H1 H2]. apply String.eqb_eq in H2. auto.
Qed.

Lemma find_entry_none t s : find_entry t s = None -> forall e, In e (l_entries t) -> e_sym e <> s.
Proof.
  unfold find_entry. intros H e Hin Heq. pose proof (find_none _ _ H e Hin) as Hn. simpl in Hn.
  rewrite Heq, String.eqb_refl in Hn. discriminate.
Qed.

Lemma find_target_some s g : find_target s = Some g -> In g targets /\ t_name g = s.
Proof.
  unfold find_target. intros H. apply find_some in H as [H1 H2]. apply String.eqb_eq in H2. auto.
Qed.

(* the identity argument list passes every role through unchanged: what an alias, or a forwarder that
   hands its parameters on in order, does *)
Lemma passed_roles_identity_gen pre roles :
  passed_roles (pre ++ roles)%list (seq (List.length pre) (List.length roles)) = Some roles.
Proof.
  revert pre. induction roles as [|r roles IH]; intros pre; simpl; [reflexivity|].
  rewrite nth_error_app2 by apply Nat.le_refl. rewrite Nat.sub_diag. simpl.
  specialize (IH (pre ++ [r])%list). rewrite <- app_assoc in IH. simpl in IH.
  rewrite app_length in IH. simpl in IH. rewrite Nat.add_1_r in IH. rewrite IH. reflexivity.
Qed.

Lemma passed_roles_identity roles : passed_roles roles (seq 0 (List.length roles)) = Some roles.
Proof. exact (passed_roles_identity_gen [] roles). Qed.

(* ---------------------------------------------------------------------------------------------- *)
(* what override_ok = true means                                                                    *)
(* ---------------------------------------------------------------------------------------------- *)

(* entry e serves requirement r *)
Definition entry_meets (t : libtable) (r : req) (e : entry) : Prop :=
  exists g, In g targets /\ t_name g = e_target e /\
    t_cls g = r_cls r /\                                   (* a target of the required class *)
    t_fail g = r_fail r /\                                 (* with the required failure convention *)
    passed_roles (map snd (r_params r)) (e_args e) = Some (t_roles g) /\   (* arguments in the right positions *)
    e_ret e = r_ret r /\ e_params e = map fst (r_params r) /\             (* the platform's C signature *)
    e_returns e = returns_value r /\                       (* the target's result is handed back *)
    (e_via e = Alias -> e_same_addr e = true) /\           (* an alias has the target's address in the built library *)
    In (e_target e) (l_defined t).                         (* the target is defined by the same library *)

(* requirement r is met by table t *)
Definition req_holds (t : libtable) (r : req) : Prop :=
  (exists e, In e (l_entries t) /\ e_sym e = r_sym r /\ entry_meets t r e) \/
  ((forall e, In e (l_entries t) -> e_sym e <> r_sym r) /\ r_presence r <> MustExport).

Lemma entry_ok_spec t r e : entry_ok t r e = true -> entry_meets t r e.
Proof.
  unfold entry_ok, entry_meets.
  destruct (find_target (e_target e)) as [g|] eqn:Hg; [|discriminate].
  intros H.
  apply andb_prop in H as [H Hdef].
  apply andb_prop in H as [H Hvia].
  apply andb_prop in H as [H Hret].
  apply andb_prop in H as [H Hpar].
  apply andb_prop in H as [H Hrt].
  apply andb_prop in H as [H Hroles].
  apply andb_prop in H as [Hcls Hfail].
  apply find_target_some in Hg as [Hin Hname].
  exists g. split; [exact Hin|]. split; [exact Hname|].
  split; [apply internal_cls_dec_bl; exact Hcls|].
  split; [apply internal_onfail_dec_bl; exact Hfail|].
  split.
  { destruct (passed_roles (map snd (r_params r)) (e_args e)) as [rs|]; [|discriminate].
    f_equal. apply (list_eqb_eq role_beq internal_role_dec_bl). exact Hroles. }
  split; [apply String.eqb_eq; exact Hrt|].
  split; [apply (list_eqb_eq String.eqb string_eqb_true); exact Hpar|].
  split; [apply Bool.eqb_prop; exact Hret|].
  split; [intros Ha; rewrite Ha in Hvia; exact Hvia|].
  apply mem_In. exact Hdef.
Qed.

Lemma req_ok_spec t r : req_ok t r = true -> req_holds t r.
Proof.
  unfold req_ok, req_holds. destruct (find_entry t (r_sym r)) as [e|] eqn:Hf; intros H.
  - left. apply find_entry_some in Hf as [Hin Hs]. exists e. split; [exact Hin|]. split; [exact Hs|].
    apply entry_ok_spec. exact H.
  - right. split; [apply find_entry_none; exact Hf|]. intros Hp. rewrite Hp in H. discriminate.
Qed.

Lemma override_ok_failures t : override_ok t = true -> override_failures t = [].
Proof. unfold override_ok. destruct (override_failures t); [reflexivity|discriminate]. Qed.

Lemma override_ok_req_ok t : override_ok t = true -> forall r, In r required -> req_ok t r = true.
Proof.
  intros H r Hin. apply override_ok_failures in H. unfold override_failures in H.
  apply map_eq_nil in H. destruct (req_ok t r) eqn:E; [reflexivity|].
  assert (Hf : In r (filter (fun r => negb (req_ok t r)) required)).
  { apply filter_In. split; [exact Hin|]. rewrite E. reflexivity. }
  rewrite H in Hf. destruct Hf.
Qed.

(* override_ok t = true: every required entry point is exported with an entry that serves it, or is
   absent and allowed to be (served through libc's malloc call / not provided by this libc) *)
Lemma override_ok_spec t : override_ok t = true -> forall r, In r required -> req_holds t r.
Proof. intros H r Hin. apply req_ok_spec. apply (override_ok_req_ok t H r Hin). Qed.

(* ---------------------------------------------------------------------------------------------- *)
(* the regenerated table                                                                            *)
(* ---------------------------------------------------------------------------------------------- *)

(* if this breaks, Coq prints the list of required symbols the current tree does not serve *)
Lemma override_no_failures : override_failures Gen.Override.table = [].
Proof. vm_compute. reflexivity. Qed.

Lemma override_complete : override_ok Gen.Override.table = true.
Proof. unfold override_ok. rewrite override_no_failures. reflexivity. Qed.

Lemma override_complete_spec : forall r, In r required -> req_holds Gen.Override.table r.
Proof. exact (override_ok_spec _ override_complete). Qed.

(* ---------------------------------------------------------------------------------------------- *)
(* one allocator                                                                                    *)
(* ---------------------------------------------------------------------------------------------- *)

Definition single_allocator (t : libtable) : Prop :=
  (forall e, In e (l_entries t) -> In (e_target e) (l_defined t)) /\
  NoDup (map e_sym (l_entries t)) /\
  (forall r, In r required -> r_presence r = MustExport -> ~ In (r_sym r) (l_imports t)) /\
  (forall s, In s core_api -> In s (l_defined t)).

Lemma single_allocator_spec t : single_allocator_b t = true -> single_allocator t.
Proof.
  unfold single_allocator_b, single_allocator. intros H.
  apply andb_prop in H as [H Hcore].
  apply andb_prop in H as [H Himp].
  apply andb_prop in H as [Htg Hnd].
  split; [|split; [|split]].
  - intros e Hin. apply mem_In. exact (proj1 (forallb_forall _ _) Htg e Hin).
  - apply nodupb_NoDup. exact Hnd.
  - intros r Hin Hp. apply mem_false_not_In.
    assert (Hf : In r (filter must_export required)).
    { apply filter_In. split; [exact Hin|]. unfold must_export. rewrite Hp. reflexivity. }
    pose proof (proj1 (forallb_forall _ _) Himp r Hf) as Hn. simpl in Hn.
    destruct (mem (r_sym r) (l_imports t)); [discriminate|reflexivity].
  - intros s Hin. apply mem_In. exact (proj1 (forallb_forall _ _) Hcore s Hin).
Qed.

Lemma override_single_allocator_b : single_allocator_b Gen.Override.table = true.
Proof. vm_compute. reflexivity. Qed.

Lemma override_single_allocator : single_allocator Gen.Override.table.
Proof. exact (single_allocator_spec _ override_single_allocator_b). Qed.

(* ---------------------------------------------------------------------------------------------- *)
(* every entry point is served by a function of the right kind                                      *)
(* ---------------------------------------------------------------------------------------------- *)

Definition req_malloc : req := mkReq "malloc" LC Alloc "void*" [sz] FNull MustExport.

Lemma req_malloc_in : In req_malloc required.
Proof. left. reflexivity. Qed.

Lemma via_malloc_dup_b :
  forallb (fun r => match r_presence r with ViaMalloc => cls_beq (r_cls r) Dup | _ => true end) required = true.
Proof. vm_compute. reflexivity. Qed.

Lemma via_malloc_dup r : In r required -> r_presence r = ViaMalloc -> r_cls r = Dup.
Proof.
  intros Hin Hp. pose proof (proj1 (forallb_forall _ _) via_malloc_dup_b r Hin) as H. simpl in H.
  rewrite Hp in H. apply internal_cls_dec_bl. exact H.
Qed.

Lemma entry_meets_class t r e : entry_meets t r e ->
  class_of_target (e_target e) = Some (r_cls r) /\ In (e_target e) (l_defined t).
Proof.
  intros [g [Hin [Hn [Hc [_ [_ [_ [_ [_ [_ Hd]]]]]]]]]]. split; [|exact Hd].
  unfold class_of_target, find_target.
  destruct (find (fun g0 => String.eqb (t_name g0) (e_target e)) targets) as [g'|] eqn:Hf.
  - (* the first target with that name: names in `targets` are unique, shown by computation below;
       here it is enough that `find` returned some g' -- we need its class: use uniqueness *)
    simpl. apply find_some in Hf as [Hin' He']. apply String.eqb_eq in He'.
    assert (Hu : forall a b, In a targets -> In b targets -> t_name a = t_name b -> t_cls a = t_cls b).
    { assert (Hb : forallb (fun a => forallb (fun b => implb (String.eqb (t_name a) (t_name b)) (cls_beq (t_cls a) (t_cls b))) targets) targets = true)
        by (vm_compute; reflexivity).
      intros a b Ha Hb' Hab.
      pose proof (proj1 (forallb_forall _ _) (proj1 (forallb_forall _ _) Hb a Ha) b Hb') as Hx. simpl in Hx.
      rewrite Hab, String.eqb_refl in Hx. simpl in Hx. apply internal_cls_dec_bl. exact Hx. }
    rewrite (Hu g' g Hin' Hin) by congruence. rewrite Hc. reflexivity.
  - exfalso. pose proof (find_none _ _ Hf g Hin) as Hx. simpl in Hx. rewrite Hn, String.eqb_refl in Hx. discriminate.
Qed.

(* the function that serves a required entry point has the entry point's class -- or, for an entry
   point that libc implements on top of malloc and the library does not export, it is malloc's target *)
Lemma served_by_class t : override_ok t = true -> forall r f, In r required -> served_by t r = Some f ->
  In f (l_defined t) /\
  (class_of_target f = Some (r_cls r) \/ (r_presence r = ViaMalloc /\ class_of_target f = Some Alloc)).
Proof.
  intros Hok r f Hin Hs. unfold served_by in Hs.
  destruct (find_entry t (r_sym r)) as [e|] eqn:Hf.
  - injection Hs as <-. pose proof (override_ok_req_ok t Hok r Hin) as Hr. unfold req_ok in Hr. rewrite Hf in Hr.
    apply entry_ok_spec, entry_meets_class in Hr as [Hc Hd]. split; [exact Hd|]. left. exact Hc.
  - destruct (r_presence r) eqn:Hp; try discriminate.
    pose proof (override_ok_req_ok t Hok req_malloc req_malloc_in) as Hr. unfold req_ok in Hr.
    change (r_sym req_malloc) with "malloc" in Hr.
    destruct (find_entry t "malloc") as [em|]; [|discriminate]. simpl in Hs. injection Hs as <-.
    apply entry_ok_spec, entry_meets_class in Hr as [Hc Hd]. split; [exact Hd|]. right. split; [reflexivity|exact Hc].
Qed.

(* every entry point the platform provides is served *)
Lemma served_total t : override_ok t = true -> forall r, In r required -> r_presence r <> Optional ->
  exists f, served_by t r = Some f.
Proof.
  intros Hok r Hin Hp. unfold served_by.
  destruct (find_entry t (r_sym r)) as [e|] eqn:Hf; [eexists; reflexivity|].
  pose proof (override_ok_req_ok t Hok r Hin) as Hr. unfold req_ok in Hr. rewrite Hf in Hr.
  destruct (r_presence r); [discriminate| |contradiction Hp; reflexivity].
  pose proof (override_ok_req_ok t Hok req_malloc req_malloc_in) as Hm. unfold req_ok in Hm.
  change (r_sym req_malloc) with "malloc" in Hm.
  destruct (find_entry t "malloc") as [em|]; [|discriminate]. eexists; reflexivity.
Qed.

(* ---------------------------------------------------------------------------------------------- *)
(* crossing entry points                                                                            *)
(* ---------------------------------------------------------------------------------------------- *)

Section CrossEntryPoint.
  (* ONE allocator instance, seen through its mi_ functions (named by their symbol): *)
  Variable block : Type.                               (* a live block *)
  Variable returned_by : string -> block -> Prop.      (* mi_ function f returned block b, and b is still live *)
  Variable accepted_by : string -> block -> Prop.      (* calling mi_ function f on b is well defined: it releases /
                                                          resizes (contents kept) / reports the usable size of b *)

  (* HYPOTHESIS (not proved here; it is what properties C01, C03 and C05 establish about the allocator
     behind the mi_ API): every releasing / resizing / querying function of the instance accepts any
     live block returned by any of its allocating functions. *)
  Hypothesis H_one_allocator : forall fa fc b,
    allocating_target fa = true -> consuming_target fc = true -> returned_by fa b -> accepted_by fc b.

  Variable t : libtable.
  Hypothesis Hok : override_ok t = true.

  (* the same two notions at the level of the platform's entry points *)
  Definition entry_returns (r : req) (b : block) : Prop := exists f, served_by t r = Some f /\ returned_by f b.
  Definition entry_accepts (r : req) (b : block) : Prop := exists f, served_by t r = Some f /\ accepted_by f b.

  Lemma cross_entry_point :
    forall ra rc, In ra required -> In rc required ->
      allocating (r_cls ra) = true -> consuming (r_cls rc) = true ->
      served_by t rc <> None ->                       (* the consuming entry point exists (cfree may not) *)
      forall b, entry_returns ra b -> entry_accepts rc b.
  Proof.
    intros ra rc Ha Hc Hca Hcc Hsrv b [fa [Hfa Hret]].
    destruct (served_by t rc) as [fc|] eqn:Hfc; [|contradiction Hsrv; reflexivity].
    exists fc. split; [exact Hfc|].
    apply (H_one_allocator fa fc b); [| |exact Hret].
    - destruct (served_by_class t Hok ra fa Ha Hfa) as [_ [Hk|[_ Hk]]];
        unfold allocating_target; rewrite Hk; [exact Hca|reflexivity].
    - destruct (served_by_class t Hok rc fc Hc Hfc) as [_ [Hk|[Hp Hk]]].
      + unfold consuming_target. rewrite Hk. exact Hcc.
      + rewrite (via_malloc_dup rc Hc Hp) in Hcc. discriminate.
  Qed.
End CrossEntryPoint.

(* the two facts above for the regenerated table *)
Lemma entry_points_served : forall r, In r required -> r_presence r <> Optional ->
  exists f, served_by Gen.Override.table r = Some f /\ In f (l_defined Gen.Override.table) /\
    (class_of_target f = Some (r_cls r) \/ (r_presence r = ViaMalloc /\ class_of_target f = Some Alloc)).
Proof.
  intros r Hin Hp. destruct (served_total _ override_complete r Hin Hp) as [f Hf].
  exists f. split; [exact Hf|]. exact (served_by_class _ override_complete r f Hin Hf).
Qed.

Lemma cross_entry_point_ok :
  forall (block : Type) (returned_by accepted_by : string -> block -> Prop),
    (forall fa fc b, allocating_target fa = true -> consuming_target fc = true ->
                     returned_by fa b -> accepted_by fc b) ->
    forall ra rc, In ra required -> In rc required ->
      allocating (r_cls ra) = true -> consuming (r_cls rc) = true ->
      served_by Gen.Override.table rc <> None ->
      forall b, entry_returns block returned_by Gen.Override.table ra b ->
                entry_accepts block accepted_by Gen.Override.table rc b.
Proof.
  intros block returned_by accepted_by H. exact (cross_entry_point block returned_by accepted_by H _ override_complete).
Qed.

(* the documented failure convention travels with the forward: an exported entry point resolves to a
   target of its class with exactly the failure convention the platform documents for the entry point
   (posix_memalign -> error code, slot untouched; reallocarray -> NULL + errno; new -> throws; nothrow
   new -> nullptr; malloc family -> NULL).  What the convention means for each mi_ target is the subject
   of the allocator properties (Model/Api.v: posix_memalign, reallocarray). *)
Lemma failure_convention : forall r e, In r required ->
  find_entry Gen.Override.table (r_sym r) = Some e ->
  exists g, find_target (e_target e) = Some g /\ t_cls g = r_cls r /\ t_fail g = r_fail r.
Proof.
  intros r e Hin Hf. pose proof (override_ok_req_ok _ override_complete r Hin) as H.
  unfold req_ok in H. rewrite Hf in H. unfold entry_ok in H.
  destruct (find_target (e_target e)) as [g|]; [|discriminate].
  exists g. split; [reflexivity|].
  apply andb_prop in H as [H _]. apply andb_prop in H as [H _]. apply andb_prop in H as [H _].
  apply andb_prop in H as [H _]. apply andb_prop in H as [H _]. apply andb_prop in H as [H _].
  apply andb_prop in H as [Hc Hfl].
  split; [apply internal_cls_dec_bl; exact Hc | apply internal_onfail_dec_bl; exact Hfl].
Qed.

(* non-vacuity helpers used by Properties/C19.v: a table the decision rejects *)
Definition drop_entry (s : string) (t : libtable) : libtable :=
  mkLib (filter (fun e => negb (String.eqb (e_sym e) s)) (l_entries t)) (l_defined t) (l_imports t).

Definition retarget (s tgt : string) (args : list nat) (t : libtable) : libtable :=
  mkLib (map (fun e => if String.eqb (e_sym e) s
                       then mkEntry (e_sym e) tgt Forwarder args (e_ret e) (e_params e) (e_returns e) false (e_weak e)
                       else e) (l_entries t)) (l_defined t) (l_imports t).
