(* Composition layer (C01): the boolean mem_inv_b that is evaluated on states rebuilt from dumps of the
   implementation (ocaml/mode_compose.ml) decides the invariant mem_inv. *)
From Coq Require Import NArith ZArith Lia Bool List.
From MiV Require Import Gen.Consts Gen.Bins Model.Arith Model.Page Model.Span Model.Compose
  Proofs.Base Proofs.PageProofs Proofs.SpanBase Proofs.SpanInv Proofs.SpanProofs
  Proofs.ComposeBase Proofs.ComposeInv.
Import ListNotations.
Local Open Scope N_scope.

Lemma forallb_iff {A} (f : A -> bool) (P : A -> Prop) l :
  (forall x, f x = true <-> P x) -> (forallb f l = true <-> forall x, In x l -> P x).
Proof.
  intros H. rewrite forallb_forall. split; intros G x Hx; apply H; apply G; assumption.
Qed.

Lemma ghost_ok_b_spec cp : ghost_ok_b cp = true <-> ghost_ok cp.
Proof.
  unfold ghost_ok_b, ghost_ok. cbv zeta. rewrite !andb_true_iff, nodupb_spec.
  rewrite (forallb_iff _ (fun b => is_live (cp_page cp) b)) by (intros b; rewrite memN_In; apply page_live_spec).
  rewrite (forallb_iff _ (fun b => In b (map fst (cp_ghost cp)))) by (intros b; apply memN_In).
  rewrite (forallb_iff _ (fun e => snd e <= bsize (cp_page cp))) by (intros e; apply N.leb_le).
  split.
  - intros (((H1 & H2) & H3) & H4). split; [assumption|]. split.
    + intros b. split; [apply H2|]. intros Hl. apply H3. apply page_live_spec. assumption.
    + intros b r Hin. apply (H4 (b, r) Hin).
  - intros (H1 & H2 & H3). split; [split; [split; [assumption|]|]|].
    + intros b Hb. apply H2. assumption.
    + intros b Hb. apply H2. apply page_live_spec. assumption.
    + intros [b r] Hin. apply (H3 b r Hin).
Qed.

Lemma page_ok_b_spec cs cp : page_ok_b cs cp = true <->
  page_ok (cs_base cs) (get (entries (fst (cs_st cs))) (cp_idx cp)) cp.
Proof.
  unfold page_ok_b, page_ok. cbv zeta. rewrite !andb_true_iff, page_inv_b_spec, !N.eqb_eq, ghost_ok_b_spec.
  rewrite page_area_eq. tauto.
Qed.

Lemma In_firsts sg i : In i (filter (fun i => 0 <? i) (map fst (used_spans sg))) <->
  0 < i /\ exists c, In (i, c) (used_spans sg).
Proof.
  rewrite filter_In, N.ltb_lt, in_map_iff. split.
  - intros (([j c] & E & Hin) & Hi). cbn [fst] in E. subst j. split; [assumption|]. exists c. assumption.
  - intros (Hi & c & Hin). split; [exists (i, c); auto|assumption].
Qed.

Lemma kind_is_huge_spec sg : (kind_is_huge sg = true <-> kind sg = SegHuge) /\ (kind_is_huge sg = false <-> kind sg = SegNormal).
Proof. unfold kind_is_huge. destruct (kind sg); split; split; intros H; try reflexivity; discriminate. Qed.

Lemma seg_ok_b_spec cs : seg_ok_b cs = true <-> seg_ok cs.
Proof.
  unfold seg_ok_b, seg_ok. cbv zeta. rewrite !andb_true_iff, N.eqb_eq, !N.ltb_lt, span_inv_b_spec, nodupb_spec.
  rewrite (forallb_iff _ (fun i => In i (filter (fun i => 0 <? i) (map fst (used_spans (fst (cs_st cs)))))))
    by (intros i; apply memN_In).
  rewrite (forallb_iff _ (fun i => In i (map cp_idx (cs_pages cs)))) by (intros i; apply memN_In).
  rewrite (forallb_iff _ (fun cp => page_ok (cs_base cs) (get (entries (fst (cs_st cs))) (cp_idx cp)) cp))
    by (intros cp; apply page_ok_b_spec).
  split.
  - intros (((((((((H1 & H2) & H3) & H4) & H5) & H6) & H7) & H8) & H9) & H10).
    repeat (split; [assumption|]). split; [|split; [assumption|]].
    + intros i. rewrite <- In_firsts. split; [apply H7|apply H8].
    + destruct (kind_is_huge (fst (cs_st cs))) eqn:Ek; destruct (kind_is_huge_spec (fst (cs_st cs))) as (Kh & Kn).
      * split; [intros Hk; apply Kh in Ek; congruence|]. intros _ cp Hcp.
        rewrite forallb_forall in H10. apply N.leb_le. apply (H10 cp Hcp).
      * split; [|intros Hk; apply Kn in Ek; congruence]. intros _ i c Hin.
        rewrite forallb_forall in H10. apply N.leb_le. apply (H10 (i, c) Hin).
  - intros (H1 & H2 & H3 & H4 & H5 & H6 & H7 & H8 & H9 & H10).
    split; [split; [split; [split; [split; [split; [split; [split; [split|]|]|]|]|]|]|]|]; try assumption.
    + intros i Hi. apply In_firsts. apply H7. assumption.
    + intros i Hi. apply H7. apply In_firsts. assumption.
    + destruct (kind_is_huge (fst (cs_st cs))) eqn:Ek; destruct (kind_is_huge_spec (fst (cs_st cs))) as (Kh & Kn).
      * apply forallb_forall. intros cp Hcp. apply N.leb_le. apply (H10 (proj1 Kh Ek) cp Hcp).
      * apply forallb_forall. intros [i c] Hin. apply N.leb_le. apply (H9 (proj1 Kn Ek) i c Hin).
Qed.

Lemma apart_b_spec m : apart_b m = true <-> NoDup (map cs_base m) /\ apart m.
Proof.
  induction m as [|a r IH]; cbn [apart_b map].
  - split; [intros _; split; [constructor|intros ? ? []]|reflexivity].
  - rewrite andb_true_iff, IH, forallb_forall. split.
    + intros (H1 & Hnd & Hap). split.
      * constructor; [|assumption]. intros Hin. apply in_map_iff in Hin as (b & Eb & Hb).
        specialize (H1 b Hb). rewrite andb_true_iff, negb_true_iff, N.eqb_neq in H1. destruct H1 as (H1 & _). congruence.
      * intros x y [<-|Hx] [<-|Hy] Hne.
        -- congruence.
        -- specialize (H1 y Hy). rewrite andb_true_iff, orb_true_iff, !N.leb_le in H1. apply H1.
        -- specialize (H1 x Hx). rewrite andb_true_iff, orb_true_iff, !N.leb_le in H1. destruct H1 as (_ & [H|H]); [right|left]; assumption.
        -- apply Hap; assumption.
    + intros (Hnd & Hap). inversion Hnd; subst. split; [|split; [assumption|]].
      * intros b Hb. rewrite andb_true_iff, negb_true_iff, N.eqb_neq, orb_true_iff, !N.leb_le.
        assert (Hne : cs_base a <> cs_base b) by (intros E; apply H1; rewrite E; apply in_map; assumption).
        split; [assumption|]. apply Hap; [left; reflexivity|right; assumption|assumption].
      * intros x y Hx Hy. apply Hap; right; assumption.
Qed.

Theorem mem_inv_b_spec m : mem_inv_b m = true <-> mem_inv m.
Proof.
  unfold mem_inv_b, mem_inv. rewrite andb_true_iff, apart_b_spec.
  rewrite (forallb_iff _ seg_ok) by (intros cs; apply seg_ok_b_spec). tauto.
Qed.
