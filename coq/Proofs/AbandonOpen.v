(* Open statement of the abandonment model (C09, model part): type-checked, NOT proved.  It is
   exercised by the model-side simulator (ocaml/mode_bind.ml, mode `abandon-sim`) and by the examples
   of Proofs/AbandonProofs.v (ex_collect, ex_run1, ex_run2). *)
From Coq Require Import NArith ZArith List Bool.
From MiV Require Import Gen.Consts Model.Abandon Proofs.AbandonProofs.
Import ListNotations.
Local Open Scope N_scope.

(* collect_frees_dead_abandoned: from a quiescent state a forced collect (cursor over every arena
   segment, then as many OS-list visits as the list is long) run by a live thread t without
   interference leaves no abandoned segment of t's sub-process without live blocks *)
Definition collect_frees_dead_abandoned_stmt : Prop :=
  forall st t th n_os fuel,
    Inv st -> quiescent st = true -> nth_error (threads st) t = Some th ->
    t_prog th = collect_prog (length (segs st)) n_os -> (length (os_list st) <= n_os)%nat ->
    (16 * (length (segs st) + n_os + 1) <= fuel)%nat ->
    let st' := run_solo fuel st t in
    no_dead_abandoned_b st' (t_subproc th) = true /\ quiescent st' = true /\ Inv st'.

(* (the accounting of subproc->abandoned_count at quiescence, formerly stated here, is proved: Proofs/AbandonCount.v,
   abandoned_count_quiescent) *)
