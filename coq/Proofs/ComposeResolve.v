(* Composition layer (C01): C01_compose_free_resolves -- for every live block and every address inside it
   the pointer resolution of mi_free (Compose.resolve: _mi_ptr_segment, _mi_segment_page_of,
   _mi_page_ptr_unalign) finds exactly that block; uses the round-trip theorems of the span layer / C16. *)
From Coq Require Import NArith ZArith Lia Bool List.
From Coq Require Import ZifyN ZifyBool.
From MiV Require Import Gen.Consts Gen.Bins Model.Arith Model.Page Model.Span Model.Compose
  Proofs.Base Proofs.BitsProofs Proofs.PageProofs Proofs.SpanBase Proofs.SpanInv Proofs.SpanProofs
  Proofs.ComposeBase Proofs.ComposeInv Proofs.ComposeSpan Proofs.ComposeOps Proofs.ComposeSeg.
Import ListNotations.
Local Open Scope N_scope.

Lemma kind_is_huge_false sg : kind_is_huge sg = false <-> kind sg = SegNormal.
Proof. unfold kind_is_huge. destruct (kind sg); split; intros H; try reflexivity; discriminate. Qed.

Theorem resolve_live m cs cp b r p : mem_inv m -> live_at m cs cp b r ->
  let lo := block_addr cs cp b in
  lo <= p -> p < lo + bsize (cp_page cp) -> (has_aligned (cp_page cp) = true \/ p = lo) ->
  (forall c, In (cp_idx cp, c) (used_spans (fst (cs_st cs))) -> resolvable_b cs (cp_idx cp) c p = true) ->
  resolve m p = Some (cs_base cs, cp_idx cp, b).
Proof.
  intros Hm L lo Hlo Hhi Hal Hres.
  destruct (live_inside _ _ _ _ _ Hm L) as (c & Hsp & Hi0 & Hbs0 & _ & Hcap & G1 & G2 & G3 & G4 & G5 & G6 & G7).
  destruct L as (Hcs & Hcp & Hg).
  pose proof (seg_ok_In _ _ Hm Hcs) as Hs. pose proof Hs as (A1 & A2 & A3 & A4 & Hinv & _).
  destruct (page_ok_In _ _ Hs Hcp) as (Hpi & Hbz & _).
  specialize (Hres c Hsp). unfold resolvable_b in Hres.
  apply andb_prop in Hres as (Hres & Hwhere). apply andb_prop in Hres as (Hseg & Hhuge).
  apply N.leb_le in Hseg.
  set (start := fst (page_area cs (cp_idx cp))) in *. set (psize := snd (page_area cs (cp_idx cp))) in *.
  set (bs := bsize (cp_page cp)) in *.
  assert (E63 : 2 ^ 63 = 9223372036854775808) by reflexivity.
  assert (Hpsz : psize < 2^48).
  { destruct (used_span_facts _ _ _ Hs Hsp) as (_ & _ & _ & Hc32 & Hi512 & _).
    unfold MI_SEGMENT_SLICE_SIZE, MI_SLICES_PER_SEGMENT in *. assert (2^48 = 281474976710656) by reflexivity. nia. }
  assert (Hbs64 : bs < W64).
  { rewrite W64_val. assert (2^48 = 281474976710656) by reflexivity. unfold lo, block_addr in *. fold start bs in G1, G2. nia. }
  assert (Elo : lo = start + b * bs) by reflexivity.
  pose proof (ptr_roundtrip (cs_base cs) (cs_st cs) (cp_idx cp) c b (p - lo) Hinv A1 A2 A3 Hsp ltac:(lia)) as RT.
  cbv zeta in RT. unfold page_area in start, psize. fold start psize in RT. rewrite <- Hbz in RT. fold bs in RT.
  replace (start + b * bs + (p - lo)) with p in RT by lia.
  assert (H1 : p - lo < bs) by lia.
  assert (H2 : p < start + psize) by lia.
  assert (H4 : kind (fst (cs_st cs)) = SegHuge -> slice_index_of (cs_base cs) p <= slice_entries (fst (cs_st cs))).
  { intros Hk. rewrite orb_true_iff, negb_true_iff in Hhuge. destruct Hhuge as [Hh|Hh]; [|apply N.leb_le; exact Hh].
    apply kind_is_huge_false in Hh. congruence. }
  assert (H5 : slice_index_of (cs_base cs) p - cp_idx cp <= MI_MAX_SLICE_OFFSET_COUNT \/
               slice_index_of (cs_base cs) p = N.min (cp_idx cp + c - 1) (slice_entries (fst (cs_st cs)))).
  { rewrite orb_true_iff, N.leb_le, N.eqb_eq in Hwhere. exact Hwhere. }
  destruct (RT H1 Hbs64 H2 Hseg H4 H5) as (R1 & R2 & R3). clear RT.
  unfold resolve. rewrite R1.
  assert (E0 : (cs_base cs =? 0) = false) by (apply N.eqb_neq; lia). rewrite E0.
  rewrite (proj2 (find_seg_In m (cs_base cs) cs Hm) (conj Hcs eq_refl)). rewrite R2.
  rewrite (proj2 (find_page_In cs (cp_idx cp) cp Hs) (conj Hcp eq_refl)).
  change (fst (page_area cs (cp_idx cp))) with start. fold bs.
  assert (Eblk : (if has_aligned (cp_page cp) then ptr_unalign start bs p else p) = lo).
  { destruct (has_aligned (cp_page cp)); [rewrite R3; reflexivity|]. destruct Hal as [Hal|Hal]; [discriminate|assumption]. }
  rewrite Eblk.
  assert (Eb : (lo - start) / bs = b).
  { rewrite Elo. replace (start + b * bs - start) with (b * bs) by lia. apply N.div_mul. lia. }
  rewrite Eb.
  assert (E1 : (start <=? lo) = true) by (apply N.leb_le; lia).
  assert (E2 : (start + b * bs =? lo) = true) by (apply N.eqb_eq; lia).
  rewrite E1, E2. reflexivity.
Qed.

(* in a normal segment every address of a live block can be resolved *)
Lemma resolvable_normal m cs cp b r p : mem_inv m -> live_at m cs cp b r ->
  kind (fst (cs_st cs)) = SegNormal ->
  block_addr cs cp b <= p -> p < block_addr cs cp b + bsize (cp_page cp) ->
  forall c, In (cp_idx cp, c) (used_spans (fst (cs_st cs))) -> resolvable_b cs (cp_idx cp) c p = true.
Proof.
  intros Hm L Hk Hlo Hhi c Hsp.
  destruct (live_inside _ _ _ _ _ Hm L) as (c' & Hsp' & Hi0 & Hbs0 & _ & Hcap & G1 & G2 & G3 & G4 & G5 & G6 & G7).
  destruct L as (Hcs & Hcp & Hg).
  pose proof (seg_ok_In _ _ Hm Hcs) as Hs. pose proof Hs as (A1 & A2 & A3 & A4 & Hinv & _ & _ & _ & Hc256 & _).
  destruct (used_spans_disjoint _ Hinv) as (Hdis & _).
  assert (c' = c).
  { destruct (Hdis _ _ _ _ Hsp' Hsp) as [(_ & E)|Hd]; [assumption|].
    pose proof (used_span_pos _ _ _ Hinv Hsp). pose proof (used_span_pos _ _ _ Hinv Hsp'). lia. }
  subst c'. specialize (Hc256 Hk _ _ Hsp).
  rewrite (seg_size_normal cs Hk) in *.
  unfold resolvable_b. rewrite (proj2 (kind_is_huge_false _) Hk). cbn [negb orb andb].
  assert (Hs1 : slice_index_of (cs_base cs) p = (p - cs_base cs) / MI_SEGMENT_SLICE_SIZE).
  { unfold slice_index_of. rewrite wsub_small by (unfold MI_SEGMENT_SLICE_SIZE in *; lia).
    rewrite N.shiftr_div_pow2. reflexivity. }
  rewrite Hs1.
  assert (Hlt : (p - cs_base cs) / MI_SEGMENT_SLICE_SIZE < cp_idx cp + c).
  { apply N.div_lt_upper_bound; unfold MI_SEGMENT_SLICE_SIZE in *; lia. }
  rewrite andb_true_r. apply andb_true_intro. split.
  - apply N.leb_le. unfold MI_SEGMENT_SIZE, MI_SEGMENT_SLICE_SIZE in *. lia.
  - apply orb_true_iff. left. apply N.leb_le. unfold MI_MAX_SLICE_OFFSET_COUNT in *. lia.
Qed.

(* the start address of every live block can be resolved (a huge page holds one block, at its start) *)
Lemma resolvable_start m cs cp b r : mem_inv m -> live_at m cs cp b r ->
  forall c, In (cp_idx cp, c) (used_spans (fst (cs_st cs))) ->
  resolvable_b cs (cp_idx cp) c (block_addr cs cp b) = true.
Proof.
  intros Hm L c Hsp.
  destruct (live_inside _ _ _ _ _ Hm L) as (c' & Hsp' & Hi0 & Hbs0 & _ & Hcap & G1 & G2 & G3 & G4 & G5 & G6 & G7).
  destruct (kind (fst (cs_st cs))) eqn:Hk.
  - apply (resolvable_normal m cs cp b r _ Hm L Hk); [lia|lia|assumption].
  - destruct L as (Hcs & Hcp & Hg).
    pose proof (seg_ok_In _ _ Hm Hcs) as Hs. pose proof Hs as (A1 & A2 & A3 & A4 & Hinv & _ & _ & _ & _ & Hh1).
    destruct (page_ok_In _ _ Hs Hcp) as (Hpi & _). destruct Hpi as (_ & Hcr & _).
    specialize (Hh1 Hk cp Hcp).
    assert (b = 0) by lia. subst b.
    assert (Ep : block_addr cs cp 0 = fst (page_area cs (cp_idx cp))) by (unfold block_addr; lia).
    rewrite Ep in *. set (start := fst (page_area cs (cp_idx cp))) in *.
    destruct (used_spans_disjoint _ Hinv) as (_ & R). destruct (R _ _ Hsp) as (_ & Hin & _ & _).
    destruct Hinv as (sps & mm & Hinv). pose proof Hinv as (_ & _ & _ & _ & _ & _ & _ & _ & _ & Hn & _). cbn [fst snd] in Hn.
    unfold resolvable_b.
    assert (Hs1 : slice_index_of (cs_base cs) start = (start - cs_base cs) / MI_SEGMENT_SLICE_SIZE).
    { unfold slice_index_of. rewrite wsub_small by (unfold MI_SEGMENT_SLICE_SIZE in *; lia).
      rewrite N.shiftr_div_pow2. reflexivity. }
    rewrite Hs1.
    assert (Hlt : (start - cs_base cs) / MI_SEGMENT_SLICE_SIZE < cp_idx cp + 2).
    { apply N.div_lt_upper_bound; unfold MI_SEGMENT_SLICE_SIZE in *; lia. }
    apply andb_true_intro. split; [apply andb_true_intro; split|].
    + apply N.leb_le. unfold MI_SEGMENT_SIZE, MI_SEGMENT_SLICE_SIZE, MI_SLICES_PER_SEGMENT in *. lia.
    + apply orb_true_iff. right. apply N.leb_le. lia.
    + apply orb_true_iff. left. apply N.leb_le. unfold MI_MAX_SLICE_OFFSET_COUNT. lia.
Qed.

(* C01_compose_free_resolves: mi_free of any (resolvable) address of a live block removes exactly it *)
Theorem free_resolves m cs cp b r p remote : mem_inv m -> live_at m cs cp b r ->
  let lo := block_addr cs cp b in
  lo <= p -> p < lo + bsize (cp_page cp) -> (has_aligned (cp_page cp) = true \/ p = lo) ->
  (forall c, In (cp_idx cp, c) (used_spans (fst (cs_st cs))) -> resolvable_b cs (cp_idx cp) c p = true) ->
  resolve m p = Some (cs_base cs, cp_idx cp, b) /\
  exists m', free_block m p remote = Some m' /\ mem_inv m' /\
    (forall x, In x (live_blocks m') <-> In x (live_blocks m) /\ fst (fst x) <> lo).
Proof.
  intros Hm L lo Hlo Hhi Hal Hres.
  pose proof (resolve_live m cs cp b r p Hm L Hlo Hhi Hal Hres) as Er.
  split; [exact Er|].
  destruct (free_block m p remote) as [m'|] eqn:Ef.
  - exists m'. split; [reflexivity|].
    destruct (free_block_spec m p remote m' Hm Ef) as (cs2 & cp2 & b2 & r2 & L2 & Er2 & Hm' & Hx).
    rewrite Er in Er2. inversion Er2 as [[E1 E2 E3]]. subst b2.
    destruct L as (Hcs & Hcp & Hg). destruct L2 as (Hcs2 & Hcp2 & Hg2).
    pose proof Hm as (Hnd & _). pose proof (key_inj cs_base m cs cs2 Hnd Hcs Hcs2 E1) as <-.
    pose proof (seg_ok_In _ _ Hm Hcs) as (_ & _ & _ & _ & _ & Hndp & _).
    pose proof (key_inj cp_idx _ cp cp2 Hndp Hcp Hcp2 E2) as <-.
    split; assumption.
  - exfalso. unfold free_block in Ef. rewrite Er in Ef.
    destruct L as (Hcs & Hcp & Hg). pose proof (seg_ok_In _ _ Hm Hcs) as Hs.
    rewrite (proj2 (find_seg_In m (cs_base cs) cs Hm) (conj Hcs eq_refl)) in Ef.
    rewrite (proj2 (find_page_In cs (cp_idx cp) cp Hs) (conj Hcp eq_refl)) in Ef.
    assert (Eg : ghost_has (cp_ghost cp) b = true) by (apply ghost_has_spec; apply (in_map fst) in Hg; exact Hg).
    rewrite Eg in Ef. discriminate.
Qed.

(* ------------------------------------------------------------------------------------- *)
(* soundness of the resolution: an address that resolves to a live block lies inside it    *)
(* ------------------------------------------------------------------------------------- *)

(* the adjustment of _mi_page_ptr_unalign is the remainder modulo the block size (both variants) *)
Lemma unalign_adjust bs diff : 0 < bs -> bs < W64 ->
  (if negb (block_size_shift bs =? 0)
   then N.land diff (wsub (wrap (N.shiftl 1 (block_size_shift bs))) 1)
   else diff mod bs) = diff mod bs.
Proof.
  intros H0 Hb. destruct (block_size_shift bs =? 0) eqn:E; cbn [negb]; [reflexivity|].
  apply N.eqb_neq in E.
  destruct (block_size_shift_cases bs H0 Hb) as [(k & Hk & Ebs & Es)|Es]; [|contradiction].
  rewrite Es. rewrite N.shiftl_1_l. rewrite wrap_small by (apply pow2_lt_W64; assumption).
  pose proof (pow2_pos k). rewrite wsub_small by lia. rewrite land_mask. rewrite <- Ebs. reflexivity.
Qed.

Lemma unalign_range start bs p : 0 < bs -> bs < W64 -> p < W64 -> start < W64 ->
  let blk := ptr_unalign start bs p in
  (start <= p -> start <= blk /\ blk <= p /\ p < blk + bs) /\
  (p < start -> blk <= p \/ W64 - bs < blk).
Proof.
  intros H0 Hb Hp Hs. cbv zeta. split.
  - intros Hle. set (i := (p - start) / bs). set (off := (p - start) mod bs).
    assert (Hoff : off < bs) by (apply N.mod_lt; lia).
    assert (Ep : p = start + i * bs + off).
    { pose proof (N.div_mod (p - start) bs ltac:(lia)) as D. fold i off in D. lia. }
    pose proof (unalign_correct start bs i off H0 Hb Hoff) as U. rewrite <- Ep in U. rewrite (U Hp). lia.
  - intros Hlt. unfold ptr_unalign. cbv zeta. rewrite (unalign_adjust bs _ H0 Hb).
    set (adj := wsub p start mod bs). assert (Hadj : adj < bs) by (apply N.mod_lt; lia).
    destruct (N.le_gt_cases adj p) as [E|E].
    + left. rewrite wsub_small by assumption. lia.
    + right. assert (Ew : wsub p adj = p + W64 - adj).
      { unfold wsub. assert (El : (adj <=? p) = false) by (apply N.leb_gt; assumption). rewrite El. apply wrap_small. lia. }
      rewrite Ew. lia.
Qed.

Theorem resolve_sound m p cs cp b r : mem_inv m -> p < W64 -> live_at m cs cp b r ->
  resolve m p = Some (cs_base cs, cp_idx cp, b) ->
  block_addr cs cp b <= p /\ p < block_addr cs cp b + bsize (cp_page cp).
Proof.
  intros Hm Hp L Hr.
  destruct (live_inside _ _ _ _ _ Hm L) as (c & Hsp & Hi0 & Hbs0 & _ & Hcap & G1 & G2 & G3 & G4 & G5 & G6 & G7).
  destruct L as (Hcs & Hcp & Hg). pose proof (seg_ok_In _ _ Hm Hcs) as Hs. pose proof Hs as (A1 & A2 & A3 & A4 & Hinv & _).
  assert (E63 : 2 ^ 63 = 9223372036854775808) by reflexivity.
  unfold resolve in Hr. destruct (ptr_segment p =? 0); [discriminate|].
  destruct (find_seg m (ptr_segment p)) as [cs2|] eqn:Ef; [|discriminate].
  destruct (find_page cs2 (segment_page_of (ptr_segment p) (fst (cs_st cs2)) p)) as [cp2|] eqn:Ep; [|discriminate].
  set (start2 := fst (page_area cs2 (segment_page_of (ptr_segment p) (fst (cs_st cs2)) p))) in *.
  set (blk := if has_aligned (cp_page cp2) then ptr_unalign start2 (bsize (cp_page cp2)) p else p) in *.
  destruct ((start2 <=? blk) && (start2 + (blk - start2) / bsize (cp_page cp2) * bsize (cp_page cp2) =? blk)) eqn:Ec; [|discriminate].
  inversion Hr as [[Eb Ei Ebi]]. clear Hr.
  apply (find_seg_In _ _ _ Hm) in Ef as (Hcs2 & Eb2).
  pose proof Hm as (Hnd & _). assert (cs2 = cs) by (apply (key_inj cs_base m cs2 cs Hnd Hcs2 Hcs); congruence). subst cs2.
  apply (find_page_In _ _ _ Hs) in Ep as (Hcp2 & Ei2).
  pose proof Hs as (_ & _ & _ & _ & _ & Hndp & _).
  assert (cp2 = cp) by (apply (key_inj cp_idx _ cp2 cp Hndp Hcp2 Hcp); congruence). subst cp2.
  assert (Es2 : start2 = fst (page_area cs (cp_idx cp))) by (unfold start2; rewrite Ei; reflexivity).
  set (start := fst (page_area cs (cp_idx cp))) in *. clearbody start2. subst start2.
  apply andb_prop in Ec as (Ec1 & Ec2). apply N.leb_le in Ec1. apply N.eqb_eq in Ec2. rewrite Ebi in Ec2.
  assert (Elo : block_addr cs cp b = blk) by (unfold block_addr; fold start; exact Ec2).
  rewrite Ebi. rewrite Elo in *.
  assert (E48 : 2^48 = 281474976710656) by reflexivity.
  assert (Hpsz : snd (page_area cs (cp_idx cp)) < 2^48).
  { destruct (used_span_facts _ _ _ Hs Hsp) as (_ & _ & _ & Hc32 & Hi512 & _).
    unfold MI_SEGMENT_SLICE_SIZE, MI_SLICES_PER_SEGMENT in *. nia. }
  unfold blk in *. destruct (has_aligned (cp_page cp)); [|lia].
  assert (Hb64 : bsize (cp_page cp) < W64) by (rewrite W64_val; unfold MI_SEGMENT_SLICE_SIZE in *; lia).
  assert (Hs64 : start < W64) by (rewrite W64_val; unfold MI_SEGMENT_SLICE_SIZE in *; lia).
  pose proof (unalign_range start (bsize (cp_page cp)) p Hbs0 Hb64 Hp Hs64) as U. cbv zeta in U. destruct U as (U1 & U2).
  destruct (N.le_gt_cases start p) as [Hle|Hgt].
  - destruct (U1 Hle) as (_ & U & V). split; assumption.
  - exfalso. destruct (U2 Hgt) as [U|U]; [lia|]. rewrite W64_val in U. unfold MI_SEGMENT_SLICE_SIZE in *. lia.
Qed.
