(* Commit bookkeeping (C07): commit_Inv is preserved by every operation of Model/Commit.v, for every failure oracle
   and every choice argument; live pages are accessible. *)
From Coq Require Import NArith Lia Bool List.
From MiV Require Import Gen.Consts Model.Commit Proofs.CommitBase Proofs.CommitInv.
Import ListNotations.
Local Open Scope N_scope.
Local Open Scope bool_scope.

Lemma mk_eta st : mk (st_arena st) (st_segs st) (st_live st) (st_raw st) (st_acc st) = st.
Proof. destruct st; reflexivity. Qed.

Lemma page_eqb_eq p q : page_eqb p q = true <-> p = q.
Proof.
  unfold page_eqb. rewrite !andb_true_iff, !N.eqb_eq. destruct p, q; cbn. split; [intros [[-> ->] ->]; reflexivity|].
  intros E; inversion E; auto.
Qed.
Lemma existsb_page_eqb p l : existsb (page_eqb p) l = true <-> In p l.
Proof.
  rewrite existsb_exists. split; [intros [q [Hq E]]; apply page_eqb_eq in E; subst; exact Hq|].
  intros H. exists p. split; [exact H|apply page_eqb_eq; reflexivity].
Qed.
Lemma in_remove_page p q l : In q (remove_page p l) <-> In q l /\ q <> p.
Proof.
  unfold remove_page. rewrite filter_In, negb_true_iff. split; intros [H1 H2]; split; auto.
  - intros ->. rewrite (proj2 (page_eqb_eq p p) eq_refl) in H2. discriminate.
  - apply not_true_is_false. intros E. apply page_eqb_eq in E. congruence.
Qed.

Lemma slice_used_live s live p i :
  In p live -> pg_seg p = sg_base s -> pg_lo p <= i < pg_lo p + pg_n p -> slice_used s live i = true.
Proof.
  intros Hp Hb Hi. unfold slice_used. apply orb_true_iff. right. apply existsb_exists. exists p. split; [exact Hp|].
  rewrite Hb, N.eqb_refl. cbn. apply in_range_spec. exact Hi.
Qed.

(* (L) every slice of every live page is accessible *)
Lemma live_accessible st p :
  commit_Inv st -> In p (st_live st) -> forall i, pg_lo p <= i < pg_lo p + pg_n p -> st_acc st (pg_seg p + i) = true.
Proof.
  intros HI Hp i Hi. pose proof (I_D1 st HI) as HD. rewrite Forall_forall in HD.
  destruct (HD p Hp) as [s [Hf [H1 [H2 [H3 _]]]]]. apply find_seg_some in Hf. destruct Hf as [Hs Hb].
  pose proof (I_S st HI) as HS. rewrite Forall_forall in HS. destruct (HS s Hs) as [S1 S2]. rewrite <- Hb.
  destruct (is_huge s) eqn:Eh.
  - apply S1; [reflexivity|lia].
  - apply S2; [reflexivity|lia|].
    pose proof (I_LP st HI) as HL. rewrite Forall_forall in HL.
    destruct (seg_wf_in st HI s Hs) as [_ [_ [Hn _]]]. specialize (Hn Eh).
    destruct (HL s Hs Eh i ltac:(lia)) as [L1 _]. apply L1. eapply slice_used_live; eauto.
Qed.
Lemma page_accessible_live st p : commit_Inv st -> In p (st_live st) -> page_accessible (st_acc st) p = true.
Proof.
  intros HI Hp. unfold page_accessible. apply all_in_spec. intros x Hx.
  replace x with (pg_seg p + (x - pg_seg p)) by lia. apply live_accessible; auto. lia.
Qed.

Lemma span_free_unused s live clo cn i :
  span_is_free live (sg_base s) clo cn = true -> sg_info s <= clo -> clo <= i < clo + cn -> slice_used s live i = false.
Proof.
  intros Hf Hinfo Hi. unfold slice_used. apply orb_false_iff. split; [apply N.ltb_ge; lia|].
  apply not_true_is_false. intros E. apply existsb_exists in E. destruct E as [q [Hq E]]. b2p. apply in_range_spec in H0.
  unfold span_is_free in Hf. rewrite forallb_forall in Hf. specialize (Hf q Hq). rewrite H in Hf. rewrite N.eqb_refl in Hf. cbn in Hf.
  apply range_disjoint_spec in Hf. lia.
Qed.

(* ---------------------------------------------------------------- mi_segments_page_find_and_allocate *)
Lemma pfa_inv c st base lo n clo cn o st' r o' :
  commit_Inv st -> page_find_and_allocate c st base lo n clo cn o = Some (st', r, o') ->
  commit_Inv st' /\
  match r with
  | Some p => p = {| pg_seg := base; pg_lo := lo; pg_n := n |} /\ st_live st' = p :: st_live st
  | None => st_live st' = st_live st
  end.
Proof.
  intros HI. unfold page_find_and_allocate. destruct (find_seg base (st_segs st)) as [s|] eqn:Ef; [|discriminate].
  apply find_seg_some in Ef. destruct Ef as [Hs Hb].
  match goal with |- context [if ?c then None else _] => destruct c eqn:Ec end; [discriminate|].
  repeat (apply orb_false_iff in Ec; destruct Ec as [Ec ?]). b2p.
  destruct (span_allocate s (st_acc st) lo n o) as [[r1 acc1] o1] eqn:Ea.
  pose proof (span_allocate_spec _ _ _ _ _ _ _ _ Ea) as Hsp. destruct r1 as [s1|].
  - destruct Hsp as [HC _]. intros H'. inversion H'; subst; clear H'.
    split; [|split; reflexivity].
    apply (inv_commit_like st HI s s1 Hs (cl_shape _ _ _ _ _ _ _ HC)); auto; lia.
  - destruct Hsp as [-> _].
    destruct (span_free c s (st_acc st) clo cn true o1) as [[s2 acc2] o2] eqn:Esf. intros H'. inversion H'; subst; clear H'.
    apply span_free_spec in Esf. split; [|reflexivity].
    apply (inv_purge_like st HI s s2 Hs (pl_shape _ _ _ _ _ Esf) (fun i => clo <= i < clo + cn)); [exact Esf|].
    intros _ i Hi _. eapply span_free_unused; eauto.
Qed.

(* ---------------------------------------------------------------- new segments *)
Lemma blocks_cover nslices : nslices <= (nslices + BLOCK_SLICES - 1) / BLOCK_SLICES * BLOCK_SLICES.
Proof.
  rewrite BLOCK_SLICES_val. pose proof (N.div_mod (nslices + 512 - 1) 512 ltac:(lia)) as Hd.
  pose proof (N.mod_lt (nslices + 512 - 1) 512 ltac:(lia)) as Hm.
  remember ((nslices + 512 - 1) / 512) as q. remember ((nslices + 512 - 1) mod 512) as r. lia.
Qed.

Lemma os_alloc_commit_ok acc1 base nslices huge mc o m acc2 o2 :
  os_alloc_commit acc1 base nslices huge mc o = (Some (m, acc2), o2) ->
  (mc = true -> forall i, i < nslices -> acc1 (base + i) = true) ->
  INFO_SLICES < nslices -> (huge = false -> nslices = MASK_BITS) ->
  (forall x, acc1 x = true -> acc2 x = true) /\
  forall mem, seg_S acc2 (new_segment base nslices huge m mem) /\
              (is_huge (new_segment base nslices huge m mem) = false -> forall i, i < MASK_BITS ->
                 (i < sg_info (new_segment base nslices huge m mem) -> sg_commit (new_segment base nslices huge m mem) i = true) /\
                 sg_purge (new_segment base nslices huge m mem) i = false).
Proof.
  unfold os_alloc_commit. intros H Hmc Hinfo Hn. destruct mc.
  - inversion H; subst; clear H. split; [auto|]. intros mem. unfold new_segment, seg_S, is_huge; cbn. split.
    + split; intros _ i Hi; [|intros _]; apply Hmc; auto.
    + intros _ i Hi. split; [intros _; apply mask_full_spec; exact Hi|reflexivity].
  - destruct (ask_cases o) as [g [o1 Ha]]. rewrite Ha in H. destruct g; [|discriminate]. inversion H; subst; clear H.
    split.
    + intros x Hx. destruct (set_range_cases acc1 base (if huge then nslices else INFO_SLICES) true x) as [[_ E]|[_ E]]; rewrite E; auto.
    + intros mem. unfold new_segment, seg_S, is_huge; cbn. destruct huge; cbn; split.
      * split; [|discriminate]. intros _ i Hi. apply set_range_in. lia.
      * discriminate.
      * split; [discriminate|]. intros _ i Hi Hc. apply mask_range_spec in Hc. apply set_range_in. lia.
      * intros _ i Hi. split; [intros Hi'; apply mask_range_spec; lia|reflexivity].
Qed.

Lemma new_segment_wf_arena a b0 nslices huge m :
  INFO_SLICES < nslices -> (huge = false -> nslices = MASK_BITS) ->
  b0 + (nslices + BLOCK_SLICES - 1) / BLOCK_SLICES <= a_nblocks a ->
  (forall b, b0 <= b < b0 + (nslices + BLOCK_SLICES - 1) / BLOCK_SLICES -> a_inuse a b = true) ->
  seg_wf a (new_segment (block_slice a b0) nslices huge m (MemArena b0 ((nslices + BLOCK_SLICES - 1) / BLOCK_SLICES))).
Proof.
  intros Hinfo Hn Hr Hu. unfold seg_wf, new_segment, is_huge; cbn. rewrite INFO_SLICES_val in *.
  split; [lia|]. split; [exact Hinfo|]. split; [destruct huge; [discriminate|auto]|].
  split; [reflexivity|]. split; [exact Hr|]. split; [apply blocks_cover|exact Hu].
Qed.

Definition huge_page (s : segment) : page := {| pg_seg := sg_base s; pg_lo := sg_info s; pg_n := sg_nslices s - sg_info s |}.

Lemma segment_alloc_arena_inv c st b0 nslices huge commit o st' r o' :
  commit_Inv st -> INFO_SLICES < nslices -> (huge = false -> nslices = MASK_BITS) ->
  segment_alloc_arena c st b0 nslices huge commit o = Some (st', r, o') ->
  commit_Inv st' /\ st_live st' = st_live st /\
  match r with
  | Some s => sg_nslices s = nslices /\ sg_info s = INFO_SLICES /\ is_huge s = huge /\
              (huge = true -> commit_Inv (mk (st_arena st') (st_segs st') (huge_page s :: st_live st') (st_raw st') (st_acc st')))
  | None => True
  end.
Proof.
  intros HI Hinfo Hn. unfold segment_alloc_arena.
  set (nb := (nslices + BLOCK_SLICES - 1) / BLOCK_SLICES).
  destruct (arena_try_alloc_at (st_arena st) (st_acc st) b0 nb commit o) as [[[[[mc z] a1] acc1] o1]|] eqn:Ea; [|discriminate].
  destruct (inv_claim st HI _ _ _ _ _ _ _ _ _ Ea) as [HI1 [Hun [Hsh [Hnb [Hr [Hiu [Hmono Hrange]]]]]]].
  destruct (os_alloc_commit acc1 (block_slice (st_arena st) b0) nslices huge mc o1) as [[[m acc2]|] o2] eqn:Eo.
  - intros H. inversion H; subst; clear H.
    assert (Hcov : nslices <= nb * BLOCK_SLICES) by apply blocks_cover.
    destruct (os_alloc_commit_ok _ _ _ _ _ _ _ _ _ Eo) as [Hm2 Hnew]; auto.
    { intros Hmc i Hi. apply Hrange; [exact Hmc|lia]. }
    set (snew := new_segment (block_slice (st_arena st) b0) nslices huge m (MemArena b0 nb)) in *.
    destruct (Hnew (MemArena b0 nb)) as [HS HLP]. fold snew in HS, HLP.
    set (st1 := mk a1 (st_segs st) (st_live st) (st_raw st) acc2).
    assert (HI2 : commit_Inv st1) by (apply (inv_acc_mono (mk a1 (st_segs st) (st_live st) (st_raw st) acc1) acc2 HI1 Hm2)).
    assert (Hbs : block_slice a1 b0 = block_slice (st_arena st) b0) by (unfold block_slice; destruct Hsh as [-> _]; reflexivity).
    assert (Hw : seg_wf (st_arena st1) snew).
    { subst snew st1. cbn [st_arena mk]. rewrite <- Hbs. apply new_segment_wf_arena; auto. destruct Hsh as [_ [-> _]]. exact Hr. }
    assert (Hd : forall ow, In ow (owners st1) -> owner_disjoint (seg_owner snew) ow = true).
    { intros ow How. subst st1. rewrite (owners_arena (st_arena st) a1 _ (st_live st) (st_live st) _ (st_acc st) acc2) in How by (destruct Hsh; assumption).
      rewrite mk_eta in How. apply (Hun ow How). }
    assert (Hh : is_huge snew = huge) by (subst snew; unfold new_segment, is_huge; cbn; destruct huge; reflexivity).
    split; [|split; [reflexivity|]].
    + apply (inv_add_segment st1 snew (st_live st) HI2 Hw Hd HS); [left; reflexivity|exact HLP].
    + split; [reflexivity|]. split; [reflexivity|]. split; [exact Hh|]. intros Hhuge. cbn [st_arena st_segs st_live st_raw st_acc mk].
      apply (inv_add_segment st1 snew (huge_page snew :: st_live st) HI2 Hw Hd HS); [|exact HLP].
      right. exists (sg_nslices snew - sg_info snew). split; [reflexivity|]. subst snew. cbn. rewrite Hh. split; [lia|]. split; [lia|exact Hhuge].
  - destruct (arena_free c a1 acc1 b0 nb false o2) as [[a3 acc3] o3] eqn:Ef. intros H. inversion H; subst; clear H.
    split; [|split; [reflexivity|exact I]].
    eapply (inv_arena_free_unowned (mk a1 (st_segs st) (st_live st) (st_raw st) acc1) HI1); [|exact Ef].
    intros ow How. rewrite (owners_arena (st_arena st) a1 _ (st_live st) (st_live st) _ (st_acc st) acc1) in How by (destruct Hsh; assumption).
    rewrite mk_eta in How. cbn [st_arena mk].
    replace (block_slice a1 b0) with (block_slice (st_arena st) b0) by (unfold block_slice; destruct Hsh as [-> _]; reflexivity).
    apply (Hun ow How).
Qed.

(* the kernel changes on a range that is outside the arena and disjoint from everything owned *)
Lemma inv_acc_outside st addr n (v : bool) :
  commit_Inv st ->
  range_disjoint addr n (a_start (st_arena st)) (a_nblocks (st_arena st) * BLOCK_SLICES) = true ->
  (forall s, In s (st_segs st) -> range_disjoint addr n (sg_base s) (sg_nslices s) = true) ->
  commit_Inv (mk (st_arena st) (st_segs st) (st_live st) (st_raw st) (set_range (st_acc st) addr n v)).
Proof.
  intros HI Ha Hs. apply inv_acc_frame; auto.
  - intros x Hx. apply set_range_out. apply range_disjoint_spec in Ha. unfold in_arena in Hx. lia.
  - intros s i Hin Hi. apply set_range_out. specialize (Hs s Hin). apply range_disjoint_spec in Hs. lia.
Qed.

Lemma segment_alloc_os_inv st addr nslices huge commit unmap_ok o st' r o' :
  commit_Inv st -> INFO_SLICES < nslices -> (huge = false -> nslices = MASK_BITS) ->
  segment_alloc_os st addr nslices huge commit unmap_ok o = Some (st', r, o') ->
  commit_Inv st' /\ st_live st' = st_live st /\
  match r with
  | Some s => sg_nslices s = nslices /\ sg_info s = INFO_SLICES /\ is_huge s = huge /\
              (huge = true -> commit_Inv (mk (st_arena st') (st_segs st') (huge_page s :: st_live st') (st_raw st') (st_acc st')))
  | None => True
  end.
Proof.
  intros HI Hinfo Hn. unfold segment_alloc_os.
  match goal with |- context [if ?c then None else _] => destruct c eqn:Ec end; [discriminate|].
  repeat (apply orb_false_iff in Ec; destruct Ec as [Ec ?]). b2p. rename H0 into Harena. rename H into Hown.
  rewrite forallb_forall in Hown.
  assert (Hsegs : forall s, In s (st_segs st) -> range_disjoint addr nslices (sg_base s) (sg_nslices s) = true).
  { intros s Hs. specialize (Hown (seg_owner s)). rewrite owners_eq in Hown.
    specialize (Hown (in_or_app _ _ _ (or_introl (in_map _ _ _ Hs)))). unfold seg_owner in Hown. cbn [fst snd] in Hown.
    apply range_disjoint_spec in Hown. apply range_disjoint_spec. destruct (seg_span_ge _ _ (seg_wf_in st HI s Hs)). lia. }
  set (acc1 := set_range (st_acc st) addr nslices commit).
  assert (HI1 : commit_Inv (mk (st_arena st) (st_segs st) (st_live st) (st_raw st) acc1)) by (apply inv_acc_outside; auto).
  destruct (os_alloc_commit acc1 addr nslices huge commit o) as [[[m acc2]|] o2] eqn:Eo.
  - intros H. inversion H; subst; clear H.
    destruct (os_alloc_commit_ok _ _ _ _ _ _ _ _ _ Eo) as [Hm2 Hnew]; auto.
    { intros -> i Hi. subst acc1. apply set_range_in. lia. }
    set (snew := new_segment addr nslices huge m MemOs) in *.
    destruct (Hnew MemOs) as [HS HLP]. fold snew in HS, HLP.
    set (st1 := mk (st_arena st) (st_segs st) (st_live st) (st_raw st) acc2).
    assert (HI2 : commit_Inv st1) by (apply (inv_acc_mono (mk (st_arena st) (st_segs st) (st_live st) (st_raw st) acc1) acc2 HI1 Hm2)).
    assert (Hw : seg_wf (st_arena st1) snew).
    { subst snew st1. unfold seg_wf, new_segment, is_huge; cbn. rewrite INFO_SLICES_val in *.
      split; [lia|]. split; [exact Hinfo|]. split; [destruct huge; [discriminate|auto]|exact Harena]. }
    assert (Hd : forall ow, In ow (owners st1) -> owner_disjoint (seg_owner snew) ow = true).
    { intros ow How. subst st1. rewrite (owners_arena (st_arena st) (st_arena st) _ (st_live st) (st_live st) _ (st_acc st) acc2) in How by reflexivity.
      rewrite mk_eta in How. apply (Hown ow How). }
    assert (Hh : is_huge snew = huge) by (subst snew; unfold new_segment, is_huge; cbn; destruct huge; reflexivity).
    split; [|split; [reflexivity|]].
    + apply (inv_add_segment st1 snew (st_live st) HI2 Hw Hd HS); [left; reflexivity|exact HLP].
    + split; [reflexivity|]. split; [reflexivity|]. split; [exact Hh|]. intros Hhuge. cbn [st_arena st_segs st_live st_raw st_acc mk].
      apply (inv_add_segment st1 snew (huge_page snew :: st_live st) HI2 Hw Hd HS); [|exact HLP].
      right. exists (sg_nslices snew - sg_info snew). split; [reflexivity|]. subst snew. cbn. rewrite Hh. split; [lia|]. split; [lia|exact Hhuge].
  - intros H. inversion H; subst; clear H. split; [|split; [reflexivity|exact I]].
    destruct unmap_ok; [|exact HI1].
    apply (inv_acc_outside (mk (st_arena st) (st_segs st) (st_live st) (st_raw st) acc1) addr nslices false HI1); auto.
Qed.

(* ---------------------------------------------------------------- releasing a segment *)
Lemma arena_free_split c a acc b0 n allc o :
  arena_free c a acc b0 n allc o =
  arena_free c (if allc then a else with_committed a (set_range (a_committed a) b0 n false)) acc b0 n true o.
Proof. unfold arena_free. destruct allc; reflexivity. Qed.

Lemma inv_release c st s unmap_ok o a' acc' o' :
  commit_Inv st -> In s (st_segs st) -> seg_has_live (sg_base s) (st_live st) = false ->
  segment_release c (st_arena st) (st_acc st) s unmap_ok o = (a', acc', o') ->
  commit_Inv (mk a' (remove_seg (sg_base s) (st_segs st)) (st_live st) (st_raw st) acc').
Proof.
  intros HI Hs Hnl. unfold segment_release. pose proof (seg_wf_in st HI s Hs) as Hw.
  pose proof (I_S st HI) as HS. rewrite Forall_forall in HS. destruct (HS s Hs) as [_ S2].
  assert (Hothers : forall x, In x (remove_seg (sg_base s) (st_segs st)) -> In x (st_segs st) /\ sg_base x <> sg_base s)
    by (intros x Hx; apply in_remove_seg in Hx; exact Hx).
  destruct (sg_mem s) as [b0 nb|] eqn:Em.
  - rewrite arena_free_split.
    set (amid := if mask_is_full (sg_commit s) then st_arena st else with_committed (st_arena st) (set_range (a_committed (st_arena st)) b0 nb false)).
    unfold seg_wf in Hw. rewrite Em in Hw. destruct Hw as [_ [_ [Hns [Hbase [Hr [Hcov Hiu]]]]]].
    assert (Hshape : same_arena_shape (st_arena st) amid) by (subst amid; destruct (mask_is_full (sg_commit s)); unfold same_arena_shape; cbn; auto).
    assert (Hinuse : a_inuse amid = a_inuse (st_arena st)) by (subst amid; destruct (mask_is_full (sg_commit s)); reflexivity).
    assert (Hdec : forall b, a_committed amid b = true -> a_committed (st_arena st) b = true).
    { subst amid. destruct (mask_is_full (sg_commit s)); [auto|]. cbn. intros b Hb.
      destruct (set_range_cases (a_committed (st_arena st)) b0 nb false b) as [[_ E]|[_ E]]; rewrite E in Hb; [discriminate|exact Hb]. }
    assert (HImid : commit_Inv (mk amid (remove_seg (sg_base s) (st_segs st)) (st_live st) (st_raw st) (st_acc st))).
    { apply inv_remove_segment; auto. intros Hh b x Hb Hc Hin Hx. subst amid. destruct (mask_is_full (sg_commit s)) eqn:Efull.
      - rewrite mask_is_full_spec in Efull. replace x with (sg_base s + (x - sg_base s)) by lia.
        apply S2; [exact Hh|lia|]. apply Efull. rewrite <- (Hns Hh). lia.
      - exfalso. cbn in Hc. rewrite set_range_in in Hc; [discriminate|].
        assert (Hx' : block_slice (st_arena st) b0 <= x < block_slice (st_arena st) b0 + nb * BLOCK_SLICES) by (rewrite <- Hbase; lia).
        destruct (slice_in_blocks _ _ _ _ Hx') as [b' [Hb' Hin']]. rewrite (block_of_slice_unique _ _ _ _ Hin Hin'). exact Hb'. }
    intros H. eapply (inv_arena_free_unowned _ HImid); [|exact H].
    intros ow How. rewrite owners_eq in How. cbn [st_arena st_segs st_raw mk] in How |- *.
    replace (block_slice amid b0) with (sg_base s) by (rewrite Hbase; unfold block_slice; destruct Hshape as [-> _]; reflexivity).
    change (sg_base s, nb * BLOCK_SLICES) with (sg_base s, match MemArena b0 nb with MemArena _ nb' => nb' * BLOCK_SLICES | MemOs => sg_nslices s end).
    rewrite <- Em. fold (seg_span s). fold (seg_owner s).
    apply in_app_or in How. destruct How as [How|How]; apply in_map_iff in How; destruct How as [y [<- Hy]].
    + destruct (Hothers y Hy) as [Hy1 Hy2]. unfold owner_disjoint, seg_owner. cbn [fst snd]. apply range_disjoint_spec.
      apply (segs_disjoint st HI s y Hs Hy1). congruence.
    + unfold owner_disjoint, seg_owner, raw_owner. cbn [fst snd]. apply range_disjoint_spec.
      replace (block_slice amid (fst y)) with (block_slice (st_arena st) (fst y)) by (unfold block_slice; destruct Hshape as [-> _]; reflexivity).
      apply (seg_raw_disjoint st HI s y Hs Hy).
  - intros H. inversion H; subst; clear H. unfold seg_wf in Hw. rewrite Em in Hw. destruct Hw as [_ [_ [_ Hout]]].
    assert (HImid : commit_Inv (mk (st_arena st) (remove_seg (sg_base s) (st_segs st)) (st_live st) (st_raw st) (st_acc st))).
    { apply inv_remove_segment; auto; [unfold same_arena_shape; auto|].
      intros _ b x Hb _ Hin Hx. exfalso. apply range_disjoint_spec in Hout. pose proof (in_block_in_arena _ _ _ Hb Hin) as Ha. unfold in_arena in Ha. lia. }
    destruct unmap_ok; [|exact HImid].
    apply (inv_acc_outside _ (sg_base s) (sg_nslices s) false HImid); cbn [st_arena st_segs mk]; [exact Hout|].
    intros y Hy. destruct (Hothers y Hy) as [Hy1 Hy2]. apply range_disjoint_spec.
    pose proof (segs_disjoint st HI s y Hs Hy1 ltac:(congruence)) as Hd.
    destruct (seg_span_ge _ _ (seg_wf_in st HI s Hs)), (seg_span_ge _ _ (seg_wf_in st HI y Hy1)).
    unfold seg_span in Hd at 1. rewrite Em in Hd. lia.
Qed.

(* the tail of the repaired mi_segments_page_alloc: if (segment->used == 0) mi_segment_free(segment) *)
Lemma free_if_unused_inv c st base u o st' o' :
  commit_Inv st -> free_if_unused c st base u o = (st', o') -> commit_Inv st' /\ st_live st' = st_live st.
Proof.
  intros HI. unfold free_if_unused. destruct (seg_has_live base (st_live st)) eqn:El.
  - intros H. inversion H; subst. auto.
  - destruct (find_seg base (st_segs st)) as [s|] eqn:Ef.
    + apply find_seg_some in Ef. destruct Ef as [Hs Hb].
      destruct (segment_release c (st_arena st) (st_acc st) s u o) as [[a1 acc1] o1] eqn:Er.
      intros H. inversion H; subst; clear H. split; [|reflexivity].
      apply (inv_release c st s u o a1 acc1 o' HI Hs El Er).
    + intros H. inversion H; subst. auto.
Qed.

(* ---------------------------------------------------------------- mi_segments_page_alloc, mi_segment_huge_page_alloc, mi_find_page *)
Definition alloc_post (st st' : state) (r : option page) : Prop :=
  commit_Inv st' /\
  match r with
  | Some p => st_live st' = p :: st_live st
  | None => st_live st' = st_live st
  end.

Lemma segments_page_alloc_inv c n commit ws : forall st o st' r o',
  commit_Inv st -> segments_page_alloc c st n commit ws o = Some (st', r, o') -> alloc_post st st' r.
Proof.
  assert (Hsl : INFO_SLICES < MI_SLICES_PER_SEGMENT) by (rewrite INFO_SLICES_val, SLICES_PER_SEGMENT_val; lia).
  assert (Hmb : false = false -> MI_SLICES_PER_SEGMENT = MASK_BITS) by (intros _; rewrite MASK_BITS_val; reflexivity).
  induction ws as [|w rest IH]; intros st o st' r o' HI H; cbn [segments_page_alloc] in H.
  - inversion H; subst. split; [exact HI|reflexivity].
  - destruct w as [base lo clo cn|b0|[addr|] unmap_ok].
    + destruct (page_find_and_allocate c st base lo n clo cn o) as [[[st1 [p|]] o1]|] eqn:Ep; [| |discriminate].
      * inversion H; subst. destruct (pfa_inv _ _ _ _ _ _ _ _ _ _ _ HI Ep) as [HI1 [_ Hl]]. split; assumption.
      * destruct (pfa_inv _ _ _ _ _ _ _ _ _ _ _ HI Ep) as [HI1 Hl]. destruct (IH _ _ _ _ _ HI1 H) as [HI2 Hl2].
        split; [exact HI2|]. rewrite <- Hl. exact Hl2.
    + destruct (segment_alloc_arena c st b0 MI_SLICES_PER_SEGMENT false commit o) as [[[st1 [s1|]] o1]|] eqn:Es; [| |discriminate].
      * destruct (segment_alloc_arena_inv _ _ _ _ _ _ _ _ _ _ HI Hsl Hmb Es) as [HI1 [Hl _]].
        destruct (segments_page_alloc c st1 n commit rest o1) as [[[st2 r2] o2]|] eqn:Er; [|discriminate].
        destruct (free_if_unused c st2 (sg_base s1) true o2) as [st3 o3] eqn:Ef. inversion H; subst; clear H.
        destruct (IH _ _ _ _ _ HI1 Er) as [HI2 Hl2]. destruct (free_if_unused_inv _ _ _ _ _ _ _ HI2 Ef) as [HI3 Hl3].
        split; [exact HI3|]. rewrite Hl3, <- Hl. exact Hl2.
      * inversion H; subst. destruct (segment_alloc_arena_inv _ _ _ _ _ _ _ _ _ _ HI Hsl Hmb Es) as [HI1 [Hl _]]. split; assumption.
    + destruct (segment_alloc_os st addr MI_SLICES_PER_SEGMENT false commit unmap_ok o) as [[[st1 [s1|]] o1]|] eqn:Es; [| |discriminate].
      * destruct (segment_alloc_os_inv _ _ _ _ _ _ _ _ _ _ HI Hsl Hmb Es) as [HI1 [Hl _]].
        destruct (segments_page_alloc c st1 n commit rest o1) as [[[st2 r2] o2]|] eqn:Er; [|discriminate].
        destruct (free_if_unused c st2 (sg_base s1) unmap_ok o2) as [st3 o3] eqn:Ef. inversion H; subst; clear H.
        destruct (IH _ _ _ _ _ HI1 Er) as [HI2 Hl2]. destruct (free_if_unused_inv _ _ _ _ _ _ _ HI2 Ef) as [HI3 Hl3].
        split; [exact HI3|]. rewrite Hl3, <- Hl. exact Hl2.
      * inversion H; subst. destruct (segment_alloc_os_inv _ _ _ _ _ _ _ _ _ _ HI Hsl Hmb Es) as [HI1 [Hl _]]. split; assumption.
    + inversion H; subst. split; [exact HI|reflexivity].
Qed.

Lemma huge_page_alloc_inv c st n w o st' r o' :
  commit_Inv st -> huge_page_alloc c st n w o = Some (st', r, o') -> alloc_post st st' r.
Proof.
  intros HI. unfold huge_page_alloc. destruct (n =? 0) eqn:En; [discriminate|]. b2p.
  assert (Hsl : INFO_SLICES < INFO_SLICES + n) by lia.
  assert (Hmb : true = false -> INFO_SLICES + n = MASK_BITS) by discriminate.
  assert (Hfin : forall x, (x = segment_alloc_arena c st (match w with WNewArena b0 :: _ => b0 | _ => 0 end) (INFO_SLICES + n) true true o \/
                            exists addr u, x = segment_alloc_os st addr (INFO_SLICES + n) true true u o) ->
                 match x with
                 | None => None
                 | Some (st', None, o') => Some (st', None, o')
                 | Some (st', Some s, o') =>
                   Some (mk (st_arena st') (st_segs st') ({| pg_seg := sg_base s; pg_lo := INFO_SLICES; pg_n := n |} :: st_live st') (st_raw st') (st_acc st'),
                         Some {| pg_seg := sg_base s; pg_lo := INFO_SLICES; pg_n := n |}, o')
                 end = Some (st', r, o') -> alloc_post st st' r).
  { intros x Hx H. destruct x as [[[st1 [s1|]] o1]|]; [| |discriminate].
    - inversion H; subst; clear H.
      assert (Hpost : commit_Inv st1 /\ st_live st1 = st_live st /\ sg_nslices s1 = INFO_SLICES + n /\ sg_info s1 = INFO_SLICES /\ is_huge s1 = true /\
                      (true = true -> commit_Inv (mk (st_arena st1) (st_segs st1) (huge_page s1 :: st_live st1) (st_raw st1) (st_acc st1)))).
      { destruct Hx as [Hx|[addr [u Hx]]]; symmetry in Hx.
        - destruct (segment_alloc_arena_inv _ _ _ _ _ _ _ _ _ _ HI Hsl Hmb Hx) as [G1 [G2 [G3 [G4 [G5 G6]]]]]. exact (conj G1 (conj G2 (conj G3 (conj G4 (conj G5 G6))))).
        - destruct (segment_alloc_os_inv _ _ _ _ _ _ _ _ _ _ HI Hsl Hmb Hx) as [G1 [G2 [G3 [G4 [G5 G6]]]]]. exact (conj G1 (conj G2 (conj G3 (conj G4 (conj G5 G6))))). }
      destruct Hpost as [G1 [G2 [G3 [G4 [G5 G6]]]]]. specialize (G6 eq_refl). unfold huge_page in G6. rewrite G3, G4 in G6.
      replace (INFO_SLICES + n - INFO_SLICES) with n in G6 by lia.
      split; [exact G6|]. cbn [st_live mk]. rewrite G2. reflexivity.
    - inversion H; subst; clear H.
      destruct Hx as [Hx|[addr [u Hx]]]; symmetry in Hx.
      + destruct (segment_alloc_arena_inv _ _ _ _ _ _ _ _ _ _ HI Hsl Hmb Hx) as [G1 [G2 _]]. split; assumption.
      + destruct (segment_alloc_os_inv _ _ _ _ _ _ _ _ _ _ HI Hsl Hmb Hx) as [G1 [G2 _]]. split; assumption. }
  destruct w as [|[base lo clo cn|b0|[addr|] unmap_ok] rest].
  - intros H. inversion H; subst. split; [exact HI|reflexivity].
  - discriminate.
  - apply Hfin. left. reflexivity.
  - apply Hfin. right. exists addr, unmap_ok. reflexivity.
  - intros H. inversion H; subst. split; [exact HI|reflexivity].
Qed.

Lemma page_alloc_inv c st n huge commit ws o st' r o' :
  commit_Inv st -> page_alloc c st n huge commit ws o = Some (st', r, o') -> alloc_post st st' r.
Proof.
  intros HI. unfold page_alloc. destruct huge; [apply huge_page_alloc_inv|apply segments_page_alloc_inv]; exact HI.
Qed.

Lemma find_page_inv c n huge commit tries : forall st o st' r o',
  commit_Inv st -> find_page c st n huge commit tries o = Some (st', r, o') -> alloc_post st st' r.
Proof.
  induction tries as [|ws rest IH]; intros st o st' r o' HI H; cbn [find_page] in H.
  - inversion H; subst. split; [exact HI|reflexivity].
  - destruct (page_alloc c st n huge commit ws o) as [[[st1 [p|]] o1]|] eqn:Ep; [| |discriminate].
    + inversion H; subst. exact (page_alloc_inv _ _ _ _ _ _ _ _ _ _ HI Ep).
    + destruct (page_alloc_inv _ _ _ _ _ _ _ _ _ _ HI Ep) as [HI1 Hl]. destruct (IH _ _ _ _ _ HI1 H) as [HI2 Hl2].
      split; [exact HI2|]. rewrite <- Hl. exact Hl2.
Qed.

(* ---------------------------------------------------------------- purge and collect *)
Lemma seg_try_purge_inv c st s o s' acc' o' :
  commit_Inv st -> In s (st_segs st) -> segment_try_purge c s (st_acc st) o = (s', acc', o') ->
  commit_Inv (mk (st_arena st) (replace_seg s' (st_segs st)) (st_live st) (st_raw st) acc').
Proof.
  intros HI Hs H. apply segment_try_purge_spec in H.
  apply (inv_purge_like st HI s s' Hs (pl_shape _ _ _ _ _ H) (fun j => sg_purge s j = true)); [exact H|].
  intros Hh i Hq Hi. pose proof (I_LP st HI) as HL. rewrite Forall_forall in HL. destruct (HL s Hs Hh i Hi) as [L1 _].
  destruct (slice_used s (st_live st) i); [|reflexivity]. destruct (L1 eq_refl) as [_ E]. congruence.
Qed.

Lemma seg_try_purge_at_inv c st base o st' o' :
  commit_Inv st -> seg_try_purge_at c st base o = Some (st', o') -> commit_Inv st' /\ st_live st' = st_live st.
Proof.
  intros HI. unfold seg_try_purge_at. destruct (find_seg base (st_segs st)) as [s|] eqn:Ef; [|discriminate].
  apply find_seg_some in Ef. destruct Ef as [Hs _].
  destruct (segment_try_purge c s (st_acc st) o) as [[s1 acc1] o1] eqn:Ep. intros H. inversion H; subst; clear H.
  split; [eapply seg_try_purge_inv; eauto|reflexivity].
Qed.

Lemma arenas_purge_st_inv c st o st' o' :
  commit_Inv st -> arenas_purge_st c st o = (st', o') -> commit_Inv st' /\ st_live st' = st_live st.
Proof.
  intros HI. unfold arenas_purge_st. destruct (arenas_try_purge c (st_arena st) (st_acc st) o) as [[a1 acc1] o1] eqn:Ea.
  intros H. inversion H; subst; clear H. split; [eapply inv_arenas_try_purge; eauto|reflexivity].
Qed.

Lemma collect_segs_inv c order : forall st o st' o',
  commit_Inv st -> collect_segs c st order o = (st', o') -> commit_Inv st' /\ st_live st' = st_live st.
Proof.
  induction order as [|b rest IH]; intros st o st' o' HI H; cbn [collect_segs] in H.
  - inversion H; subst. auto.
  - destruct (seg_try_purge_at c st b o) as [[st1 o1]|] eqn:Ep.
    + destruct (seg_try_purge_at_inv _ _ _ _ _ _ HI Ep) as [HI1 Hl]. destruct (IH _ _ _ _ HI1 H) as [HI2 Hl2]. split; [exact HI2|congruence].
    + eapply IH; eauto.
Qed.

Lemma collect_inv c st order o st' o' :
  commit_Inv st -> collect c st order o = (st', o') -> commit_Inv st' /\ st_live st' = st_live st.
Proof.
  intros HI. unfold collect. destruct (collect_segs c st order o) as [st1 o1] eqn:Ec. intros H.
  destruct (collect_segs_inv _ _ _ _ _ _ HI Ec) as [HI1 Hl]. destruct (arenas_purge_st_inv _ _ _ _ _ HI1 H) as [HI2 Hl2].
  split; [exact HI2|congruence].
Qed.

(* ---------------------------------------------------------------- _mi_segment_page_free *)
Lemma seg_has_live_false_iff base live : seg_has_live base live = false <-> forall q, In q live -> pg_seg q <> base.
Proof.
  unfold seg_has_live. split.
  - intros H q Hq E. apply not_true_iff_false in H. apply H. apply existsb_exists. exists q. split; [exact Hq|apply N.eqb_eq; exact E].
  - intros H. apply not_true_is_false. intros E. apply existsb_exists in E. destruct E as [q [Hq E]]. b2p. exact (H q Hq E).
Qed.

Lemma remove_replace_seg s2 b l : sg_base s2 = b -> remove_seg b (replace_seg s2 l) = remove_seg b l.
Proof.
  intros Hb. unfold remove_seg, replace_seg. induction l as [|x l IH]; [reflexivity|]. cbn [map filter].
  destruct (sg_base x =? sg_base s2) eqn:E1.
  - apply N.eqb_eq in E1. replace (sg_base s2 =? b) with true by (symmetry; apply N.eqb_eq; exact Hb).
    replace (sg_base x =? b) with true by (symmetry; apply N.eqb_eq; congruence). cbn [negb]. exact IH.
  - destruct (negb (sg_base x =? b)); [f_equal; exact IH|exact IH].
Qed.

Lemma free_page_inv c st p clo cn expired unmap_ok o st' o' :
  commit_Inv st -> free_page c st p clo cn expired unmap_ok o = Some (st', o') ->
  commit_Inv st' /\ In p (st_live st) /\ st_live st' = remove_page p (st_live st).
Proof.
  intros HI. unfold free_page. destruct (existsb (page_eqb p) (st_live st)) eqn:Ep; cbn [negb]; [|discriminate].
  apply existsb_page_eqb in Ep.
  destruct (find_seg (pg_seg p) (st_segs st)) as [s|] eqn:Ef; [|discriminate].
  apply find_seg_some in Ef. destruct Ef as [Hs Hb].
  set (live' := remove_page p (st_live st)).
  pose proof (inv_remove_page st p HI) as HI1. fold live' in HI1.
  set (st1 := mk (st_arena st) (st_segs st) live' (st_raw st) (st_acc st)) in *.
  destruct (is_huge s) eqn:Eh.
  - destruct (segment_release c (st_arena st) (st_acc st) s unmap_ok o) as [[a1 acc1] o1] eqn:Er.
    intros H. inversion H; subst; clear H. split; [|split; [exact Ep|reflexivity]].
    apply (inv_release c st1 s unmap_ok o a1 acc1 o' HI1 Hs); [|exact Er].
    apply seg_has_live_false_iff. intros q Hq Eq. cbn [st_live st1 mk] in Hq. subst live'. apply in_remove_page in Hq. destruct Hq as [Hq Hne].
    apply Hne. pose proof (I_D1 st HI) as HD. rewrite Forall_forall in HD.
    destruct (HD q Hq) as [sq [Hfq [_ [_ [_ Hhq]]]]]. destruct (HD p Ep) as [sp [Hfp [_ [_ [_ Hhp]]]]].
    apply find_seg_some in Hfq. apply find_seg_some in Hfp. destruct Hfq as [Hq1 Hq2], Hfp as [Hp1 Hp2].
    assert (sq = s) by (apply (seg_unique st HI); auto; congruence). assert (sp = s) by (apply (seg_unique st HI); auto; congruence). subst sq sp.
    destruct (Hhq Eh) as [A1 A2], (Hhp Eh) as [B1 B2]. destruct p, q; cbn in *. f_equal; congruence.
  - match goal with |- context [if ?c then None else _] => destruct c eqn:Ec end; [discriminate|].
    repeat (apply orb_false_iff in Ec; destruct Ec as [Ec ?]). b2p.
    destruct (span_free c s (st_acc st) clo cn true o) as [[s1 acc1] o1] eqn:Esf.
    pose proof (span_free_spec _ _ _ _ _ _ _ _ _ _ Esf) as HP1.
    assert (HI2 : commit_Inv (mk (st_arena st) (replace_seg s1 (st_segs st)) live' (st_raw st) acc1)).
    { apply (inv_purge_like st1 HI1 s s1 Hs (pl_shape _ _ _ _ _ HP1) (fun i => clo <= i < clo + cn)); [exact HP1|].
      intros _ i Hi _. cbn [st_live st1 mk]. eapply span_free_unused; eauto. }
    set (st2 := mk (st_arena st) (replace_seg s1 (st_segs st)) live' (st_raw st) acc1) in *.
    assert (Hs1 : In s1 (st_segs st2)).
    { cbn [st_segs st2 mk]. unfold replace_seg. apply in_map_iff. exists s. split; [|exact Hs].
      destruct (pl_shape _ _ _ _ _ HP1) as [E _]. rewrite E, N.eqb_refl. reflexivity. }
    assert (Hb1 : sg_base s1 = sg_base s) by (destruct (pl_shape _ _ _ _ _ HP1) as [E _]; exact E).
    assert (Hrr : forall s2, sg_base s2 = sg_base s -> replace_seg s2 (replace_seg s1 (st_segs st)) = replace_seg s2 (st_segs st)).
    { intros s2 E2. unfold replace_seg. rewrite map_map. apply map_ext. intros x.
      destruct (sg_base x =? sg_base s1) eqn:E1; b2p.
      - rewrite E2, <- Hb1, N.eqb_refl. replace (sg_base x =? sg_base s1) with true by (symmetry; apply N.eqb_eq; exact E1). reflexivity.
      - reflexivity. }
    assert (HI3 : forall s2 acc2 o2, (if expired then segment_try_purge c s1 acc1 o1 else (s1, acc1, o1)) = (s2, acc2, o2) ->
                  commit_Inv (mk (st_arena st) (replace_seg s2 (st_segs st)) live' (st_raw st) acc2) /\ sg_base s2 = sg_base s).
    { intros s2 acc2 o2 HH. destruct expired.
      - pose proof (segment_try_purge_spec _ _ _ _ _ _ _ HH) as HP2.
        assert (E2 : sg_base s2 = sg_base s) by (destruct (pl_shape _ _ _ _ _ HP2) as [E _]; congruence).
        split; [|exact E2]. rewrite <- (Hrr s2 E2). apply (seg_try_purge_inv c st2 s1 o1 s2 acc2 o2 HI2 Hs1 HH).
      - inversion HH; subst. split; [exact HI2|exact Hb1]. }
    destruct (if expired then segment_try_purge c s1 acc1 o1 else (s1, acc1, o1)) as [[s2 acc2] o2] eqn:E2.
    destruct (HI3 s2 acc2 o2 eq_refl) as [HI4 Hb2].
    destruct (seg_has_live (sg_base s) live') eqn:Elive.
    + intros HH. inversion HH; subst; clear HH. split; [exact HI4|split; [exact Ep|reflexivity]].
    + destruct (segment_release c (st_arena st) acc2 s2 unmap_ok o2) as [[a3 acc3] o3] eqn:Er.
      intros HH. inversion HH; subst; clear HH. split; [|split; [exact Ep|reflexivity]].
      set (st4 := mk (st_arena st) (replace_seg s2 (st_segs st)) live' (st_raw st) acc2) in *.
      assert (Hs2 : In s2 (st_segs st4)).
      { cbn [st_segs st4 mk]. unfold replace_seg. apply in_map_iff. exists s. split; [|exact Hs]. rewrite Hb2, N.eqb_refl. reflexivity. }
      pose proof (inv_release c st4 s2 unmap_ok o2 a3 acc3 o' HI4 Hs2) as Hrel. cbn [st_arena st_segs st_live st_raw st_acc st4 mk] in Hrel.
      rewrite Hb2 in Hrel. specialize (Hrel Elive Er). rewrite (remove_replace_seg s2 (sg_base s) (st_segs st) Hb2) in Hrel. exact Hrel.
Qed.

(* ---------------------------------------------------------------- _mi_malloc_generic and the step function *)
Lemma malloc_generic_inv c st n huge commit tries order tries2 o st' r o' :
  commit_Inv st -> malloc_generic c st n huge commit tries order tries2 o = Some (st', r, o') ->
  commit_Inv st' /\
  ((exists p, r = RPage p /\ st_live st' = p :: st_live st) \/ (r = RNone /\ st_live st' = st_live st)).
Proof.
  intros HI. unfold malloc_generic.
  destruct (find_page c st n huge commit tries o) as [[[st1 [p|]] o1]|] eqn:E1; [| |discriminate].
  - intros H. inversion H; subst; clear H. destruct (find_page_inv _ _ _ _ _ _ _ _ _ _ HI E1) as [HI1 Hl].
    split; [exact HI1|]. left. exists p. auto.
  - destruct (find_page_inv _ _ _ _ _ _ _ _ _ _ HI E1) as [HI1 Hl1].
    destruct (collect c st1 order o1) as [st2 o2] eqn:Ec. destruct (collect_inv _ _ _ _ _ _ HI1 Ec) as [HI2 Hl2].
    destruct (find_page c st2 n huge commit tries2 o2) as [[[st3 [p|]] o3]|] eqn:E3; [| |discriminate].
    + intros H. inversion H; subst; clear H. destruct (find_page_inv _ _ _ _ _ _ _ _ _ _ HI2 E3) as [HI3 Hl3].
      split; [exact HI3|]. left. exists p. split; [reflexivity|]. congruence.
    + intros H. inversion H; subst; clear H. destruct (find_page_inv _ _ _ _ _ _ _ _ _ _ HI2 E3) as [HI3 Hl3].
      split; [exact HI3|]. right. split; [reflexivity|]. congruence.
Qed.

(* how the list of live pages changes in one step *)
Definition live_effect (st : state) (x : op) (r : result) (st' : state) : Prop :=
  match r with
  | RPage p => st_live st' = p :: st_live st
  | RNone | RMem _ _ => st_live st' = st_live st
  | RUnit => match x with
             | OpFree p _ _ _ _ => In p (st_live st) /\ st_live st' = remove_page p (st_live st)
             | _ => st_live st' = st_live st
             end
  end.

Lemma step_inv c st x o st' r o' :
  commit_Inv st -> step c st x o = Some (st', r, o') -> commit_Inv st' /\ live_effect st x r st'.
Proof.
  intros HI. destruct x as [n huge commit tries order tries2| |p clo cn expired unmap_ok|base| |order|b0 n commit|b0 n allc]; cbn [step].
  - intros H. destruct (malloc_generic_inv _ _ _ _ _ _ _ _ _ _ _ _ HI H) as [HI1 [[p [-> Hl]]|[-> Hl]]]; split; auto.
  - intros H. inversion H; subst. split; [exact HI|reflexivity].
  - destruct (free_page c st p clo cn expired unmap_ok o) as [[st1 o1]|] eqn:Ef; [|discriminate]. intros H. inversion H; subst; clear H.
    destruct (free_page_inv _ _ _ _ _ _ _ _ _ _ HI Ef) as [HI1 [Hp Hl]]. split; [exact HI1|]. cbn. auto.
  - destruct (seg_try_purge_at c st base o) as [[st1 o1]|] eqn:Ep; [|discriminate]. intros H. inversion H; subst; clear H.
    destruct (seg_try_purge_at_inv _ _ _ _ _ _ HI Ep) as [HI1 Hl]. split; [exact HI1|exact Hl].
  - destruct (arenas_purge_st c st o) as [st1 o1] eqn:Ep. intros H. inversion H; subst; clear H.
    destruct (arenas_purge_st_inv _ _ _ _ _ HI Ep) as [HI1 Hl]. split; [exact HI1|exact Hl].
  - destruct (collect c st order o) as [st1 o1] eqn:Ec. intros H. inversion H; subst; clear H.
    destruct (collect_inv _ _ _ _ _ _ HI Ec) as [HI1 Hl]. split; [exact HI1|exact Hl].
  - destruct (arena_try_alloc_at (st_arena st) (st_acc st) b0 n commit o) as [[[[[mc z] a1] acc1] o1]|] eqn:Ea; [|discriminate].
    intros H. inversion H; subst; clear H. split; [|reflexivity].
    destruct (inv_claim st HI _ _ _ _ _ _ _ _ _ Ea) as [HI1 [Hun [Hsh [Hn [Hr [Hiu _]]]]]].
    apply (inv_add_raw (mk a1 (st_segs st) (st_live st) (st_raw st) acc1) b0 n HI1 Hn); cbn [st_arena mk]; auto.
    + destruct Hsh as [_ [-> _]]. exact Hr.
    + intros ow How. rewrite (owners_arena (st_arena st) a1 _ (st_live st) (st_live st) _ (st_acc st) acc1) in How by (destruct Hsh; assumption).
      rewrite mk_eta in How. cbn [st_arena mk]. replace (block_slice a1 b0) with (block_slice (st_arena st) b0) by (unfold block_slice; destruct Hsh as [-> _]; reflexivity).
      apply (Hun ow How).
  - destruct (existsb (fun r0 => raw_eqb r0 b0 n) (st_raw st)) eqn:Ee; cbn [negb]; [|discriminate].
    destruct (arena_free c (st_arena st) (st_acc st) b0 n allc o) as [[a1 acc1] o1] eqn:Ef. intros H. inversion H; subst; clear H.
    split; [|reflexivity]. apply existsb_exists in Ee. destruct Ee as [r0 [Hr0 Er0]]. unfold raw_eqb in Er0. b2p.
    assert (Hin : In (b0, n) (st_raw st)) by (destruct r0; cbn in *; subst; exact Hr0).
    destruct (inv_remove_raw st b0 n HI Hin) as [HI1 Hun].
    eapply (inv_arena_free_unowned _ HI1); [exact Hun|exact Ef].
Qed.

Lemma run_inv c ops : forall st o st' rs o',
  commit_Inv st -> run c st ops o = Some (st', rs, o') -> commit_Inv st'.
Proof.
  induction ops as [|x rest IH]; intros st o st' rs o' HI H; cbn [run] in H.
  - inversion H; subst. exact HI.
  - destruct (step c st x o) as [[[st1 r1] o1]|] eqn:Es; [|discriminate].
    destruct (run c st1 rest o1) as [[[st2 rs2] o2]|] eqn:Er; [|discriminate]. inversion H; subst; clear H.
    destruct (step_inv _ _ _ _ _ _ _ HI Es) as [HI1 _]. eapply IH; eauto.
Qed.

Lemma run_app c ops1 : forall ops2 st o st' rs o',
  run c st (ops1 ++ ops2) o = Some (st', rs, o') ->
  exists st1 rs1 o1 rs2, run c st ops1 o = Some (st1, rs1, o1) /\ run c st1 ops2 o1 = Some (st', rs2, o') /\ rs = rs1 ++ rs2.
Proof.
  induction ops1 as [|x rest IH]; intros ops2 st o st' rs o' H; cbn [app run] in H |- *.
  - exists st, [], o, rs. auto.
  - destruct (step c st x o) as [[[sta ra] oa]|] eqn:Es; [|discriminate].
    destruct (run c sta (rest ++ ops2) oa) as [[[stb rsb] ob]|] eqn:Er; [|discriminate]. inversion H; subst; clear H.
    destruct (IH _ _ _ _ _ _ Er) as [st1 [rs1 [o1 [rs2 [H1 [H2 H3]]]]]]. rewrite H1.
    exists st1, (ra :: rs1), o1, rs2. subst. auto.
Qed.
