(* Preservation, part 3: draining the heap's delayed list (_mi_heap_delayed_free_partial / _all). *)
From Coq Require Import NArith List Bool Lia Arith.
From MiV Require Import Model.TFree Proofs.TFreeBase Proofs.TFreeInv Proofs.TFreeGen Proofs.TFreeTop Proofs.TFreeStep
  Proofs.TFreeStep2.
Import ListNotations.
Local Open Scope N_scope.

Definition dp_heap (f : frame) : option N :=
  match f with
  | DP1 h | DP2 h _ | DP3 h _ _ | DP4 h _ _ _ | DP5 h _ _ _ | DP6 h _ _ _ => Some h
  | _ => None
  end.

(* what is below a partial-drain frame / a DA frame *)
Lemma da_rest h rest : stk_ok (DA h :: rest) = true ->
  rest = [] \/ (exists fo, rest = [HC2 h fo]) \/ rest = [HD4 h].
Proof.
  cbn [stk_ok]. intros H. apply andb_prop in H as [H1 H2].
  destruct rest as [|g rest']; auto; destruct g; try discriminate H1; cbn in H1; apply N.eqb_eq in H1; subst;
    destruct rest'; try (cbn in H2; discriminate H2); eauto.
Qed.
Lemma dp_rest f h rest : dp_heap f = Some h -> stk_ok (f :: rest) = true ->
  rest = [] \/ (exists rest', rest = DA h :: rest' /\ (rest' = [] \/ (exists fo, rest' = [HC2 h fo]) \/ rest' = [HD4 h]))
  \/ (exists bk, rest = [HD2 h bk]).
Proof.
  intros Hf H. pose proof (stk_ok_tail _ _ H) as H2. cbn [stk_ok] in H. apply andb_prop in H as [H1 _].
  destruct rest as [|g rest']; auto.
  destruct f; try discriminate Hf; inversion Hf; subst; destruct g; try discriminate H1; cbn in H1; apply N.eqb_eq in H1; subst;
    try (right; left; eexists; split; [reflexivity|apply da_rest; assumption]);
    try (right; right; destruct rest'; [eauto|cbn in H2; discriminate H2]).
Qed.
Lemma dp_rest_facts f h rest : dp_heap f = Some h -> stk_ok (f :: rest) = true ->
  has_af rest = false /\ (forall h0, In (HD4 h0) rest -> h0 = h)
  /\ (forall ret q, d1_stk ret rest = flat_map (d1_fr false) rest /\ cnt (onp q) (flat_map (d1_fr false) rest) = 0%nat)
  /\ (forall ret, hd4_quiet rest ret = true -> ret = true /\ exists rest', rest = DA h :: rest').
Proof.
  intros Hf H. destruct (dp_rest f h rest Hf H) as [->|[(rest' & -> & [->|[(fo & ->)| ->]])|(bk & ->)]];
    (split; [reflexivity|split; [|split]]); cbn; intros; try tauto; try discriminate; eauto;
    repeat match goal with H : _ \/ _ |- _ => destruct H end; try discriminate; try tauto; try congruence.
Qed.

Lemma dp_frame_hown c t f h : fr_ok c t (gett c t) f = true -> dp_heap f = Some h -> hown (geth c h) t = true.
Proof.
  intros H Hf. destruct f; try discriminate Hf; inversion Hf; subst; cbn [fr_ok] in H;
    try exact H; apply andb_prop in H as [H _]; exact H.
Qed.

(* popping a partial-drain frame with result ret' *)
Lemma pop_DP c t f h rest ret' :
  Inv c -> th_stk (gett c t) = f :: rest -> dp_heap f = Some h -> fr_blocks f = [] ->
  (ret' = true -> has_af [f] = true \/ hp_del (geth c h) = []) ->
  Inv (sett c t (th_set (gett c t) ([] ++ rest) ret')).
Proof.
  intros I E Hf Hb Hq.
  destruct (stack_facts c t _ _ I E) as (S1 & S2 & S3 & S4).
  destruct (dp_rest_facts f h rest Hf S1) as (R1 & R2 & R3 & R4).
  pose proof (stk_ok_tail _ _ S1) as S1'.
  assert (Hd1 : forall ret, d1_fr ret f = []) by (destruct f; try discriminate Hf; cbn in Hb |- *; auto; discriminate Hb).
  apply (step_top c t f rest [] ret'); auto.
  - intros P. rewrite Hb. reflexivity.
  - intros p. destruct f; try discriminate Hf; reflexivity.
  - intros p. destruct f; try discriminate Hf; reflexivity.
  - intros p. left. cbn [app d1_stk]. rewrite Hd1. cbn [app]. destruct (R3 ret' p) as [-> ->]. lia.
  - intros p h0. destruct f; try discriminate Hf; cbn; discriminate.
  - intros h0. destruct f; try discriminate Hf; cbn; discriminate.
  - intros f0 [].
  - cbn [app]. intros Q. destruct (R4 _ Q) as [-> (rest' & ->)].
    destruct (Hq eq_refl) as [Q'|Q'].
    + left. destruct f; try discriminate Hf; cbn in Q' |- *; rewrite ?orb_false_r in Q'; rewrite ?Q'; auto; discriminate.
    + right. intros h0 Hin. rewrite (R2 h0 Hin). exact Q'.
Qed.

Lemma step_DP1 c t h rest alt : Inv c -> th_stk (gett c t) = DP1 h :: rest ->
  good (fstep c t (gett c t) (DP1 h) rest alt).
Proof.
  intros I E. cbn [fstep].
  destruct (stack_facts c t _ _ I E) as (S1 & S2 & S3 & S4).
  pose proof (dp_frame_hown c t _ h S2 eq_refl) as Ho. destruct (hown_true _ _ Ho) as [Hal _].
  rewrite Hal. cbn [negb]. unfold ok_s, ok_t, good.
  destruct (hp_del (geth c h)) as [|b0 l0] eqn:Ed.
  - apply (pop_DP c t (DP1 h) h rest true I E); auto.
  - apply (step_top c t (DP1 h) rest [DP2 h (Some b0)]); auto; top_side; try stk_ok_top.
    rewrite Ho. reflexivity.
Qed.

Lemma no_other_HD4 c t h : Inv c -> hown (geth c h) t = true -> forall t', t' <> t -> ~ In (HD4 h) (th_stk (gett c t')).
Proof.
  intros I Ho t' Hne Hin.
  pose proof (s_frames _ (i_S _ I) t') as F. rewrite forallb_forall in F. specialize (F _ Hin). cbn [fr_ok] in F.
  apply andb_prop in F as [F _]. apply hown_true in F as [_ F]. apply hown_true in Ho as [_ Ho]. congruence.
Qed.

Ltac invB_seth c t E Hwf :=
  cbn [app];
  lazymatch goal with
  | |- InvB (sett (seth _ ?h ?hp') _ ?th') =>
    constructor; intros q;
    destruct (meas_sett_seth c t th' h hp' q Hwf) as (E1 & E2 & E3 & E4);
    rewrite E in E1, E2, E3;
    cbn [th_stk th_ret th_set app sum_fr win_fr pw_fr d1_stk d1_fr flat_map hp_del hp_set_del] in E1, E2, E3;
    rewrite ?app_nil_r, ?cnt_app, ?cnt_cons, ?cnt_nil, ?cnt_app in E3;
    rewrite E4
  end.

Lemma step_DP2 c t h dhd rest alt : Inv c -> th_stk (gett c t) = DP2 h dhd :: rest ->
  good (fstep c t (gett c t) (DP2 h dhd) rest alt).
Proof.
  intros I E. cbn [fstep].
  destruct (stack_facts c t _ _ I E) as (S1 & S2 & S3 & S4).
  pose proof (dp_frame_hown c t _ h S2 eq_refl) as Ho. destruct (hown_true _ _ Ho) as [Hal _].
  rewrite Hal. cbn [negb].
  pose proof (i_wf _ I) as Hwf.
  destruct (dp_rest_facts (DP2 h dhd) h rest eq_refl S1) as (R1 & R2 & R3 & R4).
  destruct (alt || negb (obid_eqb dhd (hdo (hp_del (geth c h))))) eqn:Ec.
  { destruct (hp_del (geth c h)) as [|b0 l0] eqn:Ed; unfold ok_s, ok_t, good.
    - apply (pop_DP c t (DP2 h dhd) h rest true I E); auto.
    - apply (step_top c t (DP2 h dhd) rest [DP2 h (Some b0)]); auto; top_side; try stk_ok_top.
      rewrite Ho. reflexivity. }
  unfold ok_s, ok_t, good.
  apply (step_top_del c t (DP2 h dhd) rest [DP3 h (hp_del (geth c h)) true] (th_ret (gett c t)) h []);
    auto; top_side; try cnt_goal; try stk_ok_top.
  - invB_seth c t E Hwf.
    + pose proof (b_win _ (i_B _ I) q) as W. lia.
    + pose proof (b_nd _ (i_B _ I) q) as ND. nd_tac ND.
  - apply no_other_HD4; assumption.
  - rewrite Ho, (s_del _ (i_S _ I) h). reflexivity.
  - intros _ h0 Hin. rewrite (R2 h0 Hin), N.eqb_refl. reflexivity.
Qed.

(* a pending delayed block belongs to a live page of this thread *)
Lemma del_ok_own c t h b : Inv c -> hown (geth c h) t = true -> del_ok c h b = true ->
  In b (stk_blocks (th_stk (gett c t))) -> own (getp c (fst b)) t = true.
Proof.
  intros I Ho Hd Hin. destruct (frame_block_alive c t b I Hin) as [Ha _].
  unfold del_ok in Hd. apply andb_prop in Hd as [Hd _]. apply andb_prop in Hd as [_ Hd]. apply N.eqb_eq in Hd.
  apply hown_true in Ho as [_ Ho]. unfold own. rewrite Ha, Hd, Ho, N.eqb_refl. reflexivity.
Qed.

Lemma step_DP3 c t h pend af rest alt : Inv c -> th_stk (gett c t) = DP3 h pend af :: rest ->
  good (fstep c t (gett c t) (DP3 h pend af) rest alt).
Proof.
  intros I E. cbn [fstep].
  destruct (stack_facts c t _ _ I E) as (S1 & S2 & S3 & S4).
  pose proof (dp_frame_hown c t _ h S2 eq_refl) as Ho. destruct (hown_true _ _ Ho) as [Hal _].
  destruct pend as [|b r].
  - unfold ok_s, ok_t, good. apply (pop_DP c t (DP3 h [] af) h rest af I E); auto.
    intros ->. left. reflexivity.
  - rewrite Hal. cbn [negb]. unfold ok_s, ok_t, good.
    assert (S2' := S2). cbn [fr_ok forallb] in S2'. apply andb_prop in S2' as [_ Hd]. apply andb_prop in Hd as [Hdb Hdr].
    assert (Hown : own (getp c (fst b)) t = true).
    { apply (del_ok_own c t h b I Ho Hdb). rewrite E. left. reflexivity. }
    apply (step_top c t (DP3 h (b :: r) af) rest [TU1 (fst b) UseD false false 0; DP4 h b r af]); auto; top_side.
    + cbn [app stk_ok above_ok]. rewrite N.eqb_refl. cbn [andb]. cbn [stk_ok] in S1. exact S1.
    + rewrite Hown. cbn. cbn [fr_ok forallb] in S2. rewrite S2. reflexivity.
Qed.

Lemma step_DP4 c t h b r af rest alt : Inv c -> th_stk (gett c t) = DP4 h b r af :: rest ->
  good (fstep c t (gett c t) (DP4 h b r af) rest alt).
Proof.
  intros I E. cbn [fstep].
  destruct (stack_facts c t _ _ I E) as (S1 & S2 & S3 & S4).
  pose proof (dp_frame_hown c t _ h S2 eq_refl) as Ho. destruct (hown_true _ _ Ho) as [Hal _].
  destruct (dp_rest_facts (DP4 h b r af) h rest eq_refl S1) as (R1 & R2 & R3 & R4).
  assert (S2' := S2). cbn [fr_ok forallb] in S2'. apply andb_prop in S2' as [_ Hd]. apply andb_prop in Hd as [Hdb Hdr].
  assert (Hown : own (getp c (fst b)) t = true).
  { apply (del_ok_own c t h b I Ho Hdb). rewrite E. left. reflexivity. }
  destruct (th_ret (gett c t)) eqn:Er.
  - unfold ok_s, ok_t, good.
    apply (step_top c t (DP4 h b r af) rest [FC1 (fst b) false; DP6 h b r af]); auto; top_side.
    + left. rewrite Er. cbn [d1_stk d1_fr app flat_map]. lia.
    + cbn [app stk_ok above_ok]. rewrite N.eqb_refl. cbn [andb]. cbn [stk_ok] in S1. exact S1.
    + rewrite Hown. cbn [fr_ok forallb] in S2. rewrite S2. reflexivity.
  - rewrite Hal. cbn [negb]. unfold ok_s, ok_t, good.
    apply (step_top c t (DP4 h b r af) rest [DP5 h b r _]); auto; top_side; try stk_ok_top.
    + left. rewrite Er. cbn [d1_stk d1_fr app flat_map]. lia.
    + cbn [fr_ok forallb] in S2. rewrite S2. reflexivity.
Qed.

Lemma step_DP5 c t h b r dhd rest alt : Inv c -> th_stk (gett c t) = DP5 h b r dhd :: rest ->
  good (fstep c t (gett c t) (DP5 h b r dhd) rest alt).
Proof.
  intros I E. cbn [fstep].
  destruct (stack_facts c t _ _ I E) as (S1 & S2 & S3 & S4).
  pose proof (dp_frame_hown c t _ h S2 eq_refl) as Ho. destruct (hown_true _ _ Ho) as [Hal _].
  destruct (dp_rest_facts (DP5 h b r dhd) h rest eq_refl S1) as (R1 & R2 & R3 & R4).
  assert (S2' := S2). cbn [fr_ok forallb] in S2'. apply andb_prop in S2' as [_ Hd]. apply andb_prop in Hd as [Hdb Hdr].
  rewrite Hal. cbn [negb]. unfold ok_s, ok_t, good.
  pose proof (i_wf _ I) as Hwf.
  destruct (alt || negb (obid_eqb dhd (hdo (hp_del (geth c h))))) eqn:Ec.
  { apply (step_top c t (DP5 h b r dhd) rest [DP5 h b r _]); auto; top_side; try stk_ok_top.
    cbn [fr_ok forallb] in S2. rewrite S2. reflexivity. }
  apply (step_top_del c t (DP5 h b r dhd) rest [DP3 h r false] (th_ret (gett c t)) h (b :: hp_del (geth c h)));
    auto; top_side; try cnt_goal; try stk_ok_top.
  - invB_seth c t E Hwf.
    + pose proof (b_win _ (i_B _ I) q) as W. lia.
    + pose proof (b_nd _ (i_B _ I) q) as ND. nd_tac ND.
  - cbn [forallb]. rewrite Hdb, (s_del _ (i_S _ I) h). reflexivity.
  - apply no_other_HD4; assumption.
  - rewrite Ho, Hdr. reflexivity.
  - intros Q. exfalso. unfold has_af in R1. cbn in Q. rewrite R1 in Q. discriminate.
Qed.

Lemma step_DA c t h rest alt : Inv c -> th_stk (gett c t) = DA h :: rest ->
  good (fstep c t (gett c t) (DA h) rest alt).
Proof.
  intros I E. cbn [fstep].
  destruct (stack_facts c t _ _ I E) as (S1 & S2 & S3 & S4).
  assert (Ho : hown (geth c h) t = true) by exact S2.
  pose proof (stk_ok_tail _ _ S1) as S1'.
  destruct (th_ret (gett c t)) eqn:Er; unfold ok_s, ok_t, good.
  - apply (step_top c t (DA h) rest [] (th_ret (gett c t))); auto; top_side.
    left. destruct (da_rest h rest S1) as [->|[(fo & ->)| ->]]; cbn; lia.
  - apply (step_top c t (DA h) rest [DP1 h; DA h]); auto; top_side.
    + cbn [app stk_ok above_ok]. rewrite N.eqb_refl. cbn [andb]. cbn [stk_ok] in S1. exact S1.
    + rewrite Ho. reflexivity.
    + destruct (da_rest h rest S1) as [->|[(fo & ->)| ->]]; cbn; discriminate.
Qed.

(* ---- mi_free_block_local at the end of _mi_free_delayed_block ---- *)
Lemma step_DP6 c t h b r af rest alt : Inv c -> th_stk (gett c t) = DP6 h b r af :: rest ->
  good (fstep c t (gett c t) (DP6 h b r af) rest alt).
Proof.
  intros I E. cbn [fstep]. unfold free_local.
  destruct (stack_facts c t _ _ I E) as (S1 & S2 & S3 & S4).
  pose proof (dp_frame_hown c t _ h S2 eq_refl) as Ho.
  assert (S2' := S2). cbn [fr_ok forallb] in S2'. apply andb_prop in S2' as [_ Hd]. apply andb_prop in Hd as [Hdb Hdr].
  set (p := fst b) in *.
  assert (Hown : own (getp c p) t = true).
  { apply (del_ok_own c t h b I Ho Hdb). rewrite E. left. reflexivity. }
  rewrite Hown. cbn [negb].
  pose proof (i_wf _ I) as Hwf.
  set (pg1 := pg_set_lists (getp c p) (pg_free (getp c p)) (b :: pg_lfree (getp c p)) (sub16 (pg_used (getp c p)) 1)).
  (* the block accounting is the same in all four outcomes *)
  assert (HA : forall nf pg', (pg' = pg1 \/ pg' = pg_set_full pg1 false) -> stk_blocks nf = r ->
            InvA (sett (setp c p pg') t (th_set (gett c t) (nf ++ rest) (th_ret (gett c t))))).
  { intros nf pg' Hpg Hnf.
    assert (EWF : forall P, (mW (sett (setp c p pg') t (th_set (gett c t) (nf ++ rest) (th_ret (gett c t)))) P + cnt P [b] = mW c P
                             /\ mF (sett (setp c p pg') t (th_set (gett c t) (nf ++ rest) (th_ret (gett c t)))) P = mF c P + cnt P [b])%nat).
    { intros P. destruct (mWF_sett_setp c t (th_set (gett c t) (nf ++ rest) (th_ret (gett c t))) p pg' P Hwf) as [E1 E2].
      unfold th_W in E1. rewrite E in E1. cbn [th_held th_stk th_set] in E1.
      rewrite stk_blocks_app, stk_blocks_cons, Hnf in E1. cbn [fr_blocks] in E1.
      destruct Hpg as [-> | ->]; cbn [pg_tf pg_free pg_lfree pg1 pg_set_lists pg_set_full] in E1, E2;
        rewrite ?cnt_app, ?cnt_cons, ?cnt_nil in *; split; lia. }
    apply (invA_transfer c _ p [b]); auto.
    - intros P. apply EWF.
    - intros P. apply EWF.
    - cbn. unfold onp, p. rewrite N.eqb_refl. reflexivity.
    - intros q. rewrite getp_sett, getp_setp. destruct (q =? p) eqn:Eq; [apply N.eqb_eq in Eq; subst q|reflexivity].
      destruct Hpg as [-> | ->]; reflexivity.
    - intros q. rewrite getp_sett, getp_setp. destruct (q =? p) eqn:Eq; [|reflexivity].
      destruct Hpg as [-> | ->]; reflexivity.
    - intros q. rewrite getp_sett, getp_setp. destruct (q =? p) eqn:Eq; [apply N.eqb_eq in Eq; subst q|apply (a_local _ (i_A _ I))].
      pose proof (a_local _ (i_A _ I) p) as L. unfold pg_blocks in *.
      assert (forallb (onp p) (pg_tf (getp c p) ++ pg_free (getp c p) ++ b :: pg_lfree (getp c p)) = true).
      { rewrite !forallb_app in *. cbn [forallb]. apply andb_prop in L as [L1 L2]. apply andb_prop in L2 as [L2 L3].
        rewrite L1, L2, L3. unfold onp at 1, p. rewrite N.eqb_refl. reflexivity. }
      destruct Hpg as [-> | ->]; exact H. }
  assert (Hs3 : stk_ok ([DP3 h r af] ++ rest) = true) by (cbn [app stk_ok] in S1 |- *; exact S1).
  assert (Hf3 : fr_ok c t (gett c t) (DP3 h r af) = true) by (cbn [fr_ok]; rewrite Ho, Hdr; reflexivity).
  destruct (sub16 (pg_used (getp c p)) 1 =? 0) eqn:Eu.
  - destruct (alt && negb (pg_full (getp c p))).
    + unfold ok_s, ok_t, good.
      apply (step_top_priv c t (DP6 h b r af) rest [DP3 h r af] (th_ret (gett c t)) p pg1); auto; top_side; try exact Hf3.
      apply HA; [left; reflexivity|cbn; apply app_nil_r].
    + unfold ok_s, ok_t, good.
      apply (step_top_priv c t (DP6 h b r af) rest [PF p; DP3 h r af] (th_ret (gett c t)) p pg1); auto; top_side; try exact Hf3.
      * apply HA; [left; reflexivity|cbn; apply app_nil_r].
      * split; [assumption|]. rewrite N.eqb_refl. cbn [pg_used pg1 pg_set_lists]. apply N.eqb_eq. assumption.
  - destruct (pg_full (getp c p)).
    + unfold ok_s, ok_t, good.
      apply (step_top_priv c t (DP6 h b r af) rest [DP3 h r af] (th_ret (gett c t)) p (pg_set_full pg1 false)); auto; top_side; try exact Hf3.
      apply HA; [right; reflexivity|cbn; apply app_nil_r].
    + unfold ok_s, ok_t, good.
      apply (step_top_priv c t (DP6 h b r af) rest [DP3 h r af] (th_ret (gett c t)) p pg1); auto; top_side; try exact Hf3.
      apply HA; [left; reflexivity|cbn; apply app_nil_r].
Qed.
