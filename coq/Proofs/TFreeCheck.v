(* The boolean checkers are sound: a configuration that passes inv_b satisfies the invariant (so evaluating
   inv_b on a state dumped from the implementation establishes Inv and InvT for that state). *)
From Coq Require Import NArith List Bool Lia Arith.
From MiV Require Import Model.TFree Proofs.TFreeBase Proofs.TFreeInv Proofs.TFreeGen Proofs.TFreeTop Proofs.TFreeStep
  Proofs.TFreeStep5 Proofs.TFreeProofs.
Import ListNotations.
Local Open Scope N_scope.

Lemma nodup_b_cnt l b : nodup_b l = true -> (cnt (bid_eqb b) l <= 1)%nat.
Proof.
  induction l as [|x r IH]; [rewrite cnt_nil; lia|]. cbn [nodup_b]. intros H. apply andb_prop in H as [H1 H2].
  rewrite cnt_cons. destruct (bid_eqb b x) eqn:E; [|specialize (IH H2); lia].
  apply bid_eqb_eq in E. subst x. apply negb_true_iff in H1.
  assert (cnt (bid_eqb b) r = 0%nat); [|lia]. apply cnt_zero_not_In. intros Hin. apply mem_bid_In in Hin. congruence.
Qed.
Lemma ftot_zero_entries {V} (f : V -> nat) (m : list (N * V)) : (forall kv, In kv m -> f (snd kv) = 0%nat) -> ftot f m = 0%nat.
Proof.
  induction m as [|[k v] r IH]; [reflexivity|]. intros H. cbn [ftot]. pose proof (H (k, v) (or_introl eq_refl)) as H0. cbn in H0. rewrite H0.
  rewrite IH; [reflexivity|]. intros kv Hkv. apply H. right. assumption.
Qed.
Lemma fget_entry {V} (d : V) (m : list (N * V)) k : fget d m k = d \/ In (k, fget d m k) m.
Proof.
  induction m as [|[k0 v0] r IH]; [left; reflexivity|]. cbn. destruct (k =? k0) eqn:E.
  - apply N.eqb_eq in E. subst. right. left. reflexivity.
  - destruct IH; [left; assumption|right; right; assumption].
Qed.
Lemma fget_notkey {V} (d : V) (m : list (N * V)) k : ~ In k (keys m) -> fget d m k = d.
Proof.
  intros H. apply fget_nokey. destruct (existsb (fun kv : N * V => fst kv =? k) m) eqn:E; [|reflexivity].
  apply existsb_exists in E as [[k0 v0] [H1 H2]]. cbn in H2. apply N.eqb_eq in H2. subst k0. exfalso. apply H.
  unfold keys. apply in_map_iff. exists (k, v0). auto.
Qed.
Lemma page_eqb0_eq pg : page_eqb0 pg = true -> pg = pg0.
Proof.
  unfold page_eqb0. rewrite !andb_true_iff, !negb_true_iff, !N.eqb_eq, !isnil_true, flag_eqb_eq, oN_eqb_eq.
  destruct pg; cbn. intros [[[[[[[[[[H1 H2] H3] H4] H5] H6] H7] H8] H9] H10] H11]. subst. reflexivity.
Qed.

Section Sound.
  Variable c : cfg.
  Hypothesis Hb : inv_b c = true.

  Let parts : wf_b c = true /\ uniq_b c = true /\ range_b c = true /\ count_b c = true /\ local_b c = true
              /\ win_b c = true /\ nd_b c = true /\ tfl_b c = true /\ dead_b c = true /\ pheap_b c = true
              /\ heaps_b c = true /\ del_b c = true /\ frames_b c = true /\ hd_b c = true.
  Proof. unfold inv_b in Hb. rewrite !andb_true_iff in Hb. tauto. Qed.

  Let Hwf : wf c := proj1 parts.

  (* entries and lookups *)
  Lemma th_entry t : gett c t = th0 \/ In (t, gett c t) (c_th c).
  Proof. apply fget_entry. Qed.
  Lemma pg_entry p : getp c p = pg0 \/ In (p, getp c p) (c_pg c).
  Proof. apply fget_entry. Qed.
  Lemma hp_entry h : geth c h = hp0 \/ In (h, geth c h) (c_hp c).
  Proof. apply fget_entry. Qed.

  (* a page that is mentioned nowhere *)
  Lemma frame_in_all_pages t f q : In f (th_stk (gett c t)) -> In q (fr_page f) -> In q (all_pages c).
  Proof.
    intros Hf Hq. destruct (th_entry t) as [E|E]; [rewrite E in Hf; destruct Hf|].
    unfold all_pages. apply in_or_app. right. apply in_or_app. right.
    apply in_flat_map. exists (t, gett c t). split; [assumption|]. cbn. apply in_flat_map. exists f. auto.
  Qed.
  Lemma block_in_all_blocks_th t b : In b (th_blocks (gett c t)) -> In b (all_blocks c).
  Proof.
    intros Hbk. destruct (th_entry t) as [E|E]; [rewrite E in Hbk; destruct Hbk|].
    unfold all_blocks. apply in_or_app. left. apply in_flat_map. exists (t, gett c t). auto.
  Qed.
  Lemma block_page_in_all_pages b : In b (all_blocks c) -> In (fst b) (all_pages c).
  Proof.
    intros H. unfold all_pages. apply in_or_app. right. apply in_or_app. left. apply in_map. assumption.
  Qed.
  Lemma off_page p : ~ In p (all_pages c) ->
    getp c p = pg0 /\ cnt (onp p) (all_blocks c) = 0%nat /\ mWin c p = 0%nat /\ mPw c p = 0%nat /\ mPh c p = 0%nat.
  Proof.
    intros Hn.
    assert (Hk : ~ In p (keys (c_pg c))) by (intros H; apply Hn; unfold all_pages; apply in_or_app; left; assumption).
    assert (Hbl : forall b, In b (all_blocks c) -> fst b <> p).
    { intros b Hbk E. apply Hn. rewrite <- E. apply block_page_in_all_pages. assumption. }
    assert (Hfr : forall t f, In (t, gett c t) (c_th c) \/ True -> In f (th_stk (gett c t)) ->
                  win_fr p f = 0%nat /\ (forall ret r, ph_stk p ret (f :: r) = 0%nat)).
    { intros t f _ Hf.
      assert (Hpg : forall q, In q (fr_page f) -> (q =? p) = false).
      { intros q Hq. apply N.eqb_neq. intros ->. apply Hn. apply (frame_in_all_pages t f p Hf Hq). }
      assert (Hfb : forall b, In b (fr_blocks f) -> (fst b =? p) = false).
      { intros b Hbk. apply N.eqb_neq. apply Hbl. apply (block_in_all_blocks_th t). unfold th_blocks. apply in_or_app. right.
        unfold stk_blocks. apply in_flat_map. exists f. auto. }
      destruct f; cbn [win_fr ph_stk fr_page fr_blocks] in *; split; intros;
        rewrite ?(Hfb b) by (left; reflexivity); rewrite ?(Hpg p0) by (left; reflexivity);
        rewrite ?andb_false_r; cbn [andb]; try reflexivity; try (destruct force; reflexivity). }
    split; [unfold getp; apply fget_notkey; assumption|]. split.
    - apply cnt_none. intros b Hbk. unfold onp. apply N.eqb_neq. apply Hbl. assumption.
    - assert (Hs : forall t, sum_fr (win_fr p) (th_stk (gett c t)) = 0%nat /\ ph_stk p (th_ret (gett c t)) (th_stk (gett c t)) = 0%nat).
      { intros t. split.
        - assert (forall l, (forall f, In f l -> win_fr p f = 0%nat) -> sum_fr (win_fr p) l = 0%nat).
          { induction l as [|x r IH]; [reflexivity|]. intros H. cbn. rewrite (H x) by (left; reflexivity). rewrite IH; [reflexivity|].
            intros f Hf. apply H. right. assumption. }
          apply H. intros f Hf. apply (Hfr t f (or_intror Logic.I) Hf).
        - destruct (th_stk (gett c t)) as [|f r] eqn:E; [reflexivity|].
          apply (Hfr t f (or_intror Logic.I)). rewrite E. left. reflexivity. }
      split; [|split].
      + unfold mWin. apply ftot_zero_entries. intros [t th] Hin. cbn.
        pose proof (wf_parts c Hwf) as (Hn1 & _). rewrite <- (fget_In th0 _ t th Hn1 Hin). apply (Hs t).
      + pose proof (mPw_le_mWin c p).
        assert (mWin c p = 0%nat); [|lia]. unfold mWin. apply ftot_zero_entries. intros [t th] Hin. cbn.
        pose proof (wf_parts c Hwf) as (Hn1 & _). rewrite <- (fget_In th0 _ t th Hn1 Hin). apply (Hs t).
      + unfold mPh. apply ftot_zero_entries. intros [t th] Hin. cbn.
        pose proof (wf_parts c Hwf) as (Hn1 & _). rewrite <- (fget_In th0 _ t th Hn1 Hin). apply (Hs t).
  Qed.

  Lemma in_pages_dec p : {In p (all_pages c)} + {~ In p (all_pages c)}.
  Proof. apply in_dec. apply N.eq_dec. Qed.

  Lemma soundA : InvA c.
  Proof.
    pose proof parts as PP. destruct PP as (_ & Hu & Hr & Hc & Hl & _).
    constructor.
    - intros b. rewrite <- cnt_all_blocks. apply nodup_b_cnt. exact Hu.
    - intros b Hbk. rewrite <- cnt_all_blocks in Hbk. apply cnt_In in Hbk.
      unfold range_b in Hr. pose proof (forallb_In _ _ Hr b Hbk) as H. cbn beta in H. apply andb_prop in H as [H1 H2].
      apply N.ltb_lt in H2. auto.
    - intros p. destruct (in_pages_dec p) as [Hin|Hn].
      + unfold count_b in Hc. pose proof (forallb_In _ _ Hc p Hin) as H. cbn beta zeta in H. rewrite !andb_true_iff in H.
        destruct H as [[[H1 H2] H3] H4]. apply N.eqb_eq in H1. apply N.eqb_eq in H2. apply N.leb_le in H3. apply N.ltb_lt in H4. auto.
      + destruct (off_page p Hn) as (E & Z & _). rewrite cnt_all_blocks in Z. rewrite E. cbn.
        assert (mW c (onp p) = 0%nat) by lia. assert (mF c (onp p) = 0%nat) by lia. rewrite H, H0. cbn. repeat split; lia.
    - intros p. destruct (pg_entry p) as [E|E]; [rewrite E; reflexivity|].
      unfold local_b in Hl. apply andb_prop in Hl as [Hl _]. apply (forallb_In _ _ Hl (p, getp c p) E).
  Qed.

  Lemma soundB : InvB c.
  Proof.
    pose proof parts as PP. destruct PP as (_ & _ & _ & _ & _ & Hw & Hn & _).
    constructor.
    - intros p. destruct (in_pages_dec p) as [Hin|Hno].
      + unfold win_b in Hw. pose proof (forallb_In _ _ Hw p Hin) as H. cbn beta in H. apply Nat.eqb_eq in H. exact H.
      + destruct (off_page p Hno) as (E & _ & W & _). rewrite E, W. reflexivity.
    - intros p Hp. destruct (in_pages_dec p) as [Hin|Hno].
      + unfold nd_b in Hn. pose proof (forallb_In _ _ Hn p Hin) as H. cbn beta in H. apply orb_prop in H as [H|H]; [|apply Nat.leb_le; exact H].
        exfalso. apply negb_true_iff in H. apply orb_false_iff in H as [H1 H2]. destruct Hp as [Hp|Hp].
        * rewrite Hp in H1. discriminate.
        * apply Nat.leb_le in Hp. congruence.
      + destruct (off_page p Hno) as (E & _ & _ & P & _). rewrite E, P in Hp. destruct Hp as [Hp|Hp]; [discriminate|lia].
  Qed.

  Lemma soundT : InvT c.
  Proof.
    pose proof parts as PP. destruct PP as (_ & _ & _ & _ & _ & _ & _ & Ht & _).
    intros p T F. destruct (in_pages_dec p) as [Hin|Hno].
    - unfold tfl_b in Ht. pose proof (forallb_In _ _ Ht p Hin) as H. cbn beta in H. apply orb_prop in H as [H|H]; [|apply Nat.leb_le; exact H].
      exfalso. apply negb_true_iff in H. apply andb_false_iff in H as [H|H].
      + apply negb_false_iff, isnil_true in H. contradiction.
      + rewrite F in H. discriminate.
    - destruct (off_page p Hno) as (E & _). rewrite E in T. contradiction.
  Qed.

  Lemma hd_fr_ok_sound th f : hd_fr_ok c th f = true -> hd_fr_okP c th f.
  Proof.
    destruct f; cbn [hd_fr_ok hd_fr_okP]; auto.
    - intros H p Ha Hh. destruct (pg_entry p) as [E|E]; [rewrite E in Ha; discriminate|].
      pose proof (forallb_In _ _ H (p, getp c p) E) as H1. cbn in H1. rewrite Ha, Hh, oN_eqb_refl in H1. cbn in H1.
      unfold memN in H1. apply existsb_exists in H1 as [x [X1 X2]]. apply N.eqb_eq in X2. subst x. exact X1.
    - intros H. apply andb_prop in H as [H1 H2]. split.
      + intros p Ha Hh. destruct (pg_entry p) as [E|E]; [rewrite E in Ha; discriminate|].
        pose proof (forallb_In _ _ H1 (p, getp c p) E) as H3. cbn in H3. rewrite Ha, Hh, oN_eqb_refl in H3. discriminate.
      + intros Q. rewrite Q in H2. cbn in H2. apply isnil_true. exact H2.
  Qed.

  Lemma soundS : InvS c.
  Proof.
    pose proof parts as PP. destruct PP as (_ & _ & _ & _ & _ & _ & _ & _ & Hd & Hp & Hh & Hdl & Hf & Hhd).
    pose proof (wf_parts c Hwf) as (N1 & N2 & N3).
    constructor.
    - intros p Ha. destruct (pg_entry p) as [E|E]; [exact E|].
      pose proof (forallb_In _ _ Hd (p, getp c p) E) as H. cbn in H. rewrite Ha in H. cbn in H. apply page_eqb0_eq. exact H.
    - intros p Ha. destruct (pg_entry p) as [E|E]; [rewrite E in Ha; discriminate|].
      pose proof (forallb_In _ _ Hp (p, getp c p) E) as H. cbn in H. rewrite Ha in H. cbn in H.
      destruct (pg_heap (getp c p)) as [h|]; [|discriminate]. exists h. auto.
    - intros t bk Hbk. destruct (th_entry t) as [E|E]; [rewrite E in Hbk; discriminate|].
      unfold heaps_b in Hh. apply andb_prop in Hh as [Hh _]. pose proof (forallb_In _ _ Hh (t, gett c t) E) as H. cbn in H.
      rewrite Hbk in H. apply andb_prop in H. exact H.
    - intros h Ha Hbk. destruct (hp_entry h) as [E|E]; [rewrite E in Ha; discriminate|].
      unfold heaps_b in Hh. apply andb_prop in Hh as [_ Hh]. pose proof (forallb_In _ _ Hh (h, geth c h) E) as H. cbn in H.
      rewrite Ha, Hbk in H. cbn in H. apply andb_prop in H as [H _]. apply oN_eqb_eq. exact H.
    - intros h Ha. destruct (hp_entry h) as [E|E]; [rewrite E; reflexivity|].
      unfold heaps_b in Hh. apply andb_prop in Hh as [_ Hh]. pose proof (forallb_In _ _ Hh (h, geth c h) E) as H. cbn in H.
      rewrite Ha in H. apply andb_prop in H as [_ H]. cbn in H. apply isnil_true. exact H.
    - intros h. destruct (hp_entry h) as [E|E]; [rewrite E; reflexivity|].
      apply (forallb_In _ _ Hdl (h, geth c h) E).
    - intros t. destruct (th_entry t) as [E|E]; [rewrite E; reflexivity|].
      pose proof (forallb_In _ _ Hf (t, gett c t) E) as H. cbn in H. apply andb_prop in H as [H _]. exact H.
    - intros t. destruct (th_entry t) as [E|E]; [rewrite E; reflexivity|].
      pose proof (forallb_In _ _ Hf (t, gett c t) E) as H. cbn in H. apply andb_prop in H as [_ H]. exact H.
    - intros t f Hin. destruct (th_entry t) as [E|E]; [rewrite E in Hin; destruct Hin|].
      pose proof (forallb_In _ _ Hhd (t, gett c t) E) as H. cbn in H. unfold hd_ok in H.
      apply hd_fr_ok_sound. apply (forallb_In _ _ H f Hin).
  Qed.

  Theorem inv_b_sound_c : Inv c /\ InvT c.
  Proof. split; [constructor; [exact Hwf|exact soundA|exact soundB|exact soundS]|exact soundT]. Qed.
End Sound.

Theorem inv_b_sound : forall c, inv_b c = true -> Inv c /\ InvT c.
Proof. intros c H. apply inv_b_sound_c. exact H. Qed.
