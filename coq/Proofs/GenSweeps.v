(* Finite sweeps over the GENERATED functions of Gen/Funcs.v (complete enumerations, computed once by the kernel's VM at Qed);
   part A: mi_bin (part B in GenSweepsB.v so that make can run them in parallel);
   lifted in Proofs/GenEquiv.v.  Re-run whenever the C source of a translated function changes. *)
From Coq Require Import NArith ZArith Bool List.
From MiV Require Import Gen.Consts Gen.Bins Model.Arith Model.CSem Gen.Funcs Proofs.Base Proofs.ArithSweeps.
Local Open Scope N_scope.
Local Open Scope bool_scope.

(* mi_bin: every request size 0 .. 2*MI_MEDIUM_OBJ_SIZE_MAX, and the 16 sizes below 2^64 (where size+7 wraps) *)
Lemma sweep_c_bin_low : forallN (fun s => (c_mi_bin s =? mi_bin s) && c_mi_bin_ok s) sweep_limit = true.
Proof. vm_cast_no_check (eq_refl true). Qed.

Lemma sweep_c_bin_top : forallN (fun i => (c_mi_bin (W64 - 16 + i) =? mi_bin (W64 - 16 + i)) && c_mi_bin_ok (W64 - 16 + i)) 16 = true.
Proof. vm_cast_no_check (eq_refl true). Qed.

