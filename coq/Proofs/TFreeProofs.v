(* The theorems about reachable states of the cross-thread free protocol (C02, C08 flag part, C10conc). *)
From Coq Require Import NArith List Bool Lia Arith Permutation.
From MiV Require Import Model.TFree Proofs.TFreeBase Proofs.TFreeInv Proofs.TFreeGen Proofs.TFreeTop Proofs.TFreeStep
  Proofs.TFreeStep2 Proofs.TFreeStep3 Proofs.TFreeKill Proofs.TFreeStep4 Proofs.TFreeStep5.
Import ListNotations.
Local Open Scope N_scope.

(* reflexive-transitive closure of tstep from init: any number of threads, any number of steps *)
Inductive reachable : state -> Prop :=
  | reach_init : reachable init
  | reach_step s t ch s' : reachable s -> tstep s t ch = Some s' -> reachable s'.

Definition SInv (s : state) : Prop := match s with Err _ => False | Ok c => Inv c end.

Lemma SInv_init : SInv init.
Proof. exact Inv_init. Qed.
Lemma SInv_step s t ch s' : SInv s -> tstep s t ch = Some s' -> SInv s'.
Proof.
  destruct s as [e|c]; [intros []|]. cbn [SInv tstep]. intros I H.
  pose proof (cstep_good c t ch I) as G. destruct (cstep c t ch); try discriminate; cbn in G.
  - contradiction.
  - inversion H; subst. exact G.
Qed.
Lemma reachable_SInv s : reachable s -> SInv s.
Proof. induction 1; [exact SInv_init|eapply SInv_step; eassumption]. Qed.
Lemma reachable_Inv s : reachable s -> exists c, s = Ok c /\ Inv c.
Proof. intros H. apply reachable_SInv in H. destruct s; [contradiction|eauto]. Qed.
Lemma run_reachable s sched s' : reachable s -> run s sched = Some s' -> reachable s'.
Proof.
  revert s. induction sched as [|[t ch] r IH]; cbn; intros s Hs H; [inversion H; subst; exact Hs|].
  destruct (tstep s t ch) eqn:E; [|discriminate]. apply (IH s0); [eapply reach_step; eassumption|exact H].
Qed.

(* ---- C02: Error unreachable ---- *)
Theorem tfree_no_error_P : forall s, reachable s -> forall e, s <> Err e.
Proof. intros s H e ->. apply reachable_SInv in H. exact H. Qed.
Theorem tfree_no_error_step : forall s, reachable s -> forall t ch e, tstep s t ch <> Some (Err e).
Proof. intros s H t ch e Hs. apply (tfree_no_error_P (Err e) (reach_step _ _ _ _ H Hs) e). reflexivity. Qed.

(* ---- measures as counts over the list of all places ---- *)
Lemma cnt_flat_map_ftot {V} P (f : V -> list bid) (m : list (N * V)) :
  cnt P (flat_map (fun kv => f (snd kv)) m) = ftot (fun v => cnt P (f v)) m.
Proof. induction m as [|[k v] r IH]; [reflexivity|]. cbn [flat_map ftot snd]. rewrite cnt_app, IH. reflexivity. Qed.
Lemma cnt_all_blocks c P : cnt P (all_blocks c) = (mW c P + mF c P)%nat.
Proof.
  unfold all_blocks, mW, mF. rewrite !cnt_app, !cnt_flat_map_ftot.
  assert (E1 : ftot (fun v => cnt P (th_blocks v)) (c_th c) = ftot (th_W P) (c_th c)).
  { apply ftot_ext. intros th. unfold th_blocks, th_W. apply cnt_app. }
  assert (E2 : ftot (fun v => cnt P (pg_blocks v)) (c_pg c)
               = (ftot (fun pg => cnt P (pg_tf pg)) (c_pg c) + ftot (fun pg => cnt P (pg_free pg) + cnt P (pg_lfree pg)) (c_pg c))%nat).
  { induction (c_pg c) as [|[k v] r IH]; [reflexivity|]. cbn [ftot]. rewrite IH. unfold pg_blocks. rewrite !cnt_app. lia. }
  rewrite E1, E2. lia.
Qed.
Lemma NoDup_cnt l : (forall b, (cnt (bid_eqb b) l <= 1)%nat) -> NoDup l.
Proof.
  induction l as [|x r IH]; [constructor|]. intros H. constructor.
  - intros Hin. specialize (H x). rewrite cnt_cons, bid_eqb_refl in H. apply cnt_In in Hin. lia.
  - apply IH. intros b. specialize (H b). rewrite cnt_cons in H. destruct (bid_eqb b x); lia.
Qed.
Lemma cnt_filter_eq P Q l : cnt P (filter Q l) = cnt (fun b => P b && Q b) l.
Proof.
  induction l as [|x r IH]; [reflexivity|]. cbn [filter]. rewrite cnt_cons. destruct (Q x) eqn:E.
  - rewrite cnt_cons, IH, andb_true_r. reflexivity.
  - rewrite IH, andb_false_r. reflexivity.
Qed.

(* ---- C02: every block is in exactly one place ---- *)
Definition places_ok (c : cfg) : Prop :=
  NoDup (all_blocks c)
  /\ forall p, Permutation (filter (onp p) (all_blocks c)) (mkblocks p 0 (N.to_nat (pg_cap (getp c p)))).

Lemma Inv_places c : Inv c -> places_ok c.
Proof.
  intros I. destruct (i_A _ I) as [U R C L]. split.
  - apply NoDup_cnt. intros b. rewrite cnt_all_blocks. apply U.
  - intros p. apply NoDup_Permutation_bis.
    + apply NoDup_cnt. intros b. rewrite cnt_filter_eq.
      assert (cnt (fun b0 => bid_eqb b b0 && onp p b0) (all_blocks c) <= cnt (bid_eqb b) (all_blocks c))%nat.
      { clear. induction (all_blocks c) as [|x r IH]; [rewrite !cnt_nil; lia|]. rewrite !cnt_cons.
        destruct (bid_eqb b x), (onp p x); cbn; lia. }
      rewrite (cnt_all_blocks c (bid_eqb b)) in H. specialize (U b). lia.
    + rewrite mkblocks_length. destruct (C p) as (_ & C2 & _).
      assert (length (filter (onp p) (all_blocks c)) = cnt (onp p) (all_blocks c)) by reflexivity.
      rewrite H, cnt_all_blocks, C2. lia.
    + intros b Hb. apply filter_In in Hb as [Hb1 Hb2]. unfold onp in Hb2. apply N.eqb_eq in Hb2.
      apply mkblocks_In. rewrite N2Nat.id. split; [assumption|].
      destruct (R b) as [_ R2]; [rewrite <- cnt_all_blocks; apply cnt_In; assumption|]. rewrite Hb2 in R2. lia.
Qed.

Theorem tfree_places_unique_P : forall s, reachable s -> exists c, s = Ok c /\ places_ok c.
Proof. intros s H. destruct (reachable_Inv s H) as [c [-> I]]. exists c. split; [reflexivity|apply Inv_places; assumption]. Qed.

(* ---- C02: used = |live| + |thread list| + |delayed| + |pending| + |in flight| ---- *)
Lemma ftot_add {V} (f g : V -> nat) (m : list (N * V)) : ftot (fun v => f v + g v)%nat m = (ftot f m + ftot g m)%nat.
Proof. induction m as [|[k v] r IH]; [reflexivity|]. cbn [ftot]. rewrite IH. lia. Qed.
Lemma fr_blocks_split P f : cnt P (fr_blocks f) = (cnt P (fr_pending f) + cnt P (fr_hand f))%nat.
Proof. destruct f; cbn [fr_blocks fr_pending fr_hand]; rewrite ?cnt_nil; lia. Qed.
Lemma stk_blocks_split P stk : cnt P (stk_blocks stk) = (cnt P (flat_map fr_pending stk) + cnt P (flat_map fr_hand stk))%nat.
Proof.
  induction stk as [|f r IH]; [reflexivity|]. rewrite stk_blocks_cons. cbn [flat_map]. rewrite !cnt_app, IH, fr_blocks_split. lia.
Qed.
Lemma mTf_local c p : wf c -> (forall q, forallb (onp q) (pg_blocks (getp c q)) = true) ->
  ftot (fun pg => cnt (onp p) (pg_tf pg)) (c_pg c) = length (pg_tf (getp c p)).
Proof.
  intros Hwf L. pose proof (wf_parts c Hwf) as (_ & Hn & _).
  pose proof (ftot_fset pg0 (fun pg => cnt (onp p) (pg_tf pg)) (c_pg c) p pg0 Hn eq_refl) as E. cbn beta in E.
  cbn [pg_tf pg0] in E. rewrite cnt_nil in E.
  assert (Z : ftot (fun pg => cnt (onp p) (pg_tf pg)) (fset (c_pg c) p pg0) = 0%nat).
  { apply (ftot_zero pg0); [apply fkeys_nodup_fset; assumption|reflexivity|].
    intros q. rewrite fget_fset. destruct (q =? p) eqn:Eq; [reflexivity|].
    specialize (L q). unfold pg_blocks in L. rewrite forallb_app in L. apply andb_prop in L as [L _].
    apply cnt_none. intros x Hx. pose proof (forallb_In _ _ L x Hx) as Hq. unfold onp in *. apply N.eqb_eq in Hq. rewrite Hq. exact Eq. }
  fold (getp c p) in E.
  assert (T : cnt (onp p) (pg_tf (getp c p)) = length (pg_tf (getp c p))).
  { apply cnt_all. specialize (L p). unfold pg_blocks in L. rewrite forallb_app in L. apply andb_prop in L as [L _]. exact L. }
  lia.
Qed.

Lemma Inv_used_count c : Inv c -> forall p,
  pg_used (getp c p) = N.of_nat (live_count c p + tf_count c p + del_count c p + pend_count c p + hand_count c p).
Proof.
  intros I p. destruct (a_count _ (i_A _ I) p) as [C1 _]. rewrite C1. f_equal.
  unfold mW, live_count, tf_count, del_count, pend_count, hand_count.
  rewrite (mTf_local c p (i_wf _ I) (a_local _ (i_A _ I))).
  assert (E : ftot (th_W (onp p)) (c_th c)
              = (ftot (fun th => cnt (onp p) (th_held th)) (c_th c)
                 + (ftot (fun th => cnt (onp p) (flat_map fr_pending (th_stk th))) (c_th c)
                    + ftot (fun th => cnt (onp p) (flat_map fr_hand (th_stk th))) (c_th c)))%nat).
  { rewrite <- !ftot_add. apply ftot_ext. intros th. unfold th_W. rewrite stk_blocks_split. reflexivity. }
  rewrite E. lia.
Qed.
Theorem tfree_used_count_P : forall s, reachable s -> exists c, s = Ok c /\ forall p,
  pg_used (getp c p) = N.of_nat (live_count c p + tf_count c p + del_count c p + pend_count c p + hand_count c p).
Proof. intros s H. destruct (reachable_Inv s H) as [c [-> I]]. exists c. split; [reflexivity|apply Inv_used_count; assumption]. Qed.

(* ---- C02: flag DELAYED_FREEING <-> exactly one thread between its first successful CAS and its last ---- *)
Lemma two_windows c p t1 t2 : wf c -> t1 <> t2 ->
  (sum_fr (win_fr p) (th_stk (gett c t1)) + sum_fr (win_fr p) (th_stk (gett c t2)) <= mWin c p)%nat.
Proof.
  intros Hwf Hne. pose proof (mWin_sett c Hwf t1 th0 p) as E. cbn [th_stk th0 sum_fr] in E.
  pose proof (mWin_ge (sett c t1 th0) t2 p) as G. rewrite gett_sett in G.
  assert ((t2 =? t1) = false) by (apply N.eqb_neq; congruence). rewrite H in G. lia.
Qed.
Lemma Inv_freeing_exclusive c : Inv c -> forall p,
  (pg_flag (getp c p) = Freeing ->
     exists t, in_window c t p = true /\ sum_fr (win_fr p) (th_stk (gett c t)) = 1%nat
               /\ forall t', in_window c t' p = true -> t' = t)
  /\ (forall t, in_window c t p = true -> pg_flag (getp c p) = Freeing).
Proof.
  intros I p. pose proof (i_wf _ I) as Hwf. pose proof (b_win _ (i_B _ I) p) as W. split.
  - intros F. rewrite F in W. cbn in W. destruct (mWin_pos_ex c Hwf p) as [t Ht]; [lia|].
    exists t. unfold in_window. pose proof (mWin_ge c t p) as G. split; [apply Nat.leb_le; assumption|]. split; [lia|].
    intros t' Ht'. apply Nat.leb_le in Ht'. destruct (N.eq_dec t' t) as [->|Hne]; [reflexivity|].
    pose proof (two_windows c p t' t Hwf Hne). lia.
  - intros t Ht. apply Nat.leb_le in Ht. apply (in_window_flag c t p I Ht).
Qed.
Theorem tfree_freeing_exclusive_P : forall s, reachable s -> exists c, s = Ok c /\ forall p,
  (pg_flag (getp c p) = Freeing ->
     exists t, in_window c t p = true /\ sum_fr (win_fr p) (th_stk (gett c t)) = 1%nat
               /\ forall t', in_window c t' p = true -> t' = t)
  /\ (forall t, in_window c t p = true -> pg_flag (getp c p) = Freeing).
Proof. intros s H. destruct (reachable_Inv s H) as [c [-> I]]. exists c. split; [reflexivity|apply Inv_freeing_exclusive; assumption]. Qed.

(* ---- C02: no double hand-out ---- *)
Lemma two_threads_W c P t1 t2 : wf c -> t1 <> t2 -> (th_W P (gett c t1) + th_W P (gett c t2) <= mW c P)%nat.
Proof.
  intros Hwf Hne. pose proof (mW_sett c Hwf t1 th0 P) as E. rewrite th_W_th0 in E.
  pose proof (mW_ge_th (sett c t1 th0) t2 P) as G. rewrite gett_sett in G.
  assert ((t2 =? t1) = false) by (apply N.eqb_neq; congruence). rewrite H in G. lia.
Qed.
Lemma held_unique c b t u : Inv c -> In b (th_held (gett c t)) -> In b (th_held (gett c u)) -> u = t.
Proof.
  intros I H1 H2. destruct (N.eq_dec u t) as [->|Hne]; [reflexivity|]. exfalso.
  pose proof (two_threads_W c (bid_eqb b) u t (i_wf _ I) Hne) as G. unfold th_W in G.
  apply cnt_In in H1. apply cnt_In in H2. pose proof (a_uniq _ (i_A _ I) b). lia.
Qed.
Lemma frame_not_held c b t u : Inv c -> In b (stk_blocks (th_stk (gett c t))) -> In b (th_held (gett c u)) -> False.
Proof.
  intros I H1 H2. apply cnt_In in H1. apply cnt_In in H2. pose proof (a_uniq _ (i_A _ I) b).
  destruct (N.eq_dec u t) as [->|Hne].
  - pose proof (mW_ge_th c t (bid_eqb b)) as G. unfold th_W in G. lia.
  - pose proof (two_threads_W c (bid_eqb b) u t (i_wf _ I) Hne) as G. unfold th_W in G. lia.
Qed.
Lemma free_not_held c b p u : Inv c -> In b (pg_free (getp c p) ++ pg_lfree (getp c p)) -> In b (th_held (gett c u)) -> False.
Proof.
  intros I H1 H2. apply cnt_In in H1. apply cnt_In in H2. rewrite cnt_app in H1.
  pose proof (a_uniq _ (i_A _ I) b). pose proof (mF_ge c p (bid_eqb b)).
  pose proof (mW_ge_th c u (bid_eqb b)) as G. unfold th_W in G. lia.
Qed.

(* an owner malloc returns the head of the page's free list: a block that is in nobody's hands;
   afterwards its only place is the program of the allocating thread *)
Theorem pop_fresh_block c t p c' ev : Inv c -> cstep c t (COp (OpPop p)) = ROk c' ev ->
  exists b, hdo (pg_free (getp c p)) = Some b /\ own (getp c p) t = true
            /\ th_held (gett c' t) = b :: th_held (gett c t)
            /\ mW c (bid_eqb b) = 0%nat /\ (forall u, ~ In b (th_held (gett c u)))
            /\ mW c' (bid_eqb b) = 1%nat /\ mF c' (bid_eqb b) = 0%nat.
Proof.
  intros I H. pose proof (cstep_good c t (COp (OpPop p)) I) as G. rewrite H in G. cbn [good] in G.
  unfold cstep in H. destruct (th_stk (gett c t)) eqn:E; [|discriminate]. cbn [start] in H.
  destruct (own (getp c p) t) eqn:Eo; cbn [negb orb] in H; [|discriminate].
  destruct (pg_full (getp c p)); [discriminate|].
  destruct (pg_free (getp c p)) as [|b r] eqn:Ef; [discriminate|]. inversion H; subst c' ev. clear H.
  exists b. split; [reflexivity|]. split; [reflexivity|].
  assert (HF : (1 <= mF c (bid_eqb b))%nat).
  { pose proof (mF_ge c p (bid_eqb b)) as F. rewrite Ef, cnt_cons, bid_eqb_refl in F. lia. }
  pose proof (a_uniq _ (i_A _ I) b) as U.
  assert (Hh : th_held (gett (sett (setp c p (pg_set_lists (getp c p) r (pg_lfree (getp c p)) (inc16 (pg_used (getp c p))))) t
                               (th_set_held (gett c t) [] (b :: th_held (gett c t)))) t) = b :: th_held (gett c t)).
  { rewrite gett_sett, N.eqb_refl. reflexivity. }
  split; [exact Hh|]. split; [lia|]. split.
  - intros u Hu. pose proof (held_W c u b Hu). lia.
  - pose proof (a_uniq _ (i_A _ G) b) as U'.
    match goal with |- mW ?c' _ = _ /\ _ => pose proof (held_W c' t b) as W' end.
    rewrite Hh in W'. specialize (W' (or_introl eq_refl)). lia.
Qed.

Lemma lasto_In b l : In b (lasto l) -> In b l.
Proof.
  unfold lasto. destruct (rev l) eqn:E; [intros []|]. intros [<-|[]]. apply in_rev. rewrite E. left. reflexivity.
Qed.

(* no transition writes into a block that a program holds -- except mi_free(b) itself, which starts with
   the program handing b to the allocator *)
Theorem no_write_to_held c t ch c' ev : Inv c -> cstep c t ch = ROk c' ev ->
  forall b, In b (step_writes c t ch) -> forall u, In b (th_held (gett c u)) ->
  exists k, ch = COp (OpFree b k) /\ u = t.
Proof.
  intros I H b Hw u Hu. unfold step_writes in Hw. unfold cstep in H.
  destruct (th_stk (gett c t)) as [|fr rest] eqn:E.
  - destruct ch as [| |o]; try contradiction. destruct o; try contradiction; cbn [start] in H.
    + (* OpFresh *) exfalso. destruct (pg_alive (getp c p)) eqn:Ea; cbn [orb] in H; [discriminate|].
      apply mkblocks_In in Hw as [Hp _]. destruct (a_range _ (i_A _ I) b) as [R _]; [pose proof (held_W c u b Hu); lia|].
      rewrite Hp in R. congruence.
    + (* OpExtend *) exfalso. apply mkblocks_In in Hw as [Hp Hi].
      destruct (a_range _ (i_A _ I) b) as [_ R]; [pose proof (held_W c u b Hu); lia|]. rewrite Hp in R. lia.
    + (* OpFree *) destruct (mem_bid b0 (th_held (gett c t))) eqn:Em; cbn [negb] in H; [|discriminate].
      apply mem_bid_In in Em. destruct (pg_tid (getp c (fst b0)) =? t); [|contradiction].
      destruct Hw as [<-|[]]. exists keep. split; [reflexivity|]. apply (held_unique c b0 t u I Em Hu).
  - exfalso.
    assert (Hfr : In b (fr_blocks fr) -> False).
    { intros Hb. apply (frame_not_held c b t u I); [|assumption]. rewrite E, stk_blocks_cons. apply in_or_app. left. assumption. }
    destruct fr; try contradiction;
      try (destruct (flag_eqb f UseD); [contradiction|]; apply Hfr; exact Hw);
      try (apply Hfr; cbn; apply lasto_In; exact Hw);
      try (apply Hfr; cbn; destruct Hw as [<-|[]]; left; reflexivity).
    destruct force; [|contradiction]. destruct (pg_free (getp c p)); [contradiction|].
    apply lasto_In in Hw. apply (free_not_held c b p u I); [apply in_or_app; right; assumption|assumption].
Qed.

(* ---- C08: the invariant documented in types.h:313-319 ---- *)
(* some block of page p is on a heap's delayed list, or in the owner's pending list (not yet re-armed) *)
Definition delayed_or_pending (c : cfg) (p : N) : Prop :=
  exists b, fst b = p /\ ((exists h, In b (hp_del (geth c h)) /\ hp_alive (geth c h) = true)
                          \/ (exists t, In b (d1_stk (th_ret (gett c t)) (th_stk (gett c t))))).

Lemma mD_pos_ex c p : Inv c -> (1 <= mD c (onp p))%nat -> delayed_or_pending c p.
Proof.
  intros I H. pose proof (i_wf _ I) as Hwf. pose proof (wf_parts c Hwf) as (H1 & _ & H3). unfold mD in H.
  destruct (Nat.eq_dec (ftot (fun th => cnt (onp p) (d1_stk (th_ret th) (th_stk th))) (c_th c)) 0) as [Z|Z].
  - destruct (ftot_pos_ex hp0 (fun hp => cnt (onp p) (hp_del hp)) (c_hp c) H3 eq_refl) as [h Hh]; [lia|].
    fold (geth c h) in Hh. destruct (cnt_pos_ex _ _ Hh) as [b [Hb1 Hb2]]. exists b. unfold onp in Hb2. apply N.eqb_eq in Hb2.
    split; [assumption|]. left. exists h. split; [assumption|].
    destruct (hp_alive (geth c h)) eqn:Ea; [reflexivity|]. rewrite (s_hdead _ (i_S _ I) h Ea) in Hb1. destruct Hb1.
  - destruct (ftot_pos_ex th0 (fun th => cnt (onp p) (d1_stk (th_ret th) (th_stk th))) (c_th c) H1 eq_refl) as [t Ht]; [lia|].
    fold (gett c t) in Ht. destruct (cnt_pos_ex _ _ Ht) as [b [Hb1 Hb2]]. exists b. unfold onp in Hb2. apply N.eqb_eq in Hb2.
    split; [assumption|]. right. exists t. assumption.
Qed.

Theorem no_delayed_flag_inv_P : forall s, reachable s -> exists c, s = Ok c /\ forall p,
  (pg_flag (getp c p) = NoD -> delayed_or_pending c p)
  /\ (forall t, (1 <= sum_fr (pw_fr p) (th_stk (gett c t)))%nat -> delayed_or_pending c p).
Proof.
  intros s H. destruct (reachable_Inv s H) as [c [-> I]]. exists c. split; [reflexivity|]. intros p. split.
  - intros F. apply (mD_pos_ex c p I). apply (b_nd _ (i_B _ I)). left. assumption.
  - intros t Ht. apply (mD_pos_ex c p I). apply (b_nd _ (i_B _ I)). right. pose proof (mPw_ge c t p). lia.
Qed.

(* ---- C10 (concurrent): nobody touches a heap that has been freed ---- *)
(* the heaps a frame is about to access (thread_delayed_free / keys) *)
Definition fr_heap (f : frame) : list N :=
  match f with
  | RF4 _ h | RF5 _ h _ | DP1 h | DP2 h _ | DP3 h _ _ | DP4 h _ _ _ | DP5 h _ _ _ | DP6 h _ _ _ | DA h
  | HC2 h _ | HC3 h _ _ | HC4 h _ _ _ | HD2 h _ | HD3 h _ _ | HD4 h => [h]
  | _ => []
  end.
Lemma Inv_frame_heap_alive c t f h : Inv c -> In f (th_stk (gett c t)) -> In h (fr_heap f) -> hp_alive (geth c h) = true.
Proof.
  intros I Hf Hh. pose proof (s_frames _ (i_S _ I) t) as F. rewrite forallb_forall in F. specialize (F f Hf).
  destruct f; cbn [fr_heap In] in Hh; try contradiction; destruct Hh as [<-|[]]; cbn [fr_ok] in F;
    rewrite ?andb_true_iff in F; repeat match goal with H : _ /\ _ |- _ => destruct H end;
    match goal with H : hown _ _ = true |- _ => apply hown_true in H as [H _]; exact H end.
Qed.
Theorem absorb_no_dangling_heap_P : forall s, reachable s ->
  (forall t ch, tstep s t ch <> Some (Err E_DEAD_HEAP))
  /\ exists c, s = Ok c /\ forall t f h, In f (th_stk (gett c t)) -> In h (fr_heap f) -> hp_alive (geth c h) = true.
Proof.
  intros s H. split; [intros t ch; apply tfree_no_error_step; assumption|].
  destruct (reachable_Inv s H) as [c [-> I]]. exists c. split; [reflexivity|]. intros t f h. apply Inv_frame_heap_alive. assumption.
Qed.

(* ---- C08: a delayed block of a page in the full queue returns the page to its size queue ---- *)
Theorem unfull_on_delayed_P c t h b r af rest ch c' ev : Inv c ->
  th_stk (gett c t) = DP6 h b r af :: rest -> cstep c t ch = ROk c' ev ->
  pg_full (getp c' (fst b)) = false \/ (exists rest', th_stk (gett c' t) = PF (fst b) :: rest').
Proof.
  intros I E H. unfold cstep in H. rewrite E in H.
  assert (Hs : exists alt, fstep c t (gett c t) (DP6 h b r af) rest alt = ROk c' ev) by (destruct ch; [eauto|eauto|discriminate]).
  clear H. destruct Hs as [alt H]. cbn [fstep] in H. unfold free_local in H.
  destruct (own (getp c (fst b)) t); cbn [negb] in H; [|discriminate].
  destruct (sub16 (pg_used (getp c (fst b))) 1 =? 0).
  - destruct (alt && negb (pg_full (getp c (fst b)))) eqn:Ea; unfold ok_s, ok_t in H; inversion H; subst c' ev.
    + left. rewrite getp_sett, getp_setp, N.eqb_refl. cbn. apply andb_prop in Ea as [_ Ea]. apply negb_true_iff in Ea. exact Ea.
    + right. rewrite gett_sett, N.eqb_refl. cbn. eauto.
  - destruct (pg_full (getp c (fst b))) eqn:Ef; unfold ok_s, ok_t in H; inversion H; subst c' ev; left;
      rewrite getp_sett, getp_setp, N.eqb_refl; cbn; [reflexivity|exact Ef].
Qed.

Theorem C02_no_double_handout_P : forall s, reachable s -> exists c, s = Ok c /\
  (forall t p c' ev, cstep c t (COp (OpPop p)) = ROk c' ev ->
     exists b, hdo (pg_free (getp c p)) = Some b /\ own (getp c p) t = true
               /\ th_held (gett c' t) = b :: th_held (gett c t)
               /\ mW c (bid_eqb b) = 0%nat /\ (forall u, ~ In b (th_held (gett c u)))
               /\ mW c' (bid_eqb b) = 1%nat /\ mF c' (bid_eqb b) = 0%nat)
  /\ (forall b t u, In b (th_held (gett c t)) -> In b (th_held (gett c u)) -> u = t)
  /\ (forall t ch c' ev, cstep c t ch = ROk c' ev -> forall b, In b (step_writes c t ch) ->
        forall u, In b (th_held (gett c u)) -> exists k, ch = COp (OpFree b k) /\ u = t).
Proof.
  intros s H. destruct (reachable_Inv s H) as [c [-> I]]. exists c. split; [reflexivity|]. split; [|split].
  - intros t p c' ev. exact (pop_fresh_block c t p c' ev I).
  - intros b t u. exact (held_unique c b t u I).
  - intros t ch c' ev. exact (no_write_to_held c t ch c' ev I).
Qed.
