(* Solo runs of one thread while all other threads are idle: the quiescent forced collect (C08). *)
From Coq Require Import NArith List Bool Lia Arith.
From MiV Require Import Model.TFree Proofs.TFreeBase Proofs.TFreeInv Proofs.TFreeGen Proofs.TFreeTop Proofs.TFreeStep
  Proofs.TFreeStep2 Proofs.TFreeStep3 Proofs.TFreeKill Proofs.TFreeStep4 Proofs.TFreeStep5 Proofs.TFreeProofs.
Import ListNotations.
Local Open Scope N_scope.

(* thread t runs alone with the default choice (no spurious failures) *)
Inductive sreach (t : N) : cfg -> cfg -> Prop :=
  | sr_refl c : sreach t c c
  | sr_step c c1 c2 ev : cstep c t CGo = ROk c1 ev -> sreach t c1 c2 -> sreach t c c2.

Lemma sreach_trans t c1 c2 c3 : sreach t c1 c2 -> sreach t c2 c3 -> sreach t c1 c3.
Proof. induction 1; [auto|]. intros H2. eapply sr_step; [eassumption|auto]. Qed.
Lemma sreach_one t c c1 ev : cstep c t CGo = ROk c1 ev -> sreach t c c1.
Proof. intros H. eapply sr_step; [eassumption|apply sr_refl]. Qed.
Lemma sreach_Inv t c c' : sreach t c c' -> Inv c -> Inv c'.
Proof.
  induction 1; [auto|]. intros I. apply IHsreach. pose proof (cstep_good c t CGo I) as G. rewrite H in G. exact G.
Qed.
Lemma sreach_solo t c c' : sreach t c c' -> th_stk (gett c' t) = [] -> exists n, solo n c t = Some c'.
Proof.
  induction 1 as [c|c c1 c2 ev H Hr IH]; intros Hidle.
  - exists 0%nat. cbn. rewrite Hidle. reflexivity.
  - destruct (IH Hidle) as [n Hn]. exists (S n). cbn [solo].
    destruct (th_stk (gett c t)) eqn:E; [unfold cstep in H; rewrite E in H; discriminate|]. rewrite H. exact Hn.
Qed.

(* what a solo run of t leaves alone *)
Record keep (t : N) (c c' : cfg) : Prop := mkKeep {
  k_oth  : forall u, u <> t -> gett c' u = gett c u;
  k_held : th_held (gett c' t) = th_held (gett c t);
  k_bk   : th_backing (gett c' t) = th_backing (gett c t);
  k_hp   : forall h, hview (geth c' h) = hview (geth c h);
  k_pg   : forall q, pg_alive (getp c' q) = true ->
                     pg_alive (getp c q) = true /\ pg_heap (getp c' q) = pg_heap (getp c q) /\ pg_tid (getp c' q) = pg_tid (getp c q);
  k_tf   : forall q, pg_tf (getp c q) = [] -> pg_tf (getp c' q) = [];
  k_nf   : (forall q, pg_flag (getp c q) <> Freeing) -> forall q, pg_flag (getp c' q) <> Freeing
}.
Lemma keep_refl t c : keep t c c.
Proof. constructor; auto. Qed.
Lemma keep_trans t c1 c2 c3 : keep t c1 c2 -> keep t c2 c3 -> keep t c1 c3.
Proof.
  intros A B. constructor.
  - intros u Hu. rewrite (k_oth _ _ _ B u Hu). apply (k_oth _ _ _ A u Hu).
  - rewrite (k_held _ _ _ B). apply (k_held _ _ _ A).
  - rewrite (k_bk _ _ _ B). apply (k_bk _ _ _ A).
  - intros h. rewrite (k_hp _ _ _ B). apply (k_hp _ _ _ A).
  - intros q Hq. destruct (k_pg _ _ _ B q Hq) as (B1 & B2 & B3). destruct (k_pg _ _ _ A q B1) as (A1 & A2 & A3).
    split; [assumption|]. split; congruence.
  - intros q Hq. apply (k_tf _ _ _ B). apply (k_tf _ _ _ A). assumption.
  - intros Hn. apply (k_nf _ _ _ B). apply (k_nf _ _ _ A). assumption.
Qed.

Lemma word_eq_refl pg : word_eq (pg_flag pg) (hdo (pg_tf pg)) pg = true.
Proof.
  unfold word_eq. rewrite flag_eqb_refl. cbn [andb]. apply obid_eqb_eq. reflexivity.
Qed.

(* a stack-only step of t *)
Lemma keep_sett t c stk ret : keep t c (sett c t (th_set (gett c t) stk ret)).
Proof.
  constructor; intros; auto.
  - rewrite gett_sett. apply N.eqb_neq in H. rewrite H. reflexivity.
  - rewrite gett_sett, N.eqb_refl. reflexivity.
  - rewrite gett_sett, N.eqb_refl. reflexivity.
  - apply H.
Qed.
(* ... combined with an update of page p that keeps alive / heap / tid, does not extend tf, and does not set Freeing *)
Lemma keep_sett_setp t c p pg' stk ret :
  pg_alive pg' = pg_alive (getp c p) -> pg_heap pg' = pg_heap (getp c p) -> pg_tid pg' = pg_tid (getp c p) ->
  (pg_tf (getp c p) = [] -> pg_tf pg' = []) -> (pg_flag (getp c p) <> Freeing -> pg_flag pg' <> Freeing) ->
  keep t c (sett (setp c p pg') t (th_set (gett c t) stk ret)).
Proof.
  intros H1 H2 H3 H4 H5. constructor; intros; auto.
  - rewrite gett_sett. apply N.eqb_neq in H. rewrite H. reflexivity.
  - rewrite gett_sett, N.eqb_refl. reflexivity.
  - rewrite gett_sett, N.eqb_refl. reflexivity.
  - rewrite getp_sett, getp_setp in *. destruct (q =? p) eqn:Eq; [apply N.eqb_eq in Eq; subst q|auto].
    rewrite H2, H3. split; [congruence|auto].
  - rewrite getp_sett, getp_setp. destruct (q =? p) eqn:Eq; [apply N.eqb_eq in Eq; subst q|]; auto.
  - rewrite getp_sett, getp_setp. destruct (q =? p) eqn:Eq; [apply N.eqb_eq in Eq; subst q|]; auto.
Qed.

Lemma cstep_frame c t fr rest : th_stk (gett c t) = fr :: rest -> cstep c t CGo = fstep c t (gett c t) fr rest false.
Proof. intros E. unfold cstep. rewrite E. reflexivity. Qed.

Lemma stk_sett c t stk ret : th_stk (gett (sett c t (th_set (gett c t) stk ret)) t) = stk.
Proof. rewrite gett_sett, N.eqb_refl. reflexivity. Qed.
Lemma ret_sett c t stk ret : th_ret (gett (sett c t (th_set (gett c t) stk ret)) t) = ret.
Proof. rewrite gett_sett, N.eqb_refl. reflexivity. Qed.

(* _mi_page_try_use_delayed_free when nobody is in the DELAYED_FREEING window: succeeds *)
Lemma run_TU t c p d ovr spin yc rest :
  Inv c -> th_stk (gett c t) = TU1 p d ovr spin yc :: rest -> pg_flag (getp c p) <> Freeing ->
  exists c', sreach t c c' /\ th_stk (gett c' t) = rest /\ th_ret (gett c' t) = true /\ keep t c c'
             /\ (forall q, q <> p -> getp c' q = getp c q) /\ (forall h, geth c' h = geth c h)
             /\ (exists f', getp c' p = pg_set_word (getp c p) f' (pg_tf (getp c p))).
Proof.
  intros I E Hf.
  destruct (stack_facts c t _ _ I E) as (S1 & S2 & S3 & S4).
  destruct (tu_frame_facts c t p d _ S2) as (Hown & D1 & D2); [left; eauto|].
  pose proof (own_frame_alive _ _ _ Hown) as Hal.
  pose proof (cstep_frame c t _ _ E) as C1. cbn [fstep] in C1. rewrite Hal in C1. cbn [negb] in C1.
  apply flag_eqb_neq in Hf. rewrite Hf in C1.
  assert (Hpop : forall ev, cstep c t CGo = ok_t c t (gett c t) rest true ev ->
            exists c', sreach t c c' /\ th_stk (gett c' t) = rest /\ th_ret (gett c' t) = true /\ keep t c c'
             /\ (forall q, q <> p -> getp c' q = getp c q) /\ (forall h, geth c' h = geth c h)
             /\ (exists f', getp c' p = pg_set_word (getp c p) f' (pg_tf (getp c p)))).
  { intros ev C. unfold ok_t in C. eexists. split; [eapply sreach_one; exact C|].
    rewrite stk_sett, ret_sett. split; [reflexivity|]. split; [reflexivity|]. split; [apply keep_sett|].
    split; [intros; reflexivity|]. split; [intros; reflexivity|].
    exists (pg_flag (getp c p)). rewrite getp_sett. destruct (getp c p); reflexivity. }
  destruct (flag_eqb d (pg_flag (getp c p))); [eapply Hpop; exact C1|].
  destruct (negb ovr && flag_eqb (pg_flag (getp c p)) NeverD); [eapply Hpop; exact C1|].
  (* TU2 *)
  unfold ok_s, ok_t in C1.
  set (c1 := sett c t (th_set (gett c t) (TU2 p d ovr spin yc (pg_flag (getp c p)) (hdo (pg_tf (getp c p))) :: rest) (th_ret (gett c t)))) in *.
  assert (E1 : th_stk (gett c1 t) = TU2 p d ovr spin yc (pg_flag (getp c p)) (hdo (pg_tf (getp c p))) :: rest) by apply stk_sett.
  pose proof (cstep_frame c1 t _ _ E1) as C2. cbn [fstep] in C2. change (getp c1 p) with (getp c p) in C2.
  rewrite Hal, word_eq_refl in C2. cbn [negb orb] in C2. unfold ok_t in C2.
  eexists. split; [eapply sr_step; [exact C1|eapply sreach_one; exact C2]|].
  rewrite !gett_sett, !N.eqb_refl. cbn [th_stk th_ret th_set]. split; [reflexivity|]. split; [reflexivity|].
  split; [|split; [|split]].
  - eapply keep_trans; [apply keep_sett|]. fold c1. apply (keep_sett_setp t c1 p); cbn; auto.
  - intros q Hq. rewrite getp_sett, getp_setp. apply N.eqb_neq in Hq. rewrite Hq. reflexivity.
  - intros h. reflexivity.
  - exists d. rewrite getp_sett, getp_setp, N.eqb_refl. reflexivity.
Qed.

(* a pure page update of p by t (private part): what it keeps *)
Lemma keep_priv t c p pg' stk ret :
  pview pg' = pview (getp c p) -> pg_tf pg' = pg_tf (getp c p) -> pg_flag pg' = pg_flag (getp c p) ->
  keep t c (sett (setp c p pg') t (th_set (gett c t) stk ret)).
Proof.
  intros Hv Htf Hfl. apply pview_eq in Hv as (V1 & V2 & V3).
  apply keep_sett_setp; auto; intros; congruence.
Qed.

(* what the solo-run lemmas promise about the other pages and the heaps *)
Definition same_but (p : N) (c c' : cfg) : Prop :=
  (forall q, q <> p -> getp c' q = getp c q) /\ (forall h, geth c' h = geth c h).
Lemma same_but_refl p c : same_but p c c.
Proof. split; auto. Qed.
Lemma same_but_sett p c t th : same_but p c (sett c t th).
Proof. split; reflexivity. Qed.
Lemma same_but_trans p c1 c2 c3 : same_but p c1 c2 -> same_but p c2 c3 -> same_but p c1 c3.
Proof. intros [A1 A2] [B1 B2]. split; intros; [rewrite B1, A1|rewrite B2, A2]; auto. Qed.

(* _mi_page_thread_free_collect from the CAS on, then the local_free -> free move of _mi_page_free_collect *)
Lemma run_TC2 t c p force rest :
  Inv c -> th_stk (gett c t) = TC2 p (pg_flag (getp c p)) (hdo (pg_tf (getp c p))) :: FC2 p force :: rest ->
  exists c', sreach t c c' /\ th_stk (gett c' t) = rest /\ th_ret (gett c' t) = th_ret (gett c t) /\ keep t c c'
             /\ same_but p c c' /\ pg_tf (getp c' p) = [] /\ own (getp c' p) t = true.
Proof.
  intros I E.
  destruct (stack_facts c t _ _ I E) as (S1 & S2 & S3 & S4).
  assert (Hown : own (getp c p) t = true) by exact S2.
  pose proof (own_frame_alive _ _ _ Hown) as Hal.
  (* TC2 *)
  pose proof (cstep_frame c t _ _ E) as C1. cbn [fstep] in C1. rewrite Hal, word_eq_refl in C1. cbn [negb orb] in C1.
  unfold ok_s, ok_t in C1.
  set (pg1 := pg_set_word (getp c p) (pg_flag (getp c p)) []) in *.
  set (c1 := sett (setp c p pg1) t (th_set (gett c t) (TC3 p (pg_tf (getp c p)) :: FC2 p force :: rest) (th_ret (gett c t)))) in *.
  assert (I1 : Inv c1) by (pose proof (cstep_good c t CGo I) as G; rewrite C1 in G; exact G).
  assert (K1 : keep t c c1) by (apply keep_sett_setp; cbn; auto).
  assert (B1 : same_but p c c1).
  { split; [intros q Hq; unfold c1; rewrite getp_sett, getp_setp; apply N.eqb_neq in Hq; rewrite Hq; reflexivity|reflexivity]. }
  assert (E1 : th_stk (gett c1 t) = TC3 p (pg_tf (getp c p)) :: FC2 p force :: rest) by (unfold c1; rewrite gett_sett, N.eqb_refl; reflexivity).
  assert (G1 : getp c1 p = pg1) by (unfold c1; rewrite getp_sett, getp_setp, N.eqb_refl; reflexivity).
  assert (R1 : th_ret (gett c1 t) = th_ret (gett c t)) by (unfold c1; rewrite gett_sett, N.eqb_refl; reflexivity).
  (* TC3 *)
  assert (Hc2 : exists c2, sreach t c1 c2 /\ th_stk (gett c2 t) = FC2 p force :: rest /\ th_ret (gett c2 t) = th_ret (gett c t)
                           /\ keep t c1 c2 /\ same_but p c1 c2 /\ pg_tf (getp c2 p) = [] /\ own (getp c2 p) t = true).
  { pose proof (cstep_frame c1 t _ _ E1) as C2. cbn [fstep] in C2.
    destruct (pg_tf (getp c p)) as [|b0 tl0] eqn:Etf.
    - unfold ok_s, ok_t in C2. eexists. split; [eapply sreach_one; exact C2|]. rewrite !gett_sett, !N.eqb_refl; cbn [th_stk th_ret th_set].
      split; [reflexivity|]. split; [exact R1|]. split; [apply keep_sett|]. split; [apply same_but_sett|].
      rewrite getp_sett, G1. split; [reflexivity|exact Hown].
    - pose proof (cstep_good c1 t CGo I1) as G. rewrite C2 in G. rewrite G1 in *.
      change (own pg1 t) with (own (getp c p) t) in *. rewrite Hown in *. cbn [negb] in *.
      destruct (pg_cap pg1 <? lenN (b0 :: tl0)); [contradiction|]. unfold ok_s, ok_t in C2.
      eexists. split; [eapply sreach_one; exact C2|]. rewrite !gett_sett, !N.eqb_refl; cbn [th_stk th_ret th_set].
      split; [reflexivity|]. split; [exact R1|]. split; [apply keep_priv; rewrite G1; reflexivity|].
      split; [split; [intros q Hq; rewrite getp_sett, getp_setp; apply N.eqb_neq in Hq; rewrite Hq; reflexivity|reflexivity]|].
      rewrite getp_sett, getp_setp, N.eqb_refl. split; [reflexivity|exact Hown]. }
  destruct Hc2 as (c2 & R2 & E2 & Rt2 & K2 & B2 & T2 & O2).
  assert (I2 : Inv c2) by (apply (sreach_Inv t c1); assumption).
  (* FC2 *)
  pose proof (cstep_frame c2 t _ _ E2) as C3. cbn [fstep] in C3. rewrite O2 in C3. cbn [negb] in C3.
  assert (Hc3 : exists c3, cstep c2 t CGo = ROk c3 None /\ th_stk (gett c3 t) = rest /\ th_ret (gett c3 t) = th_ret (gett c2 t)
                           /\ keep t c2 c3 /\ same_but p c2 c3 /\ pg_tf (getp c3 p) = pg_tf (getp c2 p) /\ own (getp c3 p) t = true).
  { assert (Hpop : exists c3, ok_s c2 t (gett c2 t) rest None = ROk c3 None /\ th_stk (gett c3 t) = rest /\ th_ret (gett c3 t) = th_ret (gett c2 t)
                           /\ keep t c2 c3 /\ same_but p c2 c3 /\ pg_tf (getp c3 p) = pg_tf (getp c2 p) /\ own (getp c3 p) t = true).
    { unfold ok_s, ok_t. eexists. split; [reflexivity|]. rewrite !gett_sett, !N.eqb_refl; cbn [th_stk th_ret th_set].
      split; [reflexivity|]. split; [reflexivity|]. split; [apply keep_sett|]. split; [apply same_but_sett|]. auto. }
    assert (Hmv : forall fr', exists c3, ok_s (setp c2 p (pg_set_lists (getp c2 p) fr' [] (pg_used (getp c2 p)))) t (gett c2 t) rest None = ROk c3 None
                           /\ th_stk (gett c3 t) = rest /\ th_ret (gett c3 t) = th_ret (gett c2 t)
                           /\ keep t c2 c3 /\ same_but p c2 c3 /\ pg_tf (getp c3 p) = pg_tf (getp c2 p) /\ own (getp c3 p) t = true).
    { intros fr'. unfold ok_s, ok_t. eexists. split; [reflexivity|]. rewrite !gett_sett, !N.eqb_refl; cbn [th_stk th_ret th_set].
      split; [reflexivity|]. split; [reflexivity|]. split; [apply keep_priv; reflexivity|].
      split; [split; [intros q Hq; rewrite getp_sett, getp_setp; apply N.eqb_neq in Hq; rewrite Hq; reflexivity|reflexivity]|].
      rewrite getp_sett, getp_setp, N.eqb_refl. split; [reflexivity|exact O2]. }
    destruct (pg_lfree (getp c2 p)) as [|l0 lf0]; [rewrite C3; exact Hpop|].
    destruct (pg_free (getp c2 p)) as [|f0 fr0]; [rewrite C3; apply Hmv|].
    destruct force; rewrite C3; [apply Hmv|exact Hpop]. }
  destruct Hc3 as (c3 & C3' & E3 & Rt3 & K3 & B3 & T3 & O3).
  exists c3. split; [eapply sr_step; [exact C1|]; eapply sreach_trans; [exact R2|eapply sreach_one; exact C3']|].
  split; [exact E3|]. split; [congruence|].
  split; [eapply keep_trans; [exact K1|eapply keep_trans; [exact K2|exact K3]]|].
  split; [eapply same_but_trans; [exact B1|eapply same_but_trans; [exact B2|exact B3]]|].
  split; [congruence|exact O3].
Qed.

(* _mi_page_free_collect(p, force) run alone: afterwards the thread list of p is empty *)
Lemma run_FC t c p force rest :
  Inv c -> th_stk (gett c t) = FC1 p force :: rest ->
  exists c', sreach t c c' /\ th_stk (gett c' t) = rest /\ th_ret (gett c' t) = th_ret (gett c t) /\ keep t c c'
             /\ same_but p c c' /\ pg_tf (getp c' p) = [] /\ own (getp c' p) t = true.
Proof.
  intros I E.
  destruct (stack_facts c t _ _ I E) as (S1 & S2 & S3 & S4).
  assert (Hown : own (getp c p) t = true) by exact S2.
  pose proof (own_frame_alive _ _ _ Hown) as Hal.
  pose proof (cstep_frame c t _ _ E) as C1. cbn [fstep] in C1. rewrite Hal in C1. cbn [negb] in C1.
  (* the continuation from TC2 *)
  assert (Htc2 : forall c1, Inv c1 -> sreach t c c1 -> keep t c c1 -> same_but p c c1 -> getp c1 p = getp c p ->
             th_ret (gett c1 t) = th_ret (gett c t) ->
             th_stk (gett c1 t) = TC2 p (pg_flag (getp c p)) (hdo (pg_tf (getp c p))) :: FC2 p force :: rest ->
             exists c', sreach t c c' /\ th_stk (gett c' t) = rest /\ th_ret (gett c' t) = th_ret (gett c t) /\ keep t c c'
               /\ same_but p c c' /\ pg_tf (getp c' p) = [] /\ own (getp c' p) t = true).
  { intros c1 I1 R1 K1 B1 G1 Rt1 E1. rewrite <- G1 in E1.
    destruct (run_TC2 t c1 p force rest I1 E1) as (c' & R & E' & Rt & K & B & T & O).
    exists c'. split; [eapply sreach_trans; eassumption|]. split; [exact E'|]. split; [congruence|].
    split; [eapply keep_trans; eassumption|]. split; [eapply same_but_trans; eassumption|]. auto. }
  destruct force.
  - unfold ok_s, ok_t in C1. eapply Htc2; [|eapply sreach_one; exact C1|apply keep_sett|apply same_but_sett|reflexivity| |].
    + pose proof (cstep_good c t CGo I) as G. rewrite C1 in G. exact G.
    + rewrite gett_sett, N.eqb_refl. reflexivity.
    + rewrite gett_sett, N.eqb_refl. reflexivity.
  - destruct (pg_tf (getp c p)) as [|b0 tl0] eqn:Etf; cbn [isnil] in C1; unfold ok_s, ok_t in C1.
    + (* nothing to collect: FC2 only *)
      set (c1 := sett c t (th_set (gett c t) (FC2 p false :: rest) (th_ret (gett c t)))) in *.
      assert (I1 : Inv c1) by (pose proof (cstep_good c t CGo I) as G; rewrite C1 in G; exact G).
      assert (E1 : th_stk (gett c1 t) = FC2 p false :: rest) by (unfold c1; rewrite gett_sett, N.eqb_refl; reflexivity).
      pose proof (cstep_frame c1 t _ _ E1) as C2. cbn [fstep] in C2. change (getp c1 p) with (getp c p) in C2.
      rewrite Hown in C2. cbn [negb] in C2.
      assert (Hc2 : exists c2, cstep c1 t CGo = ROk c2 None /\ th_stk (gett c2 t) = rest /\ th_ret (gett c2 t) = th_ret (gett c t)
                               /\ keep t c1 c2 /\ same_but p c1 c2 /\ pg_tf (getp c2 p) = [] /\ own (getp c2 p) t = true).
      { assert (Hpop : exists c2, ok_s c1 t (gett c1 t) rest None = ROk c2 None /\ th_stk (gett c2 t) = rest /\ th_ret (gett c2 t) = th_ret (gett c t)
                               /\ keep t c1 c2 /\ same_but p c1 c2 /\ pg_tf (getp c2 p) = [] /\ own (getp c2 p) t = true).
        { unfold ok_s, ok_t. eexists. split; [reflexivity|]. rewrite !gett_sett, !N.eqb_refl; cbn [th_stk th_ret th_set].
          split; [reflexivity|]. split; [unfold c1; rewrite gett_sett, N.eqb_refl; reflexivity|]. split; [apply keep_sett|].
          split; [apply same_but_sett|]. rewrite getp_sett. change (getp c1 p) with (getp c p). auto. }
        assert (Hmv : forall fr', exists c2, ok_s (setp c1 p (pg_set_lists (getp c p) fr' [] (pg_used (getp c p)))) t (gett c1 t) rest None = ROk c2 None
                               /\ th_stk (gett c2 t) = rest /\ th_ret (gett c2 t) = th_ret (gett c t)
                               /\ keep t c1 c2 /\ same_but p c1 c2 /\ pg_tf (getp c2 p) = [] /\ own (getp c2 p) t = true).
        { intros fr'. unfold ok_s, ok_t. eexists. split; [reflexivity|]. rewrite !gett_sett, !N.eqb_refl; cbn [th_stk th_ret th_set].
          split; [reflexivity|]. split; [unfold c1; rewrite gett_sett, N.eqb_refl; reflexivity|].
          split; [apply keep_priv; reflexivity|].
          split; [split; [intros q Hq; rewrite getp_sett, getp_setp; apply N.eqb_neq in Hq; rewrite Hq; reflexivity|reflexivity]|].
          rewrite getp_sett, getp_setp, N.eqb_refl. split; [exact Etf|exact Hown]. }
        destruct (pg_lfree (getp c p)) as [|l0 lf0]; [rewrite C2; exact Hpop|].
        destruct (pg_free (getp c p)) as [|f0 fr0]; [rewrite C2; apply Hmv|]. rewrite C2. exact Hpop. }
      destruct Hc2 as (c2 & C2' & E2 & Rt2 & K2 & B2 & T2 & O2).
      exists c2. split; [eapply sr_step; [exact C1|eapply sreach_one; exact C2']|]. split; [exact E2|]. split; [exact Rt2|].
      split; [eapply keep_trans; [apply keep_sett|exact K2]|]. split; [eapply same_but_trans; [apply same_but_sett|exact B2]|]. auto.
    + (* TC1 first *)
      set (c1 := sett c t (th_set (gett c t) (TC1 p :: FC2 p false :: rest) (th_ret (gett c t)))) in *.
      assert (I1 : Inv c1) by (pose proof (cstep_good c t CGo I) as G; rewrite C1 in G; exact G).
      assert (E1 : th_stk (gett c1 t) = TC1 p :: FC2 p false :: rest) by (unfold c1; rewrite gett_sett, N.eqb_refl; reflexivity).
      pose proof (cstep_frame c1 t _ _ E1) as C2. cbn [fstep] in C2. change (getp c1 p) with (getp c p) in C2.
      rewrite Hal in C2. cbn [negb] in C2. unfold ok_s, ok_t in C2.
      eapply Htc2; [|eapply sr_step; [exact C1|eapply sreach_one; exact C2]| | |reflexivity| |].
      * pose proof (cstep_good c1 t CGo I1) as G. rewrite C2 in G. exact G.
      * eapply keep_trans; [apply keep_sett|]. fold c1. apply keep_sett.
      * eapply same_but_trans; [apply same_but_sett|]. fold c1. apply same_but_sett.
      * rewrite gett_sett, N.eqb_refl. cbn [th_ret th_set]. unfold c1. rewrite gett_sett, N.eqb_refl. reflexivity.
      * rewrite gett_sett, N.eqb_refl. cbn [th_stk th_set]. rewrite ?Etf. reflexivity.
Qed.

Definition noF (c : cfg) : Prop := forall q, pg_flag (getp c q) <> Freeing.

(* no step of a frame puts a page into the full queue (only the operation OpToFull does): a page that is not in the
   full queue (or has been freed: pg0) stays out of it during any run of frames *)
Ltac full_step H :=
  repeat match type of H with
         | context [if ?b then _ else _] => destruct b eqn:?
         | context [match ?x with _ => _ end] => destruct x eqn:?
         end;
  try discriminate H; unfold ok_s, ok_t in H; inversion H; subst; clear H.
Lemma cstep_go_full c t c' ev : cstep c t CGo = ROk c' ev ->
  forall q, pg_full (getp c q) = false -> pg_full (getp c' q) = false.
Proof.
  intros H q Hq. unfold cstep in H. destruct (th_stk (gett c t)) as [|fr rest]; [discriminate|].
  destruct fr; cbn [fstep] in H; unfold free_local in H; full_step H;
    rewrite ?getp_sett, ?getp_setp, ?getp_seth, ?getp_sett;
    try exact Hq;
    match goal with
    | |- context [q =? ?x] => destruct (q =? x) eqn:Eq; [apply N.eqb_eq in Eq; subst q|exact Hq]
    end; cbn; try exact Hq; try reflexivity.
Qed.

Lemma sreach_full t c c' : sreach t c c' -> forall q, pg_full (getp c q) = false -> pg_full (getp c' q) = false.
Proof. induction 1; [auto|]. intros q Hq. apply IHsreach. eapply cstep_go_full; eassumption. Qed.

(* _mi_page_free run alone *)
Lemma run_PF t c p rest :
  Inv c -> th_stk (gett c t) = PF p :: rest ->
  exists c', sreach t c c' /\ th_stk (gett c' t) = rest /\ th_ret (gett c' t) = th_ret (gett c t) /\ keep t c c'
             /\ same_but p c c' /\ pg_alive (getp c' p) = false.
Proof.
  intros I E.
  pose proof (cstep_frame c t _ _ E) as C1. cbn [fstep] in C1.
  pose proof (cstep_good c t CGo I) as G. rewrite C1 in G.
  destruct (own (getp c p) t) eqn:Eo; cbn [negb] in *; [|contradiction].
  destruct (pg_used (getp c p) =? 0); cbn [negb] in *; [|contradiction].
  destruct (flag_eqb (pg_flag (getp c p)) Freeing); [contradiction|].
  destruct (isnil (pg_tf (getp c p))) eqn:Et; cbn [negb] in *; [|contradiction].
  unfold ok_s, ok_t in C1. eexists. split; [eapply sreach_one; exact C1|].
  rewrite !gett_sett, !N.eqb_refl; cbn [th_stk th_ret th_set].
  split; [reflexivity|]. split; [reflexivity|]. split; [|split].
  - constructor; intros; auto.
    + rewrite gett_sett. apply N.eqb_neq in H. rewrite H. reflexivity.
    + rewrite gett_sett, N.eqb_refl. reflexivity.
    + rewrite gett_sett, N.eqb_refl. reflexivity.
    + rewrite getp_sett, getp_setp in *. destruct (q =? p); [discriminate|auto].
    + rewrite getp_sett, getp_setp. destruct (q =? p); [reflexivity|auto].
    + rewrite getp_sett, getp_setp. destruct (q =? p); [discriminate|auto].
  - split; [intros q Hq; rewrite getp_sett, getp_setp; apply N.eqb_neq in Hq; rewrite Hq; reflexivity|reflexivity].
  - rewrite getp_sett, getp_setp, N.eqb_refl. reflexivity.
Qed.

(* what the drain of the delayed list keeps: everything in `keep`, and all delayed lists *)
Definition keepd (t : N) (c c' : cfg) : Prop := keep t c c' /\ (forall h, geth c' h = geth c h).
Lemma keepd_trans t c1 c2 c3 : keepd t c1 c2 -> keepd t c2 c3 -> keepd t c1 c3.
Proof. intros [A1 A2] [B1 B2]. split; [eapply keep_trans; eassumption|intros h; rewrite B2, A2; reflexivity]. Qed.

(* one delayed block: _mi_free_delayed_block *)
Lemma run_block t c h b r af rest :
  Inv c -> noF c -> th_stk (gett c t) = DP3 h (b :: r) af :: rest ->
  exists c', sreach t c c' /\ th_stk (gett c' t) = DP3 h r af :: rest /\ keepd t c c'
             /\ pg_full (getp c' (fst b)) = false        (* the page is back in its size queue (or has been freed) *)
             /\ pg_tf (getp c' (fst b)) = [].            (* and its thread-free list has been collected *)
Proof.
  intros I HnF E. set (p := fst b).
  destruct (stack_facts c t _ _ I E) as (S1 & S2 & S3 & S4).
  pose proof (dp_frame_hown c t _ h S2 eq_refl) as Ho. destruct (hown_true _ _ Ho) as [Hal _].
  (* DP3: call try_use_delayed_free *)
  pose proof (cstep_frame c t _ _ E) as C1. cbn [fstep] in C1. rewrite Hal in C1. cbn [negb] in C1. unfold ok_s, ok_t in C1. fold p in C1.
  set (c1 := sett c t (th_set (gett c t) (TU1 p UseD false false 0 :: DP4 h b r af :: rest) (th_ret (gett c t)))) in *.
  assert (I1 : Inv c1) by (pose proof (cstep_good c t CGo I) as G; rewrite C1 in G; exact G).
  assert (E1 : th_stk (gett c1 t) = TU1 p UseD false false 0 :: DP4 h b r af :: rest) by (unfold c1; rewrite gett_sett, N.eqb_refl; reflexivity).
  destruct (run_TU t c1 p UseD false false 0 _ I1 E1 (HnF p)) as (c2 & R2 & E2 & Rt2 & K2 & B2 & H2 & _).
  assert (I2 : Inv c2) by (apply (sreach_Inv t c1); assumption).
  (* DP4 with ret = true: collect *)
  pose proof (cstep_frame c2 t _ _ E2) as C3. cbn [fstep] in C3. rewrite Rt2 in C3. unfold ok_s, ok_t in C3. fold p in C3.
  set (c3 := sett c2 t (th_set (gett c2 t) (FC1 p false :: DP6 h b r af :: rest) (th_ret (gett c2 t)))) in *.
  assert (I3 : Inv c3) by (pose proof (cstep_good c2 t CGo I2) as G; rewrite C3 in G; exact G).
  assert (E3 : th_stk (gett c3 t) = FC1 p false :: DP6 h b r af :: rest) by (unfold c3; rewrite gett_sett, N.eqb_refl; reflexivity).
  destruct (run_FC t c3 p false _ I3 E3) as (c4 & R4 & E4 & Rt4 & K4 & [B4 H4] & T4 & O4).
  assert (I4 : Inv c4) by (apply (sreach_Inv t c3); assumption).
  (* DP6: free the block locally *)
  pose proof (cstep_frame c4 t _ _ E4) as C5. cbn [fstep] in C5. unfold free_local in C5. fold p in C5. rewrite O4 in C5. cbn [negb] in C5.
  assert (K14 : keepd t c c4).
  { split.
    - eapply keep_trans; [apply keep_sett|]. fold c1. eapply keep_trans; [exact K2|].
      eapply keep_trans; [apply keep_sett|]. fold c3. exact K4.
    - intros h0. rewrite H4. unfold c3. rewrite geth_sett, H2. reflexivity. }
  assert (R14 : sreach t c c4).
  { eapply sr_step; [exact C1|]. eapply sreach_trans; [exact R2|]. eapply sr_step; [exact C3|exact R4]. }
  (* the outcomes of free_local *)
  assert (Hfin : forall pg' nf, pview pg' = pview (getp c4 p) -> pg_tf pg' = pg_tf (getp c4 p) -> pg_flag pg' = pg_flag (getp c4 p) ->
            ((nf = [] /\ pg_full pg' = false) \/ nf = [PF p]) ->
            cstep c4 t CGo = ok_s (setp c4 p pg') t (gett c4 t) (nf ++ DP3 h r af :: rest) None ->
            exists c', sreach t c c' /\ th_stk (gett c' t) = DP3 h r af :: rest /\ keepd t c c' /\ pg_full (getp c' p) = false
                       /\ pg_tf (getp c' p) = []).
  { intros pg' nf V1 V2 V3 Hnf C. unfold ok_s, ok_t in C.
    set (c5 := sett (setp c4 p pg') t (th_set (gett c4 t) (nf ++ DP3 h r af :: rest) (th_ret (gett c4 t)))) in *.
    assert (K5 : keepd t c4 c5) by (split; [apply keep_priv; assumption|reflexivity]).
    assert (E5 : th_stk (gett c5 t) = nf ++ DP3 h r af :: rest) by (unfold c5; rewrite gett_sett, N.eqb_refl; reflexivity).
    destruct Hnf as [[-> Hfull] | ->].
    - exists c5. split; [eapply sreach_trans; [exact R14|eapply sreach_one; exact C]|]. split; [exact E5|].
      split; [eapply keepd_trans; eassumption|]. unfold c5. rewrite getp_sett, getp_setp, N.eqb_refl. split; [exact Hfull|congruence].
    - assert (I5 : Inv c5) by (pose proof (cstep_good c4 t CGo I4) as G; rewrite C in G; exact G).
      destruct (run_PF t c5 p _ I5 E5) as (c6 & R6 & E6 & _ & K6 & [_ H6] & D6).
      exists c6. split; [eapply sreach_trans; [exact R14|eapply sr_step; [exact C|exact R6]]|]. split; [exact E6|].
      split; [eapply keepd_trans; [exact K14|]; eapply keepd_trans; [exact K5|]; split; assumption|].
      rewrite (s_dead _ (i_S _ (sreach_Inv t c5 c6 R6 I5)) p D6). split; reflexivity. }
  set (pg1 := pg_set_lists (getp c4 p) (pg_free (getp c4 p)) (b :: pg_lfree (getp c4 p)) (sub16 (pg_used (getp c4 p)) 1)) in *.
  destruct (sub16 (pg_used (getp c4 p)) 1 =? 0).
  - destruct (false && negb (pg_full (getp c4 p))) eqn:Ek; [discriminate|].
    apply (Hfin pg1 [PF p]); auto.
  - destruct (pg_full (getp c4 p)) eqn:Efull.
    + apply (Hfin (pg_set_full pg1 false) []); auto.
    + apply (Hfin pg1 []); auto.
Qed.

Lemma keepd_noF t c c' : keepd t c c' -> noF c -> noF c'.
Proof. intros [K _] H q. apply (k_nf _ _ _ K H q). Qed.

(* the loop of _mi_heap_delayed_free_partial over the taken-over list *)
Lemma run_DPloop t h af rest : forall pend c,
  Inv c -> noF c -> th_stk (gett c t) = DP3 h pend af :: rest ->
  exists c', sreach t c c' /\ th_stk (gett c' t) = rest /\ th_ret (gett c' t) = af /\ keepd t c c'
             /\ (forall b, In b pend -> pg_full (getp c' (fst b)) = false /\ pg_tf (getp c' (fst b)) = []).
Proof.
  induction pend as [|b r IH]; intros c I HnF E.
  - pose proof (cstep_frame c t _ _ E) as C1. cbn [fstep] in C1. unfold ok_t in C1.
    eexists. split; [eapply sreach_one; exact C1|]. rewrite !gett_sett, !N.eqb_refl; cbn [th_stk th_ret th_set].
    split; [reflexivity|]. split; [reflexivity|]. split; [split; [apply keep_sett|reflexivity]|intros b []].
  - destruct (run_block t c h b r af rest I HnF E) as (c1 & R1 & E1 & K1 & F1 & T1).
    destruct (IH c1 (sreach_Inv t c c1 R1 I) (keepd_noF t c c1 K1 HnF) E1) as (c2 & R2 & E2 & Rt2 & K2 & F2).
    exists c2. split; [eapply sreach_trans; eassumption|]. split; [exact E2|]. split; [exact Rt2|].
    split; [eapply keepd_trans; eassumption|].
    intros b' [<-|Hb']; [split; [apply (sreach_full t c1 c2 R2); exact F1|apply (k_tf _ _ _ (proj1 K2)); exact T1]|apply F2; exact Hb'].
Qed.

(* keep, but the delayed list of h may have been emptied *)
Definition keeph (t h : N) (c c' : cfg) : Prop :=
  keep t c c' /\ (forall h', h' <> h -> geth c' h' = geth c h') /\ hp_del (geth c' h) = [].

(* _mi_heap_delayed_free_partial run alone: returns true and leaves the list empty *)
Lemma run_partial t c h rest :
  Inv c -> noF c -> th_stk (gett c t) = DP1 h :: rest ->
  exists c', sreach t c c' /\ th_stk (gett c' t) = rest /\ th_ret (gett c' t) = true /\ keeph t h c c'
             /\ (forall b, In b (hp_del (geth c h)) -> pg_full (getp c' (fst b)) = false /\ pg_tf (getp c' (fst b)) = []).
Proof.
  intros I HnF E.
  destruct (stack_facts c t _ _ I E) as (S1 & S2 & S3 & S4).
  assert (Ho : hown (geth c h) t = true) by exact S2. destruct (hown_true _ _ Ho) as [Hal _].
  pose proof (cstep_frame c t _ _ E) as C1. cbn [fstep] in C1. rewrite Hal in C1. cbn [negb] in C1.
  destruct (hp_del (geth c h)) as [|b0 l0] eqn:Ed.
  - unfold ok_t in C1. eexists. split; [eapply sreach_one; exact C1|]. rewrite !gett_sett, !N.eqb_refl; cbn [th_stk th_ret th_set].
    split; [reflexivity|]. split; [reflexivity|]. split; [split; [apply keep_sett|split; [reflexivity|exact Ed]]|intros b []].
  - unfold ok_s, ok_t in C1.
    set (c1 := sett c t (th_set (gett c t) (DP2 h (Some b0) :: rest) (th_ret (gett c t)))) in *.
    assert (I1 : Inv c1) by (pose proof (cstep_good c t CGo I) as G; rewrite C1 in G; exact G).
    assert (E1 : th_stk (gett c1 t) = DP2 h (Some b0) :: rest) by (unfold c1; rewrite gett_sett, N.eqb_refl; reflexivity).
    pose proof (cstep_frame c1 t _ _ E1) as C2. cbn [fstep] in C2. change (geth c1 h) with (geth c h) in C2.
    rewrite Hal, Ed in C2. cbn [negb hdo obid_eqb orb] in C2. rewrite bid_eqb_refl in C2. cbn [negb] in C2.
    unfold ok_s, ok_t in C2.
    set (c2 := sett (seth c1 h (hp_set_del (geth c h) [])) t (th_set (gett c1 t) (DP3 h (b0 :: l0) true :: rest) (th_ret (gett c1 t)))) in *.
    assert (I2 : Inv c2) by (pose proof (cstep_good c1 t CGo I1) as G; rewrite C2 in G; exact G).
    assert (E2 : th_stk (gett c2 t) = DP3 h (b0 :: l0) true :: rest) by (unfold c2; rewrite gett_sett, N.eqb_refl; reflexivity).
    assert (K2 : keeph t h c c2).
    { split; [|split].
      - constructor; intros; auto.
        + unfold c2, c1. apply N.eqb_neq in H. rewrite gett_sett, H, gett_seth, gett_sett, H. reflexivity.
        + unfold c2. rewrite gett_sett, N.eqb_refl. cbn [th_held th_set]. unfold c1. rewrite gett_sett, N.eqb_refl. reflexivity.
        + unfold c2. rewrite gett_sett, N.eqb_refl. cbn [th_backing th_set]. unfold c1. rewrite gett_sett, N.eqb_refl. reflexivity.
        + unfold c2. rewrite geth_sett, geth_seth. destruct (h0 =? h) eqn:Eq; [apply N.eqb_eq in Eq; subst h0|]; reflexivity.
        + apply H.
      - intros h' Hh'. unfold c2. rewrite geth_sett, geth_seth. apply N.eqb_neq in Hh'. rewrite Hh'. reflexivity.
      - unfold c2. rewrite geth_sett, geth_seth, N.eqb_refl. reflexivity. }
    assert (HnF2 : noF c2) by (intros q; apply HnF).
    destruct (run_DPloop t h true rest (b0 :: l0) c2 I2 HnF2 E2) as (c3 & R3 & E3 & Rt3 & [K3 H3] & F3).
    exists c3. split; [eapply sr_step; [exact C1|eapply sr_step; [exact C2|exact R3]]|]. split; [exact E3|]. split; [exact Rt3|].
    destruct K2 as (K2a & K2b & K2c). split; [split; [eapply keep_trans; eassumption|split]|exact F3].
    + intros h' Hh'. rewrite H3. apply K2b. assumption.
    + rewrite H3. exact K2c.
Qed.

(* _mi_heap_delayed_free_all run alone *)
Lemma run_DA t c h rest :
  Inv c -> noF c -> th_stk (gett c t) = DP1 h :: DA h :: rest ->
  exists c', sreach t c c' /\ th_stk (gett c' t) = rest /\ keeph t h c c'
             /\ (forall b, In b (hp_del (geth c h)) -> pg_full (getp c' (fst b)) = false /\ pg_tf (getp c' (fst b)) = []).
Proof.
  intros I HnF E.
  destruct (run_partial t c h _ I HnF E) as (c1 & R1 & E1 & Rt1 & K1 & F1).
  assert (I1 : Inv c1) by (apply (sreach_Inv t c); assumption).
  pose proof (cstep_frame c1 t _ _ E1) as C2. cbn [fstep] in C2. rewrite Rt1 in C2. unfold ok_s, ok_t in C2.
  eexists. split; [eapply sreach_trans; [exact R1|eapply sreach_one; exact C2]|].
  rewrite gett_sett, N.eqb_refl. cbn [th_stk th_set]. split; [reflexivity|].
  destruct K1 as (Ka & Kb & Kc). split; [split; [eapply keep_trans; [exact Ka|apply keep_sett]|split; [exact Kb|exact Kc]]|].
  intros b Hb. rewrite getp_sett. apply F1. exact Hb.
Qed.

(* a page of heap h that is (still) there has been collected and is not empty *)
Definition done_pg (t h : N) (c : cfg) (q : N) : Prop :=
  own (getp c q) t = true -> pg_heap (getp c q) = Some h -> pg_tf (getp c q) = [] /\ pg_used (getp c q) <> 0.

(* the page loop of mi_heap_collect(force) *)
Lemma run_HCloop t h : forall ps c,
  Inv c -> th_stk (gett c t) = [HC3 h true ps] ->
  exists c', sreach t c c' /\ th_stk (gett c' t) = [] /\ keepd t c c'
             /\ (forall q, In q ps -> done_pg t h c' q) /\ (forall q, ~ In q ps -> getp c' q = getp c q).
Proof.
  induction ps as [|p ps' IH]; intros c I E.
  - pose proof (cstep_frame c t _ _ E) as C1. cbn [fstep] in C1. unfold ok_s, ok_t in C1.
    eexists. split; [eapply sreach_one; exact C1|]. rewrite gett_sett, N.eqb_refl. cbn [th_stk th_set].
    split; [reflexivity|]. split; [split; [apply keep_sett|reflexivity]|]. split; [intros q []|reflexivity].
  - pose proof (cstep_frame c t _ _ E) as C1. cbn [fstep] in C1.
    destruct (own (getp c p) t && oN_eqb (pg_heap (getp c p)) (Some h)) eqn:Ev; unfold ok_s, ok_t in C1.
    + (* collect p *)
      set (c1 := sett c t (th_set (gett c t) [FC1 p true; HC4 h true p ps'] (th_ret (gett c t)))) in *.
      assert (I1 : Inv c1) by (pose proof (cstep_good c t CGo I) as G; rewrite C1 in G; exact G).
      assert (E1 : th_stk (gett c1 t) = [FC1 p true; HC4 h true p ps']) by (unfold c1; rewrite gett_sett, N.eqb_refl; reflexivity).
      destruct (run_FC t c1 p true _ I1 E1) as (c2 & R2 & E2 & _ & K2 & [B2 H2] & T2 & O2).
      assert (I2 : Inv c2) by (apply (sreach_Inv t c1); assumption).
      pose proof (cstep_frame c2 t _ _ E2) as C3. cbn [fstep] in C3. rewrite O2 in C3. cbn [negb] in C3.
      assert (K02 : keepd t c c2).
      { split; [eapply keep_trans; [apply keep_sett|exact K2]|]. intros h0. rewrite H2. reflexivity. }
      assert (R02 : sreach t c c2) by (eapply sr_step; [exact C1|exact R2]).
      assert (B02 : forall q, q <> p -> getp c2 q = getp c q) by (intros q Hq; rewrite (B2 q Hq); reflexivity).
      (* the state in which the loop continues: page p is either freed or collected and not empty *)
      assert (Hmid : exists c4, sreach t c c4 /\ th_stk (gett c4 t) = [HC3 h true ps'] /\ keepd t c c4
                                /\ (forall q, q <> p -> getp c4 q = getp c q)
                                /\ (pg_alive (getp c4 p) = false \/ (pg_tf (getp c4 p) = [] /\ pg_used (getp c4 p) <> 0))).
      { destruct (pg_used (getp c2 p) =? 0) eqn:Eu; unfold ok_s, ok_t in C3.
        - set (c3 := sett c2 t (th_set (gett c2 t) [PF p; HC3 h true ps'] (th_ret (gett c2 t)))) in *.
          assert (I3 : Inv c3) by (pose proof (cstep_good c2 t CGo I2) as G; rewrite C3 in G; exact G).
          assert (E3 : th_stk (gett c3 t) = [PF p; HC3 h true ps']) by (unfold c3; rewrite gett_sett, N.eqb_refl; reflexivity).
          destruct (run_PF t c3 p _ I3 E3) as (c4 & R4 & E4 & _ & K4 & [B4 H4] & D4).
          exists c4. split; [eapply sreach_trans; [exact R02|eapply sr_step; [exact C3|exact R4]]|]. split; [exact E4|].
          split; [eapply keepd_trans; [exact K02|]; split; [eapply keep_trans; [apply keep_sett|exact K4]|intros h0; rewrite H4; reflexivity]|].
          split; [intros q Hq; rewrite (B4 q Hq); unfold c3; rewrite getp_sett; apply B02; assumption|left; exact D4].
        - eexists. split; [eapply sreach_trans; [exact R02|eapply sreach_one; exact C3]|].
          rewrite gett_sett, N.eqb_refl. cbn [th_stk th_set]. split; [reflexivity|].
          split; [eapply keepd_trans; [exact K02|]; split; [apply keep_sett|reflexivity]|].
          split; [intros q Hq; rewrite getp_sett; apply B02; assumption|]. right. rewrite getp_sett.
          split; [exact T2|]. apply N.eqb_neq in Eu. exact Eu. }
      destruct Hmid as (c4 & R4 & E4 & K4 & B4 & D4).
      destruct (IH c4 (sreach_Inv t c c4 R4 I) E4) as (c' & R' & E' & K' & Dn & Un).
      exists c'. split; [eapply sreach_trans; eassumption|]. split; [exact E'|]. split; [eapply keepd_trans; eassumption|]. split.
      * intros q [<-|Hq]; [|apply Dn; assumption].
        destruct (in_dec N.eq_dec p ps') as [Hin|Hnin]; [apply Dn; assumption|].
        intros Ho Hh. rewrite (Un p Hnin) in *. destruct D4 as [D4|D4]; [apply own_true in Ho as [Ho _]; congruence|exact D4].
      * intros q Hq. rewrite Un by (intros Hin; apply Hq; right; assumption). apply B4. intros ->. apply Hq. left. reflexivity.
    + (* p is not (or no longer) a page of h: skip *)
      set (c1 := sett c t (th_set (gett c t) [HC3 h true ps'] (th_ret (gett c t)))) in *.
      assert (I1 : Inv c1) by (pose proof (cstep_good c t CGo I) as G; rewrite C1 in G; exact G).
      assert (E1 : th_stk (gett c1 t) = [HC3 h true ps']) by (unfold c1; rewrite gett_sett, N.eqb_refl; reflexivity).
      destruct (IH c1 I1 E1) as (c' & R' & E' & K' & Dn & Un).
      exists c'. split; [eapply sr_step; [exact C1|exact R']|]. split; [exact E'|].
      split; [eapply keepd_trans; [split; [apply keep_sett|reflexivity]|exact K']|]. split.
      * intros q [<-|Hq]; [|apply Dn; assumption].
        destruct (in_dec N.eq_dec p ps') as [Hin|Hnin]; [apply Dn; assumption|].
        intros Ho Hh. rewrite (Un p Hnin) in *. change (getp c1 p) with (getp c p) in *.
        rewrite Ho, Hh, oN_eqb_refl in Ev. discriminate.
      * intros q Hq. rewrite Un by (intros Hin; apply Hq; right; assumption). reflexivity.
Qed.

(* ------------------------------------------------------------------------------------------ *)
(* C08: quiescent_collect_complete                                                            *)
(* ------------------------------------------------------------------------------------------ *)
Definition quiescentP (c : cfg) : Prop := forall u, th_stk (gett c u) = [].

Lemma quiescent_spec c : quiescent c = true -> quiescentP c.
Proof.
  unfold quiescent, quiescentP, gett. intros H u. induction (c_th c) as [|[k v] r IH]; [reflexivity|].
  cbn in H |- *. apply andb_prop in H as [H1 H2]. destruct (u =? k); [apply isnil_true; exact H1|apply IH; exact H2].
Qed.
Lemma quiescent_spec_rev c : quiescentP c -> wf c -> quiescent c = true.
Proof.
  intros H Hwf. unfold quiescent. apply forallb_forall. intros [k v] Hin. cbn.
  pose proof (wf_parts c Hwf) as (Hn & _). specialize (H k). unfold gett in H. rewrite (fget_In th0 _ k v Hn Hin) in H.
  rewrite H. reflexivity.
Qed.

Lemma quiescent_noF c : Inv c -> quiescentP c -> noF c.
Proof.
  intros I Hq p F. pose proof (b_win _ (i_B _ I) p) as W. rewrite F in W. cbn in W.
  destruct (mWin_pos_ex c (i_wf _ I) p) as [u Hu]; [lia|]. rewrite Hq in Hu. cbn in Hu. lia.
Qed.

Lemma live_count_same c c' q : wf c -> wf c' -> (forall u, th_held (gett c' u) = th_held (gett c u)) ->
  live_count c' q = live_count c q.
Proof.
  intros Hwf Hwf' H. unfold live_count. apply (ftot_same_get th0); try reflexivity.
  - apply (wf_parts c' Hwf').
  - apply (wf_parts c Hwf).
  - intros u. fold (gett c' u) (gett c u). rewrite H. reflexivity.
Qed.

Lemma quiescent_counts c q : Inv c -> quiescentP c ->
  pend_count c q = 0%nat /\ hand_count c q = 0%nat.
Proof.
  intros I Hq. pose proof (wf_parts c (i_wf _ I)) as (Hn & _). unfold pend_count, hand_count.
  split; apply (ftot_zero th0); auto; intros u; fold (gett c u); rewrite Hq; reflexivity.
Qed.

Theorem quiescent_collect c t h : Inv c -> quiescentP c -> hown (geth c h) t = true ->
  exists c1 c', cstep c t (COp (OpHeapCollect h true)) = ROk c1 None /\ sreach t c1 c' /\ Inv c' /\ quiescentP c'
    /\ (forall u, th_held (gett c' u) = th_held (gett c u))
    /\ hp_del (geth c' h) = [] /\ (forall h', h' <> h -> geth c' h' = geth c h')
    /\ (forall q, pg_alive (getp c' q) = true -> pg_alive (getp c q) = true /\ pg_heap (getp c' q) = pg_heap (getp c q))
    /\ forall q, pg_alive (getp c q) = true -> pg_heap (getp c q) = Some h ->
         (live_count c q = 0%nat -> pg_alive (getp c' q) = false)
         /\ (live_count c q <> 0%nat ->
             pg_alive (getp c' q) = true /\ pg_tf (getp c' q) = [] /\ pg_used (getp c' q) = N.of_nat (live_count c q)).
Proof.
  intros I Hq Ho. pose proof (i_wf _ I) as Hwf.
  pose proof (quiescent_noF c I Hq) as HnF.
  (* the call *)
  assert (C0 : cstep c t (COp (OpHeapCollect h true)) = ok_s c t (gett c t) [DP1 h; DA h; HC2 h true] None).
  { unfold cstep. rewrite Hq. cbn [start]. rewrite Ho. reflexivity. }
  unfold ok_s, ok_t in C0.
  set (c1 := sett c t (th_set (gett c t) [DP1 h; DA h; HC2 h true] (th_ret (gett c t)))) in *.
  assert (I1 : Inv c1) by (pose proof (cstep_good c t (COp (OpHeapCollect h true)) I) as G; rewrite C0 in G; exact G).
  assert (E1 : th_stk (gett c1 t) = [DP1 h; DA h; HC2 h true]) by (unfold c1; rewrite gett_sett, N.eqb_refl; reflexivity).
  assert (K1 : keep t c c1) by apply keep_sett.
  (* drain *)
  destruct (run_DA t c1 h _ I1 (fun q => HnF q) E1) as (c2 & R2 & E2 & (K2 & H2 & D2) & _).
  assert (I2 : Inv c2) by (apply (sreach_Inv t c1); assumption).
  (* HC2: snapshot of the pages *)
  pose proof (cstep_frame c2 t _ _ E2) as C3. cbn [fstep] in C3. unfold ok_s, ok_t in C3.
  set (c3 := sett c2 t (th_set (gett c2 t) [HC3 h true (pages_of c2 t h)] (th_ret (gett c2 t)))) in *.
  assert (I3 : Inv c3) by (pose proof (cstep_good c2 t CGo I2) as G; rewrite C3 in G; exact G).
  assert (E3 : th_stk (gett c3 t) = [HC3 h true (pages_of c2 t h)]) by (unfold c3; rewrite gett_sett, N.eqb_refl; reflexivity).
  destruct (run_HCloop t h _ c3 I3 E3) as (c' & R' & E' & [K' H'] & Dn & Un).
  assert (I' : Inv c') by (apply (sreach_Inv t c3); assumption).
  assert (K : keep t c c').
  { eapply keep_trans; [exact K1|]. eapply keep_trans; [exact K2|]. eapply keep_trans; [apply keep_sett|]. exact K'. }
  assert (Hq' : quiescentP c').
  { intros u. destruct (N.eq_dec u t) as [->|Hne]; [exact E'|]. rewrite (k_oth _ _ _ K u Hne). apply Hq. }
  assert (Hheld : forall u, th_held (gett c' u) = th_held (gett c u)).
  { intros u. destruct (N.eq_dec u t) as [->|Hne]; [apply (k_held _ _ _ K)|]. rewrite (k_oth _ _ _ K u Hne). reflexivity. }
  assert (Hdel : hp_del (geth c' h) = []).
  { rewrite H'. unfold c3. rewrite geth_sett. exact D2. }
  assert (Hoth : forall h', h' <> h -> geth c' h' = geth c h').
  { intros h' Hh'. rewrite H'. unfold c3. rewrite geth_sett, (H2 h' Hh'). reflexivity. }
  exists c1, c'. split; [exact C0|]. split; [eapply sreach_trans; [exact R2|eapply sr_step; [exact C3|exact R']]|].
  split; [exact I'|]. split; [exact Hq'|]. split; [exact Hheld|]. split; [exact Hdel|]. split; [exact Hoth|].
  split; [intros q Hq0; destruct (k_pg _ _ _ K q Hq0) as (X1 & X2 & _); auto|].
  intros q Hqa Hqh.
  assert (Hlive : live_count c' q = live_count c q) by (apply live_count_same; auto; apply (i_wf _ I')).
  (* if q is still there, it is collected, non-empty, and used = live *)
  assert (Hstill : pg_alive (getp c' q) = true ->
            pg_tf (getp c' q) = [] /\ pg_used (getp c' q) <> 0 /\ pg_used (getp c' q) = N.of_nat (live_count c q)).
  { intros Ha'. destruct (k_pg _ _ _ K q Ha') as (_ & Kh & Kt).
    assert (Hown' : own (getp c' q) t = true).
    { destruct (s_pheap _ (i_S _ I) q Hqa) as [h0 [P1 P2]]. rewrite Hqh in P1. inversion P1; subst h0.
      apply hown_true in P2 as [_ P2]. apply hown_true in Ho as [_ Ho]. unfold own. rewrite Ha', Kt, <- P2, Ho, N.eqb_refl. reflexivity. }
    assert (Hin : In q (pages_of c2 t h)).
    { apply (pages_of_In c2 t h q (i_wf _ I2)).
      destruct (k_pg _ _ _ K' q Ha') as (A3 & Kh3 & Kt3). change (getp c3 q) with (getp c2 q) in *.
      apply own_true in Hown' as [_ Ht]. split; [unfold own; rewrite A3, <- Kt3, Ht, N.eqb_refl; reflexivity|].
      rewrite <- Kh3, Kh. exact Hqh. }
    destruct (Dn q Hin Hown') as [T U]; [rewrite Kh; exact Hqh|].
    split; [exact T|]. split; [exact U|].
    rewrite (Inv_used_count c' I' q), Hlive. destruct (quiescent_counts c' q I' Hq') as [-> ->].
    unfold tf_count. rewrite T. cbn [length].
    assert (Z : del_count c' q = 0%nat).
    { unfold del_count. apply (ftot_zero hp0); [apply (wf_parts c' (i_wf _ I'))|reflexivity|].
      intros h'. fold (geth c' h'). destruct (N.eq_dec h' h) as [->|Hne]; [rewrite Hdel; reflexivity|].
      apply cnt_none. intros b Hb. destruct (onp q b) eqn:Eb; [|reflexivity]. exfalso.
      unfold onp in Eb. apply N.eqb_eq in Eb.
      pose proof (s_del _ (i_S _ I') h') as D. pose proof (forallb_In _ _ D b Hb) as Db.
      unfold del_ok in Db. apply andb_prop in Db as [_ Db]. rewrite Hq' in Db. cbn in Db. rewrite orb_false_r in Db.
      apply oN_eqb_eq in Db. rewrite Eb, Kh, Hqh in Db. inversion Db. congruence. }
    rewrite Z. f_equal. lia. }
  split.
  - intros Hl. destruct (pg_alive (getp c' q)) eqn:Ea; [|reflexivity].
    destruct (Hstill eq_refl) as (_ & U & Eq). rewrite Hl in Eq. cbn in Eq. contradiction.
  - intros Hl.
    assert (Ha' : pg_alive (getp c' q) = true).
    { unfold live_count in Hl.
      destruct (ftot_pos_ex th0 (fun th => cnt (onp q) (th_held th)) (c_th c) (proj1 (wf_parts c Hwf)) eq_refl) as [u Hu]; [lia|].
      fold (gett c u) in Hu. destruct (cnt_pos_ex _ _ Hu) as [b [Hb1 Hb2]]. unfold onp in Hb2. apply N.eqb_eq in Hb2.
      rewrite <- Hheld in Hb1. destruct (a_range _ (i_A _ I') b) as [R _]; [pose proof (held_W c' u b Hb1); lia|].
      rewrite Hb2 in R. exact R. }
    destruct (Hstill Ha') as (T & _ & Eq). auto.
Qed.

Lemma sreach_reachable t c c' : sreach t c c' -> reachable (Ok c) -> reachable (Ok c').
Proof.
  induction 1; [auto|]. intros Hr. apply IHsreach. apply (reach_step (Ok c) t CGo). exact Hr. cbn. rewrite H. reflexivity.
Qed.

(* the C08 statement on reachable states, with the executable solo run *)
Definition collectedP (c c' : cfg) (h : N) : Prop :=
  hp_del (geth c' h) = []
  /\ (forall u, th_held (gett c' u) = th_held (gett c u))
  /\ (forall q, pg_alive (getp c' q) = true -> pg_alive (getp c q) = true /\ pg_heap (getp c' q) = pg_heap (getp c q))
  /\ forall q, pg_alive (getp c q) = true -> pg_heap (getp c q) = Some h ->
       (live_count c q = 0%nat -> pg_alive (getp c' q) = false)
       /\ (live_count c q <> 0%nat ->
           pg_alive (getp c' q) = true /\ pg_tf (getp c' q) = [] /\ pg_used (getp c' q) = N.of_nat (live_count c q)).

Theorem quiescent_collect_complete_P : forall s, reachable s -> exists c, s = Ok c /\
  (quiescent c = true -> forall t h, hown (geth c h) t = true ->
   exists c1 n c', cstep c t (COp (OpHeapCollect h true)) = ROk c1 None /\ solo n c1 t = Some c'
                   /\ reachable (Ok c') /\ quiescent c' = true /\ collectedP c c' h).
Proof.
  intros s Hr. destruct (reachable_Inv s Hr) as [c [-> I]]. exists c. split; [reflexivity|].
  intros Hq t h Ho. apply quiescent_spec in Hq.
  destruct (quiescent_collect c t h I Hq Ho) as (c1 & c' & C0 & R & I' & Hq' & Hh & Hd & _ & Hk & Hp).
  destruct (sreach_solo t c1 c' R (Hq' t)) as [n Hn].
  exists c1, n, c'. split; [exact C0|]. split; [exact Hn|]. split.
  - apply (sreach_reachable t c1 c' R). apply (reach_step (Ok c) t (COp (OpHeapCollect h true))); [exact Hr|].
    cbn. rewrite C0. reflexivity.
  - split; [apply quiescent_spec_rev; [exact Hq'|apply (i_wf _ I')]|]. split; [exact Hd|]. split; [exact Hh|]. split; [exact Hk|exact Hp].
Qed.

(* once every block has been freed (by whichever thread), a forced collect leaves the heap without pages *)
Theorem all_freed_no_pages_P : forall s, reachable s -> exists c, s = Ok c /\
  (quiescent c = true -> (forall u, th_held (gett c u) = []) -> forall t h, hown (geth c h) t = true ->
   exists c1 n c', cstep c t (COp (OpHeapCollect h true)) = ROk c1 None /\ solo n c1 t = Some c'
                   /\ reachable (Ok c') /\ pages_of c' t h = [] /\ hp_del (geth c' h) = []).
Proof.
  intros s Hr. destruct (quiescent_collect_complete_P s Hr) as [c [-> H]]. exists c. split; [reflexivity|].
  intros Hq Hheld t h Ho. destruct (H Hq t h Ho) as (c1 & n & c' & C0 & Hn & Hr' & Hq' & Hd & Hh & Hk & Hp).
  exists c1, n, c'. split; [exact C0|]. split; [exact Hn|]. split; [exact Hr'|]. split; [|exact Hd].
  destruct (reachable_Inv _ Hr') as [c'' [Ec I']]. inversion Ec; subst c''.
  destruct (reachable_Inv _ Hr) as [c0 [Ec0 I0]]. inversion Ec0; subst c0.
  destruct (pages_of c' t h) as [|q l] eqn:Ep; [reflexivity|]. exfalso.
  assert (Hin : In q (pages_of c' t h)) by (rewrite Ep; left; reflexivity).
  apply (pages_of_In c' t h q (i_wf _ I')) in Hin as [Hown Hheap]. apply own_true in Hown as [Ha' _].
  destruct (Hk q Ha') as [Ha Hhe]. rewrite Hheap in Hhe. symmetry in Hhe.
  destruct (Hp q Ha Hhe) as [Hz _].
  assert (Z : live_count c q = 0%nat).
  { unfold live_count. apply (ftot_zero th0); [apply (wf_parts c (i_wf _ I0))|reflexivity|].
    intros u. fold (gett c u). rewrite Hheld. reflexivity. }
  rewrite (Hz Z) in Ha'. discriminate.
Qed.

(* unfull_on_delayed on reachable states *)
Theorem unfull_on_delayed_R : forall s, reachable s -> exists c, s = Ok c /\
  forall t h b r af rest ch c' ev, th_stk (gett c t) = DP6 h b r af :: rest -> cstep c t ch = ROk c' ev ->
  pg_full (getp c' (fst b)) = false \/ (exists rest', th_stk (gett c' t) = PF (fst b) :: rest').
Proof.
  intros s H. destruct (reachable_Inv s H) as [c [-> I]]. exists c. split; [reflexivity|].
  intros t h b r af rest ch c' ev. apply unfull_on_delayed_P. exact I.
Qed.
