(* Statements about the API-level model that are NOT theorems of this development: kept as
   type-checked definitions so that nobody mistakes them for theorems.
   (1) a clause of C06 that the faithful model refutes on the unchanged code (with the refutation);
   (2) what this layer assumes from the segment layer and does not prove (owned by the segment model). *)
From Coq Require Import NArith List Bool.
From MiV Require Import Gen.Consts Gen.Bins Model.Arith Model.Api Proofs.Base Proofs.ApiProofs.
Import ListNotations.
Local Open Scope N_scope.

(* (1) the clause "an alignment that is zero or not a power of two fails cleanly" at full strength,
   i.e. for EVERY entry point that takes an alignment, including the aligned re-allocation family.
   Proved for the allocation entry points (Properties/C06.v, C06_bad_alignment_fails_partial);
   false for the re-allocation family: *)
Definition bad_alignment_fails_full_stmt : Prop :=
  forall st c o st' r a off,
    call_alignment c = Some (a, off) -> a = 0 \/ is_power_of_two a = false ->
    exec st c o = (st', r) -> call_failed c r = true /\ st' = st.

Lemma bad_alignment_fails_full_refuted : ~ bad_alignment_fails_full_stmt.
Proof.
  intros H.
  specialize (H [ (4096, mkBlock 32 (dirty 32) 0 20 false 0) ] (CReallocAligned 0 4096 100 3)
                (mkOracles None (Some (8192, 112, dirty 112)) None)).
  destruct (exec _ _ _) as [st' r] eqn:E.
  specialize (H st' r 3 (4096 mod 3) eq_refl (or_intror eq_refl) eq_refl).
  destruct H as (H & _). revert H. vm_compute in E. injection E as <- <-. vm_compute. discriminate.
Qed.

(* (2) placement of a block with an alignment above MI_BLOCK_ALIGNMENT_MAX inside its dedicated huge
   segment (segment.c: mi_segment_os_alloc / mi_segment_huge_page_alloc; os.c:
   _mi_os_alloc_aligned_at_offset): whenever the lower layers answer such a request, the aligned
   pointer lies inside the block with `size` bytes behind it.  In this development it is the
   hypothesis `huge_answer_ok` inside `oracles_ok`; as a statement about all answers it is of course
   not provable here (the answer is an arbitrary oracle) -- it is the obligation `huge_aligned` of the
   segment model. *)
Definition huge_aligned_stmt (segment_layer_answer : N -> N -> answer) : Prop :=
  forall size alignment, size <= MI_MAX_ALLOC_SIZE -> MI_BLOCK_ALIGNMENT_MAX < alignment ->
    is_power_of_two alignment = true ->
    huge_answer_ok size alignment (segment_layer_answer (overalloc_size size alignment) alignment).

(* (2') likewise the general contract: the page layer's answer to a request in an abstract state
   that abstracts its concrete state satisfies answer_ok (C01: fresh, disjoint; C03: usable >= size) *)
Definition answer_contract_stmt (page_layer_answer : state -> N -> answer) : Prop :=
  forall st size, wf st -> size <= MI_MAX_ALLOC_SIZE -> answer_ok st size (page_layer_answer st size).

(* (2'') the same contract for a lower layer that has its own CONCRETE state: C = the concrete states,
   inv = its invariant, abs = the abstraction to the map of live blocks, layer_answer = what the layer
   returns for a request in a concrete state.  answer_contract_stmt is the instance C = state, inv = wf,
   abs = identity.  For the composite page/span/segment model of Model/Compose.v this statement IS proved:
   Proofs/ComposeProofs.v compose_answer_contract (Properties/C01compose.v C01_compose_answer_contract), and
   compose_discharges_answer_contract shows answer_contract_stmt for every answer function all of whose
   answers are produced by a valid concrete state that abstracts to the abstract state. *)
Definition answer_contract_for_stmt {C : Type} (inv : C -> Prop) (abs : C -> state)
                                   (layer_answer : C -> N -> answer) : Prop :=
  forall c size, inv c -> size <= MI_MAX_ALLOC_SIZE -> answer_ok (abs c) size (layer_answer c size).

Lemma answer_contract_stmt_is_instance f :
  answer_contract_stmt f <-> answer_contract_for_stmt wf (fun st => st) f.
Proof. unfold answer_contract_stmt, answer_contract_for_stmt. split; intros H st size; apply H. Qed.
