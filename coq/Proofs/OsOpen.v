(* Statements of the OS / mask / purge slice that are NOT proved (kept as type-checked Props so that nobody mistakes them
   for theorems).  Each is exercised by the correspondence checks (harness/t_purge.c, t_osfree.c) only. *)
From Coq Require Import NArith ZArith List Bool.
From MiV Require Import Gen.Consts Gen.OsConsts Model.Arith Model.Os Model.Mask Model.Purge
  Proofs.OsProofs Proofs.MaskProofs Proofs.PurgeProofs.
Import ListNotations.
Local Open Scope N_scope.

(* the system calls of one arena visit, as a list: proved at the level of the purge bitmaps (C18_arena_try_purge:
   purge' = purge AND inuse); the exact list of madvise calls (one per maximal run of scheduled, not-in-use blocks inside a
   bitmap field, in block order) is not proved *)
Definition arena_try_purge_calls_stmt : Prop :=
  forall cfg oracle o a now force,
    a_pinned a = false -> (0 <= purge_delay cfg)%Z -> purge_decommits cfg = true ->
    force = true \/ (a_expire a <> 0%Z /\ (a_expire a <= now)%Z) ->
    forall b, b < a_block_count a -> N.testbit (a_purge a) b = true -> N.testbit (a_inuse a) b = false ->
    exists i c, i <= b /\ b < i + c /\
      In (KMadvise, a_start a + i * BLOCK, c * BLOCK, MADV_DONTNEED_) (calls (fst (fst (arena_try_purge cfg oracle o a now force)))).

(* soundness of the commit mask under purge in builds where decommit revokes access (decommit_protects): proved only for
   commit / ensure_committed (C13_ensure_committed) *)
Definition mask_sound_purge_stmt : Prop :=
  forall cfg oracle o s p size, seg_ok2 s -> is_huge s = false -> mask_sound o s ->
    mask_sound (fst (segment_purge cfg oracle o s p size)) (snd (segment_purge cfg oracle o s p size)).

(* repeated passes: every pending arena is eventually purged by non-forced passes (C18_arena_pass_progress and
   C18_arena_pending_rearms give the single-pass steps; the induction over passes with max_purge_count = 2 is not done) *)
Definition arena_eventually_purged_stmt : Prop :=
  forall cfg oracle st (n : nat), (0 < arena_purge_delay cfg)%Z -> expiry_consistent st ->
    exists k, forall t0, (forall a, In a (p_arenas st) -> (a_expire a <= t0)%Z) -> (p_g st <= t0)%Z ->
      let h := map (fun i => (PCollect false, (t0 + Z.of_nat i * arena_purge_delay cfg)%Z)) (seq 0 k) in
      forall a', In a' (p_arenas (prun cfg oracle st h)) -> a_pinned a' = false -> a_expire a' = 0%Z.
