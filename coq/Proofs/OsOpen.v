(* Statements of the OS / mask / purge slice that are NOT proved (kept as type-checked Props so that nobody mistakes them
   for theorems).  Each is exercised by the correspondence checks (harness/t_purge.c, t_osfree.c) only. *)
From Coq Require Import NArith ZArith List Bool.
From MiV Require Import Gen.Consts Gen.OsConsts Model.Arith Model.Os Model.Mask Model.Purge
  Proofs.OsProofs Proofs.MaskProofs Proofs.PurgeProofs.
Import ListNotations.
Local Open Scope N_scope.

(* the system calls of one arena visit, as a list: proved at the level of the purge bitmaps (C18_arena_try_purge:
   purge' = purge AND inuse); the exact list of madvise calls (one per maximal run of scheduled, not-in-use blocks inside a
   bitmap field, in block order) is not proved *)
Definition arena_try_purge_calls_stmt : Prop :=
  forall cfg oracle o a now force,
    a_pinned a = false -> (0 <= purge_delay cfg)%Z -> purge_decommits cfg = true ->
    force = true \/ (a_expire a <> 0%Z /\ (a_expire a <= now)%Z) ->
    forall b, b < a_block_count a -> N.testbit (a_purge a) b = true -> N.testbit (a_inuse a) b = false ->
    exists i c, i <= b /\ b < i + c /\
      In (KMadvise, a_start a + i * BLOCK, c * BLOCK, MADV_DONTNEED_) (calls (fst (fst (arena_try_purge cfg oracle o a now force)))).

(* (mask_sound_purge_stmt, formerly here: proved as stated, Proofs/MaskSound.v, theorem C13_mask_sound_purge) *)

(* (arena_eventually_purged_stmt, formerly here: proved with the hypothesis 0 <= t0 in Proofs/PurgePasses.v, theorem
   C18_arena_eventually_purged; refuted as it stood, for a negative clock, by arena_eventually_purged_any_clock_refuted) *)
