(* Preservation, part 2: the owner's flag reset and list take-over
   (_mi_page_try_use_delayed_free, _mi_page_thread_free_collect, _mi_page_free_collect). *)
From Coq Require Import NArith List Bool Lia Arith.
From MiV Require Import Model.TFree Proofs.TFreeBase Proofs.TFreeInv Proofs.TFreeGen Proofs.TFreeTop Proofs.TFreeStep.
Import ListNotations.
Local Open Scope N_scope.

Lemma d1_stk_false stk : d1_stk false stk = flat_map (d1_fr false) stk.
Proof. destruct stk; reflexivity. Qed.

(* what can be below a try_use frame *)
Lemma tu_rest (f : frame) rest : stk_ok (f :: rest) = true ->
  match f with
  | TU1 p _ _ spin _ | TU2 p _ _ spin _ _ _ =>
    if spin then rest = [] \/ exists h bk ps, rest = [HD3 h bk ps]
    else exists h b r af rest', rest = DP4 h b r af :: rest' /\ fst b = p
  | _ => True
  end.
Proof.
  destruct f; auto; destruct spin; cbn [stk_ok]; intros H; apply andb_prop in H as [H1 H2];
    destruct rest as [|g rest']; try (left; reflexivity); try discriminate H1; destruct g; try discriminate H1.
  - right. destruct rest'; [eauto|cbn in H2; discriminate].
  - cbn in H1. apply N.eqb_eq in H1. eauto 8.
  - right. destruct rest'; [eauto|cbn in H2; discriminate].
  - cbn in H1. apply N.eqb_eq in H1. eauto 8.
Qed.

Lemma own_frame_alive c t p : own (getp c p) t = true -> pg_alive (getp c p) = true.
Proof. intros H. apply own_true in H as [H _]. exact H. Qed.

(* popping a try_use frame with result true *)
Definition is_tu (f : frame) (p : N) (spin : bool) : Prop :=
  match f with TU1 q _ _ s _ | TU2 q _ _ s _ _ _ => q = p /\ s = spin | _ => False end.

Lemma pop_TU_true c t (f : frame) p spin rest :
  Inv c -> th_stk (gett c t) = f :: rest -> is_tu f p spin ->
  pg_flag (getp c p) <> Freeing ->
  (forall q, q <> p -> cnt (onp q) (d1_stk (th_ret (gett c t)) (f :: rest)) <= cnt (onp q) (d1_stk true rest))%nat
  /\ (forall q h, absorbing (f :: rest) q h = true -> absorbing rest q h = true \/ mWin c q = 0%nat)
  /\ (hd4_quiet rest true = true -> hd4_quiet (f :: rest) (th_ret (gett c t)) = true)
  /\ stk_ok rest = true.
Proof.
  intros I E Htu F1.
  destruct (stack_facts c t _ _ I E) as (S1 & S2 & S3 & S4).
  pose proof (tu_rest _ _ S1) as Hr.
  assert (S1' : stk_ok rest = true) by (cbn [stk_ok] in S1; apply andb_prop in S1 as [_ S1]; exact S1).
  assert (W0 : mWin c p = 0%nat).
  { pose proof (b_win _ (i_B _ I) p) as W. destruct (flag_eqb (pg_flag (getp c p)) Freeing) eqn:F; [|exact W].
    apply flag_eqb_eq in F. contradiction. }
  destruct f; try contradiction; destruct Htu as [-> ->]; (split; [|split; [|split]]); auto.
  all: destruct spin.
  all: try (destruct Hr as [->|(h0 & bk & ps & ->)]); try (destruct Hr as (h0 & b0 & r0 & af0 & rest' & -> & Hb)).
  all: try (intros q _; cbn [d1_stk d1_fr app flat_map]; lia).
  all: try (intros q Hq; cbn [d1_stk d1_fr app flat_map]; rewrite ?cnt_app, ?cnt_cons, ?cnt_app; change (onp q b0) with (fst b0 =? q); rewrite Hb;
            destruct (p =? q) eqn:Eq; [apply N.eqb_eq in Eq; subst q; contradiction|lia]).
  all: try (intros q h; cbn [absorbing]; try discriminate; intros H; apply andb_prop in H as [H _];
            apply N.eqb_eq in H; subst q; right; exact W0).
  all: try (cbn; discriminate).
  all: try (cbn; intros Q; exact Q).
Qed.

Lemma tu_frame_facts c t p d (f : frame) : fr_ok c t (gett c t) f = true ->
  (exists o s y, f = TU1 p d o s y) \/ (exists o s y fl hd, f = TU2 p d o s y fl hd) ->
  own (getp c p) t = true /\ d <> Freeing /\ d <> NoD.
Proof.
  intros H [(o & s & y & ->)|(o & s & y & fl & hd & ->)]; cbn [fr_ok] in H;
    rewrite !andb_true_iff, !negb_true_iff, !flag_eqb_neq in H; tauto.
Qed.

Lemma step_TU1 c t p d ovr spin yc rest alt : Inv c -> th_stk (gett c t) = TU1 p d ovr spin yc :: rest ->
  good (fstep c t (gett c t) (TU1 p d ovr spin yc) rest alt).
Proof.
  intros I E. cbn [fstep].
  destruct (stack_facts c t _ _ I E) as (S1 & S2 & S3 & S4).
  destruct (tu_frame_facts c t p d _ S2) as (Hown & D1 & D2); [left; eauto|].
  rewrite (own_frame_alive _ _ _ Hown). cbn [negb]. unfold ok_s, ok_t, good.
  assert (S1' : stk_ok rest = true) by (cbn [stk_ok] in S1; apply andb_prop in S1 as [_ S1']; exact S1').
  destruct (flag_eqb (pg_flag (getp c p)) Freeing) eqn:Ff.
  - destruct (4 <=? yc).
    + destruct spin.
      * apply (step_top c t (TU1 p d ovr true yc) rest [TU1 p d ovr true 0]); auto; top_side; try stk_ok_top.
        cbn [fr_ok] in S2. rewrite S2. reflexivity.
      * (* give up *)
        pose proof (tu_rest _ _ S1) as (h0 & b0 & r0 & af0 & rest' & -> & Hb).
        apply (step_top c t (TU1 p d ovr false yc) _ [] false); auto; top_side.
    + apply (step_top c t (TU1 p d ovr spin yc) rest [TU1 p d ovr spin (yc + 1)]); auto; top_side; try stk_ok_top.
      cbn [fr_ok] in S2. rewrite S2. reflexivity.
  - apply flag_eqb_neq in Ff.
    destruct (flag_eqb d (pg_flag (getp c p))) eqn:Fd.
    { apply flag_eqb_eq in Fd.
      destruct (pop_TU_true c t _ p spin rest I E) as (O1 & O2 & O3 & O4); [split; reflexivity|assumption|].
      apply (step_top c t (TU1 p d ovr spin yc) rest [] true); auto; top_side.
      destruct (N.eq_dec p0 p) as [->|Hne]; [right; split; congruence|left; apply O1; assumption]. }
    destruct (negb ovr && flag_eqb (pg_flag (getp c p)) NeverD) eqn:Fn.
    { apply andb_prop in Fn as [_ Fn]. apply flag_eqb_eq in Fn.
      destruct (pop_TU_true c t _ p spin rest I E) as (O1 & O2 & O3 & O4); [split; reflexivity|assumption|].
      apply (step_top c t (TU1 p d ovr spin yc) rest [] true); auto; top_side.
      destruct (N.eq_dec p0 p) as [->|Hne]; [right; split; congruence|left; apply O1; assumption]. }
    apply (step_top c t (TU1 p d ovr spin yc) rest [TU2 p d ovr spin yc _ _]); auto; top_side.
    cbn [fr_ok] in S2. rewrite S2. cbn [andb]. rewrite andb_true_r. rewrite Fd. cbn [negb].
    apply flag_eqb_neq in Ff. rewrite Ff. cbn [negb andb].
    destruct ovr; [rewrite !andb_true_iff in S2; destruct S2 as [_ S2]; discriminate S2|].
    cbn [negb andb orb] in Fn |- *. rewrite Fn. reflexivity.
Qed.

Lemma step_TU2 c t p d ovr spin yc f hd rest alt : Inv c -> th_stk (gett c t) = TU2 p d ovr spin yc f hd :: rest ->
  good (fstep c t (gett c t) (TU2 p d ovr spin yc f hd) rest alt).
Proof.
  intros I E. cbn [fstep].
  destruct (stack_facts c t _ _ I E) as (S1 & S2 & S3 & S4).
  destruct (tu_frame_facts c t p d _ S2) as (Hown & D1 & D2); [right; eauto 8|].
  assert (Ff : f <> Freeing).
  { cbn [fr_ok] in S2. rewrite !andb_true_iff, !negb_true_iff, !flag_eqb_neq in S2. tauto. }
  rewrite (own_frame_alive _ _ _ Hown). cbn [negb]. unfold ok_s, ok_t, good.
  assert (S1' : stk_ok rest = true) by (cbn [stk_ok] in S1; apply andb_prop in S1 as [_ S1']; exact S1').
  pose proof (i_wf _ I) as Hwf.
  destruct (alt || negb (word_eq f hd (getp c p))) eqn:Ec.
  { apply (step_top c t (TU2 p d ovr spin yc f hd) rest [TU1 p d ovr spin yc]); auto; top_side; try stk_ok_top.
    destruct (tu_frame_facts c t p d _ S2) as (X1 & X2 & X3); [right; eauto 8|]. cbn [fr_ok forallb].
    apply flag_eqb_neq in X2. apply flag_eqb_neq in X3. rewrite X1, X2, X3.
    cbn [fr_ok] in S2. rewrite !andb_true_iff in S2. destruct S2 as [[[[_ S2] _] _] _]. rewrite S2. reflexivity. }
  apply orb_false_iff in Ec as [_ Ec]. apply negb_false_iff in Ec. pose proof (word_eq_flag _ _ _ Ec) as Ef.
  destruct (pop_TU_true c t _ p spin rest I E) as (O1 & O2 & O3 & O4); [split; reflexivity|congruence|].
  apply (step_top_word c t (TU2 p d ovr spin yc f hd) rest [] true p d (pg_tf (getp c p)));
    auto; top_side; try cnt_goal; try (apply tf_local; assumption); try (apply own_frame_alive with t; assumption).
  assert (W0 : mWin c p = 0%nat).
  { pose proof (b_win _ (i_B _ I) p) as W. destruct (flag_eqb (pg_flag (getp c p)) Freeing) eqn:F; [|exact W].
    apply flag_eqb_eq in F. congruence. }
  cbn [app]. constructor; intros q;
    destruct (meas_sett_setp c t (th_set (gett c t) rest true) p (pg_set_word (getp c p) d (pg_tf (getp c p))) q Hwf)
      as (E1 & E2 & E3 & E4);
    rewrite E in E1, E2, E3; cbn [th_stk th_ret th_set sum_fr win_fr pw_fr] in E1, E2, E3; rewrite E4.
  - pose proof (b_win _ (i_B _ I) q) as W. destruct (q =? p) eqn:Eq.
    + apply N.eqb_eq in Eq. subst q. cbn [pg_flag pg_set_word]. apply flag_eqb_neq in D1. rewrite D1. lia.
    + lia.
  - pose proof (b_nd _ (i_B _ I) q) as ND. destruct (q =? p) eqn:Eq.
    + apply N.eqb_eq in Eq. subst q. cbn [pg_flag pg_set_word]. intros [H|H]; [contradiction|].
      pose proof (mPw_le_mWin c p). lia.
    + apply N.eqb_neq in Eq. specialize (O1 q Eq). nd_tac ND.
Qed.

(* ---- _mi_page_thread_free_collect ---- *)
Lemma stk_ok_tail f rest : stk_ok (f :: rest) = true -> stk_ok rest = true.
Proof. cbn [stk_ok]. intros H. apply andb_prop in H as [_ H]. exact H. Qed.

Lemma tc_rest (f : frame) rest : stk_ok (f :: rest) = true ->
  match f with
  | TC1 p | TC2 p _ _ | TC3 p _ => exists force rest', rest = FC2 p force :: rest'
  | _ => True
  end.
Proof.
  destruct f; auto; cbn [stk_ok]; intros H; apply andb_prop in H as [H1 H2];
    destruct rest as [|g rest']; try discriminate H1; destruct g; try discriminate H1;
    cbn in H1; apply N.eqb_eq in H1; subst; eauto.
Qed.
Lemma fc_rest (f : frame) rest : stk_ok (f :: rest) = true ->
  match f with
  | FC1 p _ | FC2 p _ =>
    rest = [] \/ (exists h b r af rest', rest = DP6 h b r af :: rest') \/ (exists h fo q ps rest', rest = HC4 h fo q ps :: rest')
  | _ => True
  end.
Proof.
  destruct f; auto; cbn [stk_ok]; intros H; apply andb_prop in H as [H1 H2];
    destruct rest as [|g rest']; auto; destruct g; try (destruct force; discriminate H1); right; eauto 10.
Qed.

Lemma step_TC1 c t p rest alt : Inv c -> th_stk (gett c t) = TC1 p :: rest ->
  good (fstep c t (gett c t) (TC1 p) rest alt).
Proof.
  intros I E. cbn [fstep].
  destruct (stack_facts c t _ _ I E) as (S1 & S2 & S3 & S4).
  assert (Hown : own (getp c p) t = true) by exact S2.
  rewrite (own_frame_alive _ _ _ Hown). cbn [negb]. unfold ok_s, ok_t, good.
  apply (step_top c t (TC1 p) rest [TC2 p _ _]); auto; top_side; try stk_ok_top.
  rewrite Hown. reflexivity.
Qed.

Lemma step_TC2 c t p f hd rest alt : Inv c -> th_stk (gett c t) = TC2 p f hd :: rest ->
  good (fstep c t (gett c t) (TC2 p f hd) rest alt).
Proof.
  intros I E. cbn [fstep].
  destruct (stack_facts c t _ _ I E) as (S1 & S2 & S3 & S4).
  assert (Hown : own (getp c p) t = true) by exact S2.
  rewrite (own_frame_alive _ _ _ Hown). cbn [negb]. unfold ok_s, ok_t, good.
  pose proof (i_wf _ I) as Hwf.
  destruct (alt || negb (word_eq f hd (getp c p))) eqn:Ec.
  { apply (step_top c t (TC2 p f hd) rest [TC2 p _ _]); auto; top_side; try stk_ok_top. rewrite Hown. reflexivity. }
  apply (step_top_word c t (TC2 p f hd) rest [TC3 p (pg_tf (getp c p))] (th_ret (gett c t)) p (pg_flag (getp c p)) []);
    auto; top_side; try cnt_goal; try stk_ok_top; try (apply own_frame_alive with t; assumption).
  - invB_setp c t E Hwf.
    + pose proof (b_win _ (i_B _ I) q) as W. destruct (q =? p) eqn:Eq;
        [apply N.eqb_eq in Eq; subst q; cbn [pg_flag pg_set_word]|]; lia.
    + pose proof (b_nd _ (i_B _ I) q) as ND. destruct (q =? p) eqn:Eq;
        [apply N.eqb_eq in Eq; subst q; cbn [pg_flag pg_set_word]|]; nd_tac ND.
  - rewrite Hown, (tf_local c p I). reflexivity.
Qed.

Lemma step_TC3 c t p tl rest alt : Inv c -> th_stk (gett c t) = TC3 p tl :: rest ->
  good (fstep c t (gett c t) (TC3 p tl) rest alt).
Proof.
  intros I E. cbn [fstep].
  destruct (stack_facts c t _ _ I E) as (S1 & S2 & S3 & S4).
  cbn [fr_ok] in S2. apply andb_prop in S2 as [Hown Htl].
  pose proof (tc_rest _ _ S1) as (force & rest' & ->).
  pose proof (stk_ok_tail _ _ S1) as S1'.
  pose proof (i_wf _ I) as Hwf.
  destruct tl as [|b0 tl0].
  { unfold ok_s, ok_t, good. apply (step_top c t (TC3 p []) _ [] (th_ret (gett c t))); auto; top_side. }
  set (tl := b0 :: tl0) in *. rewrite Hown. cbn [negb].
  (* the list is not longer than the capacity *)
  destruct (a_count _ (i_A _ I) p) as (C1 & C2 & C3 & C4).
  assert (Hlen : (length tl <= mW c (onp p))%nat).
  { pose proof (mW_ge_th c t (onp p)) as G. unfold th_W in G. rewrite E in G.
    rewrite stk_blocks_cons, cnt_app in G. cbn [fr_blocks] in G. rewrite (cnt_all _ _ Htl) in G. lia. }
  assert (Hcap : (pg_cap (getp c p) <? lenN tl) = false) by (apply N.ltb_ge; unfold lenN; lia).
  rewrite Hcap. unfold ok_s, ok_t, good.
  set (pg' := pg_set_lists (getp c p) (pg_free (getp c p)) (tl ++ pg_lfree (getp c p)) (sub16 (pg_used (getp c p)) (lenN tl))).
  apply (step_top_priv c t (TC3 p tl) _ [] (th_ret (gett c t)) p pg'); auto; top_side.
  (* InvA *)
  cbn [app].
  assert (EWF : forall P, (mW (sett (setp c p pg') t (th_set (gett c t) (FC2 p force :: rest') (th_ret (gett c t)))) P + cnt P tl = mW c P
                          /\ mF (sett (setp c p pg') t (th_set (gett c t) (FC2 p force :: rest') (th_ret (gett c t)))) P = mF c P + cnt P tl)%nat).
  { intros P. destruct (mWF_sett_setp c t (th_set (gett c t) (FC2 p force :: rest') (th_ret (gett c t))) p pg' P Hwf) as [E1 E2].
    unfold th_W in E1. rewrite E in E1. cbn [th_held th_stk th_set pg_tf pg_free pg_lfree pg' pg_set_lists] in E1, E2.
    rewrite !stk_blocks_cons in E1. cbn [fr_blocks app] in E1. rewrite !cnt_app in E1, E2. split; lia. }
  apply (invA_transfer c _ p tl); auto.
  - intros P. apply EWF.
  - intros P. apply EWF.
  - intros q. rewrite getp_sett, getp_setp. destruct (q =? p) eqn:Eq; [apply N.eqb_eq in Eq; subst q|]; reflexivity.
  - intros q. rewrite getp_sett, getp_setp. destruct (q =? p) eqn:Eq; reflexivity.
  - intros q. rewrite getp_sett, getp_setp. destruct (q =? p) eqn:Eq; [apply N.eqb_eq in Eq; subst q|apply (a_local _ (i_A _ I))].
    pose proof (a_local _ (i_A _ I) p) as L. unfold pg_blocks in *. cbn [pg_tf pg_free pg_lfree pg' pg_set_lists].
    rewrite !forallb_app in *. apply andb_prop in L as [L1 L2]. apply andb_prop in L2 as [L2 L3].
    rewrite L1, L2, L3, Htl. reflexivity.
Qed.

(* ---- _mi_page_free_collect ---- *)
Lemma step_FC1 c t p force rest alt : Inv c -> th_stk (gett c t) = FC1 p force :: rest ->
  good (fstep c t (gett c t) (FC1 p force) rest alt).
Proof.
  intros I E. cbn [fstep].
  destruct (stack_facts c t _ _ I E) as (S1 & S2 & S3 & S4).
  assert (Hown : own (getp c p) t = true) by exact S2.
  rewrite (own_frame_alive _ _ _ Hown). cbn [negb]. unfold ok_s, ok_t, good.
  pose proof (stk_ok_tail _ _ S1) as S1'.
  assert (Hs : stk_ok (FC2 p force :: rest) = true) by (cbn [stk_ok] in S1 |- *; exact S1).
  destruct force.
  - apply (step_top c t (FC1 p true) rest [TC2 p _ _; FC2 p true]); auto; top_side.
    + cbn [app stk_ok above_ok]. rewrite N.eqb_refl. exact Hs.
    + rewrite Hown. reflexivity.
  - destruct (isnil (pg_tf (getp c p))).
    + apply (step_top c t (FC1 p false) rest [FC2 p false]); auto; top_side.
      rewrite Hown. reflexivity.
    + apply (step_top c t (FC1 p false) rest [TC1 p; FC2 p false]); auto; top_side.
      * cbn [app stk_ok above_ok]. rewrite N.eqb_refl. exact Hs.
      * rewrite Hown. reflexivity.
Qed.

Lemma step_FC2 c t p force rest alt : Inv c -> th_stk (gett c t) = FC2 p force :: rest ->
  good (fstep c t (gett c t) (FC2 p force) rest alt).
Proof.
  intros I E. cbn [fstep].
  destruct (stack_facts c t _ _ I E) as (S1 & S2 & S3 & S4).
  assert (Hown : own (getp c p) t = true) by exact S2.
  rewrite Hown. cbn [negb].
  pose proof (stk_ok_tail _ _ S1) as S1'.
  pose proof (i_wf _ I) as Hwf.
  pose proof (fc_rest _ _ S1) as Hr. cbn in Hr.
  assert (Hpop : Inv (sett c t (th_set (gett c t) ([] ++ rest) (th_ret (gett c t))))).
  { destruct Hr as [->|[(h & b & r & af & rest' & ->)|(h & fo & q & ps & rest' & ->)]];
      apply (step_top c t (FC2 p force) _ [] (th_ret (gett c t))); auto; top_side. }
  assert (Hmove : forall fr', (forall P, cnt P fr' = cnt P (pg_free (getp c p)) + cnt P (pg_lfree (getp c p)))%nat ->
            Inv (sett (setp c p (pg_set_lists (getp c p) fr' [] (pg_used (getp c p)))) t
                      (th_set (gett c t) ([] ++ rest) (th_ret (gett c t))))).
  { intros fr' Hfr. set (pg' := pg_set_lists (getp c p) fr' [] (pg_used (getp c p))).
    assert (HA : InvA (sett (setp c p pg') t (th_set (gett c t) ([] ++ rest) (th_ret (gett c t))))).
    { cbn [app].
      assert (EWF : forall P, (mW (sett (setp c p pg') t (th_set (gett c t) rest (th_ret (gett c t)))) P = mW c P
                               /\ mF (sett (setp c p pg') t (th_set (gett c t) rest (th_ret (gett c t)))) P = mF c P)%nat).
      { intros P. destruct (mWF_sett_setp c t (th_set (gett c t) rest (th_ret (gett c t))) p pg' P Hwf) as [E1 E2].
        unfold th_W in E1. rewrite E in E1. cbn [th_held th_stk th_set pg_tf pg_free pg_lfree pg' pg_set_lists] in E1, E2.
        rewrite !stk_blocks_cons in E1. cbn [fr_blocks app] in E1. rewrite ?cnt_nil in E2. specialize (Hfr P). split; lia. }
      apply (invA_conserve c); auto.
      - intros P. destruct (EWF P) as [-> ->]. reflexivity.
      - intros q. rewrite getp_sett, getp_setp. destruct (q =? p) eqn:Eq; [apply N.eqb_eq in Eq; subst q|]; reflexivity.
      - intros q. destruct (EWF (onp q)) as [-> _]. rewrite getp_sett, getp_setp.
        destruct (a_count _ (i_A _ I) q) as [C1 _]. rewrite <- C1.
        destruct (q =? p) eqn:Eq; [apply N.eqb_eq in Eq; subst q|]; reflexivity.
      - intros q. rewrite getp_sett, getp_setp. destruct (q =? p) eqn:Eq; [apply N.eqb_eq in Eq; subst q|apply (a_local _ (i_A _ I))].
        pose proof (a_local _ (i_A _ I) p) as L. unfold pg_blocks in *. cbn [pg_tf pg_free pg_lfree pg' pg_set_lists].
        rewrite forallb_app in L. apply andb_prop in L as [L1 L2]. rewrite !forallb_app, L1. cbn [andb forallb]. rewrite andb_true_r.
        (* every block of fr' is a block of free ++ lfree *)
        apply forallb_forall. intros x Hx. rewrite forallb_forall in L2.
        destruct (onp p x) eqn:Ex; [reflexivity|]. exfalso.
        assert (1 <= cnt (bid_eqb x) fr')%nat by (apply cnt_In; assumption).
        rewrite Hfr, <- cnt_app in H. apply cnt_In in H. rewrite (L2 x H) in Ex. discriminate. }
    destruct Hr as [->|[(h & b & r & af & rest' & ->)|(h & fo & q & ps & rest' & ->)]];
      apply (step_top_priv c t (FC2 p force) _ [] (th_ret (gett c t)) p pg'); auto; top_side. }
  destruct (pg_lfree (getp c p)) as [|l0 lf0] eqn:El; [exact Hpop|].
  destruct (pg_free (getp c p)) as [|f0 fr0] eqn:Efr.
  - unfold ok_s, ok_t, good. apply Hmove. intros P. rewrite cnt_nil. lia.
  - destruct force; [|exact Hpop].
    unfold ok_s, ok_t, good. apply Hmove. intros P. rewrite cnt_app. lia.
Qed.
