(* The direct table law of heap->pages_free_direct is re-established by mi_heap_queue_first_update
   (property C16: "mi_good_size(n) equals the usable size of mi_malloc(n)" rests on it: the fast path
   of a small allocation pops from pages_free_direct[wsize(n)], which must be a page of class mi_bin(n)). *)
From Coq Require Import NArith List Bool Lia PeanoNat Arith.
From MiV Require Import Gen.Consts Gen.Bins Model.Arith Model.Direct Proofs.Base.
Import ListNotations.
Local Open Scope N_scope.

Definition upd (f : N -> N) (b v : N) : N -> N := fun x => if x =? b then v else f x.

(* a bin that pages are actually queued in, of a small size class *)
Definition used_small_bin (b : N) : bool :=
  (1 <=? b) && (b <? MI_BIN_HUGE) && (mi_bin (bin_size b) =? b) && (bin_size b <=? MI_SMALL_SIZE_MAX).

(* the index range the C code overwrites *)
Definition update_range (b : N) : N * N :=
  let size := bin_size b in
  let idx := wsize_from_size size in
  let start :=
    if idx <=? 1 then 0
    else let prev := prev_walk (N.to_nat b) (mi_bin size) (b - 1) in
         let st := 1 + wsize_from_size (bin_size prev) in
         if idx <? st then idx else st in
  (start, idx).

(* finite fact, by complete enumeration of all used small bins and all table indices: the overwritten
   range is exactly the set of word sizes served by that bin *)
Definition chk_range (b : N) : bool :=
  if used_small_bin b then
    let '(s, i) := update_range b in
    forallN (fun w => Bool.eqb ((s <=? w) && (w <=? i)) (mi_bin (8 * w) =? b)) MI_PAGES_DIRECT
  else true.

Lemma sweep_range : forallN chk_range MI_BIN_HUGE = true.
Proof. vm_compute. reflexivity. Qed.

Lemma range_spec b w : used_small_bin b = true -> w < MI_PAGES_DIRECT ->
  ((fst (update_range b) <=? w) && (w <=? snd (update_range b))) = (mi_bin (8 * w) =? b).
Proof.
  intros Hb Hw.
  assert (Hlt : b < MI_BIN_HUGE).
  { unfold used_small_bin in Hb. repeat (apply andb_prop in Hb as [Hb ?]). apply N.ltb_lt; assumption. }
  pose proof (forallN_spec _ _ sweep_range b Hlt) as H. unfold chk_range in H. rewrite Hb in H.
  destruct (update_range b) as [s i] eqn:E. cbn [fst snd].
  pose proof (forallN_spec _ _ H w Hw) as H2. cbn beta in H2. apply Bool.eqb_prop in H2. exact H2.
Qed.

Lemma nth_set_range (l : list N) (s i p k : N) (w : nat) :
  nth w (set_range l s i p k) 0 =
  if Nat.ltb w (length l) then (if (s <=? k + N.of_nat w) && (k + N.of_nat w <=? i) then p else nth w l 0) else 0.
Proof.
  revert k w. induction l as [|x r IH]; intros k w; cbn [set_range length].
  - destruct w; reflexivity.
  - destruct w as [|w].
    + cbn [nth]. replace (k + N.of_nat 0) with k by lia. reflexivity.
    + cbn [nth]. rewrite IH. replace (k + 1 + N.of_nat w) with (k + N.of_nat (S w)) by lia.
      destruct (Nat.ltb w (length r)) eqn:E1; destruct (Nat.ltb (S w) (S (length r))) eqn:E2; try reflexivity;
        apply Nat.ltb_lt in E1 || apply Nat.ltb_ge in E1; apply Nat.ltb_lt in E2 || apply Nat.ltb_ge in E2; lia.
Qed.

Lemma set_range_length l s i p k : length (set_range l s i p k) = length l.
Proof. revert k; induction l as [|x r IH]; intros k; cbn [set_range length]; [reflexivity|]. rewrite IH; reflexivity. Qed.

(* the law as a proposition *)
Definition direct_ok (direct : list N) (qfirst : N -> N) : Prop :=
  length direct = direct_len /\
  forall w, w < MI_PAGES_DIRECT -> nth (N.to_nat w) direct 0 = qfirst (mi_bin (8 * w)).

Lemma direct_ok_b_spec direct qf : direct_ok_b direct qf = true <-> direct_ok direct qf.
Proof.
  unfold direct_ok_b, direct_ok. rewrite andb_true_iff, Nat.eqb_eq, forallb_forall. split.
  - intros [Hl H]. split; [exact Hl|]. intros w Hw. apply N.eqb_eq. apply H.
    apply in_map_iff. exists (N.to_nat w). split; [lia|]. apply in_seq. unfold direct_len. lia.
  - intros [Hl H]. split; [exact Hl|]. intros x Hx. apply in_map_iff in Hx as (n & <- & Hn). apply in_seq in Hn.
    apply N.eqb_eq. apply H. unfold direct_len in Hn. lia.
Qed.

Lemma idx_in_range b : used_small_bin b = true ->
  snd (update_range b) < MI_PAGES_DIRECT /\ mi_bin (8 * snd (update_range b)) = b.
Proof.
  intros Hb.
  assert (Hlt : b < MI_BIN_HUGE).
  { unfold used_small_bin in Hb. repeat (apply andb_prop in Hb as [Hb ?]). apply N.ltb_lt; assumption. }
  (* finite: check for every used small bin *)
  assert (Hsweep : forallN (fun b => if used_small_bin b then (snd (update_range b) <? MI_PAGES_DIRECT) && (mi_bin (8 * snd (update_range b)) =? b) else true) MI_BIN_HUGE = true)
    by (vm_compute; reflexivity).
  pose proof (forallN_spec _ _ Hsweep b Hlt) as H. cbn beta in H. rewrite Hb in H.
  apply andb_prop in H as [H1 H2]. apply N.ltb_lt in H1. apply N.eqb_eq in H2. split; assumption.
Qed.

Lemma first_update_eq direct b first :
  first_update direct b first =
  if MI_SMALL_SIZE_MAX <? bin_size b then direct
  else if nth (N.to_nat (snd (update_range b))) direct 0 =? first then direct
  else set_range direct (fst (update_range b)) (snd (update_range b)) first 0.
Proof. reflexivity. Qed.

(* mi_heap_queue_first_update re-establishes the law after the first page of queue b changed *)
Theorem first_update_ok direct qf b first :
  used_small_bin b = true -> direct_ok direct qf -> direct_ok (first_update direct b first) (upd qf b first).
Proof.
  intros Hb [Hl Hok].
  assert (Hsmall : (MI_SMALL_SIZE_MAX <? bin_size b) = false).
  { unfold used_small_bin in Hb. apply andb_prop in Hb as [_ Hs]. apply N.ltb_ge. apply N.leb_le. exact Hs. }
  destruct (idx_in_range b Hb) as [Hidx Hbin].
  rewrite first_update_eq. rewrite Hsmall.
  destruct (nth (N.to_nat (snd (update_range b))) direct 0 =? first) eqn:Eset.
  - (* already set: by the law the queue's first page already was `first` *)
    apply N.eqb_eq in Eset. rewrite (Hok _ Hidx), Hbin in Eset.
    split; [exact Hl|]. intros w Hw. rewrite (Hok w Hw). unfold upd.
    destruct (mi_bin (8 * w) =? b) eqn:E; [apply N.eqb_eq in E; rewrite E; exact Eset|reflexivity].
  - split; [rewrite set_range_length; exact Hl|]. intros w Hw.
    rewrite nth_set_range.
    assert (Hlen : Nat.ltb (N.to_nat w) (length direct) = true).
    { apply Nat.ltb_lt. rewrite Hl. unfold direct_len. lia. }
    rewrite Hlen. replace (0 + N.of_nat (N.to_nat w)) with w by lia.
    rewrite (range_spec b w Hb Hw). unfold upd.
    destruct (mi_bin (8 * w) =? b) eqn:E; [reflexivity|apply Hok; exact Hw].
Qed.

(* consequence used by C16: under the law, the page the small fast path pops from belongs to the queue
   of the request's size class, for every small request size *)
Theorem small_fast_path_class direct qf size : direct_ok direct qf -> size <= MI_SMALL_SIZE_MAX ->
  small_page direct size = qf (mi_bin size).
Proof.
  intros [Hl Hok] Hs. unfold small_page.
  assert (Hsweep : forallN (fun s => (wsize_from_size s <? MI_PAGES_DIRECT) && (mi_bin (8 * wsize_from_size s) =? mi_bin s)) (MI_SMALL_SIZE_MAX + 1) = true)
    by (vm_compute; reflexivity).
  pose proof (forallN_spec _ _ Hsweep size ltac:(unfold MI_SMALL_SIZE_MAX in *; lia)) as H. cbn beta in H.
  apply andb_prop in H as [H1 H2]. apply N.ltb_lt in H1. apply N.eqb_eq in H2.
  rewrite (Hok _ H1), H2. reflexivity.
Qed.

Lemma direct_empty_ok : direct_ok direct_empty (fun _ => 0).
Proof. apply direct_ok_b_spec. vm_compute. reflexivity. Qed.
