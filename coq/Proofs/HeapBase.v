(* Proofs about the sequential model of first-class heaps (Model/Heap.v): the invariant of Appendix
   A.2 for all heaps of a thread, its boolean form, preservation by every operation, and the
   theorems of property C10 (sequential part). *)
From Coq Require Import NArith List Bool Lia Permutation.
From MiV Require Import Gen.Consts Model.Arith Proofs.Base Model.Heap.
Import ListNotations.
Local Open Scope N_scope.
Local Open Scope bool_scope.

Local Opaque MI_BIN_FULL MI_BIN_HUGE.

(* ================================================================================================ *)
(* 1. lists                                                                                          *)
(* ================================================================================================ *)
Lemma inb_spec x l : inb x l = true <-> In x l.
Proof.
  unfold inb. rewrite existsb_exists. split.
  - intros [y [Hy E]]. apply N.eqb_eq in E. subst. exact Hy.
  - intros H. exists x. split; [exact H|apply N.eqb_refl].
Qed.

Lemma inb_false x l : inb x l = false <-> ~ In x l.
Proof. rewrite <- inb_spec. destruct (inb x l); split; congruence. Qed.

Lemma nodupb_spec l : nodupb l = true <-> NoDup l.
Proof.
  induction l as [|x r IH]; cbn [nodupb].
  - split; [constructor|reflexivity].
  - rewrite andb_true_iff, negb_true_iff, inb_false, IH. split.
    + intros [A B]. constructor; assumption.
    + intros H. inversion H; subst. split; assumption.
Qed.

Lemma opt_eqb_spec a b : opt_eqb a b = true <-> a = b.
Proof.
  destruct a as [x|], b as [y|]; cbn; try (split; congruence).
  rewrite N.eqb_eq. split; congruence.
Qed.

Lemma opt_eqb_refl a : opt_eqb a a = true.
Proof. apply opt_eqb_spec. reflexivity. Qed.

Lemma qremove_In x y l : In y (qremove x l) <-> In y l /\ y <> x.
Proof.
  unfold qremove. rewrite filter_In, negb_true_iff, N.eqb_neq. reflexivity.
Qed.

Lemma qremove_NoDup x l : NoDup l -> NoDup (qremove x l).
Proof. apply NoDup_filter. Qed.

Lemma qremove_notin x l : ~ In x l -> qremove x l = l.
Proof.
  unfold qremove. induction l as [|y r IH]; cbn; [reflexivity|]. intros H.
  destruct (y =? x) eqn:E; cbn.
  - apply N.eqb_eq in E. subst. exfalso. apply H. left. reflexivity.
  - f_equal. apply IH. intros K. apply H. right. exact K.
Qed.

Lemma qremove_length x l : NoDup l -> In x l -> S (length (qremove x l)) = length l.
Proof.
  induction l as [|y r IH]; [cbn; tauto|]. intros ND Hin. inversion ND; subst.
  unfold qremove in *. cbn [filter length].
  destruct (y =? x) eqn:E; cbn [negb length].
  - apply N.eqb_eq in E. subst. pose proof (qremove_notin x r H1) as K. unfold qremove in K. rewrite K. reflexivity.
  - f_equal. apply IH; [assumption|]. destruct Hin as [->|K]; [rewrite N.eqb_refl in E; discriminate|exact K].
Qed.

Lemma NoDup_app_intro {A} (a b : list A) :
  NoDup a -> NoDup b -> (forall x, In x a -> In x b -> False) -> NoDup (a ++ b).
Proof.
  induction a as [|x r IH]; cbn; intros Na Nb D; [exact Nb|]. inversion Na; subst. constructor.
  - rewrite in_app_iff. intros [K|K]; [contradiction|]. apply (D x); [left; reflexivity|exact K].
  - apply IH; [assumption|assumption|]. intros y Hy. apply D. right. exact Hy.
Qed.

Lemma NoDup_app_inv {A} (a b : list A) :
  NoDup (a ++ b) -> NoDup a /\ NoDup b /\ (forall x, In x a -> In x b -> False).
Proof.
  induction a as [|x r IH]; cbn; intros H.
  - split; [constructor|]. split; [exact H|]. intros ? [].
  - inversion H; subst. destruct (IH H3) as [A1 [A2 A3]]. rewrite in_app_iff in H2. split; [|split].
    + constructor; [tauto|exact A1].
    + exact A2.
    + intros y [->|Hy] K; [tauto|]. eapply A3; eauto.
Qed.

Lemma is_nil_spec {A} (l : list A) : is_nil l = true <-> l = [].
Proof. destruct l; cbn; split; congruence. Qed.

(* ---- set_nth / qget / qset ---- *)
Lemma set_nth_length {A} n (x : A) l : length (set_nth n x l) = length l.
Proof. revert n. induction l as [|y r IH]; intros [|n]; cbn; auto. Qed.

Lemma nth_set_nth_same {A} n (x d : A) l : (n < length l)%nat -> nth n (set_nth n x l) d = x.
Proof.
  revert n. induction l as [|y r IH]; intros [|n] H; cbn in *; try lia; [reflexivity|].
  apply IH. lia.
Qed.

Lemma nth_set_nth_other {A} n m (x d : A) l : n <> m -> nth m (set_nth n x l) d = nth m l d.
Proof.
  revert n m. induction l as [|y r IH]; intros [|n] [|m] H; cbn; try reflexivity; try congruence.
  apply IH. congruence.
Qed.

Lemma in_all_bins i : In i all_bins <-> i <= MI_BIN_FULL.
Proof.
  unfold all_bins, NBINS. rewrite in_map_iff. split.
  - intros [n [E Hn]]. apply in_seq in Hn. subst. lia.
  - intros H. exists (N.to_nat i). split; [apply N2Nat.id|]. apply in_seq. lia.
Qed.

Lemma all_bins_NoDup : NoDup all_bins.
Proof.
  unfold all_bins. apply FinFun.Injective_map_NoDup; [|apply seq_NoDup].
  intros a b H. apply Nat2N.inj. exact H.
Qed.

Lemma qset_length qs i q : length (qset qs i q) = length qs.
Proof. apply set_nth_length. Qed.

Lemma qget_qset_same qs i q : length qs = NBINS -> i <= MI_BIN_FULL -> qget (qset qs i q) i = q.
Proof.
  intros L H. unfold qget, qset. apply nth_set_nth_same. rewrite L. unfold NBINS. lia.
Qed.

Lemma qget_qset_other qs i j q : i <> j -> qget (qset qs i q) j = qget qs j.
Proof.
  intros H. unfold qget, qset. apply nth_set_nth_other. intros E. apply H. apply N2Nat.inj. exact E.
Qed.

Lemma qget_beyond qs i : length qs = NBINS -> MI_BIN_FULL < i -> qget qs i = [].
Proof.
  intros L H. unfold qget. apply nth_overflow. rewrite L. unfold NBINS. lia.
Qed.

Lemma qget_in_bound qs i p : length qs = NBINS -> In p (qget qs i) -> i <= MI_BIN_FULL.
Proof.
  intros L H. destruct (N.le_gt_cases i MI_BIN_FULL) as [K|K]; [exact K|].
  rewrite (qget_beyond qs i L K) in H. destruct H.
Qed.

Lemma qget_repeat i : qget (repeat [] NBINS) i = [].
Proof.
  unfold qget. generalize (N.to_nat i) as n. generalize NBINS as m.
  induction m as [|m IH]; intros [|n]; cbn; auto.
Qed.

(* the pages of a heap: concatenation of the queues *)
Lemma flat_map_nth_seq (qs : list (list pid)) :
  flat_map (fun n => nth n qs []) (seq 0 (length qs)) = concat qs.
Proof.
  induction qs as [|q r IH]; [reflexivity|].
  cbn [length seq flat_map concat nth]. f_equal.
  rewrite <- seq_shift, flat_map_concat_map, map_map, <- flat_map_concat_map. exact IH.
Qed.

Lemma heap_pages_concat hp : length (queues hp) = NBINS -> heap_pages hp = concat (queues hp).
Proof.
  intros L. unfold heap_pages, all_bins. rewrite flat_map_concat_map, map_map, <- flat_map_concat_map.
  rewrite <- L. rewrite <- flat_map_nth_seq. apply flat_map_ext. intros n. unfold qget. rewrite Nat2N.id. reflexivity.
Qed.

Lemma concat_set_nth_length (qs : list (list pid)) n q :
  (n < length qs)%nat ->
  (length (concat (set_nth n q qs)) + length (nth n qs []) = length (concat qs) + length q)%nat.
Proof.
  revert n. induction qs as [|x r IH]; intros [|n] H; cbn in *; try lia.
  - rewrite !app_length. lia.
  - rewrite !app_length. specialize (IH n ltac:(lia)). lia.
Qed.

Lemma in_heap_pages hp p : In p (heap_pages hp) <-> exists i, i <= MI_BIN_FULL /\ In p (qget (queues hp) i).
Proof.
  unfold heap_pages. rewrite in_flat_map. split; intros [i [A B]]; exists i; split; auto; apply in_all_bins; exact A.
Qed.

(* ================================================================================================ *)
(* 2. lookups                                                                                        *)
(* ================================================================================================ *)
Lemma find_heap_some hs h hp : find_heap hs h = Some hp -> h_id hp = h /\ In hp hs.
Proof.
  induction hs as [|x r IH]; cbn; [discriminate|].
  destruct (h_id x =? h) eqn:E.
  - intros K. inversion K; subst. apply N.eqb_eq in E. auto.
  - intros K. destruct (IH K). auto.
Qed.

Lemma find_heap_none hs h : find_heap hs h = None <-> ~ In h (map h_id hs).
Proof.
  induction hs as [|x r IH]; cbn; [tauto|].
  destruct (h_id x =? h) eqn:E.
  - apply N.eqb_eq in E. split; [discriminate|]. intros K. exfalso. apply K. left. exact E.
  - apply N.eqb_neq in E. rewrite IH. tauto.
Qed.

Lemma find_heap_in hs hp : NoDup (map h_id hs) -> In hp hs -> find_heap hs (h_id hp) = Some hp.
Proof.
  induction hs as [|x r IH]; cbn; [tauto|]. intros ND [->|H].
  - rewrite N.eqb_refl. reflexivity.
  - inversion ND; subst. destruct (h_id x =? h_id hp) eqn:E.
    + apply N.eqb_eq in E. exfalso. apply H2. rewrite E. apply in_map. exact H.
    + apply IH; assumption.
Qed.

Lemma find_heap_is_some hs h : In h (map h_id hs) -> exists hp, find_heap hs h = Some hp.
Proof.
  intros H. destruct (find_heap hs h) eqn:E; [eauto|]. apply find_heap_none in E. contradiction.
Qed.

Lemma find_heap_map hs h f k : (forall hp, h_id (f hp) = h_id hp) ->
  find_heap (map (fun hp => if h_id hp =? h then f hp else hp) hs) k =
  if k =? h then option_map f (find_heap hs k) else find_heap hs k.
Proof.
  intros Hid. induction hs as [|x r IH]; cbn; [destruct (k =? h); reflexivity|].
  destruct (h_id x =? h) eqn:E.
  - rewrite Hid. destruct (h_id x =? k) eqn:E2.
    + apply N.eqb_eq in E, E2. subst. rewrite N.eqb_refl. reflexivity.
    + exact IH.
  - destruct (h_id x =? k) eqn:E2.
    + apply N.eqb_eq in E2. subst. rewrite E. reflexivity.
    + exact IH.
Qed.

Lemma map_id_upd hs h f : (forall hp, h_id (f hp) = h_id hp) ->
  map h_id (map (fun hp => if h_id hp =? h then f hp else hp) hs) = map h_id hs.
Proof.
  intros Hid. rewrite map_map. apply map_ext. intros x. destruct (h_id x =? h); [apply Hid|reflexivity].
Qed.

Lemma find_heap_filter hs h k :
  find_heap (filter (fun hp => negb (h_id hp =? h)) hs) k = if k =? h then None else find_heap hs k.
Proof.
  induction hs as [|x r IH]; cbn; [destruct (k =? h); reflexivity|].
  destruct (h_id x =? h) eqn:E; cbn.
  - rewrite IH. destruct (k =? h) eqn:E2; [reflexivity|].
    apply N.eqb_eq in E. subst. rewrite N.eqb_sym, E2. reflexivity.
  - destruct (h_id x =? k) eqn:E2.
    + apply N.eqb_eq in E2. subst. rewrite E. reflexivity.
    + exact IH.
Qed.

Lemma find_page_some ps p pi : find_page ps p = Some pi -> In (p, pi) ps.
Proof.
  induction ps as [|[k v] r IH]; cbn; [discriminate|].
  destruct (k =? p) eqn:E.
  - intros K. inversion K; subst. apply N.eqb_eq in E. subst. left. reflexivity.
  - intros K. right. apply IH. exact K.
Qed.

Lemma find_page_none ps p : find_page ps p = None <-> ~ In p (map fst ps).
Proof.
  induction ps as [|[k v] r IH]; cbn; [tauto|].
  destruct (k =? p) eqn:E.
  - apply N.eqb_eq in E. split; [discriminate|]. intros K. exfalso. apply K. left. exact E.
  - apply N.eqb_neq in E. rewrite IH. tauto.
Qed.

Lemma find_page_in ps p pi : NoDup (map fst ps) -> In (p, pi) ps -> find_page ps p = Some pi.
Proof.
  induction ps as [|[k v] r IH]; cbn; [tauto|]. intros ND [H|H].
  - inversion H; subst. rewrite N.eqb_refl. reflexivity.
  - inversion ND; subst. destruct (k =? p) eqn:E.
    + apply N.eqb_eq in E. subst. exfalso. apply H2. apply (in_map fst) in H. exact H.
    + apply IH; assumption.
Qed.

Lemma find_page_map ps p f q :
  find_page (map (fun kv => if fst kv =? p then (fst kv, f (snd kv)) else kv) ps) q =
  if q =? p then option_map f (find_page ps q) else find_page ps q.
Proof.
  induction ps as [|[k v] r IH]; cbn; [destruct (q =? p); reflexivity|].
  destruct (k =? p) eqn:E; cbn.
  - destruct (k =? q) eqn:E2.
    + apply N.eqb_eq in E, E2. subst. rewrite N.eqb_refl. reflexivity.
    + exact IH.
  - destruct (k =? q) eqn:E2.
    + apply N.eqb_eq in E2. subst. rewrite E. reflexivity.
    + exact IH.
Qed.

Lemma map_fst_upd (ps : list (pid * pinfo)) p f :
  map fst (map (fun kv => if fst kv =? p then (fst kv, f (snd kv)) else kv) ps) = map fst ps.
Proof. rewrite map_map. apply map_ext. intros [k v]. cbn. destruct (k =? p); reflexivity. Qed.

Lemma find_page_filter ps p q :
  find_page (filter (fun kv => negb (fst kv =? p)) ps) q = if q =? p then None else find_page ps q.
Proof.
  induction ps as [|[k v] r IH]; cbn; [destruct (q =? p); reflexivity|].
  destruct (k =? p) eqn:E; cbn.
  - rewrite IH. destruct (q =? p) eqn:E2; [reflexivity|].
    apply N.eqb_eq in E. subst. rewrite N.eqb_sym, E2. reflexivity.
  - destruct (k =? q) eqn:E2.
    + apply N.eqb_eq in E2. subst. rewrite E. reflexivity.
    + exact IH.
Qed.

Lemma find_home_some hm b oh : find_home hm b = Some oh -> In (b, oh) hm.
Proof.
  induction hm as [|[k v] r IH]; cbn; [discriminate|].
  destruct (k =? b) eqn:E.
  - intros K. inversion K; subst. apply N.eqb_eq in E. subst. left. reflexivity.
  - intros K. right. apply IH. exact K.
Qed.

Lemma find_home_none hm b : find_home hm b = None <-> ~ In b (map fst hm).
Proof.
  induction hm as [|[k v] r IH]; cbn; [tauto|].
  destruct (k =? b) eqn:E.
  - apply N.eqb_eq in E. split; [discriminate|]. intros K. exfalso. apply K. left. exact E.
  - apply N.eqb_neq in E. rewrite IH. tauto.
Qed.

Lemma find_desc_some ds h d : find_desc ds h = Some d -> In (h, d) ds.
Proof.
  induction ds as [|[k v] r IH]; cbn; [discriminate|].
  destruct (k =? h) eqn:E.
  - intros K. inversion K; subst. apply N.eqb_eq in E. subst. left. reflexivity.
  - intros K. right. apply IH. exact K.
Qed.

Lemma find_desc_none ds h : find_desc ds h = None <-> ~ In h (map fst ds).
Proof.
  induction ds as [|[k v] r IH]; cbn; [tauto|].
  destruct (k =? h) eqn:E.
  - apply N.eqb_eq in E. split; [discriminate|]. intros K. exfalso. apply K. left. exact E.
  - apply N.eqb_neq in E. rewrite IH. tauto.
Qed.

(* ---- state-level get after update ---- *)
Lemma get_heap_upd_heap s h f k : (forall hp, h_id (f hp) = h_id hp) ->
  get_heap (upd_heap s h f) k = if k =? h then option_map f (get_heap s k) else get_heap s k.
Proof. intros Hid. unfold get_heap, upd_heap. cbn. apply find_heap_map. exact Hid. Qed.

Lemma heap_ids_upd_heap s h f : (forall hp, h_id (f hp) = h_id hp) -> heap_ids (upd_heap s h f) = heap_ids s.
Proof. intros Hid. unfold heap_ids, upd_heap. cbn. apply map_id_upd. exact Hid. Qed.

Lemma get_page_upd_page s p f q :
  get_page (upd_page s p f) q = if q =? p then option_map f (get_page s q) else get_page s q.
Proof. unfold get_page, upd_page. cbn. apply find_page_map. Qed.

Lemma page_ids_upd_page s p f : page_ids (upd_page s p f) = page_ids s.
Proof. unfold page_ids, upd_page. cbn. apply map_fst_upd. Qed.

Lemma get_page_del_page s p q : get_page (del_page s p) q = if q =? p then None else get_page s q.
Proof. unfold get_page, del_page. cbn. apply find_page_filter. Qed.

Lemma get_page_add_page s p pi q : get_page (add_page s p pi) q = if p =? q then Some pi else get_page s q.
Proof. unfold get_page, add_page. cbn. reflexivity. Qed.

Lemma get_heap_some s h hp : get_heap s h = Some hp -> h_id hp = h /\ In hp (heaps s).
Proof. apply find_heap_some. Qed.

Lemma get_heap_in_ids s h hp : get_heap s h = Some hp -> In h (heap_ids s).
Proof.
  intros H. destruct (get_heap_some _ _ _ H) as [E I]. subst. unfold heap_ids. apply in_map. exact I.
Qed.

Lemma in_ids_get_heap s h : In h (heap_ids s) -> exists hp, get_heap s h = Some hp.
Proof. apply find_heap_is_some. Qed.

Lemma get_page_in s p pi : get_page s p = Some pi -> In (p, pi) (pages s).
Proof. apply find_page_some. Qed.

Lemma live_blocks_in s b : In b (live_blocks s) <-> exists p pi, In (p, pi) (pages s) /\ In b (blocks pi).
Proof.
  unfold live_blocks. rewrite in_flat_map. split.
  - intros [[p pi] [A B]]. exists p, pi. auto.
  - intros [p [pi [A B]]]. exists (p, pi). auto.
Qed.

Lemma live_blocks_upd_page s p f : (forall pi, blocks (f pi) = blocks pi) ->
  live_blocks (upd_page s p f) = live_blocks s.
Proof.
  intros Hb. unfold live_blocks, upd_page. cbn. induction (pages s) as [|[k v] r IH]; cbn; [reflexivity|].
  rewrite IH. destruct (k =? p); cbn; [rewrite Hb|]; reflexivity.
Qed.

(* ================================================================================================ *)
(* 3. the invariant (Appendix A.2 for every heap of the thread, plus blocks, descriptors, ghost)     *)
(* ================================================================================================ *)
Record heap_Inv (s : state) : Prop := {
  hi_hnodup : NoDup (heap_ids s);
  hi_pnodup : NoDup (page_ids s);
  hi_backing : In (backing s) (heap_ids s);
  hi_default : In (default s) (heap_ids s);
  (* every heap has MI_BIN_FULL+1 queues, no page twice in a queue, page_count = number of queued pages *)
  hi_qlen : forall h hp, get_heap s h = Some hp -> length (queues hp) = NBINS;
  hi_qnodup : forall h hp i, get_heap s h = Some hp -> NoDup (qget (queues hp) i);
  hi_count : forall h hp, get_heap s h = Some hp -> page_count hp = N.of_nat (length (heap_pages hp));
  (* a page in queue i of heap h: its heap is h; in_full <-> i = MI_BIN_FULL; otherwise i is its size class *)
  hi_queued : forall h hp i p, get_heap s h = Some hp -> In p (qget (queues hp) i) ->
      exists pi, get_page s p = Some pi /\ pheap pi = Some h /\ in_full pi = (i =? MI_BIN_FULL) /\
                 (i <> MI_BIN_FULL -> pbin pi = i);
  (* a page with a heap is in that heap's queue mi_page_bin(page); a page without heap is in no queue *)
  hi_page : forall p pi, get_page s p = Some pi ->
      pbin pi < MI_BIN_FULL /\ pcapb pi <= psize pi /\
      (forall b, In b (blocks pi) -> pstart pi <= b < pstart pi + pcapb pi) /\
      match pheap pi with
      | Some h => exists hp, get_heap s h = Some hp /\ In p (qget (queues hp) (page_qbin pi))
      | None => in_full pi = false
      end;
  hi_disjoint : forall p q pi qi, get_page s p = Some pi -> get_page s q = Some qi -> p <> q ->
      extent_disjoint pi qi = true;
  hi_bnodup : NoDup (live_blocks s);
  (* exactly the non-backing heaps have a descriptor *)
  hi_dnodup : NoDup (map fst (descs s));
  hi_descs : forall h, In h (map fst (descs s)) <-> In h (heap_ids s) /\ h <> backing s;
  (* ghost home heap: defined exactly on the live blocks, and equal to the heap of the block's page *)
  hi_hmnodup : NoDup (map fst (home s));
  hi_home_live : forall b, In b (map fst (home s)) -> In b (live_blocks s);
  hi_home : forall p pi b, get_page s p = Some pi -> In b (blocks pi) -> find_home (home s) b = Some (pheap pi)
}.

(* every descriptor is a live block of a page of the backing heap *)
Definition desc_Inv (s : state) : Prop :=
  forall h d, In (h, d) (descs s) ->
    exists p pi, get_page s p = Some pi /\ In d (blocks pi) /\ pheap pi = Some (backing s).

(* ---- derived facts ---- *)
Lemma inv_get_heap_in s hp : heap_Inv s -> In hp (heaps s) -> get_heap s (h_id hp) = Some hp.
Proof. intros I H. apply find_heap_in; [apply (hi_hnodup s I)|exact H]. Qed.

Lemma inv_get_page_in s p pi : heap_Inv s -> In (p, pi) (pages s) -> get_page s p = Some pi.
Proof. intros I H. apply find_page_in; [apply (hi_pnodup s I)|exact H]. Qed.

Lemma inv_queued_bound s h hp i p : heap_Inv s -> get_heap s h = Some hp -> In p (qget (queues hp) i) -> i <= MI_BIN_FULL.
Proof. intros I H K. eapply qget_in_bound; [eapply hi_qlen; eauto|exact K]. Qed.

(* "every page id occurs in exactly one queue of exactly one heap" *)
Lemma inv_queue_unique s h hp i h' hp' i' p : heap_Inv s ->
  get_heap s h = Some hp -> In p (qget (queues hp) i) ->
  get_heap s h' = Some hp' -> In p (qget (queues hp') i') -> h = h' /\ i = i'.
Proof.
  intros I H K H' K'.
  destruct (hi_queued s I _ _ _ _ H K) as [pi [G [A [B C]]]].
  destruct (hi_queued s I _ _ _ _ H' K') as [pi' [G' [A' [B' C']]]].
  rewrite G in G'. inversion G'; subst pi'. split; [congruence|].
  rewrite B in B'.
  destruct (N.eqb_spec i MI_BIN_FULL) as [E|E]; destruct (N.eqb_spec i' MI_BIN_FULL) as [E'|E']; try discriminate.
  - congruence.
  - rewrite <- (C E), <- (C' E'). reflexivity.
Qed.

Lemma inv_page_queue s p pi h : heap_Inv s -> get_page s p = Some pi -> pheap pi = Some h ->
  exists hp, get_heap s h = Some hp /\ In p (qget (queues hp) (page_qbin pi)).
Proof.
  intros I G E. destruct (hi_page s I _ _ G) as [_ [_ [_ M]]]. rewrite E in M. exact M.
Qed.

Lemma inv_queued_iff s h hp p : heap_Inv s -> get_heap s h = Some hp ->
  (In p (heap_pages hp) <-> exists pi, get_page s p = Some pi /\ pheap pi = Some h).
Proof.
  intros I H. rewrite in_heap_pages. split.
  - intros [i [_ K]]. destruct (hi_queued s I _ _ _ _ H K) as [pi [G [A _]]]. eauto.
  - intros [pi [G A]]. destruct (inv_page_queue _ _ _ _ I G A) as [hp' [H' K]].
    rewrite H in H'. inversion H'; subst hp'. exists (page_qbin pi). split; [|exact K].
    eapply inv_queued_bound; eauto.
Qed.

Lemma inv_heap_pages_nodup s h hp : heap_Inv s -> get_heap s h = Some hp -> NoDup (heap_pages hp).
Proof.
  intros I H. unfold heap_pages.
  assert (forall l, NoDup l -> (forall i, In i l -> i <= MI_BIN_FULL) -> NoDup (flat_map (qget (queues hp)) l)) as G.
  { induction l as [|i r IH]; intros ND B; cbn; [constructor|]. inversion ND; subst.
    apply NoDup_app_intro.
    - eapply hi_qnodup; eauto.
    - apply IH; [assumption|]. intros j Hj. apply B. right. exact Hj.
    - intros p A C. apply in_flat_map in C. destruct C as [j [Hj C]].
      destruct (inv_queue_unique _ _ _ _ _ _ _ _ I H A H C) as [_ E]. subst. contradiction. }
  apply G; [apply all_bins_NoDup|]. intros i Hi. apply in_all_bins. exact Hi.
Qed.

Lemma inv_visit s h hp : heap_Inv s -> get_heap s h = Some hp -> heap_visit_pages s h = heap_pages hp.
Proof.
  intros I H. unfold heap_visit_pages. rewrite H. destruct (page_count hp =? 0) eqn:E; [|reflexivity].
  apply N.eqb_eq in E. rewrite (hi_count s I _ _ H) in E.
  destruct (heap_pages hp); [reflexivity|cbn in E; lia].
Qed.

Lemma inv_block_page_unique s p q pi qi b : heap_Inv s ->
  get_page s p = Some pi -> get_page s q = Some qi -> In b (blocks pi) -> In b (blocks qi) -> p = q.
Proof.
  intros I Gp Gq Bp Bq. destruct (N.eq_dec p q) as [E|E]; [exact E|exfalso].
  pose proof (hi_disjoint s I _ _ _ _ Gp Gq E) as D.
  destruct (hi_page s I _ _ Gp) as [_ [Cp [Rp _]]]. destruct (hi_page s I _ _ Gq) as [_ [Cq [Rq _]]].
  specialize (Rp _ Bp). specialize (Rq _ Bq). unfold extent_disjoint in D.
  apply orb_true_iff in D. destruct D as [D|D]; apply N.leb_le in D; lia.
Qed.

Lemma inv_page_of_block s p pi b : heap_Inv s -> get_page s p = Some pi -> In b (blocks pi) ->
  page_of_block s b = Some (p, pi).
Proof.
  intros I G B. unfold page_of_block.
  destruct (hi_page s I _ _ G) as [_ [Cp [Rp _]]]. specialize (Rp _ B).
  assert (in_extent pi b = true) as X.
  { unfold in_extent. apply andb_true_iff. split; [apply N.leb_le|apply N.ltb_lt]; lia. }
  pose proof (get_page_in _ _ _ G) as Hin.
  destruct (find (fun kv => in_extent (snd kv) b) (pages s)) as [[q qi]|] eqn:F.
  - apply find_some in F. destruct F as [Fin Fx]. cbn in Fx.
    pose proof (inv_get_page_in _ _ _ I Fin) as Gq.
    destruct (N.eq_dec p q) as [E|E].
    + subst q. rewrite G in Gq. inversion Gq; subst. reflexivity.
    + exfalso. pose proof (hi_disjoint s I _ _ _ _ G Gq E) as D. unfold extent_disjoint in D.
      unfold in_extent in X, Fx. apply andb_true_iff in X, Fx. destruct X as [X1 X2], Fx as [F1 F2].
      apply N.leb_le in X1, F1. apply N.ltb_lt in X2, F2.
      apply orb_true_iff in D. destruct D as [D|D]; apply N.leb_le in D; lia.
  - exfalso. apply (find_none _ _ F) in Hin. cbn in Hin. congruence.
Qed.

Lemma inv_live_page s b : heap_Inv s -> In b (live_blocks s) ->
  exists p pi, get_page s p = Some pi /\ In b (blocks pi).
Proof.
  intros I H. apply live_blocks_in in H. destruct H as [p [pi [A B]]]. exists p, pi. split; [|exact B].
  apply inv_get_page_in; assumption.
Qed.

(* ================================================================================================ *)
(* 4. the boolean invariant is the invariant                                                         *)
(* ================================================================================================ *)
Lemma queue_ok_b_spec s h i q :
  queue_ok_b s h i q = true <->
  NoDup q /\ forall p, In p q -> exists pi, get_page s p = Some pi /\ pheap pi = Some h /\
                                  in_full pi = (i =? MI_BIN_FULL) /\ (i <> MI_BIN_FULL -> pbin pi = i).
Proof.
  unfold queue_ok_b. rewrite andb_true_iff, nodupb_spec, forallb_forall. split; intros [A B]; (split; [exact A|]); intros p Hp.
  - specialize (B p Hp). destruct (get_page s p) as [pi|]; [|discriminate]. exists pi.
    apply andb_true_iff in B. destruct B as [B B3]. apply andb_true_iff in B. destruct B as [B1 B2].
    apply opt_eqb_spec in B1. apply eqb_prop in B2. split; [reflexivity|]. split; [exact B1|]. split; [exact B2|].
    intros Hne. apply orb_true_iff in B3. destruct B3 as [B3|B3]; apply N.eqb_eq in B3; [contradiction|exact B3].
  - destruct (B p Hp) as [pi [G [E [F P]]]]. rewrite G. rewrite !andb_true_iff. split; [split|].
    + apply opt_eqb_spec. exact E.
    + rewrite F. apply eqb_reflx.
    + destruct (N.eqb_spec i MI_BIN_FULL) as [K|K]; [reflexivity|]. cbn. apply N.eqb_eq. apply P. exact K.
Qed.

Lemma heap_ok_b_spec s hp :
  heap_ok_b s hp = true <->
  length (queues hp) = NBINS /\
  (forall i, i <= MI_BIN_FULL -> queue_ok_b s (h_id hp) i (qget (queues hp) i) = true) /\
  page_count hp = N.of_nat (length (heap_pages hp)).
Proof.
  unfold heap_ok_b. rewrite !andb_true_iff, !N.eqb_eq, forallb_forall. split.
  - intros [[A B] C]. split; [|split].
    + apply Nat2N.inj. exact A.
    + intros i Hi. apply B. apply in_all_bins. exact Hi.
    + exact C.
  - intros [A [B C]]. split; [split|].
    + rewrite A. reflexivity.
    + intros i Hi. apply B. apply in_all_bins. exact Hi.
    + exact C.
Qed.

Definition page_ok (s : state) (p : pid) (pi : pinfo) : Prop :=
  pbin pi < MI_BIN_FULL /\ pcapb pi <= psize pi /\
  (forall b, In b (blocks pi) -> pstart pi <= b < pstart pi + pcapb pi) /\
  match pheap pi with
  | Some h => exists hp, get_heap s h = Some hp /\ In p (qget (queues hp) (page_qbin pi))
  | None => in_full pi = false
  end.

Lemma page_ok_b_spec s p pi :
  page_ok_b s (p, pi) = true <->
  page_ok s p pi /\
  (forall q qi, In (q, qi) (pages s) -> q <> p -> extent_disjoint pi qi = true) /\
  (forall b, In b (blocks pi) -> find_home (home s) b = Some (pheap pi)).
Proof.
  unfold page_ok_b, page_ok. cbn [fst snd]. rewrite !andb_true_iff, !forallb_forall, N.ltb_lt, N.leb_le.
  split.
  - intros [[[[[A B] C] D] E] F]. split; [split; [exact A|split; [exact B|split]]|split].
    + intros b Hb. specialize (C b Hb). apply andb_true_iff in C. destruct C as [C1 C2].
      apply N.leb_le in C1. apply N.ltb_lt in C2. lia.
    + destruct (pheap pi) as [h|].
      * destruct (get_heap s h) as [hp|]; [|discriminate]. exists hp. split; [reflexivity|]. apply inb_spec. exact D.
      * apply negb_true_iff in D. exact D.
    + intros q qi Hq Hne. specialize (E (q, qi) Hq). cbn in E. apply orb_true_iff in E. destruct E as [E|E]; [|exact E].
      apply N.eqb_eq in E. contradiction.
    + intros b Hb. specialize (F b Hb). destruct (find_home (home s) b) as [oh|]; [|discriminate].
      apply opt_eqb_spec in F. subst. reflexivity.
  - intros [[A [B [C D]]] [E F]]. split; [split; [split; [split; [split|]|]|]|].
    + exact A.
    + exact B.
    + intros b Hb. specialize (C b Hb). apply andb_true_iff. split; [apply N.leb_le|apply N.ltb_lt]; lia.
    + destruct (pheap pi) as [h|].
      * destruct D as [hp [G K]]. rewrite G. apply inb_spec. exact K.
      * rewrite D. reflexivity.
    + intros [q qi] Hq. cbn. destruct (N.eqb_spec q p) as [K|K]; [reflexivity|]. cbn. apply E with (q := q); assumption.
    + intros b Hb. rewrite (F b Hb). apply opt_eqb_refl.
Qed.

Lemma heap_inv_b_spec s : heap_inv_b s = true <-> heap_Inv s.
Proof.
  unfold heap_inv_b. rewrite !andb_true_iff, !nodupb_spec, !inb_spec, !forallb_forall. split.
  - intros [[[[[[[[[[[A1 A2] A3] A4] A5] A6] A7] A8] A9] A10] A11] A12].
    assert (forall h hp, get_heap s h = Some hp -> h_id hp = h /\ heap_ok_b s hp = true) as HK.
    { intros h hp H. destruct (get_heap_some _ _ _ H) as [E Hin]. split; [exact E|]. apply A5. exact Hin. }
    constructor; try assumption.
    + intros h hp H. destruct (HK _ _ H) as [_ K]. apply heap_ok_b_spec in K. tauto.
    + intros h hp i H. destruct (HK _ _ H) as [_ K]. apply heap_ok_b_spec in K. destruct K as [L [Q _]].
      destruct (N.le_gt_cases i MI_BIN_FULL) as [B|B].
      * specialize (Q i B). apply queue_ok_b_spec in Q. tauto.
      * rewrite (qget_beyond _ _ L B). constructor.
    + intros h hp H. destruct (HK _ _ H) as [_ K]. apply heap_ok_b_spec in K. tauto.
    + intros h hp i p H Hin. destruct (HK _ _ H) as [E K]. apply heap_ok_b_spec in K. destruct K as [L [Q _]].
      pose proof (qget_in_bound _ _ _ L Hin) as B. specialize (Q i B). apply queue_ok_b_spec in Q.
      destruct Q as [_ Q]. rewrite E in Q. apply Q. exact Hin.
    + intros p pi G. pose proof (A6 _ (get_page_in _ _ _ G)) as K. apply page_ok_b_spec in K. exact (proj1 K).
    + intros p q pi qi Gp Gq Hne. pose proof (A6 _ (get_page_in _ _ _ Gp)) as K. apply page_ok_b_spec in K.
      destruct K as [_ [K _]]. apply (K q qi); [apply get_page_in; exact Gq|congruence].
    + intros h. split.
      * intros Hin. apply in_map_iff in Hin. destruct Hin as [[k d] [E Hin]]. cbn in E. subst k.
        specialize (A9 _ Hin). cbn in A9. apply andb_true_iff in A9. destruct A9 as [X Y].
        apply inb_spec in X. apply negb_true_iff, N.eqb_neq in Y. auto.
      * intros [Hin Hne]. specialize (A10 _ Hin). apply orb_true_iff in A10. destruct A10 as [X|X].
        -- apply N.eqb_eq in X. contradiction.
        -- apply inb_spec in X. exact X.
    + intros b Hb. apply in_map_iff in Hb. destruct Hb as [[k oh] [E Hin]]. cbn in E. subst k.
      specialize (A12 _ Hin). cbn in A12. apply inb_spec in A12. exact A12.
    + intros p pi b G Hb. pose proof (A6 _ (get_page_in _ _ _ G)) as K. apply page_ok_b_spec in K.
      destruct K as [_ [_ K]]. apply K. exact Hb.
  - intros I. repeat split.
    + apply (hi_hnodup s I).
    + apply (hi_pnodup s I).
    + apply (hi_backing s I).
    + apply (hi_default s I).
    + intros hp Hin. pose proof (inv_get_heap_in _ _ I Hin) as G. apply heap_ok_b_spec. split; [|split].
      * eapply hi_qlen; eauto.
      * intros i Hi. apply queue_ok_b_spec. split; [eapply hi_qnodup; eauto|].
        intros p Hp. eapply hi_queued; eauto.
      * eapply hi_count; eauto.
    + intros [p pi] Hin. pose proof (inv_get_page_in _ _ _ I Hin) as G. apply page_ok_b_spec. split; [|split].
      * apply (hi_page s I _ _ G).
      * intros q qi Hq Hne. eapply (hi_disjoint s I p q); eauto. apply inv_get_page_in; assumption.
      * intros b Hb. eapply hi_home; eauto.
    + apply (hi_bnodup s I).
    + apply (hi_dnodup s I).
    + intros [k d] Hin. cbn. assert (In k (map fst (descs s))) as K by (apply in_map_iff; exists (k, d); auto).
      apply (hi_descs s I) in K. destruct K as [K1 K2]. apply andb_true_iff. split; [apply inb_spec; exact K1|].
      apply negb_true_iff, N.eqb_neq. exact K2.
    + intros h Hin. destruct (N.eqb_spec h (backing s)) as [E|E]; [reflexivity|]. cbn. apply inb_spec.
      apply (hi_descs s I). auto.
    + apply (hi_hmnodup s I).
    + intros [b oh] Hin. cbn. apply inb_spec. apply (hi_home_live s I). apply in_map_iff. exists (b, oh). auto.
Qed.

Lemma desc_inv_b_spec s : heap_Inv s -> (desc_inv_b s = true <-> desc_Inv s).
Proof.
  intros I. unfold desc_inv_b, desc_Inv. rewrite forallb_forall. split.
  - intros H h d Hin. specialize (H _ Hin). cbn in H. apply existsb_exists in H. destruct H as [[p pi] [Hp K]].
    cbn in K. apply andb_true_iff in K. destruct K as [K1 K2]. apply inb_spec in K1. apply opt_eqb_spec in K2.
    exists p, pi. split; [apply inv_get_page_in; assumption|]. auto.
  - intros H [h d] Hin. cbn. destruct (H _ _ Hin) as [p [pi [G [B E]]]]. apply existsb_exists.
    exists (p, pi). split; [apply get_page_in; exact G|]. cbn. apply andb_true_iff. split; [apply inb_spec; exact B|].
    apply opt_eqb_spec. exact E.
Qed.
