(* The segment invariant (translation of mi_segment_is_valid, DESIGN Appendix A.3) as a proposition, and
   the proof that the boolean span_invP_b of Model/Span.v decides it. *)
From Coq Require Import NArith ZArith Lia Bool List.
From Coq Require Import ZifyN ZifyBool.
From MiV Require Import Gen.Consts Gen.Bins Model.Arith Model.Span Proofs.Base Proofs.SpanBase.
Import ListNotations.
Local Open Scope N_scope.

(* a page in use: valid back-offsets in the first MI_MAX_SLICE_OFFSET_COUNT followers and in the last
   entry (the entry at slice_entries itself when a huge page has more slices than entries) *)
Definition used_ok (sg : segment) (i c : N) : Prop :=
  let es := entries sg in let n := slice_entries sg in
  (forall k, 1 <= k -> k <= MI_MAX_SLICE_OFFSET_COUNT -> i + k <= N.min (i + c) n - 1 ->
     get es (i + k) = follower k) /\
  (i < N.min (i + c - 1) n -> get es (N.min (i + c - 1) n) = follower (N.min (i + c - 1) n - i)) /\
  (kind sg = SegHuge -> n < i + c -> i < n - 1 ->
     slice_count (get es (n - 1)) = 0 /\ bsz (get es (n - 1)) <= 1).

(* a free span: only the last entry needs a valid back-offset; it sits in the queue of its bin *)
Definition free_ok (sg : segment) (qs : queues) (i c : N) : Prop :=
  let es := entries sg in let n := slice_entries sg in
  let maxindex := N.min (i + c) n - 1 in
  let last := get es maxindex in
  (kind sg = SegNormal \/ c <= n - info_slices sg -> slice_offset last = (maxindex - i) * sizeof_mi_slice_t) /\
  (i = maxindex \/ slice_count last = 0) /\
  (bsz last = 0 \/ (kind sg = SegHuge /\ bsz last = 1)) /\
  (queued sg = true -> In i (q_get qs (slice_bin c))).

Definition span_ok (sg : segment) (qs : queues) (sp : N * N) : Prop :=
  let i := fst sp in let c := snd sp in
  let e := get (entries sg) i in
  c < 4294967296 /\ (kind sg = SegNormal -> i + c <= slice_entries sg) /\
  (0 < bsz e -> used_ok sg i c) /\
  (bsz e = 0 -> free_ok sg qs i c).

(* the queues hold exactly first entries of free spans of this segment, each once, in the bin of its count *)
Definition queues_ok (sg : segment) (sps : list (N * N)) (qs : queues) : Prop :=
  len qs = MI_SEGMENT_BIN_MAX + 1 /\
  (forall b, NoDup (q_get qs b)) /\
  (forall b i, In i (q_get qs b) ->
     bsz (get (entries sg) i) = 0 /\ In (i, slice_count (get (entries sg) i)) sps /\
     slice_bin (slice_count (get (entries sg) i)) = b) /\
  (queued sg = false -> forall b, q_get qs b = []).

(* a huge segment consists of the info span and one page *)
Definition huge_shape (sg : segment) (sps : list (N * N)) : Prop :=
  match kind sg with
  | SegHuge => exists c, sps = [(0, info_slices sg); (info_slices sg, c)]
  | SegNormal => True
  end.

(* U stands for `used` (kept as a parameter: mi_segment_page_clear decrements `used` after the span operations) *)
Definition span_Inv_with (U : N) (st : state) (sps : list (N * N)) (m : N) : Prop :=
  let sg := fst st in let qs := snd st in
  let es := entries sg in let n := slice_entries sg in
  tiles 0 m sps /\ n <= m /\ Forall (first_ok es n) sps /\
  Forall (span_ok sg qs) sps /\
  (exists r, sps = (0, info_slices sg) :: r) /\ huge_shape sg sps /\ 0 < bsz (get es 0) /\
  U + 1 = count_used es sps /\
  len es = n + 1 /\ n <= MI_SLICES_PER_SEGMENT /\
  queues_ok sg sps qs.

(* the invariant: mi_segment_is_valid + queue exactness *)
Definition span_Inv (st : state) : Prop := exists sps m, span_Inv_with (used (fst st)) st sps m.

(* ------------------------------------------------------------------------------------- *)
(* reflection                                                                              *)
(* ------------------------------------------------------------------------------------- *)

Lemma slice_eqb_eq a b : slice_eqb a b = true <-> a = b.
Proof.
  unfold slice_eqb. destruct a as [a1 a2 a3], b as [b1 b2 b3]. cbn.
  rewrite !andb_true_iff, !N.eqb_eq. split.
  - intros [[-> ->] ->]. reflexivity.
  - intros E. inversion E. auto.
Qed.

Lemma In_nrange k s n : In k (nrange s n) <-> s <= k /\ k < s + N.of_nat n.
Proof.
  revert s; induction n as [|n IH]; intros s; cbn [nrange].
  - cbn. lia.
  - cbn [In]. rewrite IH. lia.
Qed.

Lemma kind_is_huge_true sg : kind_is_huge sg = true <-> kind sg = SegHuge.
Proof. unfold kind_is_huge. destruct (kind sg); split; congruence. Qed.

Lemma kind_is_huge_false sg : kind_is_huge sg = false <-> kind sg = SegNormal.
Proof. unfold kind_is_huge. destruct (kind sg); split; congruence. Qed.

Lemma used_ok_b_spec sg i c : used_ok_b sg i c = true <-> used_ok sg i c.
Proof.
  unfold used_ok_b, used_ok. cbv zeta. rewrite !andb_true_iff.
  assert (H1 : forallb (fun k => (N.min (i + c) (slice_entries sg) - 1 <? i + k)
                                || slice_eqb (get (entries sg) (i + k)) (follower k))
                  (nrange 1 (N.to_nat MI_MAX_SLICE_OFFSET_COUNT)) = true <->
               (forall k, 1 <= k -> k <= MI_MAX_SLICE_OFFSET_COUNT -> i + k <= N.min (i + c) (slice_entries sg) - 1 ->
                  get (entries sg) (i + k) = follower k)).
  { rewrite forallb_forall. split.
    - intros H k Hk1 Hk2 Hk3. specialize (H k). rewrite In_nrange in H.
      assert (Hr : 1 <= k /\ k < 1 + N.of_nat (N.to_nat MI_MAX_SLICE_OFFSET_COUNT)) by lia.
      specialize (H Hr). apply orb_true_iff in H as [H|H]; [apply N.ltb_lt in H; lia|].
      apply slice_eqb_eq in H. exact H.
    - intros H k Hin. apply In_nrange in Hin. apply orb_true_iff.
      destruct (N.min (i + c) (slice_entries sg) - 1 <? i + k) eqn:E; [left; reflexivity|right].
      apply N.ltb_ge in E. apply slice_eqb_eq. apply H; lia. }
  rewrite H1. clear H1.
  assert (H2 : negb (i <? N.min (i + c - 1) (slice_entries sg))
               || slice_eqb (get (entries sg) (N.min (i + c - 1) (slice_entries sg)))
                            (follower (N.min (i + c - 1) (slice_entries sg) - i)) = true <->
               (i < N.min (i + c - 1) (slice_entries sg) ->
                get (entries sg) (N.min (i + c - 1) (slice_entries sg)) = follower (N.min (i + c - 1) (slice_entries sg) - i))).
  { rewrite orb_true_iff, negb_true_iff, N.ltb_ge, slice_eqb_eq. split.
    - intros [H|H] Hlt; [lia|assumption].
    - intros H. destruct (N.lt_ge_cases i (N.min (i + c - 1) (slice_entries sg))); [right; auto|left; assumption]. }
  rewrite H2. clear H2.
  assert (H3 : negb (kind_is_huge sg && (slice_entries sg <? i + c) && (i <? slice_entries sg - 1))
               || (slice_count (get (entries sg) (slice_entries sg - 1)) =? 0)
                  && (bsz (get (entries sg) (slice_entries sg - 1)) <=? 1) = true <->
               (kind sg = SegHuge -> slice_entries sg < i + c -> i < slice_entries sg - 1 ->
                slice_count (get (entries sg) (slice_entries sg - 1)) = 0 /\ bsz (get (entries sg) (slice_entries sg - 1)) <= 1)).
  { rewrite orb_true_iff, negb_true_iff, !andb_false_iff, andb_true_iff, N.eqb_eq, N.leb_le, !N.ltb_ge.
    rewrite <- not_true_iff_false, kind_is_huge_true. split.
    - intros [[[H|H]|H]|H] Hk H4 H5; try contradiction; try lia; try assumption.
    - intros H. destruct (kind sg) eqn:Ek.
      + left; left; left. congruence.
      + destruct (N.le_gt_cases (i + c) (slice_entries sg)); [left; left; right; assumption|].
        destruct (N.le_gt_cases (slice_entries sg - 1) i); [left; right; assumption|].
        right. apply H; auto. }
  rewrite H3. tauto.
Qed.

Lemma queued_false sg : queued sg = false <-> (kind sg = SegHuge \/ owned sg = false).
Proof. unfold queued. destruct (kind sg), (owned sg); split; intros; try tauto; try congruence; destruct H; congruence. Qed.

Lemma free_ok_b_spec sg qs i c : free_ok_b sg qs i c = true <-> free_ok sg qs i c.
Proof.
  unfold free_ok_b, free_ok. cbv zeta. rewrite !andb_true_iff.
  set (mx := N.min (i + c) (slice_entries sg) - 1).
  assert (H1 : negb (negb (kind_is_huge sg) || (c <=? slice_entries sg - info_slices sg))
               || (slice_offset (get (entries sg) mx) =? (mx - i) * sizeof_mi_slice_t) = true <->
               (kind sg = SegNormal \/ c <= slice_entries sg - info_slices sg ->
                slice_offset (get (entries sg) mx) = (mx - i) * sizeof_mi_slice_t)).
  { rewrite orb_true_iff, negb_true_iff, orb_false_iff, negb_false_iff, N.eqb_eq, N.leb_gt, kind_is_huge_true.
    split.
    - intros [[Hk Hc]|H] [Hn|Hle]; try assumption; try congruence; try lia.
    - intros H. destruct (kind sg) eqn:Ek; [right; apply H; left; reflexivity|].
      destruct (N.le_gt_cases c (slice_entries sg - info_slices sg)); [right; apply H; right; assumption|].
      left. split; [reflexivity|assumption]. }
  rewrite H1. clear H1.
  rewrite !orb_true_iff, !N.eqb_eq, andb_true_iff, N.eqb_eq, kind_is_huge_true, negb_true_iff.
  rewrite memNb_In.
  assert (H4 : (queued sg = false \/ In i (q_get qs (slice_bin c))) <-> (queued sg = true -> In i (q_get qs (slice_bin c)))).
  { destruct (queued sg); split; intros; auto; try tauto; destruct H; congruence. }
  rewrite H4. tauto.
Qed.

Lemma span_ok_b_spec sg qs sp : span_ok_b sg qs sp = true <-> span_ok sg qs sp.
Proof.
  destruct sp as [i c]. unfold span_ok_b, span_ok. cbn [fst snd]. cbv zeta.
  rewrite !andb_true_iff, N.ltb_lt, orb_true_iff, N.leb_le, kind_is_huge_true.
  assert (Hk : (kind sg = SegHuge \/ i + c <= slice_entries sg) <-> (kind sg = SegNormal -> i + c <= slice_entries sg)).
  { destruct (kind sg); split; intros; auto; try tauto; try congruence. destruct H; [congruence|assumption]. }
  rewrite Hk. clear Hk.
  destruct (0 <? bsz (get (entries sg) i)) eqn:Eb.
  - apply N.ltb_lt in Eb. rewrite used_ok_b_spec. split.
    + intros [[H1 H2] H3]. split; [assumption|]. split; [assumption|].
      split; [intros; assumption|intros; lia].
    + intros (H1 & H2 & H4 & _). auto.
  - apply N.ltb_ge in Eb. rewrite free_ok_b_spec. split.
    + intros [[H1 H2] H3]. split; [assumption|]. split; [assumption|].
      split; [intros; lia|intros; assumption].
    + intros (H1 & H2 & _ & H5). split; [split; assumption|]. apply H5. lia.
Qed.

Lemma mem_span_In i c sps : mem_span i c sps = true <-> In (i, c) sps.
Proof.
  unfold mem_span. rewrite existsb_exists. split.
  - intros ([j d] & Hin & E). cbn in E. apply andb_prop in E as [E1 E2].
    apply N.eqb_eq in E1, E2. subst. assumption.
  - intros H. exists (i, c). split; [assumption|]. cbn. rewrite !N.eqb_refl. reflexivity.
Qed.

Lemma queues_ok_b_spec es sps qs b0 :
  queues_ok_b es sps qs b0 = true <->
  (forall b, NoDup (q_get qs b) /\
     forall i, In i (q_get qs b) -> bsz (get es i) = 0 /\ In (i, slice_count (get es i)) sps /\
                                    slice_bin (slice_count (get es i)) = b0 + b).
Proof.
  revert b0; induction qs as [|q r IH]; intros b0; cbn [queues_ok_b].
  - split; [|reflexivity]. intros _ b. rewrite q_get_nil. split; [constructor|intros i []].
  - rewrite !andb_true_iff, IH, nodupNb_spec, forallb_forall. split.
    + intros [[H1 H2] H3] b. rewrite q_get_cons. destruct (b =? 0) eqn:E.
      * apply N.eqb_eq in E. subst. split; [assumption|]. intros i Hin. specialize (H2 i Hin).
        rewrite !andb_true_iff, !N.eqb_eq, mem_span_In in H2. destruct H2 as [[Ha Hb] Hc].
        repeat split; auto. lia.
      * apply N.eqb_neq in E. destruct (H3 (b - 1)) as [Ha Hb]. split; [assumption|].
        intros i Hin. destruct (Hb i Hin) as (Hx & Hy & Hz). repeat split; auto. lia.
    + intros H. split; [split|].
      * specialize (H 0). rewrite q_get_cons in H. cbn in H. apply H.
      * intros i Hin. specialize (H 0). rewrite q_get_cons in H. cbn [N.eqb] in H. destruct H as [_ H].
        destruct (H i Hin) as (Hx & Hy & Hz).
        rewrite !andb_true_iff, !N.eqb_eq, mem_span_In. repeat split; auto. lia.
      * intros b. specialize (H (b + 1)). rewrite q_get_cons in H.
        assert (E : (b + 1 =? 0) = false) by (apply N.eqb_neq; lia). rewrite E in H.
        replace (b + 1 - 1) with b in H by lia. destruct H as [Ha Hb]. split; [assumption|].
        intros i Hin. destruct (Hb i Hin) as (Hx & Hy & Hz). repeat split; auto. lia.
Qed.

Lemma all_nil_spec (qs : queues) : forallb is_nil qs = true <-> forall b, q_get qs b = [].
Proof.
  induction qs as [|q r IH]; cbn [forallb].
  - split; [intros _ b; apply q_get_nil|reflexivity].
  - rewrite andb_true_iff, IH. split.
    + intros [H1 H2] b. rewrite q_get_cons. destruct (b =? 0); [|apply H2].
      destruct q; [reflexivity|discriminate].
    + intros H. split.
      * specialize (H 0). rewrite q_get_cons in H. cbn in H. subst. reflexivity.
      * intros b. specialize (H (b + 1)). rewrite q_get_cons in H.
        assert (E : (b + 1 =? 0) = false) by (apply N.eqb_neq; lia). rewrite E in H.
        replace (b + 1 - 1) with b in H by lia. exact H.
Qed.

Lemma spans_of_sound sg sps : spans_of sg = Some sps ->
  exists m, tiles 0 m sps /\ slice_entries sg <= m /\ Forall (first_ok (entries sg) (slice_entries sg)) sps.
Proof. unfold spans_of. apply walk_sound. lia. Qed.

Lemma spans_of_complete sg sps m :
  tiles 0 m sps -> slice_entries sg <= m -> Forall (first_ok (entries sg) (slice_entries sg)) sps ->
  len (entries sg) = slice_entries sg + 1 -> spans_of sg = Some sps.
Proof.
  intros Ht Hm Hf Hl. unfold spans_of. apply (walk_complete _ _ m); auto; try lia.
  unfold len in Hl. lia.
Qed.

Theorem span_inv_b_spec st : span_inv_b st = true <-> span_Inv st.
Proof.
  destruct st as [sg qs]. unfold span_inv_b, span_Inv, span_Inv_with. cbn [fst snd]. cbv zeta. split.
  - destruct (spans_of sg) as [sps|] eqn:Es; [|discriminate].
    rewrite !andb_true_iff. intros [[[[[[[[[H1 H2] Hh] H3] H6] H7] H8] H9] H10] H11].
    destruct (spans_of_sound _ _ Es) as (m & Ht & Hm & Hf).
    exists sps, m.
    split; [exact Ht|]. split; [exact Hm|]. split; [exact Hf|].
    split. { apply Forall_forall. intros sp Hin. apply span_ok_b_spec. rewrite forallb_forall in H1. apply H1; assumption. }
    split. { destruct sps as [|[i c] r]; [discriminate|]. apply andb_prop in H2 as [Ha Hb].
             apply N.eqb_eq in Ha, Hb. subst. exists r. reflexivity. }
    split. { unfold huge_shape. destruct (kind sg) eqn:Ek; [exact I|].
             assert (Ekh : kind_is_huge sg = true) by (apply kind_is_huge_true; assumption).
             rewrite Ekh in Hh. cbn [negb orb] in Hh.
             destruct sps as [|[i0 c0] [|[i1 c1] [|x t]]]; try discriminate.
             apply andb_prop in H2 as [Ha Hb]. apply N.eqb_eq in Ha, Hb, Hh. subst. exists c1. reflexivity. }
    split. { apply N.ltb_lt in H3. exact H3. }
    split. { apply N.eqb_eq in H6. exact H6. }
    split. { apply N.eqb_eq in H7. exact H7. }
    split. { apply N.leb_le in H8. exact H8. }
    unfold queues_ok.
    split. { apply N.eqb_eq in H9. exact H9. }
    split. { intros b. apply (proj1 (queues_ok_b_spec _ _ _ 0) H10 b). }
    split. { intros b i Hin. destruct (proj1 (queues_ok_b_spec _ _ _ 0) H10 b) as [_ H]. destruct (H i Hin) as (Ha & Hb & Hc).
             split; [assumption|]. split; [assumption|]. rewrite Hc. reflexivity. }
    intros Hq. apply orb_true_iff in H11 as [H|H]; [congruence|]. apply all_nil_spec. assumption.
  - intros (sps & m & Ht & Hm & Hf & Hok & (r & Er) & Hhs & Hb0 & Hu & Hl & Hn & (Q1 & Q2 & Q3 & Q4)).
    rewrite (spans_of_complete sg sps m Ht Hm Hf Hl).
    rewrite !andb_true_iff.
    split; [split; [split; [split; [split; [split; [split; [split; [split|]|]|]|]|]|]|]|].
    + apply forallb_forall. intros sp Hin. apply span_ok_b_spec. rewrite Forall_forall in Hok. apply Hok; assumption.
    + subst sps. rewrite !N.eqb_refl. reflexivity.
    + unfold huge_shape in Hhs. destruct (kind sg) eqn:Ek.
      * assert (Ekh : kind_is_huge sg = false) by (apply kind_is_huge_false; assumption). rewrite Ekh. reflexivity.
      * assert (Ekh : kind_is_huge sg = true) by (apply kind_is_huge_true; assumption). rewrite Ekh.
        destruct Hhs as (c & ->). cbn. apply N.eqb_refl.
    + apply N.ltb_lt. exact Hb0.
    + apply N.eqb_eq. exact Hu.
    + apply N.eqb_eq. exact Hl.
    + apply N.leb_le. exact Hn.
    + apply N.eqb_eq. exact Q1.
    + apply (queues_ok_b_spec _ _ _ 0). intros b. split; [apply Q2|]. intros i Hin.
      destruct (Q3 b i Hin) as (Ha & Hb & Hc). split; [assumption|]. split; [assumption|]. rewrite Hc. reflexivity.
    + destruct (queued sg) eqn:Eq; [reflexivity|]. cbn. apply all_nil_spec. apply Q4. reflexivity.
Qed.
