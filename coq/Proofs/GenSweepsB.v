(* Part B of the finite sweeps over the GENERATED functions of Gen/Funcs.v (complete enumerations by vm_compute);
   lifted in Proofs/GenEquiv.v.  Re-run whenever the C source of a translated function changes. *)
From Coq Require Import NArith ZArith Bool List.
From MiV Require Import Gen.Consts Gen.Bins Model.Arith Model.CSem Gen.Funcs Proofs.Base Proofs.ArithSweeps.
Local Open Scope N_scope.
Local Open Scope bool_scope.

(* mi_good_size on the same range *)
Lemma sweep_c_good_size : forallN (fun s => (c_mi_good_size s =? good_size s) && (good_size s <? W64) && c_mi_good_size_ok s) sweep_limit = true.
Proof. vm_cast_no_check (eq_refl true). Qed.

(* _mi_bin_size: the whole table *)
Lemma sweep_c_bin_size : forallN (fun b => (c__mi_bin_size b =? bin_size b) && c__mi_bin_size_ok b) (MI_BIN_FULL + 1) = true.
Proof. vm_cast_no_check (eq_refl true). Qed.

(* mi_slice_bin8 / mi_slice_bin: every slice count up to 2^13 (the allocator uses 0 .. MI_SLICES_PER_SEGMENT) *)
Definition slice_sweep_limit : N := 8192 + 1.
Lemma sweep_c_slice_bin : forallN (fun c => (c_mi_slice_bin8 c =? slice_bin8 c) && (c_mi_slice_bin c =? slice_bin8 c)
                                            && c_mi_slice_bin8_ok c && c_mi_slice_bin_ok c) slice_sweep_limit = true.
Proof. vm_cast_no_check (eq_refl true). Qed.

(* mi_bitmap_mask_: all (count, bitidx) with count + bitidx <= 64: the mask has exactly the bits bitidx .. bitidx+count-1 *)
Definition chk_mask (k : N) : bool :=
  let count := k / 65 in let bitidx := k mod 65 in
  if (count + bitidx <=? 64) && (0 <? count)
  then (c_mi_bitmap_mask_ count bitidx =? (2 ^ count - 1) * 2 ^ bitidx) && c_mi_bitmap_mask__ok count bitidx
  else true.
Lemma sweep_c_bitmap_mask : forallN chk_mask (65 * 65) = true.
Proof. vm_cast_no_check (eq_refl true). Qed.
