(* Proofs about the sequential page model (Model/Page.v): the page invariant of DESIGN.md
   Appendix A.1 is an inductive invariant of the page state machine; frame properties of every
   operation with respect to the set of live blocks (property C01, page layer); the heap walk
   visits exactly the live blocks (property C12). *)
From Coq Require Import NArith List Bool Lia Permutation Sorting.Sorted ZifyN ZifyBool.
From MiV Require Import Gen.Consts Model.Arith Model.Page Proofs.Base Proofs.ArithProofs.
Import ListNotations. Local Open Scope N_scope.

(* ------------------------------------------------------------------------------------- *)
(* Lists of indices                                                                        *)
(* ------------------------------------------------------------------------------------- *)

Lemma memN_In x l : memN x l = true <-> In x l.
Proof.
  unfold memN. rewrite existsb_exists. split.
  - intros (y & Hy & E). apply N.eqb_eq in E. subst. exact Hy.
  - intros H. exists x. split; [exact H|apply N.eqb_refl].
Qed.

Lemma memN_false x l : memN x l = false <-> ~ In x l.
Proof.
  rewrite <- memN_In. destruct (memN x l); split; intros H; try reflexivity; try discriminate.
  - exfalso. apply H. reflexivity.
Qed.

Lemma memN_app x a b : memN x (a ++ b) = memN x a || memN x b.
Proof. unfold memN. apply existsb_app. Qed.

Lemma nodupb_spec l : nodupb l = true <-> NoDup l.
Proof.
  induction l as [|a l IH]; cbn [nodupb].
  - split; [constructor|reflexivity].
  - rewrite andb_true_iff, negb_true_iff, memN_false, IH. split.
    + intros [H1 H2]. constructor; assumption.
    + intros H. inversion H; subst. split; assumption.
Qed.

Lemma NoDup_app_iff' {A} (l1 l2 : list A) :
  NoDup (l1 ++ l2) <-> NoDup l1 /\ NoDup l2 /\ (forall x, In x l1 -> ~ In x l2).
Proof.
  induction l1 as [|a l1 IH]; cbn [app].
  - split.
    + intros H. split; [constructor|]. split; [exact H|]. intros x [].
    + intros (_ & H & _). exact H.
  - split.
    + intros H. inversion H as [|? ? Hn Hd]; subst. apply IH in Hd as (H1 & H2 & H3).
      rewrite in_app_iff in Hn. split; [|split].
      * constructor; [|exact H1]. intros Hin. apply Hn. left; exact Hin.
      * exact H2.
      * intros x [->|Hx]; [|apply H3; exact Hx]. intros Hin. apply Hn. right; exact Hin.
    + intros (H1 & H2 & H3). inversion H1 as [|? ? Hn Hd]; subst. constructor.
      * rewrite in_app_iff. intros [Hin|Hin]; [apply Hn; exact Hin|].
        apply (H3 a); [left; reflexivity|exact Hin].
      * apply IH. split; [exact Hd|]. split; [exact H2|]. intros x Hx. apply H3. right; exact Hx.
Qed.

Lemma In_nseq i s n : In i (nseq s n) <-> s <= i < s + N.of_nat n.
Proof.
  revert s; induction n as [|n IH]; intros s; cbn [nseq In].
  - lia.
  - rewrite IH. lia.
Qed.

Lemma nseq_length s n : length (nseq s n) = n.
Proof. revert s; induction n as [|n IH]; intros s; cbn [nseq length]; [reflexivity|]. rewrite IH; reflexivity. Qed.

Lemma nseq_sorted s n : StronglySorted N.lt (nseq s n).
Proof.
  revert s; induction n as [|n IH]; intros s; cbn [nseq]; constructor.
  - apply IH.
  - apply Forall_forall. intros x Hx. apply In_nseq in Hx. lia.
Qed.

Lemma filter_sorted {A} (R : A -> A -> Prop) f l : StronglySorted R l -> StronglySorted R (filter f l).
Proof.
  induction 1 as [|a l Hs IH Hf]; cbn [filter]; [constructor|].
  destruct (f a); [|exact IH]. constructor; [exact IH|].
  rewrite Forall_forall in *. intros x Hx. apply filter_In in Hx as [Hx _]. apply Hf; exact Hx.
Qed.

Lemma sorted_NoDup l : StronglySorted N.lt l -> NoDup l.
Proof.
  induction 1 as [|a l Hs IH Hf]; constructor; [|exact IH].
  intros Hin. rewrite Forall_forall in Hf. specialize (Hf _ Hin). lia.
Qed.

Lemma nseq_NoDup s n : NoDup (nseq s n).
Proof. apply sorted_NoDup, nseq_sorted. Qed.

Lemma filter_length_compl {A} (f : A -> bool) l :
  (length (filter f l) + length (filter (fun x => negb (f x)) l) = length l)%nat.
Proof.
  induction l as [|a l IH]; cbn [filter]; [reflexivity|].
  destruct (f a); cbn [negb length]; lia.
Qed.

Lemma filter_all_true {A} (f : A -> bool) l : (forall x, In x l -> f x = true) -> filter f l = l.
Proof.
  induction l as [|a l IH]; intros H; cbn [filter]; [reflexivity|].
  rewrite (H a) by (left; reflexivity). f_equal. apply IH. intros x Hx. apply H. right; exact Hx.
Qed.

(* a duplicate-free list inside [s, s+n) and its complement partition the interval *)
Lemma count_compl l s n : NoDup l -> (forall i, In i l -> s <= i < s + N.of_nat n) ->
  (length (filter (fun i => negb (memN i l)) (nseq s n)) + length l = n)%nat.
Proof.
  intros Hnd Hin.
  assert (HP : Permutation (filter (fun i => memN i l) (nseq s n)) l).
  { apply NoDup_Permutation.
    - apply NoDup_filter, nseq_NoDup.
    - exact Hnd.
    - intros x. rewrite filter_In, In_nseq, memN_In. split; [tauto|].
      intros H. split; [apply Hin; exact H|exact H]. }
  rewrite <- (Permutation_length HP).
  pose proof (filter_length_compl (fun i => memN i l) (nseq s n)) as H. rewrite nseq_length in H. lia.
Qed.

(* ------------------------------------------------------------------------------------- *)
(* uint16 wrap-around                                                                      *)
(* ------------------------------------------------------------------------------------- *)

Lemma wrap16_small x : x < 65536 -> wrap16 x = x.
Proof. intros H. unfold wrap16. apply N.mod_small. exact H. Qed.

Lemma wrap16_pred x : 1 <= x -> x < 65536 -> wrap16 (x + 65535) = x - 1.
Proof.
  intros H1 H2. unfold wrap16. replace (x + 65535) with ((x - 1) + 1 * 65536) by lia.
  rewrite N.mod_add by lia. apply N.mod_small. lia.
Qed.

Lemma wrap16_sub c u : c <= u -> u < 65536 -> wrap16 (u + 65536 - wrap16 c) = u - c.
Proof.
  intros H1 H2. rewrite (wrap16_small c) by lia. unfold wrap16.
  replace (u + 65536 - c) with ((u - c) + 1 * 65536) by lia.
  rewrite N.mod_add by lia. apply N.mod_small. lia.
Qed.

(* ------------------------------------------------------------------------------------- *)
(* The invariant                                                                           *)
(* ------------------------------------------------------------------------------------- *)

Ltac psimpl :=
  cbn [bsize reserved capacity used free local_free thread_free free_is_zero is_zero_init has_aligned
       retire_expire set_free set_local_free set_thread_free set_used set_capacity set_free_is_zero
       set_has_aligned fst snd].
Ltac psimpl_in H :=
  cbn [bsize reserved capacity used free local_free thread_free free_is_zero is_zero_init has_aligned
       retire_expire set_free set_local_free set_thread_free set_used set_capacity set_free_is_zero
       set_has_aligned fst snd] in H.

(* the page invariant of DESIGN.md Appendix A.1 *)
Definition page_Inv (p : page) : Prop :=
  0 < bsize p /\ capacity p <= reserved p /\ reserved p < 65536 /\
  NoDup (free p ++ local_free p ++ thread_free p) /\
  (forall i, In i (free p ++ local_free p ++ thread_free p) -> i < capacity p) /\
  used p + N.of_nat (length (free p)) + N.of_nat (length (local_free p)) = capacity p /\
  N.of_nat (length (thread_free p)) <= used p.

Lemma Inv_intro p :
  0 < bsize p -> capacity p <= reserved p -> reserved p < 65536 ->
  NoDup (free p ++ local_free p ++ thread_free p) ->
  (forall i, In i (free p ++ local_free p ++ thread_free p) -> i < capacity p) ->
  used p + N.of_nat (length (free p)) + N.of_nat (length (local_free p)) = capacity p ->
  N.of_nat (length (thread_free p)) <= used p -> page_Inv p.
Proof. unfold page_Inv. tauto. Qed.

Lemma page_inv_b_spec p : page_inv_b p = true <-> page_Inv p.
Proof.
  unfold page_inv_b, page_Inv. cbv zeta.
  rewrite !andb_true_iff, !N.ltb_lt, !N.leb_le, nodupb_spec, forallb_forall, N.eqb_eq.
  assert (HE : (forall x, In x (free p ++ local_free p ++ thread_free p) -> (x <? capacity p) = true) <->
               (forall i, In i (free p ++ local_free p ++ thread_free p) -> i < capacity p)).
  { split; intros H i Hi; specialize (H i Hi); apply N.ltb_lt; exact H. }
  rewrite HE. tauto.
Qed.

(* all blocks that are on some list *)
Definition all (p : page) : list N := free p ++ local_free p ++ thread_free p.

(* live blocks *)
Definition is_live (p : page) (i : N) : Prop :=
  i < capacity p /\ ~ In i (free p) /\ ~ In i (local_free p) /\ ~ In i (thread_free p).

Lemma is_live_all p i : is_live p i <-> i < capacity p /\ ~ In i (all p).
Proof. unfold is_live, all. rewrite !in_app_iff. tauto. Qed.

Lemma page_live_spec p i : In i (page_live p) <-> is_live p i.
Proof.
  unfold page_live, is_live.
  rewrite filter_In, In_nseq, N2Nat.id, !andb_true_iff, !negb_true_iff, !memN_false.
  split.
  - intros ((_ & H0) & (H1 & H2) & H3). repeat split; assumption.
  - intros (H0 & H1 & H2 & H3). repeat split; try assumption. lia.
Qed.

Lemma page_live_sorted p : StronglySorted N.lt (page_live p).
Proof. unfold page_live. apply filter_sorted, nseq_sorted. Qed.

Lemma page_live_NoDup p : NoDup (page_live p).
Proof. apply sorted_NoDup, page_live_sorted. Qed.

Lemma page_live_alt p :
  page_live p = filter (fun i => negb (memN i (all p))) (nseq 0 (N.to_nat (capacity p))).
Proof.
  unfold page_live. apply filter_ext. intros i. unfold all.
  rewrite !memN_app, !negb_orb, andb_assoc. reflexivity.
Qed.

Lemma page_live_count p : page_Inv p ->
  N.of_nat (length (page_live p)) + N.of_nat (length (thread_free p)) = used p.
Proof.
  intros (Hb & Hcr & Hr & Hnd & Hlt & Hcnt & Htf).
  pose proof (count_compl (all p) 0 (N.to_nat (capacity p)) Hnd) as H.
  rewrite <- page_live_alt in H.
  assert (Hin : forall i, In i (all p) -> 0 <= i < 0 + N.of_nat (N.to_nat (capacity p))).
  { intros i Hi. rewrite N2Nat.id. specialize (Hlt i Hi). lia. }
  specialize (H Hin). unfold all in H. rewrite !app_length in H. lia.
Qed.

(* two pages with the same capacity and the same listed blocks have the same live blocks *)
Lemma live_equiv p q : capacity q = capacity p -> (forall i, In i (all q) <-> In i (all p)) ->
  forall i, is_live q i <-> is_live p i.
Proof. intros Hc H i. rewrite !is_live_all, Hc, H. tauto. Qed.

Lemma page_live_ext p q : capacity q = capacity p -> (forall i, In i (all q) <-> In i (all p)) ->
  page_live q = page_live p.
Proof.
  intros Hc H. rewrite !page_live_alt, Hc. apply filter_ext. intros i. f_equal.
  apply eq_true_iff_eq. rewrite !memN_In. apply H.
Qed.

Lemma Inv_perm p q : page_Inv p -> bsize q = bsize p -> reserved q = reserved p -> capacity q = capacity p ->
  Permutation (all q) (all p) ->
  used q + N.of_nat (length (free q)) + N.of_nat (length (local_free q)) = capacity q ->
  N.of_nat (length (thread_free q)) <= used q -> page_Inv q.
Proof.
  intros (Hb & Hcr & Hr & Hnd & Hlt & Hcnt & Htf) Eb Er Ec HP Hc Ht. unfold all in HP.
  apply Inv_intro; rewrite ?Eb, ?Er, ?Ec; try assumption.
  - apply (Permutation_NoDup (Permutation_sym HP)). exact Hnd.
  - intros i Hi. apply Hlt. eapply Permutation_in; [exact HP|exact Hi].
  - rewrite <- Ec. exact Hc.
Qed.

(* ------------------------------------------------------------------------------------- *)
(* malloc (pop)                                                                            *)
(* ------------------------------------------------------------------------------------- *)

Lemma malloc_spec p b p' : page_malloc p = Some (b, p') ->
  exists rest, free p = b :: rest /\ p' = set_used (set_free p rest) (wrap16 (used p + 1)).
Proof.
  unfold page_malloc. destruct (free p) as [|b0 rest]; [discriminate|].
  intros H; inversion H; subst. exists rest. split; reflexivity.
Qed.

Lemma malloc_inv p b p' : page_Inv p -> page_malloc p = Some (b, p') -> page_Inv p'.
Proof.
  intros (Hb & Hcr & Hr & Hnd & Hlt & Hcnt & Htf) H.
  destruct (malloc_spec _ _ _ H) as (rest & Ef & ->).
  rewrite Ef in Hnd, Hlt, Hcnt. cbn [app length] in Hnd, Hlt, Hcnt.
  inversion Hnd as [|? ? Hn Hd]; subst.
  assert (Hu : wrap16 (used p + 1) = used p + 1) by (apply wrap16_small; lia).
  apply Inv_intro; psimpl; rewrite ?Hu; try assumption; try lia.
  intros i Hi. apply Hlt. right; exact Hi.
Qed.

(* allocation hands out a block that is not live, and only changes that block's status *)
Theorem page_pop_fresh p b p' : page_Inv p -> page_malloc p = Some (b, p') ->
  ~ is_live p b /\ is_live p' b /\ (forall i, i <> b -> (is_live p' i <-> is_live p i)) /\
  b < capacity p /\ used p' = used p + 1.
Proof.
  intros (Hb & Hcr & Hr & Hnd & Hlt & Hcnt & Htf) H.
  destruct (malloc_spec _ _ _ H) as (rest & Ef & ->).
  assert (Hbc : b < capacity p) by (apply Hlt; rewrite Ef; left; reflexivity).
  rewrite Ef in Hnd, Hcnt. cbn [app length] in Hnd, Hcnt.
  inversion Hnd as [|? ? Hn Hd]; subst. rewrite !in_app_iff in Hn.
  assert (Hu : wrap16 (used p + 1) = used p + 1) by (apply wrap16_small; lia).
  unfold is_live. psimpl. rewrite Ef, Hu.
  split; [|split; [|split; [|split]]].
  - intros (_ & H1 & _). apply H1. left; reflexivity.
  - repeat split; [exact Hbc| | |]; intros Hin; apply Hn; tauto.
  - intros i Hi. cbn [In]. split.
    + intros (H0 & H1 & H2 & H3). repeat split; try assumption. intros [E|Hin]; [apply Hi; symmetry; exact E|apply H1; exact Hin].
    + intros (H0 & H1 & H2 & H3). repeat split; try assumption. intros Hin. apply H1. right; exact Hin.
  - exact Hbc.
  - reflexivity.
Qed.

(* ------------------------------------------------------------------------------------- *)
(* local and remote free                                                                   *)
(* ------------------------------------------------------------------------------------- *)

Lemma live_nonempty p b : is_live p b -> 1 <= N.of_nat (length (page_live p)).
Proof.
  intros Hl. apply page_live_spec in Hl. destruct (page_live p); [destruct Hl|cbn [length]; lia].
Qed.

Lemma free_local_inv p b : page_Inv p -> is_live p b -> page_Inv (page_free_local p b).
Proof.
  intros HI Hl. pose proof (page_live_count p HI) as Hc. pose proof (live_nonempty p b Hl) as Hlen.
  destruct HI as (Hb & Hcr & Hr & Hnd & Hlt & Hcnt & Htf). destruct Hl as (Hbc & H1 & H2 & H3).
  assert (Hu : wrap16 (used p + 65535) = used p - 1) by (apply wrap16_pred; lia).
  unfold page_free_local. apply Inv_intro; psimpl; rewrite ?Hu; cbn [length]; try assumption; try lia.
  - apply (Permutation_NoDup (l := b :: free p ++ local_free p ++ thread_free p)).
    + cbn [app]. apply Permutation_middle.
    + constructor; [|exact Hnd]. rewrite !in_app_iff. tauto.
  - intros i Hi. rewrite in_app_iff in Hi. cbn [app In] in Hi. rewrite in_app_iff in Hi.
    destruct Hi as [Hi|[Hi|[Hi|Hi]]]; [| subst; exact Hbc | |]; apply Hlt; rewrite !in_app_iff; tauto.
Qed.

(* freeing removes exactly that block from the live set *)
Theorem page_free_frame p b : page_Inv p -> is_live p b ->
  ~ is_live (page_free_local p b) b /\
  (forall i, i <> b -> (is_live (page_free_local p b) i <-> is_live p i)).
Proof.
  intros _ _. unfold is_live, page_free_local. psimpl. split.
  - intros (_ & _ & H & _). apply H. left; reflexivity.
  - intros i Hi. cbn [In]. split.
    + intros (H0 & H1 & H2 & H3). repeat split; try assumption. intros Hin. apply H2. right; exact Hin.
    + intros (H0 & H1 & H2 & H3). repeat split; try assumption.
      intros [E|Hin]; [apply Hi; symmetry; exact E|apply H2; exact Hin].
Qed.

Lemma remote_free_inv p b : page_Inv p -> is_live p b -> page_Inv (page_remote_free p b).
Proof.
  intros HI Hl. pose proof (page_live_count p HI) as Hc. pose proof (live_nonempty p b Hl) as Hlen.
  destruct HI as (Hb & Hcr & Hr & Hnd & Hlt & Hcnt & Htf). destruct Hl as (Hbc & H1 & H2 & H3).
  unfold page_remote_free. apply Inv_intro; psimpl; cbn [length]; try assumption; try lia.
  - apply (Permutation_NoDup (l := b :: free p ++ local_free p ++ thread_free p)).
    + rewrite !app_assoc. apply Permutation_middle.
    + constructor; [|exact Hnd]. rewrite !in_app_iff. tauto.
  - intros i Hi. rewrite !in_app_iff in Hi. cbn [In] in Hi.
    destruct Hi as [Hi|[Hi|[Hi|Hi]]]; [| | subst; exact Hbc |]; apply Hlt; rewrite !in_app_iff; tauto.
Qed.

Theorem page_remote_free_frame p b : page_Inv p -> is_live p b ->
  ~ is_live (page_remote_free p b) b /\
  (forall i, i <> b -> (is_live (page_remote_free p b) i <-> is_live p i)).
Proof.
  intros _ _. unfold is_live, page_remote_free. psimpl. split.
  - intros (_ & _ & _ & H). apply H. left; reflexivity.
  - intros i Hi. cbn [In]. split.
    + intros (H0 & H1 & H2 & H3). repeat split; try assumption. intros Hin. apply H3. right; exact Hin.
    + intros (H0 & H1 & H2 & H3). repeat split; try assumption.
      intros [E|Hin]; [apply Hi; symmetry; exact E|apply H3; exact Hin].
Qed.

(* ------------------------------------------------------------------------------------- *)
(* collect                                                                                 *)
(* ------------------------------------------------------------------------------------- *)

Lemma tfc_spec p q e : page_Inv p -> page_thread_free_collect p = (q, e) ->
  e = false /\ bsize q = bsize p /\ reserved q = reserved p /\ capacity q = capacity p /\
  free q = free p /\ local_free q = thread_free p ++ local_free p /\ thread_free q = [] /\
  used q = used p - N.of_nat (length (thread_free p)).
Proof.
  intros (Hb & Hcr & Hr & Hnd & Hlt & Hcnt & Htf). unfold page_thread_free_collect.
  destruct (thread_free p) as [|x tf] eqn:Et.
  - intros H; inversion H; subst. rewrite Et. cbn [length app]. repeat split; try reflexivity. lia.
  - remember (x :: tf) as l eqn:El.
    assert (Hle : (capacity p <? N.of_nat (length l)) = false) by (apply N.ltb_ge; lia).
    rewrite Hle. intros H; inversion H; subst q e. psimpl.
    rewrite wrap16_sub by lia. repeat split; reflexivity.
Qed.

Lemma collect_first_eq p :
  match thread_free p with [] => (p, false) | _ => page_thread_free_collect p end =
  page_thread_free_collect p.
Proof. unfold page_thread_free_collect. destruct (thread_free p); reflexivity. Qed.

Lemma collect_spec p f q e : page_Inv p -> page_free_collect p f = (q, e) ->
  e = false /\ bsize q = bsize p /\ reserved q = reserved p /\ capacity q = capacity p /\
  used q = used p - N.of_nat (length (thread_free p)) /\ thread_free q = [] /\
  Permutation (free q ++ local_free q) (free p ++ local_free p ++ thread_free p) /\
  (f = true -> local_free q = []).
Proof.
  intros HI. unfold page_free_collect. rewrite collect_first_eq.
  destruct (page_thread_free_collect p) as [p1 err] eqn:E1.
  destruct (tfc_spec p p1 err HI E1) as (-> & Hb & Hr & Hc & Hf & Hl & Ht & Hu).
  assert (HP : Permutation (free p1 ++ local_free p1) (free p ++ local_free p ++ thread_free p)).
  { rewrite Hf, Hl. apply Permutation_app_head. apply Permutation_app_comm. }
  clear Hf Hl.
  destruct (local_free p1) as [|x lf] eqn:El.
  - intros H; inversion H; subst q e. rewrite El. repeat split; assumption.
  - destruct (free p1) as [|y fr] eqn:Ef.
    + intros H; inversion H; subst q e. psimpl. rewrite app_nil_r. cbn [app] in HP.
      repeat split; assumption.
    + destruct f.
      * intros H; inversion H; subst q e. psimpl. rewrite app_nil_r.
        repeat split; try assumption.
        etransitivity; [apply (Permutation_app_comm (x :: lf) (y :: fr))|exact HP].
      * intros H; inversion H; subst q e. rewrite El, Ef.
        repeat split; try assumption. discriminate.
Qed.

Lemma collect_all p f q e : page_Inv p -> page_free_collect p f = (q, e) ->
  Permutation (all q) (all p).
Proof.
  intros HI E. destruct (collect_spec p f q e HI E) as (_ & _ & _ & _ & _ & Et & HP & _).
  unfold all at 1. rewrite Et, app_nil_r. exact HP.
Qed.

Lemma collect_inv p f : page_Inv p -> page_Inv (fst (page_free_collect p f)).
Proof.
  intros HI. destruct (page_free_collect p f) as [q e] eqn:E. cbn [fst].
  pose proof (collect_all p f q e HI E) as HA.
  destruct (collect_spec p f q e HI E) as (_ & Eb & Er & Ec & Eu & Et & HP & _).
  apply (Inv_perm p q HI Eb Er Ec HA).
  - apply Permutation_length in HP. rewrite !app_length in HP.
    destruct HI as (_ & _ & _ & _ & _ & Hcnt & Htf). lia.
  - rewrite Et. cbn [length]. lia.
Qed.

(* collecting never changes which blocks are live and never reports corruption on a well-formed page *)
Theorem page_collect_live p f : page_Inv p ->
  snd (page_free_collect p f) = false /\
  (forall i, is_live (fst (page_free_collect p f)) i <-> is_live p i).
Proof.
  intros HI. destruct (page_free_collect p f) as [q e] eqn:E. cbn [fst snd].
  pose proof (collect_all p f q e HI E) as HA.
  destruct (collect_spec p f q e HI E) as (-> & _ & _ & Ec & _).
  split; [reflexivity|]. apply live_equiv; [exact Ec|].
  intros i. split; apply Permutation_in; [exact HA|apply Permutation_sym; exact HA].
Qed.

Lemma collect_page_live p f : page_Inv p -> page_live (fst (page_free_collect p f)) = page_live p.
Proof.
  intros HI. destruct (page_free_collect p f) as [q e] eqn:E. cbn [fst].
  pose proof (collect_all p f q e HI E) as HA.
  destruct (collect_spec p f q e HI E) as (_ & _ & _ & Ec & _).
  apply page_live_ext; [exact Ec|].
  intros i. split; apply Permutation_in; [exact HA|apply Permutation_sym; exact HA].
Qed.

(* a forced collect empties local_free and thread_free *)
Theorem page_collect_force_complete p : page_Inv p ->
  local_free (fst (page_free_collect p true)) = [] /\ thread_free (fst (page_free_collect p true)) = [] /\
  used (fst (page_free_collect p true)) = N.of_nat (length (page_live p)).
Proof.
  intros HI. pose proof (page_live_count p HI) as Hc.
  destruct (page_free_collect p true) as [q e] eqn:E. cbn [fst].
  destruct (collect_spec p true q e HI E) as (_ & _ & _ & _ & Eu & Et & _ & Hl).
  split; [apply Hl; reflexivity|]. split; [exact Et|]. lia.
Qed.

(* ------------------------------------------------------------------------------------- *)
(* extend and init                                                                         *)
(* ------------------------------------------------------------------------------------- *)

Lemma extend_count_le p : extend_count p <= reserved p - capacity p.
Proof.
  unfold extend_count. cbv zeta.
  match goal with |- (if ?a <? ?b then _ else _) <= _ => destruct (a <? b) eqn:E end.
  - apply N.ltb_lt in E. lia.
  - lia.
Qed.

Lemma extend_spec p : reserved p < 65536 ->
  page_extend p = p \/
  exists e, free p = [] /\ e <= reserved p - capacity p /\ capacity p < reserved p /\
    page_extend p = set_capacity (set_free p (nseq (capacity p) (N.to_nat e))) (capacity p + e).
Proof.
  intros Hr. unfold page_extend. destruct (free p) eqn:Ef; [|left; reflexivity].
  destruct (reserved p <=? capacity p) eqn:E; [left; reflexivity|]. apply N.leb_gt in E.
  right. exists (extend_count p). pose proof (extend_count_le p) as Hle.
  rewrite app_nil_r. rewrite (wrap16_small (extend_count p)) by lia.
  rewrite wrap16_small by lia. repeat split; try assumption.
Qed.

Lemma extend_inv p : page_Inv p -> page_Inv (page_extend p).
Proof.
  intros HI. pose proof HI as (Hb & Hcr & Hr & Hnd & Hlt & Hcnt & Htf).
  destruct (extend_spec p Hr) as [->|(e & Ef & He & Hc & ->)]; [exact HI|].
  rewrite Ef in Hnd, Hlt, Hcnt. cbn [app length] in Hnd, Hlt, Hcnt.
  apply Inv_intro; psimpl; rewrite ?nseq_length, ?N2Nat.id; try assumption; try lia.
  - apply NoDup_app_iff'. split; [apply nseq_NoDup|]. split; [exact Hnd|].
    intros x Hx Hin. apply In_nseq in Hx. specialize (Hlt x Hin). lia.
  - intros i Hi. apply in_app_iff in Hi as [Hi|Hi].
    + apply In_nseq in Hi. rewrite N2Nat.id in Hi. lia.
    + specialize (Hlt i Hi). lia.
Qed.

Theorem page_extend_live p : page_Inv p -> forall i, is_live (page_extend p) i <-> is_live p i.
Proof.
  intros HI. pose proof HI as (Hb & Hcr & Hr & Hnd & Hlt & Hcnt & Htf).
  destruct (extend_spec p Hr) as [->|(e & Ef & He & Hc & ->)]; [tauto|].
  intros i. unfold is_live. psimpl. rewrite Ef, In_nseq, N2Nat.id. cbn [In]. split.
  - intros (H0 & H1 & H2 & H3). repeat split; try assumption; [lia|tauto].
  - intros (H0 & H1 & H2 & H3). repeat split; try assumption; lia.
Qed.

Theorem page_extend_within_reserved p : page_Inv p -> capacity (page_extend p) <= reserved p.
Proof.
  intros HI. pose proof HI as (Hb & Hcr & Hr & Hnd & Hlt & Hcnt & Htf).
  destruct (extend_spec p Hr) as [->|(e & Ef & He & Hc & ->)]; [exact Hcr|]. psimpl. lia.
Qed.

(* initial state and preservation: every reachable state satisfies the invariant
   (the hypothesis bs <= psize of the statement is not needed) *)
Theorem page_inv_init bs psize z : 0 < bs -> bs <= psize -> psize / bs < 65536 ->
  page_Inv (page_init bs psize z).
Proof.
  intros Hb _ Hr. unfold page_init. apply extend_inv. rewrite wrap16_small by exact Hr.
  apply Inv_intro; psimpl; cbn [app length]; try assumption; try lia.
  - apply N.le_0_l.
  - constructor.
  - intros i [].
Qed.

Theorem page_inv_step p o p' : page_Inv p -> page_step p o = Some p' -> page_Inv p'.
Proof.
  intros HI H. destruct o as [|b|b|f|]; cbn [page_step] in H.
  - destruct (page_malloc p) as [[b q]|] eqn:E; [|discriminate]. inversion H; subst.
    eapply malloc_inv; [exact HI|exact E].
  - destruct (memN b (page_live p)) eqn:E; [|discriminate]. inversion H; subst.
    apply free_local_inv; [exact HI|]. apply page_live_spec, memN_In. exact E.
  - destruct (memN b (page_live p)) eqn:E; [|discriminate]. inversion H; subst.
    apply remote_free_inv; [exact HI|]. apply page_live_spec, memN_In. exact E.
  - inversion H; subst. apply collect_inv. exact HI.
  - inversion H; subst. apply extend_inv. exact HI.
Qed.

Theorem page_inv_run p ops p' : page_Inv p -> page_run p ops = Some p' -> page_Inv p'.
Proof.
  revert p. induction ops as [|o r IH]; intros p HI H; cbn [page_run] in H.
  - inversion H; subst. exact HI.
  - destruct (page_step p o) as [q|] eqn:E; [|discriminate].
    apply (IH q); [|exact H]. eapply page_inv_step; [exact HI|exact E].
Qed.

(* no block is ever handed out twice while live: in any run, a malloc never returns a live block *)
Theorem page_no_double_handout p ops p1 b p2 :
  page_Inv p -> page_run p ops = Some p1 -> page_malloc p1 = Some (b, p2) -> ~ is_live p1 b.
Proof.
  intros HI Hrun Hm. pose proof (page_inv_run p ops p1 HI Hrun) as HI1.
  destruct (page_pop_fresh p1 b p2 HI1 Hm) as (H & _). exact H.
Qed.

(* ------------------------------------------------------------------------------------- *)
(* block byte ranges                                                                       *)
(* ------------------------------------------------------------------------------------- *)

Theorem block_ranges_disjoint start bs i j : 0 < bs -> i <> j ->
  start + i * bs + bs <= start + j * bs \/ start + j * bs + bs <= start + i * bs.
Proof.
  intros Hb Hij. destruct (N.lt_total i j) as [H|[H|H]]; [left| contradiction |right].
  - assert (E : (i + 1) * bs <= j * bs) by (apply N.mul_le_mono_r; lia). lia.
  - assert (E : (j + 1) * bs <= i * bs) by (apply N.mul_le_mono_r; lia). lia.
Qed.

Theorem block_inside_area p start psize i : page_Inv p -> reserved p = psize / bsize p -> i < capacity p ->
  start <= start + i * bsize p /\ start + i * bsize p + bsize p <= start + psize.
Proof.
  intros (Hb & Hcr & Hr & _) Hres Hi. split; [lia|].
  assert (E1 : (i + 1) * bsize p <= (psize / bsize p) * bsize p) by (apply N.mul_le_mono_r; lia).
  assert (E2 : bsize p * (psize / bsize p) <= psize) by (apply N.mul_div_le; lia).
  lia.
Qed.

(* ------------------------------------------------------------------------------------- *)
(* heap walk (property C12)                                                                *)
(* ------------------------------------------------------------------------------------- *)

Lemma visit_index_exact p i : 0 < bsize p -> bsize p < 2^32 -> i * bsize p < 2^32 ->
  visit_index_of p i = i.
Proof.
  intros Hb Hbs Hi. unfold visit_index_of.
  pose proof (fast_divide_correct (bsize p) (i * bsize p) Hb Hbs Hi) as H.
  destruct (fast_divisor (bsize p)) as [m s]. cbn [fst snd] in H. rewrite H.
  apply N.div_mul. lia.
Qed.

(* the visitor sees exactly the live blocks, each once, in address order, through all three
   paths of the C code (single block, full page, free-bitmap with fast division) *)
Theorem page_visit_exactly_live p : page_Inv p -> bsize p < 2^32 -> capacity p * bsize p < 2^32 ->
  page_visit_blocks p = page_live p.
Proof.
  intros HI Hbs Hcb.
  pose proof (collect_inv p true HI) as HIq. pose proof (collect_page_live p true HI) as Hlive.
  destruct (page_collect_force_complete p HI) as (Hl & Et & _).
  unfold page_visit_blocks. cbv zeta.
  destruct (page_free_collect p true) as [q e] eqn:E. cbn [fst] in *.
  destruct (collect_spec p true q e HI E) as (_ & Eb & _ & Ec & _).
  rewrite <- Hlive. rewrite <- Eb in Hbs. rewrite <- Eb, <- Ec in Hcb. clear Hlive E HI Eb Ec p e.
  pose proof (page_live_count q HIq) as Hcnt. rewrite Et in Hcnt. cbn [length] in Hcnt.
  destruct HIq as (Hb & Hcr & Hr & Hnd & Hlt & Hc & Htf).
  rewrite Hl in Hc. cbn [length] in Hc.
  destruct (used q =? 0) eqn:U0.
  { apply N.eqb_eq in U0. destruct (page_live q); [reflexivity|cbn [length] in Hcnt; lia]. }
  apply N.eqb_neq in U0.
  destruct (capacity q =? 1) eqn:C1.
  { apply N.eqb_eq in C1. revert Hcnt. unfold page_live. rewrite C1.
    change (N.to_nat 1) with 1%nat. cbn [nseq filter].
    match goal with |- context [if ?c then _ else _] => destruct c end; cbn [length]; intros Hcnt;
      [reflexivity|lia]. }
  destruct (used q =? capacity q) eqn:UC.
  { apply N.eqb_eq in UC. assert (Ef : free q = []) by (destruct (free q); [reflexivity|cbn [length] in Hc; lia]).
    unfold page_live. rewrite Ef, Hl, Et. symmetry. apply filter_all_true. intros; reflexivity. }
  assert (Hmap : map (visit_index_of q) (free q) = free q).
  { rewrite <- (map_id (free q)) at 2. apply map_ext_in. intros i Hi.
    assert (Hic : i < capacity q) by (apply Hlt; apply in_app_iff; left; exact Hi).
    apply visit_index_exact; [exact Hb|exact Hbs|].
    eapply N.lt_trans; [|exact Hcb]. apply N.mul_lt_mono_pos_r; assumption. }
  rewrite Hmap. unfold page_live. rewrite Hl, Et. apply filter_ext. intros i.
  cbn [memN existsb negb]. rewrite !andb_true_r. reflexivity.
Qed.

Theorem page_visit_count p : page_Inv p -> bsize p < 2^32 -> capacity p * bsize p < 2^32 ->
  N.of_nat (length (page_visit_blocks p)) = used (fst (page_free_collect p true)).
Proof.
  intros HI Hbs Hcb. rewrite (page_visit_exactly_live p HI Hbs Hcb).
  destruct (page_collect_force_complete p HI) as (_ & _ & Hu). symmetry. exact Hu.
Qed.
