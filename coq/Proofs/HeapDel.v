(* Preservation of the heap invariant by the whole-heap operations of Model/Heap.v (heap_new,
   heap_free, heap_absorb, heap_collect_abandon, heap_destroy_pages) and their exact effect. *)
From Coq Require Import NArith List Bool Lia Permutation.
From MiV Require Import Gen.Consts Model.Arith Proofs.Base Model.Heap Proofs.HeapBase Proofs.HeapOps.
Import ListNotations.
Local Open Scope N_scope.
Local Open Scope bool_scope.

Local Opaque MI_BIN_FULL MI_BIN_HUGE.

(* ================================================================================================ *)
(* a new heap is pushed on the heap list                                                             *)
(* ================================================================================================ *)
Lemma flat_map_nil {A B} (f : A -> list B) l : (forall x, f x = []) -> flat_map f l = [].
Proof. intros H. induction l as [|x r IH]; cbn; [reflexivity|]. rewrite H, IH. reflexivity. Qed.

Lemma heap_pages_all_nil hp : (forall i, qget (queues hp) i = []) -> heap_pages hp = [].
Proof. intros H. unfold heap_pages. apply flat_map_nil. exact H. Qed.

Lemma empty_heap_pages k nr tg ar : heap_pages (empty_heap k nr tg ar) = [].
Proof. apply heap_pages_all_nil. intros i. apply qget_repeat. Qed.

Definition add_heap (s : state) (k : hid) (nr : bool) (tg ar : N) (d : bid) : state :=
  set_descs (set_heaps s (empty_heap k nr tg ar :: heaps s)) ((k, d) :: descs s).

Lemma get_heap_add_heap s k nr tg ar d j :
  get_heap (add_heap s k nr tg ar d) j = if k =? j then Some (empty_heap k nr tg ar) else get_heap s j.
Proof. reflexivity. Qed.

Lemma add_heap_inv s k nr tg ar d : heap_Inv s -> ~ In k (heap_ids s) -> heap_Inv (add_heap s k nr tg ar d).
Proof.
  intros I Hk.
  assert (k <> backing s) as Hkb by (intros ->; apply Hk; apply (hi_backing s I)).
  assert (forall j hj, get_heap (add_heap s k nr tg ar d) j = Some hj ->
            (j = k /\ hj = empty_heap k nr tg ar) \/ (j <> k /\ get_heap s j = Some hj)) as HC.
  { intros j hj K. rewrite get_heap_add_heap in K. destruct (N.eqb_spec k j); [left; split; congruence|right; auto]. }
  assert (forall j hj, get_heap s j = Some hj -> get_heap (add_heap s k nr tg ar d) j = Some hj) as HK.
  { intros j hj K. rewrite get_heap_add_heap. destruct (N.eqb_spec k j) as [E|E]; [|exact K].
    subst j. exfalso. apply Hk. eapply get_heap_in_ids; eauto. }
  constructor.
  - unfold add_heap, heap_ids. cbn. constructor; [exact Hk|apply (hi_hnodup s I)].
  - apply (hi_pnodup s I).
  - right. apply (hi_backing s I).
  - right. apply (hi_default s I).
  - intros j hj K. destruct (HC _ _ K) as [[-> ->]|[_ K']]; [apply repeat_length|eapply hi_qlen; eauto].
  - intros j hj i K. destruct (HC _ _ K) as [[-> ->]|[_ K']]; [unfold empty_heap; cbn [queues]; rewrite qget_repeat; constructor|eapply hi_qnodup; eauto].
  - intros j hj K. destruct (HC _ _ K) as [[-> ->]|[_ K']]; [rewrite empty_heap_pages; reflexivity|eapply hi_count; eauto].
  - intros j hj i p K Hin. destruct (HC _ _ K) as [[-> ->]|[_ K']].
    + unfold empty_heap in Hin. cbn [queues] in Hin. rewrite qget_repeat in Hin. destruct Hin.
    + apply (hi_queued s I _ _ _ _ K' Hin).
  - intros p pi G. destruct (hi_page s I _ _ G) as [P1 [P2 [P3 P4]]]. split; [exact P1|]. split; [exact P2|]. split; [exact P3|].
    destruct (pheap pi) as [h|]; [|exact P4]. destruct P4 as [hp [H Hin]]. exists hp. split; [apply HK; exact H|exact Hin].
  - apply (hi_disjoint s I).
  - apply (hi_bnodup s I).
  - unfold add_heap. cbn. constructor; [|apply (hi_dnodup s I)]. intros K. apply (hi_descs s I) in K. tauto.
  - intros j. unfold add_heap, heap_ids. cbn. pose proof (hi_descs s I j) as D. unfold heap_ids in D.
    split.
    + intros [<-|K]; [split; [left; reflexivity|exact Hkb]|]. apply D in K. tauto.
    + intros [[<-|K] Hne]; [left; reflexivity|right; apply D; tauto].
  - apply (hi_hmnodup s I).
  - apply (hi_home_live s I).
  - apply (hi_home s I).
Qed.

Lemma heap_new_inv s k nr tg ar d c s' : heap_Inv s -> heap_new s k nr tg ar d c = Some s' -> heap_Inv s'.
Proof.
  intros I. unfold heap_new. destruct (inb k (heap_ids s)) eqn:Hk; [discriminate|]. apply inb_false in Hk.
  destruct (block_malloc s (backing s) desc_bin d c) as [s1|] eqn:M; [|discriminate].
  intros K. inversion K; subst s'. clear K.
  pose proof (block_malloc_inv _ _ _ _ _ _ I M) as I1.
  apply (add_heap_inv s1 k nr tg ar d I1).
  (* block_malloc does not change the heap ids *)
  unfold block_malloc in M. destruct (get_heap s (backing s)) as [hp|]; [|discriminate].
  destruct (negb (desc_bin <? MI_BIN_FULL)); [discriminate|]. destruct (inb d (live_blocks s)); [discriminate|].
  destruct c as [p capb|p start size capb].
  - destruct (get_page s p) as [pi|] eqn:G; [|discriminate]. destruct (_ && _); [|discriminate]. inversion M; subst s1.
    unfold home_add. hs. unfold move_to_front. destruct (get_heap s (backing s)) as [hp'|]; [|exact Hk].
    destruct (qget (queues hp') desc_bin) as [|q r].
    + rewrite heap_ids_queue_push, heap_ids_queue_remove. exact Hk.
    + destruct (q =? p); [exact Hk|]. rewrite heap_ids_queue_push, heap_ids_queue_remove. exact Hk.
  - destruct (get_page s p); [discriminate|]. destruct (_ && _); [|discriminate]. inversion M; subst s1.
    unfold home_add. hs. rewrite heap_ids_queue_push. hs. exact Hk.
Qed.

(* ================================================================================================ *)
(* a heap without pages is unlinked from the heap list (mi_heap_free before the descriptor free)    *)
(* ================================================================================================ *)
Definition unlink_heap (s : state) (h : hid) : state :=
  let s1 := if default s =? h then set_default s (backing s) else s in
  let s2 := set_heaps s1 (filter (fun hp => negb (h_id hp =? h)) (heaps s1)) in
  set_descs s2 (filter (fun kv => negb (fst kv =? h)) (descs s2)).

Lemma get_heap_unlink s h k : get_heap (unlink_heap s h) k = if k =? h then None else get_heap s k.
Proof.
  unfold unlink_heap, get_heap. destruct (default s =? h); cbn; apply find_heap_filter.
Qed.

Lemma heap_ids_unlink s h : heap_ids (unlink_heap s h) = filter (fun k => negb (k =? h)) (heap_ids s).
Proof.
  unfold unlink_heap, heap_ids. assert (forall hs, map h_id (filter (fun hp => negb (h_id hp =? h)) hs) = filter (fun k => negb (k =? h)) (map h_id hs)) as X.
  { induction hs as [|x r IH]; cbn; [reflexivity|]. destruct (h_id x =? h); cbn; rewrite IH; reflexivity. }
  destruct (default s =? h); cbn; apply X.
Qed.

Lemma unlink_frames s h :
  pages (unlink_heap s h) = pages s /\ home (unlink_heap s h) = home s /\ backing (unlink_heap s h) = backing s /\
  default (unlink_heap s h) = (if default s =? h then backing s else default s) /\
  descs (unlink_heap s h) = filter (fun kv => negb (fst kv =? h)) (descs s).
Proof. unfold unlink_heap. destruct (default s =? h); cbn; auto. Qed.

Lemma unlink_heap_inv s h : heap_Inv s -> h <> backing s ->
  (forall p pi, get_page s p = Some pi -> pheap pi <> Some h) -> heap_Inv (unlink_heap s h).
Proof.
  intros I Hb NP. destruct (unlink_frames s h) as [Fp [Fh [Fb [Fd Fds]]]].
  assert (forall p, get_page (unlink_heap s h) p = get_page s p) as GP by (intros p; unfold get_page; rewrite Fp; reflexivity).
  assert (forall k hk, get_heap (unlink_heap s h) k = Some hk -> k <> h /\ get_heap s k = Some hk) as HC.
  { intros k hk K. rewrite get_heap_unlink in K. destruct (N.eqb_spec k h); [discriminate|auto]. }
  assert (forall k, In k (heap_ids (unlink_heap s h)) <-> In k (heap_ids s) /\ k <> h) as IDS.
  { intros k. rewrite heap_ids_unlink, filter_In, negb_true_iff, N.eqb_neq. reflexivity. }
  constructor.
  - rewrite heap_ids_unlink. apply NoDup_filter. apply (hi_hnodup s I).
  - unfold page_ids. rewrite Fp. apply (hi_pnodup s I).
  - rewrite Fb. apply IDS. split; [apply (hi_backing s I)|congruence].
  - rewrite Fd. apply IDS. destruct (N.eqb_spec (default s) h) as [E|E].
    + split; [apply (hi_backing s I)|congruence].
    + split; [apply (hi_default s I)|exact E].
  - intros k hk K. destruct (HC _ _ K) as [_ K']. eapply hi_qlen; eauto.
  - intros k hk i K. destruct (HC _ _ K) as [_ K']. eapply hi_qnodup; eauto.
  - intros k hk K. destruct (HC _ _ K) as [_ K']. eapply hi_count; eauto.
  - intros k hk i p K Hin. destruct (HC _ _ K) as [_ K']. rewrite GP. eapply hi_queued; eauto.
  - intros p pi G. rewrite GP in G. destruct (hi_page s I _ _ G) as [P1 [P2 [P3 P4]]].
    split; [exact P1|]. split; [exact P2|]. split; [exact P3|].
    destruct (pheap pi) as [k|] eqn:E; [|exact P4]. destruct P4 as [hk [Hk Hin]]. exists hk. split; [|exact Hin].
    rewrite get_heap_unlink. destruct (N.eqb_spec k h) as [X|X]; [|exact Hk]. subst k. exfalso. eapply NP; eauto.
  - intros p q pi qi Gp Gq. rewrite GP in Gp, Gq. eapply hi_disjoint; eauto.
  - unfold live_blocks. rewrite Fp. apply (hi_bnodup s I).
  - rewrite Fds. assert (forall ds : list (hid * bid), map fst (filter (fun kv => negb (fst kv =? h)) ds) = filter (fun k => negb (k =? h)) (map fst ds)) as X.
    { induction ds as [|[a b] r IH]; cbn; [reflexivity|]. destruct (a =? h); cbn; rewrite IH; reflexivity. }
    rewrite X. apply NoDup_filter. apply (hi_dnodup s I).
  - intros k. rewrite Fds, Fb, IDS.
    assert (forall ds : list (hid * bid), map fst (filter (fun kv => negb (fst kv =? h)) ds) = filter (fun k => negb (k =? h)) (map fst ds)) as X.
    { induction ds as [|[a b] r IH]; cbn; [reflexivity|]. destruct (a =? h); cbn; rewrite IH; reflexivity. }
    rewrite X, filter_In, negb_true_iff, N.eqb_neq. pose proof (hi_descs s I k). tauto.
  - rewrite Fh. apply (hi_hmnodup s I).
  - rewrite Fh. unfold live_blocks. rewrite Fp. apply (hi_home_live s I).
  - intros p pi b G. rewrite GP in G. rewrite Fh. eapply hi_home; eauto.
Qed.

Lemma heap_free_unfold s h :
  heap_free s h =
  if h =? backing s then Some s
  else match get_heap s h with
       | None => Some s
       | Some _ => match find_desc (descs s) h with
                   | Some d => block_free (unlink_heap s h) d true
                   | None => Some (set_heaps (if default s =? h then set_default s (backing s) else s)
                                        (filter (fun hp => negb (h_id hp =? h)) (heaps (if default s =? h then set_default s (backing s) else s))))
                   end
       end.
Proof.
  unfold heap_free, unlink_heap. destruct (h =? backing s); [reflexivity|]. destruct (get_heap s h); [|reflexivity].
  destruct (default s =? h); cbn; destruct (find_desc (descs s) h); reflexivity.
Qed.

Lemma heap_free_inv s h s' : heap_Inv s ->
  (h <> backing s -> forall p pi, get_page s p = Some pi -> pheap pi <> Some h) ->
  heap_free s h = Some s' -> heap_Inv s'.
Proof.
  intros I NP. rewrite heap_free_unfold. destruct (N.eqb_spec h (backing s)) as [E|E]; [intros K; inversion K; subst; exact I|].
  destruct (get_heap s h) as [hp|] eqn:H; [|intros K; inversion K; subst; exact I].
  destruct (find_desc (descs s) h) as [d|] eqn:D.
  - intros K. eapply block_free_inv; [|exact K]. apply unlink_heap_inv; [exact I|exact E|apply NP; exact E].
  - exfalso. apply find_desc_none in D. apply D. apply (hi_descs s I). split; [eapply get_heap_in_ids; eauto|exact E].
Qed.

(* ================================================================================================ *)
(* mi_heap_absorb                                                                                    *)
(* ================================================================================================ *)
Record same_frame (s s' : state) : Prop := {
  sf_hids : heap_ids s' = heap_ids s;
  sf_pids : page_ids s' = page_ids s;
  sf_live : live_blocks s' = live_blocks s;
  sf_default : default s' = default s;
  sf_backing : backing s' = backing s;
  sf_descs : descs s' = descs s;
  sf_home : home s' = home s
}.

Lemma same_frame_refl s : same_frame s s.
Proof. constructor; reflexivity. Qed.

Lemma same_frame_trans a b c : same_frame a b -> same_frame b c -> same_frame a c.
Proof. intros [] []. constructor; congruence. Qed.

Lemma fold_upd_page_spec f l : (forall pi, f (f pi) = f pi) -> (forall pi, blocks (f pi) = blocks pi) ->
  forall st,
  let st' := fold_left (fun st p => upd_page st p f) l st in
  (forall q, get_page st' q = if inb q l then option_map f (get_page st q) else get_page st q) /\
  (forall k, get_heap st' k = get_heap st k) /\ same_frame st st'.
Proof.
  intros Hidem Hbl. induction l as [|p r IH]; intros st; cbn [fold_left].
  - split; [intros q; reflexivity|]. split; [reflexivity|apply same_frame_refl].
  - destruct (IH (upd_page st p f)) as [A [B C]]. split; [|split].
    + intros q. rewrite A. hs. cbn [inb existsb]. fold (inb q r).
      destruct (N.eqb_spec q p) as [E|E].
      * subst. cbn. destruct (inb p r); destruct (get_page st p); cbn; rewrite ?Hidem; reflexivity.
      * cbn. reflexivity.
    + intros k. rewrite B. reflexivity.
    + eapply same_frame_trans; [|exact C]. constructor; hs; try reflexivity.
      apply live_blocks_upd_page. exact Hbl.
Qed.

Lemma same_frame_upd_heap s h f : (forall hp, h_id (f hp) = h_id hp) -> same_frame s (upd_heap s h f).
Proof. intros Hid. constructor; hs; try reflexivity. apply heap_ids_upd_heap. exact Hid. Qed.

(* one iteration of the loop of mi_heap_absorb *)
Lemma absorb_bin_step st h from i hp Qh ch fp c :
  h <> from -> i <= MI_BIN_FULL -> length Qh = NBINS ->
  get_heap st h = Some (set_queues hp Qh ch) -> get_heap st from = Some (set_count fp c) ->
  let st' := absorb_bin h from st i in
  exists Q' c',
    get_heap st' h = Some (set_queues hp Q' (ch + N.of_nat (length (qget (queues fp) i)))) /\ length Q' = NBINS /\
    (forall j, qget Q' j = if j =? i then qget Qh i ++ qget (queues fp) i else qget Qh j) /\
    get_heap st' from = Some (set_count fp c') /\
    (forall k, k <> h -> k <> from -> get_heap st' k = get_heap st k) /\
    (forall q, get_page st' q = if inb q (qget (queues fp) i) then option_map (set_pheap (Some h)) (get_page st q) else get_page st q) /\
    same_frame st st'.
Proof.
  intros Hne Hi L Hh Hf st'. unfold st', absorb_bin, queue_append. rewrite Hf. cbn [queues set_count set_queues].
  assert (from <> h) as Hne' by congruence.
  destruct (qget (queues fp) i) as [|a r] eqn:Eq.
  - exists Qh, (wsub c 0). split; [|split; [exact L|split; [|split; [|split; [|split]]]]].
    + rewrite get_heap_upd_other by (try reflexivity; congruence).
      erewrite get_heap_upd_same; [|reflexivity|exact Hh]. cbn. rewrite N.add_0_r. reflexivity.
    + intros j. destruct (N.eqb_spec j i); [subst; rewrite app_nil_r|]; reflexivity.
    + erewrite get_heap_upd_same; [|reflexivity|rewrite get_heap_upd_other by (try reflexivity; congruence); exact Hf].
      reflexivity.
    + intros k K1 K2. rewrite !get_heap_upd_other by (try reflexivity; assumption). reflexivity.
    + intros q. cbn. reflexivity.
    + eapply same_frame_trans; apply same_frame_upd_heap; reflexivity.
  - rewrite <- Eq. set (app := qget (queues fp) i).
    destruct (fold_upd_page_spec (set_pheap (Some h)) app ltac:(reflexivity) ltac:(reflexivity) st) as [A [B C]].
    set (s1 := fold_left (fun st0 p => upd_page st0 p (set_pheap (Some h))) app st) in *.
    exists (qset Qh i (qget Qh i ++ app)), (wsub c (N.of_nat (length app))).
    split; [|split; [rewrite qset_length; exact L|split; [|split; [|split; [|split]]]]].
    + rewrite get_heap_upd_other by (try reflexivity; congruence).
      erewrite get_heap_upd_same; [|reflexivity|erewrite get_heap_upd_same; [|reflexivity|rewrite B; exact Hh]; reflexivity].
      reflexivity.
    + intros j. destruct (N.eqb_spec j i) as [E|E].
      * subst. rewrite qget_qset_same by assumption. reflexivity.
      * rewrite qget_qset_other by congruence. reflexivity.
    + erewrite get_heap_upd_same; [|reflexivity|rewrite !get_heap_upd_other by (try reflexivity; congruence); rewrite B; exact Hf].
      reflexivity.
    + intros k K1 K2. rewrite !get_heap_upd_other by (try reflexivity; assumption). apply B.
    + intros q. hs. apply A.
    + eapply same_frame_trans; [exact C|]. eapply same_frame_trans; [|apply same_frame_upd_heap; reflexivity].
      eapply same_frame_trans; apply same_frame_upd_heap; reflexivity.
Qed.

Lemma absorb_fold_spec s h from hp fp l :
  h <> from -> get_heap s h = Some hp -> get_heap s from = Some fp -> length (queues hp) = NBINS ->
  (forall i, In i l -> i <= MI_BIN_FULL) -> NoDup l ->
  let st := fold_left (absorb_bin h from) l s in
  exists Q c,
    get_heap st h = Some (set_queues hp Q (page_count hp + N.of_nat (length (flat_map (qget (queues fp)) l)))) /\
    length Q = NBINS /\
    (forall j, qget Q j = if inb j l then qget (queues hp) j ++ qget (queues fp) j else qget (queues hp) j) /\
    get_heap st from = Some (set_count fp c) /\
    (forall k, k <> h -> k <> from -> get_heap st k = get_heap s k) /\
    (forall q, get_page st q = if existsb (fun i => inb q (qget (queues fp) i)) l
                               then option_map (set_pheap (Some h)) (get_page s q) else get_page s q) /\
    same_frame s st.
Proof.
  intros Hne Hh Hf L. induction l as [|i r IH] using rev_ind; intros Hb ND st.
  - exists (queues hp), (page_count fp). cbn. rewrite N.add_0_r. repeat split; auto.
    + destruct hp; exact Hh.
    + destruct fp; exact Hf.
  - unfold st. rewrite fold_left_app. cbn [fold_left].
    apply NoDup_app_inv in ND. destruct ND as [ND1 [_ ND2]].
    destruct (IH (fun j Hj => Hb j (in_or_app _ _ _ (or_introl Hj))) ND1) as [Q [c [A1 [A2 [A3 [A4 [A5 [A6 A7]]]]]]]].
    set (s1 := fold_left (absorb_bin h from) r s) in *.
    assert (i <= MI_BIN_FULL) as Hi by (apply Hb; apply in_or_app; right; left; reflexivity).
    assert (~ In i r) as Hir by (intros K; apply (ND2 i K); left; reflexivity).
    destruct (absorb_bin_step s1 h from i hp Q _ fp c Hne Hi A2 A1 A4) as [Q' [c' [B1 [B2 [B3 [B4 [B5 [B6 B7]]]]]]]].
    exists Q', c'. split; [|split; [exact B2|split; [|split; [exact B4|split; [|split]]]]].
    + rewrite B1. f_equal. f_equal. rewrite flat_map_app, app_length. cbn [flat_map]. rewrite app_nil_r. lia.
    + intros j. rewrite B3. unfold inb. rewrite existsb_app. fold (inb j r). cbn [existsb]. rewrite orb_false_r.
      destruct (N.eqb_spec j i) as [E|E].
      * subst j. rewrite A3. apply inb_false in Hir. rewrite Hir. cbn. reflexivity.
      * rewrite A3. rewrite orb_false_r. reflexivity.
    + intros k K1 K2. rewrite B5, A5 by assumption. reflexivity.
    + intros q. rewrite B6, A6. rewrite existsb_app. cbn [existsb]. rewrite orb_false_r.
      destruct (existsb (fun i0 => inb q (qget (queues fp) i0)) r); destruct (inb q (qget (queues fp) i)); cbn; try reflexivity.
      destruct (get_page s q); reflexivity.
    + eapply same_frame_trans; eauto.
Qed.

(* the closed form of mi_heap_absorb(h, from) *)
Record absorbed (s s' : state) (h from : hid) (hp fp : heap) : Prop := {
  ab_h : exists Q, get_heap s' h = Some (set_queues hp Q (page_count hp + page_count fp)) /\ length Q = NBINS /\
                   forall j, qget Q j = qget (queues hp) j ++ qget (queues fp) j;
  ab_from : exists Q, get_heap s' from = Some (set_queues fp Q 0) /\ length Q = NBINS /\ forall j, qget Q j = [];
  ab_other : forall k, k <> h -> k <> from -> get_heap s' k = get_heap s k;
  ab_page : forall q, get_page s' q =
              option_map (fun pi => if opt_eqb (pheap pi) (Some from) then set_pheap (Some h) pi else pi) (get_page s q);
  ab_frame : same_frame s s'
}.

Lemma all_queues_empty s h hp : heap_Inv s -> get_heap s h = Some hp -> page_count hp = 0 -> forall i, qget (queues hp) i = [].
Proof.
  intros I H C i. rewrite (hi_count s I _ _ H) in C.
  destruct (qget (queues hp) i) as [|p r] eqn:E; [reflexivity|exfalso].
  assert (In p (heap_pages hp)) as K.
  { apply in_heap_pages. exists i. split; [|rewrite E; left; reflexivity].
    eapply inv_queued_bound; eauto. rewrite E. left. reflexivity. }
  destruct (heap_pages hp); [destruct K|cbn in C; lia].
Qed.

Lemma heap_absorb_spec s h from hp fp : heap_Inv s -> h <> from ->
  get_heap s h = Some hp -> get_heap s from = Some fp -> absorbed s (heap_absorb s h from) h from hp fp.
Proof.
  intros I Hne Hh Hf. unfold heap_absorb. rewrite Hf.
  pose proof (hi_qlen s I _ _ Hh) as Lh. pose proof (hi_qlen s I _ _ Hf) as Lf.
  assert (forall q, (exists pi, get_page s q = Some pi /\ pheap pi = Some from) <-> In q (heap_pages fp)) as PF.
  { intros q. symmetry. apply inv_queued_iff; assumption. }
  destruct (N.eqb_spec (page_count fp) 0) as [C|C].
  - pose proof (all_queues_empty s from fp I Hf C) as EM.
    constructor.
    + exists (queues hp). rewrite C, N.add_0_r. split; [destruct hp; exact Hh|]. split; [exact Lh|].
      intros j. rewrite EM, app_nil_r. reflexivity.
    + exists (queues fp). rewrite <- C. split; [destruct fp; exact Hf|]. split; [exact Lf|exact EM].
    + reflexivity.
    + intros q. destruct (get_page s q) as [pi|] eqn:G; [|reflexivity]. cbn.
      destruct (opt_eqb (pheap pi) (Some from)) eqn:E; [|reflexivity]. apply opt_eqb_spec in E.
      exfalso. assert (In q (heap_pages fp)) as K by (apply PF; eauto).
      apply in_heap_pages in K. destruct K as [i [_ K]]. rewrite EM in K. destruct K.
    + apply same_frame_refl.
  - destruct (absorb_fold_spec s h from hp fp all_bins Hne Hh Hf Lh (fun i Hi => proj1 (in_all_bins i) Hi) all_bins_NoDup)
      as [Q [c [A1 [A2 [A3 [A4 [A5 [A6 A7]]]]]]]].
    set (st := fold_left (absorb_bin h from) all_bins s) in *.
    unfold heap_reset_pages. constructor.
    + exists Q. split; [|split; [exact A2|]].
      * rewrite get_heap_upd_other by (try reflexivity; congruence). rewrite A1. f_equal. f_equal.
        change (flat_map (qget (queues fp)) all_bins) with (heap_pages fp). rewrite <- (hi_count s I _ _ Hf). reflexivity.
      * intros j. rewrite A3. destruct (inb j all_bins) eqn:E; [reflexivity|].
        apply inb_false in E. rewrite in_all_bins in E.
        rewrite (qget_beyond (queues fp) j Lf) by lia. rewrite app_nil_r. reflexivity.
    + exists (repeat [] NBINS). split; [|split; [apply repeat_length|apply qget_repeat]].
      erewrite get_heap_upd_same; [|reflexivity|exact A4]. reflexivity.
    + intros k K1 K2. rewrite get_heap_upd_other by (try reflexivity; assumption). apply A5; assumption.
    + intros q. hs. rewrite A6. destruct (get_page s q) as [pi|] eqn:G; [|destruct (existsb _ _); reflexivity]. cbn [option_map].
      destruct (existsb (fun i => inb q (qget (queues fp) i)) all_bins) eqn:E.
      * apply existsb_exists in E. destruct E as [i [Hi E]]. apply inb_spec in E.
        assert (In q (heap_pages fp)) as K by (apply in_heap_pages; exists i; split; [apply in_all_bins; exact Hi|exact E]).
        apply PF in K. destruct K as [pi' [G' E']]. rewrite G in G'. inversion G'; subst pi'. rewrite E'.
        rewrite opt_eqb_refl. reflexivity.
      * destruct (opt_eqb (pheap pi) (Some from)) eqn:E2; [|reflexivity]. apply opt_eqb_spec in E2. exfalso.
        assert (In q (heap_pages fp)) as K by (apply PF; eauto). apply in_heap_pages in K. destruct K as [i [Hi K]].
        assert (existsb (fun i0 => inb q (qget (queues fp) i0)) all_bins = true) as X; [|congruence].
        apply existsb_exists. exists i. split; [apply in_all_bins; exact Hi|apply inb_spec; exact K].
    + eapply same_frame_trans; [exact A7|apply same_frame_upd_heap; reflexivity].
Qed.

Lemma flat_map_app_length {A B} (f g : A -> list B) l :
  length (flat_map (fun x => f x ++ g x) l) = (length (flat_map f l) + length (flat_map g l))%nat.
Proof. induction l as [|x r IH]; cbn; [reflexivity|]. rewrite !app_length, IH. lia. Qed.

Lemma find_home_move hm from h b :
  find_home (map (fun kv : bid * option hid => if opt_eqb (snd kv) (Some from) then (fst kv, Some h) else kv) hm) b =
  option_map (fun oh => if opt_eqb oh (Some from) then Some h else oh) (find_home hm b).
Proof.
  induction hm as [|[k v] r IH]; cbn; [reflexivity|].
  destruct (opt_eqb v (Some from)) eqn:E; cbn; destruct (k =? b); cbn; try rewrite E; auto.
Qed.

Lemma map_fst_home_move (hm : list (bid * option hid)) from h :
  map fst (map (fun kv : bid * option hid => if opt_eqb (snd kv) (Some from) then (fst kv, Some h) else kv) hm) = map fst hm.
Proof. rewrite map_map. apply map_ext. intros [k v]. cbn. destruct (opt_eqb v (Some from)); reflexivity. Qed.

Lemma absorbed_inv s s' h from hp fp : heap_Inv s -> h <> from ->
  get_heap s h = Some hp -> get_heap s from = Some fp -> absorbed s s' h from hp fp ->
  heap_Inv (home_move s' from h).
Proof.
  intros I Hne Hh Hf [[Qh [A1 [A2 A3]]] [Qf [B1 [B2 B3]]] OTH PG [F1 F2 F3 F4 F5 F6 F7]].
  set (g := fun pi => if opt_eqb (pheap pi) (Some from) then set_pheap (Some h) pi else pi) in *.
  assert (forall pi, pbin (g pi) = pbin pi /\ in_full (g pi) = in_full pi /\ blocks (g pi) = blocks pi /\
                     pstart (g pi) = pstart pi /\ pcapb (g pi) = pcapb pi /\ psize (g pi) = psize pi /\
                     page_qbin (g pi) = page_qbin pi /\
                     pheap (g pi) = (if opt_eqb (pheap pi) (Some from) then Some h else pheap pi)) as GG.
  { intros pi. unfold g. destruct (opt_eqb (pheap pi) (Some from)); cbn; repeat split; reflexivity. }
  assert (forall k hk, get_heap s' k = Some hk ->
            (k = h /\ hk = set_queues hp Qh (page_count hp + page_count fp)) \/
            (k = from /\ hk = set_queues fp Qf 0) \/ (k <> h /\ k <> from /\ get_heap s k = Some hk)) as HC.
  { intros k hk K. destruct (N.eq_dec k h) as [E|E]; [subst; left; split; congruence|].
    destruct (N.eq_dec k from) as [E2|E2]; [subst; right; left; split; congruence|].
    right. right. rewrite OTH in K by assumption. auto. }
  assert (forall q qi', get_page s' q = Some qi' -> exists qi, get_page s q = Some qi /\ qi' = g qi) as PC.
  { intros q qi' K. rewrite PG in K. destruct (get_page s q) as [qi|]; [|discriminate]. cbn in K. inversion K. eauto. }
  constructor; unfold home_move; hs.
  - rewrite F1. apply (hi_hnodup s I).
  - rewrite F2. apply (hi_pnodup s I).
  - rewrite F1, F5. apply (hi_backing s I).
  - rewrite F1, F4. apply (hi_default s I).
  - intros k hk K. hs. destruct (HC _ _ K) as [[-> ->]|[[-> ->]|[_ [_ K']]]]; [exact A2|exact B2|eapply hi_qlen; eauto].
  - intros k hk i K. hs. destruct (HC _ _ K) as [[-> ->]|[[-> ->]|[_ [_ K']]]].
    + cbn [queues set_queues]. rewrite A3. apply NoDup_app_intro; [eapply hi_qnodup; eauto|eapply hi_qnodup; eauto|].
      intros p X Y. destruct (inv_queue_unique _ _ _ _ _ _ _ _ I Hh X Hf Y) as [Z _]. contradiction.
    + cbn [queues set_queues]. rewrite B3. constructor.
    + eapply hi_qnodup; eauto.
  - intros k hk K. hs. destruct (HC _ _ K) as [[-> ->]|[[-> ->]|[_ [_ K']]]].
    + unfold heap_pages. cbn [queues set_queues page_count].
      rewrite (flat_map_ext _ (fun j => qget (queues hp) j ++ qget (queues fp) j)) by exact A3.
      rewrite flat_map_app_length. rewrite (hi_count s I _ _ Hh), (hi_count s I _ _ Hf). unfold heap_pages. lia.
    + rewrite heap_pages_all_nil by exact B3. reflexivity.
    + eapply hi_count; eauto.
  - intros k hk i p K Hin. hs. rewrite PG. destruct (HC _ _ K) as [[-> ->]|[[-> ->]|[Hk1 [Hk2 K']]]].
    + cbn [queues set_queues] in Hin. rewrite A3 in Hin. apply in_app_iff in Hin. destruct Hin as [Hin|Hin].
      * destruct (hi_queued s I _ _ _ _ Hh Hin) as [pi [G [E R]]]. rewrite G. cbn. exists (g pi). split; [reflexivity|].
        destruct (GG pi) as [G1 [G2 [_ [_ [_ [_ [_ G8]]]]]]]. rewrite G1, G2, G8, E.
        assert (opt_eqb (Some h) (Some from) = false) as -> by (cbn; apply N.eqb_neq; exact Hne). auto.
      * destruct (hi_queued s I _ _ _ _ Hf Hin) as [pi [G [E R]]]. rewrite G. cbn. exists (g pi). split; [reflexivity|].
        destruct (GG pi) as [G1 [G2 [_ [_ [_ [_ [_ G8]]]]]]]. rewrite G1, G2, G8, E, opt_eqb_refl. auto.
    + cbn [queues set_queues] in Hin. rewrite B3 in Hin. destruct Hin.
    + destruct (hi_queued s I _ _ _ _ K' Hin) as [pi [G [E R]]]. rewrite G. cbn. exists (g pi). split; [reflexivity|].
      destruct (GG pi) as [G1 [G2 [_ [_ [_ [_ [_ G8]]]]]]]. rewrite G1, G2, G8, E.
      assert (opt_eqb (Some k) (Some from) = false) as -> by (cbn; apply N.eqb_neq; exact Hk2). auto.
  - intros p pi' K. hs. destruct (PC _ _ K) as [pi [G ->]]. destruct (hi_page s I _ _ G) as [P1 [P2 [P3 P4]]].
    destruct (GG pi) as [G1 [G2 [G3 [G4 [G5 [G6 [G7 G8]]]]]]]. rewrite G1, G3, G4, G5, G6, G7, G8.
    split; [exact P1|]. split; [exact P2|]. split; [exact P3|].
    destruct (pheap pi) as [k|] eqn:E; [|cbn; rewrite G2; exact P4]. destruct P4 as [hk [Hk Hin]].
    destruct (N.eq_dec k from) as [X|X].
    + subst k. rewrite opt_eqb_refl. rewrite Hf in Hk. inversion Hk; subst hk. eexists. split; [exact A1|].
      cbn [queues set_queues]. rewrite A3. apply in_app_iff. right. exact Hin.
    + assert (opt_eqb (Some k) (Some from) = false) as -> by (cbn; apply N.eqb_neq; exact X).
      destruct (N.eq_dec k h) as [Y|Y].
      * subst k. rewrite Hh in Hk. inversion Hk; subst hk. eexists. split; [exact A1|].
        cbn [queues set_queues]. rewrite A3. apply in_app_iff. left. exact Hin.
      * exists hk. split; [|exact Hin]. hs. rewrite OTH by assumption. exact Hk.
  - intros a b ai' bi' Ka Kb Hab. hs. destruct (PC _ _ Ka) as [ai [Ga ->]]. destruct (PC _ _ Kb) as [bi [Gb ->]].
    pose proof (hi_disjoint s I _ _ _ _ Ga Gb Hab) as D. unfold extent_disjoint in *.
    destruct (GG ai) as [_ [_ [_ [X1 [_ [X2 _]]]]]]. destruct (GG bi) as [_ [_ [_ [Y1 [_ [Y2 _]]]]]].
    rewrite X1, X2, Y1, Y2. exact D.
  - rewrite F3. apply (hi_bnodup s I).
  - rewrite F6. apply (hi_dnodup s I).
  - intros k. rewrite F6, F1, F5. apply (hi_descs s I).
  - cbn [home set_home]. rewrite map_fst_home_move, F7. apply (hi_hmnodup s I).
  - intros b. cbn [home set_home]. rewrite map_fst_home_move, F7, F3. apply (hi_home_live s I).
  - intros p pi' b K Hb. hs. cbn [home set_home]. rewrite find_home_move, F7. destruct (PC _ _ K) as [pi [G ->]].
    destruct (GG pi) as [_ [_ [G3 [_ [_ [_ [_ G8]]]]]]]. rewrite G3 in Hb. rewrite (hi_home s I _ _ _ G Hb). cbn. rewrite G8. reflexivity.
Qed.

(* ================================================================================================ *)
(* _mi_heap_collect_abandon                                                                          *)
(* ================================================================================================ *)
Lemma page_collect_abandon_unfold s p :
  page_collect_abandon s p =
  match get_page s p with
  | Some pi => match pheap pi with
               | Some h => if is_nil (blocks pi) then page_free s h pi p else abandon_page s h pi p
               | None => s
               end
  | None => s
  end.
Proof. reflexivity. Qed.

Lemma page_collect_abandon_inv s p : heap_Inv s -> heap_Inv (page_collect_abandon s p).
Proof.
  intros I. rewrite page_collect_abandon_unfold. destruct (get_page s p) as [pi|] eqn:G; [|exact I].
  destruct (pheap pi) as [h|] eqn:E; [|exact I]. destruct (is_nil (blocks pi)) eqn:N.
  - apply page_free_inv; auto. apply is_nil_spec. exact N.
  - apply abandon_page_inv; auto.
Qed.

(* what one step does to pages, heaps and the ghost *)
Lemma page_collect_abandon_spec s p : heap_Inv s ->
  let s' := page_collect_abandon s p in
  (forall q, q <> p -> get_page s' q = get_page s q) /\
  get_page s' p = match get_page s p with
                  | Some pi => match pheap pi with
                               | Some _ => if is_nil (blocks pi) then None else Some (set_pheap None (set_in_full false pi))
                               | None => Some pi
                               end
                  | None => None
                  end /\
  (forall k, (forall pi, get_page s p = Some pi -> pheap pi <> Some k) -> get_heap s' k = get_heap s k) /\
  heap_ids s' = heap_ids s /\ live_blocks s' = live_blocks s /\
  default s' = default s /\ backing s' = backing s /\ descs s' = descs s /\
  (forall b, find_home (home s') b =
     match get_page s p with
     | Some pi => match pheap pi with
                  | Some _ => if inb b (blocks pi) then option_map (fun _ => None) (find_home (home s) b) else find_home (home s) b
                  | None => find_home (home s) b
                  end
     | None => find_home (home s) b
     end).
Proof.
  intros I s'. unfold s'. rewrite page_collect_abandon_unfold. destruct (get_page s p) as [pi|] eqn:G.
  2: { rewrite G. repeat split; auto. }
  destruct (pheap pi) as [h|] eqn:E.
  2: { rewrite G. repeat split; auto. }
  destruct (is_nil (blocks pi)) eqn:N.
  - apply is_nil_spec in N. unfold page_free. split; [|split; [|split; [|split; [|split]]]].
    + intros q Hq. hs. rewrite get_page_queue_remove. apply N.eqb_neq in Hq. rewrite Hq. reflexivity.
    + hs. rewrite N.eqb_refl. reflexivity.
    + intros k Hk. hs. rewrite get_heap_queue_remove. destruct (N.eqb_spec k h) as [X|X]; [|reflexivity].
      subst k. exfalso. apply (Hk pi); auto.
    + hs. apply heap_ids_queue_remove.
    + rewrite (live_blocks_del_empty _ p (set_in_full false pi)).
      * apply live_blocks_queue_remove.
      * rewrite get_page_queue_remove, N.eqb_refl, G. reflexivity.
      * exact N.
      * rewrite page_ids_queue_remove. apply (hi_pnodup s I).
    + repeat split; try reflexivity. intros b. rewrite N. cbn. reflexivity.
  - unfold abandon_page. split; [|split; [|split; [|split; [|split]]]].
    + intros q Hq. hs. rewrite get_page_queue_remove. apply N.eqb_neq in Hq. rewrite Hq. reflexivity.
    + hs. rewrite get_page_queue_remove, N.eqb_refl, G. reflexivity.
    + intros k Hk. hs. rewrite get_heap_queue_remove. destruct (N.eqb_spec k h) as [X|X]; [|reflexivity].
      subst k. exfalso. apply (Hk pi); auto.
    + hs. apply heap_ids_queue_remove.
    + hs. rewrite live_blocks_upd_page by reflexivity. apply live_blocks_queue_remove.
    + repeat split; try reflexivity. intros b. unfold home_set. cbn [home set_home]. hs. apply find_home_set.
Qed.

Lemma heap_collect_abandon_inv_gen l : forall s, heap_Inv s -> heap_Inv (fold_left page_collect_abandon l s).
Proof.
  induction l as [|p r IH]; intros s I; cbn; [exact I|]. apply IH. apply page_collect_abandon_inv. exact I.
Qed.

Lemma heap_collect_abandon_inv s h : heap_Inv s -> heap_Inv (heap_collect_abandon s h).
Proof. intros I. apply heap_collect_abandon_inv_gen. exact I. Qed.

(* the whole walk, for a duplicate-free list of pages of heap h *)
Lemma collect_abandon_fold_spec h l : forall s, heap_Inv s -> NoDup l ->
  (forall p, In p l -> exists pi, get_page s p = Some pi /\ pheap pi = Some h) ->
  let s' := fold_left page_collect_abandon l s in
  (forall q, ~ In q l -> get_page s' q = get_page s q) /\
  (forall q pi, In q l -> get_page s q = Some pi ->
     get_page s' q = if is_nil (blocks pi) then None else Some (set_pheap None (set_in_full false pi))) /\
  (forall k, k <> h -> get_heap s' k = get_heap s k) /\
  heap_ids s' = heap_ids s /\ live_blocks s' = live_blocks s /\
  default s' = default s /\ backing s' = backing s /\ descs s' = descs s.
Proof.
  induction l as [|p r IH]; intros s I ND HP s'.
  - unfold s'. cbn. repeat split; auto. intros q pi [].
  - inversion ND; subst. unfold s'. cbn [fold_left].
    destruct (HP p (or_introl eq_refl)) as [pi [G E]].
    destruct (page_collect_abandon_spec s p I) as [S1 [S2 [S3 [S4 [S5 [S6 [S7 [S8 _]]]]]]]].
    set (s1 := page_collect_abandon s p) in *. rewrite G, E in S2.
    assert (forall q, In q r -> exists qi, get_page s1 q = Some qi /\ pheap qi = Some h) as HP1.
    { intros q Hq. destruct (HP q (or_intror Hq)) as [qi [Gq Eq]]. exists qi. split; [|exact Eq].
      rewrite S1; [exact Gq|]. intros ->. contradiction. }
    destruct (IH s1 (page_collect_abandon_inv s p I) H2 HP1) as [T1 [T2 [T3 [T4 [T5 [T6 [T7 T8]]]]]]].
    split; [|split; [|split; [|split; [|split; [|split; [|split]]]]]].
    + intros q Hq. rewrite T1 by (intros K; apply Hq; right; exact K). apply S1. intros ->. apply Hq. left. reflexivity.
    + intros q qi [->|Hq] Gq.
      * rewrite G in Gq. inversion Gq; subst qi. rewrite T1 by exact H1. exact S2.
      * rewrite (T2 q qi Hq); [reflexivity|]. rewrite S1; [exact Gq|]. intros ->. contradiction.
    + intros k Hk. rewrite T3 by exact Hk. apply S3. intros pi0 G0. rewrite G in G0. inversion G0; subst. congruence.
    + congruence.
    + congruence.
    + congruence.
    + congruence.
    + congruence.
Qed.

(* ================================================================================================ *)
(* _mi_heap_destroy_pages                                                                            *)
(* ================================================================================================ *)
Definition blocks_of_pages (s : state) (l : list pid) : list bid :=
  flat_map (fun p => match get_page s p with Some pi => blocks pi | None => [] end) l.

Lemma filter_filter {A} (f g : A -> bool) l : filter f (filter g l) = filter (fun x => g x && f x) l.
Proof. induction l as [|x r IH]; cbn; [reflexivity|]. destruct (g x); cbn; [destruct (f x)|]; rewrite IH; reflexivity. Qed.

Lemma flat_map_ext_in' {A B} (f g : A -> list B) l : (forall x, In x l -> f x = g x) -> flat_map f l = flat_map g l.
Proof.
  induction l as [|x r IH]; cbn; intros H; [reflexivity|]. rewrite H by (left; reflexivity). f_equal.
  apply IH. intros y Hy. apply H. right. exact Hy.
Qed.

Lemma inb_app x a b : inb x (a ++ b) = inb x a || inb x b.
Proof. unfold inb. apply existsb_app. Qed.

Lemma filter_true {A} (l : list A) : filter (fun _ => true) l = l.
Proof. induction l as [|x r IH]; cbn; [reflexivity|]. f_equal. exact IH. Qed.

Lemma destroy_fold_spec l : forall s, NoDup l ->
  let s' := fold_left page_destroy l s in
  pages s' = filter (fun kv => negb (inb (fst kv) l)) (pages s) /\
  home s' = filter (fun kv => negb (inb (fst kv) (blocks_of_pages s l))) (home s) /\
  heaps s' = heaps s /\ default s' = default s /\ backing s' = backing s /\ descs s' = descs s.
Proof.
  induction l as [|p r IH]; intros s ND s'.
  - unfold s'. cbn. rewrite !filter_true. repeat split; reflexivity.
  - inversion ND; subst. unfold s'. cbn [fold_left]. destruct (IH (page_destroy s p) H2) as [A [B [C [D [E F]]]]].
    assert (blocks_of_pages (page_destroy s p) r = blocks_of_pages s r) as BR.
    { unfold blocks_of_pages. apply flat_map_ext_in'. intros q Hq.
      assert (get_page (page_destroy s p) q = get_page s q) as ->; [|reflexivity].
      unfold page_destroy. destruct (get_page s p); [|reflexivity]. unfold home_del. hs.
      destruct (N.eqb_spec q p); [subst; contradiction|reflexivity]. }
    rewrite A, B, C, D, E, F, BR. unfold page_destroy. destruct (get_page s p) as [pi|] eqn:G.
    + unfold home_del. cbn [pages home heaps default backing descs set_home del_page set_pages]. rewrite !filter_filter.
      split; [|split; [|repeat split; reflexivity]].
      * apply filter_ext. intros [k v]. cbn [fst]. cbn [inb existsb]. fold (inb k r). rewrite negb_orb. reflexivity.
      * apply filter_ext. intros [k v]. cbn [fst]. unfold blocks_of_pages at 2. cbn [flat_map]. rewrite G.
        fold (blocks_of_pages s r). rewrite inb_app, negb_orb. reflexivity.
    + split; [|split; [|repeat split; reflexivity]].
      * apply filter_ext_in. intros [k v] Hin. cbn [fst]. cbn [inb existsb]. fold (inb k r).
        destruct (N.eqb_spec k p) as [X|X]; [|reflexivity]. subst k. exfalso.
        apply find_page_none in G. apply G. apply (in_map fst) in Hin. exact Hin.
      * apply filter_ext. intros [k v]. cbn [fst]. unfold blocks_of_pages at 2. cbn [flat_map]. rewrite G. reflexivity.
Qed.

Lemma find_page_filter_list ps l q :
  find_page (filter (fun kv : pid * pinfo => negb (inb (fst kv) l)) ps) q = if inb q l then None else find_page ps q.
Proof.
  induction ps as [|[k v] r IH]; cbn; [destruct (inb q l); reflexivity|].
  destruct (inb k l) eqn:E; cbn.
  - rewrite IH. destruct (k =? q) eqn:E2; [|reflexivity]. apply N.eqb_eq in E2. subst. rewrite E. reflexivity.
  - destruct (k =? q) eqn:E2.
    + apply N.eqb_eq in E2. subst. rewrite E. reflexivity.
    + exact IH.
Qed.

Lemma NoDup_flat_map_filter {A B} (f : A -> list B) (g : A -> bool) l :
  NoDup (flat_map f l) -> NoDup (flat_map f (filter g l)).
Proof.
  induction l as [|x r IH]; cbn; intros H; [constructor|]. apply NoDup_app_inv in H. destruct H as [H1 [H2 H3]].
  destruct (g x); cbn; [|apply IH; exact H2]. apply NoDup_app_intro; [exact H1|apply IH; exact H2|].
  intros y Hy Hz. apply (H3 y Hy). apply in_flat_map in Hz. destruct Hz as [z [Z1 Z2]]. apply in_flat_map. exists z.
  split; [|exact Z2]. apply filter_In in Z1. tauto.
Qed.

Lemma map_fst_filter_pages (ps : list (pid * pinfo)) l :
  map fst (filter (fun kv => negb (inb (fst kv) l)) ps) = filter (fun k => negb (inb k l)) (map fst ps).
Proof. induction ps as [|[k v] r IH]; cbn; [reflexivity|]. destruct (inb k l); cbn; rewrite IH; reflexivity. Qed.

Lemma in_blocks_of_pages s l b : In b (blocks_of_pages s l) <-> exists p pi, In p l /\ get_page s p = Some pi /\ In b (blocks pi).
Proof.
  unfold blocks_of_pages. rewrite in_flat_map. split.
  - intros [p [Hp Hb]]. destruct (get_page s p) as [pi|] eqn:G; [|destruct Hb]. eauto.
  - intros [p [pi [Hp [G Hb]]]]. exists p. rewrite G. auto.
Qed.

(* the state after _mi_heap_destroy_pages(h) *)
Lemma heap_destroy_pages_spec s h hp : heap_Inv s -> get_heap s h = Some hp ->
  let s' := heap_destroy_pages s h in
  (forall q, get_page s' q = match get_page s q with
                             | Some pi => if opt_eqb (pheap pi) (Some h) then None else Some pi
                             | None => None
                             end) /\
  (forall k, get_heap s' k = if k =? h then Some (set_queues hp (repeat [] NBINS) 0) else get_heap s k) /\
  heap_ids s' = heap_ids s /\ default s' = default s /\ backing s' = backing s /\ descs s' = descs s /\
  pages s' = filter (fun kv => negb (inb (fst kv) (heap_pages hp))) (pages s) /\
  home s' = filter (fun kv => negb (inb (fst kv) (blocks_of_pages s (heap_pages hp)))) (home s).
Proof.
  intros I H s'. unfold s', heap_destroy_pages. rewrite (inv_visit s h hp I H).
  destruct (destroy_fold_spec (heap_pages hp) s (inv_heap_pages_nodup s h hp I H)) as [A [B [C [D [E F]]]]].
  set (st := fold_left page_destroy (heap_pages hp) s) in *.
  unfold heap_reset_pages. split; [|split; [|split; [|split; [|split; [|split; [|split]]]]]].
  - intros q. hs. unfold get_page. rewrite A, find_page_filter_list. fold (get_page s q).
    destruct (get_page s q) as [pi|] eqn:G.
    + destruct (opt_eqb (pheap pi) (Some h)) eqn:X.
      * apply opt_eqb_spec in X. assert (In q (heap_pages hp)) as K by (apply (inv_queued_iff s h hp q I H); eauto).
        apply inb_spec in K. rewrite K. reflexivity.
      * destruct (inb q (heap_pages hp)) eqn:K; [|reflexivity]. apply inb_spec in K.
        apply (inv_queued_iff s h hp q I H) in K. destruct K as [pi' [G' E']]. rewrite G in G'. inversion G'; subst.
        rewrite E', opt_eqb_refl in X. discriminate.
    + destruct (inb q (heap_pages hp)); reflexivity.
  - intros k. rewrite get_heap_upd_heap by reflexivity. unfold get_heap. rewrite C. fold (get_heap s k).
    destruct (N.eqb_spec k h); [subst; rewrite H|]; reflexivity.
  - rewrite heap_ids_upd_heap by reflexivity. unfold heap_ids. rewrite C. reflexivity.
  - hs. exact D.
  - hs. exact E.
  - hs. exact F.
  - hs. exact A.
  - hs. exact B.
Qed.

Lemma heap_destroy_pages_inv s h hp : heap_Inv s -> get_heap s h = Some hp -> heap_Inv (heap_destroy_pages s h).
Proof.
  intros I H. destruct (heap_destroy_pages_spec s h hp I H) as [GP [GH [F1 [F2 [F3 [F4 [FP FH]]]]]]].
  set (s' := heap_destroy_pages s h) in *.
  assert (forall q qi, get_page s' q = Some qi -> get_page s q = Some qi /\ pheap qi <> Some h) as PC.
  { intros q qi K. rewrite GP in K. destruct (get_page s q) as [pi|]; [|discriminate].
    destruct (opt_eqb (pheap pi) (Some h)) eqn:X; [discriminate|]. inversion K; subst. split; [reflexivity|].
    intros Y. rewrite Y, opt_eqb_refl in X. discriminate. }
  assert (forall k hk, get_heap s' k = Some hk -> (k = h /\ hk = set_queues hp (repeat [] NBINS) 0) \/ (k <> h /\ get_heap s k = Some hk)) as HC.
  { intros k hk K. rewrite GH in K. destruct (N.eqb_spec k h); [left; split; congruence|right; auto]. }
  assert (forall b q qi, get_page s' q = Some qi -> In b (blocks qi) -> ~ In b (blocks_of_pages s (heap_pages hp))) as NB.
  { intros b q qi K Hb X. destruct (PC _ _ K) as [G Hh]. apply in_blocks_of_pages in X. destruct X as [p [pi [Hp [Gp Hbp]]]].
    apply (inv_queued_iff s h hp p I H) in Hp. destruct Hp as [pi' [Gp' Ep']]. rewrite Gp in Gp'. inversion Gp'; subst pi'.
    assert (q = p) by (eapply (inv_block_page_unique s q p); eauto). subst q. rewrite G in Gp. inversion Gp; subst. contradiction. }
  constructor.
  - rewrite F1. apply (hi_hnodup s I).
  - unfold page_ids. rewrite FP, map_fst_filter_pages. apply NoDup_filter. apply (hi_pnodup s I).
  - rewrite F1, F3. apply (hi_backing s I).
  - rewrite F1, F2. apply (hi_default s I).
  - intros k hk K. destruct (HC _ _ K) as [[-> ->]|[_ K']]; [apply repeat_length|eapply hi_qlen; eauto].
  - intros k hk i K. destruct (HC _ _ K) as [[-> ->]|[_ K']]; [cbn [queues set_queues]; rewrite qget_repeat; constructor|eapply hi_qnodup; eauto].
  - intros k hk K. destruct (HC _ _ K) as [[-> ->]|[_ K']]; [|eapply hi_count; eauto].
    rewrite heap_pages_all_nil by (intros i; apply qget_repeat). reflexivity.
  - intros k hk i p K Hin. destruct (HC _ _ K) as [[-> ->]|[Hk K']].
    + cbn [queues set_queues] in Hin. rewrite qget_repeat in Hin. destruct Hin.
    + destruct (hi_queued s I _ _ _ _ K' Hin) as [pi [G [E R]]]. exists pi. split; [|auto].
      rewrite GP, G, E. assert (opt_eqb (Some k) (Some h) = false) as -> by (cbn; apply N.eqb_neq; exact Hk). reflexivity.
  - intros p pi K. destruct (PC _ _ K) as [G Hh]. destruct (hi_page s I _ _ G) as [P1 [P2 [P3 P4]]].
    split; [exact P1|]. split; [exact P2|]. split; [exact P3|].
    destruct (pheap pi) as [k|] eqn:E; [|exact P4]. destruct P4 as [hk [Hk Hin]]. exists hk. split; [|exact Hin].
    rewrite GH. destruct (N.eqb_spec k h) as [X|X]; [subst; congruence|exact Hk].
  - intros a b ai bi Ka Kb Hab. destruct (PC _ _ Ka) as [Ga _]. destruct (PC _ _ Kb) as [Gb _]. eapply hi_disjoint; eauto.
  - unfold live_blocks. rewrite FP. apply NoDup_flat_map_filter. apply (hi_bnodup s I).
  - rewrite F4. apply (hi_dnodup s I).
  - intros k. rewrite F4, F1, F3. apply (hi_descs s I).
  - rewrite FH, map_fst_home_del. apply NoDup_filter. apply (hi_hmnodup s I).
  - intros b Hb. rewrite FH in Hb. apply in_map_iff in Hb. destruct Hb as [[b' oh] [Eb Hin]]. cbn in Eb. subst b'.
    apply filter_In in Hin. destruct Hin as [Hin X]. cbn in X. apply negb_true_iff, inb_false in X.
    assert (In b (live_blocks s)) as L by (apply (hi_home_live s I); apply in_map_iff; exists (b, oh); auto).
    destruct (inv_live_page s b I L) as [p [pi [G Hbp]]].
    apply live_blocks_in. exists p, pi. split; [|exact Hbp]. apply get_page_in. rewrite GP, G.
    destruct (opt_eqb (pheap pi) (Some h)) eqn:Y; [|reflexivity]. apply opt_eqb_spec in Y. exfalso. apply X.
    apply in_blocks_of_pages. exists p, pi. split; [|auto]. apply (inv_queued_iff s h hp p I H). eauto.
  - intros p pi b K Hb. destruct (PC _ _ K) as [G _]. rewrite FH.
    etransitivity; [apply find_home_del|].
    assert (inb b (blocks_of_pages s (heap_pages hp)) = false) as -> by (apply inb_false; eapply NB; eauto).
    eapply hi_home; eauto.
Qed.

(* ================================================================================================ *)
(* mi_heap_delete, mi_heap_destroy, every operation, every history                                   *)
(* ================================================================================================ *)
Lemma collect_abandon_no_pages s h hp : heap_Inv s -> get_heap s h = Some hp ->
  forall q qi, get_page (heap_collect_abandon s h) q = Some qi -> pheap qi <> Some h.
Proof.
  intros I H q qi K E. unfold heap_collect_abandon in K. rewrite (inv_visit s h hp I H) in K.
  assert (forall p, In p (heap_pages hp) -> exists pi, get_page s p = Some pi /\ pheap pi = Some h) as HP.
  { intros p Hp. apply (inv_queued_iff s h hp p I H). exact Hp. }
  destruct (collect_abandon_fold_spec h (heap_pages hp) s I (inv_heap_pages_nodup s h hp I H) HP) as [T1 [T2 _]].
  destruct (in_dec N.eq_dec q (heap_pages hp)) as [Hin|Hin].
  - destruct (HP q Hin) as [pi [G _]]. rewrite (T2 q pi Hin G) in K. destruct (is_nil (blocks pi)); [discriminate|].
    inversion K; subst qi. cbn in E. discriminate.
  - rewrite T1 in K by exact Hin. apply Hin. apply (inv_queued_iff s h hp q I H). eauto.
Qed.

Lemma collect_abandon_backing s h : backing (heap_collect_abandon s h) = backing s.
Proof.
  unfold heap_collect_abandon. generalize (heap_visit_pages s h) as l. intros l. revert s.
  induction l as [|p r IH]; intros s; cbn; [reflexivity|]. rewrite IH.
  rewrite page_collect_abandon_unfold. destruct (get_page s p) as [pi|]; [|reflexivity].
  destruct (pheap pi); [|reflexivity]. destruct (is_nil (blocks pi)); reflexivity.
Qed.

Lemma heap_delete_inv s h s' : heap_Inv s -> heap_delete s h = Some s' -> heap_Inv s'.
Proof.
  intros I. unfold heap_delete. destruct (get_heap s h) as [hp|] eqn:H; [|intros K; inversion K; subst; exact I].
  destruct (get_heap s (backing s)) as [bp|] eqn:B; [|intros K; inversion K; subst; exact I].
  destruct (negb (h =? backing s) && heaps_compatible bp hp) eqn:C.
  - apply andb_true_iff in C. destruct C as [C _]. apply negb_true_iff, N.eqb_neq in C.
    assert (backing s <> h) as C' by congruence.
    pose proof (heap_absorb_spec s (backing s) h bp hp I C' B H) as AB.
    pose proof (absorbed_inv s _ (backing s) h bp hp I C' B H AB) as I1.
    intros K. eapply heap_free_inv; [exact I1| |exact K].
    intros _ p pi G E. unfold home_move in G. hs. rewrite (ab_page _ _ _ _ _ _ AB) in G.
    destruct (get_page s p) as [pi0|]; [|discriminate]. cbn in G. inversion G; subst pi. clear G.
    destruct (opt_eqb (pheap pi0) (Some h)) eqn:X.
    + cbn in E. congruence.
    + rewrite E, opt_eqb_refl in X. discriminate.
  - intros K. eapply heap_free_inv; [apply heap_collect_abandon_inv; exact I| |exact K].
    intros _ p pi G. eapply collect_abandon_no_pages; eauto.
Qed.

Lemma heap_destroy_inv s h s' : heap_Inv s -> heap_destroy s h = Some s' -> heap_Inv s'.
Proof.
  intros I. unfold heap_destroy. destruct (get_heap s h) as [hp|] eqn:H; [|intros K; inversion K; subst; exact I].
  destruct (no_reclaim hp); [|apply heap_delete_inv; exact I].
  intros K. eapply heap_free_inv; [eapply heap_destroy_pages_inv; eauto| |exact K].
  intros _ p pi G E. destruct (heap_destroy_pages_spec s h hp I H) as [GP _]. rewrite GP in G.
  destruct (get_page s p) as [pi0|]; [|discriminate]. destruct (opt_eqb (pheap pi0) (Some h)) eqn:X; [discriminate|].
  inversion G; subst pi0. rewrite E, opt_eqb_refl in X. discriminate.
Qed.

Theorem heap_inv_preserved s o s' : heap_Inv s -> heap_step s o = Some s' -> heap_Inv s'.
Proof.
  intros I. destruct o; cbn [heap_step].
  - apply heap_new_inv; exact I.
  - apply block_malloc_inv; exact I.
  - apply block_free_inv; exact I.
  - apply to_full_op_inv; exact I.
  - apply empty_page_free_inv; exact I.
  - apply heap_delete_inv; exact I.
  - apply heap_destroy_inv; exact I.
  - intros K. inversion K; subst. apply heap_set_default_inv. exact I.
Qed.

Theorem heap_inv_run s ops s' : heap_Inv s -> heap_run s ops = Some s' -> heap_Inv s'.
Proof.
  revert s. induction ops as [|o r IH]; intros s I; cbn [heap_run].
  - intros K. inversion K; subst. exact I.
  - destruct (heap_step s o) as [s1|] eqn:E; [|discriminate]. apply IH. eapply heap_inv_preserved; eauto.
Qed.

Theorem heap_inv_init k tg ar : heap_Inv (heap_init k tg ar).
Proof.
  apply heap_inv_b_spec. unfold heap_inv_b, heap_init. cbn [heaps pages default backing descs home heap_ids page_ids live_blocks map flat_map forallb nodupb inb existsb h_id empty_heap].
  rewrite N.eqb_refl. cbn [negb orb andb]. rewrite andb_true_r. rewrite !andb_true_iff. repeat split.
Qed.

Theorem heap_inv_reachable k tg ar ops s : heap_run (heap_init k tg ar) ops = Some s -> heap_Inv s.
Proof. apply heap_inv_run. apply heap_inv_init. Qed.
