(* Commit bookkeeping (C07): the invariant commit_Inv of Model/Commit.v states, its boolean form, and its
   preservation by every operation for every failure oracle. *)
From Coq Require Import NArith Lia Bool List.
From MiV Require Import Gen.Consts Model.Commit Proofs.CommitBase.
Import ListNotations.
Local Open Scope N_scope.
Local Open Scope bool_scope.

(* ---------------------------------------------------------------- the invariant *)
(* well-formed segment whose memory is owned through the arena bitmap (or lies outside the arena) *)
Definition seg_wf (a : arena) (s : segment) : Prop :=
  0 < sg_info s /\ sg_info s < sg_nslices s /\ (is_huge s = false -> sg_nslices s = MASK_BITS) /\
  match sg_mem s with
  | MemArena b0 nb => sg_base s = block_slice a b0 /\ b0 + nb <= a_nblocks a /\ sg_nslices s <= nb * BLOCK_SLICES /\
                      (forall b, b0 <= b < b0 + nb -> a_inuse a b = true)
  | MemOs => range_disjoint (sg_base s) (sg_nslices s) (a_start a) (a_nblocks a * BLOCK_SLICES) = true
  end.
(* (S) a commit-mask bit implies that the slice is accessible; a huge segment is accessible over all its slices *)
Definition seg_S (acc : bits) (s : segment) : Prop :=
  (is_huge s = true -> forall i, i < sg_nslices s -> acc (sg_base s + i) = true) /\
  (is_huge s = false -> forall i, i < sg_nslices s -> sg_commit s i = true -> acc (sg_base s + i) = true).
(* (L) the slices in use (header, live pages) are committed and not scheduled for a purge; (P) purge_mask inside commit_mask *)
Definition seg_LP (live : list page) (s : segment) : Prop :=
  is_huge s = false -> forall i, i < MASK_BITS ->
    (slice_used s live i = true -> sg_commit s i = true /\ sg_purge s i = false) /\
    (sg_purge s i = true -> sg_commit s i = true).
(* (D) a live page lies inside its segment, after the header *)
Definition page_wf (segs : list segment) (p : page) : Prop :=
  exists s, find_seg (pg_seg p) segs = Some s /\ sg_info s <= pg_lo p /\ 0 < pg_n p /\ pg_lo p + pg_n p <= sg_nslices s /\
            (is_huge s = true -> pg_lo p = sg_info s /\ pg_n p = sg_nslices s - sg_info s).
Definition raw_wf (a : arena) (r : N * N) : Prop :=
  0 < snd r /\ fst r + snd r <= a_nblocks a /\ forall b, fst r <= b < fst r + snd r -> a_inuse a b = true.
(* (A) an arena committed bit implies that every slice of the block is accessible, except the slices whose
   accessibility is recorded by the commit mask of the normal segment that owns them *)
Definition arena_A (a : arena) (segs : list segment) (acc : bits) : Prop :=
  forall b, b < a_nblocks a -> a_committed a b = true ->
  forall x, in_block a b x -> governed segs x = true \/ acc x = true.

Record commit_Inv (st : state) : Prop := {
  I_wf : Forall (seg_wf (st_arena st)) (st_segs st);
  I_raw : Forall (raw_wf (st_arena st)) (st_raw st);
  I_own : pairwise owner_disjoint (owners st) = true;
  I_A : arena_A (st_arena st) (st_segs st) (st_acc st);
  I_S : Forall (seg_S (st_acc st)) (st_segs st);
  I_LP : Forall (seg_LP (st_live st)) (st_segs st);
  I_D1 : Forall (page_wf (st_segs st)) (st_live st);
  I_D2 : pairwise pages_disjoint (st_live st) = true
}.

(* ---------------------------------------------------------------- boolean form *)
Lemma seg_wf_b_iff a s : seg_wf_b a s = true <-> seg_wf a s.
Proof.
  unfold seg_wf_b, seg_wf. rewrite !andb_true_iff, !N.ltb_lt, orb_true_iff, N.eqb_eq.
  assert (Hh : (is_huge s = true \/ sg_nslices s = MASK_BITS) <-> (is_huge s = false -> sg_nslices s = MASK_BITS)).
  { destruct (is_huge s); split; intros H; auto; try discriminate. destruct H; [discriminate|auto]. }
  rewrite Hh. destruct (sg_mem s) as [b0 nb|].
  - rewrite !andb_true_iff, N.eqb_eq, !N.leb_le, all_in_spec. tauto.
  - tauto.
Qed.
Lemma seg_mask_b_iff acc s : seg_mask_b acc s = true <-> seg_S acc s.
Proof.
  unfold seg_mask_b, seg_S. destruct (is_huge s).
  - rewrite all_in_spec. split.
    + intros H. split; [|discriminate]. intros _ i Hi. replace (sg_base s + i) with (sg_base s + i) by reflexivity. apply H. lia.
    + intros [H _] x Hx. replace x with (sg_base s + (x - sg_base s)) by lia. apply H; [reflexivity|lia].
  - rewrite all_in_spec. split.
    + intros H. split; [discriminate|]. intros _ i Hi Hc. specialize (H i ltac:(lia)). rewrite Hc in H. exact H.
    + intros [_ H] i Hi. destruct (sg_commit s i) eqn:E; [|reflexivity]. cbn. apply H; [reflexivity|lia|exact E].
Qed.
Lemma seg_used_b_iff live s : seg_used_b live s = true <-> seg_LP live s.
Proof.
  unfold seg_used_b, seg_LP. destruct (is_huge s); cbn [orb].
  - split; [discriminate|reflexivity].
  - rewrite all_in_spec. split.
    + intros H _ i Hi. specialize (H i ltac:(lia)). apply andb_true_iff in H. destruct H as [H1 H2]. split.
      * intros Hu. rewrite Hu in H1. cbn in H1. apply andb_true_iff in H1. destruct H1 as [H1 H3]. apply negb_true_iff in H3. auto.
      * intros Hp. rewrite Hp in H2. cbn in H2. exact H2.
    + intros H i Hi. destruct (H eq_refl i ltac:(lia)) as [H1 H2]. apply andb_true_iff. split.
      * destruct (slice_used s live i); [|reflexivity]. destruct (H1 eq_refl) as [-> ->]. reflexivity.
      * destruct (sg_purge s i); [|reflexivity]. rewrite (H2 eq_refl). reflexivity.
Qed.
Lemma page_wf_b_iff segs p : page_wf_b segs p = true <-> page_wf segs p.
Proof.
  unfold page_wf_b, page_wf. destruct (find_seg (pg_seg p) segs) as [s|].
  - rewrite !andb_true_iff, !N.leb_le, N.ltb_lt, orb_true_iff, negb_true_iff, andb_true_iff, !N.eqb_eq.
    assert (Hh : (is_huge s = false \/ pg_lo p = sg_info s /\ pg_n p = sg_nslices s - sg_info s) <->
                 (is_huge s = true -> pg_lo p = sg_info s /\ pg_n p = sg_nslices s - sg_info s)).
    { destruct (is_huge s); split; intros H; auto; try discriminate. destruct H; [discriminate|auto]. }
    rewrite Hh. split.
    + intros H. exists s. tauto.
    + intros [s' [E H]]. inversion E; subst. tauto.
  - split; [discriminate|]. intros [s [E _]]. discriminate.
Qed.
Lemma raw_wf_b_iff a r : raw_wf_b a r = true <-> raw_wf a r.
Proof. unfold raw_wf_b, raw_wf. rewrite !andb_true_iff, N.ltb_lt, N.leb_le, all_in_spec. tauto. Qed.
Lemma arena_acc_b_iff a segs acc : arena_acc_b a segs acc = true <-> arena_A a segs acc.
Proof.
  unfold arena_acc_b, arena_A. rewrite all_in_spec. split.
  - intros H b Hb Hc x Hx. specialize (H b ltac:(lia)). rewrite Hc in H. cbn in H. rewrite all_in_spec in H.
    apply orb_true_iff. apply H. exact Hx.
  - intros H b Hb. destruct (a_committed a b) eqn:Hc; [|reflexivity]. cbn. apply all_in_spec. intros x Hx.
    apply orb_true_iff. apply (H b); [lia|exact Hc|exact Hx].
Qed.
Lemma forallb_Forall {A} (f : A -> bool) (P : A -> Prop) l :
  (forall x, f x = true <-> P x) -> (forallb f l = true <-> Forall P l).
Proof.
  intros H. rewrite forallb_forall, Forall_forall. split; intros G x Hx; apply H; apply G; exact Hx.
Qed.

Theorem commit_inv_b_iff st : commit_inv_b st = true <-> commit_Inv st.
Proof.
  unfold commit_inv_b. rewrite !andb_true_iff.
  rewrite (forallb_Forall _ _ _ (seg_wf_b_iff (st_arena st))), (forallb_Forall _ _ _ (raw_wf_b_iff (st_arena st))),
    arena_acc_b_iff, (forallb_Forall _ _ _ (seg_mask_b_iff (st_acc st))), (forallb_Forall _ _ _ (seg_used_b_iff (st_live st))),
    (forallb_Forall _ _ _ (page_wf_b_iff (st_segs st))).
  split.
  - intros [[[[[[[H1 H2] H3] H4] H5] H6] H7] H8]. constructor; assumption.
  - intros [H1 H2 H3 H4 H5 H6 H7 H8]. tauto.
Qed.

(* ---------------------------------------------------------------- lists *)
Lemma pairwise_app {A} (r : A -> A -> bool) l1 l2 :
  pairwise r (l1 ++ l2) = true <->
  pairwise r l1 = true /\ pairwise r l2 = true /\ (forall x y, In x l1 -> In y l2 -> r x y = true).
Proof.
  induction l1 as [|a l1 IH]; cbn [app pairwise].
  - split; [intros H; repeat split; auto; intros x y []|tauto].
  - rewrite !andb_true_iff, IH, forallb_app, andb_true_iff, !forallb_forall. split.
    + intros [[H1 H2] [H3 [H4 H5]]]. repeat split; auto. intros x y [<-|Hx] Hy; auto.
    + intros [[H1 H2] [H3 H4]]. repeat split; auto. intros x Hx. apply H4; [left; reflexivity|exact Hx].
      intros x y Hx Hy. apply H4; [right; exact Hx|exact Hy].
Qed.
Lemma pairwise_In_neq {A} (r : A -> A -> bool) l x y :
  (forall u v, r u v = r v u) -> pairwise r l = true -> In x l -> In y l -> x <> y -> r x y = true.
Proof.
  intros Hsym. induction l as [|a l IH]; cbn [pairwise]; [intros _ []|].
  rewrite andb_true_iff, forallb_forall. intros [H1 H2] [<-|Hx] [<-|Hy] Hne.
  - contradiction.
  - apply H1. exact Hy.
  - rewrite Hsym. apply H1. exact Hx.
  - apply IH; assumption.
Qed.
Lemma pairwise_filter {A} (r : A -> A -> bool) (f : A -> bool) l : pairwise r l = true -> pairwise r (filter f l) = true.
Proof.
  induction l as [|a l IH]; cbn [pairwise filter]; [reflexivity|]. rewrite andb_true_iff, forallb_forall. intros [H1 H2].
  destruct (f a); [|apply IH; exact H2]. cbn [pairwise]. rewrite andb_true_iff, forallb_forall. split; [|apply IH; exact H2].
  intros x Hx. apply filter_In in Hx. apply H1. tauto.
Qed.
Lemma owner_disjoint_sym u v : owner_disjoint u v = owner_disjoint v u.
Proof. unfold owner_disjoint. apply range_disjoint_sym. Qed.
Lemma pages_disjoint_sym p q : pages_disjoint p q = pages_disjoint q p.
Proof. unfold pages_disjoint. rewrite (N.eqb_sym (pg_seg p)), range_disjoint_sym. reflexivity. Qed.

Lemma find_seg_some b l s : find_seg b l = Some s -> In s l /\ sg_base s = b.
Proof. unfold find_seg. intros H. apply find_some in H. destruct H as [H1 H2]. b2p. auto. Qed.
Lemma find_seg_none b l : find_seg b l = None -> forall s, In s l -> sg_base s <> b.
Proof. unfold find_seg. intros H s Hs E. apply (find_none _ _ H) in Hs. b2p. contradiction. Qed.

Lemma in_replace_seg s' l x :
  In x (replace_seg s' l) -> (x = s' /\ exists s, In s l /\ sg_base s = sg_base s') \/ (In x l /\ sg_base x <> sg_base s').
Proof.
  unfold replace_seg. rewrite in_map_iff. intros [s [E Hs]]. destruct (sg_base s =? sg_base s') eqn:Eb; b2p; subst.
  - left. split; [reflexivity|]. exists s. auto.
  - right. auto.
Qed.
Lemma Forall_replace_seg (P : segment -> Prop) s' l :
  (forall s, In s l -> sg_base s <> sg_base s' -> P s) -> P s' -> Forall P (replace_seg s' l).
Proof.
  intros H1 H2. apply Forall_forall. intros x Hx. apply in_replace_seg in Hx. destruct Hx as [[-> _]|[Hx Hb]]; auto.
Qed.
Lemma find_seg_replace b l s s' :
  find_seg b l = Some s -> find_seg b (replace_seg s' l) = Some (if sg_base s =? sg_base s' then s' else s).
Proof.
  unfold find_seg, replace_seg. induction l as [|a l IH]; cbn [find map]; [discriminate|].
  destruct (sg_base a =? b) eqn:Ea.
  - intros H. inversion H; subst a. clear H. apply N.eqb_eq in Ea. destruct (sg_base s =? sg_base s') eqn:E2; cbv iota.
    + apply N.eqb_eq in E2. replace (sg_base s' =? b) with true by (symmetry; apply N.eqb_eq; congruence). reflexivity.
    + replace (sg_base s =? b) with true by (symmetry; apply N.eqb_eq; exact Ea). reflexivity.
  - intros H. destruct (sg_base a =? sg_base s') eqn:E2; cbv iota.
    + apply N.eqb_eq in E2. replace (sg_base s' =? b) with false by (symmetry; rewrite <- E2; exact Ea). apply IH; exact H.
    + rewrite Ea. apply IH. exact H.
Qed.
Lemma find_seg_remove b b' l : b <> b' -> find_seg b (remove_seg b' l) = find_seg b l.
Proof.
  intros Hne. unfold find_seg, remove_seg. induction l as [|a l IH]; cbn [find filter]; [reflexivity|].
  destruct (sg_base a =? b') eqn:E; cbn [negb find].
  - b2p. destruct (sg_base a =? b) eqn:E2; b2p; [congruence|exact IH].
  - destruct (sg_base a =? b); [reflexivity|exact IH].
Qed.
Lemma in_remove_seg b l x : In x (remove_seg b l) <-> In x l /\ sg_base x <> b.
Proof. unfold remove_seg. rewrite filter_In, negb_true_iff, N.eqb_neq. tauto. Qed.

(* ---------------------------------------------------------------- ownership *)
Definition seg_owner (s : segment) : N * N := (sg_base s, seg_span s).
Definition raw_owner (a : arena) (r : N * N) : N * N := (block_slice a (fst r), snd r * BLOCK_SLICES).
Lemma owners_eq st : owners st = map seg_owner (st_segs st) ++ map (raw_owner (st_arena st)) (st_raw st).
Proof. reflexivity. Qed.

Lemma seg_span_ge a s : seg_wf a s -> sg_nslices s <= seg_span s /\ 0 < seg_span s.
Proof. unfold seg_wf, seg_span. intros [H1 [H2 [_ H3]]]. destruct (sg_mem s); [destruct H3 as [_ [_ [H3 _]]]|]; lia. Qed.

Section Owned.
Variable st : state.
Hypothesis HI : commit_Inv st.

Lemma segs_disjoint s1 s2 :
  In s1 (st_segs st) -> In s2 (st_segs st) -> sg_base s1 <> sg_base s2 ->
  sg_base s1 + seg_span s1 <= sg_base s2 \/ sg_base s2 + seg_span s2 <= sg_base s1.
Proof.
  intros H1 H2 Hne. pose proof (I_own st HI) as Ho. rewrite owners_eq in Ho. apply pairwise_app in Ho. destruct Ho as [Ho _].
  assert (Hd : owner_disjoint (seg_owner s1) (seg_owner s2) = true).
  { apply (pairwise_In_neq _ _ _ _ owner_disjoint_sym Ho); [apply in_map; exact H1|apply in_map; exact H2|].
    unfold seg_owner. intros E. inversion E. contradiction. }
  unfold owner_disjoint, seg_owner in Hd. cbn in Hd. apply range_disjoint_spec in Hd. exact Hd.
Qed.

Lemma seg_unique s1 s2 : In s1 (st_segs st) -> In s2 (st_segs st) -> sg_base s1 = sg_base s2 -> s1 = s2.
Proof.
  intros H1 H2 Hb. pose proof (I_own st HI) as Ho. rewrite owners_eq in Ho. apply pairwise_app in Ho. destruct Ho as [Ho _].
  pose proof (I_wf st HI) as Hw. rewrite Forall_forall in Hw.
  revert Ho Hw H1 H2. generalize (st_segs st) as l. induction l as [|a l IH]; [intros _ _ []|].
  cbn [map pairwise]. rewrite andb_true_iff, forallb_forall. intros [Ha Hl] Hw.
  assert (Hx : forall x, In x l -> sg_base x <> sg_base a).
  { intros x Hx E. specialize (Ha (seg_owner x) (in_map _ _ _ Hx)). unfold owner_disjoint, seg_owner in Ha. cbn in Ha.
    apply range_disjoint_spec in Ha. destruct (seg_span_ge _ _ (Hw a (or_introl eq_refl))), (seg_span_ge _ _ (Hw x (or_intror Hx))). lia. }
  intros [<-|G1] [<-|G2].
  - reflexivity.
  - exfalso. apply (Hx s2 G2). congruence.
  - exfalso. apply (Hx s1 G1). congruence.
  - apply IH; auto. intros x Hx'. apply Hw. right. exact Hx'.
Qed.

Lemma find_seg_in s : In s (st_segs st) -> find_seg (sg_base s) (st_segs st) = Some s.
Proof.
  intros Hs. destruct (find_seg (sg_base s) (st_segs st)) as [s'|] eqn:E.
  - apply find_seg_some in E. destruct E as [E1 E2]. f_equal. apply seg_unique; auto.
  - exfalso. exact (find_seg_none _ _ E s Hs eq_refl).
Qed.

Lemma seg_raw_disjoint s r :
  In s (st_segs st) -> In r (st_raw st) ->
  sg_base s + seg_span s <= block_slice (st_arena st) (fst r) \/
  block_slice (st_arena st) (fst r) + snd r * BLOCK_SLICES <= sg_base s.
Proof.
  intros H1 H2. pose proof (I_own st HI) as Ho. rewrite owners_eq in Ho. apply pairwise_app in Ho. destruct Ho as [_ [_ Ho]].
  specialize (Ho (seg_owner s) (raw_owner (st_arena st) r) (in_map _ _ _ H1) (in_map _ _ _ H2)).
  unfold owner_disjoint, seg_owner, raw_owner in Ho. cbn in Ho. apply range_disjoint_spec in Ho. exact Ho.
Qed.

(* a slice of a segment lies in the segment's own memory *)
Lemma seg_wf_in s : In s (st_segs st) -> seg_wf (st_arena st) s.
Proof. pose proof (I_wf st HI) as Hw. rewrite Forall_forall in Hw. apply Hw. Qed.

(* a slice inside an arena block that is not in use belongs to no segment *)
Lemma free_block_unowned s b x :
  In s (st_segs st) -> a_inuse (st_arena st) b = false -> b < a_nblocks (st_arena st) -> in_block (st_arena st) b x ->
  ~ (sg_base s <= x < sg_base s + seg_span s).
Proof.
  intros Hs Hf Hb Hin Hx. pose proof (seg_wf_in s Hs) as Hw. unfold seg_wf in Hw. destruct Hw as [_ [_ [_ Hw]]].
  unfold seg_span in Hx. destruct (sg_mem s) as [b0 nb|].
  - destruct Hw as [Hbase [Hr [_ Hu]]]. rewrite Hbase in Hx.
    destruct (slice_in_blocks _ _ _ _ Hx) as [b' [Hb' Hin']].
    pose proof (block_of_slice_unique _ _ _ _ Hin Hin'). subst b'. rewrite (Hu b Hb') in Hf. discriminate.
  - apply range_disjoint_spec in Hw. unfold in_block, block_slice in Hin. rewrite BLOCK_SLICES_val in *. nia.
Qed.

Lemma governed_spec segs x :
  governed segs x = true <-> exists s, In s segs /\ is_huge s = false /\ sg_base s <= x < sg_base s + sg_nslices s.
Proof.
  unfold governed. rewrite existsb_exists. split; intros [s [Hs H]]; exists s; split; auto.
  - b2p. apply in_range_spec in H0. auto.
  - destruct H as [H1 H2]. rewrite H1. cbn. apply in_range_spec. exact H2.
Qed.
End Owned.

(* ---------------------------------------------------------------- frames *)
Lemma seg_wf_shape a s s' : same_seg_shape s s' -> seg_wf a s -> seg_wf a s'.
Proof.
  intros [Hb [Hn [Hk [Hi Hm]]]]. unfold seg_wf, is_huge. rewrite Hb, Hn, Hk, Hi, Hm. tauto.
Qed.
Lemma seg_wf_arena a a' s :
  same_arena_shape a a' ->
  (forall b, (match sg_mem s with MemArena b0 nb => b0 <= b < b0 + nb | MemOs => False end) -> a_inuse a' b = a_inuse a b) ->
  seg_wf a s -> seg_wf a' s.
Proof.
  intros [H1 [H2 _]] Hu. unfold seg_wf, block_slice. rewrite H1, H2. destruct (sg_mem s) as [b0 nb|]; [|tauto].
  intros [G1 [G2 [G3 [G4 [G5 [G6 G7]]]]]]. repeat split; auto. intros b Hb. rewrite Hu by exact Hb. apply G7. exact Hb.
Qed.
Lemma slice_used_shape s s' live i : same_seg_shape s s' -> slice_used s' live i = slice_used s live i.
Proof. intros [Hb [_ [_ [Hi _]]]]. unfold slice_used. rewrite Hb, Hi. reflexivity. Qed.
Lemma seg_owner_shape s s' : same_seg_shape s s' -> seg_owner s' = seg_owner s.
Proof. intros [Hb [Hn [_ [_ Hm]]]]. unfold seg_owner, seg_span. rewrite Hb, Hn, Hm. reflexivity. Qed.
Lemma seg_S_mono acc acc' s : (forall x, acc x = true -> acc' x = true) -> seg_S acc s -> seg_S acc' s.
Proof. intros H [H1 H2]. split; intros Hh i Hi; [|intros Hc]; apply H; auto. Qed.
Lemma seg_S_frame acc acc' s :
  (forall i, i < sg_nslices s -> acc' (sg_base s + i) = acc (sg_base s + i)) -> seg_S acc s -> seg_S acc' s.
Proof. intros H [H1 H2]. split; intros Hh i Hi; [|intros Hc]; rewrite H by exact Hi; auto. Qed.

Lemma map_replace_seg {B} (f : segment -> B) s' l :
  (forall s, In s l -> sg_base s = sg_base s' -> f s = f s') -> map f (replace_seg s' l) = map f l.
Proof.
  intros H. unfold replace_seg. rewrite map_map. apply map_ext_in. intros s Hs.
  destruct (sg_base s =? sg_base s') eqn:E; [|reflexivity]. b2p. symmetry. apply H; assumption.
Qed.
Lemma existsb_replace_seg (g : segment -> bool) s' l :
  (forall s, In s l -> sg_base s = sg_base s' -> g s = g s') -> existsb g (replace_seg s' l) = existsb g l.
Proof.
  intros H. induction l as [|a l IH]; [reflexivity|]. cbn [replace_seg map existsb].
  fold (replace_seg s' l). rewrite IH by (intros s Hs; apply H; right; exact Hs). f_equal.
  destruct (sg_base a =? sg_base s') eqn:E; [|reflexivity]. b2p. symmetry. apply H; [left; reflexivity|exact E].
Qed.

Section Replace.
Variable st : state.
Hypothesis HI : commit_Inv st.
Variables s s' : segment.
Hypothesis Hin : In s (st_segs st).
Hypothesis Hsh : same_seg_shape s s'.

Lemma same_base_is_s s0 : In s0 (st_segs st) -> sg_base s0 = sg_base s' -> s0 = s.
Proof. intros H0 Hb. apply (seg_unique st HI); auto. destruct Hsh as [E _]. congruence. Qed.

Lemma owners_replace (live : list page) (acc : bits) :
  owners (mk (st_arena st) (replace_seg s' (st_segs st)) live (st_raw st) acc) = owners st.
Proof.
  rewrite !owners_eq. cbn. f_equal. apply map_replace_seg. intros s0 H0 Hb.
  rewrite (same_base_is_s s0 H0 Hb). symmetry. apply seg_owner_shape. exact Hsh.
Qed.
Lemma governed_replace x : governed (replace_seg s' (st_segs st)) x = governed (st_segs st) x.
Proof.
  unfold governed. apply existsb_replace_seg. intros s0 H0 Hb. rewrite (same_base_is_s s0 H0 Hb).
  rewrite (same_shape_huge _ _ Hsh). destruct Hsh as [E1 [E2 _]]. rewrite E1, E2. reflexivity.
Qed.
Lemma page_wf_replace p : page_wf (st_segs st) p -> page_wf (replace_seg s' (st_segs st)) p.
Proof.
  intros [s0 [Hf [H1 [H2 [H3 H4]]]]]. unfold page_wf. rewrite (find_seg_replace _ _ _ s' Hf).
  destruct (sg_base s0 =? sg_base s') eqn:E.
  - b2p. apply find_seg_some in Hf. destruct Hf as [Hf _]. rewrite (same_base_is_s s0 Hf E) in *.
    exists s'. rewrite (same_shape_huge _ _ Hsh). destruct Hsh as [_ [E2 [_ [E4 _]]]]. rewrite E2, E4. auto.
  - exists s0. auto.
Qed.
(* the slices of another segment are not slices of s *)
Lemma other_seg_slices s2 i i' :
  In s2 (st_segs st) -> sg_base s2 <> sg_base s' -> i < sg_nslices s2 -> i' < sg_nslices s -> sg_base s2 + i <> sg_base s + i'.
Proof.
  intros H2 Hne Hi Hi'. destruct Hsh as [E _]. rewrite E in Hne.
  pose proof (segs_disjoint st HI s2 s H2 Hin Hne) as Hd.
  destruct (seg_span_ge _ _ (seg_wf_in st HI s2 H2)), (seg_span_ge _ _ (seg_wf_in st HI s Hin)). lia.
Qed.

Lemma inv_purge_like (Q : N -> Prop) acc' :
  purge_like Q s (st_acc st) s' acc' ->
  (is_huge s = false -> forall i, Q i -> i < MASK_BITS -> slice_used s (st_live st) i = false) ->
  commit_Inv (mk (st_arena st) (replace_seg s' (st_segs st)) (st_live st) (st_raw st) acc').
Proof.
  intros HP HQ. pose proof (seg_wf_in st HI s Hin) as Hws.
  pose proof (I_S st HI) as HS. rewrite Forall_forall in HS.
  pose proof (I_LP st HI) as HL. rewrite Forall_forall in HL.
  constructor; cbn [st_arena st_segs st_live st_raw st_acc mk].
  - apply Forall_replace_seg; [intros s0 H0 _; apply (seg_wf_in st HI); exact H0|eapply seg_wf_shape; eauto].
  - exact (I_raw st HI).
  - rewrite owners_replace. exact (I_own st HI).
  - intros b Hb Hc x Hx. rewrite governed_replace. destruct (I_A st HI b Hb Hc x Hx) as [G|G]; [left; exact G|].
    destruct (acc' x) eqn:E; [right; reflexivity|]. left.
    destruct (in_range (sg_base s) (sg_nslices s) x) eqn:Er.
    + apply in_range_spec in Er. destruct (is_huge s) eqn:Eh.
      * rewrite (pl_huge _ _ _ _ _ HP Eh x) in E. congruence.
      * apply governed_spec. exists s. auto.
    + apply in_range_false in Er. rewrite (pl_acc_frame _ _ _ _ _ HP x) in E; [congruence|]. intros i _ Hi Hxi. apply Er. lia.
  - apply Forall_replace_seg.
    + intros s2 H2 Hne. apply (seg_S_frame (st_acc st)); [|apply HS; exact H2].
      intros i Hi. apply (pl_acc_frame _ _ _ _ _ HP). intros i' _ Hi'. apply other_seg_slices; assumption.
    + destruct (HS s Hin) as [S1 S2]. destruct Hsh as [Eb [En _]]. split; intros Hh i Hi; rewrite (same_shape_huge _ _ Hsh) in Hh; rewrite ?Eb, ?En in *.
      * rewrite (pl_huge _ _ _ _ _ HP Hh). apply S1; assumption.
      * intros Hc. pose proof (pl_commit_dec _ _ _ _ _ HP i Hc) as Hc0.
        destruct (pl_sync _ _ _ _ _ HP i Hi) as [E|E]; [rewrite E; apply S2; assumption|congruence].
  - apply Forall_replace_seg; [intros s0 H0 _; apply HL; exact H0|].
    intros Hh i Hi. rewrite (same_shape_huge _ _ Hsh) in Hh. rewrite (slice_used_shape _ _ _ _ Hsh).
    destruct (HL s Hin Hh i Hi) as [L1 L2]. split.
    + intros Hu. assert (Hnq : ~ Q i) by (intros q; rewrite (HQ Hh i q Hi) in Hu; discriminate).
      destruct (pl_frame _ _ _ _ _ HP i Hnq) as [E1 E2]. rewrite E1, E2. apply L1. exact Hu.
    + apply (pl_sub _ _ _ _ _ HP). exact L2.
  - pose proof (I_D1 st HI) as HD. rewrite Forall_forall in HD |- *. intros p Hp. apply page_wf_replace. apply HD. exact Hp.
  - exact (I_D2 st HI).
Qed.
Lemma slice_used_cons s0 p live i :
  slice_used s0 (p :: live) i = ((pg_seg p =? sg_base s0) && in_range (pg_lo p) (pg_n p) i) || slice_used s0 live i.
Proof. unfold slice_used. cbn [existsb]. destruct (i <? sg_info s0); cbn; [rewrite orb_true_r; reflexivity|reflexivity]. Qed.

Lemma inv_commit_like lo n acc' :
  is_huge s = false ->
  commit_like lo n s (st_acc st) s' acc' true ->
  sg_info s <= lo -> 0 < n -> lo + n <= sg_nslices s ->
  span_is_free (st_live st) (sg_base s) lo n = true ->
  commit_Inv (mk (st_arena st) (replace_seg s' (st_segs st))
                 ({| pg_seg := sg_base s; pg_lo := lo; pg_n := n |} :: st_live st) (st_raw st) acc').
Proof.
  intros Hh HC Hlo Hn Hhi Hfree. pose proof (seg_wf_in st HI s Hin) as Hws.
  pose proof (I_S st HI) as HS. rewrite Forall_forall in HS.
  pose proof (I_LP st HI) as HL. rewrite Forall_forall in HL.
  assert (Hns : sg_nslices s = MASK_BITS) by (destruct Hws as [_ [_ [Hw _]]]; auto).
  constructor; cbn [st_arena st_segs st_live st_raw st_acc mk].
  - apply Forall_replace_seg; [intros s0 H0 _; apply (seg_wf_in st HI); exact H0|eapply seg_wf_shape; eauto].
  - exact (I_raw st HI).
  - rewrite owners_replace. exact (I_own st HI).
  - intros b Hb Hc x Hx. rewrite governed_replace. destruct (I_A st HI b Hb Hc x Hx) as [G|G]; [left; exact G|right].
    apply (cl_acc_inc _ _ _ _ _ _ _ HC). exact G.
  - apply Forall_replace_seg.
    + intros s2 H2 _. apply (seg_S_mono (st_acc st)); [apply (cl_acc_inc _ _ _ _ _ _ _ HC)|apply HS; exact H2].
    + destruct (HS s Hin) as [_ S2]. destruct Hsh as [Eb [En _]]. split; intros Hh' i Hi; rewrite (same_shape_huge _ _ Hsh) in Hh'; [congruence|].
      rewrite Eb, En in *. intros Hc. destruct (cl_sound _ _ _ _ _ _ _ HC i Hc) as [G|[_ [_ [_ G]]]]; [|exact G].
      apply (cl_acc_inc _ _ _ _ _ _ _ HC). apply S2; assumption.
  - apply Forall_replace_seg.
    + intros s2 H2 Hne Hh2 i Hi. rewrite slice_used_cons. cbn [pg_seg].
      destruct Hsh as [Eb _]. rewrite Eb in Hne.
      replace (sg_base s =? sg_base s2) with false by (symmetry; apply N.eqb_neq; congruence). cbn [andb orb].
      apply (HL s2 H2 Hh2 i Hi).
    + intros Hh' i Hi. rewrite slice_used_cons. cbn [pg_seg pg_lo pg_n]. rewrite (slice_used_shape _ _ _ _ Hsh).
      destruct Hsh as [Eb _]. rewrite Eb, N.eqb_refl. cbn [andb].
      destruct (HL s Hin Hh i Hi) as [L1 L2]. split.
      * intros Hu. apply orb_true_iff in Hu. destruct Hu as [Hu|Hu].
        -- apply in_range_spec in Hu. apply (cl_done _ _ _ _ _ _ _ HC); auto; lia.
        -- destruct (L1 Hu) as [C1 C2]. split; [apply (cl_commit_inc _ _ _ _ _ _ _ HC); exact C1|].
           destruct (sg_purge s' i) eqn:E; [|reflexivity]. apply (cl_purge_dec _ _ _ _ _ _ _ HC) in E. congruence.
      * intros Hp. apply (cl_commit_inc _ _ _ _ _ _ _ HC). apply L2. apply (cl_purge_dec _ _ _ _ _ _ _ HC). exact Hp.
  - constructor.
    + unfold page_wf. cbn [pg_seg pg_lo pg_n]. rewrite (find_seg_replace _ _ _ s' (find_seg_in st HI s Hin)).
      exists (if sg_base s =? sg_base s' then s' else s). split; [reflexivity|].
      pose proof (same_shape_huge _ _ Hsh) as Ehh. destruct Hsh as [Eb [En [_ [Ei _]]]]. rewrite Eb, N.eqb_refl. rewrite En, Ei, Ehh.
      repeat split; auto; congruence.
    + pose proof (I_D1 st HI) as HD. rewrite Forall_forall in HD |- *. intros p Hp. apply page_wf_replace. apply HD. exact Hp.
  - cbn [pairwise]. rewrite (I_D2 st HI), andb_true_r. unfold span_is_free in Hfree. rewrite forallb_forall in Hfree |- *.
    intros q Hq. specialize (Hfree q Hq). unfold pages_disjoint. cbn [pg_seg pg_lo pg_n].
    rewrite N.eqb_sym, range_disjoint_sym. exact Hfree.
Qed.
End Replace.

(* ---------------------------------------------------------------- the kernel changes outside what is owned *)
Lemma inv_acc_mono st acc' :
  commit_Inv st -> (forall x, st_acc st x = true -> acc' x = true) ->
  commit_Inv (mk (st_arena st) (st_segs st) (st_live st) (st_raw st) acc').
Proof.
  intros HI Hm. destruct HI as [H1 H2 H3 H4 H5 H6 H7 H8]. constructor; cbn [st_arena st_segs st_live st_raw st_acc mk]; auto.
  - intros b Hb Hc x Hx. destruct (H4 b Hb Hc x Hx); auto.
  - rewrite Forall_forall in H5 |- *. intros s Hs. eapply seg_S_mono; eauto.
Qed.

Definition in_arena (a : arena) (x : N) : Prop := a_start a <= x < a_start a + a_nblocks a * BLOCK_SLICES.
Lemma in_block_in_arena a b x : b < a_nblocks a -> in_block a b x -> in_arena a x.
Proof. unfold in_block, in_arena, block_slice. rewrite BLOCK_SLICES_val. intros. nia. Qed.

Lemma inv_acc_frame st acc' :
  commit_Inv st ->
  (forall x, in_arena (st_arena st) x -> acc' x = st_acc st x) ->
  (forall s i, In s (st_segs st) -> i < sg_nslices s -> acc' (sg_base s + i) = st_acc st (sg_base s + i)) ->
  commit_Inv (mk (st_arena st) (st_segs st) (st_live st) (st_raw st) acc').
Proof.
  intros HI Ha Hs. destruct HI as [H1 H2 H3 H4 H5 H6 H7 H8]. constructor; cbn [st_arena st_segs st_live st_raw st_acc mk]; auto.
  - intros b Hb Hc x Hx. rewrite Ha by (eapply in_block_in_arena; eauto). exact (H4 b Hb Hc x Hx).
  - rewrite Forall_forall in H5 |- *. intros s Hin. apply (seg_S_frame (st_acc st)); [intros i Hi; apply Hs; auto|apply H5; exact Hin].
Qed.

(* ---------------------------------------------------------------- the arena changes *)
Lemma raw_wf_arena a a' r :
  same_arena_shape a a' -> (forall b, fst r <= b < fst r + snd r -> a_inuse a' b = a_inuse a b) -> raw_wf a r -> raw_wf a' r.
Proof.
  intros [_ [H2 _]] Hu [G1 [G2 G3]]. unfold raw_wf. rewrite H2. repeat split; auto. intros b Hb. rewrite Hu by exact Hb. auto.
Qed.
Lemma owners_arena a a' segs live live' raws acc acc' :
  a_start a' = a_start a -> owners (mk a' segs live' raws acc') = owners (mk a segs live raws acc).
Proof. intros H. rewrite !owners_eq. cbn. f_equal. apply map_ext. intros r. unfold raw_owner, block_slice. rewrite H. reflexivity. Qed.

Lemma not_disjoint_witness a b c d :
  0 < b -> 0 < d -> range_disjoint a b c d = false -> exists x, a <= x < a + b /\ c <= x < c + d.
Proof.
  intros Hb Hd H. unfold range_disjoint in H. b2p. exists (N.max a c). lia.
Qed.

Section Unowned.
Variable st : state.
Hypothesis HI : commit_Inv st.
Local Notation a := (st_arena st).

Lemma raw_wf_in r : In r (st_raw st) -> raw_wf a r.
Proof. pose proof (I_raw st HI) as Hw. rewrite Forall_forall in Hw. apply Hw. Qed.

Lemma free_block_not_raw r b x :
  In r (st_raw st) -> a_inuse a b = false -> in_block a b x ->
  ~ (block_slice a (fst r) <= x < block_slice a (fst r) + snd r * BLOCK_SLICES).
Proof.
  intros Hr Hf Hin Hx. destruct (raw_wf_in r Hr) as [_ [_ Hu]].
  destruct (slice_in_blocks _ _ _ _ Hx) as [b' [Hb' Hin']].
  pose proof (block_of_slice_unique _ _ _ _ Hin Hin'). subst b'. rewrite (Hu b Hb') in Hf. discriminate.
Qed.

(* a range of blocks none of which is in use is disjoint from everything that is owned *)
Lemma free_blocks_unowned b0 n :
  0 < n -> b0 + n <= a_nblocks a -> (forall b, b0 <= b < b0 + n -> a_inuse a b = false) ->
  forall ow, In ow (owners st) -> owner_disjoint (block_slice a b0, n * BLOCK_SLICES) ow = true.
Proof.
  intros Hn Hr Hf ow How. rewrite owners_eq in How. apply in_app_or in How.
  destruct (owner_disjoint (block_slice a b0, n * BLOCK_SLICES) ow) eqn:E; [reflexivity|exfalso].
  unfold owner_disjoint in E. cbn [fst snd] in E.
  assert (Hnb : 0 < n * BLOCK_SLICES) by (rewrite BLOCK_SLICES_val; lia).
  destruct How as [How|How]; apply in_map_iff in How; destruct How as [y [<- Hy]].
  - unfold seg_owner in E. cbn [fst snd] in E.
    destruct (seg_span_ge _ _ (seg_wf_in st HI y Hy)) as [_ Hsp].
    destruct (not_disjoint_witness _ _ _ _ Hnb Hsp E) as [x [Hx1 Hx2]].
    destruct (slice_in_blocks _ _ _ _ Hx1) as [b [Hb Hin]].
    apply (free_block_unowned st HI y b x Hy (Hf b Hb) ltac:(lia) Hin). exact Hx2.
  - unfold raw_owner in E. cbn [fst snd] in E. destruct (raw_wf_in y Hy) as [Hy0 _].
    assert (Hyb : 0 < snd y * BLOCK_SLICES) by (rewrite BLOCK_SLICES_val; lia).
    destruct (not_disjoint_witness _ _ _ _ Hnb Hyb E) as [x [Hx1 Hx2]].
    destruct (slice_in_blocks _ _ _ _ Hx1) as [b [Hb Hin]].
    apply (free_block_not_raw y b x Hy (Hf b Hb) Hin). exact Hx2.
Qed.

(* blocks that are disjoint from everything owned: the owners' in-use bits and slices are elsewhere *)
Definition unowned (b0 n : N) : Prop :=
  forall ow, In ow (owners st) -> owner_disjoint (block_slice a b0, n * BLOCK_SLICES) ow = true.

Lemma unowned_seg b0 n s b x :
  unowned b0 n -> In s (st_segs st) -> b0 <= b < b0 + n -> in_block a b x -> ~ (sg_base s <= x < sg_base s + seg_span s).
Proof.
  intros Hu Hs Hb Hin Hx. specialize (Hu (seg_owner s)). rewrite owners_eq in Hu.
  specialize (Hu (in_or_app _ _ _ (or_introl (in_map _ _ _ Hs)))). unfold owner_disjoint, seg_owner in Hu. cbn [fst snd] in Hu.
  apply range_disjoint_spec in Hu. pose proof (block_in_range _ _ _ _ _ Hb Hin). lia.
Qed.
Lemma unowned_seg_blocks b0 n s b0' nb b :
  unowned b0 n -> In s (st_segs st) -> sg_mem s = MemArena b0' nb -> b0 <= b < b0 + n -> ~ (b0' <= b < b0' + nb).
Proof.
  intros Hu Hs Hm Hb Hb'. pose proof (seg_wf_in st HI s Hs) as Hw. unfold seg_wf in Hw. rewrite Hm in Hw.
  destruct Hw as [_ [_ [_ [Hbase _]]]].
  apply (unowned_seg b0 n s b (block_slice a b) Hu Hs Hb); [unfold in_block; rewrite BLOCK_SLICES_val; lia|].
  unfold seg_span. rewrite Hm, Hbase. unfold block_slice. rewrite BLOCK_SLICES_val. nia.
Qed.
Lemma unowned_raw_blocks b0 n r b :
  unowned b0 n -> In r (st_raw st) -> b0 <= b < b0 + n -> ~ (fst r <= b < fst r + snd r).
Proof.
  intros Hu Hr Hb Hb'. specialize (Hu (raw_owner a r)). rewrite owners_eq in Hu.
  specialize (Hu (in_or_app _ _ _ (or_intror (in_map _ _ _ Hr)))). unfold owner_disjoint, raw_owner in Hu. cbn [fst snd] in Hu.
  apply range_disjoint_spec in Hu. unfold block_slice in Hu. rewrite BLOCK_SLICES_val in Hu. nia.
Qed.
Lemma unowned_ungoverned b0 n b x : unowned b0 n -> b0 <= b < b0 + n -> in_block a b x -> governed (st_segs st) x = false.
Proof.
  intros Hu Hb Hin. destruct (governed (st_segs st) x) eqn:E; [exfalso|reflexivity].
  apply governed_spec in E. destruct E as [s [Hs [_ Hx]]].
  apply (unowned_seg b0 n s b x Hu Hs Hb Hin). destruct (seg_span_ge _ _ (seg_wf_in st HI s Hs)). lia.
Qed.

(* an arena transformation that only revokes, on blocks that nobody owns, whose in-use bits change only there *)
Lemma inv_arena_revokes (Q : N -> Prop) a' acc' :
  arena_revokes Q a (st_acc st) a' acc' ->
  (forall b, ~ Q b -> a_inuse a' b = a_inuse a b) ->
  (forall b s x, Q b -> In s (st_segs st) -> in_block a b x -> ~ (sg_base s <= x < sg_base s + seg_span s)) ->
  (forall b s b0 nb, Q b -> In s (st_segs st) -> sg_mem s = MemArena b0 nb -> ~ (b0 <= b < b0 + nb)) ->
  (forall b r, Q b -> In r (st_raw st) -> ~ (fst r <= b < fst r + snd r)) ->
  commit_Inv (mk a' (st_segs st) (st_live st) (st_raw st) acc').
Proof.
  intros HR Hu Hseg Hsegb Hraw. pose proof (ar_shape _ _ _ _ _ HR) as Hsh.
  constructor; cbn [st_arena st_segs st_live st_raw st_acc mk].
  - pose proof (I_wf st HI) as Hw. rewrite Forall_forall in Hw |- *. intros s Hs. apply (seg_wf_arena a); auto.
    intros b Hb. apply Hu. intros q. destruct (sg_mem s) as [b0 nb|] eqn:Em; [|contradiction]. exact (Hsegb b s b0 nb q Hs Em Hb).
  - pose proof (I_raw st HI) as Hw. rewrite Forall_forall in Hw |- *. intros r Hr. apply (raw_wf_arena a); auto.
    intros b Hb. apply Hu. intros q. exact (Hraw b r q Hr Hb).
  - rewrite (owners_arena a a' _ (st_live st) (st_live st) _ (st_acc st) acc') by (destruct Hsh; assumption). exact (I_own st HI).
  - destruct Hsh as [S1 [S2 S3]]. intros b Hb Hc x Hx. rewrite S2 in Hb.
    apply (in_block_shape a a' b x (conj S1 (conj S2 S3))) in Hx.
    destruct (I_A st HI b Hb (ar_committed_dec _ _ _ _ _ HR b Hc) x Hx) as [G|G]; [left; exact G|right].
    destruct (ar_sync _ _ _ _ _ HR b x Hx) as [E|E]; congruence.
  - pose proof (I_S st HI) as HS. rewrite Forall_forall in HS |- *. intros s Hs. apply (seg_S_frame (st_acc st)); [|apply HS; exact Hs].
    intros i Hi. apply (ar_acc_frame _ _ _ _ _ HR). intros b q Hin. apply (Hseg b s _ q Hs Hin).
    destruct (seg_span_ge _ _ (seg_wf_in st HI s Hs)). lia.
  - exact (I_LP st HI).
  - exact (I_D1 st HI).
  - exact (I_D2 st HI).
Qed.

(* mi_arenas_try_purge *)
Lemma inv_arenas_try_purge c o a' acc' o' :
  arenas_try_purge c a (st_acc st) o = (a', acc', o') -> commit_Inv (mk a' (st_segs st) (st_live st) (st_raw st) acc').
Proof.
  intros H. apply arenas_try_purge_spec in H. destruct H as [HR Hi].
  apply (inv_arena_revokes (fun b => b < a_nblocks a /\ a_inuse a b = false)); auto.
  - intros b _. rewrite Hi. reflexivity.
  - intros b s x [Hb Hf] Hs Hin. apply (free_block_unowned st HI s b x Hs Hf Hb Hin).
  - intros b s b0 nb [Hb Hf] Hs Hm Hr. pose proof (seg_wf_in st HI s Hs) as Hw. unfold seg_wf in Hw. rewrite Hm in Hw.
    destruct Hw as [_ [_ [_ [_ [_ [_ Hu]]]]]].  rewrite (Hu b Hr) in Hf. discriminate.
  - intros b r [Hb Hf] Hr Hrb. destruct (raw_wf_in r Hr) as [_ [_ Hu]]. rewrite (Hu b Hrb) in Hf. discriminate.
Qed.

(* _mi_arena_free of blocks that nobody in the state owns *)
Lemma inv_arena_free_unowned c b0 n allc o a' acc' o' :
  unowned b0 n -> arena_free c a (st_acc st) b0 n allc o = (a', acc', o') ->
  commit_Inv (mk a' (st_segs st) (st_live st) (st_raw st) acc').
Proof.
  intros Hu H. apply arena_free_spec in H. destruct H as [HR [Hi _]].
  apply (inv_arena_revokes (fun b => b0 <= b < b0 + n)); auto.
  - intros b Hb. rewrite Hi. apply set_range_out. exact Hb.
  - intros b s x Hb Hs Hin. exact (unowned_seg b0 n s b x Hu Hs Hb Hin).
  - intros b s b0' nb Hb Hs Hm. exact (unowned_seg_blocks b0 n s b0' nb b Hu Hs Hm Hb).
  - intros b r Hb Hr. exact (unowned_raw_blocks b0 n r b Hu Hr Hb).
Qed.

(* mi_arena_try_alloc_at: the blocks become in use (owned by nobody yet) *)
Lemma inv_claim b0 n commit o mc z a1 acc1 o1 :
  arena_try_alloc_at a (st_acc st) b0 n commit o = Some (mc, z, a1, acc1, o1) ->
  commit_Inv (mk a1 (st_segs st) (st_live st) (st_raw st) acc1) /\ unowned b0 n /\ same_arena_shape a a1 /\
  0 < n /\ b0 + n <= a_nblocks a /\ (forall b, b0 <= b < b0 + n -> a_inuse a1 b = true) /\
  (forall x, st_acc st x = true -> acc1 x = true) /\
  (mc = true -> forall x, block_slice a b0 <= x < block_slice a b0 + n * BLOCK_SLICES -> acc1 x = true).
Proof.
  intros H. apply arena_try_alloc_at_spec in H.
  destruct H as [Hn [Hr [Hf [Hsh [Hiu [_ [Hcf [Hmono [Hframe Hcase]]]]]]]]].
  assert (Hu : unowned b0 n) by (unfold unowned; apply free_blocks_unowned; auto).
  assert (Hrange : mc = true -> forall x, block_slice a b0 <= x < block_slice a b0 + n * BLOCK_SLICES -> acc1 x = true).
  { intros Hmc x Hx. destruct Hcase as [[_ [_ [[Hall [-> _]]|[_ [_ Hacc]]]]]|[Hmc' _]]; [|auto|congruence].
    destruct (slice_in_blocks _ _ _ _ Hx) as [b [Hb Hin]].
    destruct (I_A st HI b ltac:(lia) (Hall b Hb) x Hin) as [G|G]; [|exact G].
    rewrite (unowned_ungoverned b0 n b x Hu Hb Hin) in G. discriminate. }
  split; [|split; [exact Hu|split; [exact Hsh|split; [lia|split; [lia|split; [intros b Hb; rewrite Hiu; apply set_range_in; exact Hb|split; [exact Hmono|exact Hrange]]]]]]].
  constructor; cbn [st_arena st_segs st_live st_raw st_acc mk].
  - pose proof (I_wf st HI) as Hw. rewrite Forall_forall in Hw |- *. intros s Hs. apply (seg_wf_arena a); auto.
    intros b Hb. rewrite Hiu. apply set_range_out. intros Hb'. destruct (sg_mem s) as [b0' nb|] eqn:Em; [|contradiction].
    exact (unowned_seg_blocks b0 n s b0' nb b Hu Hs Em Hb' Hb).
  - pose proof (I_raw st HI) as Hw. rewrite Forall_forall in Hw |- *. intros r Hr'. apply (raw_wf_arena a); auto.
    intros b Hb. rewrite Hiu. apply set_range_out. intros Hb'. exact (unowned_raw_blocks b0 n r b Hu Hr' Hb' Hb).
  - rewrite (owners_arena a a1 _ (st_live st) (st_live st) _ (st_acc st) acc1) by (destruct Hsh; assumption). exact (I_own st HI).
  - destruct Hsh as [S1 [S2 S3]]. intros b Hb Hc x Hx. rewrite S2 in Hb.
    apply (in_block_shape a a1 b x (conj S1 (conj S2 S3))) in Hx.
    destruct (in_range b0 n b) eqn:Er.
    + apply in_range_spec in Er. right. destruct mc.
      * apply Hrange; [reflexivity|]. eapply block_in_range; eauto.
      * destruct Hcase as [[Hmc _]|[_ [Hcl _]]]; [discriminate|]. rewrite (Hcl b Er) in Hc. discriminate.
    + apply in_range_false in Er. rewrite (Hcf b Er) in Hc. destruct (I_A st HI b Hb Hc x Hx) as [G|G]; auto.
  - pose proof (I_S st HI) as HS. rewrite Forall_forall in HS |- *. intros s Hs. eapply seg_S_mono; eauto.
  - exact (I_LP st HI).
  - exact (I_D1 st HI).
  - exact (I_D2 st HI).
Qed.
End Unowned.

(* ---------------------------------------------------------------- adding and removing owners *)
Lemma pairwise_map_filter {A B} (r : B -> B -> bool) (f : A -> B) (g : A -> bool) l :
  pairwise r (map f l) = true -> pairwise r (map f (filter g l)) = true.
Proof.
  induction l as [|x l IH]; cbn [map filter pairwise]; [reflexivity|]. rewrite andb_true_iff, forallb_forall. intros [H1 H2].
  destruct (g x); [|apply IH; exact H2]. cbn [map pairwise]. rewrite andb_true_iff, forallb_forall. split; [|apply IH; exact H2].
  intros y Hy. apply H1. apply in_map_iff in Hy. destruct Hy as [z [<- Hz]]. apply filter_In in Hz. apply in_map. tauto.
Qed.

Lemma slice_used_sub s live live' i :
  (forall q, In q live' -> In q live) -> slice_used s live' i = true -> slice_used s live i = true.
Proof.
  intros Hsub. unfold slice_used. rewrite !orb_true_iff, !existsb_exists. intros [H|[q [Hq H]]]; [left; exact H|right].
  exists q. auto.
Qed.
Lemma slice_used_no_pages s live i : seg_has_live (sg_base s) live = false -> slice_used s live i = (i <? sg_info s).
Proof.
  intros H. unfold slice_used. replace (existsb _ live) with false; [apply orb_false_r|]. symmetry.
  unfold seg_has_live in H. apply not_true_is_false. intros E. apply existsb_exists in E. destruct E as [q [Hq E]]. b2p.
  assert (existsb (fun p => pg_seg p =? sg_base s) live = true) by (apply existsb_exists; exists q; split; [exact Hq|apply N.eqb_eq; assumption]).
  congruence.
Qed.

Lemma inv_remove_page st p :
  commit_Inv st -> commit_Inv (mk (st_arena st) (st_segs st) (remove_page p (st_live st)) (st_raw st) (st_acc st)).
Proof.
  intros [H1 H2 H3 H4 H5 H6 H7 H8]. constructor; cbn [st_arena st_segs st_live st_raw st_acc mk]; auto.
  - rewrite Forall_forall in H6 |- *. intros s Hs Hh i Hi. destruct (H6 s Hs Hh i Hi) as [L1 L2]. split; [|exact L2].
    intros Hu. apply L1. eapply slice_used_sub; [|exact Hu]. intros q Hq. unfold remove_page in Hq. apply filter_In in Hq. tauto.
  - rewrite Forall_forall in H7 |- *. intros q Hq. apply H7. unfold remove_page in Hq. apply filter_In in Hq. tauto.
  - apply pairwise_filter. exact H8.
Qed.

Lemma governed_cons s segs x : governed segs x = true -> governed (s :: segs) x = true.
Proof. unfold governed. cbn [existsb]. intros ->. apply orb_true_r. Qed.

Lemma inv_add_segment st snew live' :
  commit_Inv st -> seg_wf (st_arena st) snew ->
  (forall ow, In ow (owners st) -> owner_disjoint (seg_owner snew) ow = true) ->
  seg_S (st_acc st) snew ->
  (live' = st_live st \/
   exists n, live' = {| pg_seg := sg_base snew; pg_lo := sg_info snew; pg_n := n |} :: st_live st /\ 0 < n /\
             sg_info snew + n = sg_nslices snew /\ is_huge snew = true) ->
  (is_huge snew = false -> forall i, i < MASK_BITS -> (i < sg_info snew -> sg_commit snew i = true) /\ sg_purge snew i = false) ->
  commit_Inv (mk (st_arena st) (snew :: st_segs st) live' (st_raw st) (st_acc st)).
Proof.
  intros HI Hw Hd HS Hlive HLP.
  assert (Hbase : forall s, In s (st_segs st) -> sg_base s <> sg_base snew).
  { intros s Hs E. specialize (Hd (seg_owner s)). rewrite owners_eq in Hd.
    specialize (Hd (in_or_app _ _ _ (or_introl (in_map _ _ _ Hs)))). unfold owner_disjoint, seg_owner in Hd. cbn [fst snd] in Hd.
    apply range_disjoint_spec in Hd. destruct (seg_span_ge _ _ Hw), (seg_span_ge _ _ (seg_wf_in st HI s Hs)). lia. }
  assert (Hpg : forall q, In q (st_live st) -> pg_seg q <> sg_base snew).
  { intros q Hq E. pose proof (I_D1 st HI) as HD. rewrite Forall_forall in HD. destruct (HD q Hq) as [s [Hf _]].
    apply find_seg_some in Hf. destruct Hf as [Hf1 Hf2]. apply (Hbase s Hf1). congruence. }
  assert (Hnl : seg_has_live (sg_base snew) (st_live st) = false).
  { unfold seg_has_live. apply not_true_is_false. intros E. apply existsb_exists in E. destruct E as [q [Hq E]]. b2p. exact (Hpg q Hq E). }
  assert (Hfind : forall q, In q (st_live st) -> page_wf (st_segs st) q -> page_wf (snew :: st_segs st) q).
  { intros q Hq [s [Hf Hr]]. exists s. split; [|exact Hr]. unfold find_seg in *. cbn [find].
    replace (sg_base snew =? pg_seg q) with false; [exact Hf|]. symmetry. apply N.eqb_neq. intros E. apply (Hpg q Hq). congruence. }
  pose proof (I_D1 st HI) as HD1. rewrite Forall_forall in HD1.
  pose proof (I_LP st HI) as HL. rewrite Forall_forall in HL.
  constructor; cbn [st_arena st_segs st_live st_raw st_acc mk].
  - constructor; [exact Hw|exact (I_wf st HI)].
  - exact (I_raw st HI).
  - change (owners (mk (st_arena st) (snew :: st_segs st) live' (st_raw st) (st_acc st))) with (seg_owner snew :: owners st).
    cbn [pairwise]. rewrite (I_own st HI), andb_true_r. apply forallb_forall. exact Hd.
  - intros b Hb Hc x Hx. destruct (I_A st HI b Hb Hc x Hx) as [G|G]; [left; apply governed_cons; exact G|right; exact G].
  - constructor; [exact HS|exact (I_S st HI)].
  - constructor.
    + intros Hh i Hi. destruct (HLP Hh i Hi) as [C P]. split; [|intros E; congruence].
      intros Hu. split; [|exact P]. apply C.
      destruct Hlive as [->|[n [-> [_ [_ Hhuge]]]]]; [|congruence].
      rewrite slice_used_no_pages in Hu by exact Hnl. b2p. exact Hu.
    + apply Forall_forall. intros s Hs Hh i Hi. destruct Hlive as [->|[n [-> _]]]; [exact (HL s Hs Hh i Hi)|].
      rewrite slice_used_cons. cbn [pg_seg].
      replace (sg_base snew =? sg_base s) with false by (symmetry; apply N.eqb_neq; intros E; apply (Hbase s Hs); congruence).
      cbn [andb orb]. exact (HL s Hs Hh i Hi).
  - destruct Hlive as [->|[n [-> [Hn [Hr Hh]]]]].
    + apply Forall_forall. intros q Hq. apply Hfind; auto.
    + constructor; [|apply Forall_forall; intros q Hq; apply Hfind; auto].
      exists snew. cbn [pg_seg pg_lo pg_n]. unfold find_seg. cbn [find]. rewrite N.eqb_refl. repeat split; auto; lia.
  - destruct Hlive as [->|[n [-> _]]]; [exact (I_D2 st HI)|].
    cbn [pairwise]. rewrite (I_D2 st HI), andb_true_r. apply forallb_forall. intros q Hq. unfold pages_disjoint. cbn [pg_seg].
    replace (sg_base snew =? pg_seg q) with false by (symmetry; apply N.eqb_neq; intros E; apply (Hpg q Hq); congruence). reflexivity.
Qed.

Lemma inv_remove_segment st s a' :
  commit_Inv st -> In s (st_segs st) -> seg_has_live (sg_base s) (st_live st) = false ->
  same_arena_shape (st_arena st) a' -> a_inuse a' = a_inuse (st_arena st) ->
  (forall b, a_committed a' b = true -> a_committed (st_arena st) b = true) ->
  (is_huge s = false -> forall b x, b < a_nblocks (st_arena st) -> a_committed a' b = true -> in_block (st_arena st) b x ->
     sg_base s <= x < sg_base s + sg_nslices s -> st_acc st x = true) ->
  commit_Inv (mk a' (remove_seg (sg_base s) (st_segs st)) (st_live st) (st_raw st) (st_acc st)).
Proof.
  intros HI Hs Hnl Hsh Hiu Hcd Hcond.
  assert (Hsub : forall x, In x (remove_seg (sg_base s) (st_segs st)) -> In x (st_segs st)) by (intros x Hx; apply in_remove_seg in Hx; tauto).
  constructor; cbn [st_arena st_segs st_live st_raw st_acc mk].
  - apply Forall_forall. intros x Hx. apply (seg_wf_arena (st_arena st)); auto; [intros; rewrite Hiu; reflexivity|].
    apply (seg_wf_in st HI). auto.
  - pose proof (I_raw st HI) as Hw. rewrite Forall_forall in Hw |- *. intros r Hr. apply (raw_wf_arena (st_arena st)); auto.
    intros; rewrite Hiu; reflexivity.
  - pose proof (I_own st HI) as Ho. rewrite owners_eq in Ho. apply pairwise_app in Ho. destruct Ho as [P1 [P2 P3]].
    rewrite owners_eq. cbn [st_arena st_segs st_raw mk].
    replace (map (raw_owner a') (st_raw st)) with (map (raw_owner (st_arena st)) (st_raw st))
      by (apply map_ext; intros r; unfold raw_owner, block_slice; destruct Hsh as [-> _]; reflexivity).
    apply pairwise_app. split; [apply pairwise_map_filter; exact P1|]. split; [exact P2|].
    intros x y Hx Hy. apply P3; [|exact Hy]. apply in_map_iff in Hx. destruct Hx as [z [<- Hz]]. apply in_map. apply Hsub. exact Hz.
  - destruct Hsh as [S1 [S2 S3]]. intros b Hb Hc x Hx. rewrite S2 in Hb.
    apply (in_block_shape (st_arena st) a' b x (conj S1 (conj S2 S3))) in Hx.
    destruct (I_A st HI b Hb (Hcd b Hc) x Hx) as [G|G]; [|right; exact G].
    apply governed_spec in G. destruct G as [s0 [H0 [Hh0 Hx0]]].
    destruct (N.eq_dec (sg_base s0) (sg_base s)) as [E|E].
    + rewrite (seg_unique st HI s0 s H0 Hs E) in *. right. apply (Hcond Hh0 b x Hb Hc Hx Hx0).
    + left. apply governed_spec. exists s0. split; [apply in_remove_seg; auto|auto].
  - pose proof (I_S st HI) as HS. rewrite Forall_forall in HS |- *. auto.
  - pose proof (I_LP st HI) as HL. rewrite Forall_forall in HL |- *. auto.
  - pose proof (I_D1 st HI) as HD. rewrite Forall_forall in HD |- *. intros q Hq. destruct (HD q Hq) as [s0 [Hf Hr]].
    exists s0. split; [|exact Hr]. rewrite find_seg_remove; [exact Hf|].
    intros E. unfold seg_has_live in Hnl. apply not_true_iff_false in Hnl. apply Hnl. apply existsb_exists. exists q. split; [exact Hq|apply N.eqb_eq; exact E].
  - exact (I_D2 st HI).
Qed.

Lemma inv_add_raw st b0 n :
  commit_Inv st -> 0 < n -> b0 + n <= a_nblocks (st_arena st) -> (forall b, b0 <= b < b0 + n -> a_inuse (st_arena st) b = true) ->
  unowned st b0 n ->
  commit_Inv (mk (st_arena st) (st_segs st) (st_live st) ((b0, n) :: st_raw st) (st_acc st)).
Proof.
  intros HI Hn Hr Hu Hun. destruct HI as [H1 H2 H3 H4 H5 H6 H7 H8]. constructor; cbn [st_arena st_segs st_live st_raw st_acc mk]; auto.
  - constructor; [|exact H2]. unfold raw_wf. cbn [fst snd]. auto.
  - rewrite owners_eq in H3 |- *. cbn [st_arena st_segs st_raw mk map]. apply pairwise_app in H3. destruct H3 as [P1 [P2 P3]].
    unfold unowned in Hun. rewrite owners_eq in Hun.
    apply pairwise_app. split; [exact P1|]. split.
    + cbn [pairwise]. rewrite P2, andb_true_r. apply forallb_forall. intros y Hy. apply Hun. apply in_or_app. right. exact Hy.
    + intros x y Hx [<-|Hy]; [|apply P3; assumption]. rewrite owner_disjoint_sym. apply Hun. apply in_or_app. left. exact Hx.
Qed.

Lemma inv_remove_raw st b0 n :
  commit_Inv st -> In (b0, n) (st_raw st) ->
  let st' := mk (st_arena st) (st_segs st) (st_live st) (filter (fun r => negb (raw_eqb r b0 n)) (st_raw st)) (st_acc st) in
  commit_Inv st' /\ unowned st' b0 n.
Proof.
  intros HI Hin st'. pose proof (I_own st HI) as Ho. rewrite owners_eq in Ho. apply pairwise_app in Ho. destruct Ho as [P1 [P2 P3]].
  assert (Hsub : forall r, In r (st_raw st') -> In r (st_raw st) /\ r <> (b0, n)).
  { intros r Hr. subst st'. cbn [st_raw mk] in Hr. apply filter_In in Hr. destruct Hr as [Hr1 Hr2]. split; [exact Hr1|].
    intros ->. unfold raw_eqb in Hr2. cbn [fst snd] in Hr2. rewrite !N.eqb_refl in Hr2. discriminate. }
  split.
  - destruct HI as [H1 H2 H3 H4 H5 H6 H7 H8]. constructor; subst st'; cbn [st_arena st_segs st_live st_raw st_acc mk]; auto.
    + rewrite Forall_forall in H2 |- *. intros r Hr. apply H2. apply filter_In in Hr. tauto.
    + rewrite owners_eq. cbn [st_arena st_segs st_raw mk]. apply pairwise_app. split; [exact P1|]. split; [apply pairwise_map_filter; exact P2|].
      intros x y Hx Hy. apply P3; [exact Hx|]. apply in_map_iff in Hy. destruct Hy as [z [<- Hz]]. apply in_map. apply filter_In in Hz. tauto.
  - intros ow How. rewrite owners_eq in How. apply in_app_or in How. destruct How as [How|How].
    + rewrite owner_disjoint_sym. apply P3; [exact How|]. change (block_slice (st_arena st') b0, n * BLOCK_SLICES) with (raw_owner (st_arena st) (b0, n)).
      apply in_map. exact Hin.
    + apply in_map_iff in How. destruct How as [r [<- Hr]]. destruct (Hsub r Hr) as [Hr1 Hr2].
      change (block_slice (st_arena st') b0, n * BLOCK_SLICES) with (raw_owner (st_arena st) (b0, n)).
      apply (pairwise_In_neq _ _ _ _ owner_disjoint_sym P2); [apply in_map; exact Hin|apply in_map; exact Hr1|].
      unfold raw_owner, block_slice. cbn [fst snd]. rewrite BLOCK_SLICES_val. intros E. inversion E. apply Hr2.
      destruct r as [rb rn]. cbn [fst snd] in *. f_equal; lia.
Qed.
