(* Composition layer (C01), part 2: operations that change the slice array of a segment or the list of
   segments: a fresh segment, a fresh page, a huge segment, retiring a page (and its segment). *)
From Coq Require Import NArith ZArith Lia Bool List.
From Coq Require Import ZifyN ZifyBool.
From MiV Require Import Gen.Consts Gen.Bins Model.Arith Model.Page Model.Span Model.Compose
  Proofs.Base Proofs.PageProofs Proofs.SpanBase Proofs.SpanInv Proofs.SpanProofs
  Proofs.ComposeBase Proofs.ComposeInv Proofs.ComposeSpan Proofs.ComposeOps.
Import ListNotations.
Local Open Scope N_scope.

Lemma seg_size_normal cs : kind (fst (cs_st cs)) = SegNormal -> seg_size cs = MI_SEGMENT_SIZE.
Proof. intros Ek. unfold seg_size, seg_slices. rewrite Ek. reflexivity. Qed.

(* ------------------------------------------------------------------------------------- *)
(* fresh_seg                                                                               *)
(* ------------------------------------------------------------------------------------- *)

Lemma used_spans_init_normal : used_spans (fst init_normal) = [(0, 1)].
Proof. vm_compute. reflexivity. Qed.

Theorem fresh_seg_spec m base m' : mem_inv m -> fresh_seg m base = Some m' ->
  mem_inv m' /\ (forall x, In x (live_blocks m') <-> In x (live_blocks m)).
Proof.
  intros Hm. unfold fresh_seg.
  destruct (base_ok m base MI_SLICES_PER_SEGMENT) eqn:Eb; [|discriminate].
  rewrite segment_init_normal. intros H. inversion H; subst m'. clear H.
  destruct (base_ok_spec _ _ _ Eb) as (B1 & B2 & B3 & B4 & B5).
  destruct span_inv_init_normal as (Hinv & Hk & _).
  set (cs := mkCSeg base init_normal []).
  assert (Esz : seg_size cs = MI_SEGMENT_SIZE) by (apply seg_size_normal; exact Hk).
  split.
  - apply cons_inv; [assumption| |].
    + unfold seg_ok. rewrite Esz. cbn [cs cs_base cs_st cs_pages map].
      split; [assumption|]. split; [assumption|]. split; [assumption|]. split; [assumption|].
      split; [assumption|]. split; [constructor|]. split; [|split].
      * intros i. rewrite used_spans_init_normal. cbn [In]. split; [tauto|].
        intros (Hi & c & [E|[]]). inversion E. lia.
      * intros cp [].
      * split; [|intros _ cp []].
        intros _ i c. rewrite used_spans_init_normal. intros [E|[]]. inversion E. unfold MI_MAX_SLICE_OFFSET_COUNT. lia.
    + intros x Hx. destruct (B5 x Hx) as (Hne & Hd). split; [assumption|].
      rewrite Esz. cbn [cs cs_base]. unfold MI_SLICES_PER_SEGMENT, MI_SEGMENT_SLICE_SIZE, MI_SEGMENT_SIZE in *. lia.
  - intros x. unfold live_blocks. cbn [flat_map]. unfold seg_blocks at 1. cbn [cs_pages flat_map app]. reflexivity.
Qed.

(* ------------------------------------------------------------------------------------- *)
(* fresh_page                                                                              *)
(* ------------------------------------------------------------------------------------- *)

Lemma init_cpage_some cs idx bs cp : init_cpage cs idx bs = Some cp ->
  0 < bs /\ snd (page_area cs idx) / bs < 65536 /\
  cp = mkCPage idx (page_init bs (snd (page_area cs idx)) false) [] /\ bs <= snd (page_area cs idx).
Proof.
  unfold init_cpage. destruct ((0 <? bs) && (bs <=? snd (page_area cs idx)) && (snd (page_area cs idx) / bs <? 65536)) eqn:E; [|discriminate].
  apply andb_prop in E as (E & E3). apply andb_prop in E as (E1 & E2).
  apply N.ltb_lt in E1, E3. apply N.leb_le in E2. intros H. inversion H. auto.
Qed.

(* a freshly initialised page of segment (base, st) at slice idx whose first entry carries block size bs *)
Lemma init_page_ok base st ps idx bs cp :
  init_cpage (mkCSeg base st ps) idx bs = Some cp -> bsz (get (entries (fst st)) idx) = bs ->
  page_ok base (get (entries (fst st)) idx) cp /\ cp_idx cp = idx /\ cp_ghost cp = [] /\ free (cp_page cp) <> [].
Proof.
  intros Hi Hbz. destruct (init_cpage_some _ _ _ _ Hi) as (Hbs & Hr & -> & Hle).
  destruct (page_init_facts bs (snd (page_area (mkCSeg base st ps) idx)) false Hbs Hr) as (F1 & F2 & F3 & F4 & _).
  split; [|split; [reflexivity|split; [reflexivity|cbn [cp_page]; apply page_init_free; assumption]]].
  unfold page_ok. cbn [cp_page cp_idx cp_ghost]. split; [assumption|]. split; [congruence|].
  split; [rewrite F3, F2; unfold page_area, page_start; cbn [cs_base cs_st]; rewrite Hbz; reflexivity|].
  unfold ghost_ok. cbn [cp_ghost cp_page map]. split; [constructor|]. split.
  - intros b. split; [intros []|intros H; exact (F4 b H)].
  - intros b r [].
Qed.

(* page areas only depend on the first slice entry of the span *)
Lemma page_blocks_frame cs cs' cp : cs_base cs' = cs_base cs ->
  get (entries (fst (cs_st cs'))) (cp_idx cp) = get (entries (fst (cs_st cs))) (cp_idx cp) ->
  page_blocks cs' cp = page_blocks cs cp.
Proof.
  intros Eb Eg. unfold page_blocks, block_addr, page_area, page_start. rewrite Eb, Eg. reflexivity.
Qed.

Theorem fresh_page_spec m base bs m' idx : mem_inv m -> fresh_page m base bs = Some (m', idx) ->
  mem_inv m' /\ (forall x, In x (live_blocks m') <-> In x (live_blocks m)) /\
  exists cs' cp', find_seg m' base = Some cs' /\ find_page cs' idx = Some cp' /\ bsize (cp_page cp') = bs /\
                  free (cp_page cp') <> [].
Proof.
  intros Hm. unfold fresh_page.
  destruct ((0 <? bs) && (bs <=? MI_LARGE_OBJ_SIZE_MAX)) eqn:Ebs; cbn [negb]; [|discriminate].
  apply andb_prop in Ebs as (Hbs0 & Hbsl). apply N.ltb_lt in Hbs0. apply N.leb_le in Hbsl.
  destruct (find_seg m base) as [cs|] eqn:Ef; [|discriminate].
  destruct (kind (fst (cs_st cs))) eqn:Ek; [|discriminate].
  destruct (page_find_and_allocate (cs_st cs) (slices_needed bs) (fun _ => true) true) as [[idx0|] st1] eqn:Ea; [|discriminate].
  destruct (init_cpage (mkCSeg base (set_block_size st1 idx0 bs) (cs_pages cs)) idx0 bs) as [cp|] eqn:Ei; [|discriminate].
  intros H; inversion H; subst m' idx. clear H.
  pose proof Ef as Ef'. apply (find_seg_In _ _ _ Hm) in Ef as (Hcs & Eb). subst base.
  pose proof (seg_ok_In _ _ Hm Hcs) as Hs.
  pose proof Hs as (A1 & A2 & A3 & A4 & Hinv & Hndp & Hpg & Hpok & Hc256 & Hhuge1).
  destruct (cs_st cs) as [sg qs] eqn:Est. cbn [fst] in *.
  destruct (allocate_fresh sg qs _ _ _ _ Hinv Ea) as (sps & c & Hsp & Hin & Hfree & Hkc & Hdisj & Hus & Hfr & Hu & Hinv1).
  set (k := if slices_needed bs =? 0 then 1 else slices_needed bs) in *.
  assert (Hnew : In (idx0, k) (used_spans (fst st1))) by (apply Hus; left; reflexivity).
  pose proof (set_block_size_facts st1 idx0 k bs Hinv1 Hnew Hbs0) as F. cbv zeta in F.
  destruct F as (Hinv2 & Hus2 & Hgo & Hgi & Hk2 & _ & _ & _).
  set (st2 := set_block_size st1 idx0 bs) in *.
  assert (Hk1 : kind (fst st1) = SegNormal).
  { pose proof (kind_find_and_allocate (sg, qs) (slices_needed bs) (fun _ => true) true) as K.
    rewrite Ea in K. cbn [snd fst] in K. congruence. }
  (* the old spans in use lie outside the span that was free *)
  assert (Hold : forall i ci, In (i, ci) (used_spans sg) -> i <> idx0 /\ get (entries (fst st2)) i = get (entries sg) i).
  { intros i ci Hi. pose proof (used_span_pos (sg, qs) i ci Hinv Hi) as Hci.
    assert (Hkpos : 0 < c) by (unfold k in Hkc; destruct (slices_needed bs =? 0) eqn:E0; [lia|apply N.eqb_neq in E0; lia]).
    destruct (Hdisj i ci Hi) as [Hd|Hd].
    - split; [lia|]. rewrite Hgo by lia. apply Hfr. lia.
    - split; [lia|]. rewrite Hgo by lia. apply Hfr. lia. }
  destruct (init_page_ok (cs_base cs) st2 (cs_pages cs) idx0 bs cp Ei) as (Hcpok & Ecpi & Ecpg & Hcpfree).
  { rewrite Hgi. reflexivity. }
  destruct (info_span_used (sg, qs) Hinv) as (Hinfo & Hinfo0). cbn [fst] in *.
  assert (Hidx0 : 0 < idx0).
  { destruct (Hold _ _ Hinfo) as (Hne & _). lia. }
  set (cs' := set_pages (mkCSeg (cs_base cs) st2 (cs_pages cs)) (cp :: cs_pages cs)).
  assert (Hs' : seg_ok cs').
  { unfold seg_ok. cbn [cs' set_pages cs_base cs_st cs_pages map].
    assert (Esz : seg_size cs' = seg_size cs).
    { rewrite !seg_size_normal; [reflexivity|rewrite Est; exact Ek|]. unfold cs'; cbn [set_pages cs_st]. congruence. }
    change (seg_size {| cs_base := cs_base cs; cs_st := st2; cs_pages := cp :: cs_pages cs |}) with (seg_size cs').
    rewrite Esz.
    split; [assumption|]. split; [assumption|]. split; [assumption|]. split; [assumption|].
    split; [assumption|]. split; [|split; [|split; [|split]]].
    - rewrite Ecpi. constructor; [|assumption]. intros Hi. apply Hpg in Hi as (_ & ci & Hi).
      destruct (Hold _ _ Hi) as (Hne & _). congruence.
    - intros i. rewrite Ecpi. cbn [In]. split.
      + intros [<-|Hi]; [split; [assumption|]; exists k; apply Hus2; assumption|].
        apply Hpg in Hi as (Hi0 & ci & Hi). split; [assumption|]. exists ci. apply Hus2. apply Hus. right. assumption.
      + intros (Hi0 & ci & Hi). apply Hus2 in Hi. apply Hus in Hi as [E|Hi]; [inversion E; left; reflexivity|].
        right. apply Hpg. split; [assumption|]. exists ci. assumption.
    - intros cp2 [<-|Hcp2]; [rewrite Ecpi; assumption|].
      destruct (page_span _ _ Hs Hcp2) as (_ & ci & Hi). rewrite Est in Hi. cbn [fst] in Hi.
      destruct (Hold _ _ Hi) as (_ & Eg). rewrite Eg. apply Hpok. assumption.
    - intros _ i ci Hi. apply Hus2 in Hi. apply Hus in Hi as [E|Hi]; [|apply (Hc256 Ek _ _ Hi)].
      inversion E; subst. pose proof (slices_needed_le bs Hbsl) as Hle.
      unfold k. destruct (slices_needed bs =? 0); [unfold MI_MAX_SLICE_OFFSET_COUNT; lia|assumption].
    - intros Hkh. rewrite Hk2, Hk1 in Hkh. discriminate. }
  assert (Esb : forall x, In x (seg_blocks cs') <-> In x (seg_blocks cs)).
  { intros x. rewrite !In_seg_blocks. unfold cs' at 1; cbn [set_pages cs_pages]. split.
    - intros (cp2 & [<-|Hcp2] & Hx).
      + unfold page_blocks in Hx. rewrite Ecpg in Hx. destruct Hx.
      + exists cp2. split; [assumption|].
        destruct (page_span _ _ Hs Hcp2) as (_ & ci & Hi). rewrite Est in Hi. cbn [fst] in Hi.
        destruct (Hold _ _ Hi) as (_ & Eg).
        rewrite <- (page_blocks_frame cs cs' cp2); [assumption|reflexivity|]. rewrite Est. exact Eg.
    - intros (cp2 & Hcp2 & Hx). exists cp2. split; [right; assumption|].
      destruct (page_span _ _ Hs Hcp2) as (_ & ci & Hi). rewrite Est in Hi. cbn [fst] in Hi.
      destruct (Hold _ _ Hi) as (_ & Eg).
      rewrite (page_blocks_frame cs cs' cp2); [assumption|reflexivity|]. rewrite Est. exact Eg. }
  assert (Hm' : mem_inv (kset cs_base m cs')).
  { apply (kset_inv m cs); try assumption; [reflexivity|].
    rewrite !seg_size_normal; [reflexivity|rewrite Est; exact Ek|]. unfold cs'; cbn [set_pages cs_st]. congruence. }
  split; [exact Hm'|]. split; [apply (live_blocks_kset m cs cs' Hm Hcs eq_refl Esb)|].
  exists cs', cp. split; [|split; [|split; [|exact Hcpfree]]].
  - unfold find_seg. rewrite kfind_kset by (change (cs_base cs') with (cs_base cs); apply in_map; assumption).
    change (cs_base cs') with (cs_base cs). rewrite N.eqb_refl. reflexivity.
  - unfold find_page, cs'. cbn [set_pages cs_pages kfind]. rewrite Ecpi, N.eqb_refl. reflexivity.
  - destruct Hcpok as (_ & Hb & _). rewrite Hb, Hgi. reflexivity.
Qed.

(* ------------------------------------------------------------------------------------- *)
(* huge_seg                                                                                *)
(* ------------------------------------------------------------------------------------- *)

Theorem huge_seg_spec m base bs al m' idx : mem_inv m -> huge_seg m base bs al = Some (m', idx) ->
  mem_inv m' /\ (forall x, In x (live_blocks m') <-> In x (live_blocks m)) /\
  exists cs' cp', find_seg m' base = Some cs' /\ find_page cs' idx = Some cp'.
Proof.
  intros Hm. unfold huge_seg.
  destruct (segment_request bs al) as [[[ss info] a'] off] eqn:Er.
  destruct ((bs =? 0) || negb ((2 <=? ss) && (ss <? 4294967296) && (info =? 1))) eqn:Ec; [discriminate|].
  apply orb_false_elim in Ec as (Eb0 & Ec). apply negb_false_iff in Ec.
  apply andb_prop in Ec as (Ec & Einfo). apply andb_prop in Ec as (E2 & E32).
  apply N.eqb_neq in Eb0. apply N.eqb_eq in Einfo. apply N.leb_le in E2. apply N.ltb_lt in E32. subst info.
  destruct (segment_init bs al empty_queues) as [st|] eqn:Ei; [|discriminate].
  destruct (huge_seg_init bs al ss a' off st Er Eb0 E2 E32 Ei) as (Hinv & Hu & Hk & Hinfo & Hn & Hg1).
  rewrite Hinfo.
  set (psize := snd (page_area (mkCSeg base st []) 1)).
  set (st2 := set_block_size st 1 psize).
  destruct (base_ok m base (seg_slices (fst (cs_st (mkCSeg base st2 []))))) eqn:Eb; [|discriminate].
  destruct (init_cpage (mkCSeg base st2 []) 1 psize) as [cp|] eqn:Ecp; [|discriminate].
  destruct (reserved (cp_page cp) =? 1) eqn:Er1; [|discriminate]. apply N.eqb_eq in Er1.
  intros H; inversion H; subst m' idx. clear H.
  destruct (base_ok_spec _ _ _ Eb) as (B1 & B2 & B3 & B4 & B5).
  destruct (init_cpage_some _ _ _ _ Ecp) as (Hps0 & _ & _ & _).
  assert (HI : span_Inv st) by (exists [(0, 1); (1, ss - 1)], ss; rewrite Hu; exact Hinv).
  assert (Hused : In (1, ss - 1) (used_spans (fst st))).
  { apply (In_used_spans _ _ _ _ _ _ Hinv). split; [right; left; reflexivity|]. rewrite Hg1. cbn [bsz].
    unfold MI_SEGMENT_SLICE_SIZE. lia. }
  pose proof (set_block_size_facts st 1 (ss - 1) psize HI Hused Hps0) as F. cbv zeta in F. fold st2 in F.
  destruct F as (Hinv2 & Hus2 & Hgo & Hgi & Hk2 & _ & _ & _).
  destruct (init_page_ok base st2 [] 1 psize cp Ecp) as (Hcpok & Ecpi & Ecpg & _).
  { rewrite Hgi. reflexivity. }
  set (cs' := set_pages (mkCSeg base st2 []) [cp]).
  assert (Hs' : seg_ok cs').
  { unfold seg_ok. cbn [cs' set_pages cs_base cs_st cs_pages map].
    split; [assumption|]. split; [assumption|]. split; [assumption|]. split; [exact B4|].
    split; [assumption|]. split; [constructor; [intros []|constructor]|]. split; [|split; [|split]].
    - intros i. rewrite Ecpi. cbn [In]. split.
      + intros [<-|[]]. split; [lia|]. exists (ss - 1). apply Hus2. assumption.
      + intros (Hi0 & ci & Hi). apply Hus2 in Hi. apply (In_used_spans _ _ _ _ _ _ Hinv) in Hi as (Hi & _).
        destruct Hi as [E|[E|[]]]; inversion E; subst; [lia|left; reflexivity].
    - intros cp2 [<-|[]]. rewrite Ecpi. assumption.
    - intros Hkn. rewrite Hk2, Hk in Hkn. discriminate.
    - intros _ cp2 [<-|[]]. lia. }
  split; [|split].
  - apply cons_inv; [assumption|assumption|].
    intros x Hx. destruct (B5 x Hx) as (Hne & Hd). split; [exact Hne|exact Hd].
  - intros x. unfold live_blocks. cbn [flat_map].
    assert (E : seg_blocks cs' = []).
    { unfold seg_blocks, cs'. cbn [set_pages cs_pages flat_map]. unfold page_blocks. rewrite Ecpg. reflexivity. }
    rewrite E. reflexivity.
  - exists cs', cp. split.
    + unfold find_seg. cbn [kfind]. change (cs_base cs') with base. rewrite N.eqb_refl. reflexivity.
    + unfold find_page, cs'. cbn [set_pages cs_pages kfind]. rewrite Ecpi, N.eqb_refl. reflexivity.
Qed.

(* ------------------------------------------------------------------------------------- *)
(* retire_page                                                                             *)
(* ------------------------------------------------------------------------------------- *)

Lemma flat_map_nil {A B} (f : A -> list B) l : (forall x, In x l -> f x = []) -> flat_map f l = [].
Proof.
  induction l as [|x r IH]; cbn [flat_map]; [reflexivity|]. intros H.
  rewrite (H x (or_introl eq_refl)), IH; [reflexivity|]. intros y Hy. apply H. right. assumption.
Qed.

Lemma length_used_spans st : span_Inv st -> N.of_nat (length (used_spans (fst st))) = used (fst st) + 1.
Proof.
  intros (sps & m & Hinv). rewrite (used_spans_inv _ _ _ _ Hinv).
  destruct Hinv as (_ & _ & _ & _ & _ & _ & _ & Hu & _). unfold count_used in Hu. symmetry. exact Hu.
Qed.

(* a segment without pages in use: only the info span is in use *)
Lemma used_zero_spans st i c : span_Inv st -> used (fst st) = 0 -> In (i, c) (used_spans (fst st)) -> i = 0.
Proof.
  intros Hinv Hu Hin. pose proof (length_used_spans st Hinv) as Hl. rewrite Hu in Hl.
  destruct (info_span_used st Hinv) as (H0 & _).
  revert Hin H0 Hl. destruct (used_spans (fst st)) as [|x [|y r]]; cbn [length]; intros Hin H0 Hl; try lia.
  destruct Hin as [E1|[]]. destruct H0 as [E2|[]]. rewrite E1 in E2. inversion E2. reflexivity.
Qed.

(* a huge segment has one page *)
Lemma huge_used_le st : span_Inv st -> kind (fst st) = SegHuge -> used (fst st) <= 1.
Proof.
  intros Hinv Hk. pose proof (length_used_spans st Hinv) as Hl.
  destruct Hinv as (sps & m & Hinv). rewrite (used_spans_inv _ _ _ _ Hinv) in Hl.
  pose proof Hinv as (_ & _ & _ & _ & _ & Hshape & _). unfold huge_shape in Hshape. rewrite Hk in Hshape.
  destruct Hshape as (c & ->).
  cbn [filter fst] in Hl.
  destruct (0 <? bsz (get (entries (fst st)) 0)); destruct (0 <? bsz (get (entries (fst st)) (info_slices (fst st))));
    cbn [length] in Hl; lia.
Qed.

(* a page without used blocks has no live block *)
Lemma unused_page_no_ghost cp : page_Inv (cp_page cp) -> ghost_ok cp -> Page.used (cp_page cp) = 0 -> cp_ghost cp = [].
Proof.
  intros Hpi (_ & Hkeys & _) Hu. pose proof (page_live_count _ Hpi) as Hc. rewrite Hu in Hc.
  destruct (cp_ghost cp) as [|[b r] g]; [reflexivity|]. exfalso.
  assert (Hl : is_live (cp_page cp) b) by (apply Hkeys; left; reflexivity).
  apply page_live_spec in Hl. destruct (page_live (cp_page cp)); [destruct Hl|cbn [length] in Hc; lia].
Qed.

Theorem retire_page_spec m base idx m' : mem_inv m -> retire_page m base idx = Some m' ->
  mem_inv m' /\ (forall x, In x (live_blocks m') <-> In x (live_blocks m)).
Proof.
  intros Hm. unfold retire_page.
  destruct (find_seg m base) as [cs|] eqn:Ef; [|discriminate].
  destruct (find_page cs idx) as [cp|] eqn:Ep; [|discriminate].
  destruct (Page.used (cp_page cp) =? 0) eqn:Eu; [|discriminate]. apply N.eqb_eq in Eu.
  destruct (find_both _ _ _ _ _ Hm Ef Ep) as (Hcs & Eb & Hcp & Ei & Hs & (Hpi & Hbz & Hres & Hgo)).
  subst base idx.
  pose proof (unused_page_no_ghost cp Hpi Hgo Eu) as Eg.
  pose proof Hs as (A1 & A2 & A3 & A4 & Hinv & Hndp & Hpg & Hpok & Hc256 & Hhuge1).
  destruct (page_span _ _ Hs Hcp) as (Hi0 & c & Hsp).
  destruct (cs_st cs) as [sg qs] eqn:Est. cbn [fst] in *.
  assert (Hne0 : cp_idx cp <> 0) by lia.
  pose proof (free_frame sg qs (cp_idx cp) c Hinv Hsp Hne0) as F. cbv zeta in F.
  destruct F as (Hus & Hu1 & Hu2 & Hinv1).
  pose proof (free_frame_get sg qs (cp_idx cp) c Hinv Hsp Hne0) as Hfg. cbv zeta in Hfg.
  set (st1 := fst (page_clear (sg, qs) (cp_idx cp))) in *.
  destruct (used_spans_disjoint (sg, qs) Hinv) as (Hdis & _). cbn [fst] in Hdis.
  (* the other pages keep their span and their first entry *)
  assert (Hkeep : forall cp2, In cp2 (cs_pages cs) -> cp_idx cp2 <> cp_idx cp ->
            exists c2, In (cp_idx cp2, c2) (used_spans (fst st1)) /\
                       get (entries (fst st1)) (cp_idx cp2) = get (entries sg) (cp_idx cp2)).
  { intros cp2 Hcp2 Hne. destruct (page_span _ _ Hs Hcp2) as (_ & c2 & H2). rewrite Est in H2. cbn [fst] in H2.
    assert (H2' : In (cp_idx cp2, c2) (used_spans (fst st1))) by (apply Hus; split; [congruence|assumption]).
    exists c2. split; [assumption|]. apply (Hfg _ _ H2'). }
  destruct (Span.used (fst st1) =? 0) eqn:Eu0.
  - (* the segment is released *)
    apply N.eqb_eq in Eu0. intros H; inversion H; subst m'. clear H.
    split; [apply kdel_inv; assumption|].
    apply live_blocks_kdel. intros cs2 Hcs2 Eb2.
    pose proof Hm as (Hnd & _). pose proof (key_inj cs_base m cs2 cs Hnd Hcs2 Hcs Eb2) as ->.
    assert (Hall : forall cp2, In cp2 (cs_pages cs) -> cp2 = cp).
    { intros cp2 Hcp2. destruct (N.eq_dec (cp_idx cp2) (cp_idx cp)) as [E|E].
      - apply (key_inj cp_idx _ cp2 cp Hndp Hcp2 Hcp E).
      - exfalso. destruct (Hkeep cp2 Hcp2 E) as (c2 & H2 & _).
        pose proof (used_zero_spans st1 _ _ Hinv1 Eu0 H2) as Hz.
        destruct (page_span _ _ Hs Hcp2) as (Hp & _). lia. }
    unfold seg_blocks. apply flat_map_nil. intros cp2 Hcp2. rewrite (Hall cp2 Hcp2).
    unfold page_blocks. rewrite Eg. reflexivity.
  - apply N.eqb_neq in Eu0. intros H; inversion H; subst m'. clear H.
    assert (Ek : kind sg = SegNormal).
    { destruct (kind sg) eqn:Ek; [reflexivity|]. exfalso.
      pose proof (huge_used_le (sg, qs) Hinv Ek) as Hle. cbn [fst] in Hle. lia. }
    assert (Ek1 : kind (fst st1) = SegNormal).
    { unfold st1. rewrite kind_page_clear. exact Ek. }
    set (cs' := mkCSeg (cs_base cs) st1 (kdel cp_idx (cs_pages cs) (cp_idx cp))).
    assert (Esz : seg_size cs' = seg_size cs).
    { rewrite !seg_size_normal; [reflexivity|rewrite Est; exact Ek|exact Ek1]. }
    assert (Hs' : seg_ok cs').
    { unfold seg_ok. rewrite Esz. cbn [cs' cs_base cs_st cs_pages].
      split; [assumption|]. split; [assumption|]. split; [assumption|]. split; [assumption|].
      split; [assumption|]. split; [apply NoDup_kdel; assumption|]. split; [|split; [|split]].
      - intros i. rewrite In_map_key_kdel, Hpg. split.
        + intros ((Hi & ci & Hin) & Hne). split; [assumption|]. exists ci. apply Hus. split; [congruence|assumption].
        + intros (Hi & ci & Hin). apply Hus in Hin as (Hne & Hin). split; [split; [assumption|exists ci; assumption]|].
          intros ->. destruct (Hdis _ _ _ _ Hin Hsp) as [(_ & ->)|Hd]; [congruence|].
          pose proof (used_span_pos (sg, qs) _ _ Hinv Hin). pose proof (used_span_pos (sg, qs) _ _ Hinv Hsp). lia.
      - intros cp2 Hcp2. apply In_kdel in Hcp2 as (Hcp2 & Hne).
        destruct (Hkeep cp2 Hcp2 Hne) as (c2 & _ & Eg2). rewrite Eg2. apply Hpok. assumption.
      - intros _ i ci Hin. apply Hus in Hin as (_ & Hin). apply (Hc256 Ek _ _ Hin).
      - intros Hkh. rewrite Ek1 in Hkh. discriminate. }
    assert (Esb : forall x, In x (seg_blocks cs') <-> In x (seg_blocks cs)).
    { intros x. rewrite !In_seg_blocks. unfold cs' at 1; cbn [cs_pages]. split.
      - intros (cp2 & Hcp2 & Hx). apply In_kdel in Hcp2 as (Hcp2 & Hne). exists cp2. split; [assumption|].
        destruct (Hkeep cp2 Hcp2 Hne) as (c2 & _ & Eg2).
        rewrite <- (page_blocks_frame cs cs' cp2); [assumption|reflexivity|]. rewrite Est. exact Eg2.
      - intros (cp2 & Hcp2 & Hx). destruct (N.eq_dec (cp_idx cp2) (cp_idx cp)) as [E|E].
        + pose proof (key_inj cp_idx _ cp2 cp Hndp Hcp2 Hcp E) as ->. unfold page_blocks in Hx. rewrite Eg in Hx. destruct Hx.
        + exists cp2. split; [apply In_kdel; split; assumption|].
          destruct (Hkeep cp2 Hcp2 E) as (c2 & _ & Eg2).
          rewrite (page_blocks_frame cs cs' cp2); [assumption|reflexivity|]. rewrite Est. exact Eg2. }
    split.
    + apply (kset_inv m cs); try assumption. reflexivity.
    + apply (live_blocks_kset m cs cs' Hm Hcs eq_refl Esb).
Qed.
