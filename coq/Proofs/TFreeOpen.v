(* Statements about the cross-thread free model that are NOT proved (kept as Definitions so that nobody
   mistakes them for theorems).  Everything else of C02 / C08 / C10conc is proved. *)
From Coq Require Import NArith List Bool.
From MiV Require Import Model.TFree Proofs.TFreeInv Proofs.TFreeProofs.
Import ListNotations.
Local Open Scope N_scope.

(* tflist_nonempty_flag, corrected form.  DESIGN.md states "at owner-quiescence a non-empty page thread list
   implies flag in {NO, NEVER}"; as stated that is false in the model and in the code: a thread that arrives
   while another one is in the DELAYED_FREEING window pushes directly on the page list, so the flag can also be
   DELAYED_FREEING.  The correct statement is: a non-empty thread list under MI_USE_DELAYED_FREE only exists
   while a block of the page is still on a delayed / pending list or the owner is between the flag reset of
   _mi_free_delayed_block and its collect (InvT of Proofs/TFreeInv.v; it is part of the boolean checker
   `tfl_b`, evaluated after every step of the simulator, and was never violated). *)
Definition tflist_nonempty_flag_stmt : Prop :=
  forall s, reachable s -> exists c, s = Ok c /\ InvT c.

(* the boolean checkers decide the invariant (only the direction used by the tools matters: a state that
   passes inv_b satisfies Inv) *)
Definition inv_b_sound_stmt : Prop := forall c, inv_b c = true -> Inv c /\ InvT c.
Definition inv_b_complete_stmt : Prop := forall c, Inv c -> InvT c -> inv_b c = true.
