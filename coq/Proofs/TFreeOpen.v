(* Statements about the cross-thread free model that are NOT proved (kept as Definitions so that nobody
   mistakes them for theorems).  Every theorem of C02 / C08 / C10conc is proved, and the boolean checker is
   proved sound (Proofs/TFreeCheck.v: inv_b c = true -> Inv c /\ InvT c).  Open: its completeness, which no
   theorem and no tool depends on (it is tested: inv_b holds after every step of the simulator). *)
From Coq Require Import NArith List Bool.
From MiV Require Import Model.TFree Proofs.TFreeInv.
Import ListNotations.
Local Open Scope N_scope.

Definition inv_b_complete_stmt : Prop := forall c, Inv c -> InvT c -> inv_b c = true.
