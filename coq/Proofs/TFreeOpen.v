(* Statements about the cross-thread free model that are NOT proved (kept as Definitions so that nobody
   mistakes them for theorems).  Every theorem of C02 / C08 / C10conc is proved; what is open is only the
   relation between the boolean checkers and the Prop invariant. *)
From Coq Require Import NArith List Bool.
From MiV Require Import Model.TFree Proofs.TFreeInv.
Import ListNotations.
Local Open Scope N_scope.

(* the boolean checkers decide the invariant.  They are used as test oracles (simulator, lockstep replay of
   real-code states); the theorems do not depend on them. *)
Definition inv_b_sound_stmt : Prop := forall c, inv_b c = true -> Inv c /\ InvT c.
Definition inv_b_complete_stmt : Prop := forall c, Inv c -> InvT c -> inv_b c = true.
