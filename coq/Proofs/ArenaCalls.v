(* The system calls of one visit of mi_arena_try_purge (property C18, model Model/Purge.v): every block that is scheduled
   for a purge and not in use lies in a range of blocks that the visit hands to madvise(MADV_DONTNEED), at the address of that
   range.  Parallel to field_scan_spec / fields_loop_spec of Proofs/PurgeProofs.v (which give the bitmaps after the visit),
   here for the call log of the ghost kernel. *)
From Coq Require Import NArith ZArith List Bool Lia.
From MiV Require Import Gen.Consts Gen.OsConsts Model.Arith Model.Os Model.Mask Model.Purge
  Proofs.Base Proofs.OsProofs Proofs.MaskProofs Proofs.PurgeProofs.
Import ListNotations.
Local Open Scope N_scope.

(* the arena lies page-aligned in the address space without wrap-around (arenas are MI_SEGMENT_ALIGN-aligned reservations) *)
Definition arena_geom (a : arena) : Prop :=
  0 < a_start a /\ a_start a mod PAGE = 0 /\ a_start a + a_field_count a * 64 * BLOCK < 2 ^ 62.

Lemma arena_geom_frame a a' : aframe a a' -> arena_geom a -> arena_geom a'.
Proof. intros (F1 & _ & F3 & _) (G1 & G2 & G3). unfold arena_geom. rewrite F1, F3. auto. Qed.

(* block b lies in a block range [i, i+c) for which madvise(start + i * BLOCK, c * BLOCK, MADV_DONTNEED) is in the log *)
Definition covered (start : N) (o : os) (b : N) : Prop :=
  exists i c, i <= b /\ b < i + c /\ In (KMadvise, start + i * BLOCK, c * BLOCK, MADV_DONTNEED_) (calls o).
Definition cext (o o' : os) : Prop := exists l, calls o' = calls o ++ l.

Lemma cext_refl o : cext o o.
Proof. exists []. rewrite app_nil_r. reflexivity. Qed.
Lemma cext_trans a b c : cext a b -> cext b c -> cext a c.
Proof. intros (l1 & E1) (l2 & E2). exists (l1 ++ l2). rewrite E2, E1, app_assoc. reflexivity. Qed.
Lemma covered_mono start o o' b : cext o o' -> covered start o b -> covered start o' b.
Proof. intros (l & E) (i & c & H1 & H2 & H3). exists i, c. rewrite E. split; [exact H1|]. split; [exact H2|]. apply in_or_app. left. exact H3. Qed.

Lemma BLOCK_val : BLOCK = 33554432.
Proof. reflexivity. Qed.

Section WithOracle.
Variable cfg : oscfg.
Variable oracle : nat -> answer.
Hypothesis Hdelay : (0 <= purge_delay cfg)%Z.
Hypothesis Hdec : purge_decommits cfg = true.

(* mi_arena_purge of a block range inside the arena: one madvise(DONTNEED) of exactly that range *)
Lemma arena_purge_calls o a idx blocks :
  arena_geom a -> 0 < blocks -> idx + blocks <= a_field_count a * 64 ->
  cext o (fst (arena_purge cfg oracle o a idx blocks)) /\
  In (KMadvise, a_start a + idx * BLOCK, blocks * BLOCK, MADV_DONTNEED_) (calls (fst (arena_purge cfg oracle o a idx blocks))).
Proof.
  intros (G1 & G2 & G3) Hb Hr. rewrite OsProofs.P62, BLOCK_val in G3. rewrite PAGE_val in G2.
  assert (Ea : arena_block_start a idx = a_start a + idx * BLOCK).
  { unfold arena_block_start. rewrite BLOCK_val. rewrite (wmul_small idx 33554432) by (rewrite W64_val; nia).
    apply wadd_small. rewrite W64_val. nia. }
  assert (Es : wmul blocks BLOCK = blocks * BLOCK).
  { rewrite BLOCK_val. apply wmul_small. rewrite W64_val. nia. }
  assert (A : aligned_area (a_start a + idx * BLOCK) (blocks * BLOCK)).
  { unfold aligned_area. rewrite OsProofs.P62, BLOCK_val, PAGE_val. repeat split; nia. }
  assert (Sg : forall ar, purge_sigs cfg (a_start a + idx * BLOCK) (blocks * BLOCK) ar =
                          (KMadvise, a_start a + idx * BLOCK, blocks * BLOCK, MADV_DONTNEED_) ::
                          (if decommit_protects cfg then [(KMprotect, a_start a + idx * BLOCK, blocks * BLOCK, PROT_NONE_)] else [])).
  { intros ar. unfold purge_sigs. assert (E : (purge_delay cfg <? 0)%Z = false) by (apply Z.ltb_ge; exact Hdelay). rewrite E, Hdec. reflexivity. }
  unfold arena_purge. rewrite Ea, Es.
  destruct (bm_all_set (a_committed a) idx blocks).
  - pose proof (os_purge_ex_calls cfg oracle o _ _ true A) as C. unfold os_purge.
    destruct (os_purge_ex cfg oracle o (a_start a + idx * BLOCK) (blocks * BLOCK) true) as [o1 nr]. cbn [fst] in *.
    rewrite Sg in C. split; [eexists; exact C|]. rewrite C. apply in_or_app. right. left. reflexivity.
  - pose proof (os_purge_ex_calls cfg oracle o _ _ false A) as C.
    destruct (os_purge_ex cfg oracle o (a_start a + idx * BLOCK) (blocks * BLOCK) false) as [o1 nr]. cbn [fst] in *.
    rewrite Sg in C. split; [eexists; exact C|]. rewrite C. apply in_or_app. right. left. reflexivity.
Qed.

(* the scan of one bitmap field from position pos *)
Lemma field_scan_calls n : forall o a fbase pos skip any full,
  pos + N.of_nat n = 64 -> arena_geom a -> fbase + 64 <= a_field_count a * 64 ->
  let r := field_scan cfg oracle n o a fbase pos skip any full in
  let o' := fst (fst (fst r)) in
  cext o o' /\
  (forall b, fbase + pos + skip <= b -> b < fbase + 64 -> N.testbit (a_purge a) b = true -> N.testbit (a_inuse a) b = false ->
             covered (a_start a) o' b).
Proof.
  induction n as [|n IH]; intros o a fbase pos skip any full Hn Hg Hf; cbn [field_scan].
  - cbv zeta. cbn [fst]. split; [apply cext_refl|]. intros b B1 B2. lia.
  - destruct (0 <? skip) eqn:Sk.
    + apply N.ltb_lt in Sk. destruct (IH o a fbase (pos + 1) (skip - 1) any full ltac:(lia) Hg Hf) as (I1 & I2). cbv zeta in *.
      split; [exact I1|]. intros b B1 B2. apply I2; lia.
    + apply N.ltb_ge in Sk.
      destruct (ones_run_spec (S n) (a_purge a) (fbase + pos)) as (O1 & O2 & O3). cbv zeta in O1, O2, O3.
      set (bitlen := ones_run (S n) (a_purge a) (fbase + pos)) in *.
      destruct (zeros_run_spec (N.to_nat bitlen) (a_inuse a) (fbase + pos)) as (Z1 & Z2 & Z3). cbv zeta in Z1, Z2, Z3.
      rewrite N2Nat.id in Z1, Z3.
      set (claimed := zeros_run (N.to_nat bitlen) (a_inuse a) (fbase + pos)) in *.
      (* the position after the claimed range is not a scheduled block that is not in use *)
      assert (Hend : forall b, b = fbase + pos + claimed -> b < fbase + 64 ->
                       N.testbit (a_purge a) b = true -> N.testbit (a_inuse a) b = false -> False).
      { intros b -> B2 Hp Hi. destruct (N.lt_ge_cases claimed bitlen) as [L2|G2].
        - rewrite (Z3 L2) in Hi. discriminate.
        - assert (claimed = bitlen) by lia. assert (bitlen < N.of_nat (S n)) by lia.
          replace (fbase + pos + claimed) with (fbase + pos + bitlen) in Hp by lia. rewrite (O3 ltac:(assumption)) in Hp. discriminate. }
      destruct (0 <? claimed) eqn:Cl.
      * apply N.ltb_lt in Cl.
        set (a1 := set_inuse a (bm_set (a_inuse a) (fbase + pos) claimed)).
        rewrite (arena_purge_range_all cfg oracle o a1 (fbase + pos) claimed Cl) by (intros j Hj; cbn; apply O2; lia).
        cbn [fst snd].
        destruct (arena_purge_eff cfg oracle o a1 (fbase + pos) claimed) as (F & E1 & E2 & E3 & _ & _). cbv zeta in F, E1, E2, E3.
        assert (Hg1 : arena_geom a1) by exact Hg.
        destruct (arena_purge_calls o a1 (fbase + pos) claimed Hg1 Cl) as (C1 & C2).
        { change (a_field_count a1) with (a_field_count a). lia. }
        set (o2 := fst (arena_purge cfg oracle o a1 (fbase + pos) claimed)) in *.
        set (a2 := snd (arena_purge cfg oracle o a1 (fbase + pos) claimed)) in *.
        set (a3 := set_inuse a2 (bm_clear (a_inuse a2) (fbase + pos) claimed)).
        assert (In3 : a_inuse a3 = a_inuse a).
        { unfold a3. cbn [a_inuse set_inuse]. rewrite E1. unfold a1. cbn [a_inuse set_inuse].
          apply set_clear_id. intros b B1 B2. replace b with (fbase + pos + (b - (fbase + pos))) by lia. apply Z2. lia. }
        assert (Pu3 : a_purge a3 = bm_clear (a_purge a) (fbase + pos) claimed) by (unfold a3; cbn; rewrite E3; reflexivity).
        assert (F3 : aframe a a3).
        { unfold a3. destruct F as (F1 & F2 & F3 & F4). unfold a1 in *. cbn in *. repeat split; assumption. }
        assert (St3 : a_start a3 = a_start a) by (destruct F3 as (X & _); exact X).
        assert (Fc3 : a_field_count a3 = a_field_count a) by (destruct F3 as (_ & _ & X & _); exact X).
        destruct (IH o2 a3 fbase (pos + 1) claimed true (full && true) ltac:(lia) (arena_geom_frame _ _ F3 Hg) ltac:(rewrite Fc3; exact Hf))
          as (I1 & I2). cbv zeta in *.
        split; [eapply cext_trans; eassumption|].
        intros b B1' B2 Hp Hi. assert (B1 : fbase + pos <= b) by lia.
        destruct (N.lt_ge_cases b (fbase + pos + claimed)) as [Lt|Ge].
        -- apply (covered_mono _ o2); [exact I1|]. exists (fbase + pos), claimed. split; [lia|]. split; [lia|].
           change (a_start a1) with (a_start a) in C2. exact C2.
        -- destruct (N.eq_dec b (fbase + pos + claimed)) as [Eb|Nb]; [exfalso; eapply Hend; eauto|].
           rewrite <- St3. apply I2; [lia|exact B2| |rewrite In3; exact Hi].
           rewrite Pu3, bm_clear_bit, Hp.
           assert (R : ((fbase + pos <=? b) && (b <? fbase + pos + claimed)) = false) by (apply not_in_range_b; lia).
           rewrite R. reflexivity.
      * apply N.ltb_ge in Cl. assert (Cl0 : claimed = 0) by lia.
        destruct (IH o a fbase (pos + 1) 0 any full ltac:(lia) Hg Hf) as (I1 & I2). cbv zeta in *.
        split; [exact I1|]. intros b B1' B2 Hp Hi. assert (B1 : fbase + pos <= b) by lia.
        destruct (N.eq_dec b (fbase + pos)) as [Eb|Nb]; [exfalso; apply (Hend b); auto; lia|].
        apply I2; auto. lia.
Qed.

(* the loop over the fields i, i+1, ..., i+n-1 *)
Lemma fields_loop_calls n : forall o a i any full,
  arena_geom a -> i + N.of_nat n <= a_field_count a ->
  let r := fields_loop cfg oracle n o a i any full in
  let o' := fst (fst (fst r)) in
  cext o o' /\
  (forall b, i * 64 <= b -> b < (i + N.of_nat n) * 64 -> N.testbit (a_purge a) b = true -> N.testbit (a_inuse a) b = false ->
             covered (a_start a) o' b).
Proof.
  induction n as [|n IH]; intros o a i any full Hg Hi; cbn [fields_loop].
  - cbv zeta. cbn [fst]. split; [apply cext_refl|]. intros b B1 B2. lia.
  - destruct (N.land (N.shiftr (a_purge a) (i * BFIELD)) (N.ones BFIELD) =? 0) eqn:Z.
    + apply N.eqb_eq in Z. pose proof (field_word_zero _ _ Z) as Hz.
      destruct (IH o a (i + 1) any full Hg ltac:(lia)) as (I1 & I2). cbv zeta in *.
      split; [exact I1|]. intros b B1 B2 Hp Hu.
      destruct (N.lt_ge_cases b (i * 64 + 64)) as [L|G]; [rewrite (Hz b) in Hp by lia; discriminate|].
      apply I2; auto; lia.
    + destruct (field_scan_spec cfg oracle BFIELD_nat o a (i * BFIELD) 0 0 any full) as (S1 & S2 & S3 & S4 & S5 & _).
      { rewrite BFIELD_nat_N. reflexivity. }
      { intros b B1 B2 B3. lia. }
      destruct (field_scan_calls BFIELD_nat o a (i * BFIELD) 0 0 any full) as (C1 & C2).
      { rewrite BFIELD_nat_N. reflexivity. }
      { exact Hg. }
      { rewrite BFIELD_val. lia. }
      cbv zeta in S1, S2, S3, S4, S5, C1, C2. rewrite BFIELD_val in *.
      destruct (field_scan cfg oracle BFIELD_nat o a (i * 64) 0 0 any full) as [[[o1 a1] any1] full1]. cbn [fst snd] in *.
      assert (St1 : a_start a1 = a_start a) by (destruct S1 as (X & _); exact X).
      assert (Fc1 : a_field_count a1 = a_field_count a) by (destruct S1 as (_ & _ & X & _); exact X).
      destruct (IH o1 a1 (i + 1) any1 full1 (arena_geom_frame _ _ S1 Hg) ltac:(rewrite Fc1; lia)) as (I1 & I2). cbv zeta in *.
      split; [eapply cext_trans; eassumption|]. intros b B1 B2 Hp Hu.
      destruct (N.lt_ge_cases b (i * 64 + 64)) as [L|G].
      * apply (covered_mono _ o1); [exact I1|]. apply C2; auto; lia.
      * rewrite <- St1. apply I2; [lia|lia| |rewrite S2; exact Hu]. rewrite S5 by lia. exact Hp.
Qed.

(* arena_try_purge_calls (the statement that was open in Proofs/OsOpen.v with the geometry of a real arena as hypotheses: page-aligned start,
   no wrap-around, the bitmap fields cover the blocks) *)
Theorem arena_try_purge_calls o a now force :
  a_pinned a = false -> arena_geom a -> a_block_count a <= a_field_count a * 64 ->
  force = true \/ (a_expire a <> 0%Z /\ (a_expire a <= now)%Z) ->
  forall b, b < a_block_count a -> N.testbit (a_purge a) b = true -> N.testbit (a_inuse a) b = false ->
  exists i c, i <= b /\ b < i + c /\
    In (KMadvise, a_start a + i * BLOCK, c * BLOCK, MADV_DONTNEED_) (calls (fst (fst (arena_try_purge cfg oracle o a now force)))).
Proof.
  intros Hp Hg Hbc Hw b Hb Hpu Hiu. unfold arena_try_purge. rewrite Hp.
  assert (E : negb force && ((a_expire a =? 0)%Z || (now <? a_expire a)%Z) = false).
  { destruct Hw as [->|[H1 H2]]; [reflexivity|]. apply andb_false_intro2. apply orb_false_intro; [apply Z.eqb_neq|apply Z.ltb_ge]; assumption. }
  rewrite E.
  destruct (fields_loop_calls (N.to_nat (a_field_count a)) o (set_aexpire a 0%Z) 0 false true) as (C1 & C2).
  { exact Hg. }
  { rewrite N2Nat.id. cbn. lia. }
  cbv zeta in C1, C2. rewrite N2Nat.id in C2.
  destruct (fields_loop cfg oracle (N.to_nat (a_field_count a)) o (set_aexpire a 0%Z) 0 false true) as [[[o1 a1] any1] full1].
  cbn [fst snd] in *. apply (C2 b); [lia|lia|exact Hpu|exact Hiu].
Qed.
End WithOracle.

(* ---- why the geometry hypotheses: the statement as it stood in Proofs/OsOpen.v (removed) (any arena record) is false in the model for
   an arena whose start is not page-aligned: _mi_os_purge rounds the range inwards to whole pages, so the madvise is issued
   at the next page boundary with a shorter length.  mi_manage_os_memory_ex2 aligns the start of every arena to
   MI_SEGMENT_ALIGN and sets field_count = divide_up(block_count, 64), so this is a defect of the statement, not of the code. *)
Definition arena_try_purge_calls_any_arena : Prop :=
  forall cfg oracle o a now force,
    a_pinned a = false -> (0 <= purge_delay cfg)%Z -> purge_decommits cfg = true ->
    force = true \/ (a_expire a <> 0%Z /\ (a_expire a <= now)%Z) ->
    forall b, b < a_block_count a -> N.testbit (a_purge a) b = true -> N.testbit (a_inuse a) b = false ->
    exists i c, i <= b /\ b < i + c /\
      In (KMadvise, a_start a + i * BLOCK, c * BLOCK, MADV_DONTNEED_) (calls (fst (fst (arena_try_purge cfg oracle o a now force)))).

Definition odd_arena : arena :=
  {| a_start := 1099511627777 (* 2^40 + 1 *); a_block_count := 4; a_field_count := 1; a_inuse := N.ones 64 - 14; a_committed := N.ones 64;
     a_purge := 2; a_expire := 0%Z; a_pinned := false |}.

(* the one call of a forced visit: madvise(2^40 + BLOCK + 4096, BLOCK - 4096, MADV_DONTNEED) *)
Lemma odd_arena_calls :
  calls (fst (fst (arena_try_purge default_cfg wit_oracle wit_os odd_arena 0%Z true))) = [(KMadvise, 1099545186304, 33550336, MADV_DONTNEED_)].
Proof. vm_compute. reflexivity. Qed.

Lemma arena_try_purge_calls_any_arena_refuted : ~ arena_try_purge_calls_any_arena.
Proof.
  intros H.
  assert (Hd : (0 <= purge_delay default_cfg)%Z) by (vm_compute; discriminate).
  assert (Hb : 1 < a_block_count odd_arena) by reflexivity.
  assert (Hp : N.testbit (a_purge odd_arena) 1 = true) by reflexivity.
  assert (Hi : N.testbit (a_inuse odd_arena) 1 = false) by reflexivity.
  destruct (H default_cfg wit_oracle wit_os odd_arena 0%Z true eq_refl Hd eq_refl (or_introl eq_refl) 1 Hb Hp Hi) as (i & c & H1 & H2 & H3).
  rewrite odd_arena_calls in H3. destruct H3 as [H3|[]].
  apply (f_equal (fun t : pkind * N * N * N => snd (fst t))) in H3. cbn [fst snd] in H3. clear - H3. rewrite BLOCK_val in H3. lia.
Qed.

(* the hypotheses of arena_try_purge_calls are satisfiable: blocks 0 and 1 of an arena scheduled and free, one madvise of both *)
Example ex_arena_calls_hyps :
  let a := {| a_start := 2 ^ 40; a_block_count := 32; a_field_count := 1; a_inuse := N.ones 64 - N.ones 32; a_committed := N.ones 64;
              a_purge := 3; a_expire := 1000150%Z; a_pinned := false |} in
  arena_geom a /\ a_block_count a <= a_field_count a * 64 /\ (0 <= purge_delay default_cfg)%Z /\ purge_decommits default_cfg = true /\
  N.testbit (a_purge a) 1 = true /\ N.testbit (a_inuse a) 1 = false /\
  calls (fst (fst (arena_try_purge default_cfg wit_oracle wit1_os a 1000150 false))) = [(KMadvise, 2 ^ 40, 2 * BLOCK, MADV_DONTNEED_)].
Proof.
  cbv zeta. split; [unfold arena_geom; vm_compute; repeat split; reflexivity|]. split; [vm_compute; discriminate|].
  split; [vm_compute; discriminate|]. repeat split; vm_compute; reflexivity.
Qed.
