(* Property C11 on the commit model (Model/Commit.v): freed memory is given back.

   commit_Inv (Proofs/CommitInv.v) relates the arena in-use bitmap and the OS-backed ranges to the segment list in ONE
   direction only: I_wf says that the blocks of every segment (I_raw: of every raw allocation) are marked in use and
   that an OS-backed segment lies outside the arena; I_own that owners are disjoint.  Nothing in commit_Inv says that
   an in-use block HAS an owner, or that accessible memory outside the arena belongs to a segment.  These converse
   clauses are the invariant gb_extra of this file:
     (U) inuse_owned  : every in-use arena block belongs to a segment (through its memid) or to a raw allocation;
     (O) acc_covered  : every accessible slice lies in the arena or inside a segment -- kept as long as every munmap
                        the run asked for was granted (u = true);
     (P) purge_cfg_ok : when the configuration never schedules arena purges (purge_delay < 0, or arena purge delay 0)
                        no purge bit is ever set;
     the arena keeps its geometry (start, block count, zero flag).
   gb_extra is preserved, together with commit_Inv, by every operation for every oracle (step_gb, run_gb); with
   C07_no_unused_segment_from_init it gives all_freed_gives_back and workload_fixpoint. *)
From Coq Require Import NArith Lia Bool List.
From MiV Require Import Gen.Consts Model.Commit Model.GiveBack Proofs.CommitBase Proofs.CommitInv Proofs.CommitStep Proofs.CommitProofs.
Import ListNotations.
Local Open Scope N_scope.
Local Open Scope bool_scope.

(* ---------------------------------------------------------------- the converse ownership clauses *)
Definition owned_by (segs : list segment) (raws : list (N * N)) (b : N) : Prop :=
  (exists s b0 nb, In s segs /\ sg_mem s = MemArena b0 nb /\ b0 <= b < b0 + nb) \/
  (exists r, In r raws /\ fst r <= b < fst r + snd r).
Definition inuse_owned (st : state) : Prop :=
  forall b, a_inuse (st_arena st) b = true -> owned_by (st_segs st) (st_raw st) b.

Definition in_seg (s : segment) (x : N) : Prop := sg_base s <= x < sg_base s + sg_nslices s.
Definition covered (a : arena) (segs : list segment) (x : N) : Prop :=
  in_arena a x \/ exists s, In s segs /\ in_seg s x.
Definition acc_covered (st : state) : Prop :=
  forall x, st_acc st x = true -> covered (st_arena st) (st_segs st) x.

(* the configuration never schedules an arena purge: mi_arena_purge_delay() < 0, or = 0 (blocks are purged when freed) *)
Definition no_sched (c : cfg) : Prop := c_allow_purge c = false \/ c_arena_purge_now c = true.
Definition purge_cfg_ok (c : cfg) (st : state) : Prop := no_sched c -> forall b, a_purge (st_arena st) b = false.

Record gb_extra (c : cfg) (u : bool) (a0 : arena) (st : state) : Prop := {
  X_sh : same_arena_shape a0 (st_arena st);
  X_U : inuse_owned st;
  X_P : purge_cfg_ok c st;
  X_O : u = true -> acc_covered st
}.

Lemma same_arena_shape_refl a : same_arena_shape a a.
Proof. unfold same_arena_shape. auto. Qed.
Lemma same_arena_shape_trans a b c : same_arena_shape a b -> same_arena_shape b c -> same_arena_shape a c.
Proof. unfold same_arena_shape. intros [? [? ?]] [? [? ?]]. repeat split; congruence. Qed.
Lemma in_arena_shape a a' x : same_arena_shape a a' -> in_arena a x -> in_arena a' x.
Proof. intros [H1 [H2 _]]. unfold in_arena. rewrite H1, H2. auto. Qed.

(* the general introduction rule: what a transition has to show *)
Lemma gb_intro c u a0 st a' segs' live' raws' acc' :
  gb_extra c u a0 st ->
  same_arena_shape (st_arena st) a' ->
  (forall b, a_inuse a' b = true ->
     owned_by segs' raws' b \/
     (a_inuse (st_arena st) b = true /\ (owned_by (st_segs st) (st_raw st) b -> owned_by segs' raws' b))) ->
  (no_sched c -> forall b, a_purge a' b = true -> a_purge (st_arena st) b = true) ->
  (u = true -> forall x, acc' x = true ->
     covered a' segs' x \/
     (st_acc st x = true /\ (covered (st_arena st) (st_segs st) x -> covered a' segs' x))) ->
  gb_extra c u a0 (mk a' segs' live' raws' acc').
Proof.
  intros [Hsh HU HP HO] Hs Hu Hp Ho.
  constructor; unfold inuse_owned, purge_cfg_ok, acc_covered; cbn [st_arena st_segs st_live st_raw st_acc mk].
  - eapply same_arena_shape_trans; eauto.
  - intros b Hb. destruct (Hu b Hb) as [G|[G1 G2]]; [exact G|]. apply G2. apply HU. exact G1.
  - intros Hn b. destruct (a_purge a' b) eqn:E; [|reflexivity]. apply (Hp Hn) in E. rewrite (HP Hn b) in E. discriminate.
  - intros Hu' x Hx. destruct (Ho Hu' x Hx) as [G|[G1 G2]]; [exact G|]. apply G2. apply (HO Hu'). exact G1.
Qed.

(* ---------------------------------------------------------------- monotonicity of owned_by / covered *)
Lemma owned_by_cons s segs raws b : owned_by segs raws b -> owned_by (s :: segs) raws b.
Proof.
  intros [[s0 [b0 [nb [H1 [H2 H3]]]]]|H]; [left|right; exact H]. exists s0, b0, nb. split; [right; exact H1|auto].
Qed.
Lemma owned_by_cons_raw r segs raws b : owned_by segs raws b -> owned_by segs (r :: raws) b.
Proof.
  intros [H|[r0 [H1 H2]]]; [left; exact H|right]. exists r0. split; [right; exact H1|exact H2].
Qed.
Lemma owned_by_new_seg s segs raws b b0 nb : sg_mem s = MemArena b0 nb -> b0 <= b < b0 + nb -> owned_by (s :: segs) raws b.
Proof. intros Hm Hb. left. exists s, b0, nb. split; [left; reflexivity|auto]. Qed.
Lemma covered_cons a s segs x : covered a segs x -> covered a (s :: segs) x.
Proof. intros [H|[s0 [H1 H2]]]; [left; exact H|right]. exists s0. split; [right; exact H1|exact H2]. Qed.
Lemma covered_shape a a' segs x : same_arena_shape a a' -> covered a segs x -> covered a' segs x.
Proof. intros Hs [H|H]; [left; eapply in_arena_shape; eauto|right; exact H]. Qed.

Lemma in_replace_of s' l x : In x l -> In (if sg_base x =? sg_base s' then s' else x) (replace_seg s' l).
Proof. intros H. unfold replace_seg. apply in_map_iff. exists x. auto. Qed.

Section Owners.
Variable st : state.
Hypothesis HI : commit_Inv st.

(* the slices of a segment whose memory comes from the arena lie in the arena *)
Lemma arena_seg_in_arena s b0 nb x :
  In s (st_segs st) -> sg_mem s = MemArena b0 nb -> in_seg s x -> in_arena (st_arena st) x.
Proof.
  intros Hs Hm Hx. pose proof (seg_wf_in st HI s Hs) as Hw. unfold seg_wf in Hw. rewrite Hm in Hw.
  destruct Hw as [_ [_ [_ [Hbase [Hr [Hcov _]]]]]]. unfold in_seg in Hx. unfold in_arena. rewrite Hbase in Hx.
  unfold block_slice in *. rewrite BLOCK_SLICES_val in *. nia.
Qed.

Lemma owned_by_replace s s' raws b :
  In s (st_segs st) -> same_seg_shape s s' ->
  owned_by (st_segs st) raws b -> owned_by (replace_seg s' (st_segs st)) raws b.
Proof.
  intros Hin Hsh [[s0 [b0 [nb [H1 [H2 H3]]]]]|H]; [left|right; exact H].
  pose proof (in_replace_of s' _ _ H1) as Hr. destruct (sg_base s0 =? sg_base s') eqn:E.
  - b2p. rewrite (same_base_is_s st HI s s' Hin Hsh s0 H1 E) in *. exists s', b0, nb. split; [exact Hr|].
    destruct Hsh as [_ [_ [_ [_ Hm]]]]. rewrite Hm. auto.
  - exists s0, b0, nb. auto.
Qed.
Lemma covered_replace s s' x :
  In s (st_segs st) -> same_seg_shape s s' ->
  covered (st_arena st) (st_segs st) x -> covered (st_arena st) (replace_seg s' (st_segs st)) x.
Proof.
  intros Hin Hsh [H|[s0 [H1 H2]]]; [left; exact H|right].
  pose proof (in_replace_of s' _ _ H1) as Hr. destruct (sg_base s0 =? sg_base s') eqn:E.
  - b2p. rewrite (same_base_is_s st HI s s' Hin Hsh s0 H1 E) in *. exists s'. split; [exact Hr|].
    destruct Hsh as [Eb [En _]]. unfold in_seg in *. rewrite Eb, En. exact H2.
  - exists s0. auto.
Qed.
Lemma covered_in_replaced s s' x :
  In s (st_segs st) -> same_seg_shape s s' -> in_seg s x -> covered (st_arena st) (replace_seg s' (st_segs st)) x.
Proof. intros Hin Hsh Hx. apply (covered_replace s s' x Hin Hsh). right. exists s. auto. Qed.

(* removing the segment s: what it owned is no longer owned, everything else is *)
Lemma owned_by_remove s raws b :
  In s (st_segs st) ->
  (forall b0 nb, sg_mem s = MemArena b0 nb -> ~ (b0 <= b < b0 + nb)) ->
  owned_by (st_segs st) raws b -> owned_by (remove_seg (sg_base s) (st_segs st)) raws b.
Proof.
  intros Hin Hnot [[s0 [b0 [nb [H1 [H2 H3]]]]]|H]; [left|right; exact H].
  exists s0, b0, nb. split; [|auto]. apply in_remove_seg. split; [exact H1|]. intros E.
  rewrite (seg_unique st HI s0 s H1 Hin E) in H2. exact (Hnot b0 nb H2 H3).
Qed.
Lemma covered_remove s a' x :
  In s (st_segs st) -> same_arena_shape (st_arena st) a' -> ~ in_seg s x ->
  covered (st_arena st) (st_segs st) x -> covered a' (remove_seg (sg_base s) (st_segs st)) x.
Proof.
  intros Hin Hsh Hnot [H|[s0 [H1 H2]]]; [left; eapply in_arena_shape; eauto|right].
  exists s0. split; [|exact H2]. apply in_remove_seg. split; [exact H1|]. intros E.
  rewrite (seg_unique st HI s0 s H1 Hin E) in H2. contradiction.
Qed.
End Owners.

(* ---------------------------------------------------------------- the purge bits of the arena primitives *)
Lemma arena_purge_bits c a acc b0 n o a' acc' o' :
  arena_purge c a acc b0 n o = (a', acc', o') -> a_purge a' = set_range (a_purge a) b0 n false.
Proof.
  unfold arena_purge. destruct (c_decommits c).
  - destruct (ask_cases o) as [g [o1 Ha]]. rewrite Ha. intros H. inversion H; subst. reflexivity.
  - intros H. inversion H; subst. reflexivity.
Qed.
Lemma set_range_false_dec f lo n i : set_range f lo n false i = true -> f i = true.
Proof. intros H. destruct (set_range_cases f lo n false i) as [[_ E]|[_ E]]; rewrite E in H; [discriminate|exact H]. Qed.

Lemma arena_free_purge_nosched c a acc b0 n allc o a' acc' o' :
  no_sched c -> arena_free c a acc b0 n allc o = (a', acc', o') -> forall b, a_purge a' b = true -> a_purge a b = true.
Proof.
  intros Hn. unfold arena_free.
  set (a1 := if allc then a else with_committed a (set_range (a_committed a) b0 n false)).
  assert (Hp1 : a_purge a1 = a_purge a) by (subst a1; destruct allc; reflexivity).
  destruct (negb (c_allow_purge c)) eqn:Ea.
  - intros H. inversion H; subst. cbn. rewrite Hp1. auto.
  - destruct (c_arena_purge_now c) eqn:Ep.
    + destruct (arena_purge c a1 acc b0 n o) as [[a2 acc2] o2] eqn:E2. intros H. inversion H; subst. cbn.
      rewrite (arena_purge_bits _ _ _ _ _ _ _ _ _ E2), Hp1. intros b. apply set_range_false_dec.
    + exfalso. apply negb_false_iff in Ea. destruct Hn; congruence.
Qed.

Lemma arena_purge_scan_purge_dec c fuel : forall a acc o i a' acc' o',
  arena_purge_scan fuel c a acc o i = (a', acc', o') -> forall b, a_purge a' b = true -> a_purge a b = true.
Proof.
  induction fuel as [|f IH]; intros a acc o i a' acc' o' H; cbn [arena_purge_scan] in H.
  - inversion H; subst. auto.
  - destruct (a_nblocks a <=? i); [inversion H; subst; auto|].
    match type of H with context [if ?len =? 0 then _ else _] => destruct (len =? 0) end; [eapply IH; eauto|].
    match type of H with context [arena_purge c a acc i ?len o] => destruct (arena_purge c a acc i len o) as [[a1 acc1] o1] eqn:Ep end.
    intros b Hb. apply (IH _ _ _ _ _ _ _ H) in Hb. rewrite (arena_purge_bits _ _ _ _ _ _ _ _ _ Ep) in Hb.
    eapply set_range_false_dec; eauto.
Qed.
Lemma arenas_try_purge_purge_dec c a acc o a' acc' o' :
  arenas_try_purge c a acc o = (a', acc', o') -> forall b, a_purge a' b = true -> a_purge a b = true.
Proof.
  unfold arenas_try_purge. destruct (negb (c_allow_purge c) || c_arena_purge_now c).
  - intros H. inversion H; subst. auto.
  - apply arena_purge_scan_purge_dec.
Qed.

(* os_alloc_commit touches the kernel only inside the new segment *)
Lemma os_alloc_commit_acc acc1 base nslices huge mc o r o2 :
  INFO_SLICES <= nslices -> os_alloc_commit acc1 base nslices huge mc o = (r, o2) ->
  match r with
  | Some (m, acc2) => forall x, acc2 x = true -> acc1 x = true \/ base <= x < base + nslices
  | None => True
  end.
Proof.
  intros Hi. unfold os_alloc_commit. destruct mc.
  - intros H. inversion H; subst. auto.
  - destruct (ask_cases o) as [g [o1 Ha]]. rewrite Ha. destruct g; intros H; inversion H; subst; [|exact I].
    intros x Hx. destruct (set_range_cases acc1 base (if huge then nslices else INFO_SLICES) true x) as [[Hr _]|[_ E]].
    + right. destruct huge; lia.
    + left. rewrite <- E. exact Hx.
Qed.

(* ---------------------------------------------------------------- the combined invariant *)
Definition GB (c : cfg) (u : bool) (a0 : arena) (st : state) : Prop := commit_Inv st /\ gb_extra c u a0 st.

(* a segment of the state is replaced by one of the same shape; the kernel gains accessibility only inside it *)
Lemma replace_gb c u a0 st s s' live' acc' :
  commit_Inv st -> gb_extra c u a0 st -> In s (st_segs st) -> same_seg_shape s s' ->
  (forall x, acc' x = true -> st_acc st x = true \/ in_seg s x) ->
  gb_extra c u a0 (mk (st_arena st) (replace_seg s' (st_segs st)) live' (st_raw st) acc').
Proof.
  intros HI HX Hin Hsh Hacc. apply (gb_intro c u a0 st); auto using same_arena_shape_refl.
  - intros b Hb. right. split; [exact Hb|]. apply (owned_by_replace st HI s s'); assumption.
  - intros _ x Hx. destruct (Hacc x Hx) as [G|G].
    + right. split; [exact G|]. apply (covered_replace st HI s s'); assumption.
    + left. apply (covered_in_replaced st HI s s'); assumption.
Qed.

Lemma commit_like_acc lo n s acc s' acc' ok :
  commit_like lo n s acc s' acc' ok -> forall x, acc' x = true -> acc x = true \/ in_seg s x.
Proof.
  intros HC x Hx.
  destruct (in_range (sg_base s + lo) n x && (x <? sg_base s + sg_nslices s)) eqn:E.
  - b2p. apply in_range_spec in H. right. unfold in_seg. lia.
  - left. rewrite <- (cl_acc_frame _ _ _ _ _ _ _ HC x); [exact Hx|].
    intros [H1 H2]. apply andb_false_iff in E. destruct E as [E|E].
    + apply in_range_false in E. apply E. lia.
    + b2p. lia.
Qed.

Lemma pfa_gb c u a0 st base lo n clo cn o st' r o' :
  GB c u a0 st -> page_find_and_allocate c st base lo n clo cn o = Some (st', r, o') -> GB c u a0 st'.
Proof.
  intros [HI HX] H. split; [exact (proj1 (pfa_inv _ _ _ _ _ _ _ _ _ _ _ HI H))|].
  unfold page_find_and_allocate in H. destruct (find_seg base (st_segs st)) as [s|] eqn:Ef; [|discriminate].
  apply find_seg_some in Ef. destruct Ef as [Hs Hb].
  match type of H with context [if ?c then None else _] => destruct c end; [discriminate|].
  destruct (span_allocate s (st_acc st) lo n o) as [[r1 acc1] o1] eqn:Ea.
  pose proof (span_allocate_spec _ _ _ _ _ _ _ _ Ea) as Hsp. destruct r1 as [s1|].
  - destruct Hsp as [HC _]. inversion H; subst; clear H.
    apply (replace_gb c u a0 st s s1); auto; [exact (cl_shape _ _ _ _ _ _ _ HC)|exact (commit_like_acc _ _ _ _ _ _ _ HC)].
  - destruct Hsp as [-> _].
    destruct (span_free c s (st_acc st) clo cn true o1) as [[s2 acc2] o2] eqn:Esf. inversion H; subst; clear H.
    apply span_free_spec in Esf.
    apply (replace_gb c u a0 st s s2); auto; [exact (pl_shape _ _ _ _ _ Esf)|].
    intros x Hx. left. exact (pl_acc_dec _ _ _ _ _ Esf x Hx).
Qed.

(* ---------------------------------------------------------------- new segments *)
Lemma block_range_in_arena a b0 n x :
  b0 + n <= a_nblocks a -> block_slice a b0 <= x < block_slice a b0 + n * BLOCK_SLICES -> in_arena a x.
Proof. unfold in_arena, block_slice. rewrite BLOCK_SLICES_val. intros. nia. Qed.

Lemma segment_alloc_arena_gb c u a0 st b0 nslices huge commit o st' r o' :
  GB c u a0 st -> INFO_SLICES < nslices -> (huge = false -> nslices = MASK_BITS) ->
  segment_alloc_arena c st b0 nslices huge commit o = Some (st', r, o') -> GB c u a0 st'.
Proof.
  intros [HI HX] Hinfo Hn H. split; [exact (proj1 (segment_alloc_arena_inv _ _ _ _ _ _ _ _ _ _ HI Hinfo Hn H))|].
  unfold segment_alloc_arena in H.
  set (nb := (nslices + BLOCK_SLICES - 1) / BLOCK_SLICES) in *.
  destruct (arena_try_alloc_at (st_arena st) (st_acc st) b0 nb commit o) as [[[[[mc z] a1] acc1] o1]|] eqn:Ea; [|discriminate].
  apply arena_try_alloc_at_spec in Ea.
  destruct Ea as [Hnb [Hr [Hf [Hsh [Hiu [Hpu [_ [_ [Hframe _]]]]]]]]].
  assert (Hacc1 : forall x, acc1 x = true -> st_acc st x = true \/ in_arena (st_arena st) x).
  { intros x Hx. destruct (in_range (block_slice (st_arena st) b0) (nb * BLOCK_SLICES) x) eqn:E.
    - apply in_range_spec in E. right. eapply block_range_in_arena; eauto.
    - apply in_range_false in E. left. rewrite <- (Hframe x E). exact Hx. }
  destruct (os_alloc_commit acc1 (block_slice (st_arena st) b0) nslices huge mc o1) as [[[m acc2]|] o2] eqn:Eo.
  - inversion H; subst; clear H.
    assert (Hle : INFO_SLICES <= nslices) by lia. pose proof (os_alloc_commit_acc _ _ _ _ _ _ _ _ Hle Eo) as Hacc2. cbv beta iota in Hacc2.
    set (snew := new_segment (block_slice (st_arena st) b0) nslices huge m (MemArena b0 nb)).
    apply (gb_intro c u a0 st); auto.
    + intros b Hb. rewrite Hiu in Hb. destruct (set_range_cases (a_inuse (st_arena st)) b0 nb true b) as [[Hin _]|[_ E]].
      * left. apply (owned_by_new_seg snew _ _ b b0 nb); [reflexivity|exact Hin].
      * rewrite E in Hb. right. split; [exact Hb|apply owned_by_cons].
    + intros _ b Hb. rewrite Hpu in Hb. eapply set_range_false_dec; eauto.
    + intros _ x Hx. destruct (Hacc2 x Hx) as [G|G].
      * destruct (Hacc1 x G) as [G1|G1].
        -- right. split; [exact G1|]. intros Hc. apply covered_cons. eapply covered_shape; eauto.
        -- left. left. eapply in_arena_shape; eauto.
      * left. right. exists snew. split; [left; reflexivity|exact G].
  - destruct (arena_free c a1 acc1 b0 nb false o2) as [[a3 acc3] o3] eqn:Ef. inversion H; subst; clear H.
    pose proof (arena_free_spec _ _ _ _ _ _ _ _ _ _ Ef) as [HR [Hi3 _]].
    pose proof (ar_shape _ _ _ _ _ HR) as Hsh3.
    apply (gb_intro c u a0 st); auto.
    + eapply same_arena_shape_trans; eauto.
    + intros b Hb. rewrite Hi3 in Hb. destruct (set_range_cases (a_inuse a1) b0 nb false b) as [[_ E]|[Hout E]]; rewrite E in Hb; [discriminate|].
      rewrite Hiu in Hb. rewrite set_range_out in Hb by exact Hout. right. auto.
    + intros Hns b Hb. apply (arena_free_purge_nosched _ _ _ _ _ _ _ _ _ _ Hns Ef) in Hb. rewrite Hpu in Hb. eapply set_range_false_dec; eauto.
    + intros _ x Hx. apply (ar_acc_dec _ _ _ _ _ HR) in Hx. destruct (Hacc1 x Hx) as [G|G].
      * right. split; [exact G|]. intros Hc. eapply covered_shape; [|exact Hc]. eapply same_arena_shape_trans; eauto.
      * left. left. eapply in_arena_shape; [|exact G]. eapply same_arena_shape_trans; eauto.
Qed.

Lemma segment_alloc_os_gb c u a0 st addr nslices huge commit unmap_ok o st' r o' :
  GB c u a0 st -> INFO_SLICES < nslices -> (huge = false -> nslices = MASK_BITS) -> (u = true -> unmap_ok = true) ->
  segment_alloc_os st addr nslices huge commit unmap_ok o = Some (st', r, o') -> GB c u a0 st'.
Proof.
  intros [HI HX] Hinfo Hn Hu H. split; [exact (proj1 (segment_alloc_os_inv _ _ _ _ _ _ _ _ _ _ HI Hinfo Hn H))|].
  unfold segment_alloc_os in H.
  match type of H with context [if ?c then None else _] => destruct c end; [discriminate|].
  set (acc1 := set_range (st_acc st) addr nslices commit) in *.
  assert (Hacc1 : forall x, acc1 x = true -> st_acc st x = true \/ addr <= x < addr + nslices).
  { intros x Hx. subst acc1. destruct (set_range_cases (st_acc st) addr nslices commit x) as [[Hin _]|[_ E]]; [right; exact Hin|left; rewrite <- E; exact Hx]. }
  destruct (os_alloc_commit acc1 addr nslices huge commit o) as [[[m acc2]|] o2] eqn:Eo.
  - inversion H; subst; clear H.
    assert (Hle : INFO_SLICES <= nslices) by lia. pose proof (os_alloc_commit_acc _ _ _ _ _ _ _ _ Hle Eo) as Hacc2. cbv beta iota in Hacc2.
    set (snew := new_segment addr nslices huge m MemOs).
    assert (Hnew : forall x, addr <= x < addr + nslices -> covered (st_arena st) (snew :: st_segs st) x)
      by (intros x Hx; right; exists snew; split; [left; reflexivity|exact Hx]).
    apply (gb_intro c u a0 st); auto using same_arena_shape_refl.
    + intros b Hb. right. split; [exact Hb|apply owned_by_cons].
    + intros _ x Hx. destruct (Hacc2 x Hx) as [G|G]; [|left; apply Hnew; exact G].
      destruct (Hacc1 x G) as [G1|G1]; [|left; apply Hnew; exact G1].
      right. split; [exact G1|apply covered_cons].
  - inversion H; subst; clear H. rewrite <- (mk_eta st) at 1.
    apply (gb_intro c u a0 st); auto using same_arena_shape_refl.
    intros Hu' x Hx. rewrite (Hu Hu') in Hx.
    destruct (set_range_cases acc1 addr nslices false x) as [[_ E]|[Hout E]]; rewrite E in Hx; [discriminate|].
    destruct (Hacc1 x Hx) as [G|G]; [|contradiction]. right. auto.
Qed.

(* ---------------------------------------------------------------- releasing a segment *)
Lemma release_gb c u a0 st s unmap_ok o a' acc' o' :
  GB c u a0 st -> In s (st_segs st) -> seg_has_live (sg_base s) (st_live st) = false -> (u = true -> unmap_ok = true) ->
  segment_release c (st_arena st) (st_acc st) s unmap_ok o = (a', acc', o') ->
  GB c u a0 (mk a' (remove_seg (sg_base s) (st_segs st)) (st_live st) (st_raw st) acc').
Proof.
  intros [HI HX] Hs Hnl Hu H. split; [exact (inv_release c st s unmap_ok o a' acc' o' HI Hs Hnl H)|].
  unfold segment_release in H. destruct (sg_mem s) as [b0 nb|] eqn:Em.
  - pose proof (arena_free_spec _ _ _ _ _ _ _ _ _ _ H) as [HR [Hi _]]. pose proof (ar_shape _ _ _ _ _ HR) as Hsh.
    apply (gb_intro c u a0 st); auto.
    + intros b Hb. rewrite Hi in Hb. destruct (set_range_cases (a_inuse (st_arena st)) b0 nb false b) as [[_ E]|[Hout E]]; rewrite E in Hb; [discriminate|].
      right. split; [exact Hb|]. apply (owned_by_remove st HI s); [exact Hs|].
      intros b0' nb' Hm. rewrite Em in Hm. inversion Hm; subst. exact Hout.
    + intros Hns. exact (arena_free_purge_nosched _ _ _ _ _ _ _ _ _ _ Hns H).
    + intros _ x Hx. apply (ar_acc_dec _ _ _ _ _ HR) in Hx.
      destruct (in_range (sg_base s) (sg_nslices s) x) eqn:E.
      * apply in_range_spec in E. left. left. eapply in_arena_shape; [exact Hsh|]. eapply (arena_seg_in_arena st HI s); eauto.
      * apply in_range_false in E. right. split; [exact Hx|]. apply (covered_remove st HI s); assumption.
  - inversion H; subst; clear H.
    apply (gb_intro c u a0 st); auto using same_arena_shape_refl.
    + intros b Hb. right. split; [exact Hb|]. apply (owned_by_remove st HI s); [exact Hs|]. intros b0 nb Hm. rewrite Em in Hm. discriminate.
    + intros Hu' x Hx. rewrite (Hu Hu') in Hx.
      destruct (set_range_cases (st_acc st) (sg_base s) (sg_nslices s) false x) as [[_ E]|[Hout E]]; rewrite E in Hx; [discriminate|].
      right. split; [exact Hx|]. apply (covered_remove st HI s); auto using same_arena_shape_refl.
Qed.

Lemma free_if_unused_gb c u a0 st base unmap_ok o st' o' :
  GB c u a0 st -> (u = true -> unmap_ok = true) -> free_if_unused c st base unmap_ok o = (st', o') -> GB c u a0 st'.
Proof.
  intros HG Hu. unfold free_if_unused. destruct (seg_has_live base (st_live st)) eqn:El.
  - intros H. inversion H; subst. exact HG.
  - destruct (find_seg base (st_segs st)) as [s|] eqn:Ef.
    + apply find_seg_some in Ef. destruct Ef as [Hs Hb].
      destruct (segment_release c (st_arena st) (st_acc st) s unmap_ok o) as [[a1 acc1] o1] eqn:Er.
      intros H. inversion H; subst; clear H.
      apply (release_gb c u a0 st s unmap_ok o a1 acc1 o' HG Hs El Hu Er).
    + intros H. inversion H; subst. exact HG.
Qed.

(* ---------------------------------------------------------------- page allocation *)
Lemma segments_page_alloc_gb c u a0 n commit ws : forall st o st' r o',
  GB c u a0 st -> (u = true -> forallb where_unmap_ok ws = true) ->
  segments_page_alloc c st n commit ws o = Some (st', r, o') -> GB c u a0 st'.
Proof.
  assert (Hsl : INFO_SLICES < MI_SLICES_PER_SEGMENT) by (rewrite INFO_SLICES_val, SLICES_PER_SEGMENT_val; lia).
  assert (Hmb : false = false -> MI_SLICES_PER_SEGMENT = MASK_BITS) by (intros _; rewrite MASK_BITS_val; reflexivity).
  induction ws as [|w rest IH]; intros st o st' r o' HG Hu H; cbn [segments_page_alloc] in H.
  - inversion H; subst. exact HG.
  - assert (Hu1 : u = true -> where_unmap_ok w = true) by (intros E; specialize (Hu E); cbn [forallb] in Hu; b2p; assumption).
    assert (Hu2 : u = true -> forallb where_unmap_ok rest = true) by (intros E; specialize (Hu E); cbn [forallb] in Hu; b2p; assumption).
    destruct w as [base lo clo cn|b0|[addr|] unmap_ok].
    + destruct (page_find_and_allocate c st base lo n clo cn o) as [[[st1 [p|]] o1]|] eqn:Ep; [| |discriminate].
      * inversion H; subst. eapply pfa_gb; eauto.
      * eapply IH; [eapply pfa_gb; eauto|exact Hu2|exact H].
    + destruct (segment_alloc_arena c st b0 MI_SLICES_PER_SEGMENT false commit o) as [[[st1 [s1|]] o1]|] eqn:Es; [| |discriminate].
      * pose proof (segment_alloc_arena_gb _ _ _ _ _ _ _ _ _ _ _ _ HG Hsl Hmb Es) as HG1.
        destruct (segments_page_alloc c st1 n commit rest o1) as [[[st2 r2] o2]|] eqn:Er; [|discriminate].
        destruct (free_if_unused c st2 (sg_base s1) true o2) as [st3 o3] eqn:Ef. inversion H; subst; clear H.
        apply (free_if_unused_gb c u a0 st2 (sg_base s1) true o2 st' o'); [eapply IH; eauto|auto|exact Ef].
      * inversion H; subst. exact (segment_alloc_arena_gb _ _ _ _ _ _ _ _ _ _ _ _ HG Hsl Hmb Es).
    + cbn [where_unmap_ok] in Hu1.
      destruct (segment_alloc_os st addr MI_SLICES_PER_SEGMENT false commit unmap_ok o) as [[[st1 [s1|]] o1]|] eqn:Es; [| |discriminate].
      * pose proof (segment_alloc_os_gb _ _ _ _ _ _ _ _ _ _ _ _ _ HG Hsl Hmb Hu1 Es) as HG1.
        destruct (segments_page_alloc c st1 n commit rest o1) as [[[st2 r2] o2]|] eqn:Er; [|discriminate].
        destruct (free_if_unused c st2 (sg_base s1) unmap_ok o2) as [st3 o3] eqn:Ef. inversion H; subst; clear H.
        apply (free_if_unused_gb c u a0 st2 (sg_base s1) unmap_ok o2 st' o'); [eapply IH; eauto|exact Hu1|exact Ef].
      * inversion H; subst. exact (segment_alloc_os_gb _ _ _ _ _ _ _ _ _ _ _ _ _ HG Hsl Hmb Hu1 Es).
    + inversion H; subst. exact HG.
Qed.

Lemma huge_page_alloc_gb c u a0 st n w o st' r o' :
  GB c u a0 st -> (u = true -> forallb where_unmap_ok w = true) ->
  huge_page_alloc c st n w o = Some (st', r, o') -> GB c u a0 st'.
Proof.
  intros HG Hu H. split; [exact (proj1 (huge_page_alloc_inv _ _ _ _ _ _ _ _ (proj1 HG) H))|].
  unfold huge_page_alloc in H. destruct (n =? 0) eqn:En; [discriminate|]. b2p.
  assert (Hsl : INFO_SLICES < INFO_SLICES + n) by lia.
  assert (Hmb : true = false -> INFO_SLICES + n = MASK_BITS) by discriminate.
  (* adding the page does not change what gb_extra speaks about *)
  assert (Hlive : forall st1 live', gb_extra c u a0 st1 -> gb_extra c u a0 (mk (st_arena st1) (st_segs st1) live' (st_raw st1) (st_acc st1))).
  { intros st1 live' [X1 X2 X3 X4]. constructor; auto. }
  destruct w as [|[base lo clo cn|b0|[addr|] unmap_ok] rest].
  - inversion H; subst. exact (proj2 HG).
  - discriminate.
  - destruct (segment_alloc_arena c st b0 (INFO_SLICES + n) true true o) as [[[st1 [s1|]] o1]|] eqn:Es; [| |discriminate];
      pose proof (segment_alloc_arena_gb _ _ _ _ _ _ _ _ _ _ _ _ HG Hsl Hmb Es) as [_ HX1]; inversion H; subst; auto.
  - assert (Hu1 : u = true -> unmap_ok = true) by (intros E; specialize (Hu E); cbn [forallb where_unmap_ok] in Hu; b2p; assumption).
    destruct (segment_alloc_os st addr (INFO_SLICES + n) true true unmap_ok o) as [[[st1 [s1|]] o1]|] eqn:Es; [| |discriminate];
      pose proof (segment_alloc_os_gb _ _ _ _ _ _ _ _ _ _ _ _ _ HG Hsl Hmb Hu1 Es) as [_ HX1]; inversion H; subst; auto.
  - inversion H; subst. exact (proj2 HG).
Qed.

Lemma page_alloc_gb c u a0 st n huge commit ws o st' r o' :
  GB c u a0 st -> (u = true -> forallb where_unmap_ok ws = true) ->
  page_alloc c st n huge commit ws o = Some (st', r, o') -> GB c u a0 st'.
Proof.
  intros HG Hu. unfold page_alloc. destruct huge; [apply huge_page_alloc_gb|apply segments_page_alloc_gb]; assumption.
Qed.

Lemma find_page_gb c u a0 n huge commit tries : forall st o st' r o',
  GB c u a0 st -> (u = true -> forallb (forallb where_unmap_ok) tries = true) ->
  find_page c st n huge commit tries o = Some (st', r, o') -> GB c u a0 st'.
Proof.
  induction tries as [|ws rest IH]; intros st o st' r o' HG Hu H; cbn [find_page] in H.
  - inversion H; subst. exact HG.
  - assert (Hu1 : u = true -> forallb where_unmap_ok ws = true) by (intros E; specialize (Hu E); cbn [forallb] in Hu; b2p; assumption).
    assert (Hu2 : u = true -> forallb (forallb where_unmap_ok) rest = true) by (intros E; specialize (Hu E); cbn [forallb] in Hu; b2p; assumption).
    destruct (page_alloc c st n huge commit ws o) as [[[st1 [p|]] o1]|] eqn:Ep; [| |discriminate].
    + inversion H; subst. eapply page_alloc_gb; eauto.
    + eapply IH; [eapply page_alloc_gb; eauto|exact Hu2|exact H].
Qed.

(* ---------------------------------------------------------------- purge and collect *)
Lemma seg_try_purge_at_gb c u a0 st base o st' o' :
  GB c u a0 st -> seg_try_purge_at c st base o = Some (st', o') -> GB c u a0 st'.
Proof.
  intros [HI HX] H. split; [exact (proj1 (seg_try_purge_at_inv _ _ _ _ _ _ HI H))|].
  unfold seg_try_purge_at in H. destruct (find_seg base (st_segs st)) as [s|] eqn:Ef; [|discriminate].
  apply find_seg_some in Ef. destruct Ef as [Hs _].
  destruct (segment_try_purge c s (st_acc st) o) as [[s1 acc1] o1] eqn:Ep. inversion H; subst; clear H.
  apply segment_try_purge_spec in Ep.
  apply (replace_gb c u a0 st s s1); auto; [exact (pl_shape _ _ _ _ _ Ep)|].
  intros x Hx. left. exact (pl_acc_dec _ _ _ _ _ Ep x Hx).
Qed.

Lemma arenas_purge_st_gb c u a0 st o st' o' :
  GB c u a0 st -> arenas_purge_st c st o = (st', o') -> GB c u a0 st'.
Proof.
  intros [HI HX] H. split; [exact (proj1 (arenas_purge_st_inv _ _ _ _ _ HI H))|].
  unfold arenas_purge_st in H. destruct (arenas_try_purge c (st_arena st) (st_acc st) o) as [[a1 acc1] o1] eqn:Ea.
  inversion H; subst; clear H.
  pose proof (arenas_try_purge_spec _ _ _ _ _ _ _ Ea) as [HR Hi].
  apply (gb_intro c u a0 st); auto.
  - exact (ar_shape _ _ _ _ _ HR).
  - intros b Hb. rewrite Hi in Hb. right. auto.
  - intros _. exact (arenas_try_purge_purge_dec _ _ _ _ _ _ _ Ea).
  - intros _ x Hx. apply (ar_acc_dec _ _ _ _ _ HR) in Hx. right. split; [exact Hx|].
    apply covered_shape. exact (ar_shape _ _ _ _ _ HR).
Qed.

Lemma collect_segs_gb c u a0 order : forall st o st' o',
  GB c u a0 st -> collect_segs c st order o = (st', o') -> GB c u a0 st'.
Proof.
  induction order as [|b rest IH]; intros st o st' o' HG H; cbn [collect_segs] in H.
  - inversion H; subst. exact HG.
  - destruct (seg_try_purge_at c st b o) as [[st1 o1]|] eqn:Ep.
    + eapply IH; [eapply seg_try_purge_at_gb; eauto|exact H].
    + eapply IH; eauto.
Qed.

Lemma collect_gb c u a0 st order o st' o' :
  GB c u a0 st -> collect c st order o = (st', o') -> GB c u a0 st'.
Proof.
  intros HG. unfold collect. destruct (collect_segs c st order o) as [st1 o1] eqn:Ec. intros H.
  eapply arenas_purge_st_gb; [eapply collect_segs_gb; eauto|exact H].
Qed.

(* ---------------------------------------------------------------- _mi_segment_page_free *)
Lemma gb_extra_live c u a0 st live' :
  gb_extra c u a0 st -> gb_extra c u a0 (mk (st_arena st) (st_segs st) live' (st_raw st) (st_acc st)).
Proof. intros [X1 X2 X3 X4]. constructor; auto. Qed.

Lemma free_page_gb c u a0 st p clo cn expired unmap_ok o st' o' :
  GB c u a0 st -> (u = true -> unmap_ok = true) ->
  free_page c st p clo cn expired unmap_ok o = Some (st', o') -> GB c u a0 st'.
Proof.
  intros [HI HX] Hu H. unfold free_page in H.
  destruct (existsb (page_eqb p) (st_live st)) eqn:Ep; cbn [negb] in H; [|discriminate].
  apply existsb_page_eqb in Ep.
  destruct (find_seg (pg_seg p) (st_segs st)) as [s|] eqn:Ef; [|discriminate].
  apply find_seg_some in Ef. destruct Ef as [Hs Hb].
  set (live' := remove_page p (st_live st)) in *.
  pose proof (inv_remove_page st p HI) as HI1. fold live' in HI1.
  set (st1 := mk (st_arena st) (st_segs st) live' (st_raw st) (st_acc st)) in *.
  assert (HG1 : GB c u a0 st1) by (split; [exact HI1|apply gb_extra_live; exact HX]).
  destruct (is_huge s) eqn:Eh.
  - destruct (segment_release c (st_arena st) (st_acc st) s unmap_ok o) as [[a1 acc1] o1] eqn:Er.
    inversion H; subst; clear H.
    apply (release_gb c u a0 st1 s unmap_ok o a1 acc1 o' HG1 Hs); [|exact Hu|exact Er].
    apply seg_has_live_false_iff. intros q Hq Eq. cbn [st_live st1 mk] in Hq. subst live'. apply in_remove_page in Hq. destruct Hq as [Hq Hne].
    apply Hne. pose proof (I_D1 st HI) as HD. rewrite Forall_forall in HD.
    destruct (HD q Hq) as [sq [Hfq [_ [_ [_ Hhq]]]]]. destruct (HD p Ep) as [sp [Hfp [_ [_ [_ Hhp]]]]].
    apply find_seg_some in Hfq. apply find_seg_some in Hfp. destruct Hfq as [Hq1 Hq2], Hfp as [Hp1 Hp2].
    assert (sq = s) by (apply (seg_unique st HI); auto; congruence). assert (sp = s) by (apply (seg_unique st HI); auto; congruence). subst sq sp.
    destruct (Hhq Eh) as [A1 A2], (Hhp Eh) as [B1 B2]. destruct p, q; cbn in *. f_equal; congruence.
  - match type of H with context [if ?c then None else _] => destruct c eqn:Ec end; [discriminate|].
    repeat (apply orb_false_iff in Ec; destruct Ec as [Ec ?]). b2p.
    destruct (span_free c s (st_acc st) clo cn true o) as [[s1 acc1] o1] eqn:Esf.
    pose proof (span_free_spec _ _ _ _ _ _ _ _ _ _ Esf) as HP1.
    set (st2 := mk (st_arena st) (replace_seg s1 (st_segs st)) live' (st_raw st) acc1) in *.
    assert (HG2 : GB c u a0 st2).
    { split.
      - apply (inv_purge_like st1 HI1 s s1 Hs (pl_shape _ _ _ _ _ HP1) (fun i => clo <= i < clo + cn)); [exact HP1|].
        intros _ i Hi _. cbn [st_live st1 mk]. eapply span_free_unused; eauto.
      - apply (replace_gb c u a0 st1 s s1 live' acc1 HI1 (proj2 HG1) Hs (pl_shape _ _ _ _ _ HP1)).
        intros x Hx. left. exact (pl_acc_dec _ _ _ _ _ HP1 x Hx). }
    assert (Hs1 : In s1 (st_segs st2)).
    { cbn [st_segs st2 mk]. unfold replace_seg. apply in_map_iff. exists s. split; [|exact Hs].
      destruct (pl_shape _ _ _ _ _ HP1) as [E _]. rewrite E, N.eqb_refl. reflexivity. }
    assert (Hb1 : sg_base s1 = sg_base s) by (destruct (pl_shape _ _ _ _ _ HP1) as [E _]; exact E).
    assert (Hrr : forall s2, sg_base s2 = sg_base s -> replace_seg s2 (replace_seg s1 (st_segs st)) = replace_seg s2 (st_segs st)).
    { intros s2 E2. unfold replace_seg. rewrite map_map. apply map_ext. intros x.
      destruct (sg_base x =? sg_base s1) eqn:E1; b2p.
      - rewrite E2, <- Hb1, N.eqb_refl. replace (sg_base x =? sg_base s1) with true by (symmetry; apply N.eqb_eq; exact E1). reflexivity.
      - reflexivity. }
    assert (HG3 : forall s2 acc2 o2, (if expired then segment_try_purge c s1 acc1 o1 else (s1, acc1, o1)) = (s2, acc2, o2) ->
                  GB c u a0 (mk (st_arena st) (replace_seg s2 (st_segs st)) live' (st_raw st) acc2) /\ sg_base s2 = sg_base s).
    { intros s2 acc2 o2 HH. destruct expired.
      - pose proof (segment_try_purge_spec _ _ _ _ _ _ _ HH) as HP2.
        assert (E2 : sg_base s2 = sg_base s) by (destruct (pl_shape _ _ _ _ _ HP2) as [E _]; congruence).
        split; [|exact E2]. rewrite <- (Hrr s2 E2). split.
        + apply (seg_try_purge_inv c st2 s1 o1 s2 acc2 o2 (proj1 HG2) Hs1 HH).
        + apply (replace_gb c u a0 st2 s1 s2 live' acc2 (proj1 HG2) (proj2 HG2) Hs1 (pl_shape _ _ _ _ _ HP2)).
          intros x Hx. left. exact (pl_acc_dec _ _ _ _ _ HP2 x Hx).
      - inversion HH; subst. split; [exact HG2|exact Hb1]. }
    destruct (if expired then segment_try_purge c s1 acc1 o1 else (s1, acc1, o1)) as [[s2 acc2] o2] eqn:E2.
    destruct (HG3 s2 acc2 o2 eq_refl) as [HG4 Hb2].
    destruct (seg_has_live (sg_base s) live') eqn:Elive.
    + inversion H; subst; clear H. exact HG4.
    + destruct (segment_release c (st_arena st) acc2 s2 unmap_ok o2) as [[a3 acc3] o3] eqn:Er.
      inversion H; subst; clear H.
      set (st4 := mk (st_arena st) (replace_seg s2 (st_segs st)) live' (st_raw st) acc2) in *.
      assert (Hs2 : In s2 (st_segs st4)).
      { cbn [st_segs st4 mk]. unfold replace_seg. apply in_map_iff. exists s. split; [|exact Hs]. rewrite Hb2, N.eqb_refl. reflexivity. }
      pose proof (release_gb c u a0 st4 s2 unmap_ok o2 a3 acc3 o' HG4 Hs2) as Hrel. cbn [st_arena st_segs st_live st_raw st_acc st4 mk] in Hrel.
      rewrite Hb2 in Hrel. specialize (Hrel Elive Hu Er). rewrite (remove_replace_seg s2 (sg_base s) (st_segs st) Hb2) in Hrel. exact Hrel.
Qed.

(* ---------------------------------------------------------------- _mi_malloc_generic, step, run *)
Lemma malloc_generic_gb c u a0 st n huge commit tries order tries2 o st' r o' :
  GB c u a0 st ->
  (u = true -> forallb (forallb where_unmap_ok) tries && forallb (forallb where_unmap_ok) tries2 = true) ->
  malloc_generic c st n huge commit tries order tries2 o = Some (st', r, o') -> GB c u a0 st'.
Proof.
  intros HG Hu H. unfold malloc_generic in H.
  assert (Hu1 : u = true -> forallb (forallb where_unmap_ok) tries = true) by (intros E; specialize (Hu E); b2p; assumption).
  assert (Hu2 : u = true -> forallb (forallb where_unmap_ok) tries2 = true) by (intros E; specialize (Hu E); b2p; assumption).
  destruct (find_page c st n huge commit tries o) as [[[st1 [p|]] o1]|] eqn:E1; [| |discriminate].
  - inversion H; subst. exact (find_page_gb _ _ _ _ _ _ _ _ _ _ _ _ HG Hu1 E1).
  - pose proof (find_page_gb _ _ _ _ _ _ _ _ _ _ _ _ HG Hu1 E1) as HG1.
    destruct (collect c st1 order o1) as [st2 o2] eqn:Ec. pose proof (collect_gb _ _ _ _ _ _ _ _ HG1 Ec) as HG2.
    destruct (find_page c st2 n huge commit tries2 o2) as [[[st3 [p|]] o3]|] eqn:E3; [| |discriminate];
      inversion H; subst; exact (find_page_gb _ _ _ _ _ _ _ _ _ _ _ _ HG2 Hu2 E3).
Qed.

Lemma step_gb c u a0 st x o st' r o' :
  GB c u a0 st -> (u = true -> op_unmaps_ok x = true) -> step c st x o = Some (st', r, o') -> GB c u a0 st'.
Proof.
  intros HG Hu H.
  destruct x as [n huge commit tries order tries2| |p clo cn expired unmap_ok|base| |order|b0 n commit|b0 n allc]; cbn [step op_unmaps_ok] in *.
  - eapply malloc_generic_gb; eauto.
  - inversion H; subst. exact HG.
  - destruct (free_page c st p clo cn expired unmap_ok o) as [[st1 o1]|] eqn:Ef; [|discriminate]. inversion H; subst; clear H.
    eapply free_page_gb; eauto.
  - destruct (seg_try_purge_at c st base o) as [[st1 o1]|] eqn:Ep; [|discriminate]. inversion H; subst; clear H.
    eapply seg_try_purge_at_gb; eauto.
  - destruct (arenas_purge_st c st o) as [st1 o1] eqn:Ep. inversion H; subst; clear H. eapply arenas_purge_st_gb; eauto.
  - destruct (collect c st order o) as [st1 o1] eqn:Ec. inversion H; subst; clear H. eapply collect_gb; eauto.
  - split; [exact (proj1 (step_inv c st (OpArenaAlloc b0 n commit) o st' r o' (proj1 HG) H))|]. destruct HG as [HI HX].
    destruct (arena_try_alloc_at (st_arena st) (st_acc st) b0 n commit o) as [[[[[mc z] a1] acc1] o1]|] eqn:Ea; [|discriminate].
    inversion H; subst; clear H. apply arena_try_alloc_at_spec in Ea.
    destruct Ea as [Hnb [Hr [Hf [Hsh [Hiu [Hpu [_ [_ [Hframe _]]]]]]]]].
    apply (gb_intro c u a0 st); auto.
    + intros b Hb. rewrite Hiu in Hb. destruct (set_range_cases (a_inuse (st_arena st)) b0 n true b) as [[Hin _]|[_ E]].
      * left. right. exists (b0, n). split; [left; reflexivity|exact Hin].
      * rewrite E in Hb. right. split; [exact Hb|apply owned_by_cons_raw].
    + intros _ b Hb. rewrite Hpu in Hb. eapply set_range_false_dec; eauto.
    + intros _ x Hx. destruct (in_range (block_slice (st_arena st) b0) (n * BLOCK_SLICES) x) eqn:E.
      * apply in_range_spec in E. left. left. eapply in_arena_shape; [exact Hsh|]. eapply block_range_in_arena; eauto.
      * apply in_range_false in E. rewrite (Hframe x E) in Hx. right. split; [exact Hx|apply covered_shape; exact Hsh].
  - split; [exact (proj1 (step_inv c st (OpArenaFree b0 n allc) o st' r o' (proj1 HG) H))|]. destruct HG as [HI HX].
    destruct (existsb (fun r0 => raw_eqb r0 b0 n) (st_raw st)) eqn:Ee; cbn [negb] in H; [|discriminate].
    destruct (arena_free c (st_arena st) (st_acc st) b0 n allc o) as [[a1 acc1] o1] eqn:Ef. inversion H; subst; clear H.
    pose proof (arena_free_spec _ _ _ _ _ _ _ _ _ _ Ef) as [HR [Hi _]]. pose proof (ar_shape _ _ _ _ _ HR) as Hsh.
    apply (gb_intro c u a0 st); auto.
    + intros b Hb. rewrite Hi in Hb. destruct (set_range_cases (a_inuse (st_arena st)) b0 n false b) as [[_ E]|[Hout E]]; rewrite E in Hb; [discriminate|].
      right. split; [exact Hb|]. intros [Ho|[r0 [Hr0 Hb0]]]; [left; exact Ho|right]. exists r0. split; [|exact Hb0].
      apply filter_In. split; [exact Hr0|]. apply negb_true_iff. apply not_true_is_false. intros Eq. unfold raw_eqb in Eq. b2p. subst. contradiction.
    + intros Hns. exact (arena_free_purge_nosched _ _ _ _ _ _ _ _ _ _ Hns Ef).
    + intros _ x Hx. apply (ar_acc_dec _ _ _ _ _ HR) in Hx. right. split; [exact Hx|apply covered_shape; exact Hsh].
Qed.

Lemma run_gb c u a0 ops : forall st o st' rs o',
  GB c u a0 st -> (u = true -> ops_unmaps_ok ops = true) -> run c st ops o = Some (st', rs, o') -> GB c u a0 st'.
Proof.
  induction ops as [|x rest IH]; intros st o st' rs o' HG Hu H; cbn [run] in H.
  - inversion H; subst. exact HG.
  - destruct (step c st x o) as [[[st1 r1] o1]|] eqn:Es; [|discriminate].
    destruct (run c st1 rest o1) as [[[st2 rs2] o2]|] eqn:Er; [|discriminate]. inversion H; subst; clear H.
    assert (Hu1 : u = true -> op_unmaps_ok x = true) by (intros E; specialize (Hu E); unfold ops_unmaps_ok in Hu; cbn [forallb] in Hu; b2p; assumption).
    assert (Hu2 : u = true -> ops_unmaps_ok rest = true) by (intros E; specialize (Hu E); unfold ops_unmaps_ok in Hu; cbn [forallb] in Hu; b2p; assumption).
    eapply IH; [eapply step_gb; eauto|exact Hu2|exact Er].
Qed.

(* ---------------------------------------------------------------- initial states *)
Lemma commit_Inv_init start nblocks ic iz : commit_Inv (state_init start nblocks ic iz).
Proof.
  constructor; cbn; auto.
  intros b Hb Hc x Hx. right. destruct ic; cbn in *; [|discriminate].
  apply set_range_in. unfold in_block, block_slice in Hx. cbn in Hx. rewrite BLOCK_SLICES_val in *. nia.
Qed.

Lemma GB_init c u start nblocks ic iz :
  GB c u (arena_init start nblocks ic iz) (state_init start nblocks ic iz).
Proof.
  split; [apply commit_Inv_init|]. constructor; cbn.
  - apply same_arena_shape_refl.
  - intros b Hb. discriminate.
  - intros _ b. reflexivity.
  - intros _ x Hx. left. unfold in_arena. cbn. destruct ic; [|discriminate].
    destruct (set_range_cases no_bits start (nblocks * BLOCK_SLICES) true x) as [[Hr _]|[_ E]]; [exact Hr|].
    cbn in Hx. rewrite E in Hx. discriminate.
Qed.

(* ---------------------------------------------------------------- all freed => everything given back *)
Definition all_freed (st : state) : Prop := st_live st = [] /\ st_raw st = [].

Lemma gave_back_of_GB c u a0 st :
  GB c u a0 st -> no_unused_segment st -> all_freed st ->
  st_segs st = [] /\ (forall b, a_inuse (st_arena st) b = false) /\
  (u = true -> forall x, st_acc st x = true -> in_arena (st_arena st) x).
Proof.
  intros [HI [Hsh HU HP HO]] Hn [Hl Hr].
  assert (Hs : st_segs st = []).
  { destruct (st_segs st) as [|s l] eqn:E; [reflexivity|]. specialize (Hn s). rewrite E, Hl in Hn. specialize (Hn (or_introl eq_refl)). discriminate. }
  split; [exact Hs|]. split.
  - intros b. destruct (a_inuse (st_arena st) b) eqn:E; [|reflexivity]. apply HU in E. rewrite Hs, Hr in E.
    destruct E as [[s [b0 [nb [[] _]]]]|[r [[] _]]].
  - intros Hu x Hx. destruct (HO Hu x Hx) as [G|[s [Hin _]]]; [exact G|]. rewrite Hs in Hin. destruct Hin.
Qed.

Lemma arena_try_alloc_at_some a acc b0 n commit o :
  0 < n -> b0 + n <= a_nblocks a -> (forall b, b0 <= b < b0 + n -> a_inuse a b = false) ->
  exists r, arena_try_alloc_at a acc b0 n commit o = Some r.
Proof.
  intros Hn Hr Hf. unfold arena_try_alloc_at.
  replace (n =? 0) with false by (symmetry; apply N.eqb_neq; lia).
  replace (a_nblocks a <? b0 + n) with false by (symmetry; apply N.ltb_ge; lia).
  replace (any_in (a_inuse a) b0 n) with false by (symmetry; apply any_in_false; exact Hf). cbn [orb].
  destruct commit; destruct (all_in (a_committed a) b0 n); try (eexists; reflexivity).
  destruct (ask_cases o) as [g [o1 Ha]]. rewrite Ha. destruct g; eexists; reflexivity.
Qed.

(* the states to which every all-freed point of a history returns: state_init up to the arena's committed / dirty /
   purge bookkeeping and the accessibility of slices INSIDE the arena *)
Definition reset_state (start nblocks : N) (iz : bool) (st : state) : Prop :=
  st_segs st = [] /\ st_live st = [] /\ st_raw st = [] /\
  a_start (st_arena st) = start /\ a_nblocks (st_arena st) = nblocks /\ a_zero (st_arena st) = iz /\
  (forall b, a_inuse (st_arena st) b = false) /\
  (forall x, st_acc st x = true -> start <= x < start + nblocks * BLOCK_SLICES).

(* the class of states that is closed under all-freed workloads *)
Definition reset_class (c : cfg) (start nblocks : N) (iz : bool) (st : state) : Prop :=
  commit_Inv st /\ purge_cfg_ok c st /\ reset_state start nblocks iz st.

Lemma reset_class_init c start nblocks ic iz : reset_class c start nblocks iz (state_init start nblocks ic iz).
Proof.
  split; [apply commit_Inv_init|]. split; [intros _ b; reflexivity|].
  unfold reset_state. cbn. repeat split; auto.
  - destruct ic; [|discriminate]. destruct (set_range_cases no_bits start (nblocks * BLOCK_SLICES) true x) as [[Hr _]|[_ E]]; [lia|].
    rewrite E in H. discriminate.
  - destruct ic; [|discriminate]. destruct (set_range_cases no_bits start (nblocks * BLOCK_SLICES) true x) as [[Hr _]|[_ E]]; [lia|].
    rewrite E in H. discriminate.
Qed.

Lemma GB_of_reset c u start nblocks iz st : reset_class c start nblocks iz st -> GB c u (st_arena st) st.
Proof.
  intros [HI [HP [Hs [Hl [Hr [H1 [H2 [H3 [Hi Ha]]]]]]]]]. split; [exact HI|]. constructor.
  - apply same_arena_shape_refl.
  - intros b Hb. rewrite Hi in Hb. discriminate.
  - exact HP.
  - intros _ x Hx. left. unfold in_arena. rewrite H1, H2. apply Ha. exact Hx.
Qed.

Lemma workload_fixpoint c start nblocks iz st ops o st' rs o' :
  reset_class c start nblocks iz st ->
  run c st ops o = Some (st', rs, o') -> st_live st' = [] -> st_raw st' = [] -> ops_unmaps_ok ops = true ->
  reset_class c start nblocks iz st'.
Proof.
  intros HR H Hl Hr Hu.
  pose proof (GB_of_reset c true start nblocks iz st HR) as HG.
  pose proof (run_gb c true (st_arena st) ops st o st' rs o' HG (fun _ => Hu) H) as HG'.
  assert (Hn : no_unused_segment st').
  { eapply no_unused_segment_run; [exact H|]. destruct HR as [_ [_ [Hs _]]]. intros s Hin. rewrite Hs in Hin. destruct Hin. }
  destruct (gave_back_of_GB c true (st_arena st) st' HG' Hn (conj Hl Hr)) as [Hs [Hi Ha]].
  destruct HG' as [HI' [Hsh HU HP HO]]. destruct HR as [_ [_ [_ [_ [_ [H1 [H2 [H3 _]]]]]]]]. destruct Hsh as [S1 [S2 S3]].
  split; [exact HI'|]. split; [exact HP|].
  unfold reset_state. repeat split; auto; try congruence.
  - specialize (Ha eq_refl x H0). unfold in_arena in Ha. rewrite S1, H1 in Ha. lia.
  - specialize (Ha eq_refl x H0). unfold in_arena in Ha. rewrite S1, S2, H1, H2 in Ha. lia.
Qed.

(* any number of repetitions: a list of workloads run one after the other (the oracle is threaded through) *)
Fixpoint run_reps (c : cfg) (st : state) (ws : list (list op)) (o : list bool) : option (list state * list bool) :=
  match ws with
  | [] => Some ([], o)
  | w :: rest =>
    match run c st w o with
    | None => None
    | Some (st', _, o') =>
      match run_reps c st' rest o' with
      | None => None
      | Some (sts, o'') => Some (st' :: sts, o'')
      end
    end
  end.

Lemma workload_repeat c start nblocks iz ws : forall st o sts o',
  reset_class c start nblocks iz st ->
  run_reps c st ws o = Some (sts, o') ->
  Forall (fun w => ops_unmaps_ok w = true) ws ->
  Forall (fun s => st_live s = [] /\ st_raw s = []) sts ->
  Forall (reset_class c start nblocks iz) sts.
Proof.
  induction ws as [|w rest IH]; intros st o sts o' HR H Hu Hf; cbn [run_reps] in H.
  - inversion H; subst. constructor.
  - destruct (run c st w o) as [[[st1 rs1] o1]|] eqn:E1; [|discriminate].
    destruct (run_reps c st1 rest o1) as [[sts1 o2]|] eqn:E2; [|discriminate]. inversion H; subst; clear H.
    inversion Hu; subst. inversion Hf; subst. destruct H3 as [Hl Hr].
    pose proof (workload_fixpoint _ _ _ _ _ _ _ _ _ _ HR E1 Hl Hr H1) as HR1.
    constructor; [exact HR1|]. eapply IH; eauto.
Qed.

(* from the initial state of an arena, for every history *)
Lemma all_freed_gives_back c start nblocks ic iz ops o st' rs o' :
  run c (state_init start nblocks ic iz) ops o = Some (st', rs, o') ->
  st_live st' = [] -> st_raw st' = [] ->
  st_segs st' = [] /\
  (forall b, a_inuse (st_arena st') b = false) /\
  (forall b0 n commit o1, 0 < n -> b0 + n <= nblocks ->
     exists r, arena_try_alloc_at (st_arena st') (st_acc st') b0 n commit o1 = Some r) /\
  (ops_unmaps_ok ops = true -> forall x, st_acc st' x = true -> start <= x < start + nblocks * BLOCK_SLICES).
Proof.
  intros H Hl Hr. set (u := ops_unmaps_ok ops).
  pose proof (run_gb c u _ ops _ o st' rs o' (GB_init c u start nblocks ic iz) (fun E => E) H) as HG'.
  pose proof (no_unused_segment_from_init _ _ _ _ _ _ _ _ _ _ H) as Hn.
  destruct (gave_back_of_GB c u _ st' HG' Hn (conj Hl Hr)) as [Hs [Hi Ha]].
  destruct HG' as [_ [[S1 [S2 S3]] _ _ _]]. cbn in S1, S2, S3.
  split; [exact Hs|]. split; [exact Hi|]. split.
  - intros b0 n commit o1 Hn0 Hb. apply arena_try_alloc_at_some; auto. rewrite S2. exact Hb.
  - intros Hu x Hx. specialize (Ha Hu x Hx). unfold in_arena in Ha. rewrite S1, S2 in Ha. exact Ha.
Qed.

(* in a state of the class the arena's committed bits are bounded by the kernel: a committed block is accessible over
   all of its slices (clause (A) of commit_Inv without segments) *)
Lemma reset_committed_accessible c start nblocks iz st :
  reset_class c start nblocks iz st ->
  forall b x, b < nblocks -> a_committed (st_arena st) b = true ->
  start + b * BLOCK_SLICES <= x < start + b * BLOCK_SLICES + BLOCK_SLICES -> st_acc st x = true.
Proof.
  intros [HI [_ [Hs [_ [_ [H1 [H2 _]]]]]]] b x Hb Hc Hx.
  destruct (I_A st HI b ltac:(rewrite H2; exact Hb) Hc x) as [G|G]; [unfold in_block, block_slice; rewrite H1; exact Hx| |exact G].
  rewrite Hs in G. discriminate.
Qed.

(* ---------------------------------------------------------------- the forced collect purges the arena *)
Lemma run_len_zero k P i : run_len k P i = 0 -> k = O \/ P i = false.
Proof. destruct k as [|k]; [left; reflexivity|]. cbn [run_len]. destruct (P i); [lia|right; reflexivity]. Qed.

Lemma field_end_gt i : i < (i / FIELD_BITS + 1) * FIELD_BITS.
Proof.
  rewrite FIELD_BITS_val. pose proof (N.div_mod i 64 ltac:(lia)) as Hd. pose proof (N.mod_lt i 64 ltac:(lia)) as Hm.
  remember (i / 64) as q. remember (i mod 64) as r. lia.
Qed.

(* mi_arena_try_purge visits every block: afterwards no block that can be claimed is still scheduled *)
Lemma arena_purge_scan_clears c fuel : forall a acc o i a' acc' o',
  arena_purge_scan fuel c a acc o i = (a', acc', o') ->
  a_nblocks a <= i + N.of_nat fuel ->
  (forall b, b < i -> a_inuse a b = false -> a_purge a b = false) ->
  forall b, b < a_nblocks a -> a_inuse a b = false -> a_purge a' b = false.
Proof.
  induction fuel as [|f IH]; intros a acc o i a' acc' o' H Hfuel Hclean b Hb Hf; cbn [arena_purge_scan] in H.
  - inversion H; subst. apply Hclean; [lia|exact Hf].
  - destruct (a_nblocks a <=? i) eqn:Ei.
    + inversion H; subst. b2p. apply Hclean; [lia|exact Hf].
    + b2p.
      set (lim := N.min (a_nblocks a) ((i / FIELD_BITS + 1) * FIELD_BITS) - i) in *.
      set (P := fun j => a_purge a j && negb (a_inuse a j)) in *.
      set (len := run_len (N.to_nat lim) P i) in *.
      assert (Hlim : 0 < lim) by (subst lim; pose proof (field_end_gt i); lia).
      destruct (len =? 0) eqn:El.
      * b2p. destruct (run_len_zero _ _ _ El) as [E|E]; [lia|].
        apply (IH _ _ _ _ _ _ _ H); [lia| |exact Hb|exact Hf].
        intros b' Hb' Hf'. destruct (N.eq_dec b' i) as [->|Hne]; [|apply Hclean; [lia|exact Hf']].
        subst P. cbv beta in E. rewrite Hf' in E. cbn in E. rewrite andb_true_r in E. exact E.
      * b2p. destruct (arena_purge c a acc i len o) as [[a1 acc1] o1] eqn:Ep.
        pose proof (arena_purge_bits _ _ _ _ _ _ _ _ _ Ep) as Hp1.
        pose proof (arena_purge_spec _ _ _ _ _ _ _ _ _ Ep) as [HR1 Hi1]. destruct (ar_shape _ _ _ _ _ HR1) as [_ [Hn1 _]].
        apply (IH _ _ _ _ _ _ _ H); [rewrite Hn1; lia| |rewrite Hn1; exact Hb|rewrite Hi1; exact Hf].
        intros b' Hb' Hf'. rewrite Hp1. destruct (set_range_cases (a_purge a) i len false b') as [[_ E]|[Hout E]]; rewrite E; [reflexivity|].
        apply Hclean; [lia|rewrite <- Hi1; exact Hf'].
Qed.

Lemma arenas_try_purge_clears c a acc o a' acc' o' :
  (no_sched c -> forall b, a_purge a b = false) ->
  arenas_try_purge c a acc o = (a', acc', o') ->
  forall b, b < a_nblocks a' -> a_inuse a' b = false -> a_purge a' b = false.
Proof.
  intros Hns H. pose proof (arenas_try_purge_spec _ _ _ _ _ _ _ H) as [HR Hi]. destruct (ar_shape _ _ _ _ _ HR) as [_ [Hn _]].
  unfold arenas_try_purge in H. destruct (negb (c_allow_purge c) || c_arena_purge_now c) eqn:E.
  - inversion H; subst. intros b _ _. apply Hns. unfold no_sched. apply orb_true_iff in E. destruct E as [E|E]; [left; apply negb_true_iff; exact E|right; exact E].
  - intros b Hb Hf. rewrite Hn in Hb. rewrite Hi in Hf.
    apply (arena_purge_scan_clears _ _ _ _ _ _ _ _ _ H); [rewrite N2Nat.id; lia|intros b' Hb'; lia|exact Hb|exact Hf].
Qed.

Lemma collect_segs_arena c order : forall st o st' o', collect_segs c st order o = (st', o') -> st_arena st' = st_arena st.
Proof.
  induction order as [|b rest IH]; intros st o st' o' H; cbn [collect_segs] in H.
  - inversion H; subst. reflexivity.
  - destruct (seg_try_purge_at c st b o) as [[st1 o1]|] eqn:Ep; [|eapply IH; eauto].
    rewrite (IH _ _ _ _ H). unfold seg_try_purge_at in Ep. destruct (find_seg b (st_segs st)); [|discriminate].
    destruct (segment_try_purge c s (st_acc st) o) as [[s1 acc1] o2]. inversion Ep; subst. reflexivity.
Qed.

Lemma collect_purges_arena c st order o st' o' :
  purge_cfg_ok c st -> collect c st order o = (st', o') ->
  forall b, b < a_nblocks (st_arena st') -> a_inuse (st_arena st') b = false -> a_purge (st_arena st') b = false.
Proof.
  intros HP. unfold collect. destruct (collect_segs c st order o) as [st1 o1] eqn:Ec.
  pose proof (collect_segs_arena _ _ _ _ _ _ Ec) as Ha. unfold arenas_purge_st.
  destruct (arenas_try_purge c (st_arena st1) (st_acc st1) o1) as [[a2 acc2] o2] eqn:Ep. intros H. inversion H; subst; clear H.
  cbn [st_arena mk]. eapply arenas_try_purge_clears; [|exact Ep]. rewrite Ha. exact HP.
Qed.

(* the Commit.v analogue of C11_forced_collect_purges_arena (Model/Purge.v): after mi_collect(true), in every state a
   history from state_init can reach, no block of the arena is still scheduled for a purge unless it is in use -- for
   every configuration (with mi_arena_purge_delay() <= 0 nothing is ever scheduled) *)
Lemma forced_collect_purges c start nblocks ic iz ops o st rs o1 order st' r o' :
  run c (state_init start nblocks ic iz) ops o = Some (st, rs, o1) ->
  step c st (OpCollect order) o1 = Some (st', r, o') ->
  forall b, b < nblocks -> a_inuse (st_arena st') b = false -> a_purge (st_arena st') b = false.
Proof.
  intros H Hs. pose proof (run_gb c false _ ops _ o st rs o1 (GB_init c false start nblocks ic iz) (fun E => ltac:(discriminate)) H) as [_ HX].
  cbn [step] in Hs. destruct (collect c st order o1) as [st1 o2] eqn:Ec. inversion Hs; subst; clear Hs.
  pose proof (collect_gb c false _ _ _ _ _ _ (conj (run_inv _ _ _ _ _ _ _ (commit_Inv_init _ _ _ _) H) HX) Ec) as [_ [[_ [S2 _]] _ _ _]]. cbn in S2.
  intros b Hb. apply (collect_purges_arena c st order o1 st' o' (X_P _ _ _ _ HX) Ec). rewrite S2. exact Hb.
Qed.

(* all freed + forced collect: nothing at all is scheduled any more *)
Lemma all_freed_collect_purged c start nblocks ic iz ops o st rs o1 order st' r o' :
  run c (state_init start nblocks ic iz) ops o = Some (st, rs, o1) ->
  st_live st = [] -> st_raw st = [] ->
  step c st (OpCollect order) o1 = Some (st', r, o') ->
  st_segs st' = [] /\ st_live st' = [] /\ st_raw st' = [] /\
  forall b, b < nblocks -> a_inuse (st_arena st') b = false /\ a_purge (st_arena st') b = false.
Proof.
  intros H Hl Hr Hs.
  assert (Hrun : run c (state_init start nblocks ic iz) (ops ++ [OpCollect order]) o = Some (st', rs ++ [r], o')).
  { clear Hl Hr. revert H. generalize (state_init start nblocks ic iz) as s0. revert o rs. induction ops as [|x rest IH]; intros o rs s0 H; cbn [app run] in *.
    - inversion H; subst. rewrite Hs. reflexivity.
    - destruct (step c s0 x o) as [[[sa ra] oa]|]; [|discriminate]. destruct (run c sa rest oa) as [[[sb rsb] ob]|] eqn:Er; [|discriminate].
      inversion H; subst. rewrite (IH _ _ _ Er). reflexivity. }
  assert (Hl' : st_live st' = st_live st /\ st_raw st' = st_raw st).
  { cbn [step] in Hs. destruct (collect c st order o1) as [st1 o2] eqn:Ec. inversion Hs; subst.
    pose proof (collect_inv _ _ _ _ _ _ (run_inv _ _ _ _ _ _ _ (commit_Inv_init _ _ _ _) H) Ec) as [_ E]. split; [exact E|].
    unfold collect in Ec. destruct (collect_segs c st order o1) as [s2 o3] eqn:E2. unfold arenas_purge_st in Ec.
    destruct (arenas_try_purge c (st_arena s2) (st_acc s2) o3) as [[a3 acc3] o4]. inversion Ec; subst. cbn [st_raw mk].
    clear -E2. revert st o1 s2 o3 E2. induction order as [|b rest IH]; intros st o1 s2 o3 E2; cbn [collect_segs] in E2.
    - inversion E2; subst. reflexivity.
    - destruct (seg_try_purge_at c st b o1) as [[sx ox]|] eqn:Ep; [|eapply IH; eauto].
      rewrite (IH _ _ _ _ E2). unfold seg_try_purge_at in Ep. destruct (find_seg b (st_segs st)); [|discriminate].
      destruct (segment_try_purge c s (st_acc st) o1) as [[s1 acc1] oy]. inversion Ep; subst. reflexivity. }
  destruct Hl' as [El Er]. rewrite Hl in El. rewrite Hr in Er.
  destruct (all_freed_gives_back _ _ _ _ _ _ _ _ _ _ Hrun El Er) as [G1 [G2 _]].
  split; [exact G1|]. split; [exact El|]. split; [exact Er|].
  intros b Hb. split; [apply G2|]. apply (forced_collect_purges _ _ _ _ _ _ _ _ _ _ _ _ _ _ H Hs b Hb). apply G2.
Qed.

(* ---------------------------------------------------------------- OS-backed memory is accounted for in every state *)
(* with every munmap granted: a slice outside the arena is accessible only inside a live OS-backed segment *)
Lemma os_memory_accounted c start nblocks ic iz ops o st rs o' :
  run c (state_init start nblocks ic iz) ops o = Some (st, rs, o') -> ops_unmaps_ok ops = true ->
  forall x, st_acc st x = true -> ~ (start <= x < start + nblocks * BLOCK_SLICES) ->
  exists s, In s (st_segs st) /\ sg_mem s = MemOs /\ sg_base s <= x < sg_base s + sg_nslices s.
Proof.
  intros H Hu x Hx Hout.
  pose proof (run_gb c true _ ops _ o st rs o' (GB_init c true start nblocks ic iz) (fun _ => Hu) H) as [HI [[S1 [S2 _]] _ _ HO]].
  cbn in S1, S2. assert (Hna : ~ in_arena (st_arena st) x) by (unfold in_arena; rewrite S1, S2; exact Hout).
  destruct (HO eq_refl x Hx) as [G|[s [Hs Hin]]]; [contradiction|].
  exists s. split; [exact Hs|]. split; [|exact Hin].
  destruct (sg_mem s) as [b0 nb|] eqn:Em; [|reflexivity]. exfalso. apply Hna. exact (arena_seg_in_arena st HI s b0 nb x Hs Em Hin).
Qed.

(* every in-use block has an owner, in every reachable state *)
Lemma inuse_owned_reachable c start nblocks ic iz ops o st rs o' :
  run c (state_init start nblocks ic iz) ops o = Some (st, rs, o') -> inuse_owned st.
Proof.
  intros H. pose proof (run_gb c false _ ops _ o st rs o' (GB_init c false start nblocks ic iz) (fun E => ltac:(discriminate)) H) as [_ HX].
  exact (X_U _ _ _ _ HX).
Qed.

(* ---------------------------------------------------------------- the boolean forms (Model/GiveBack.v) *)
Lemma block_owned_b_iff segs raws b : block_owned_b segs raws b = true <-> owned_by segs raws b.
Proof.
  unfold block_owned_b, owned_by. rewrite orb_true_iff, !existsb_exists. split.
  - intros [[s [Hs H]]|[r [Hr H]]].
    + left. unfold seg_owns_block in H. destruct (sg_mem s) as [b0 nb|] eqn:Em; [|discriminate]. apply in_range_spec in H. exists s, b0, nb. auto.
    + right. unfold raw_owns_block in H. apply in_range_spec in H. exists r. auto.
  - intros [[s [b0 [nb [Hs [Hm Hb]]]]]|[r [Hr Hb]]].
    + left. exists s. split; [exact Hs|]. unfold seg_owns_block. rewrite Hm. apply in_range_spec. exact Hb.
    + right. exists r. split; [exact Hr|]. apply in_range_spec. exact Hb.
Qed.
Lemma inuse_owned_b_iff st :
  inuse_owned_b st = true <-> (forall b, b < a_nblocks (st_arena st) -> a_inuse (st_arena st) b = true -> owned_by (st_segs st) (st_raw st) b).
Proof.
  unfold inuse_owned_b. rewrite all_in_spec. split.
  - intros H b Hb Hi. specialize (H b ltac:(lia)). rewrite Hi in H. cbn in H. apply block_owned_b_iff. exact H.
  - intros H b Hb. destruct (a_inuse (st_arena st) b) eqn:E; [|reflexivity]. cbn. apply block_owned_b_iff. apply H; [lia|exact E].
Qed.
Lemma all_freed_b_iff st : all_freed_b st = true <-> st_live st = [] /\ st_raw st = [].
Proof. unfold all_freed_b. destruct (st_live st), (st_raw st); split; try discriminate; auto; intros [? ?]; discriminate. Qed.
Lemma gave_back_b_iff st :
  gave_back_b st = true <-> st_segs st = [] /\ forall b, b < a_nblocks (st_arena st) -> a_inuse (st_arena st) b = false.
Proof.
  unfold gave_back_b, no_segment_b, no_block_inuse_b. rewrite andb_true_iff, negb_true_iff, any_in_false. split.
  - intros [H1 H2]. split; [destruct (st_segs st); [reflexivity|discriminate]|]. intros b Hb. apply H2. lia.
  - intros [H1 H2]. rewrite H1. split; [reflexivity|]. intros b Hb. apply H2. lia.
Qed.
Lemma no_purge_scheduled_b_iff a :
  no_purge_scheduled_b a = true <-> forall b, b < a_nblocks a -> a_inuse a b = false -> a_purge a b = false.
Proof.
  unfold no_purge_scheduled_b. rewrite negb_true_iff, any_in_false. split.
  - intros H b Hb Hf. specialize (H b ltac:(lia)). rewrite Hf in H. cbn in H. rewrite andb_true_r in H. exact H.
  - intros H b Hb. destruct (a_inuse a b) eqn:E; [apply andb_false_r|]. rewrite (H b ltac:(lia) E). reflexivity.
Qed.

(* what the correspondence check evaluates on the model state in lockstep with the real allocator *)
Lemma reachable_checks c start nblocks ic iz ops o st rs o' :
  run c (state_init start nblocks ic iz) ops o = Some (st, rs, o') ->
  inuse_owned_b st = true /\ (all_freed_b st = true -> gave_back_b st = true).
Proof.
  intros H. split.
  - apply inuse_owned_b_iff. intros b _. apply (inuse_owned_reachable _ _ _ _ _ _ _ _ _ _ H).
  - intros Hf. apply all_freed_b_iff in Hf. destruct Hf as [Hl Hr].
    destruct (all_freed_gives_back _ _ _ _ _ _ _ _ _ _ H Hl Hr) as [G1 [G2 _]]. apply gave_back_b_iff. auto.
Qed.
Lemma collect_check c start nblocks ic iz ops o st rs o1 order st' r o' :
  run c (state_init start nblocks ic iz) ops o = Some (st, rs, o1) ->
  step c st (OpCollect order) o1 = Some (st', r, o') -> no_purge_scheduled_b (st_arena st') = true.
Proof.
  intros H Hs. apply no_purge_scheduled_b_iff. intros b Hb.
  pose proof (run_gb c false _ ops _ o st rs o1 (GB_init c false start nblocks ic iz) (fun E => ltac:(discriminate)) H) as HG.
  pose proof (step_gb c false _ st (OpCollect order) o1 st' r o' HG (fun E => ltac:(discriminate)) Hs) as [_ [[_ [S2 _]] _ _ _]]. cbn in S2.
  rewrite S2 in Hb. exact (forced_collect_purges _ _ _ _ _ _ _ _ _ _ _ _ _ _ H Hs b Hb).
Qed.

(* ---------------------------------------------------------------- concrete histories *)
(* arena of 4 blocks over inaccessible memory; segment A on block 2, B on block 0, a huge segment on block 1, an OS-backed
   segment at slice 100000, a fresh segment on block 3 whose first span commit is refused (freed again at once), a span
   commit in B refused once (restore path, forced collect, retry granted); then everything is freed and collected *)
Definition gb_segA : N := 32768 + 1024.
Definition gb_segB : N := 32768.
Definition gb_segH : N := 32768 + 512.
Definition gb_segO : N := 100000.
Definition gb_ops : list op :=
  [ OpAlloc 8 false false [[WNewArena 2; WSpan gb_segA 1 1 511]] [] [];
    OpAlloc 16 false false [[WNewArena 0; WSpan gb_segB 1 1 511]] [] [];
    OpAlloc 320 true true [[WNewArena 1]] [] [];
    OpAlloc 8 false false [[WNewOs (Some gb_segO) true; WSpan gb_segO 1 1 511]] [] [];
    OpAlloc 8 false false [[WNewArena 3; WSpan (32768 + 1536) 1 1 511]] [] [];
    OpAlloc 32 false false [[WSpan gb_segB 17 17 495]] [gb_segB; gb_segA] [[WSpan gb_segB 17 17 495]];
    OpFree {| pg_seg := gb_segA; pg_lo := 1; pg_n := 8 |} 1 511 false true;
    OpFree {| pg_seg := gb_segB; pg_lo := 1; pg_n := 16 |} 1 16 false true;
    OpFree {| pg_seg := gb_segH; pg_lo := 1; pg_n := 320 |} 1 320 false true;
    OpFree {| pg_seg := gb_segO; pg_lo := 1; pg_n := 8 |} 1 511 false true;
    OpFree {| pg_seg := gb_segB; pg_lo := 17; pg_n := 32 |} 1 511 false true;
    OpCollect [] ].
(* answers: A header, A span, B header, B span, huge arena commit, OS header, OS span, block-3 header, block-3 span REFUSED,
   B span REFUSED, retry granted *)
Definition gb_oracle : list bool := [true; true; true; true; true; true; true; true; false; false; true].

Definition gb_summary (c : cfg) : option (list bool * list N * list bool) :=
  match run c ex_state gb_ops gb_oracle with
  | Some (st, rs, o) =>
    Some ([ all_freed_b st; gave_back_b st; commit_inv_b st; inuse_owned_b st; no_purge_scheduled_b (st_arena st);
            outside_inaccessible_b st gb_segO 512; ops_unmaps_ok gb_ops ],
          [ N.of_nat (length o);
            N.of_nat (length (filter (fun r => match r with RPage _ => true | _ => false end) rs));
            N.of_nat (length (filter (fun r => match r with RNone => true | _ => false end) rs)) ],
          (* what is NOT reset: dirty, committed bits and accessibility inside the arena differ from state_init *)
          [ a_dirty (st_arena st) 0; a_dirty (st_arena st) 3; a_committed (st_arena st) 1; st_acc st gb_segH; st_acc st gb_segO ])
  | None => None
  end.

Example gb_history_release : gb_summary ex_cfg =
  Some ([true; true; true; true; true; true; true], [0; 5; 1], [true; true; true; true; false]).
Proof. vm_compute. reflexivity. Qed.
Example gb_history_decommit : gb_summary ex_cfg_decommit =
  Some ([true; true; true; true; true; true; true], [0; 5; 1], [true; true; false; false; false]).
Proof. vm_compute. reflexivity. Qed.

(* the pre-repair mi_segments_page_alloc (CommitProofs.segments_page_alloc_old) violates all_freed_gives_back: a malloc whose
   first span commit in a fresh segment is refused returns NULL and keeps the segment.  No page is live, no raw
   allocation is held, the state satisfies commit_Inv and even (U) -- the segment owns its block -- but the segment and
   its arena block stay for ever: a forced collect does not reach a segment without pages.  The repaired function ends
   in a state that has given everything back.
     (all_freed_b, no_segment_b, gave_back_b, commit_inv_b, inuse_owned_b, blocks_inuse bit 2) *)
Definition gb_after_collect (r : option (state * option page * list bool)) : option (list bool) :=
  match r with
  | Some (st, None, o) =>
    match step ex_cfg st (OpCollect [gb_segA]) o with
    | Some (st', _, _) =>
      Some [ all_freed_b st'; no_segment_b st'; gave_back_b st'; commit_inv_b st'; inuse_owned_b st'; a_inuse (st_arena st') 2 ]
    | None => None
    end
  | _ => None
  end.
Example old_code_does_not_give_back :
  gb_after_collect (segments_page_alloc_old ex_cfg ex_state 8 false [WNewArena 2; WSpan gb_segA 1 1 511] [true; false])
    = Some [true; false; false; true; true; true] /\
  gb_after_collect (segments_page_alloc ex_cfg ex_state 8 false [WNewArena 2; WSpan gb_segA 1 1 511] [true; false])
    = Some [true; true; true; true; true; false].
Proof. split; vm_compute; reflexivity. Qed.
