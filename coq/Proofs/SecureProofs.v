(* Proofs for the model of the hardening checks (Model/Secure.v), property C17.
   Contents: (A) decode (encode p) = p by arithmetic on 64-bit words (rotation = swap of the
   high/low parts); (B) little-endian loads/stores on block bytes; geometry of a page area;
   (C) `chain`: the list the allocator sees from a head pointer, specifications of the walking
   functions; (D) the invariant WInv that survives detected errors, preserved by every allowed
   operation (regular ones and the three attacks); (E) histories, the executable strong invariant
   Inv, the named theorems of C17; (F) padding. *)
From Coq Require Import NArith ZArith Lia Bool List.
From Coq Require Import Permutation.
From MiV Require Import Gen.Consts Model.Arith Proofs.Base Proofs.ArithProofs Proofs.BitsProofs Model.Secure.
From Coq Require Import ZifyN ZifyBool.
Import ListNotations.
Ltac Zify.zify_post_hook ::= Z.div_mod_to_equations.
Local Open Scope N_scope.



Lemma pow2_pos' k : 0 < 2 ^ k.
Proof. apply N.neq_0_lt_0. apply N.pow_nonzero. lia. Qed.

Lemma land_shift_low b a s : a < 2 ^ s -> N.land (b * 2 ^ s) a = 0.
Proof.
  intros H. apply N.bits_inj. intros n. rewrite N.land_spec, N.bits_0.
  destruct (N.lt_ge_cases n s) as [Hn|Hn].
  - rewrite N.mul_pow2_bits_low by assumption. reflexivity.
  - replace a with (a mod 2 ^ s) by (apply N.mod_small; assumption).
    rewrite N.mod_pow2_bits_high by assumption. apply andb_false_r.
Qed.

Lemma lor_shift_add b a s : a < 2 ^ s -> N.lor (b * 2 ^ s) a = b * 2 ^ s + a.
Proof.
  intros H. pose proof (land_shift_low b a s H) as L.
  rewrite <- N.lxor_lor by assumption. symmetry. apply N.add_nocarry_lxor. assumption.
Qed.

Lemma rot_split a b x : 2 ^ a * 2 ^ b = W64 -> x < W64 ->
  N.lor (wrap (N.shiftl x a)) (N.shiftr x b) = (x mod 2 ^ b) * 2 ^ a + x / 2 ^ b.
Proof.
  intros Hab Hx. pose proof (pow2_pos' a) as Ha. pose proof (pow2_pos' b) as Hb.
  rewrite N.shiftl_mul_pow2, N.shiftr_div_pow2, wrap_mod.
  pose proof (N.div_mod x (2 ^ b) ltac:(lia)) as Hdm.
  pose proof (N.mod_lt x (2 ^ b) ltac:(lia)) as Hl.
  set (h := x / 2 ^ b) in *. set (l := x mod 2 ^ b) in *.
  assert (Hh : h < 2 ^ a) by nia.
  assert (E : x * 2 ^ a = l * 2 ^ a + h * W64) by nia.
  rewrite E. rewrite N.mod_add by (rewrite W64_val; lia).
  rewrite N.mod_small by nia.
  apply lor_shift_add. assumption.
Qed.

Lemma rot_join a b l h : 2 ^ a * 2 ^ b = W64 -> l < 2 ^ b -> h < 2 ^ a ->
  N.lor (N.shiftr (l * 2 ^ a + h) a) (wrap (N.shiftl (l * 2 ^ a + h) b)) = h * 2 ^ b + l.
Proof.
  intros Hab Hl Hh. pose proof (pow2_pos' a) as Ha. pose proof (pow2_pos' b) as Hb.
  rewrite N.shiftl_mul_pow2, N.shiftr_div_pow2, wrap_mod.
  assert (E1 : (l * 2 ^ a + h) / 2 ^ a = l).
  { rewrite N.div_add_l by lia. rewrite N.div_small by assumption. lia. }
  rewrite E1.
  assert (E2 : (l * 2 ^ a + h) * 2 ^ b = h * 2 ^ b + l * W64) by nia.
  rewrite E2. rewrite N.mod_add by (rewrite W64_val; lia).
  rewrite N.mod_small by nia.
  rewrite N.lor_comm. apply lor_shift_add. assumption.
Qed.

Lemma rot_lt a b x : 2 ^ a * 2 ^ b = W64 -> x < W64 -> (x mod 2 ^ b) * 2 ^ a + x / 2 ^ b < W64.
Proof.
  intros Hab Hx. pose proof (pow2_pos' a) as Ha. pose proof (pow2_pos' b) as Hb.
  pose proof (N.div_mod x (2 ^ b) ltac:(lia)) as Hdm.
  pose proof (N.mod_lt x (2 ^ b) ltac:(lia)) as Hl.
  set (h := x / 2 ^ b) in *. set (l := x mod 2 ^ b) in *.
  assert (Hh : h < 2 ^ a) by nia.
  pose proof (N.mul_le_mono_r (l + 1) (2 ^ b) (2 ^ a) ltac:(lia)) as Hm.
  rewrite N.mul_add_distr_r in Hm. lia.
Qed.

Lemma pow_split64 s : 0 < s -> s < 64 -> 2 ^ s * 2 ^ (64 - s) = W64.
Proof. intros H0 H1. rewrite <- N.pow_add_r. replace (s + (64 - s)) with 64 by lia. reflexivity. Qed.

Lemma rotl_lt x s : x < W64 -> rotl x s < W64.
Proof.
  intros Hx. unfold rotl. cbv zeta. change MI_SIZE_BITS with 64.
  pose proof (N.mod_lt s 64 ltac:(lia)) as Hs.
  destruct (s mod 64 =? 0) eqn:E; [assumption|]. apply N.eqb_neq in E.
  assert (Hab : 2 ^ (s mod 64) * 2 ^ (64 - s mod 64) = W64) by (apply pow_split64; lia).
  rewrite rot_split by assumption.
  apply rot_lt; assumption.
Qed.

Lemma rotr_rotl x s : x < W64 -> rotr (rotl x s) s = x.
Proof.
  intros Hx. unfold rotl, rotr. cbv zeta. change MI_SIZE_BITS with 64.
  pose proof (N.mod_lt s 64 ltac:(lia)) as Hs.
  destruct (s mod 64 =? 0) eqn:E; [reflexivity|]. apply N.eqb_neq in E.
  set (a := s mod 64) in *. set (b := 64 - a).
  assert (Hab : 2 ^ a * 2 ^ b = W64) by (apply pow_split64; lia).
  rewrite rot_split by assumption.
  pose proof (pow2_pos' a) as Ha. pose proof (pow2_pos' b) as Hb.
  pose proof (N.div_mod x (2 ^ b) ltac:(lia)) as Hdm.
  pose proof (N.mod_lt x (2 ^ b) ltac:(lia)) as Hl.
  rewrite rot_join; [lia|assumption|assumption|].
  set (h := x / 2 ^ b) in *. nia.
Qed.

Lemma lxor_lt64 a b : a < W64 -> b < W64 -> N.lxor a b < W64.
Proof.
  intros Ha Hb. rewrite W64_pow in *.
  destruct (N.eq_dec (N.lxor a b) 0) as [->|Hn]; [apply pow2_pos'|].
  apply N.log2_lt_pow2; [lia|].
  eapply N.le_lt_trans; [apply N.log2_lxor|].
  apply N.max_lub_lt.
  - destruct (N.eq_dec a 0) as [->|]; [reflexivity|]. apply N.log2_lt_pow2; lia.
  - destruct (N.eq_dec b 0) as [->|]; [reflexivity|]. apply N.log2_lt_pow2; lia.
Qed.

Lemma lxor_cancel x k : N.lxor (N.lxor x k) k = x.
Proof. rewrite N.lxor_assoc, N.lxor_nilpotent, N.lxor_0_r. reflexivity. Qed.

Lemma wsub_wadd a k : a < W64 -> k < W64 -> wsub (wadd a k) k = a.
Proof.
  intros Ha Hk. unfold wadd. rewrite wsub_mod by (try apply wrap_lt; assumption).
  rewrite wrap_mod. rewrite W64_val in *.
  destruct (N.lt_ge_cases (a + k) 18446744073709551616) as [H|H].
  - rewrite (N.mod_small (a + k)) by assumption.
    replace (a + k + 18446744073709551616 - k) with (a + 1 * 18446744073709551616) by lia.
    rewrite N.mod_add by lia. apply N.mod_small. assumption.
  - assert (E : (a + k) mod 18446744073709551616 = a + k - 18446744073709551616).
    { symmetry. apply (N.mod_unique _ _ 1); lia. }
    rewrite E. replace (a + k - 18446744073709551616 + 18446744073709551616 - k) with a by lia.
    apply N.mod_small. assumption.
Qed.

Lemma ptr_encode_lt null p k0 k1 : ptr_encode null p k0 k1 < W64.
Proof. unfold ptr_encode, wadd. apply wrap_lt. Qed.

(* decode (encode p) = p for every 64-bit p other than the stand-in of NULL *)
Theorem decode_encode null p k0 k1 :
  null < W64 -> p < W64 -> k0 < W64 -> k1 < W64 -> p <> null ->
  ptr_decode null (ptr_encode null p k0 k1) k0 k1 = p.
Proof.
  intros Hn Hp H0 H1 Hne. unfold ptr_decode, ptr_encode. cbv zeta.
  set (x := if p =? 0 then null else p).
  assert (Hx : x < W64) by (unfold x; destruct (p =? 0); assumption).
  rewrite wsub_wadd by (try apply rotl_lt; try apply lxor_lt64; assumption).
  rewrite rotr_rotl by (apply lxor_lt64; assumption).
  rewrite lxor_cancel. unfold x.
  destruct (p =? 0) eqn:E.
  - apply N.eqb_eq in E. rewrite N.eqb_refl. lia.
  - apply N.eqb_neq in Hne. rewrite Hne. reflexivity.
Qed.

(* ------------------------------------------------------------------------------------- *)
(* bytes                                                                                   *)
(* ------------------------------------------------------------------------------------- *)
Lemma byte_lt b o : byte b o < 256.
Proof. unfold byte. apply N.mod_lt. lia. Qed.

Lemma load_le_ext n : forall b b' o,
  (forall k, k < N.of_nat n -> byte b (o + k) = byte b' (o + k)) ->
  load_le n b o = load_le n b' o.
Proof.
  induction n as [|n IH]; intros b b' o H; [reflexivity|].
  cbn [load_le]. rewrite <- (N.add_0_r o) at 1 3. rewrite (H 0) by lia. f_equal. f_equal.
  apply IH. intros k Hk. replace (N.succ o + k) with (o + (k + 1)) by lia. apply H. lia.
Qed.

Lemma load_le_spec n : forall b o v,
  (forall k, k < N.of_nat n -> byte b (o + k) = (v / 256 ^ k) mod 256) ->
  load_le n b o = v mod 256 ^ N.of_nat n.
Proof.
  induction n as [|n IH]; intros b o v H.
  - cbn. rewrite N.mod_1_r. reflexivity.
  - cbn [load_le]. rewrite (IH b (N.succ o) (v / 256)).
    + pose proof (H 0 ltac:(lia)) as H0. rewrite N.add_0_r, N.pow_0_r, N.div_1_r in H0. rewrite H0.
      rewrite Nat2N.inj_succ, N.pow_succ_r'. rewrite N.mod_mul_r by (try apply N.pow_nonzero; lia).
      reflexivity.
    + intros k Hk. replace (N.succ o + k) with (o + (k + 1)) by lia. rewrite H by lia.
      rewrite N.div_div by (try apply N.pow_nonzero; lia).
      rewrite N.add_1_r, N.pow_succ_r'. reflexivity.
Qed.

Lemma load_le_mod256 n b o : load_le (S n) b o mod 256 = byte b o.
Proof.
  cbn [load_le]. rewrite (N.mul_comm 256), N.mod_add by lia.
  apply N.mod_small. apply byte_lt.
Qed.

Lemma byte_store_in n b o v x : o <= x -> x < o + n -> byte (store_le n b o v) x = (v / 256 ^ (x - o)) mod 256.
Proof.
  intros H1 H2. unfold byte, store_le.
  apply N.leb_le in H1. apply N.ltb_lt in H2. rewrite H1, H2. cbn. apply N.mod_mod. lia.
Qed.

Lemma byte_store_out n b o v x : x < o \/ o + n <= x -> byte (store_le n b o v) x = byte b x.
Proof.
  intros H. unfold byte, store_le.
  destruct (o <=? x) eqn:E1; [|reflexivity]. destruct (x <? o + n) eqn:E2; [|reflexivity].
  apply N.leb_le in E1. apply N.ltb_lt in E2. lia.
Qed.

Lemma byte_fill_in b o n v x : o <= x -> x < o + n -> byte (fill b o n v) x = v mod 256.
Proof.
  intros H1 H2. unfold byte, fill. apply N.leb_le in H1. apply N.ltb_lt in H2. rewrite H1, H2. reflexivity.
Qed.

Lemma byte_fill_out b o n v x : x < o \/ o + n <= x -> byte (fill b o n v) x = byte b x.
Proof.
  intros H. unfold byte, fill.
  destruct (o <=? x) eqn:E1; [|reflexivity]. destruct (x <? o + n) eqn:E2; [|reflexivity].
  apply N.leb_le in E1. apply N.ltb_lt in E2. lia.
Qed.

Lemma load_store_same n b o v : load_le n (store_le (N.of_nat n) b o v) o = v mod 256 ^ N.of_nat n.
Proof.
  apply load_le_spec. intros k Hk. rewrite byte_store_in by lia. f_equal. f_equal. f_equal. lia.
Qed.

Lemma load_store_other n n' b o o' v : o + N.of_nat n <= o' \/ o' + n' <= o ->
  load_le n (store_le n' b o' v) o = load_le n b o.
Proof. intros H. apply load_le_ext. intros k Hk. apply byte_store_out. lia. Qed.

Lemma load_fill_other n b o o' n' v : o + N.of_nat n <= o' \/ o' + n' <= o ->
  load_le n (fill b o' n' v) o = load_le n b o.
Proof. intros H. apply load_le_ext. intros k Hk. apply byte_fill_out. lia. Qed.

Lemma load8_store8 b w : w < W64 -> load_le 8 (store_le 8 b 0 w) 0 = w.
Proof. intros H. rewrite (load_store_same 8). apply N.mod_small. exact H. Qed.

Lemma load4_store4 b o v : v < W32 -> load_le 4 (store_le 4 b o v) o = v.
Proof. intros H. rewrite (load_store_same 4). apply N.mod_small. exact H. Qed.

Lemma upd_same {A} (m : N -> A) i a : upd m i a i = a.
Proof. unfold upd. rewrite N.eqb_refl. reflexivity. Qed.
Lemma upd_other {A} (m : N -> A) i a j : j <> i -> upd m i a j = m j.
Proof. intros H. unfold upd. apply N.eqb_neq in H. rewrite H. reflexivity. Qed.

Lemma first_word_upd_same m i b : first_word (upd m i b) i = load_le 8 b 0.
Proof. unfold first_word. rewrite upd_same. reflexivity. Qed.
Lemma first_word_upd_other m i b j : j <> i -> first_word (upd m i b) j = first_word m j.
Proof. intros H. unfold first_word. rewrite upd_other by assumption. reflexivity. Qed.

(* ------------------------------------------------------------------------------------- *)
(* geometry                                                                                *)
(* ------------------------------------------------------------------------------------- *)
Definition Geom (c : cfg) (s : st) : Prop := geom_b c s = true.

Record GeomP (c : cfg) (capv : N) : Prop := {
  g_bsz : 16 <= bsz c;  g_bsz8 : bsz c mod 8 = 0;  g_ps8 : pstart c mod 8 = 0;
  g_cap : capv <= rsv c;  g_area : rsv c * bsz c <= psize c;  g_rsv : rsv c < W16;
  g_k0 : k0 c < W64;  g_k1 : k1 c < W64;
  g_seg : seg c mod MI_SEGMENT_SIZE = 0;  g_seg0 : 0 < seg c;  g_seg63 : seg c + MI_SEGMENT_SIZE < 2 ^ 63;
  g_pg : seg c <= pgaddr c;  g_pg2 : pgaddr c < pstart c;
  g_end : pstart c + psize c <= seg c + MI_SEGMENT_SIZE;  g_pg0 : 0 < pgaddr c;
  g_b32 : bsz c < W32 }.

Lemma geom_facts c s : Geom c s -> GeomP c (cap s).
Proof.
  unfold Geom, geom_b. intros H.
  repeat (apply andb_prop in H; destruct H as [H ?]).
  constructor; try (apply N.leb_le; assumption); try (apply N.ltb_lt; assumption);
    try (apply N.eqb_eq; assumption).
Qed.

Lemma geom_of_facts c s : GeomP c (cap s) -> Geom c s.
Proof.
  intros [? ? ? ? ? ? ? ? ? ? ? ? ? ? ? ?]. unfold Geom, geom_b.
  repeat (apply andb_true_intro; split); try (apply N.leb_le; assumption);
    try (apply N.ltb_lt; assumption); try (apply N.eqb_eq; assumption).
Qed.

Lemma geom_cap c s s' : Geom c s -> cap s' <= rsv c -> Geom c s'.
Proof.
  intros G H. apply geom_of_facts. destruct (geom_facts _ _ G). constructor; assumption.
Qed.

Lemma W63_lt : 2 ^ 63 < W64. Proof. reflexivity. Qed.

Section GeomLemmas.
Variable c : cfg.
Variable capv : N.
Hypothesis G : GeomP c capv.

Lemma addr_bounds j : j < rsv c -> pstart c <= addr c j /\ addr c j + bsz c <= pstart c + psize c.
Proof.
  destruct G. intros Hj. unfold addr. split; [lia|].
  assert (j * bsz c + bsz c <= rsv c * bsz c) by nia. lia.
Qed.

Lemma area_lt_W64 : pstart c + psize c < W64.
Proof. destruct G. pose proof W63_lt. unfold MI_SEGMENT_SIZE in *. lia. Qed.

Lemma in_same_page_range q : in_same_page c q = true <-> pstart c <= q < pstart c + psize c.
Proof.
  destruct G. unfold in_same_page. split.
  - intros H. apply andb_prop in H as [H H3]. apply andb_prop in H as [H1 H2].
    apply N.leb_le in H2. apply N.ltb_lt in H3. lia.
  - intros [H1 H2]. rewrite (ptr_segment_spec (seg c) q) by (try assumption; lia).
    rewrite N.eqb_refl. apply N.leb_le in H1. apply N.ltb_lt in H2. rewrite H1, H2. reflexivity.
Qed.

Lemma addr_in_page j : j < rsv c -> in_same_page c (addr c j) = true.
Proof. intros Hj. apply in_same_page_range. pose proof (addr_bounds j Hj). destruct G. lia. Qed.

Lemma addr_lt_W64 j : j < rsv c -> addr c j < W64.
Proof. intros Hj. pose proof (addr_bounds j Hj). pose proof area_lt_W64. destruct G. lia. Qed.

Lemma classify_addr j : classify c (addr c j) = NBlk j.
Proof.
  destruct G. unfold classify, addr.
  destruct (pstart c + j * bsz c =? 0) eqn:E; [apply N.eqb_eq in E; lia|].
  replace (pstart c + j * bsz c - pstart c) with (j * bsz c) by lia.
  rewrite N.mod_mul by lia. rewrite N.eqb_refl. rewrite N.div_mul by lia. reflexivity.
Qed.

Lemma classify_blk a j : classify c a = NBlk j -> pstart c <= a -> a = addr c j.
Proof.
  destruct G. unfold classify, addr. destruct (a =? 0); [discriminate|].
  destruct ((a - pstart c) mod bsz c =? 0) eqn:E; [|discriminate].
  intros H Hle. inversion H. apply N.eqb_eq in E.
  pose proof (N.div_mod (a - pstart c) (bsz c) ltac:(lia)). nia.
Qed.

Lemma addr_aligned j : N.land (addr c j) (MI_INTPTR_SIZE - 1) = 0.
Proof.
  destruct G. change (MI_INTPTR_SIZE - 1) with (N.ones 3). rewrite N.land_ones.
  change (2 ^ 3) with 8. unfold addr.
  rewrite N.add_mod by lia. rewrite (g_ps8 _ _ G). rewrite N.add_0_l. rewrite N.mod_mod by lia.
  rewrite N.mul_mod by lia. rewrite (g_bsz8 _ _ G). rewrite N.mul_0_r. reflexivity.
Qed.

Lemma addr_inj i j : addr c i = addr c j -> i = j.
Proof. destruct G. unfold addr. intros H. nia. Qed.

(* a valid head: NULL or a block inside the reserved range *)
Definition okhead (h : option N) : Prop := match h with None => True | Some j => j < rsv c end.

Lemma decode_enc_head h : okhead h -> ptr_decode (pgaddr c) (enc c (haddr c h)) (k0 c) (k1 c) = haddr c h.
Proof.
  intros Hh. destruct G. pose proof area_lt_W64 as HA. unfold enc. apply decode_encode; try assumption; try lia.
  - destruct h as [j|]; cbn; [apply addr_lt_W64; assumption|rewrite W64_val; lia].
  - destruct h as [j|]; cbn; [|lia]. cbn in Hh. pose proof (addr_bounds j Hh). lia.
Qed.

Lemma enc_lt a : enc c a < W64.
Proof. apply ptr_encode_lt. Qed.

Lemma block_nextx_enc m i h : okhead h -> first_word m i = enc c (haddr c h) ->
  block_nextx c m i = haddr c h.
Proof. intros Hh Hf. unfold block_nextx. rewrite Hf. apply decode_enc_head. assumption. Qed.

Lemma block_next_enc m i h : okhead h -> first_word m i = enc c (haddr c h) ->
  block_next c m i = (match h with None => NNull | Some j => NBlk j end, []).
Proof.
  intros Hh Hf. unfold block_next. rewrite (block_nextx_enc m i h Hh Hf). cbv zeta.
  destruct h as [j|]; cbn [haddr].
  - cbn in Hh. rewrite addr_in_page by assumption. rewrite andb_false_r.
    rewrite classify_addr. reflexivity.
  - reflexivity.
Qed.

Lemma set_next_first_word m i h : first_word (set_next c m i h) i = enc c (haddr c h).
Proof. unfold set_next. rewrite first_word_upd_same. apply load8_store8. apply enc_lt. Qed.

Lemma set_next_other m i h j : j <> i -> first_word (set_next c m i h) j = first_word m j.
Proof. intros H. unfold set_next. apply first_word_upd_other. assumption. Qed.

End GeomLemmas.

(* ------------------------------------------------------------------------------------- *)
(* the list the allocator sees from a head                                                 *)
(* ------------------------------------------------------------------------------------- *)
Definition not_wild (n : nxt) : Prop := match n with NWild _ => False | _ => True end.

Inductive chain (c : cfg) (m : N -> blk) : option N -> list N -> Prop :=
| chain_nil : chain c m None []
| chain_cons i n er l :
    block_next c m i = (n, er) -> not_wild n -> chain c m (opt_of n) l -> chain c m (Some i) (i :: l).

(* errors reported when walking over the blocks of l *)
Definition cerrs (c : cfg) (m : N -> blk) (l : list N) : list N :=
  flat_map (fun i => snd (block_next c m i)) l.

Lemma block_next_fw c m m' i : first_word m' i = first_word m i -> block_next c m' i = block_next c m i.
Proof. intros H. unfold block_next, block_nextx. rewrite H. reflexivity. Qed.

Lemma chain_frame c m m' h l : chain c m h l ->
  (forall i, In i l -> first_word m' i = first_word m i) -> chain c m' h l.
Proof.
  induction 1 as [|i n er l Hb Hw Hc IH]; intros Hf; [constructor|].
  econstructor; [rewrite (block_next_fw c m m') by (apply Hf; left; reflexivity); eassumption|assumption|].
  apply IH. intros j Hj. apply Hf. right. assumption.
Qed.

Lemma cerrs_frame c m m' l : (forall i, In i l -> first_word m' i = first_word m i) -> cerrs c m' l = cerrs c m l.
Proof.
  induction l as [|i l IH]; intros Hf; [reflexivity|]. cbn.
  rewrite (block_next_fw c m m') by (apply Hf; left; reflexivity). f_equal.
  apply IH. intros j Hj. apply Hf. right. assumption.
Qed.

Lemma chain_det c m h l : chain c m h l -> forall l', chain c m h l' -> l = l'.
Proof.
  induction 1 as [|i n er l Hb Hw Hc IH]; intros l' H'; inversion H'; subst; [reflexivity|].
  match goal with H : block_next c m i = _ |- _ => rewrite Hb in H; inversion H; subst end.
  f_equal. apply IH. assumption.
Qed.

Lemma chain_some c m i l : chain c m (Some i) l -> exists l', l = i :: l'.
Proof. intros H. inversion H; subst. eexists; reflexivity. Qed.

Lemma chain_none c m l : chain c m None l -> l = [].
Proof. intros H. inversion H. reflexivity. Qed.

Lemma chain_suffix c m h l1 x l2 : chain c m h (l1 ++ x :: l2) -> chain c m (Some x) (x :: l2).
Proof.
  revert h. induction l1 as [|y l1 IH]; intros h H.
  - cbn in H. inversion H; subst. assumption.
  - cbn in H. inversion H; subst. eapply IH. eassumption.
Qed.

(* replace what follows t *)
Lemma chain_replace_tail c m m' h l1 t l2 L' :
  chain c m h (l1 ++ t :: l2) ->
  (forall j, In j l1 -> first_word m' j = first_word m j) ->
  chain c m' (Some t) (t :: L') -> chain c m' h (l1 ++ t :: L').
Proof.
  revert h. induction l1 as [|y l1 IH]; intros h H Hf Ht.
  - cbn in *. inversion H; subst. assumption.
  - cbn in H. inversion H; subst. cbn.
    econstructor; [rewrite (block_next_fw c m m') by (apply Hf; left; reflexivity); eassumption|assumption|].
    apply IH; [assumption| |assumption]. intros j Hj. apply Hf. right. assumption.
Qed.

(* head of the list that follows the first block *)
Lemma chain_tail_head c m i l : chain c m (Some i) (i :: l) ->
  exists n er, block_next c m i = (n, er) /\ not_wild n /\ chain c m (opt_of n) l.
Proof. intros H. inversion H; subst. eauto. Qed.

Definition hd_opt (l : list N) : option N := match l with [] => None | x :: _ => Some x end.

Lemma chain_hd c m h l : chain c m h l -> h = hd_opt l.
Proof. intros H. inversion H; reflexivity. Qed.

(* ------------------------------------------------------------------------------------- *)
(* specifications of the walking functions on a chain                                      *)
(* ------------------------------------------------------------------------------------- *)
Lemma list_contains_notin c m e : forall fuel h l, chain c m h l -> (length l <= fuel)%nat -> ~ In e l ->
  list_contains fuel c m h e = Ok (false, cerrs c m l).
Proof.
  induction fuel as [|f IH]; intros h l Hc Hlen Hn.
  - destruct l; [|cbn in Hlen; lia]. inversion Hc; subst. reflexivity.
  - destruct h as [i|]; [|apply chain_none in Hc; subst; reflexivity].
    destruct (chain_some _ _ _ _ Hc) as [l' ->].
    destruct (chain_tail_head _ _ _ _ Hc) as (n & er & Hb & Hw & Hc').
    cbn [list_contains].
    destruct (i =? e) eqn:E; [apply N.eqb_eq in E; subst; exfalso; apply Hn; left; reflexivity|].
    rewrite Hb. destruct n as [| j | a]; [| |contradiction].
    + rewrite (IH _ l' Hc') by (cbn in Hlen; try lia; intros Hi; apply Hn; right; assumption).
      cbn. rewrite Hb. reflexivity.
    + rewrite (IH _ l' Hc') by (cbn in Hlen; try lia; intros Hi; apply Hn; right; assumption).
      cbn. rewrite Hb. reflexivity.
Qed.

Lemma list_contains_in c m e : forall fuel h l1 l2, chain c m h (l1 ++ e :: l2) -> (length l1 <= fuel)%nat ->
  ~ In e l1 -> list_contains fuel c m h e = Ok (true, cerrs c m l1).
Proof.
  induction fuel as [|f IH]; intros h l1 l2 Hc Hlen Hn.
  - destruct l1; [|cbn in Hlen; lia]. cbn in Hc. apply chain_hd in Hc. subst. cbn. rewrite N.eqb_refl. reflexivity.
  - destruct l1 as [|y l1].
    + cbn in Hc. apply chain_hd in Hc. subst. cbn. rewrite N.eqb_refl. reflexivity.
    + cbn in Hc. pose proof (chain_hd _ _ _ _ Hc) as Hh. cbn in Hh. subst h.
      destruct (chain_tail_head _ _ _ _ Hc) as (n & er & Hb & Hw & Hc').
      cbn [list_contains].
      destruct (y =? e) eqn:E; [apply N.eqb_eq in E; subst; exfalso; apply Hn; left; reflexivity|].
      rewrite Hb. destruct n as [| j | a]; [| |contradiction].
      * rewrite (IH _ l1 l2 Hc') by (cbn in Hlen; try lia; intros Hi; apply Hn; right; assumption).
        cbn. rewrite Hb. reflexivity.
      * rewrite (IH _ l1 l2 Hc') by (cbn in Hlen; try lia; intros Hi; apply Hn; right; assumption).
        cbn. rewrite Hb. reflexivity.
Qed.

Lemma cerrs_app c m l1 l2 : cerrs c m (l1 ++ l2) = cerrs c m l1 ++ cerrs c m l2.
Proof. unfold cerrs. apply flat_map_app. Qed.

Lemma block_next_errs c m i : snd (block_next c m i) = [] \/ snd (block_next c m i) = [EFAULT_].
Proof. unfold block_next. cbv zeta. destruct (negb _ && negb _); [right|left]; reflexivity. Qed.

Lemma cerrs_only_efault c m l : Forall (fun e => e = EFAULT_) (cerrs c m l).
Proof.
  induction l as [|i l IH]; cbn; [constructor|]. apply Forall_app. split; [|assumption].
  destruct (block_next_errs c m i) as [-> | ->]; repeat constructor.
Qed.

Lemma last_nonempty (x : N) l : forall d d', last (x :: l) d = last (x :: l) d'.
Proof.
  revert x. induction l as [|y l IH]; intros x d d'; [reflexivity|].
  change (last (y :: l) d = last (y :: l) d'). apply IH.
Qed.

Lemma last_cons (j : N) l t : last (j :: l) t = last l j.
Proof.
  destruct l as [|x l]; [reflexivity|]. change (last (x :: l) t = last (x :: l) j). apply last_nonempty.
Qed.

Lemma tf_walk_chain c m mx : forall fuel cnt t l,
  chain c m (Some t) (t :: l) -> cnt + N.of_nat (length l) <= mx + 1 -> (length l < fuel)%nat ->
  tf_walk fuel c m mx cnt t = Ok (cnt + N.of_nat (length l), last l t, cerrs c m (t :: l)).
Proof.
  induction fuel as [|f IH]; intros cnt t l Hc Hcnt Hf; [lia|].
  destruct (chain_tail_head _ _ _ _ Hc) as (n & er & Hb & Hw & Hc').
  cbn [tf_walk]. rewrite Hb.
  destruct n as [| j | a]; [| |contradiction].
  - cbn in Hc'. apply chain_none in Hc'. subst. cbn. rewrite Hb, N.add_0_r, app_nil_r. reflexivity.
  - cbn in Hc'. destruct (chain_some _ _ _ _ Hc') as [l' ->].
    cbn [length] in Hcnt, Hf. rewrite Nat2N.inj_succ in Hcnt.
    assert (Hle : (cnt <=? mx) = true) by (apply N.leb_le; lia). rewrite Hle.
    rewrite (IH (cnt + 1) j l' Hc') by lia.
    cbn [length]. rewrite Nat2N.inj_succ. cbn [cerrs flat_map]. rewrite Hb. cbn [snd].
    f_equal. rewrite last_cons.
    replace (cnt + 1 + N.of_nat (length l')) with (cnt + N.succ (N.of_nat (length l'))) by lia.
    reflexivity.
Qed.

Lemma last_of_chain c m : forall fuel t l,
  chain c m (Some t) (t :: l) -> (length l < fuel)%nat ->
  last_of fuel c m t = Ok (last l t, cerrs c m (t :: l)).
Proof.
  induction fuel as [|f IH]; intros t l Hc Hf; [lia|].
  destruct (chain_tail_head _ _ _ _ Hc) as (n & er & Hb & Hw & Hc').
  cbn [last_of]. rewrite Hb.
  destruct n as [| j | a]; [| |contradiction].
  - cbn in Hc'. apply chain_none in Hc'. subst. cbn. rewrite Hb, app_nil_r. reflexivity.
  - cbn in Hc'. destruct (chain_some _ _ _ _ Hc') as [l' ->].
    cbn [length] in Hf. rewrite (IH j l' Hc') by lia.
    cbn [cerrs flat_map]. rewrite Hb. cbn [snd]. rewrite last_cons. reflexivity.
Qed.

Lemma walk_chain c m : forall fuel h l, chain c m h l -> (length l <= fuel)%nat ->
  walk fuel c m h = Ok (l, cerrs c m l).
Proof.
  induction fuel as [|f IH]; intros h l Hc Hlen.
  - destruct l; [|cbn in Hlen; lia]. inversion Hc; subst. reflexivity.
  - destruct h as [i|]; [|apply chain_none in Hc; subst; reflexivity].
    destruct (chain_some _ _ _ _ Hc) as [l' ->].
    destruct (chain_tail_head _ _ _ _ Hc) as (n & er & Hb & Hw & Hc').
    cbn [walk]. rewrite Hb.
    destruct n as [| j | a]; [| |contradiction].
    + rewrite (IH _ l' Hc') by (cbn in Hlen; lia). cbn. rewrite Hb. reflexivity.
    + rewrite (IH _ l' Hc') by (cbn in Hlen; lia). cbn. rewrite Hb. reflexivity.
Qed.

Lemma walk_sound c m : forall fuel h l er, walk fuel c m h = Ok (l, er) -> chain c m h l /\ er = cerrs c m l.
Proof.
  induction fuel as [|f IH]; intros h l er H.
  - destruct h; cbn in H; [discriminate|]. inversion H; subst. split; [constructor|reflexivity].
  - destruct h as [i|]; cbn in H; [|inversion H; subst; split; [constructor|reflexivity]].
    destruct (block_next c m i) as [n e0] eqn:Hb.
    destruct n as [| j | a]; [| |discriminate].
    + destruct (walk f c m (opt_of NNull)) as [[l' er']| |] eqn:Hw; try discriminate.
      inversion H; subst. destruct (IH _ _ _ Hw) as [Hc ->]. split.
      * econstructor; [eassumption|exact I|assumption].
      * cbn. rewrite Hb. reflexivity.
    + destruct (walk f c m (opt_of (NBlk j))) as [[l' er']| |] eqn:Hw; try discriminate.
      inversion H; subst. destruct (IH _ _ _ Hw) as [Hc ->]. split.
      * econstructor; [eassumption|exact I|assumption].
      * cbn. rewrite Hb. reflexivity.
Qed.

(* ------------------------------------------------------------------------------------- *)
(* counting helpers                                                                         *)
(* ------------------------------------------------------------------------------------- *)
Notation cnt := (count_occ N.eq_dec).

Lemma sub_nodup (new old : list N) : (forall x, (cnt new x <= cnt old x)%nat) -> NoDup old -> NoDup new.
Proof.
  intros H Hn. apply (NoDup_count_occ N.eq_dec). intros x.
  pose proof (proj1 (NoDup_count_occ N.eq_dec old) Hn x). specialize (H x). lia.
Qed.

Lemma sub_forall (P : N -> Prop) (new old : list N) :
  (forall x, (cnt new x <= cnt old x)%nat) -> Forall P old -> Forall P new.
Proof.
  intros H Hf. rewrite Forall_forall in *. intros x Hx. apply Hf.
  apply (count_occ_In N.eq_dec) in Hx. apply (count_occ_In N.eq_dec). specialize (H x). lia.
Qed.

Lemma cnt_notin (l : list N) x : ~ In x l -> cnt l x = 0%nat.
Proof. intros H. apply count_occ_not_In. assumption. Qed.

Lemma cnt_in_pos (l : list N) x : In x l -> (cnt l x > 0)%nat.
Proof. intros H. apply (count_occ_In N.eq_dec). assumption. Qed.

Lemma cnt_pos_in (l : list N) x : (cnt l x > 0)%nat -> In x l.
Proof. intros H. apply (count_occ_In N.eq_dec). assumption. Qed.

Fixpoint rem (i : N) (l : list N) : list N :=
  match l with [] => [] | x :: t => if x =? i then rem i t else x :: rem i t end.

Lemma cnt_rem i l x : cnt (rem i l) x = if N.eq_dec i x then 0%nat else cnt l x.
Proof.
  induction l as [|y l IH]; cbn; [destruct (N.eq_dec i x); reflexivity|].
  destruct (y =? i) eqn:E.
  - apply N.eqb_eq in E. subst y. rewrite IH. destruct (N.eq_dec i x); reflexivity.
  - apply N.eqb_neq in E. cbn. rewrite IH.
    destruct (N.eq_dec y x); destruct (N.eq_dec i x); subst; try reflexivity. contradiction.
Qed.

Lemma rem_notin i l : ~ In i l -> rem i l = l.
Proof.
  induction l as [|y l IH]; intros H; [reflexivity|]. cbn.
  destruct (y =? i) eqn:E; [apply N.eqb_eq in E; subst; exfalso; apply H; left; reflexivity|].
  f_equal. apply IH. intros Hi. apply H. right. assumption.
Qed.

Lemma rem_length i l : NoDup l -> In i l -> S (length (rem i l)) = length l.
Proof.
  induction l as [|y l IH]; intros Hn Hi; [contradiction|]. cbn.
  apply NoDup_cons_iff in Hn as [Hy Hn].
  destruct (y =? i) eqn:E.
  - apply N.eqb_eq in E. subst y. rewrite rem_notin by assumption. reflexivity.
  - apply N.eqb_neq in E. cbn. f_equal. apply IH; [assumption|]. destruct Hi; [contradiction|assumption].
Qed.

Lemma nodup_bound (l : list N) n : NoDup l -> Forall (fun x => x < n) l -> N.of_nat (length l) <= n.
Proof.
  intros Hn Hf.
  assert (Hi : incl (map N.to_nat l) (seq 0 (N.to_nat n))).
  { intros x Hx. apply in_map_iff in Hx as (y & <- & Hy). rewrite Forall_forall in Hf.
    specialize (Hf y Hy). apply in_seq. lia. }
  assert (Hnd : NoDup (map N.to_nat l)).
  { apply FinFun.Injective_map_NoDup; [|assumption]. intros a b H. apply N2Nat.inj. assumption. }
  pose proof (NoDup_incl_length Hnd Hi) as Hl. rewrite map_length, seq_length in Hl. lia.
Qed.

Lemma nodup_app_intro (a b : list N) : NoDup a -> NoDup b -> (forall x, In x a -> ~ In x b) -> NoDup (a ++ b).
Proof.
  intros Ha Hb Hd. apply (NoDup_count_occ N.eq_dec). intros x. rewrite count_occ_app.
  pose proof (proj1 (NoDup_count_occ N.eq_dec a) Ha x).
  pose proof (proj1 (NoDup_count_occ N.eq_dec b) Hb x).
  destruct (in_dec N.eq_dec x a) as [Hi|Hi].
  - rewrite (cnt_notin b x) by (apply Hd; assumption). lia.
  - rewrite (cnt_notin a x) by assumption. lia.
Qed.

Ltac cnt_solve :=
  intros; repeat rewrite ?count_occ_app, ?cnt_rem in *; cbn [count_occ] in *;
  repeat (match goal with
          | |- context [N.eq_dec ?a ?b] => destruct (N.eq_dec a b)
          | H : context [N.eq_dec ?a ?b] |- _ => destruct (N.eq_dec a b)
          end); subst; try contradiction; try lia.

(* ------------------------------------------------------------------------------------- *)
(* the invariant that survives detected errors                                             *)
(* ------------------------------------------------------------------------------------- *)
Definition WInvL (c : cfg) (s : st) (live F L T : list N) : Prop :=
  Geom c s /\
  chain c (mem s) (free s) F /\ chain c (mem s) (lfree s) L /\ chain c (mem s) (tfree s) T /\
  NoDup (F ++ L ++ T ++ live) /\ Forall (fun x => x < cap s) (F ++ L ++ T ++ live) /\
  N.of_nat (length live) + N.of_nat (length T) <= used s /\
  used s + N.of_nat (length F) + N.of_nat (length L) <= cap s.

Definition WInv (c : cfg) (s : st) (live : list N) : Prop := exists F L T, WInvL c s live F L T.

Lemma chain_upd c m i b h l : chain c m h l -> ~ In i l -> chain c (upd m i b) h l.
Proof.
  intros Hc Hn. apply (chain_frame c m); [assumption|].
  intros j Hj. apply first_word_upd_other. intros ->. contradiction.
Qed.

Lemma okhead_chain c m h l capv : chain c m h l -> Forall (fun x => x < capv) l -> capv <= rsv c -> okhead c h.
Proof.
  intros Hc Hf Hle. destruct h as [j|]; [|exact I]. destruct (chain_some _ _ _ _ Hc) as [l' ->].
  inversion Hf; subst. cbn. lia.
Qed.

Lemma opt_of_head (h : option N) : opt_of (match h with None => NNull | Some j => NBlk j end) = h.
Proof. destruct h; reflexivity. Qed.

(* pushing block i in front of a list *)
Lemma chain_push c capv m i b h l :
  GeomP c capv -> okhead c h -> chain c m h l -> ~ In i l -> load_le 8 b 0 = enc c (haddr c h) ->
  chain c (upd m i b) (Some i) (i :: l).
Proof.
  intros G Hh Hc Hn Hb.
  assert (Hfw : first_word (upd m i b) i = enc c (haddr c h)) by (rewrite first_word_upd_same; assumption).
  econstructor.
  - apply (block_next_enc c capv G _ i h Hh Hfw).
  - destruct h; exact I.
  - rewrite opt_of_head. apply chain_upd; assumption.
Qed.

Lemma W16_val : W16 = 65536. Proof. reflexivity. Qed.

Section Steps.
Variable c : cfg.

Lemma winv_lengths s live F L T : WInvL c s live F L T ->
  (length F <= N.to_nat (cap s))%nat /\ (length L <= N.to_nat (cap s))%nat /\ (length T <= N.to_nat (cap s))%nat /\
  cap s < W16 /\ used s < W16.
Proof.
  intros (G & _ & _ & _ & _ & _ & H1 & H2). destruct (geom_facts _ _ G). rewrite W16_val in *. lia.
Qed.

(* ---- malloc ---- *)
Lemma malloc_winv s live F L T req : WInvL c s live F L T -> req <= usable c ->
  exists s' r e, malloc c s req = Ok (s', r, e) /\
    WInv c s' (match r with Some i => i :: live | None => live end) /\
    (forall i, r = Some i -> ~ In i live /\ i < cap s).
Proof.
  intros W Hreq. pose proof (winv_lengths _ _ _ _ _ W) as (_ & _ & _ & Hc16 & Hu16).
  destruct W as (G & HF & HL & HT & Hnd & Hlt & Hu1 & Hu2).
  unfold malloc. destruct (free s) as [i|] eqn:Ef.
  - destruct (chain_some _ _ _ _ HF) as [F' ->].
    destruct (chain_tail_head _ _ _ _ HF) as (n & er & Hb & Hw & HF').
    assert (Hr : (usable c <? req) = false) by (apply N.ltb_ge; assumption). rewrite Hr, Hb.
    assert (HiF : ~ In i (F' ++ L ++ T ++ live)).
    { cbn in Hnd. apply NoDup_cons_iff in Hnd as [Hn _]. assumption. }
    repeat rewrite in_app_iff in HiF.
    set (s' := mkSt _ _ _ _ _ _).
    assert (Hres : WInv c s' (i :: live) /\ (~ In i live /\ i < cap s)).
    { split.
      - exists F', L, T. unfold WInvL, s'. cbn [cap free lfree tfree used mem].
        repeat split.
        + eapply geom_cap; [exact G|]. cbn. destruct (geom_facts _ _ G). assumption.
        + apply chain_upd; [assumption|tauto].
        + apply chain_upd; [assumption|tauto].
        + apply chain_upd; [assumption|tauto].
        + eapply sub_nodup; [|exact Hnd]. cnt_solve.
        + eapply sub_forall; [|exact Hlt]. cnt_solve.
        + cbn [length] in *. rewrite Nat2N.inj_succ in *. rewrite N.mod_small by lia. lia.
        + cbn [length] in *. rewrite Nat2N.inj_succ in *. rewrite N.mod_small by lia. lia.
      - split; [tauto|]. inversion Hlt; assumption. }
    destruct n as [| j | a]; [| |contradiction].
    + eexists _, _, _. split; [reflexivity|]. split; [apply Hres|]. intros i0 Hi0. inversion Hi0; subst. apply Hres.
    + eexists _, _, _. split; [reflexivity|]. split; [apply Hres|]. intros i0 Hi0. inversion Hi0; subst. apply Hres.
  - eexists _, _, _. split; [reflexivity|]. split; [exists F, L, T; rewrite <- Ef in HF; unfold WInvL; tauto|]. intros i Hi. discriminate.
Qed.
End Steps.

Section Steps2.
Variable c : cfg.

Lemma eagain_not_efault : EAGAIN_ <> EFAULT_. Proof. discriminate. Qed.

Lemma cerrs_no_eagain m l : ~ In EAGAIN_ (cerrs c m l).
Proof.
  intros H. pose proof (cerrs_only_efault c m l) as Hf. rewrite Forall_forall in Hf.
  apply Hf in H. discriminate.
Qed.

(* a block that is on none of the lists is never reported as a double free *)
Lemma cidf_notin s live F L T i : WInvL c s live F L T -> ~ In i (F ++ L ++ T) ->
  exists e, check_is_double_free c s i = Ok (false, e) /\ ~ In EAGAIN_ e /\
            (cerrs c (mem s) (F ++ L ++ T) = [] -> e = []).
Proof.
  intros W Hn. pose proof (winv_lengths _ _ _ _ _ _ W) as (HlF & HlL & HlT & _ & _).
  destruct W as (G & HF & HL & HT & _).
  repeat rewrite in_app_iff in Hn.
  unfold check_is_double_free. cbv zeta.
  destruct (_ && _).
  - unfold check_is_double_freex, walk_fuel. cbv zeta.
    rewrite (list_contains_notin c (mem s) i _ _ F HF) by (try lia; tauto).
    rewrite (list_contains_notin c (mem s) i _ _ L HL) by (try lia; tauto).
    rewrite (list_contains_notin c (mem s) i _ _ T HT) by (try lia; tauto).
    eexists. split; [reflexivity|]. split.
    + rewrite <- !cerrs_app. apply cerrs_no_eagain.
    + rewrite <- !cerrs_app. tauto.
  - exists []. split; [reflexivity|]. split; [intros []|reflexivity].
Qed.

Lemma live_notin_lists (live F L T : list N) i : NoDup (F ++ L ++ T ++ live) -> In i live -> ~ In i (F ++ L ++ T).
Proof.
  intros Hnd Hi Hx. apply (NoDup_count_occ N.eq_dec) with (x := i) in Hnd.
  apply cnt_in_pos in Hi. apply cnt_in_pos in Hx.
  repeat rewrite count_occ_app in *. lia.
Qed.

Lemma used_dec u : 0 < u -> u < W16 -> (u + W16 - 1) mod W16 = u - 1.
Proof. intros H0 H1. rewrite W16_val in *. replace (u + 65536 - 1) with (u - 1 + 1 * 65536) by lia.
  rewrite N.mod_add by lia. apply N.mod_small. lia. Qed.

(* ---- free of a live block ---- *)
Lemma free_winv s live F L T i : WInvL c s live F L T -> In i live ->
  exists s' e, free_block_local c s i = Ok (s', e) /\ WInv c s' (rem i live) /\ ~ In EAGAIN_ e /\
               lfree s' = Some i /\
               (exists e1, e = e1 ++ check_padding c (mem s i) (addr c i) /\
                           (cerrs c (mem s) (F ++ L ++ T) = [] -> e1 = [])).
Proof.
  intros W Hi. pose proof (winv_lengths _ _ _ _ _ _ W) as (_ & _ & _ & Hc16 & Hu16).
  pose proof W as (G & HF & HL & HT & Hnd & Hlt & Hu1 & Hu2).
  pose proof (live_notin_lists _ _ _ _ _ Hnd Hi) as Hn.
  pose proof (cnt_in_pos _ _ Hi) as Hpos.
  destruct (cidf_notin _ _ _ _ _ _ W Hn) as (e1 & He1 & Hne1 & Hcl1).
  unfold free_block_local. rewrite He1.
  eexists _, _. split; [reflexivity|].
  repeat rewrite in_app_iff in Hn.
  pose proof (geom_facts _ _ G) as GP.
  assert (HLlt : Forall (fun x => x < cap s) L).
  { eapply sub_forall; [|exact Hlt]. cnt_solve. }
  split; [|split; [|split]].
  - exists F, (i :: L), T. unfold WInvL. cbn [cap free lfree tfree used mem].
    repeat split.
    + eapply geom_cap; [exact G|]. cbn. destruct GP; assumption.
    + apply chain_upd; [assumption|tauto].
    + eapply chain_push; [exact GP| |exact HL|tauto|].
      * eapply okhead_chain; [exact HL|exact HLlt|]. destruct GP; assumption.
      * apply load8_store8. apply enc_lt.
    + apply chain_upd; [assumption|tauto].
    + eapply sub_nodup; [|exact Hnd]. cnt_solve.
    + eapply sub_forall; [|exact Hlt]. cnt_solve.
    + pose proof (rem_length i live ltac:(eapply sub_nodup; [|exact Hnd]; cnt_solve) Hi) as Hr.
      rewrite used_dec by lia. lia.
    + pose proof (rem_length i live ltac:(eapply sub_nodup; [|exact Hnd]; cnt_solve) Hi) as Hr.
      cbn [length]. rewrite Nat2N.inj_succ. rewrite used_dec by lia. lia.
  - intros H. apply in_app_iff in H as [H|H]; [contradiction|].
    unfold check_padding in H. destruct (verify_padding _ _ _) as [[ok ?] ?]. destruct ok; [contradiction|].
    destruct H as [H|[]]. discriminate.
  - reflexivity.
  - exists e1. split; [reflexivity|assumption].
Qed.

(* ---- remote free of a live block ---- *)
Lemma remote_winv s live F L T i : WInvL c s live F L T -> In i live ->
  WInv c (fst (remote_free c s i)) (rem i live).
Proof.
  intros W Hi.
  pose proof W as (G & HF & HL & HT & Hnd & Hlt & Hu1 & Hu2).
  pose proof (live_notin_lists _ _ _ _ _ Hnd Hi) as Hn.
  pose proof (cnt_in_pos _ _ Hi) as Hpos.
  repeat rewrite in_app_iff in Hn.
  pose proof (geom_facts _ _ G) as GP.
  assert (HTlt : Forall (fun x => x < cap s) T).
  { eapply sub_forall; [|exact Hlt]. cnt_solve. }
  exists F, L, (i :: T). unfold remote_free, WInvL. cbn [fst cap free lfree tfree used mem].
  repeat split.
  + eapply geom_cap; [exact G|]. cbn. destruct GP; assumption.
  + apply chain_upd; [assumption|tauto].
  + apply chain_upd; [assumption|tauto].
  + eapply chain_push; [exact GP| |exact HT|tauto|].
    * eapply okhead_chain; [exact HT|exact HTlt|]. destruct GP; assumption.
    * apply load8_store8. apply enc_lt.
  + eapply sub_nodup; [|exact Hnd]. cnt_solve.
  + eapply sub_forall; [|exact Hlt]. cnt_solve.
  + pose proof (rem_length i live ltac:(eapply sub_nodup; [|exact Hnd]; cnt_solve) Hi) as Hr.
    cbn [length]. rewrite Nat2N.inj_succ. lia.
  + assumption.
Qed.

(* ---- the program writes into a block it holds ---- *)
Lemma write_winv s live F L T i b : WInvL c s live F L T -> In i live ->
  WInv c (set_mem s (upd (mem s) i b)) live.
Proof.
  intros W Hi.
  pose proof W as (G & HF & HL & HT & Hnd & Hlt & Hu1 & Hu2).
  pose proof (live_notin_lists _ _ _ _ _ Hnd Hi) as Hn.
  repeat rewrite in_app_iff in Hn.
  exists F, L, T. unfold set_mem, WInvL. cbn [cap free lfree tfree used mem].
  repeat split; try assumption; try (apply chain_upd; [assumption|tauto]).
Qed.

(* ---- a link of a freed block is overwritten with a value that does not decode into the area ---- *)
Lemma chain_cut_at m m' i h l : chain c m h l -> NoDup l ->
  (forall j, j <> i -> first_word m' j = first_word m j) ->
  fst (block_next c m' i) = NNull ->
  exists l1 l2, l = l1 ++ l2 /\ chain c m' h l1.
Proof.
  intros Hc Hnd Hf Hb.
  destruct (in_dec N.eq_dec i l) as [Hi|Hi].
  - apply in_split in Hi as (a & b & ->).
    assert (Ha : ~ In i a).
    { intros Hx. apply (NoDup_count_occ N.eq_dec) with (x := i) in Hnd. apply cnt_in_pos in Hx.
      rewrite count_occ_app in Hnd. cbn in Hnd. destruct (N.eq_dec i i); [lia|contradiction]. }
    exists (a ++ [i]), b. split; [rewrite <- app_assoc; reflexivity|].
    eapply chain_replace_tail; [exact Hc| |].
    + intros j Hj. apply Hf. intros ->. contradiction.
    + destruct (block_next c m' i) as [n er] eqn:E. cbn in Hb. subst n.
      econstructor; [exact E|exact I|constructor].
  - exists l, []. split; [rewrite app_nil_r; reflexivity|].
    eapply chain_frame; [exact Hc|]. intros j Hj. apply Hf. intros ->. contradiction.
Qed.

Lemma block_next_forged m i w : w < W64 ->
  let n := ptr_decode (pgaddr c) w (k0 c) (k1 c) in
  first_word m i = w ->
  (n = 0 -> block_next c m i = (NNull, [])) /\
  (n <> 0 -> in_same_page c n = false -> block_next c m i = (NNull, [EFAULT_])).
Proof.
  intros Hw n Hf. unfold block_next, block_nextx. rewrite Hf. fold n. cbv zeta. split.
  - intros ->. reflexivity.
  - intros Hn Hp. apply N.eqb_neq in Hn. rewrite Hn, Hp. reflexivity.
Qed.

Lemma overwrite_winv s live F L T i w : WInvL c s live F L T -> ~ In i live -> w < W64 ->
  (let n := ptr_decode (pgaddr c) w (k0 c) (k1 c) in n = 0 \/ in_same_page c n = false) ->
  WInv c (overwrite_link s i w) live.
Proof.
  intros W Hi Hw Hdec. cbv zeta in Hdec.
  pose proof W as (G & HF & HL & HT & Hnd & Hlt & Hu1 & Hu2).
  remember (upd (mem s) i (store_le 8 (mem s i) 0 w)) as m' eqn:Em.
  assert (Hfw : first_word m' i = w).
  { rewrite Em. rewrite first_word_upd_same. apply load8_store8. assumption. }
  assert (Hother : forall j, j <> i -> first_word m' j = first_word (mem s) j).
  { intros j Hj. rewrite Em. apply first_word_upd_other. assumption. }
  assert (Hb : fst (block_next c m' i) = NNull).
  { destruct (block_next_forged m' i w Hw Hfw) as [H0 H1].
    destruct (N.eq_dec (ptr_decode (pgaddr c) w (k0 c) (k1 c)) 0) as [E|E].
    - rewrite (H0 E). reflexivity.
    - destruct Hdec as [Hd|Hd]; [contradiction|]. rewrite (H1 E Hd). reflexivity. }
  destruct (chain_cut_at _ m' i _ _ HF ltac:(eapply sub_nodup; [|exact Hnd]; cnt_solve) Hother Hb) as (F1 & F2 & -> & HF1).
  destruct (chain_cut_at _ m' i _ _ HL ltac:(eapply sub_nodup; [|exact Hnd]; cnt_solve) Hother Hb) as (L1 & L2 & -> & HL1).
  destruct (chain_cut_at _ m' i _ _ HT ltac:(eapply sub_nodup; [|exact Hnd]; cnt_solve) Hother Hb) as (T1 & T2 & -> & HT1).
  exists F1, L1, T1. unfold overwrite_link, set_mem, WInvL. cbn [cap free lfree tfree used mem]. rewrite <- Em.
  repeat rewrite app_length in *. repeat rewrite Nat2N.inj_add in *.
  repeat split; try assumption; try lia.
  - eapply sub_nodup; [|exact Hnd]. cnt_solve.
  - eapply sub_forall; [|exact Hlt]. cnt_solve.
Qed.

(* ---- second free of a block that is on one of the lists (link intact) ---- *)
Lemma double_free_winv s live F L T i : WInvL c s live F L T -> In i (F ++ L ++ T) ->
  snd (block_next c (mem s) i) = [] ->
  exists e, free_block_local c s i = Ok (s, e) /\ In EAGAIN_ e /\
            (cerrs c (mem s) (F ++ L ++ T) = [] -> e = [EAGAIN_]).
Proof.
  intros W Hi Hintact. pose proof (winv_lengths _ _ _ _ _ _ W) as (HlF & HlL & HlT & _ & _).
  pose proof W as (G & HF & HL & HT & Hnd & Hlt & Hu1 & Hu2).
  pose proof (geom_facts _ _ G) as GP.
  (* the quick test passes *)
  assert (Hq : (N.land (block_nextx c (mem s) i) (MI_INTPTR_SIZE - 1) =? 0) &&
               ((block_nextx c (mem s) i =? 0) || in_same_page c (block_nextx c (mem s) i)) = true).
  { assert (Hch : exists h l, chain c (mem s) h l /\ In i l).
    { repeat rewrite in_app_iff in Hi. destruct Hi as [H|[H|H]]; eauto. }
    destruct Hch as (h & l & Hc & Hil). apply in_split in Hil as (a & b & ->).
    apply chain_suffix in Hc. destruct (chain_tail_head _ _ _ _ Hc) as (n & er & Hb & Hw & _).
    rewrite Hb in Hintact. cbn in Hintact. subst er. unfold block_next in Hb. cbv zeta in Hb.
    destruct (block_nextx c (mem s) i =? 0) eqn:E0.
    - apply N.eqb_eq in E0. rewrite E0. reflexivity.
    - cbn [negb andb] in Hb. destruct (in_same_page c (block_nextx c (mem s) i)) eqn:Ep; [|discriminate].
      cbn in Hb. inversion Hb as [Hcl]. rewrite orb_true_r, andb_true_r.
      destruct n as [| j | a']; [| |contradiction].
      + unfold classify in Hcl. rewrite E0 in Hcl. cbv zeta in Hcl.
        destruct (_ mod _ =? 0); discriminate.
      + apply (in_same_page_range c _ GP) in Ep.
        rewrite (classify_blk c _ GP _ j Hcl) by lia.
        rewrite (addr_aligned c _ GP). reflexivity. }
  unfold free_block_local, check_is_double_free. cbv zeta. rewrite Hq.
  unfold check_is_double_freex, walk_fuel. cbv zeta.
  assert (HndF : NoDup F) by (eapply sub_nodup; [|exact Hnd]; cnt_solve).
  assert (HndL : NoDup L) by (eapply sub_nodup; [|exact Hnd]; cnt_solve).
  assert (HndT : NoDup T) by (eapply sub_nodup; [|exact Hnd]; cnt_solve).
  assert (Hsplit : forall l, NoDup l -> In i l -> exists a b, l = a ++ i :: b /\ ~ In i a).
  { intros l Hl Hil. apply in_split in Hil as (a & b & ->). exists a, b. split; [reflexivity|].
    intros Hx. apply (NoDup_count_occ N.eq_dec) with (x := i) in Hl. apply cnt_in_pos in Hx.
    rewrite count_occ_app in Hl. cbn in Hl. destruct (N.eq_dec i i); [lia|contradiction]. }
  destruct (in_dec N.eq_dec i F) as [HiF|HiF].
  { destruct (Hsplit F HndF HiF) as (a & b & -> & Ha).
    rewrite (list_contains_in c (mem s) i _ _ a b HF) by (try assumption; rewrite app_length in HlF; lia).
    eexists. split; [reflexivity|]. split; [apply in_app_iff; right; left; reflexivity|].
    intros Hcl. repeat rewrite cerrs_app in Hcl. apply app_eq_nil in Hcl as [Hcl _]. apply app_eq_nil in Hcl as [-> _]. reflexivity. }
  rewrite (list_contains_notin c (mem s) i _ _ F HF) by (try lia; assumption).
  destruct (in_dec N.eq_dec i L) as [HiL|HiL].
  { destruct (Hsplit L HndL HiL) as (a & b & -> & Ha).
    rewrite (list_contains_in c (mem s) i _ _ a b HL) by (try assumption; rewrite app_length in HlL; lia).
    eexists. split; [reflexivity|]. split; [apply in_app_iff; right; apply in_app_iff; right; left; reflexivity|].
    intros Hcl. repeat rewrite cerrs_app in Hcl. apply app_eq_nil in Hcl as [-> Hcl]. apply app_eq_nil in Hcl as [Hcl _].
    apply app_eq_nil in Hcl as [-> _]. reflexivity. }
  rewrite (list_contains_notin c (mem s) i _ _ L HL) by (try lia; assumption).
  assert (HiT : In i T) by (repeat rewrite in_app_iff in Hi; tauto).
  destruct (Hsplit T HndT HiT) as (a & b & -> & Ha).
  rewrite (list_contains_in c (mem s) i _ _ a b HT) by (try assumption; rewrite app_length in HlT; lia).
  eexists. split; [reflexivity|]. split; [repeat (apply in_app_iff; right); left; reflexivity|].
  intros Hcl. repeat rewrite cerrs_app in Hcl. apply app_eq_nil in Hcl as [-> Hcl]. apply app_eq_nil in Hcl as [-> Hcl].
  apply app_eq_nil in Hcl as [-> _]. reflexivity.
Qed.

End Steps2.

Section Steps3.
Variable c : cfg.

Lemma split_last (l : list N) x : exists a, x :: l = a ++ [last l x].
Proof.
  revert x. induction l as [|y l IH]; intros x; [exists []; reflexivity|].
  destruct (IH y) as [a Ha]. exists (x :: a). rewrite last_cons. cbn. rewrite Ha. reflexivity.
Qed.

Lemma used_sub u n : n <= u -> u < W16 -> (u + W16 - n mod W16) mod W16 = u - n.
Proof.
  intros H0 H1. rewrite W16_val in *. rewrite (N.mod_small n) by lia.
  replace (u + 65536 - n) with (u - n + 1 * 65536) by lia.
  rewrite N.mod_add by lia. apply N.mod_small. lia.
Qed.

(* relinking the last block `t` of a list in front of another list *)
Lemma chain_relink capv m h a t lh Lx :
  GeomP c capv -> okhead c lh ->
  chain c m h (a ++ [t]) -> ~ In t a -> chain c m lh Lx -> ~ In t Lx ->
  chain c (set_next c m t lh) h (a ++ t :: Lx).
Proof.
  intros G Hh Hc Ha HL Ht.
  eapply chain_replace_tail; [exact Hc| |].
  - intros j Hj. apply set_next_other. intros ->. contradiction.
  - econstructor.
    + apply (block_next_enc c capv G _ t lh Hh). apply set_next_first_word.
    + destruct lh; exact I.
    + rewrite opt_of_head. apply (chain_frame c m); [assumption|].
      intros j Hj. apply set_next_other. intros ->. contradiction.
Qed.

Lemma notin_last_prefix (a : list N) t : NoDup (a ++ [t]) -> ~ In t a.
Proof.
  intros Hn Hx. apply (NoDup_count_occ N.eq_dec) with (x := t) in Hn. apply cnt_in_pos in Hx.
  rewrite count_occ_app in Hn. cbn in Hn. destruct (N.eq_dec t t); [lia|contradiction].
Qed.

(* ---- _mi_page_thread_free_collect ---- *)
Lemma tfc_winv s live F L T : WInvL c s live F L T ->
  exists s' e, thread_free_collect c s = Ok (s', e) /\ WInvL c s' live F (T ++ L) [] /\
               (cerrs c (mem s) T = [] -> e = []).
Proof.
  intros W. pose proof (winv_lengths _ _ _ _ _ _ W) as (HlF & HlL & HlT & Hc16 & Hu16).
  pose proof W as (G & HF & HL & HT & Hnd & Hlt & Hu1 & Hu2).
  pose proof (geom_facts _ _ G) as GP.
  unfold thread_free_collect. destruct (tfree s) as [head|] eqn:Et.
  - destruct (chain_some _ _ _ _ HT) as [T' ->].
    cbn [length] in *. rewrite Nat2N.inj_succ in *.
    rewrite (tf_walk_chain c (mem s) (cap s) (tf_fuel s) 1 head T' HT) by (unfold tf_fuel; lia).
    assert (Hcnt : (cap s <? 1 + N.of_nat (length T')) = false) by (apply N.ltb_ge; lia).
    rewrite Hcnt.
    eexists _, _. split; [reflexivity|]. split; [|intros Hcl; exact Hcl].
    destruct (split_last T' head) as [a Ha]. set (t := last T' head) in *.
    pose proof (f_equal (@length N) Ha) as Hlen. cbn [length] in Hlen. rewrite app_length in Hlen. cbn [length] in Hlen.
    rewrite Ha in *.
    assert (HndT : NoDup (a ++ [t])) by (eapply sub_nodup; [|exact Hnd]; cnt_solve).
    pose proof (notin_last_prefix _ _ HndT) as Hta.
    assert (HtL : ~ In t L).
    { intros Hx. apply (NoDup_count_occ N.eq_dec) with (x := t) in Hnd. apply cnt_in_pos in Hx.
      repeat rewrite count_occ_app in Hnd. cbn in Hnd. destruct (N.eq_dec t t); [lia|contradiction]. }
    assert (HtF : ~ In t F).
    { intros Hx. apply (NoDup_count_occ N.eq_dec) with (x := t) in Hnd. apply cnt_in_pos in Hx.
      repeat rewrite count_occ_app in Hnd. cbn in Hnd. destruct (N.eq_dec t t); [lia|contradiction]. }
    assert (HLlt : Forall (fun x => x < cap s) L) by (eapply sub_forall; [|exact Hlt]; cnt_solve).
    unfold WInvL. cbn [cap free lfree tfree used mem].
    repeat split.
    + eapply geom_cap; [exact G|]. cbn. destruct GP; assumption.
    + apply (chain_frame c (mem s)); [assumption|]. intros j Hj. apply set_next_other. intros ->. contradiction.
    + rewrite <- app_assoc. cbn [app].
      eapply chain_relink; [exact GP| |exact HT|exact Hta|exact HL|exact HtL].
      eapply okhead_chain; [exact HL|exact HLlt|]. destruct GP; assumption.
    + constructor.
    + eapply sub_nodup; [|exact Hnd]. cnt_solve.
    + eapply sub_forall; [|exact Hlt]. cnt_solve.
    + rewrite used_sub by lia. cbn [length]. lia.
    + rewrite used_sub by lia. repeat rewrite app_length. cbn [length]. repeat rewrite Nat2N.inj_add. lia.
  - apply chain_none in HT. subst T. eexists _, _. split; [reflexivity|]. split; [|reflexivity].
    cbn [app]. unfold WInvL. rewrite Et. repeat split; try assumption. constructor.
Qed.

(* ---- _mi_page_free_collect ---- *)
Lemma collect_winv s live F L T force : WInvL c s live F L T ->
  exists s' e, free_collect c s force = Ok (s', e) /\ WInv c s' live.
Proof.
  intros W. unfold free_collect.
  assert (H1 : exists s1 e1 L1 T1, (if force || match tfree s with Some _ => true | None => false end
                 then thread_free_collect c s else Ok (s, [])) = Ok (s1, e1) /\ WInvL c s1 live F L1 T1).
  { destruct (force || _).
    - destruct (tfc_winv _ _ _ _ _ W) as (s1 & e1 & H & W1 & _). eauto 8.
    - eauto 8. }
  destruct H1 as (s1 & e1 & L1 & T1 & -> & W1). clear W.
  pose proof (winv_lengths _ _ _ _ _ _ W1) as (HlF & HlL & HlT & Hc16 & Hu16).
  pose proof W1 as (G & HF & HL & HT & Hnd & Hlt & Hu1 & Hu2).
  pose proof (geom_facts _ _ G) as GP.
  destruct (lfree s1) as [lh|] eqn:El; [|eexists _, _; split; [reflexivity|exists F, L1, T1; assumption]].
  destruct (free s1) as [fh|] eqn:Ef.
  - destruct force; [|eexists _, _; split; [reflexivity|exists F, L1, T1; assumption]].
    destruct (chain_some _ _ _ _ HL) as [L' ->].
    rewrite (last_of_chain c (mem s1) (walk_fuel s1) lh L') by (try exact HL; unfold walk_fuel; cbn [length] in HlL; lia).
    eexists _, _. split; [reflexivity|].
    destruct (split_last L' lh) as [a Ha]. set (t := last L' lh) in *.
    pose proof (f_equal (@length N) Ha) as Hlen. cbn [length] in Hlen. rewrite app_length in Hlen. cbn [length] in Hlen.
    rewrite Ha in *.
    assert (HndL : NoDup (a ++ [t])) by (eapply sub_nodup; [|exact Hnd]; cnt_solve).
    pose proof (notin_last_prefix _ _ HndL) as Hta.
    assert (HtF : ~ In t F).
    { intros Hx. apply (NoDup_count_occ N.eq_dec) with (x := t) in Hnd. apply cnt_in_pos in Hx.
      repeat rewrite count_occ_app in Hnd. cbn in Hnd. destruct (N.eq_dec t t); [lia|contradiction]. }
    assert (HtT : ~ In t T1).
    { intros Hx. apply (NoDup_count_occ N.eq_dec) with (x := t) in Hnd. apply cnt_in_pos in Hx.
      repeat rewrite count_occ_app in Hnd. cbn in Hnd. destruct (N.eq_dec t t); [lia|contradiction]. }
    assert (HFlt : Forall (fun x => x < cap s1) F) by (eapply sub_forall; [|exact Hlt]; cnt_solve).
    exists ((a ++ [t]) ++ F), [], T1. unfold WInvL. cbn [cap free lfree tfree used mem].
    repeat split.
    + eapply geom_cap; [exact G|]. cbn. destruct GP; assumption.
    + rewrite <- app_assoc. cbn [app].
      eapply chain_relink; [exact GP| |exact HL|exact Hta|exact HF|exact HtF].
      eapply okhead_chain; [exact HF|exact HFlt|]. destruct GP; assumption.
    + constructor.
    + apply (chain_frame c (mem s1)); [assumption|]. intros j Hj. apply set_next_other. intros ->. contradiction.
    + eapply sub_nodup; [|exact Hnd]. cnt_solve.
    + eapply sub_forall; [|exact Hlt]. cnt_solve.
    + assumption.
    + repeat rewrite app_length in *. repeat rewrite Nat2N.inj_add in *. cbn [length] in *. lia.
  - apply chain_none in HF. subst F.
    eexists _, _. split; [reflexivity|].
    exists L1, [], T1. unfold WInvL. cbn [cap free lfree tfree used mem].
    repeat split; try assumption; try (constructor; fail);
      try (eapply sub_nodup; [|exact Hnd]; cnt_solve); try (eapply sub_forall; [|exact Hlt]; cnt_solve).
    cbn [length app] in *. lia.
Qed.

(* ---- extending the free list ---- *)
Definition OrderOk (order : list N) (start n : N) : Prop :=
  N.of_nat (length order) = n /\ NoDup order /\ Forall (fun x => start <= x < start + n) order.

Lemma mem_n_in x l : mem_n x l = true <-> In x l.
Proof.
  induction l as [|y l IH]; cbn; [split; [discriminate|intros []]|].
  rewrite orb_true_iff, IH, N.eqb_eq. split; intros [H|H]; auto.
Qed.

Lemma nodup_b_spec l : nodup_b l = true -> NoDup l.
Proof.
  induction l as [|y l IH]; cbn; [constructor|]. intros H. apply andb_prop in H as [H1 H2].
  constructor; [|apply IH; assumption]. intros Hx. apply mem_n_in in Hx. rewrite Hx in H1. discriminate.
Qed.

Lemma is_order_of_ok order start n : is_order_of order start n = true -> OrderOk order start n.
Proof.
  unfold is_order_of. intros H. apply andb_prop in H as [H H3]. apply andb_prop in H as [H1 H2].
  split; [apply N.eqb_eq; assumption|]. split; [apply nodup_b_spec; assumption|].
  rewrite forallb_forall in H3. apply Forall_forall. intros x Hx. specialize (H3 x Hx).
  apply andb_prop in H3 as [Ha Hb]. apply N.leb_le in Ha. apply N.ltb_lt in Hb. lia.
Qed.

Lemma nseq_spec len : forall start x, In x (nseq start len) <-> start <= x < start + N.of_nat len.
Proof.
  induction len as [|len IH]; intros start x; cbn [nseq In].
  - cbn. lia.
  - rewrite IH. rewrite Nat2N.inj_succ. lia.
Qed.

Lemma nseq_ok start len : OrderOk (nseq start len) start (N.of_nat len).
Proof.
  split; [|split].
  - revert start. induction len as [|len IH]; intros start; [reflexivity|]. cbn [nseq length].
    rewrite !Nat2N.inj_succ. rewrite IH. reflexivity.
  - revert start. induction len as [|len IH]; intros start; cbn [nseq]; constructor; [|apply IH].
    rewrite nseq_spec. lia.
  - apply Forall_forall. intros x Hx. apply nseq_spec in Hx. assumption.
Qed.

Lemma link_order_spec capv (G : GeomP c capv) : forall order m fh,
  NoDup order -> Forall (fun x => x < rsv c) order -> okhead c fh ->
  (forall j, ~ In j order -> first_word (link_order c m order fh) j = first_word m j) /\
  (forall Fx, chain c m fh Fx -> (forall x, In x order -> ~ In x Fx) ->
     chain c (link_order c m order fh) (match order with [] => fh | x :: _ => Some x end) (order ++ Fx)).
Proof.
  induction order as [|i tl IH]; intros m fh Hnd Hlt Hh.
  - cbn. split; [reflexivity|]. intros Fx Hc _. assumption.
  - apply NoDup_cons_iff in Hnd as [Hi Hnd]. inversion Hlt as [|? ? Hi_lt Hlt']; subst.
    destruct tl as [|j tl'].
    + cbn [link_order]. split.
      * intros k Hk. apply set_next_other. intros ->. apply Hk. left. reflexivity.
      * intros Fx Hc Hd. cbn [app]. econstructor.
        -- apply (block_next_enc c capv G _ i fh Hh). apply set_next_first_word.
        -- destruct fh; exact I.
        -- rewrite opt_of_head. apply (chain_frame c m); [assumption|].
           intros k Hk. apply set_next_other. intros ->. apply (Hd i); [left; reflexivity|assumption].
    + cbn [link_order].
      destruct (IH (set_next c m i (Some j)) fh Hnd Hlt' Hh) as [IH1 IH2].
      split.
      * intros k Hk. rewrite IH1 by (intros Hx; apply Hk; right; assumption).
        apply set_next_other. intros ->. apply Hk. left. reflexivity.
      * intros Fx Hc Hd.
        assert (Hj : j < rsv c) by (inversion Hlt'; assumption).
        cbn [app]. econstructor.
        -- apply (block_next_enc c capv G _ i (Some j) Hj). rewrite IH1 by assumption. apply set_next_first_word.
        -- exact I.
        -- cbn [opt_of]. apply (IH2 Fx).
           ++ apply (chain_frame c m); [assumption|].
              intros k Hk. apply set_next_other. intros ->. apply (Hd i); [left; reflexivity|assumption].
           ++ intros x Hx. apply Hd. right. assumption.
Qed.

Lemma extend_count_le s : cap s <= rsv c -> cap s + extend_count c s <= rsv c.
Proof.
  intros H. unfold extend_count. destruct (rsv c <=? cap s) eqn:E; [lia|]. apply N.leb_gt in E. cbv zeta.
  match goal with |- context [if ?a <? ?b then _ else _] => destruct (a <? b) eqn:E2 end.
  - apply N.ltb_lt in E2. lia.
  - lia.
Qed.

Lemma extend_order_winv s live F L T order : WInvL c s live F L T ->
  OrderOk order (cap s) (extend_count c s) ->
  WInv c (extend_order c s order) live.
Proof.
  intros W (Hlen & Hnd & Hrange).
  pose proof W as (G & HF & HL & HT & HndA & Hlt & Hu1 & Hu2).
  pose proof (geom_facts _ _ G) as GP.
  pose proof (extend_count_le s ltac:(destruct GP; assumption)) as Hext.
  destruct order as [|h tl] eqn:Eo; [exists F, L, T; exact W|]. rewrite <- Eo in *.
  assert (Hor : Forall (fun x => x < rsv c) order).
  { eapply Forall_impl; [|exact Hrange]. cbn. intros x Hx. lia. }
  assert (HFlt : Forall (fun x => x < cap s) F) by (eapply sub_forall; [|exact Hlt]; cnt_solve).
  assert (Hfh : okhead c (free s)).
  { eapply okhead_chain; [exact HF|exact HFlt|]. destruct GP; assumption. }
  destruct (link_order_spec (cap s) GP order (mem s) (free s) Hnd Hor Hfh) as [S1 S2].
  assert (Hdisj : forall x, In x order -> ~ In x (F ++ L ++ T ++ live)).
  { intros x Hx Hy. rewrite Forall_forall in Hrange, Hlt. specialize (Hrange x Hx). specialize (Hlt x Hy). lia. }
  exists (order ++ F), L, T. unfold extend_order. rewrite Eo. rewrite <- Eo.
  unfold WInvL. cbn [cap free lfree tfree used mem].
  repeat split.
  - eapply geom_cap; [exact G|]. cbn. lia.
  - replace (Some h) with (match order with [] => free s | x :: _ => Some x end) by (rewrite Eo; reflexivity).
    apply S2; [assumption|]. intros x Hx Hy. apply (Hdisj x Hx). apply in_app_iff. left. assumption.
  - apply (chain_frame c (mem s)); [assumption|]. intros j Hj. apply S1. intros Hx. apply (Hdisj j Hx).
    repeat rewrite in_app_iff. tauto.
  - apply (chain_frame c (mem s)); [assumption|]. intros j Hj. apply S1. intros Hx. apply (Hdisj j Hx).
    repeat rewrite in_app_iff. tauto.
  - rewrite <- app_assoc. apply nodup_app_intro; assumption.
  - rewrite <- app_assoc. apply Forall_app. split.
    + eapply Forall_impl; [|exact Hrange]. cbn. intros x Hx. lia.
    + eapply Forall_impl; [|exact Hlt]. cbn. intros x Hx. lia.
  - assumption.
  - rewrite app_length, Nat2N.inj_add. lia.
Qed.

End Steps3.

(* ------------------------------------------------------------------------------------- *)
(* histories                                                                               *)
(* ------------------------------------------------------------------------------------- *)
(* the blocks the program holds, after operation o returned r *)
Definition ghost (live : list N) (o : op) (r : option N) : list N :=
  match o with
  | OMalloc _ => match r with Some i => i :: live | None => live end
  | OFree i => rem i live
  | ORemoteFree i => rem i live
  | _ => live
  end.

Definition on_lists (c : cfg) (s : st) (i : N) : Prop :=
  exists h l, (h = free s \/ h = lfree s \/ h = tfree s) /\ chain c (mem s) h l /\ In i l.

(* what the program may do: the regular operations on blocks it holds, and the three attacks *)
Definition allowed (c : cfg) (s : st) (live : list N) (o : op) : Prop :=
  match o with
  | OMalloc req => req <= usable c
  | OFree i => In i live \/                       (* regular free *)
               (on_lists c s i /\ snd (block_next c (mem s) i) = [])   (* second free *)
  | ORemoteFree i => In i live
  | OWrite i o _ => In i live /\ o < bsz c
  | OOverflow i _ => In i live
  | OOverwriteLink i w =>
      ~ In i live /\ w < W64 /\
      (ptr_decode (pgaddr c) w (k0 c) (k1 c) = 0 \/
       in_same_page c (ptr_decode (pgaddr c) w (k0 c) (k1 c)) = false)
  | OExtendSecure order => extend_blocked c s = true \/ is_order_of order (cap s) (extend_count c s) = true
  | OTfCollect | OCollect _ | OExtendSeq => True
  end.

Lemma on_lists_in c s live F L T i : WInvL c s live F L T -> on_lists c s i -> In i (F ++ L ++ T).
Proof.
  intros (G & HF & HL & HT & _) (h & l & Hh & Hc & Hi). repeat rewrite in_app_iff.
  destruct Hh as [-> | [-> | ->]].
  - rewrite (chain_det _ _ _ _ HF _ Hc). tauto.
  - rewrite (chain_det _ _ _ _ HL _ Hc). tauto.
  - rewrite (chain_det _ _ _ _ HT _ Hc). tauto.
Qed.

Theorem step_winv c s live o : WInv c s live -> allowed c s live o ->
  exists s' r e, step c s o = Ok (s', r, e) /\ WInv c s' (ghost live o r) /\
                 (forall i, r = Some i -> ~ In i live /\ i < cap s).
Proof.
  intros (F & L & T & W) Ha. destruct o as [req|i|i| |force| |order|i o v|i v|i w]; cbn [step ghost allowed] in *.
  - destruct (malloc_winv c s live F L T req W Ha) as (s' & r & e & H1 & H2 & H3). eauto 8.
  - destruct Ha as [Hl|[Hon Hint]].
    + destruct (free_winv c s live F L T i W Hl) as (s' & e & H1 & H2 & _). rewrite H1.
      eexists _, _, _. split; [reflexivity|]. split; [assumption|]. intros ? Hx; discriminate.
    + pose proof (on_lists_in _ _ _ _ _ _ _ W Hon) as Hi.
      destruct (double_free_winv c s live F L T i W Hi Hint) as (e & H1 & _). rewrite H1.
      eexists _, _, _. split; [reflexivity|]. split; [|intros ? Hx; discriminate].
      rewrite rem_notin; [exists F, L, T; assumption|].
      destruct W as (_ & _ & _ & _ & Hnd & _). intros Hl. exact (live_notin_lists _ _ _ _ _ Hnd Hl Hi).
  - pose proof (remote_winv c s live F L T i W Ha) as H. destruct (remote_free c s i) as [s' e].
    eexists _, _, _. split; [reflexivity|]. split; [exact H|]. intros ? Hx; discriminate.
  - destruct (tfc_winv c s live F L T W) as (s' & e & H1 & H2 & _). rewrite H1.
    eexists _, _, _. split; [reflexivity|]. split; [eexists _, _, _; exact H2|]. intros ? Hx; discriminate.
  - destruct (collect_winv c s live F L T force W) as (s' & e & H1 & H2). rewrite H1.
    eexists _, _, _. split; [reflexivity|]. split; [assumption|]. intros ? Hx; discriminate.
  - eexists _, _, _. split; [reflexivity|]. split; [|intros ? Hx; discriminate].
    unfold extend_seq. destruct (extend_blocked c s); [exists F, L, T; assumption|].
    eapply extend_order_winv; [exact W|]. rewrite <- (N2Nat.id (extend_count c s)) at 2. apply nseq_ok.
  - unfold extend_secure. destruct (extend_blocked c s) eqn:Eb.
    + eexists _, _, _. split; [reflexivity|]. split; [exists F, L, T; assumption|]. intros ? Hx; discriminate.
    + destruct Ha as [Hx|Hord]; [discriminate|]. rewrite Hord.
      eexists _, _, _. split; [reflexivity|]. split; [|intros ? Hx; discriminate].
      eapply extend_order_winv; [exact W|]. apply is_order_of_ok. assumption.
  - eexists _, _, _. split; [reflexivity|]. split; [|intros ? Hx; discriminate].
    unfold write_byte. apply (write_winv c s live F L T); tauto.
  - eexists _, _, _. split; [reflexivity|]. split; [|intros ? Hx; discriminate].
    unfold overflow_write, write_byte. apply (write_winv c s live F L T); tauto.
  - eexists _, _, _. split; [reflexivity|]. split; [|intros ? Hx; discriminate].
    apply (overwrite_winv c s live F L T); cbv zeta; tauto.
Qed.

Inductive steps (c : cfg) : st -> list N -> st -> list N -> Prop :=
| steps_nil s live : steps c s live s live
| steps_cons s live o s1 r e s2 live2 :
    allowed c s live o -> step c s o = Ok (s1, r, e) ->
    steps c s1 (ghost live o r) s2 live2 -> steps c s live s2 live2.

Theorem weak_inv_after_error c s live s' live' :
  WInv c s live -> steps c s live s' live' -> WInv c s' live'.
Proof.
  intros W H. induction H as [|s live o s1 r e s2 live2 Ha Hs _ IH]; [assumption|].
  apply IH. destruct (step_winv c s live o W Ha) as (s1' & r' & e' & Hs' & W' & _).
  rewrite Hs in Hs'. inversion Hs'; subst. assumption.
Qed.

(* the heap stays usable: every allowed operation is defined *)
Theorem stays_usable c s live s' live' o :
  WInv c s live -> steps c s live s' live' -> allowed c s' live' o ->
  exists s'' r e, step c s' o = Ok (s'', r, e).
Proof.
  intros W H Ha. pose proof (weak_inv_after_error _ _ _ _ _ W H) as W'.
  destruct (step_winv c s' live' o W' Ha) as (s'' & r & e & Hs & _). eauto.
Qed.

Theorem no_double_handout_after c s live s' live' req s'' i e :
  WInv c s live -> steps c s live s' live' -> req <= usable c ->
  malloc c s' req = Ok (s'', Some i, e) -> ~ In i live' /\ i < cap s'.
Proof.
  intros W H Hr Hm. pose proof (weak_inv_after_error _ _ _ _ _ W H) as W'.
  destruct (step_winv c s' live' (OMalloc req) W' Hr) as (s1 & r & e1 & Hs & _ & Hres).
  cbn [step] in Hs. rewrite Hm in Hs. inversion Hs; subst. apply Hres. reflexivity.
Qed.

(* every block handed out lies inside the page area *)
Theorem only_area_addresses c s live s' live' req s'' i e :
  WInv c s live -> steps c s live s' live' -> req <= usable c ->
  malloc c s' req = Ok (s'', Some i, e) ->
  pstart c <= addr c i /\ addr c i + bsz c <= pstart c + psize c.
Proof.
  intros W H Hr Hm. destruct (no_double_handout_after _ _ _ _ _ _ _ _ _ W H Hr Hm) as [_ Hi].
  pose proof (weak_inv_after_error _ _ _ _ _ W H) as (F & L & T & G & _).
  pose proof (geom_facts _ _ G) as GP. apply (addr_bounds c _ GP). destruct GP. lia.
Qed.

(* ------------------------------------------------------------------------------------- *)
(* the strong invariant (executable) implies the weak one for every set of held blocks     *)
(* ------------------------------------------------------------------------------------- *)
Definition Inv (c : cfg) (s : st) : Prop := inv_b c s = true.

Lemma inv_lists c s : Inv c s ->
  exists F L T, chain c (mem s) (free s) F /\ chain c (mem s) (lfree s) L /\ chain c (mem s) (tfree s) T /\
    cerrs c (mem s) (F ++ L ++ T) = [] /\
    forall live, NoDup live -> (forall i, In i live -> i < cap s /\ ~ In i (F ++ L ++ T)) ->
      WInvL c s live F L T.
Proof.
  unfold Inv, inv_b. intros H. apply andb_prop in H as [G H].
  destruct (walk (walk_fuel s) c (mem s) (free s)) as [[F eF]| |] eqn:WF; try discriminate.
  destruct eF; try discriminate.
  destruct (walk (walk_fuel s) c (mem s) (lfree s)) as [[L eL]| |] eqn:WL; try discriminate.
  destruct eL; try discriminate.
  destruct (walk (walk_fuel s) c (mem s) (tfree s)) as [[T eT]| |] eqn:WT; try discriminate.
  destruct eT; try discriminate.
  apply andb_prop in H as [H H4]. apply andb_prop in H as [H H3]. apply andb_prop in H as [H1 H2].
  apply walk_sound in WF as [HF EF]. apply walk_sound in WL as [HL EL]. apply walk_sound in WT as [HT ET].
  apply nodup_b_spec in H1. apply N.eqb_eq in H3. apply N.leb_le in H4.
  assert (Hlt : Forall (fun x => x < cap s) (F ++ L ++ T)).
  { apply Forall_forall. intros x Hx. rewrite forallb_forall in H2. apply N.ltb_lt. apply H2. assumption. }
  exists F, L, T. split; [assumption|]. split; [assumption|]. split; [assumption|]. split.
  - repeat rewrite cerrs_app. rewrite <- EF, <- EL, <- ET. reflexivity.
  - intros live Hnl Hlive.
    assert (HndA : NoDup (F ++ L ++ T ++ live)).
    { replace (F ++ L ++ T ++ live) with ((F ++ L ++ T) ++ live) by (repeat rewrite <- app_assoc; reflexivity).
      apply nodup_app_intro; try assumption. intros x Hx Hy. apply (Hlive x Hy). assumption. }
    assert (HltA : Forall (fun x => x < cap s) (F ++ L ++ T ++ live)).
    { replace (F ++ L ++ T ++ live) with ((F ++ L ++ T) ++ live) by (repeat rewrite <- app_assoc; reflexivity).
      apply Forall_app. split; [assumption|]. apply Forall_forall. intros x Hx. apply (Hlive x Hx). }
    pose proof (nodup_bound _ _ HndA HltA) as Hb.
    repeat rewrite app_length in Hb. repeat rewrite Nat2N.inj_add in Hb.
    unfold WInvL. repeat split; try assumption; lia.
Qed.

Lemma inv_winv c s live : Inv c s -> NoDup live -> (forall i, In i live -> i < cap s /\ ~ on_lists c s i) ->
  WInv c s live.
Proof.
  intros HI Hn Hl. destruct (inv_lists c s HI) as (F & L & T & HF & HL & HT & _ & H).
  exists F, L, T. apply H; [assumption|]. intros i Hi. destruct (Hl i Hi) as [H1 H2]. split; [assumption|].
  intros Hx. apply H2. repeat rewrite in_app_iff in Hx. unfold on_lists.
  destruct Hx as [Hx|[Hx|Hx]]; eauto 8.
Qed.

Lemma cerrs_nil_in c m l i : cerrs c m l = [] -> In i l -> snd (block_next c m i) = [].
Proof.
  induction l as [|y l IH]; intros H Hi; [contradiction|]. cbn in H. apply app_eq_nil in H as [H1 H2].
  destruct Hi as [->|Hi]; [assumption|]. apply IH; assumption.
Qed.

(* second free of a block that is on one of the three lists: EAGAIN, nothing else happens *)
Theorem double_free_detected c s i : Inv c s -> on_lists c s i ->
  free_block_local c s i = Ok (s, [EAGAIN_]).
Proof.
  intros HI Hon. destruct (inv_lists c s HI) as (F & L & T & HF & HL & HT & Hcl & H).
  pose proof (H [] ltac:(constructor) ltac:(intros ? [])) as W.
  pose proof (on_lists_in _ _ _ _ _ _ _ W Hon) as Hi.
  destruct (double_free_winv c s [] F L T i W Hi (cerrs_nil_in _ _ _ _ Hcl Hi)) as (e & H1 & _ & H3).
  rewrite H1, (H3 Hcl). reflexivity.
Qed.

(* the same after earlier detected errors, as long as the link of the block itself is intact *)
Theorem double_free_detected_weak c s live i : WInv c s live -> on_lists c s i ->
  snd (block_next c (mem s) i) = [] ->
  exists e, free_block_local c s i = Ok (s, e) /\ In EAGAIN_ e.
Proof.
  intros (F & L & T & W) Hon Hint. pose proof (on_lists_in _ _ _ _ _ _ _ W Hon) as Hi.
  destruct (double_free_winv c s live F L T i W Hi Hint) as (e & H1 & H2 & _). eauto.
Qed.

(* a block that is on none of the lists (a live block, whatever the program stored in it) is
   never reported as a double free; the free is performed *)
Theorem no_false_double_free c s i : Inv c s -> i < cap s -> ~ on_lists c s i ->
  exists s', free_block_local c s i = Ok (s', check_padding c (mem s i) (addr c i)) /\
             lfree s' = Some i /\ ~ In EAGAIN_ (check_padding c (mem s i) (addr c i)).
Proof.
  intros HI Hi Hn. destruct (inv_lists c s HI) as (F & L & T & HF & HL & HT & Hcl & H).
  assert (W : WInvL c s [i] F L T).
  { apply H; [repeat constructor; intros []|]. intros j [<-|[]]. split; [assumption|].
    intros Hx. apply Hn. repeat rewrite in_app_iff in Hx. unfold on_lists. destruct Hx as [Hx|[Hx|Hx]]; eauto 8. }
  destruct (free_winv c s [i] F L T i W ltac:(left; reflexivity)) as (s' & e & H1 & _ & H3 & H4 & e1 & -> & He1).
  rewrite (He1 Hcl) in *. exists s'. split; [exact H1|]. split; assumption.
Qed.

Theorem no_false_double_free_weak c s live i : WInv c s live -> In i live ->
  exists s' e, free_block_local c s i = Ok (s', e) /\ ~ In EAGAIN_ e /\ lfree s' = Some i.
Proof.
  intros (F & L & T & W) Hi.
  destruct (free_winv c s live F L T i W Hi) as (s' & e & H1 & _ & H3 & H4 & _). eauto.
Qed.

(* ------------------------------------------------------------------------------------- *)
(* a forged link                                                                           *)
(* ------------------------------------------------------------------------------------- *)
Theorem corrupt_link_cut c s i w : w < W64 ->
  let n := ptr_decode (pgaddr c) w (k0 c) (k1 c) in
  n <> 0 -> in_same_page c n = false ->
  let s' := overwrite_link s i w in
  block_next c (mem s') i = (NNull, [EFAULT_]) /\
  (forall h l, chain c (mem s') h l -> In i l -> exists a, l = a ++ [i]) /\
  (free s' = Some i -> forall req, req <= usable c ->
     exists s'', malloc c s' req = Ok (s'', Some i, [EFAULT_]) /\ free s'' = None).
Proof.
  intros Hw n Hn Hp s'.
  assert (Hb : block_next c (mem s') i = (NNull, [EFAULT_])).
  { apply (proj2 (block_next_forged c (mem s') i w Hw ltac:(unfold s', overwrite_link, set_mem; cbn [mem];
       rewrite first_word_upd_same; apply load8_store8; assumption))); assumption. }
  split; [assumption|]. split.
  - intros h l Hc Hi. apply in_split in Hi as (a & b & ->). exists a.
    apply chain_suffix in Hc. destruct (chain_tail_head _ _ _ _ Hc) as (n' & er & Hb' & _ & Hc').
    rewrite Hb in Hb'. inversion Hb'; subst. cbn in Hc'. apply chain_none in Hc'. subst. reflexivity.
  - intros Hf req Hr. unfold malloc. rewrite Hf.
    assert (Hq : (usable c <? req) = false) by (apply N.ltb_ge; assumption). rewrite Hq, Hb.
    eexists. split; reflexivity.
Qed.

(* ------------------------------------------------------------------------------------- *)
(* the walk over the thread-free list is bounded on every memory                           *)
(* ------------------------------------------------------------------------------------- *)
Lemma tf_walk_fuel c m mx : forall fuel cnt t, cnt <= mx + 1 -> mx + 2 <= N.of_nat fuel + cnt ->
  tf_walk fuel c m mx cnt t <> OutOfFuel.
Proof.
  induction fuel as [|f IH]; intros cnt t H1 H2; [cbn in H2; lia|].
  cbn [tf_walk]. destruct (block_next c m t) as [[| j | a] er]; try discriminate.
  - destruct (cnt <=? mx) eqn:E; [|discriminate]. apply N.leb_le in E.
    specialize (IH (cnt + 1) j ltac:(lia) ltac:(lia)).
    destruct (tf_walk f c m mx (cnt + 1) j) as [[[? ?] ?]| |]; try discriminate. contradiction.
  - destruct (cnt <=? mx); discriminate.
Qed.

Theorem tf_walk_bounded c s :
  thread_free_collect c s <> OutOfFuel /\
  forall s' e, thread_free_collect c s = Ok (s', e) ->
    tfree s' = None /\ free s' = free s /\ cap s' = cap s /\
    ((lfree s' = lfree s /\ used s' = used s /\ mem s' = mem s /\ (tfree s = None \/ exists e0, e = e0 ++ [EFAULT_])) \/
     (lfree s' = tfree s /\ tfree s <> None)).
Proof.
  unfold thread_free_collect. destruct (tfree s) as [h|] eqn:Et.
  - pose proof (tf_walk_fuel c (mem s) (cap s) (tf_fuel s) 1 h ltac:(lia) ltac:(unfold tf_fuel; lia)) as Hf.
    destruct (tf_walk (tf_fuel s) c (mem s) (cap s) 1 h) as [[[cnt t] er]| |]; [|split; [discriminate|intros; discriminate]|contradiction].
    destruct (cap s <? cnt).
    + split; [discriminate|]. intros s' e H. inversion H; subst. cbn. repeat split. left. repeat split. right. eauto.
    + split; [discriminate|]. intros s' e H. inversion H; subst. cbn. repeat split. right. split; [reflexivity|discriminate].
  - split; [discriminate|]. intros s' e H. inversion H; subst. repeat split; try assumption. left. repeat split. left. reflexivity.
Qed.

(* ------------------------------------------------------------------------------------- *)
(* padding                                                                                 *)
(* ------------------------------------------------------------------------------------- *)
Lemma W32_val : W32 = 4294967296. Proof. reflexivity. Qed.

Lemma canary_lt null p a b : encode_canary null p a b < W32.
Proof.
  unfold encode_canary. set (e := ptr_encode null p a b mod W32).
  assert (He : e < W32) by (apply N.mod_lt; rewrite W32_val; lia).
  replace (N.land e CANARY_MASK) with (N.land e CANARY_MASK mod W32); [apply N.mod_lt; rewrite W32_val; lia|].
  change W32 with (2 ^ 32). rewrite <- N.land_ones, <- N.land_assoc.
  change (N.land CANARY_MASK (N.ones 32)) with CANARY_MASK. reflexivity.
Qed.

Lemma canary_low null p a b : encode_canary null p a b mod 256 = 0.
Proof.
  unfold encode_canary. change 256 with (2 ^ 8). rewrite <- N.land_ones, <- N.land_assoc.
  change (N.land CANARY_MASK (N.ones 8)) with 0. apply N.land_0_r.
Qed.

(* block b carries the padding written by malloc for a request of `req` bytes *)
Definition padded (c : cfg) (b : blk) (baddr req : N) : Prop :=
  req <= usable c /\
  load_le 4 b (usable c) = encode_canary (pgaddr c) baddr (k0 c) (k1 c) /\
  load_le 4 b (usable c + 4) = usable c - req /\
  forall k, k < N.min (usable c - req) MI_MAX_ALIGN_SIZE -> byte b (req + k) = DBG_PADDING.

(* the byte the allocator expects at offset `req`: the first fill byte, or (delta = 0) the low
   byte of the canary, which is always 0 *)
Definition expected_byte (c : cfg) (req : N) : N := if req <? usable c then DBG_PADDING else 0.

Lemma maxpad_min delta : (if MI_MAX_ALIGN_SIZE <? delta then MI_MAX_ALIGN_SIZE else delta) = N.min delta MI_MAX_ALIGN_SIZE.
Proof. destruct (MI_MAX_ALIGN_SIZE <? delta) eqn:E; [apply N.ltb_lt in E|apply N.ltb_ge in E]; lia. Qed.

Lemma padded_expected c b a req : padded c b a req -> byte b req = expected_byte c req.
Proof.
  intros (Hr & Hc & Hd & Hf). unfold expected_byte. destruct (req <? usable c) eqn:E.
  - apply N.ltb_lt in E. rewrite <- (N.add_0_r req) at 1. apply Hf. unfold MI_MAX_ALIGN_SIZE. lia.
  - apply N.ltb_ge in E. assert (req = usable c) by lia. subst req.
    rewrite <- (load_le_mod256 3 b (usable c)). change (S 3) with 4%nat. rewrite Hc. apply canary_low.
Qed.

Lemma first_bad_none b o : forall n k0, (forall k, k0 <= k < k0 + N.of_nat n -> byte b (o + k) = DBG_PADDING) ->
  first_bad b o n k0 = None.
Proof.
  induction n as [|n IH]; intros k0 H; [reflexivity|]. cbn [first_bad].
  rewrite (H k0) by lia. rewrite N.eqb_refl. cbn. apply IH. intros k Hk. apply H. lia.
Qed.

(* an untouched block passes the check *)
Theorem no_false_overflow c b a req : usable c < W32 -> padded c b a req -> check_padding c b a = [].
Proof.
  intros H32 (Hr & Hc & Hd & Hf). unfold check_padding, verify_padding, decode_padding. cbv zeta.
  rewrite Hc, Hd, N.eqb_refl.
  assert (Hle : (usable c - req <=? usable c) = true) by (apply N.leb_le; lia). rewrite Hle. cbn [andb negb].
  rewrite maxpad_min. replace (usable c - (usable c - req)) with req by lia.
  rewrite first_bad_none; [reflexivity|]. intros k Hk. apply Hf. lia.
Qed.

Theorem overflow_detected c b a req v : usable c < W32 -> padded c b a req ->
  v < 256 -> v <> expected_byte c req -> check_padding c (fill b req 1 v) a = [EFAULT_].
Proof.
  intros H32 P Hv Hne. pose proof (padded_expected _ _ _ _ P) as Hexp.
  destruct P as (Hr & Hc & Hd & Hf).
  unfold check_padding, verify_padding, decode_padding. cbv zeta.
  destruct (N.eq_dec req (usable c)) as [E|E].
  - (* delta = 0: the byte is the low byte of the canary *)
    subst req.
    assert (Hcan : (encode_canary (pgaddr c) a (k0 c) (k1 c) =? load_le 4 (fill b (usable c) 1 v) (usable c)) = false).
    { apply N.eqb_neq. intros Heq.
      pose proof (load_le_mod256 3 (fill b (usable c) 1 v) (usable c)) as Hm. change (S 3) with 4%nat in Hm.
      rewrite <- Heq, canary_low in Hm. rewrite byte_fill_in in Hm by lia.
      rewrite N.mod_small in Hm by assumption.
      unfold expected_byte in Hne. rewrite N.ltb_irrefl in Hne. congruence. }
    rewrite Hcan. reflexivity.
  - (* delta > 0: the first fill byte *)
    rewrite (load_fill_other 4) by (cbn; lia). rewrite (load_fill_other 4) by (cbn; lia).
    rewrite Hc, Hd, N.eqb_refl.
    assert (Hle : (usable c - req <=? usable c) = true) by (apply N.leb_le; lia). rewrite Hle. cbn [andb negb].
    rewrite maxpad_min. replace (usable c - (usable c - req)) with req by lia.
    assert (Hpos : exists n, N.to_nat (N.min (usable c - req) MI_MAX_ALIGN_SIZE) = S n).
    { exists (Nat.pred (N.to_nat (N.min (usable c - req) MI_MAX_ALIGN_SIZE))). unfold MI_MAX_ALIGN_SIZE. lia. }
    destruct Hpos as [n ->]. cbn [first_bad].
    rewrite N.add_0_r. rewrite byte_fill_in by lia. rewrite N.mod_small by assumption.
    unfold expected_byte in Hne. assert (Hlt : (req <? usable c) = true) by (apply N.ltb_lt; lia).
    rewrite Hlt in Hne. apply N.eqb_neq in Hne. rewrite Hne. reflexivity.
Qed.

(* malloc writes exactly this padding *)
Theorem malloc_padded c s req s' i e : bsz c < W32 -> PAD <= bsz c ->
  malloc c s req = Ok (s', Some i, e) -> padded c (mem s' i) (addr c i) req.
Proof.
  intros H32 Hpad. unfold malloc. destruct (free s) as [j|]; [|intros H; inversion H].
  destruct (usable c <? req) eqn:Er; [discriminate|]. apply N.ltb_ge in Er.
  destruct (block_next c (mem s) j) as [[| j' | a'] er]; try discriminate.
  - intros H. inversion H; subst. cbn [mem]. rewrite upd_same. rewrite maxpad_min.
    assert (Hu : usable c < W32) by (unfold usable; lia).
    unfold padded. split; [assumption|]. split; [|split].
    + rewrite (load_fill_other 4) by (cbn; lia). rewrite (load_store_other 4) by (cbn; lia).
      apply load4_store4. apply canary_lt.
    + rewrite (load_fill_other 4) by (cbn; lia). apply load4_store4. lia.
    + intros k Hk. rewrite byte_fill_in by lia. reflexivity.
  - intros H. inversion H; subst. cbn [mem]. rewrite upd_same. rewrite maxpad_min.
    assert (Hu : usable c < W32) by (unfold usable; lia).
    unfold padded. split; [assumption|]. split; [|split].
    + rewrite (load_fill_other 4) by (cbn; lia). rewrite (load_store_other 4) by (cbn; lia).
      apply load4_store4. apply canary_lt.
    + rewrite (load_fill_other 4) by (cbn; lia). apply load4_store4. lia.
    + intros k Hk. rewrite byte_fill_in by lia. reflexivity.
Qed.

(* one foreign byte just past the requested size of a held block is reported when it is freed *)
Theorem padding_detects_foreign_byte c s live i req v :
  WInv c s live -> In i live -> padded c (mem s i) (addr c i) req ->
  v < 256 -> v <> expected_byte c req ->
  exists s' e, free_block_local c (overflow_write c s i v) i = Ok (s', e) /\
               In EFAULT_ e /\ ~ In EAGAIN_ e /\ lfree s' = Some i.
Proof.
  intros (F & L & T & W) Hi P Hv Hne.
  assert (H32 : usable c < W32).
  { destruct W as (G & _). destruct (geom_facts _ _ G). unfold usable. lia. }
  pose proof P as (Hr & Hc & Hd & Hf).
  assert (Eo : overflow_write c s i v = set_mem s (upd (mem s) i (fill (mem s i) req 1 v))).
  { unfold overflow_write, write_byte. rewrite Hd. replace (usable c - (usable c - req)) with req by lia.
    rewrite N.mod_small by assumption. reflexivity. }
  rewrite Eo.
  destruct (write_winv c s live F L T i (fill (mem s i) req 1 v) W Hi) as (F' & L' & T' & W').
  destruct (free_winv c _ live F' L' T' i W' Hi) as (s' & e & H1 & _ & H3 & H4 & e1 & -> & _).
  exists s', (e1 ++ check_padding c (mem (set_mem s (upd (mem s) i (fill (mem s i) req 1 v))) i) (addr c i)).
  split; [exact H1|]. split; [|split; assumption].
  cbn [mem set_mem]. rewrite upd_same. rewrite (overflow_detected c _ _ req v H32 P Hv Hne).
  apply in_app_iff. right. left. reflexivity.
Qed.

(* ------------------------------------------------------------------------------------- *)
(* a concrete page for the Examples of Properties/C17.v                                    *)
(* ------------------------------------------------------------------------------------- *)
Definition ex_seg : N := 134217728.
Definition ex_c : cfg :=
  mkCfg 32 2045 13399262905571498029 4918403478220301587 (ex_seg + 384) ex_seg (ex_seg + 65632) 65440 false 4.
Definition ex_s0 : st := mkSt 0 None None None 0 empty_mem.
Definition ex_s1 : st := extend_seq ex_c ex_s0.
