(* Proofs for the abandonment / adoption model (property C09, model part) over Model/Abandon.v. *)
From Coq Require Import NArith ZArith List Bool Lia Arith.
From MiV Require Import Gen.Consts Model.Abandon.
Import ListNotations.
Local Open Scope N_scope.
Local Open Scope bool_scope.

(* ---------------------------------------------------------------------------------------------- *)
(* lists                                                                                            *)
(* ---------------------------------------------------------------------------------------------- *)

Lemma upd_nth_length {A} (l : list A) n f : length (upd_nth l n f) = length l.
Proof. revert n. induction l as [|x r IH]; intros [|k]; cbn; auto. Qed.

Lemma nth_upd_eq {A} (l : list A) n f x : nth_error l n = Some x -> nth_error (upd_nth l n f) n = Some (f x).
Proof. revert n. induction l as [|y r IH]; intros [|k]; cbn; intros H; try discriminate; [inversion H; reflexivity|auto]. Qed.

Lemma nth_upd_neq {A} (l : list A) n m f : n <> m -> nth_error (upd_nth l n f) m = nth_error l m.
Proof. revert n m. induction l as [|y r IH]; intros [|k] [|j] H; cbn; auto; congruence. Qed.

Lemma nth_upd_inv {A} (l : list A) n m f y : nth_error (upd_nth l n f) m = Some y ->
  (m = n /\ exists x, nth_error l n = Some x /\ y = f x) \/ (m <> n /\ nth_error l m = Some y).
Proof.
  intros H. destruct (Nat.eq_dec m n) as [->|Hne].
  - left. split; [reflexivity|]. destruct (nth_error l n) as [x|] eqn:E.
    + rewrite (nth_upd_eq _ _ _ _ E) in H. inversion H. eauto.
    + exfalso. apply nth_error_None in E. assert (nth_error (upd_nth l n f) n <> None) by congruence.
      apply nth_error_Some in H0. rewrite upd_nth_length in H0. lia.
  - right. split; [exact Hne|]. rewrite nth_upd_neq in H by auto. exact H.
Qed.

Lemma tid_of_inj a b : tid_of a = tid_of b -> a = b.
Proof. unfold tid_of. lia. Qed.

Lemma tid_of_nz a : tid_of a <> 0.
Proof. unfold tid_of. lia. Qed.

Lemma in_list_spec l s : in_list l s = true <-> In s l.
Proof.
  unfold in_list. rewrite existsb_exists. split.
  - intros (x & Hx & E). apply Nat.eqb_eq in E. subst. exact Hx.
  - intros H. exists s. split; [exact H|apply Nat.eqb_refl].
Qed.

Lemma in_list_app l s j : in_list (l ++ [s]) j = in_list l j || Nat.eqb j s.
Proof. unfold in_list. rewrite existsb_app. cbn. rewrite orb_false_r. reflexivity. Qed.

Lemma in_list_remove l s j : in_list (remove_from l s) j = in_list l j && negb (Nat.eqb s j).
Proof.
  unfold in_list, remove_from. induction l as [|x r IH]; [reflexivity|]. cbn [filter].
  destruct (Nat.eqb s x) eqn:E; cbn [negb existsb].
  - apply Nat.eqb_eq in E. subst x. rewrite IH. destruct (Nat.eqb j s) eqn:E2; cbn.
    + apply Nat.eqb_eq in E2. subst. rewrite Nat.eqb_refl. cbn. rewrite andb_false_r. reflexivity.
    + reflexivity.
  - rewrite IH. destruct (Nat.eqb j x) eqn:E2; cbn; [|reflexivity].
    apply Nat.eqb_eq in E2. subst x. rewrite E. reflexivity.
Qed.

(* ---------------------------------------------------------------------------------------------- *)
(* the invariant                                                                                    *)
(* ---------------------------------------------------------------------------------------------- *)

Definition seg_at (st : state) (i : nat) (g : seg) : Prop := nth_error (segs st) i = Some g.
Definition thr_at (st : state) (t : nat) (th : thread) : Prop := nth_error (threads st) t = Some th.

Record seg_ok (st : state) (i : nat) (g : seg) : Prop := mkSegOk {
  so_freed : g_freed g = true -> marked st i = false /\ g_holder g = None;
  so_owned : g_freed g = false -> g_tid g <> 0 ->
             marked st i = false /\ (forall t, g_holder g = Some t -> tid_of t = g_tid g);
  so_aband : g_freed g = false -> g_tid g = 0 ->
             (g_holder g = None /\ marked st i = true) \/ ((exists t, g_holder g = Some t) /\ marked st i = false);
  so_holder : forall t, g_holder g = Some t -> exists th, thr_at st t th /\ holds (t_pc th) = Some i;
  so_flag : g_tid g = 0 -> g_flag g = NEVER;
  so_subproc : g_freed g = false -> forall t th, thr_at st t th -> tid_of t = g_tid g -> t_subproc th = g_subproc g
}.

Record thr_ok (st : state) (t : nat) (th : thread) : Prop := mkThrOk {
  to_holds : forall i, holds (t_pc th) = Some i ->
             exists g, seg_at st i g /\ g_holder g = Some t /\ g_freed g = false /\
                       (holds_abandoned (t_pc th) = true -> g_tid g = 0);
  to_owns : forall i, owns (t_pc th) = Some i -> exists g, seg_at st i g /\ g_tid g = tid_of t /\ g_freed g = false;
  to_subproc : needs_subproc (t_pc th) = true -> forall i, pc_seg (t_pc th) = Some i ->
               exists g, seg_at st i g /\ g_subproc g = t_subproc th;
  to_range : forall i, pc_seg (t_pc th) = Some i -> exists g, seg_at st i g;
  to_os : forall i, os_pc (t_pc th) = Some i -> exists g, seg_at st i g /\ g_arena g = false;
  to_ab1 : forall i, t_pc th = Ab1 i -> exists g, seg_at st i g /\ g_flag g = NEVER;
  to_arena : forall i, arena_pc (t_pc th) = Some i -> exists g, seg_at st i g /\ g_arena g = true
}.

Definition Inv (st : state) : Prop :=
  (forall i g, seg_at st i g -> seg_ok st i g) /\
  (forall t th, thr_at st t th -> thr_ok st t th) /\
  (forall s, In s (os_list st) -> exists g, seg_at st s g /\ g_arena g = false).

Inductive reachable (st0 : state) : state -> Prop :=
| reach_init : reachable st0 st0
| reach_step : forall st t st', reachable st0 st -> step st t = Some st' -> reachable st0 st'.

(* ---------------------------------------------------------------------------------------------- *)
(* frame lemmas: a transition of thread t that touches only segment s                               *)
(* ---------------------------------------------------------------------------------------------- *)

Definition new_state (st : state) (t : nat) (sg : list seg) (l : list nat) (lk vl : list (N * nat)) (cnt : list (N * Z))
    (pop : bool) (p : pc) (hold : bool) : state :=
  mkS sg l lk vl cnt (upd_nth (threads st) t (fun th => mkT (t_subproc th) (if pop then tl (t_prog th) else t_prog th) p hold)).

Lemma apply_outcome_new st t o :
  apply_outcome st t o = new_state st t (o_segs o) (o_list o) (o_lock o) (o_vlock o) (o_count o) (o_pop o) (o_pc o) (o_hold o).
Proof. reflexivity. Qed.

Lemma thr_at_new st t sg l lk vl cnt pop p hold t2 th2 :
  thr_at (new_state st t sg l lk vl cnt pop p hold) t2 th2 ->
  (t2 = t /\ exists th, thr_at st t th /\ th2 = mkT (t_subproc th) (if pop then tl (t_prog th) else t_prog th) p hold) \/
  (t2 <> t /\ thr_at st t2 th2).
Proof. unfold thr_at, new_state. cbn. intros H. apply nth_upd_inv in H. exact H. Qed.

Lemma thr_at_new_subproc st t sg l lk vl cnt pop p hold t2 th2 :
  thr_at (new_state st t sg l lk vl cnt pop p hold) t2 th2 ->
  exists th1, thr_at st t2 th1 /\ t_subproc th1 = t_subproc th2.
Proof.
  intros H. apply thr_at_new in H as [[-> (th & H1 & ->)]|[_ H]]; eauto.
Qed.

Lemma thr_at_new_other st t sg l lk vl cnt pop p hold t2 th2 :
  t2 <> t -> thr_at st t2 th2 -> thr_at (new_state st t sg l lk vl cnt pop p hold) t2 th2.
Proof. intros Hne H. unfold thr_at, new_state. cbn. rewrite nth_upd_neq by auto. exact H. Qed.

Lemma thr_at_new_self st t sg l lk vl cnt pop p hold th :
  thr_at st t th ->
  thr_at (new_state st t sg l lk vl cnt pop p hold) t (mkT (t_subproc th) (if pop then tl (t_prog th) else t_prog th) p hold).
Proof.
  intros H. unfold thr_at, new_state. cbn.
  exact (nth_upd_eq (threads st) t (fun th0 => mkT (t_subproc th0) (if pop then tl (t_prog th0) else t_prog th0) p hold) th H).
Qed.

Section Frame.
  Variables (st : state) (t : nat) (th : thread) (s : nat) (g : seg) (f : seg -> seg).
  Variables (l' : list nat) (lk vl : list (N * nat)) (cnt : list (N * Z)) (pop : bool) (p' : pc) (hold' : bool).
  Let st' := new_state st t (upd_nth (segs st) s f) l' lk vl cnt pop p' hold'.
  Let th' := mkT (t_subproc th) (if pop then tl (t_prog th) else t_prog th) p' hold'.

  Hypothesis HI : Inv st.
  Hypothesis Hth : thr_at st t th.
  Hypothesis Hg : seg_at st s g.
  Hypothesis Hpc : forall j, holds (t_pc th) = Some j -> j = s.
  Hypothesis Himm : g_arena (f g) = g_arena g /\ g_subproc (f g) = g_subproc g.
  Hypothesis Hholders : forall t2, t2 <> t -> g_holder g = Some t2 ->
    g_holder (f g) = Some t2 /\ g_tid (f g) = g_tid g /\ g_freed (f g) = g_freed g.
  Hypothesis Howners : forall t2, t2 <> t -> g_tid g = tid_of t2 -> g_freed g = false ->
    g_tid (f g) = g_tid g /\ g_freed (f g) = false /\ (g_flag g = NEVER -> g_flag (f g) = NEVER).
  Hypothesis Hmarks : forall j, j <> s -> marked st' j = marked st j.
  Hypothesis Hlist : forall x, In x l' -> In x (os_list st) \/ (x = s /\ g_arena g = false).
  Hypothesis Hseg : seg_ok st' s (f g).
  Hypothesis Hthr : thr_ok st' t th'.

  Lemma seg_at_new_s : seg_at st' s (f g).
  Proof. unfold seg_at, st', new_state. cbn. apply (nth_upd_eq _ _ _ _ Hg). Qed.

  Lemma seg_at_new_other j gj : j <> s -> seg_at st j gj -> seg_at st' j gj.
  Proof. intros Hne H. unfold seg_at, st', new_state. cbn. rewrite nth_upd_neq by auto. exact H. Qed.

  Lemma frame : Inv st'.
  Proof.
    destruct HI as (HS & HT & HL). split; [|split].
    - intros i gi Hi. unfold seg_at, st', new_state in Hi. cbn in Hi. apply nth_upd_inv in Hi as [[-> (x & Hx & ->)]|[Hne Hi]].
      + unfold seg_at in Hg. rewrite Hg in Hx. inversion Hx; subst x. exact Hseg.
      + pose proof (HS i gi Hi) as [F1 F2 F3 F4 F5 F6]. constructor.
        * rewrite (Hmarks i Hne). exact F1.
        * rewrite (Hmarks i Hne). exact F2.
        * rewrite (Hmarks i Hne). exact F3.
        * intros t2 Ht2. destruct (F4 t2 Ht2) as (th2 & H1 & H2).
          destruct (Nat.eq_dec t2 t) as [->|Hn2].
          -- exfalso. unfold thr_at in H1, Hth. rewrite Hth in H1. inversion H1; subst th2. apply Hne. apply Hpc. exact H2.
          -- exists th2. split; [apply thr_at_new_other; assumption|exact H2].
        * exact F5.
        * intros Hf t2 th2 H2 Hid. destruct (thr_at_new_subproc _ _ _ _ _ _ _ _ _ _ _ _ H2) as (th1 & Ha & Hb).
          rewrite <- Hb. eapply F6; eauto.
    - intros t2 th2 H2. apply thr_at_new in H2 as [[-> (th0 & H0 & ->)]|[Hn2 H2]].
      + unfold thr_at in H0, Hth. rewrite Hth in H0. inversion H0; subst th0. exact Hthr.
      + pose proof (HT t2 th2 H2) as [G1 G2 G3 G4 G5 G6 G7]. constructor.
        * intros i Hi. destruct (G1 i Hi) as (gi & Ha & Hb & Hc & Hd). destruct (Nat.eq_dec i s) as [->|Hne].
          -- unfold seg_at in Ha, Hg. rewrite Hg in Ha. inversion Ha; subst gi.
             destruct (Hholders t2 Hn2 Hb) as (E1 & E2 & E3).
             exists (f g). split; [apply seg_at_new_s|]. rewrite E1, E2, E3. auto.
          -- exists gi. split; [apply seg_at_new_other; assumption|auto].
        * intros i Hi. destruct (G2 i Hi) as (gi & Ha & Hb & Hc). destruct (Nat.eq_dec i s) as [->|Hne].
          -- unfold seg_at in Ha, Hg. rewrite Hg in Ha. inversion Ha; subst gi.
             destruct (Howners t2 Hn2 Hb Hc) as (E1 & E2 & _).
             exists (f g). split; [apply seg_at_new_s|]. rewrite E1, E2. auto.
          -- exists gi. split; [apply seg_at_new_other; assumption|auto].
        * intros Hn i Hi. destruct (G3 Hn i Hi) as (gi & Ha & Hb). destruct (Nat.eq_dec i s) as [->|Hne].
          -- unfold seg_at in Ha, Hg. rewrite Hg in Ha. inversion Ha; subst gi.
             exists (f g). split; [apply seg_at_new_s|]. destruct Himm as [_ E]. rewrite E. exact Hb.
          -- exists gi. split; [apply seg_at_new_other; assumption|auto].
        * intros i Hi. destruct (G4 i Hi) as (gi & Ha). destruct (Nat.eq_dec i s) as [->|Hne].
          -- exists (f g). apply seg_at_new_s.
          -- exists gi. apply seg_at_new_other; assumption.
        * intros i Hi. destruct (G5 i Hi) as (gi & Ha & Hb). destruct (Nat.eq_dec i s) as [->|Hne].
          -- unfold seg_at in Ha, Hg. rewrite Hg in Ha. inversion Ha; subst gi.
             exists (f g). split; [apply seg_at_new_s|]. destruct Himm as [E _]. rewrite E. exact Hb.
          -- exists gi. split; [apply seg_at_new_other; assumption|auto].
        * intros i Hi. destruct (G6 i Hi) as (gi & Ha & Hb). destruct (Nat.eq_dec i s) as [->|Hne].
          -- unfold seg_at in Ha, Hg. rewrite Hg in Ha. inversion Ha; subst gi.
             assert (Ho : owns (t_pc th2) = Some s) by (rewrite Hi; reflexivity).
             destruct (G2 s Ho) as (g2 & Hc & Hd & He). unfold seg_at in Hc. rewrite Hg in Hc. inversion Hc; subst g2.
             destruct (Howners t2 Hn2 Hd He) as (_ & _ & E3).
             exists (f g). split; [apply seg_at_new_s|auto].
          -- exists gi. split; [apply seg_at_new_other; assumption|auto].
        * intros i Hi. destruct (G7 i Hi) as (gi & Ha & Hb). destruct (Nat.eq_dec i s) as [->|Hne].
          -- unfold seg_at in Ha, Hg. rewrite Hg in Ha. inversion Ha; subst gi.
             exists (f g). split; [apply seg_at_new_s|]. destruct Himm as [E _]. rewrite E. exact Hb.
          -- exists gi. split; [apply seg_at_new_other; assumption|auto].
    - intros x Hx. cbn in Hx. destruct (Hlist x Hx) as [Hx'|[-> Ha]].
      + destruct (HL x Hx') as (gx & Ha & Hb). destruct (Nat.eq_dec x s) as [->|Hne].
        * unfold seg_at in Ha, Hg. rewrite Hg in Ha. inversion Ha; subst gx.
          exists (f g). split; [apply seg_at_new_s|]. destruct Himm as [E _]. rewrite E. exact Hb.
        * exists gx. split; [apply seg_at_new_other; assumption|auto].
      + exists (f g). split; [apply seg_at_new_s|]. destruct Himm as [E _]. rewrite E. exact Ha.
  Qed.
End Frame.

(* marks after a transition *)
Lemma marked_new_other st t s f l' lk vl cnt pop p' hold' j :
  j <> s -> in_list l' j = in_list (os_list st) j ->
  marked (new_state st t (upd_nth (segs st) s f) l' lk vl cnt pop p' hold') j = marked st j.
Proof.
  intros Hne Hl. unfold marked, new_state. cbn [segs os_list]. rewrite nth_upd_neq by auto.
  destruct (nth_error (segs st) j) as [gj|]; [|reflexivity]. rewrite Hl. reflexivity.
Qed.

Lemma marked_new_self st t s g f l' lk vl cnt pop p' hold' :
  seg_at st s g ->
  marked (new_state st t (upd_nth (segs st) s f) l' lk vl cnt pop p' hold') s =
  (if g_arena (f g) then g_bit (f g) else in_list l' s).
Proof. intros Hg. unfold marked, new_state. cbn [segs os_list]. rewrite (nth_upd_eq _ _ _ _ Hg). reflexivity. Qed.

Lemma marked_self st s g : seg_at st s g -> marked st s = (if g_arena g then g_bit g else in_list (os_list st) s).
Proof. intros Hg. unfold marked. unfold seg_at in Hg. rewrite Hg. reflexivity. Qed.

(* building thr_ok for the moving thread: everything its new pc claims concerns segment s *)
Lemma thr_ok_intro st' t th' s g' :
  seg_at st' s g' ->
  (forall i, holds (t_pc th') = Some i ->
     i = s /\ g_holder g' = Some t /\ g_freed g' = false /\ (holds_abandoned (t_pc th') = true -> g_tid g' = 0)) ->
  (forall i, owns (t_pc th') = Some i -> i = s /\ g_tid g' = tid_of t /\ g_freed g' = false) ->
  (needs_subproc (t_pc th') = true -> g_subproc g' = t_subproc th') ->
  (forall i, pc_seg (t_pc th') = Some i -> i = s) ->
  (forall i, os_pc (t_pc th') = Some i -> i = s /\ g_arena g' = false) ->
  (forall i, t_pc th' = Ab1 i -> i = s /\ g_flag g' = NEVER) ->
  (forall i, arena_pc (t_pc th') = Some i -> i = s /\ g_arena g' = true) ->
  thr_ok st' t th'.
Proof.
  intros Hs H1 H2 H3 H4 H5 H6 H7. constructor.
  - intros i Hi. destruct (H1 i Hi) as (-> & A & B & C). exists g'. auto.
  - intros i Hi. destruct (H2 i Hi) as (-> & A & B). exists g'. auto.
  - intros Hn i Hi. rewrite (H4 i Hi). exists g'. auto.
  - intros i Hi. rewrite (H4 i Hi). exists g'. auto.
  - intros i Hi. destruct (H5 i Hi) as (-> & A). exists g'. auto.
  - intros i Hi. destruct (H6 i Hi) as (-> & A). exists g'. auto.
  - intros i Hi. destruct (H7 i Hi) as (-> & A). exists g'. auto.
Qed.

(* a pc without any claim *)
Lemma thr_ok_none st' t th' :
  holds (t_pc th') = None -> owns (t_pc th') = None -> pc_seg (t_pc th') = None -> thr_ok st' t th'.
Proof.
  intros H1 H2 H3. constructor.
  - intros i Hi. congruence.
  - intros i Hi. congruence.
  - intros _ i Hi. congruence.
  - intros i Hi. congruence.
  - intros i Hi. destruct (t_pc th'); cbn in *; congruence.
  - intros i Hi. rewrite Hi in H3. discriminate.
  - intros i Hi. destruct (t_pc th'); cbn in *; congruence.
Qed.

(* building seg_ok for the touched segment *)
Lemma seg_ok_intro st t th s g g' sg' l' lk vl cnt pop p' hold' :
  let st' := new_state st t sg' l' lk vl cnt pop p' hold' in
  Inv st -> thr_at st t th -> seg_at st s g -> g_subproc g' = g_subproc g ->
  (g_freed g' = true -> marked st' s = false /\ g_holder g' = None) ->
  (g_freed g' = false -> g_tid g' <> 0 ->
     marked st' s = false /\ (forall t2, g_holder g' = Some t2 -> tid_of t2 = g_tid g')) ->
  (g_freed g' = false -> g_tid g' = 0 ->
     (g_holder g' = None /\ marked st' s = true) \/ ((exists t2, g_holder g' = Some t2) /\ marked st' s = false)) ->
  (forall t2, g_holder g' = Some t2 -> (t2 = t /\ holds p' = Some s) \/ (t2 <> t /\ g_holder g = Some t2)) ->
  (g_tid g' = 0 -> g_flag g' = NEVER) ->
  (g_freed g' = false -> g_tid g' <> 0 ->
     (g_tid g' = g_tid g /\ g_freed g = false) \/ (g_tid g' = tid_of t /\ g_subproc g = t_subproc th)) ->
  seg_ok st' s g'.
Proof.
  intros st' HI Hth Hg Hsp F1 F2 F3 F4 F5 F6. destruct HI as (HS & HT & HL). pose proof (HS s g Hg) as [S1 S2 S3 S4 S5 S6].
  constructor; auto.
  - intros t2 Ht2. destruct (F4 t2 Ht2) as [[-> Hh]|[Hne Hh]].
    + eexists. split; [apply thr_at_new_self; exact Hth|exact Hh].
    + destruct (S4 t2 Hh) as (th2 & A & B). exists th2. split; [apply thr_at_new_other; assumption|exact B].
  - intros Hf t2 th2 H2 Hid.
    assert (Hnz : g_tid g' <> 0) by (rewrite <- Hid; apply tid_of_nz).
    destruct (F6 Hf Hnz) as [[E1 E2]|[E1 E2]].
    + destruct (thr_at_new_subproc _ _ _ _ _ _ _ _ _ _ _ _ H2) as (th1 & Ha & Hb). rewrite <- Hb, Hsp.
      eapply S6; eauto. congruence.
    + rewrite E1 in Hid. apply tid_of_inj in Hid. subst t2.
      apply thr_at_new in H2 as [[_ (th0 & H0 & ->)]|[Hne _]]; [|congruence].
      unfold thr_at in H0, Hth. rewrite Hth in H0. inversion H0; subst th0. cbn. congruence.
Qed.

(* a transition that changes no segment and no list, by a thread whose old and new pc claim nothing *)
Lemma frame_idle st t th lk vl cnt pop p' hold' :
  Inv st -> thr_at st t th -> holds (t_pc th) = None ->
  holds p' = None -> owns p' = None -> pc_seg p' = None ->
  Inv (new_state st t (segs st) (os_list st) lk vl cnt pop p' hold').
Proof.
  intros (HS & HT & HL) Hth Hold H1 H2 H3. split; [|split].
  - intros i gi Hi. pose proof (HS i gi Hi) as [F1 F2 F3 F4 F5 F6]. constructor; auto.
    + intros t2 Ht2. destruct (F4 t2 Ht2) as (th2 & A & B). destruct (Nat.eq_dec t2 t) as [->|Hne].
      * unfold thr_at in A, Hth. rewrite Hth in A. inversion A; subst th2. congruence.
      * exists th2. split; [apply thr_at_new_other; assumption|exact B].
    + intros Hf t2 th2 H2' Hid. destruct (thr_at_new_subproc _ _ _ _ _ _ _ _ _ _ _ _ H2') as (th1 & Ha & Hb).
      rewrite <- Hb. eapply F6; eauto.
  - intros t2 th2 H2'. apply thr_at_new in H2' as [[-> (th0 & H0 & ->)]|[Hn2 H2']].
    + apply thr_ok_none; assumption.
    + pose proof (HT t2 th2 H2') as [G1 G2 G3 G4 G5 G6 G7]. constructor; auto.
  - exact HL.
Qed.

Lemma upd_nth_ident {A} (l : list A) n : upd_nth l n (fun x => x) = l.
Proof. revert n. induction l as [|x r IH]; intros [|k]; cbn; auto. rewrite IH. reflexivity. Qed.

(* what the invariant says about a segment from the point of view of one thread *)
Lemma inv_holds st t th s g :
  Inv st -> thr_at st t th -> seg_at st s g -> holds (t_pc th) = Some s ->
  g_holder g = Some t /\ g_freed g = false /\ marked st s = false /\ (holds_abandoned (t_pc th) = true -> g_tid g = 0) /\
  (g_tid g = 0 \/ g_tid g = tid_of t).
Proof.
  intros (HS & HT & _) Hth Hg Hh. destruct (HT t th Hth) as [G1 _ _ _ _ _ _]. destruct (G1 s Hh) as (g0 & A & B & C & D).
  unfold seg_at in A, Hg. rewrite Hg in A. inversion A; subst g0. destruct (HS s g Hg) as [_ S2 S3 _ _ _].
  split; [exact B|]. split; [exact C|]. destruct (N.eq_dec (g_tid g) 0) as [E|E].
  - destruct (S3 C E) as [[X _]|[_ X]]; [congruence|]. auto.
  - destruct (S2 C E) as [X Y]. split; [exact X|]. split; [intros Ha; exfalso; apply E; auto|]. right. symmetry. apply Y. exact B.
Qed.

Lemma inv_owns st t th s g :
  Inv st -> thr_at st t th -> seg_at st s g -> owns (t_pc th) = Some s ->
  g_tid g = tid_of t /\ g_freed g = false /\ marked st s = false /\ (g_holder g = None \/ g_holder g = Some t).
Proof.
  intros (HS & HT & _) Hth Hg Hh. destruct (HT t th Hth) as [_ G2 _ _ _ _ _]. destruct (G2 s Hh) as (g0 & A & B & C).
  unfold seg_at in A, Hg. rewrite Hg in A. inversion A; subst g0. destruct (HS s g Hg) as [_ S2 _ _ _ _].
  assert (E : g_tid g <> 0) by (rewrite B; apply tid_of_nz). destruct (S2 C E) as [X Y].
  repeat split; auto. destruct (g_holder g) as [t2|] eqn:Eh; [|auto]. right. f_equal. apply tid_of_inj. rewrite (Y t2 eq_refl). exact B.
Qed.

Lemma inv_marked st s g :
  Inv st -> seg_at st s g -> marked st s = true ->
  g_freed g = false /\ g_tid g = 0 /\ g_holder g = None /\ g_flag g = NEVER.
Proof.
  intros (HS & _ & _) Hg Hm. destruct (HS s g Hg) as [S1 S2 S3 _ S5 _].
  destruct (g_freed g) eqn:Ef; [destruct (S1 eq_refl); congruence|].
  destruct (N.eq_dec (g_tid g) 0) as [E|E]; [|destruct (S2 eq_refl E); congruence].
  destruct (S3 eq_refl E) as [[X _]|[_ X]]; [|congruence]. auto.
Qed.

(* the general transition lemma *)
Lemma seg_step st t th s g f l' lk vl cnt pop p' hold' :
  Inv st -> thr_at st t th -> seg_at st s g ->
  (forall j, holds (t_pc th) = Some j -> j = s) ->
  let g' := f g in
  let m' := if g_arena g then g_bit g' else in_list l' s in
  g_arena g' = g_arena g -> g_subproc g' = g_subproc g ->
  (forall t2, t2 <> t -> g_holder g = Some t2 -> g_holder g' = Some t2 /\ g_tid g' = g_tid g /\ g_freed g' = g_freed g) ->
  (forall t2, t2 <> t -> g_tid g = tid_of t2 -> g_freed g = false ->
     g_tid g' = g_tid g /\ g_freed g' = false /\ (g_flag g = NEVER -> g_flag g' = NEVER)) ->
  (forall j, j <> s -> in_list l' j = in_list (os_list st) j) ->
  (in_list l' s = true -> in_list (os_list st) s = true \/ g_arena g = false) ->
  (* the segment afterwards *)
  (g_freed g' = true -> m' = false /\ g_holder g' = None) ->
  (g_freed g' = false -> g_tid g' <> 0 -> m' = false /\ (forall t2, g_holder g' = Some t2 -> tid_of t2 = g_tid g')) ->
  (g_freed g' = false -> g_tid g' = 0 ->
     (g_holder g' = None /\ m' = true) \/ ((exists t2, g_holder g' = Some t2) /\ m' = false)) ->
  (forall t2, g_holder g' = Some t2 -> (t2 = t /\ holds p' = Some s) \/ (t2 <> t /\ g_holder g = Some t2)) ->
  (g_tid g' = 0 -> g_flag g' = NEVER) ->
  (g_freed g' = false -> g_tid g' <> 0 ->
     (g_tid g' = g_tid g /\ g_freed g = false) \/ (g_tid g' = tid_of t /\ g_subproc g = t_subproc th)) ->
  (* the thread afterwards *)
  (forall i, holds p' = Some i ->
     i = s /\ g_holder g' = Some t /\ g_freed g' = false /\ (holds_abandoned p' = true -> g_tid g' = 0)) ->
  (forall i, owns p' = Some i -> i = s /\ g_tid g' = tid_of t /\ g_freed g' = false) ->
  (needs_subproc p' = true -> g_subproc g' = t_subproc th) ->
  (forall i, pc_seg p' = Some i -> i = s) ->
  (forall i, os_pc p' = Some i -> i = s /\ g_arena g' = false) ->
  (forall i, p' = Ab1 i -> i = s /\ g_flag g' = NEVER) ->
  (forall i, arena_pc p' = Some i -> i = s /\ g_arena g' = true) ->
  Inv (new_state st t (upd_nth (segs st) s f) l' lk vl cnt pop p' hold').
Proof.
  intros HI Hth Hg Hpc g' m' Ha Hsp Hho Hown Hl Hls F1 F2 F3 F4 F5 F6 T1 T2 T3 T4 T5 T6 T7.
  assert (Hm : marked (new_state st t (upd_nth (segs st) s f) l' lk vl cnt pop p' hold') s = m').
  { rewrite (marked_new_self _ _ _ _ _ _ _ _ _ _ _ _ Hg). fold g'. rewrite Ha. reflexivity. }
  apply (frame st t th s g f l' lk vl cnt pop p' hold' HI Hth Hg Hpc (conj Ha Hsp) Hho Hown).
  - intros j Hj. apply marked_new_other; auto.
  - intros x Hx. destruct (Nat.eq_dec x s) as [->|Hne].
    + apply in_list_spec in Hx. destruct (Hls Hx) as [H|H]; [left; apply in_list_spec; exact H|right; auto].
    + left. apply in_list_spec. rewrite <- (Hl x Hne). apply in_list_spec. exact Hx.
  - eapply seg_ok_intro; eauto; rewrite Hm; assumption.
  - apply thr_ok_intro with (s := s) (g' := g'); cbn [t_pc t_subproc]; auto.
    unfold seg_at, new_state. cbn [segs]. exact (nth_upd_eq (segs st) s f g Hg).
Qed.

Lemma inv_owns' st t th s g :
  Inv st -> thr_at st t th -> seg_at st s g -> owns (t_pc th) = Some s ->
  g_tid g = tid_of t /\ g_freed g = false /\ marked st s = false /\
  (g_holder g = None \/ (g_holder g = Some t /\ holds (t_pc th) = Some s)).
Proof.
  intros HI Hth Hg Ho. destruct (inv_owns _ _ _ _ _ HI Hth Hg Ho) as (A & B & C & D).
  repeat split; auto. destruct D as [D|D]; [auto|right]. split; [exact D|].
  destruct HI as (HS & _ & _). destruct (HS s g Hg) as [_ _ _ S4 _ _]. destruct (S4 t D) as (th2 & X & Y).
  unfold thr_at in X, Hth. rewrite Hth in X. inversion X; subst th2. exact Y.
Qed.

Ltac simp :=
  cbn [g_arena g_subproc g_tid g_bit g_flag g_live g_tfree g_delayed g_visits g_freed g_holder
       set_tid set_bit set_flag set_holder set_visits set_blocks set_freed
       holds owns needs_subproc pc_seg os_pc arena_pc holds_abandoned t_pc t_subproc] in *.

Ltac crush :=
  simp; intros; subst;
  repeat match goal with
  | H : Some _ = Some _ |- _ => inversion H; subst; clear H
  | H : Some _ = None |- _ => discriminate H
  | H : None = Some _ |- _ => discriminate H
  | H : true = false |- _ => discriminate H
  | H : false = true |- _ => discriminate H
  | H : _ /\ _ |- _ => destruct H
  | H : ?x <> ?x |- _ => exfalso; apply H; reflexivity
  end;
  try congruence;
  repeat split; try congruence; eauto.

(* ---------------------------------------------------------------------------------------------- *)
(* the transitions, one lemma per pc                                                                *)
(* ---------------------------------------------------------------------------------------------- *)

Ltac rw_pre :=
  repeat match goal with
  | H : g_holder ?g = _ |- context [g_holder ?g] => rewrite H
  | H : g_tid ?g = _ |- context [g_tid ?g] => rewrite H
  | H : g_freed ?g = _ |- context [g_freed ?g] => rewrite H
  | H : g_arena ?g = _ |- context [g_arena ?g] => rewrite H
  | H : g_bit ?g = _ |- context [g_bit ?g] => rewrite H
  | H : g_flag ?g = _ |- context [g_flag ?g] => rewrite H
  end.

Ltac fin :=
  simp; rw_pre; intros; subst;
  repeat match goal with
  | H : Some _ = Some _ |- _ => inversion H; subst; clear H
  | H : Some _ = None |- _ => discriminate H
  | H : None = Some _ |- _ => discriminate H
  | H : true = false |- _ => discriminate H
  | H : false = true |- _ => discriminate H
  | H : _ /\ _ |- _ => destruct H
  | H : ?x <> ?x |- _ => exfalso; apply H; reflexivity
  | H : 0 = tid_of _ |- _ => exfalso; symmetry in H; exact (tid_of_nz _ H)
  | H : tid_of _ = 0 |- _ => exfalso; exact (tid_of_nz _ H)
  | H : tid_of ?a = tid_of ?b |- _ => apply tid_of_inj in H; subst
  end;
  try congruence;
  repeat split; try congruence; try reflexivity; eauto.

Section Cases.
  Variables (st : state) (t : nat) (th : thread) (s : nat) (g : seg).
  Variables (lk vl : list (N * nat)) (cnt : list (N * Z)) (pop : bool) (hold' : bool).
  Hypothesis HI : Inv st.
  Hypothesis Hth : thr_at st t th.
  Hypothesis Hg : seg_at st s g.

  Local Notation NS f l p := (new_state st t (upd_nth (segs st) s f) l lk vl cnt pop p hold').

  Lemma mark_now : marked st s = (if g_arena g then g_bit g else in_list (os_list st) s).
  Proof. apply marked_self. exact Hg. Qed.

  (* a holder other than t contradicts "t holds s" / "nobody holds s" *)
  Lemma holder_not_me_idle t2 : holds (t_pc th) <> Some s -> g_holder g = Some t2 -> t2 <> t.
  Proof.
    intros Hn H2 ->. destruct HI as (HS & _ & _). destruct (HS s g Hg) as [_ _ _ S4 _ _].
    destruct (S4 t H2) as (th2 & X & Y). unfold thr_at in X, Hth. rewrite Hth in X. inversion X; subst th2. auto.
  Qed.

  (* transitions that leave the segment as it is: only the pc moves, to a pc without new claims on s
     other than pc_seg (loads, failed tests, count updates, lock operations) *)
  Lemma case_pc_only p' :
    (forall j, holds (t_pc th) = Some j -> j = s) ->
    holds p' = holds (t_pc th) -> (forall i, owns p' = Some i -> i = s /\ g_tid g = tid_of t /\ g_freed g = false) ->
    (forall i, pc_seg p' = Some i -> i = s) ->
    (needs_subproc p' = true -> g_subproc g = t_subproc th) ->
    (forall i, os_pc p' = Some i -> i = s /\ g_arena g = false) ->
    (forall i, p' <> Ab1 i) ->
    (holds_abandoned p' = true -> holds_abandoned (t_pc th) = true) ->
    (forall i, arena_pc p' = Some i -> i = s /\ g_arena g = true) ->
    Inv (new_state st t (segs st) (os_list st) lk vl cnt pop p' hold').
  Proof.
    intros Hpc Hh Ho Hps Hsub Hos Hab Hha Har.
    rewrite <- (upd_nth_ident (segs st) s).
    destruct HI as (HS & HT & _). pose proof (HS s g Hg) as [S1 S2 S3 S4 S5 S6]. pose proof (HT t th Hth) as [G1 G2 G3 G4 G5 G6 G7].
    eapply seg_step with (g := g); try exact HI; try exact Hth; try exact Hg; try exact Hpc; simp; try rewrite <- mark_now; auto.
    - intros t2 H2. destruct (Nat.eq_dec t2 t) as [->|Hne]; [left|right; auto]. split; [reflexivity|].
      destruct (S4 t H2) as (th2 & X & Y). unfold thr_at in X, Hth. rewrite Hth in X. inversion X; subst th2. congruence.
    - intros i Hi. rewrite Hh in Hi. pose proof (Hpc i Hi) as ->. destruct (G1 s Hi) as (g0 & A & B & C & D).
      unfold seg_at in A, Hg. rewrite Hg in A. inversion A; subst g0. repeat split; auto.
    - intros i Hi. exfalso. exact (Hab i Hi).
  Qed.

  Lemma upd_nth_same (f : seg -> seg) : f g = g -> upd_nth (segs st) s f = segs st.
  Proof.
    intros Hf. unfold seg_at in Hg. revert Hg. generalize (segs st). intros l. revert s.
    induction l as [|x r IH]; intros [|k] H; cbn in *; try discriminate; [inversion H; subst; rewrite Hf; reflexivity|].
    rewrite (IH k H). reflexivity.
  Qed.

  Ltac side :=
    first
    [ solve [fin]
    | solve [intros j Hj; congruence]
    | solve [intros; right; split; [eauto|reflexivity]]
    | solve [intros; left; split; [reflexivity|reflexivity]]
    | solve [intros t2 H; inversion H; subst; left; auto]
    | solve [intros i Hi; match goal with H : holds _ = Some _ |- _ => rewrite H in Hi end; inversion Hi; subst; auto]
    | solve [intros i Hi; match goal with H : pc_seg _ = Some _ |- _ => rewrite H in Hi end; inversion Hi; auto]
    | solve [intros i Hi; match goal with H : owns _ = _ |- _ => rewrite H in Hi end; inversion Hi; subst; auto]
    | solve [intros i Hi; subst; cbn in *; discriminate]
    | solve [intros i Hi; subst; cbn in *; congruence]
    | solve [intros i Hi; match goal with H : forall i, os_pc _ = Some i -> _ |- _ => pose proof (H i Hi) end; auto]
    | solve [intros i Hi; match goal with H : forall i, arena_pc _ = Some i -> _ |- _ => pose proof (H i Hi) end; auto]
    | solve [intros i Hi; match goal with H : arena_pc _ = None |- _ => rewrite H in Hi end; discriminate]
    | solve [auto] ].

  (* L1: the atomic-and of the bit reports `was set`: t takes the segment in its hand *)
  Lemma case_unclaim_win p' :
    g_arena g = true -> g_bit g = true -> holds (t_pc th) = None ->
    holds p' = Some s -> holds_abandoned p' = true -> owns p' = None -> pc_seg p' = Some s -> os_pc p' = None ->
    (needs_subproc p' = true -> g_subproc g = t_subproc th) ->
    Inv (NS (fun g => if g_bit g then set_holder (set_bit g false) (Some t) else g) (os_list st) p').
  Proof.
    intros Ha Hb Hold H1 H2 H3 H4 H5 H6.
    assert (H7 : forall i, arena_pc p' = Some i -> i = s /\ true = true).
    { intros i Hi. split; [|reflexivity]. destruct p'; cbn in Hi, H4; try discriminate; inversion Hi; inversion H4; congruence. }
    assert (Hm : marked st s = true) by (rewrite mark_now, Ha; exact Hb).
    destruct (inv_marked _ _ _ HI Hg Hm) as (Hf & Ht & Hh & Hfl).
    eapply seg_step with (g := g); try exact HI; try exact Hth; try exact Hg; rewrite ?Hb, ?Ha; simp; rw_pre.
    all: side.
  Qed.

  (* L2: removal from the abandoned OS list (under the lock): t takes the segment in its hand *)
  Lemma case_list_remove p' :
    g_arena g = false -> in_list (os_list st) s = true -> holds (t_pc th) = None ->
    holds p' = Some s -> holds_abandoned p' = true -> owns p' = None -> pc_seg p' = Some s ->
    (forall i, os_pc p' = Some i -> i = s) -> arena_pc p' = None ->
    (needs_subproc p' = true -> g_subproc g = t_subproc th) ->
    Inv (NS (fun g => set_holder g (Some t)) (remove_from (os_list st) s) p').
  Proof.
    intros Ha Hb Hold H1 H2 H3 H4 H5 H7 H6.
    assert (Hm : marked st s = true) by (rewrite mark_now, Ha; exact Hb).
    destruct (inv_marked _ _ _ HI Hg Hm) as (Hf & Ht & Hh & Hfl).
    eapply seg_step with (g := g); try exact HI; try exact Hth; try exact Hg; rewrite ?Ha; simp; rw_pre.
    all: rewrite ?in_list_remove, ?Nat.eqb_refl, ?andb_false_r.
    all: try side.
    - intros j Hj. rewrite in_list_remove. destruct (Nat.eqb s j) eqn:E; [apply Nat.eqb_eq in E; congruence|]. apply andb_true_r.
  Qed.

  (* L3: store_release(thread_id, me) by the thread that has the segment in its hand *)
  Lemma case_set_tid_me (f : seg -> seg) p' :
    holds (t_pc th) = Some s -> needs_subproc (t_pc th) = true ->
    (forall x, f x = set_tid x (tid_of t) \/ f x = set_visits (set_tid x (tid_of t)) 0) ->
    holds p' = Some s -> holds_abandoned p' = false -> (forall i, owns p' = Some i -> i = s) -> pc_seg p' = Some s ->
    (forall i, os_pc p' = Some i -> i = s /\ os_pc (t_pc th) = Some s) -> arena_pc p' = None ->
    Inv (NS f (os_list st) p').
  Proof.
    intros Hold Hns Hf H1 H2 H3 H4 H5 H7.
    destruct (inv_holds _ _ _ _ _ HI Hth Hg Hold) as (Hh & Hfr & Hm & _ & Ht).
    rewrite mark_now in Hm.
    assert (Hsp : g_subproc g = t_subproc th).
    { destruct HI as (_ & HT & _). destruct (HT t th Hth) as [_ _ G3 _ _ _ _].
      assert (Hps : pc_seg (t_pc th) = Some s) by (destruct (t_pc th); cbn in Hold |- *; try discriminate; try (destruct r; try discriminate); try (destruct won; try discriminate); inversion Hold; reflexivity).
      destruct (G3 Hns s Hps) as (g0 & A & B). unfold seg_at in A, Hg. rewrite Hg in A. inversion A; subst g0. exact B. }
    assert (Hos : forall i, os_pc (t_pc th) = Some i -> g_arena g = false).
    { intros i Hi. destruct HI as (_ & HT & _). destruct (HT t th Hth) as [_ _ _ _ G5 _ _]. destruct (G5 i Hi) as (g0 & A & B).
      assert (i = s) by (destruct (t_pc th); cbn in Hi, Hold; try discriminate; try (destruct won; try discriminate); inversion Hi; inversion Hold; congruence).
      subst i. unfold seg_at in A, Hg. rewrite Hg in A. inversion A; subst g0. exact B. }
    eapply seg_step with (g := g); try exact HI; try exact Hth; try exact Hg; rewrite ?Hold.
    all: destruct (Hf g) as [E|E]; rewrite ?E; simp; rw_pre.
    all: try side.
    all: try solve [intros; left; split; [exact Hm|]; intros t2 H; inversion H; subst; reflexivity].
    all: try solve [intros _ _; right; auto].
    all: try solve [intros i Hi; destruct (H5 i Hi) as [-> Hx]; split; [reflexivity|eapply Hos; eauto]].
    all: try solve [destruct Ht as [Ht|Ht]; rewrite Ht; intros t2 Hne H; [fin|apply tid_of_inj in H; congruence]].
  Qed.

  (* L4: the atomic-or of the bit by the thread that has the (abandoned) segment in its hand *)
  Lemma case_mark_arena p' :
    holds (t_pc th) = Some s -> holds_abandoned (t_pc th) = true -> g_arena g = true ->
    holds p' = None -> owns p' = None -> (forall i, pc_seg p' = Some i -> i = s) -> os_pc p' = None -> needs_subproc p' = false ->
    arena_pc p' = None ->
    Inv (NS (fun g => set_holder (set_bit g true) None) (os_list st) p').
  Proof.
    intros Hold Hab Ha H1 H2 H3 H4 H5 H7.
    destruct (inv_holds _ _ _ _ _ HI Hth Hg Hold) as (Hh & Hfr & Hm & Ht & _). specialize (Ht Hab).
    destruct HI as (HS & _ & _). destruct (HS s g Hg) as [_ _ _ _ S5 _]. specialize (S5 Ht).
    eapply seg_step with (g := g); try exact HI; try exact Hth; try exact Hg; rewrite ?Hold, ?Ha; simp; rw_pre.
    all: try side.
  Qed.

  (* L5: push at the tail of the abandoned OS list (under the lock) *)
  Lemma case_mark_os p' :
    holds (t_pc th) = Some s -> holds_abandoned (t_pc th) = true -> g_arena g = false ->
    holds p' = None -> owns p' = None -> (forall i, pc_seg p' = Some i -> i = s) -> (forall i, os_pc p' = Some i -> i = s) ->
    needs_subproc p' = false -> arena_pc p' = None ->
    Inv (NS (fun g => set_holder g None) (os_list st ++ [s]) p').
  Proof.
    intros Hold Hab Ha H1 H2 H3 H4 H5 H7.
    destruct (inv_holds _ _ _ _ _ HI Hth Hg Hold) as (Hh & Hfr & Hm & Ht & _). specialize (Ht Hab).
    destruct HI as (HS & _ & _). destruct (HS s g Hg) as [_ _ _ _ S5 _]. specialize (S5 Ht).
    eapply seg_step with (g := g); try exact HI; try exact Hth; try exact Hg; rewrite ?Hold, ?Ha; simp; rw_pre.
    all: rewrite ?in_list_app, ?Nat.eqb_refl, ?orb_true_r.
    all: try side.
    - intros j Hj. rewrite in_list_app. destruct (Nat.eqb j s) eqn:E; [apply Nat.eqb_eq in E; congruence|]. apply orb_false_r.
  Qed.

  (* L6: the owner stores thread_id = 0 (mi_segment_abandon) *)
  Lemma case_Ab1 :
    t_pc th = Ab1 s ->
    Inv (NS (fun g => set_holder (set_visits (set_tid g 0) 1) (Some t)) (os_list st) (Ab2 s)).
  Proof.
    intros Epc.
    assert (Ho : owns (t_pc th) = Some s) by (rewrite Epc; reflexivity).
    destruct (inv_owns' _ _ _ _ _ HI Hth Hg Ho) as (Ht & Hfr & Hm & Hh).
    destruct Hh as [Hh|[_ Hh]]; [|rewrite Epc in Hh; discriminate].
    rewrite mark_now in Hm.
    assert (Hfl : g_flag g = NEVER).
    { destruct HI as (_ & HT & _). destruct (HT t th Hth) as [_ _ _ _ _ G6 _]. destruct (G6 s Epc) as (g0 & A & B).
      unfold seg_at in A, Hg. rewrite Hg in A. inversion A; subst g0. exact B. }
    eapply seg_step with (g := g); try exact HI; try exact Hth; try exact Hg; rewrite ?Epc; simp; rw_pre.
    all: try side.
    all: try solve [intros _ _; right; split; [eauto|exact Hm]].
  Qed.

  (* L8: the thread that has the segment in its hand changes thread-private parts of it (or stores the
     value thread_id already has) and moves on, still holding it *)
  Lemma case_hold_local (f : seg -> seg) p' :
    holds (t_pc th) = Some s ->
    g_arena (f g) = g_arena g -> g_subproc (f g) = g_subproc g -> g_tid (f g) = g_tid g -> g_bit (f g) = g_bit g ->
    g_flag (f g) = g_flag g -> g_freed (f g) = g_freed g -> g_holder (f g) = g_holder g ->
    holds p' = Some s -> (holds_abandoned p' = true -> holds_abandoned (t_pc th) = true) -> owns p' = None ->
    pc_seg p' = Some s -> os_pc p' = None -> (needs_subproc p' = true -> needs_subproc (t_pc th) = true) -> arena_pc p' = None ->
    Inv (NS f (os_list st) p').
  Proof.
    intros Hold E1 E2 E3 E4 E5 E6 E7 H1 H2 H3 H4 H5 H6 H7.
    destruct (inv_holds _ _ _ _ _ HI Hth Hg Hold) as (Hh & Hfr & Hm & Hta & Ht).
    rewrite mark_now in Hm.
    assert (Hsp : needs_subproc (t_pc th) = true -> g_subproc g = t_subproc th).
    { intros Hns. destruct HI as (_ & HT & _). destruct (HT t th Hth) as [_ _ G3 _ _ _ _].
      assert (Hps : pc_seg (t_pc th) = Some s) by (destruct (t_pc th); cbn in Hold |- *; try discriminate; try (destruct r; try discriminate); try (destruct won; try discriminate); inversion Hold; reflexivity).
      destruct (G3 Hns s Hps) as (g0 & A & B). unfold seg_at in A, Hg. rewrite Hg in A. inversion A; subst g0. exact B. }
    destruct HI as (HS & _ & _). pose proof (HS s g Hg) as [S1 S2 S3 S4 S5 S6].
    eapply seg_step with (g := g); try exact HI; try exact Hth; try exact Hg; rewrite ?Hold, ?E1, ?E2, ?E3, ?E4, ?E5, ?E6, ?E7; simp; rw_pre.
    all: try side.
    all: try solve [intros; rewrite E2; auto].
    all: try solve [intros X Y; split; [exact Hm|]; intros t2 H; inversion H; subst; destruct Ht as [Ht|Ht]; congruence].
    all: try solve [destruct (g_arena g); rewrite ?E4; intros _ _; right; split; [eauto|exact Hm]].
    all: try solve [intros; left; auto].
  Qed.

  (* L9: a block is freed: only the block counters of the segment change *)
  Lemma case_blocks (a b c : seg -> N) :
    holds (t_pc th) = None ->
    Inv (NS (fun g => set_blocks g (a g) (b g) (c g)) (os_list st) Idle).
  Proof.
    intros Hold.
    destruct HI as (HS & _ & _). pose proof (HS s g Hg) as [S1 S2 S3 S4 S5 S6]. rewrite mark_now in S1, S2, S3.
    eapply seg_step with (g := g); try exact HI; try exact Hth; try exact Hg; rewrite ?Hold; simp; rw_pre.
    all: try side.
    all: try solve [destruct (g_arena g); auto].
    - intros t2 H2. right. split; [|exact H2]. assert (Hn : holds (t_pc th) <> Some s) by congruence.
      exact (holder_not_me_idle t2 Hn H2).
  Qed.

  (* L10: the end of mi_segment_reclaim by the new owner *)
  Lemma case_Rc2_free k (a b c : seg -> N) :
    t_pc th = Rc2 s k ->
    Inv (NS (fun g => set_freed (set_blocks (set_flag g USE) (a g) (b g) (c g))) (os_list st) Idle).
  Proof.
    intros Epc.
    assert (Hold : holds (t_pc th) = Some s) by (rewrite Epc; reflexivity).
    assert (Ho : owns (t_pc th) = Some s) by (rewrite Epc; reflexivity).
    destruct (inv_holds _ _ _ _ _ HI Hth Hg Hold) as (Hh & Hfr & Hm & _ & _).
    destruct (inv_owns _ _ _ _ _ HI Hth Hg Ho) as (Ht & _).
    rewrite mark_now in Hm.
    eapply seg_step with (g := g); try exact HI; try exact Hth; try exact Hg; rewrite ?Epc; simp; rw_pre.
    all: try side.
    all: try solve [destruct (g_arena g); auto].
  Qed.

  Lemma case_Rc2_keep k (a b c : seg -> N) p' :
    t_pc th = Rc2 s k -> p' = FrR s \/ p' = Idle ->
    Inv (NS (fun g => set_holder (set_blocks (set_flag g USE) (a g) (b g) (c g)) None) (os_list st) p').
  Proof.
    intros Epc Hp'.
    assert (Hold : holds (t_pc th) = Some s) by (rewrite Epc; reflexivity).
    assert (Ho : owns (t_pc th) = Some s) by (rewrite Epc; reflexivity).
    destruct (inv_holds _ _ _ _ _ HI Hth Hg Hold) as (Hh & Hfr & Hm & _ & _).
    destruct (inv_owns _ _ _ _ _ HI Hth Hg Ho) as (Ht & _).
    rewrite mark_now in Hm.
    eapply seg_step with (g := g); try exact HI; try exact Hth; try exact Hg; rewrite ?Epc; simp; rw_pre.
    all: destruct Hp' as [-> | ->]; simp.
    all: try side.
    all: try solve [intros; left; auto].
    all: try solve [intros; exfalso; eapply tid_of_nz; eauto].
  Qed.

  (* L11: the owner starts to abandon: its pages get NEVER_DELAYED_FREE *)
  Lemma case_abandon_start :
    t_pc th = Idle -> g_tid g = tid_of t -> g_freed g = false ->
    Inv (NS (fun g => set_flag g NEVER) (os_list st) (Ab1 s)).
  Proof.
    intros Epc Ht Hf. destruct HI as (HS & _ & _). pose proof (HS s g Hg) as [S1 S2 S3 S4 S5 S6].
    assert (Hnz : g_tid g <> 0) by (rewrite Ht; apply tid_of_nz). destruct (S2 Hf Hnz) as [Hm Hh].
    rewrite mark_now in Hm.
    eapply seg_step with (g := g); try exact HI; try exact Hth; try exact Hg; rewrite ?Epc; simp; rw_pre.
    all: try side.
    all: try solve [intros; left; auto].
    - intros _ _. split; [exact Hm|]. intros t2 H2. rewrite <- Ht. apply Hh. exact H2.
    - intros t2 H2. right. split; [|exact H2]. assert (Hn : holds (t_pc th) <> Some s) by (rewrite Epc; discriminate).
      exact (holder_not_me_idle t2 Hn H2).
  Qed.
End Cases.

(* ---------------------------------------------------------------------------------------------- *)
(* every transition preserves the invariant                                                         *)
(* ---------------------------------------------------------------------------------------------- *)

Lemma inv_subproc st t th s g :
  Inv st -> thr_at st t th -> seg_at st s g -> needs_subproc (t_pc th) = true -> pc_seg (t_pc th) = Some s ->
  g_subproc g = t_subproc th.
Proof.
  intros (_ & HT & _) Hth Hg Hn Hp. destruct (HT t th Hth) as [_ _ G3 _ _ _ _]. destruct (G3 Hn s Hp) as (g0 & A & B).
  unfold seg_at in A, Hg. rewrite Hg in A. inversion A; subst g0. exact B.
Qed.

Lemma inv_os st t th s g :
  Inv st -> thr_at st t th -> seg_at st s g -> os_pc (t_pc th) = Some s -> g_arena g = false.
Proof.
  intros (_ & HT & _) Hth Hg Hp. destruct (HT t th Hth) as [_ _ _ _ G5 _ _]. destruct (G5 s Hp) as (g0 & A & B).
  unfold seg_at in A, Hg. rewrite Hg in A. inversion A; subst g0. exact B.
Qed.

Lemma inv_arena st t th s g :
  Inv st -> thr_at st t th -> seg_at st s g -> arena_pc (t_pc th) = Some s -> g_arena g = true.
Proof.
  intros (_ & HT & _) Hth Hg Hp. destruct (HT t th Hth) as [_ _ _ _ _ _ G7]. destruct (G7 s Hp) as (g0 & A & B).
  unfold seg_at in A, Hg. rewrite Hg in A. inversion A; subst g0. exact B.
Qed.

Lemma inv_range st t th s :
  Inv st -> thr_at st t th -> pc_seg (t_pc th) = Some s -> exists g, seg_at st s g.
Proof. intros (_ & HT & _) Hth Hp. destruct (HT t th Hth) as [_ _ _ G4 _ _ _]. exact (G4 s Hp). Qed.

Ltac norm He :=
  inversion He; subst; clear He; unfold with_seg, keep, with_count;
  cbn [o_segs o_list o_lock o_vlock o_count o_pop o_pc o_hold].

Ltac pcs Epc :=
  rewrite ?Epc; cbn [holds owns needs_subproc pc_seg os_pc arena_pc holds_abandoned];
  first
  [ reflexivity
  | discriminate
  | solve [intros; try discriminate; congruence]
  | solve [intros i Hi; try discriminate; inversion Hi; subst; auto]
  | solve [intros i Hi; inversion Hi]
  | solve [auto] ].

Lemma exec_Inv st t th o : Inv st -> thr_at st t th -> exec st t th = Some o -> Inv (apply_outcome st t o).
Proof.
  intros HI Hth He. rewrite apply_outcome_new. unfold exec in He.
  destruct (t_pc th) eqn:Epc.
  - (* Idle *)
    destruct (t_prog th) as [|o' r]; [discriminate|]. destruct o'.
    + (* OAbandon *)
      destruct (nth_error (segs st) s) as [g|] eqn:Eg.
      * destruct ((g_tid g =? tid_of t) && negb (g_freed g)) eqn:Ec.
        -- apply andb_prop in Ec as [E1 E2]. apply N.eqb_eq in E1. apply negb_true_iff in E2. norm He.
           apply case_abandon_start with (th := th) (g := g); auto.
        -- norm He. apply frame_idle with (th := th); auto; rewrite ?Epc; reflexivity.
      * norm He. apply frame_idle with (th := th); auto; rewrite ?Epc; reflexivity.
    + (* OFree *)
      destruct (nth_error (segs st) s) as [g|] eqn:Eg.
      * destruct (g_freed g || (g_live g =? 0)) eqn:Ec.
        -- norm He. apply frame_idle with (th := th); auto; rewrite ?Epc; reflexivity.
        -- apply orb_false_iff in Ec as [Ef _].
           destruct (g_tid g =? tid_of t) eqn:Et.
           ++ apply N.eqb_eq in Et. norm He. apply case_pc_only with (th := th) (s := s) (g := g); auto; pcs Epc.
           ++ destruct rof; norm He; apply case_pc_only with (th := th) (s := s) (g := g); auto; pcs Epc.
      * norm He. apply frame_idle with (th := th); auto; rewrite ?Epc; reflexivity.
    + (* OVisitArena *)
      destruct (nth_error (segs st) s) as [g|] eqn:Eg.
      * destruct (g_arena g) eqn:Ea.
        -- destruct (g_bit g) eqn:Eb; norm He.
           ++ apply case_pc_only with (th := th) (s := s) (g := g); auto; pcs Epc.
           ++ apply frame_idle with (th := th); auto; rewrite ?Epc; reflexivity.
        -- norm He. apply frame_idle with (th := th); auto; rewrite ?Epc; reflexivity.
      * norm He. apply frame_idle with (th := th); auto; rewrite ?Epc; reflexivity.
    + (* OVisitOs *)
      destruct (t_vlock th).
      * norm He. apply frame_idle with (th := th); auto; rewrite ?Epc; reflexivity.
      * destruct (lock_held (os_vlock st) (t_subproc th)).
        -- destruct all; [discriminate|]. norm He. apply frame_idle with (th := th); auto; rewrite ?Epc; reflexivity.
        -- norm He. apply frame_idle with (th := th); auto; rewrite ?Epc; reflexivity.
    + (* OCursorDone *)
      destruct (t_vlock th); norm He; apply frame_idle with (th := th); auto; rewrite ?Epc; reflexivity.
    + (* OVisitLock *)
      destruct (t_vlock th).
      * norm He. apply frame_idle with (th := th); auto; rewrite ?Epc; reflexivity.
      * destruct (lock_held (os_vlock st) (t_subproc th)).
        -- destruct all; [discriminate|]. norm He. apply frame_idle with (th := th); auto; rewrite ?Epc; reflexivity.
        -- norm He. apply frame_idle with (th := th); auto; rewrite ?Epc; reflexivity.
  - (* Ab1 *)
    destruct (nth_error (segs st) s) as [g|] eqn:Eg; [|discriminate]. norm He. apply case_Ab1 with (th := th) (g := g); auto.
  - (* Ab2 *)
    destruct (nth_error (segs st) s) as [g|] eqn:Eg; [|discriminate]. norm He.
    assert (Hold : holds (t_pc th) = Some s) by (rewrite Epc; reflexivity).
    destruct (inv_holds _ _ _ _ _ HI Hth Eg Hold) as (_ & _ & _ & Ht & _). rewrite Epc in Ht. specialize (Ht eq_refl).
    apply case_hold_local with (th := th) (g := g); auto; try (cbn; congruence); pcs Epc.
  - (* Ab3 *)
    destruct (nth_error (segs st) s) as [g|] eqn:Eg; [|discriminate].
    assert (Hold : holds (t_pc th) = Some s) by (rewrite Epc; reflexivity).
    destruct (g_arena g) eqn:Ea.
    + norm He. apply case_mark_arena with (th := th) (g := g); auto; try (rewrite Epc; reflexivity); destruct (g_bit g); pcs Epc.
    + destruct (lock_held (os_lock st) (g_subproc g)); [discriminate|]. norm He.
      apply case_pc_only with (th := th) (s := s) (g := g); auto; pcs Epc.
  - (* Ab4a *)
    destruct (inv_range _ _ _ s HI Hth ltac:(rewrite Epc; reflexivity)) as (g & Eg). norm He.
    apply case_pc_only with (th := th) (s := s) (g := g); auto; pcs Epc.
  - (* Ab4o *)
    destruct (inv_range _ _ _ s HI Hth ltac:(rewrite Epc; reflexivity)) as (g & Eg). norm He.
    pose proof (inv_os _ _ _ s g HI Hth Eg ltac:(rewrite Epc; reflexivity)) as Ha.
    apply case_mark_os with (th := th) (g := g); auto; pcs Epc.
  - (* Ab4p *)
    destruct (inv_range _ _ _ s HI Hth ltac:(rewrite Epc; reflexivity)) as (g & Eg). norm He.
    pose proof (inv_os _ _ _ s g HI Hth Eg ltac:(rewrite Epc; reflexivity)) as Ha.
    apply case_pc_only with (th := th) (s := s) (g := g); auto; pcs Epc.
  - (* Ab5o *)
    destruct (inv_range _ _ _ s HI Hth ltac:(rewrite Epc; reflexivity)) as (g & Eg). norm He.
    apply case_pc_only with (th := th) (s := s) (g := g); auto; pcs Epc.
  - (* Fr1 *)
    destruct (nth_error (segs st) s) as [g|] eqn:Eg; [|discriminate]. norm He.
    apply case_pc_only with (th := th) (s := s) (g := g); auto; destruct (g_tid g =? 0); pcs Epc.
  - (* Fr2 *)
    destruct (nth_error (segs st) s) as [g|] eqn:Eg; [|discriminate]. norm He.
    destruct ((g_tid g =? 0) && (g_subproc g =? t_subproc th) && heur) eqn:Ec.
    + apply andb_prop in Ec as [Ec _]. apply andb_prop in Ec as [_ Ec]. apply N.eqb_eq in Ec.
      apply case_pc_only with (th := th) (s := s) (g := g); auto; pcs Epc.
    + apply case_pc_only with (th := th) (s := s) (g := g); auto; pcs Epc.
  - (* Fr3 *)
    destruct (nth_error (segs st) s) as [g|] eqn:Eg; [|discriminate].
    pose proof (inv_subproc _ _ _ s g HI Hth Eg ltac:(rewrite Epc; reflexivity) ltac:(rewrite Epc; reflexivity)) as Hsp.
    destruct (g_arena g) eqn:Ea.
    + destruct (g_bit g) eqn:Eb; norm He.
      * apply case_unclaim_win with (th := th) (g := g); auto; pcs Epc.
      * rewrite (upd_nth_same st s g Eg) by (rewrite Eb; reflexivity).
        apply case_pc_only with (th := th) (s := s) (g := g); auto; pcs Epc.
    + destruct (lock_held (os_lock st) (g_subproc g)); norm He; apply case_pc_only with (th := th) (s := s) (g := g); auto; pcs Epc.
  - (* Fr3o *)
    destruct (inv_range _ _ _ s HI Hth ltac:(rewrite Epc; reflexivity)) as (g & Eg).
    pose proof (inv_os _ _ _ s g HI Hth Eg ltac:(rewrite Epc; reflexivity)) as Ha.
    pose proof (inv_subproc _ _ _ s g HI Hth Eg ltac:(rewrite Epc; reflexivity) ltac:(rewrite Epc; reflexivity)) as Hsp.
    destruct (in_list (os_list st) s) eqn:El; norm He.
    + apply case_list_remove with (th := th) (g := g); auto; pcs Epc.
    + apply case_pc_only with (th := th) (s := s) (g := g); auto; pcs Epc.
  - (* Fr3p *)
    destruct (inv_range _ _ _ s HI Hth ltac:(rewrite Epc; reflexivity)) as (g & Eg). norm He.
    pose proof (inv_os _ _ _ s g HI Hth Eg ltac:(rewrite Epc; reflexivity)) as Ha.
    pose proof (inv_subproc _ _ _ s g HI Hth Eg ltac:(rewrite Epc; reflexivity) ltac:(rewrite Epc; reflexivity)) as Hsp.
    apply case_pc_only with (th := th) (s := s) (g := g); auto; pcs Epc.
  - (* Fr3q *)
    destruct (nth_error (segs st) s) as [g|] eqn:Eg; [|discriminate]. norm He.
    apply case_set_tid_me with (th := th) (g := g); auto; pcs Epc.
  - (* Fr5o *)
    destruct (inv_range _ _ _ s HI Hth ltac:(rewrite Epc; reflexivity)) as (g & Eg). norm He.
    destruct won.
    + pose proof (inv_subproc _ _ _ s g HI Hth Eg ltac:(rewrite Epc; reflexivity) ltac:(rewrite Epc; reflexivity)) as Hsp.
      apply case_pc_only with (th := th) (s := s) (g := g); auto; pcs Epc.
    + apply case_pc_only with (th := th) (s := s) (g := g); auto; pcs Epc.
  - (* Fr4 *)
    destruct (inv_range _ _ _ s HI Hth ltac:(rewrite Epc; reflexivity)) as (g & Eg). norm He.
    pose proof (inv_subproc _ _ _ s g HI Hth Eg ltac:(rewrite Epc; reflexivity) ltac:(rewrite Epc; reflexivity)) as Hsp.
    apply case_pc_only with (th := th) (s := s) (g := g); auto; pcs Epc.
  - (* Fr4b *)
    destruct (nth_error (segs st) s) as [g|] eqn:Eg; [|discriminate]. norm He.
    apply case_set_tid_me with (th := th) (g := g); auto; pcs Epc.
  - (* Rc1 *)
    destruct (nth_error (segs st) s) as [g|] eqn:Eg; [|discriminate]. norm He.
    apply case_set_tid_me with (th := th) (g := g); auto; pcs Epc.
  - (* Rc2 *)
    destruct (nth_error (segs st) s) as [g|] eqn:Eg; [|discriminate].
    destruct (g_live g =? 0); norm He.
    + apply case_Rc2_free with (th := th) (g := g) (k := k) (a := fun _ => 0) (b := fun _ => 0) (c := g_delayed); auto.
    + apply case_Rc2_keep with (th := th) (g := g) (k := k) (a := g_live) (b := fun _ => 0) (c := g_delayed); auto. destruct k; auto.
  - (* FrR *)
    destruct (nth_error (segs st) s) as [g|] eqn:Eg; [|discriminate]. norm He.
    destruct (inv_owns _ _ _ s g HI Hth Eg ltac:(rewrite Epc; reflexivity)) as (Ht & Hf & _).
    apply case_pc_only with (th := th) (s := s) (g := g); auto; pcs Epc.
  - (* FrL *)
    destruct (nth_error (segs st) s) as [g|] eqn:Eg; [|discriminate]. norm He.
    apply case_blocks with (th := th) (g := g) (a := fun g => g_live g - 1) (b := g_tfree) (c := g_delayed); auto. rewrite Epc. reflexivity.
  - (* FrP *)
    destruct (nth_error (segs st) s) as [g|] eqn:Eg; [|discriminate].
    destruct (g_flag g =? USE); norm He.
    + apply case_blocks with (th := th) (g := g) (a := fun g => g_live g - 1) (b := g_tfree) (c := fun g => g_delayed g + 1); auto; rewrite Epc; reflexivity.
    + apply case_blocks with (th := th) (g := g) (a := fun g => g_live g - 1) (b := fun g => g_tfree g + 1) (c := g_delayed); auto; rewrite Epc; reflexivity.
  - (* Vs0 *)
    destruct (nth_error (segs st) s) as [g|] eqn:Eg; [|discriminate]. norm He.
    destruct (g_bit g) eqn:Eb.
    + pose proof (inv_arena _ _ _ s g HI Hth Eg ltac:(rewrite Epc; reflexivity)) as Ha.
      apply case_unclaim_win with (th := th) (g := g); auto; try pcs Epc.
    + rewrite (upd_nth_same st s g Eg) by (rewrite Eb; reflexivity).
      apply frame_idle with (th := th); auto; rewrite ?Epc; reflexivity.
  - (* Vs1 *)
    destruct (nth_error (segs st) s) as [g|] eqn:Eg; [|discriminate]. norm He.
    pose proof (inv_arena _ _ _ s g HI Hth Eg ltac:(rewrite Epc; reflexivity)) as Ha.
    destruct (g_subproc g =? t_subproc th) eqn:Ec.
    + apply N.eqb_eq in Ec. apply case_pc_only with (th := th) (s := s) (g := g); auto; pcs Epc.
    + apply case_pc_only with (th := th) (s := s) (g := g); auto; pcs Epc.
  - (* VsR *)
    destruct (nth_error (segs st) s) as [g|] eqn:Eg; [|discriminate]. norm He.
    pose proof (inv_arena _ _ _ s g HI Hth Eg ltac:(rewrite Epc; reflexivity)) as Ha.
    apply case_mark_arena with (th := th) (g := g); auto; try pcs Epc.
  - (* Vs2 *)
    destruct (inv_range _ _ _ s HI Hth ltac:(rewrite Epc; reflexivity)) as (g & Eg). norm He.
    pose proof (inv_subproc _ _ _ s g HI Hth Eg ltac:(rewrite Epc; reflexivity) ltac:(rewrite Epc; reflexivity)) as Hsp.
    apply case_pc_only with (th := th) (s := s) (g := g); auto; pcs Epc.
  - (* Hd0 *)
    destruct (nth_error (segs st) s) as [g|] eqn:Eg; [|discriminate]. norm He.
    apply case_hold_local with (th := th) (g := g); auto; try (destruct m; reflexivity); try pcs Epc.
    all: match goal with |- context [if ?c then _ else _] => destruct c end; pcs Epc.
  - (* Vo1 *)
    destruct (lock_held (os_lock st) (t_subproc th)); [discriminate|]. norm He.
    apply frame_idle with (th := th); auto; rewrite ?Epc; reflexivity.
  - (* Vo2 *)
    destruct (os_head st (t_subproc th)) as [s|] eqn:Eh; norm He.
    + unfold os_head in Eh. apply find_some in Eh as [Hin Hsp]. apply N.eqb_eq in Hsp.
      pose proof HI as (HS & HT & HL). destruct (HL s Hin) as (g & Eg & Ha).
      assert (Hsp' : g_subproc g = t_subproc th).
      { unfold subproc_of in Hsp. unfold seg_at in Eg. rewrite Eg in Hsp. exact Hsp. }
      apply case_list_remove with (th := th) (g := g); auto; try pcs Epc.
      apply in_list_spec. exact Hin.
    + apply frame_idle with (th := th); auto; rewrite ?Epc; reflexivity.
  - (* Vo2c *)
    destruct (inv_range _ _ _ s HI Hth ltac:(rewrite Epc; reflexivity)) as (g & Eg). norm He.
    pose proof (inv_subproc _ _ _ s g HI Hth Eg ltac:(rewrite Epc; reflexivity) ltac:(rewrite Epc; reflexivity)) as Hsp.
    apply case_pc_only with (th := th) (s := s) (g := g); auto; pcs Epc.
  - (* Vo3 *)
    destruct r as [s|]; norm He.
    + destruct (inv_range _ _ _ s HI Hth ltac:(rewrite Epc; reflexivity)) as (g & Eg).
      pose proof (inv_subproc _ _ _ s g HI Hth Eg ltac:(rewrite Epc; reflexivity) ltac:(rewrite Epc; reflexivity)) as Hsp.
      apply case_pc_only with (th := th) (s := s) (g := g); auto; pcs Epc.
    + apply frame_idle with (th := th); auto; rewrite ?Epc; reflexivity.
Qed.


Theorem step_Inv st t st' : Inv st -> step st t = Some st' -> Inv st'.
Proof.
  intros HI Hs. unfold step, stepx in Hs. destruct (nth_error (threads st) t) as [th|] eqn:Eth; [|discriminate].
  destruct (exec st t th) as [o|] eqn:Ee; [|discriminate]. inversion Hs; subst. eapply exec_Inv; eauto.
Qed.

Theorem reachable_Inv st0 st : Inv st0 -> reachable st0 st -> Inv st.
Proof. intros H0 Hr. induction Hr; [exact H0|eapply step_Inv; eauto]. Qed.

Lemma run_schedule_reachable st0 sched : forall st, reachable st0 st -> reachable st0 (run_schedule st sched).
Proof.
  induction sched as [|t r IH]; intros st Hr; [exact Hr|]. cbn [run_schedule].
  destruct (step st t) as [st'|] eqn:E; [apply IH; eapply reach_step; eauto|apply IH; exact Hr].
Qed.

(* ---------------------------------------------------------------------------------------------- *)
(* the boolean invariant implies the invariant (to start from concrete states)                       *)
(* ---------------------------------------------------------------------------------------------- *)

Lemma indexed_In {A} (l : list A) : forall (n i : nat) x, nth_error l i = Some x -> In ((n + i)%nat, x) (indexed n l).
Proof.
  induction l as [|y r IH]; intros n [|k] x H; cbn in *; try discriminate.
  - inversion H; subst. left. f_equal. lia.
  - right. replace (n + S k)%nat with (S n + k)%nat by lia. apply IH. exact H.
Qed.

Lemma opt_nat_eqb_eq a b : opt_nat_eqb a b = true -> a = b.
Proof.
  destruct a, b; cbn; intros H; try discriminate; [apply Nat.eqb_eq in H; congruence|reflexivity].
Qed.

Lemma seg_inv_b_sound st i g : seg_at st i g -> seg_inv_b st i g = true -> seg_ok st i g.
Proof.
  intros Hg H. unfold seg_inv_b in H. repeat (apply andb_prop in H as [H ?]).
  rename H into B1, H4 into B2, H3 into B3, H2 into B4, H1 into B5, H0 into B6.
  constructor.
  - intros Hf. rewrite Hf in B1. apply andb_prop in B1 as [X Y]. apply negb_true_iff in X. apply opt_nat_eqb_eq in Y. auto.
  - intros Hf Ht. apply N.eqb_neq in Ht. rewrite Hf, Ht in B2. cbn in B2. apply andb_prop in B2 as [X Y].
    apply negb_true_iff in X. split; [exact X|]. intros t Hh. rewrite Hh in Y. apply N.eqb_eq in Y. exact Y.
  - intros Hf Ht. rewrite Hf, Ht in B3. cbn in B3. destruct (g_holder g) as [t|].
    + right. apply negb_true_iff in B3. eauto.
    + left. auto.
  - intros t Hh. rewrite Hh in B4. destruct (nth_error (threads st) t) as [th|] eqn:E; [|discriminate].
    exists th. split; [exact E|]. apply opt_nat_eqb_eq in B4. exact B4.
  - intros Ht. rewrite Ht in B5. cbn in B5. apply N.eqb_eq in B5. exact B5.
  - intros Hf t th Hth Hid.
    assert (Hnz : (g_tid g =? 0) = false) by (apply N.eqb_neq; rewrite <- Hid; apply tid_of_nz).
    rewrite Hnz, Hf in B6. cbn in B6. rewrite forallb_forall in B6.
    pose proof (B6 (t, th) (indexed_In _ 0%nat t th Hth)) as X. cbn in X. rewrite Hid, N.eqb_refl in X. apply N.eqb_eq in X. exact X.
Qed.

Lemma thr_inv_b_sound st t th : thr_inv_b st t th = true -> thr_ok st t th.
Proof.
  intros H. unfold thr_inv_b in H. repeat (apply andb_prop in H as [H ?]).
  rename H into B1, H5 into B2, H4 into B3, H3 into B4, H2 into B5, H1 into B6, H0 into B7.
  constructor.
  - intros i Hi. rewrite Hi in B1. destruct (nth_error (segs st) i) as [g|] eqn:E; [|discriminate].
    apply andb_prop in B1 as [B1 X]. apply andb_prop in B1 as [Y Z]. apply opt_nat_eqb_eq in Y. apply negb_true_iff in Z.
    exists g. repeat split; auto. intros Ha. rewrite Ha in X. apply N.eqb_eq in X. exact X.
  - intros i Hi. rewrite Hi in B2. destruct (nth_error (segs st) i) as [g|] eqn:E; [|discriminate].
    apply andb_prop in B2 as [Y Z]. apply N.eqb_eq in Y. apply negb_true_iff in Z. exists g. auto.
  - intros Hn i Hi. rewrite Hn, Hi in B3. destruct (nth_error (segs st) i) as [g|] eqn:E; [|discriminate].
    apply N.eqb_eq in B3. exists g. auto.
  - intros i Hi. rewrite Hi in B4. apply Nat.ltb_lt in B4. apply nth_error_Some in B4.
    destruct (nth_error (segs st) i) as [g|] eqn:E; [exists g; exact E|congruence].
  - intros i Hi. rewrite Hi in B5. destruct (nth_error (segs st) i) as [g|] eqn:E; [|discriminate].
    apply negb_true_iff in B5. exists g. auto.
  - intros i Hi. rewrite Hi in B7. destruct (nth_error (segs st) i) as [g|] eqn:E; [|discriminate].
    apply N.eqb_eq in B7. exists g. auto.
  - intros i Hi. rewrite Hi in B6. destruct (nth_error (segs st) i) as [g|] eqn:E; [|discriminate]. exists g. auto.
Qed.

Theorem inv_b_sound st : inv_b st = true -> Inv st.
Proof.
  intros H. unfold inv_b in H. apply andb_prop in H as [H B3]. apply andb_prop in H as [B1 B2].
  rewrite forallb_forall in B1, B2. split; [|split].
  - intros i g Hg. apply seg_inv_b_sound; [exact Hg|]. exact (B1 (i, g) (indexed_In _ 0%nat i g Hg)).
  - intros t th Hth. apply thr_inv_b_sound. exact (B2 (t, th) (indexed_In _ 0%nat t th Hth)).
  - intros s Hs. unfold list_inv_b in B3. rewrite forallb_forall in B3. specialize (B3 s Hs).
    destruct (nth_error (segs st) s) as [g|] eqn:E; [|discriminate]. apply negb_true_iff in B3. exists g. auto.
Qed.

(* ---------------------------------------------------------------------------------------------- *)
(* the clauses of C09 (model part)                                                                  *)
(* ---------------------------------------------------------------------------------------------- *)

Definition in_hand (st : state) (i t : nat) : Prop := exists th, thr_at st t th /\ holds (t_pc th) = Some i.

(* unique_adopter: a segment that is not freed is owned, or marked abandoned, or in exactly one
   visitor's hand -- exactly one of the three; a thread that has an owned segment in hand is its owner *)
Theorem unique_adopter_lemma st i g :
  Inv st -> seg_at st i g -> g_freed g = false ->
  (forall t1 t2, in_hand st i t1 -> in_hand st i t2 -> t1 = t2) /\
  ((g_tid g <> 0 /\ marked st i = false /\ (forall t, in_hand st i t -> tid_of t = g_tid g)) \/
   (g_tid g = 0 /\ marked st i = true /\ (forall t, ~ in_hand st i t)) \/
   (g_tid g = 0 /\ marked st i = false /\ exists t, in_hand st i t)).
Proof.
  intros HI Hg Hf.
  assert (Hh : forall t, in_hand st i t -> g_holder g = Some t).
  { intros t (th & Hth & Hp). destruct (inv_holds _ _ _ _ _ HI Hth Hg Hp) as (A & _). exact A. }
  split; [intros t1 t2 H1 H2; apply Hh in H1, H2; congruence|].
  destruct HI as (HS & _ & _). destruct (HS i g Hg) as [_ S2 S3 S4 _ _].
  destruct (N.eq_dec (g_tid g) 0) as [E|E].
  - right. destruct (S3 Hf E) as [[X Y]|[[t X] Y]].
    + left. split; [exact E|]. split; [exact Y|]. intros t Ht. apply Hh in Ht. congruence.
    + right. split; [exact E|]. split; [exact Y|]. exists t. destruct (S4 t X) as (th & A & B). exists th. auto.
  - left. destruct (S2 Hf E) as [X Y]. split; [exact E|]. split; [exact X|]. intros t Ht. apply Y, Hh, Ht.
Qed.

Theorem unique_adopter_reachable st0 st i g :
  Inv st0 -> reachable st0 st -> seg_at st i g -> g_freed g = false ->
  (forall t1 t2, in_hand st i t1 -> in_hand st i t2 -> t1 = t2) /\
  ((g_tid g <> 0 /\ marked st i = false /\ (forall t, in_hand st i t -> tid_of t = g_tid g)) \/
   (g_tid g = 0 /\ marked st i = true /\ (forall t, ~ in_hand st i t)) \/
   (g_tid g = 0 /\ marked st i = false /\ exists t, in_hand st i t)).
Proof. intros H0 Hr. apply unique_adopter_lemma. eapply reachable_Inv; eauto. Qed.

(* reclaim_same_subproc: the owner of a segment is a thread of the segment's sub-process, and so is a
   thread on its way to mi_segment_reclaim *)
Theorem reclaim_same_subproc_lemma st0 st :
  Inv st0 -> reachable st0 st ->
  (forall s g t th, seg_at st s g -> g_freed g = false -> thr_at st t th -> g_tid g = tid_of t -> t_subproc th = g_subproc g) /\
  (forall s g t th, seg_at st s g -> thr_at st t th -> needs_subproc (t_pc th) = true -> pc_seg (t_pc th) = Some s ->
     g_subproc g = t_subproc th).
Proof.
  intros H0 Hr. pose proof (reachable_Inv _ _ H0 Hr) as HI. split.
  - intros s g t th Hg Hf Hth Hid. destruct HI as (HS & _ & _). destruct (HS s g Hg) as [_ _ _ _ _ S6]. eapply S6; eauto.
  - intros s g t th Hg Hth Hn Hp. eapply inv_subproc; eauto.
Qed.

(* never_delayed_goes_to_page_list: pages of an abandoned segment carry NEVER_DELAYED_FREE, and a
   remote free that reads this flag pushes the block on the page thread-free list *)
Theorem never_delayed_lemma st0 st :
  Inv st0 -> reachable st0 st ->
  (forall s g, seg_at st s g -> g_tid g = 0 -> g_flag g = NEVER) /\
  (forall t th s g st' ev, thr_at st t th -> t_pc th = FrP s -> seg_at st s g -> g_flag g = NEVER ->
     stepx st t = Some (st', ev) ->
     exists g', seg_at st' s g' /\ g_tfree g' = g_tfree g + 1 /\ g_delayed g' = g_delayed g /\ g_live g' = g_live g - 1).
Proof.
  intros H0 Hr. pose proof (reachable_Inv _ _ H0 Hr) as HI. split.
  - intros s g Hg Ht. destruct HI as (HS & _ & _). destruct (HS s g Hg) as [_ _ _ _ S5 _]. auto.
  - intros t th s g st' ev Hth Epc Hg Hfl Hs. unfold stepx in Hs. unfold thr_at in Hth. rewrite Hth in Hs.
    unfold exec in Hs. rewrite Epc in Hs. unfold seg_at in Hg. rewrite Hg in Hs. rewrite Hfl in Hs.
    change (NEVER =? USE) with false in Hs. inversion Hs; subst; clear Hs.
    eexists. split; [unfold seg_at; cbn; apply (nth_upd_eq _ _ _ _ Hg)|]. cbn. auto.
Qed.

(* abandon_keeps_live: the footprint of a transition.  Block memory (contents and liveness, g_live) of
   segment s changes only in a transition whose event list names LBlock s, and only the two free steps
   (local free, push of a remote free) name it: abandon, mark, clear, cursor, reclaim do not. *)
Definition live_of (st : state) (s : nat) : N :=
  match nth_error (segs st) s with Some g => g_live g | None => 0 end.

Lemma live_upd l s f s' : (forall g, g_live (f g) = g_live g) ->
  match nth_error (upd_nth l s f) s' with Some g => g_live g | None => 0 end =
  match nth_error l s' with Some g => g_live g | None => 0 end.
Proof.
  intros Hf. destruct (Nat.eq_dec s s') as [->|Hne].
  - destruct (nth_error l s') as [g|] eqn:E.
    + rewrite (nth_upd_eq _ _ _ _ E). apply Hf.
    + destruct (nth_error (upd_nth l s' f) s') eqn:E2; [|reflexivity].
      apply nth_upd_inv in E2 as [[_ (x & Hx & _)]|[Hn _]]; congruence.
  - rewrite nth_upd_neq by auto. reflexivity.
Qed.

Lemma live_upd_other l s f s' : s <> s' ->
  match nth_error (upd_nth l s f) s' with Some g => g_live g | None => 0 end =
  match nth_error l s' with Some g => g_live g | None => 0 end.
Proof. intros Hne. rewrite nth_upd_neq by auto. reflexivity. Qed.

Lemma live_upd_const l s g g1 s' : nth_error l s = Some g -> g_live g1 = g_live g ->
  match nth_error (upd_nth l s (fun _ => g1)) s' with Some g => g_live g | None => 0 end =
  match nth_error l s' with Some g => g_live g | None => 0 end.
Proof.
  intros Hg Hl. destruct (Nat.eq_dec s s') as [->|Hne].
  - rewrite (nth_upd_eq _ _ _ _ Hg), Hg. exact Hl.
  - rewrite nth_upd_neq by auto. reflexivity.
Qed.

Lemma live_upd_at l s f g s' : nth_error l s = Some g -> g_live (f g) = g_live g ->
  match nth_error (upd_nth l s f) s' with Some g => g_live g | None => 0 end =
  match nth_error l s' with Some g => g_live g | None => 0 end.
Proof.
  intros Hg Hl. destruct (Nat.eq_dec s s') as [->|Hne].
  - rewrite (nth_upd_eq _ _ _ _ Hg), Hg. exact Hl.
  - rewrite nth_upd_neq by auto. reflexivity.
Qed.

Ltac break_exec H :=
  repeat match type of H with
  | context [match ?x with _ => _ end] => destruct x eqn:?
  | context [if ?x then _ else _] => destruct x eqn:?
  end; try discriminate H.

Theorem footprint_live st t st' ev :
  stepx st t = Some (st', ev) ->
  (forall s, (forall o n, ~ In (t, LBlock s, o, n) ev) -> live_of st' s = live_of st s) /\
  (forall s o n, In (t, LBlock s, o, n) ev ->
     exists th, thr_at st t th /\ (t_pc th = FrL s \/ t_pc th = FrP s)).
Proof.
  intros Hs. unfold stepx in Hs. destruct (nth_error (threads st) t) as [th|] eqn:Eth; [|discriminate].
  destruct (exec st t th) as [o|] eqn:Ee; [|discriminate]. inversion Hs; subst st' ev; clear Hs.
  unfold exec in Ee. destruct (t_pc th) eqn:Epc; break_exec Ee; inversion Ee; subst o; clear Ee.
  all: split;
    [ intros s' Hno; unfold live_of, apply_outcome, with_seg, keep, with_count; cbn [segs o_segs];
      first [ reflexivity
            | solve [apply live_upd; intros; reflexivity]
            | solve [apply live_upd; intros g0; destruct (g_bit g0); reflexivity]
            | solve [eapply live_upd_const; [eassumption|]; match goal with |- context [match ?m with MTry => _ | _ => _ end] => destruct m end; reflexivity]
            | solve [eapply live_upd_at; [eassumption|reflexivity]]
            | solve [eapply live_upd_at; [eassumption|]; cbn;
                     match goal with H : (g_live _ =? 0) = true |- _ => apply N.eqb_eq in H; rewrite H; reflexivity end]
            | solve [apply live_upd_other; intros ->; eapply Hno; cbn; eauto]
            | idtac ]
    | intros s' o' n' Hin; cbn in Hin;
      first [ contradiction
            | exists th; split; [exact Eth|]; intuition (try discriminate; try congruence);
              repeat match goal with H : (_, _, _, _) = (_, _, _, _) |- _ => inversion H; subst; clear H end; auto
            | idtac ] ].
Qed.

(* ---------------------------------------------------------------------------------------------- *)
(* examples (non-vacuity)                                                                           *)
(* ---------------------------------------------------------------------------------------------- *)

Definition sg (arena : bool) (sp tid live : N) : seg := mkSeg arena sp tid false USE live 0 0 0 false None.

(* segments: 0 arena / sub-process 1 / owner thread 0 / 2 live blocks; 1 OS / sp 1 / thread 1 / 1 block;
   2 arena / sp 2 / thread 2 / no live block; 3 arena / sp 1 / thread 0 / no live block.
   threads 0,1,3 in sub-process 1, thread 2 in sub-process 2 *)
Definition ex_st0 : state :=
  mk_state [sg true 1 1 2; sg false 1 2 1; sg true 2 3 0; sg true 1 1 0] [] []
    [ (1, [OAbandon 0; OAbandon 3]);
      (1, [OAbandon 1; OFree 0 true true; OFree 0 false true]);
      (2, [OAbandon 2; OVisitArena MTry 0 true; OVisitArena MAll 2 true]);
      (1, [OVisitArena MCollect 0 false; OVisitArena MCollect 3 false; OVisitOs MCollect false true; OCursorDone; OFree 1 true true]) ].

Fixpoint rr (n : nat) : list nat := match n with O => [] | S k => [0;1;2;3]%nat ++ rr k end.
Definition ex_sched1 : list nat := rr 40.
Definition ex_sched2 : list nat := repeat 0%nat 14 ++ repeat 2%nat 27 ++ rr 40.

Example ex_init_inv : inv_b ex_st0 = true.
Proof. vm_compute. reflexivity. Qed.

Lemma ex_Inv0 : Inv ex_st0.
Proof. apply inv_b_sound. exact ex_init_inv. Qed.

(* round-robin: the collect of thread 3 races with the abandoning threads; thread 2 (other sub-process)
   finds segment 0, fails the sub-process test and marks it again; thread 1 adopts segment 0 by
   reclaim-on-free; thread 3 adopts the OS segment 1; segment 2 is adopted and freed by thread 2;
   segment 3 stays marked (the collect came too early) *)
Example ex_run1 :
  let st := run_schedule ex_st0 ex_sched1 in
  inv_b st = true /\ finished st = true /\ quiescent st = true /\
  map (fun g => (g_tid g, g_bit g, g_freed g, g_live g)) (segs st) = [(2, false, false, 0); (4, false, false, 0); (3, false, true, 0); (0, true, false, 0)] /\
  os_list st = [] /\ count_ok_b st [1; 2] = true.
Proof. vm_compute. repeat split; reflexivity. Qed.

(* abandon first, then the other sub-process visits, then everybody: the forced collect of thread 3
   now frees the dead segment 3 *)
Example ex_run2 :
  let st := run_schedule ex_st0 ex_sched2 in
  inv_b st = true /\ finished st = true /\
  map (fun g => (g_tid g, g_bit g, g_freed g, g_live g)) (segs st) = [(2, false, false, 0); (4, false, false, 0); (3, false, true, 0); (4, false, true, 0)] /\
  count_ok_b st [1; 2] = true /\ no_dead_abandoned_b st 1 = true /\ no_dead_abandoned_b st 2 = true.
Proof. vm_compute. repeat split; reflexivity. Qed.

(* the adoption trace of a schedule: what a step log of the real code is compared with *)
Example ex_trace_prefix :
  firstn 6 (adoption_trace ex_st0 ex_sched2) =
  [(0%nat, LTidPlain 0, 1%Z, 0%Z); (0%nat, LTid 0, 0%Z, 0%Z); (0%nat, LBit 0, 0%Z, 1%Z);
   (0%nat, LTidPlain 3, 1%Z, 0%Z); (0%nat, LTid 3, 0%Z, 0%Z); (0%nat, LBit 3, 0%Z, 1%Z)].
Proof. vm_compute. reflexivity. Qed.

(* a quiescent state with dead abandoned segments (arena and OS list), and one forced collect *)
Definition ex_quiet : state :=
  mkS [mkSeg true 1 0 true NEVER 0 2 0 1 false None; mkSeg false 1 0 false NEVER 0 0 0 1 false None;
       mkSeg true 1 0 true NEVER 3 1 0 1 false None; mkSeg true 2 0 true NEVER 0 0 0 1 false None;
       mkSeg false 1 0 false NEVER 1 0 0 1 false None]
      [1; 4]%nat [] [] [(1, 4%Z); (2, 1%Z)]
      [mkT 1 (collect_prog 5 2) Idle false; mkT 2 [] Idle false].

Example ex_collect :
  inv_b ex_quiet = true /\ quiescent ex_quiet = true /\ count_ok_b ex_quiet [1; 2] = true /\
  no_dead_abandoned_b ex_quiet 1 = false /\
  let st := run_solo 200 ex_quiet 0 in
  inv_b st = true /\ quiescent st = true /\ finished st = true /\ no_dead_abandoned_b st 1 = true /\
  map g_freed (segs st) = [true; true; false; false; false] /\ os_list st = [4%nat] /\ count_ok_b st [1; 2] = true.
Proof. vm_compute. repeat split; reflexivity. Qed.
