(* The run iteration over a commit mask (Model/MaskWords.v):
     1. `next_run_spec`: what _mi_commit_mask_next_run must return -- the first maximal run of set bits at or after idx --
        is satisfied by the bit-level model `commit_mask_next_run` (Model/Mask.v) and determines the result uniquely;
     2. iterating it as mi_commit_mask_foreach does (`foreach_runs`) yields exactly `mask_runs cm`, for every mask, and
        the runs of `mask_runs` are maximal (a clear bit, or the end of the mask, on both sides);
     3. the word-level model `next_run_words`, which follows the C loops over the 8 words of 64 bits (word index, bit
        offset, reload at a word boundary), satisfies the same specification, hence equals `commit_mask_next_run` on
        `mask_of_fields ws` for all words below 2^64 and every idx; so does its foreach.
   All by induction on the bit index / the word index; no finite sweeps. *)
From Coq Require Import NArith ZArith Lia Bool List Arith.
From Coq Require Import ZifyN ZifyBool.
From MiV Require Import Gen.Consts Gen.OsConsts Model.Arith Proofs.Base Model.Os Model.Mask Model.MaskWords Proofs.MaskProofs.
Import ListNotations.
Ltac Zify.zify_post_hook ::= Z.div_mod_to_equations.
Local Open Scope N_scope.

(* ------------------------------------------------------------------------------------- *)
(* 1. specification of next_run and the bit-level model                                    *)
(* ------------------------------------------------------------------------------------- *)
Definition next_run_spec (cm idx s c : N) : Prop :=
  (c = 0 /\ s = MASK_BITS /\ forall k, idx <= k -> k < MASK_BITS -> N.testbit cm k = false) \/
  (0 < c /\ idx <= s /\ s + c <= MASK_BITS /\
   (forall k, idx <= k -> k < s -> N.testbit cm k = false) /\
   (forall k, s <= k -> k < s + c -> N.testbit cm k = true) /\
   (s + c = MASK_BITS \/ N.testbit cm (s + c) = false)).

Lemma find_set_spec n : forall bm i,
  i <= find_set n bm i /\ find_set n bm i <= i + N.of_nat n /\
  (forall k, i <= k -> k < find_set n bm i -> N.testbit bm k = false) /\
  (find_set n bm i < i + N.of_nat n -> N.testbit bm (find_set n bm i) = true).
Proof.
  induction n as [|n IH]; intros bm i; cbn [find_set].
  - repeat split; try lia.
  - rewrite Nat2N.inj_succ. destruct (N.testbit bm i) eqn:B.
    + repeat split; try lia. intros _. exact B.
    + destruct (IH bm (i + 1)) as (H1 & H2 & H3 & H4). repeat split; try lia.
      * intros k K1 K2. destruct (N.eq_dec k i) as [->|Hne]; [exact B|]. apply H3; lia.
      * intros K. apply H4. lia.
Qed.

Lemma ones_run_spec n : forall bm i,
  ones_run n bm i <= N.of_nat n /\
  (forall k, i <= k -> k < i + ones_run n bm i -> N.testbit bm k = true) /\
  (ones_run n bm i < N.of_nat n -> N.testbit bm (i + ones_run n bm i) = false).
Proof.
  induction n as [|n IH]; intros bm i; cbn [ones_run].
  - repeat split; try lia.
  - rewrite Nat2N.inj_succ. destruct (N.testbit bm i) eqn:B.
    + destruct (IH bm (i + 1)) as (H1 & H2 & H3). repeat split; try lia.
      * intros k K1 K2. destruct (N.eq_dec k i) as [->|Hne]; [exact B|]. apply H2; lia.
      * intros K. replace (i + (1 + ones_run n bm (i + 1))) with (i + 1 + ones_run n bm (i + 1)) by lia. apply H3. lia.
    + repeat split; try lia. intros _. rewrite N.add_0_r. exact B.
Qed.

(* the bit-level model returns the first maximal run at or after idx (for every idx, also beyond the mask) *)
Lemma next_run_bits_spec cm idx :
  next_run_spec cm idx (fst (commit_mask_next_run cm idx)) (snd (commit_mask_next_run cm idx)).
Proof.
  unfold commit_mask_next_run. destruct (MASK_BITS <=? idx) eqn:E.
  - apply N.leb_le in E. left. cbn [fst snd]. repeat split. intros k H1 H2. lia.
  - apply N.leb_gt in E.
    pose proof (find_set_spec (N.to_nat (MASK_BITS - idx)) cm idx) as (F1 & F2 & F3 & F4).
    rewrite N2Nat.id in F2, F4.
    set (s := find_set (N.to_nat (MASK_BITS - idx)) cm idx) in *.
    destruct (MASK_BITS <=? s) eqn:E2.
    + apply N.leb_le in E2. left. cbn [fst snd]. repeat split. intros k H1 H2. apply F3; lia.
    + apply N.leb_gt in E2. right. cbn [fst snd].
      pose proof (ones_run_spec (N.to_nat (MASK_BITS - s)) cm s) as (O1 & O2 & O3).
      rewrite N2Nat.id in O1, O3.
      set (c := ones_run (N.to_nat (MASK_BITS - s)) cm s) in *.
      assert (Bs : N.testbit cm s = true) by (apply F4; lia).
      assert (Hc : 0 < c).
      { destruct (N.eq_dec c 0) as [Hz|Hz]; [|lia]. assert (Hlt : c < MASK_BITS - s) by lia. apply O3 in Hlt.
        rewrite Hz, N.add_0_r in Hlt. congruence. }
      repeat split; try lia; try assumption.
      destruct (N.eq_dec (s + c) MASK_BITS) as [Hz|Hz]; [left; exact Hz|right; apply O3; lia].
Qed.

(* the specification determines the result *)
Lemma next_run_spec_unique cm idx s c s' c' :
  next_run_spec cm idx s c -> next_run_spec cm idx s' c' -> s = s' /\ c = c'.
Proof.
  intros [(A1 & A2 & A3)|(A1 & A2 & A3 & A4 & A5 & A6)] [(B1 & B2 & B3)|(B1 & B2 & B3 & B4 & B5 & B6)].
  - subst. split; reflexivity.
  - exfalso. assert (T : N.testbit cm s' = true) by (apply B5; lia). rewrite A3 in T by lia. discriminate.
  - exfalso. assert (T : N.testbit cm s = true) by (apply A5; lia). rewrite B3 in T by lia. discriminate.
  - assert (Es : s = s').
    { destruct (N.lt_trichotomy s s') as [L|[L|L]]; [|exact L|].
      - exfalso. assert (T : N.testbit cm s = true) by (apply A5; lia). rewrite B4 in T by lia. discriminate.
      - exfalso. assert (T : N.testbit cm s' = true) by (apply B5; lia). rewrite A4 in T by lia. discriminate. }
    subst s'. split; [reflexivity|].
    destruct (N.lt_trichotomy c c') as [L|[L|L]]; [|exact L|]; exfalso.
    + assert (T : N.testbit cm (s + c) = true) by (apply B5; lia). destruct A6 as [A6|A6]; [lia|]. congruence.
    + assert (T : N.testbit cm (s + c') = true) by (apply A5; lia). destruct B6 as [B6|B6]; [lia|]. congruence.
Qed.

(* ------------------------------------------------------------------------------------- *)
(* 2. mi_commit_mask_foreach = mask_runs; the runs are maximal                             *)
(* ------------------------------------------------------------------------------------- *)
Lemma runs_aux_skip z : forall n bm i, (forall k, i <= k -> k < i + N.of_nat z -> N.testbit bm k = false) ->
  runs_aux (z + n) bm i 0 0 = runs_aux n bm (i + N.of_nat z) 0 0.
Proof.
  induction z as [|z IH]; intros n bm i H.
  - cbn [Nat.add N.of_nat]. rewrite N.add_0_r. reflexivity.
  - cbn [Nat.add runs_aux]. rewrite (H i) by (rewrite ?Nat2N.inj_succ; lia).
    change (0 <? 0) with false. cbn [app].
    rewrite IH.
    + f_equal. rewrite Nat2N.inj_succ. lia.
    + intros k K1 K2. apply H; [lia|]. rewrite Nat2N.inj_succ. lia.
Qed.

Lemma runs_aux_ones c : forall n bm i start len, (forall k, i <= k -> k < i + N.of_nat (S c) -> N.testbit bm k = true) ->
  runs_aux (S c + n) bm i start len =
  runs_aux n bm (i + N.of_nat (S c)) (if len =? 0 then i else start) (len + N.of_nat (S c)).
Proof.
  induction c as [|c IH]; intros n bm i start len H.
  - cbn [Nat.add runs_aux]. rewrite (H i) by (cbn; lia). reflexivity.
  - change (S (S c) + n)%nat with (S (S c + n)). cbn [runs_aux]. rewrite (H i) by (rewrite ?Nat2N.inj_succ; lia).
    rewrite IH.
    + assert (E : (len + 1 =? 0) = false) by (apply N.eqb_neq; lia). rewrite E.
      f_equal; rewrite !Nat2N.inj_succ; lia.
    + intros k K1 K2. apply H; [lia|]. rewrite !Nat2N.inj_succ in *. lia.
Qed.

(* one step of the iteration against the structural scan *)
Lemma runs_step cm idx s c : idx <= MASK_BITS -> next_run_spec cm idx s c ->
  runs_aux (N.to_nat (MASK_BITS - idx)) cm idx 0 0 =
  if 0 <? c then (s, c) :: runs_aux (N.to_nat (MASK_BITS - (s + c))) cm (s + c) 0 0 else [].
Proof.
  intros Hi [(A1 & A2 & A3)|(A1 & A2 & A3 & A4 & A5 & A6)].
  - subst c. change (0 <? 0) with false.
    replace (N.to_nat (MASK_BITS - idx)) with (N.to_nat (MASK_BITS - idx) + 0)%nat by lia.
    rewrite runs_aux_skip; [reflexivity|]. intros k K1 K2. rewrite N2Nat.id in K2. apply A3; lia.
  - assert (E : (0 <? c) = true) by (apply N.ltb_lt; exact A1). rewrite E.
    set (m := N.to_nat (MASK_BITS - (s + c))).
    replace (N.to_nat (MASK_BITS - idx)) with (N.to_nat (s - idx) + (S (N.to_nat (c - 1)) + m))%nat by (unfold m; lia).
    rewrite runs_aux_skip by (intros k K1 K2; rewrite N2Nat.id in K2; apply A4; lia).
    rewrite N2Nat.id. replace (idx + (s - idx)) with s by lia.
    rewrite runs_aux_ones by (intros k K1 K2; rewrite Nat2N.inj_succ, N2Nat.id in K2; apply A5; lia).
    change (0 =? 0) with true. cbv iota. rewrite Nat2N.inj_succ, N2Nat.id.
    replace (0 + N.succ (c - 1)) with c by lia. replace (s + N.succ (c - 1)) with (s + c) by lia.
    destruct m as [|m'] eqn:Em.
    + cbn [runs_aux]. rewrite E. change (0 <? 0) with false. reflexivity.
    + assert (Hlt : s + c <> MASK_BITS) by (unfold m in Em; lia).
      destruct A6 as [A6|A6]; [contradiction|].
      cbn [runs_aux]. rewrite A6, E. change (0 <? 0) with false. reflexivity.
Qed.

Lemma foreach_from_ext (next next' : N -> N * N) : (forall i, next i = next' i) ->
  forall fuel idx, foreach_from next fuel idx = foreach_from next' fuel idx.
Proof.
  intros H. induction fuel as [|f IH]; intros idx; cbn [foreach_from]; [reflexivity|].
  rewrite H. destruct (next' idx) as [i' c]. destruct (0 <? c); [|reflexivity]. rewrite IH. reflexivity.
Qed.

Lemma foreach_from_runs cm : forall fuel idx, idx <= MASK_BITS -> (N.to_nat (MASK_BITS - idx) < fuel)%nat ->
  foreach_from (commit_mask_next_run cm) fuel idx = Some (runs_aux (N.to_nat (MASK_BITS - idx)) cm idx 0 0).
Proof.
  induction fuel as [|f IH]; intros idx Hi Hf; [lia|].
  cbn [foreach_from].
  pose proof (next_run_bits_spec cm idx) as Sp.
  destruct (commit_mask_next_run cm idx) as [s c]. cbn [fst snd] in Sp.
  rewrite (runs_step cm idx s c Hi Sp).
  destruct (0 <? c) eqn:E; [|reflexivity].
  apply N.ltb_lt in E. destruct Sp as [(A1 & _)|(A1 & A2 & A3 & _)]; [lia|].
  rewrite IH by lia. reflexivity.
Qed.

(* mi_commit_mask_foreach visits exactly mask_runs, in that order; the fuel is never exhausted *)
Theorem foreach_runs_eq cm : foreach_runs cm = Some (mask_runs cm).
Proof.
  unfold foreach_runs, FOREACH_FUEL, mask_runs, runs_in.
  pose proof (foreach_from_runs cm (S MASK_BITS_nat) 0) as H.
  rewrite N.sub_0_r in H.
  change (N.to_nat MASK_BITS) with MASK_BITS_nat in H.
  apply H; [lia|]. lia.
Qed.

Lemma runs_from_maximal cm : forall fuel idx, idx <= MASK_BITS -> (N.to_nat (MASK_BITS - idx) < fuel)%nat ->
  (idx = 0 \/ N.testbit cm (idx - 1) = false \/ N.testbit cm idx = false) ->
  forall r, In r (runs_aux (N.to_nat (MASK_BITS - idx)) cm idx 0 0) ->
  (fst r = 0 \/ N.testbit cm (fst r - 1) = false) /\ (fst r + snd r = MASK_BITS \/ N.testbit cm (fst r + snd r) = false).
Proof.
  induction fuel as [|f IH]; intros idx Hi Hf P r I; [lia|].
  pose proof (next_run_bits_spec cm idx) as Sp.
  destruct (commit_mask_next_run cm idx) as [s c]. cbn [fst snd] in Sp.
  rewrite (runs_step cm idx s c Hi Sp) in I.
  destruct (0 <? c) eqn:E; [|destruct I].
  destruct Sp as [(A1 & _)|(A1 & A2 & A3 & A4 & A5 & A6)]; [apply N.ltb_lt in E; lia|].
  destruct I as [<-|I].
  - cbn [fst snd]. split; [|exact A6].
    destruct (N.eq_dec s idx) as [->|Hne].
    + destruct P as [P|[P|P]]; [left; exact P|right; exact P|].
      assert (T : N.testbit cm idx = true) by (apply A5; lia). congruence.
    + right. apply A4; lia.
  - destruct A6 as [A6|A6].
    + rewrite A6, N.sub_diag in I. cbn in I. destruct I.
    + apply (IH (s + c)); try lia. right. right. exact A6. exact I.
Qed.

(* every run of mask_runs is maximal: bounded by a clear bit or by the ends of the mask *)
Theorem mask_runs_maximal cm r : In r (mask_runs cm) ->
  (fst r = 0 \/ N.testbit cm (fst r - 1) = false) /\ (fst r + snd r = MASK_BITS \/ N.testbit cm (fst r + snd r) = false).
Proof.
  unfold mask_runs, runs_in. intros I.
  pose proof (runs_from_maximal cm (S MASK_BITS_nat) 0) as H.
  rewrite N.sub_0_r in H. change (N.to_nat MASK_BITS) with MASK_BITS_nat in H.
  apply H; try lia. exact I.
Qed.

(* ------------------------------------------------------------------------------------- *)
(* 3. the word-level model of _mi_commit_mask_next_run                                     *)
(* ------------------------------------------------------------------------------------- *)
Lemma FIELD_BITS_val : FIELD_BITS = 64.
Proof. reflexivity. Qed.
Lemma FIELD_BITS_nat_N : N.of_nat FIELD_BITS_nat = 64.
Proof. reflexivity. Qed.
Lemma FIELD_COUNT_nat_val : FIELD_COUNT_nat = 8%nat.
Proof. reflexivity. Qed.

(* 8 words, each a 64-bit value *)
Definition words_ok (ws : list N) : Prop := length ws = FIELD_COUNT_nat /\ Forall (fun w => w < 2 ^ 64) ws.

(* bit k of the number is bit (k mod 64) of word k / 64 *)
Lemma mof_bit : forall ws k, N.testbit (mask_of_fields ws) k = N.testbit (word ws (N.to_nat (k / 64))) (k mod 64).
Proof.
  induction ws as [|f rest IH]; intros k.
  - cbn [mask_of_fields]. unfold word. rewrite N.bits_0. destruct (N.to_nat (k / 64)); cbn [nth]; rewrite N.bits_0; reflexivity.
  - cbn [mask_of_fields]. rewrite FIELD_BITS_val. rewrite N.lor_spec, N.land_spec.
    destruct (N.lt_ge_cases k 64) as [L|G].
    + rewrite N.ones_spec_low by exact L. rewrite N.shiftl_spec_low by exact L. rewrite andb_true_r, orb_false_r.
      assert (E1 : k / 64 = 0) by lia. assert (E2 : k mod 64 = k) by lia. rewrite E1, E2. reflexivity.
    + rewrite N.ones_spec_high by exact G. rewrite N.shiftl_spec_high' by exact G. rewrite andb_false_r, orb_false_l.
      rewrite IH.
      assert (E1 : k / 64 = (k - 64) / 64 + 1) by lia. assert (E2 : (k - 64) mod 64 = k mod 64) by lia.
      rewrite E1, E2, N2Nat.inj_add. change (N.to_nat 1) with 1%nat. rewrite Nat.add_1_r. reflexivity.
Qed.

Lemma word_lt ws : Forall (fun w => w < 2 ^ 64) ws -> forall i, word ws i < 2 ^ 64.
Proof.
  intros H. unfold word. induction H as [|w l Hw Hl IH]; intros i.
  - destruct i; cbn [nth]; reflexivity.
  - destruct i; cbn [nth]; [exact Hw|apply IH].
Qed.

Lemma testbit_high w n o : w < 2 ^ n -> n <= o -> N.testbit w o = false.
Proof.
  intros H L. destruct (N.eq_dec w 0) as [->|Hz]; [apply N.bits_0|].
  apply N.bits_above_log2. apply N.lt_le_trans with (m := n); [|exact L].
  apply N.log2_lt_pow2; lia.
Qed.

Lemma word_high ws i o : Forall (fun w => w < 2 ^ 64) ws -> 64 <= o -> N.testbit (word ws i) o = false.
Proof. intros H L. apply testbit_high with (n := 64); [apply word_lt; exact H|exact L]. Qed.

Lemma shiftr_lt w o n : w < 2 ^ n -> N.shiftr w o < 2 ^ n.
Proof.
  intros H. rewrite N.shiftr_div_pow2. apply N.le_lt_trans with (m := w); [|exact H].
  apply N.div_le_upper_bound; [apply N.pow_nonzero; lia|].
  assert (0 < 2 ^ o) by (apply N.neq_0_lt_0, N.pow_nonzero; lia). nia.
Qed.

Lemma shiftr1_lt mask f : mask < 2 ^ N.of_nat (S f) -> N.shiftr mask 1 < 2 ^ N.of_nat f.
Proof.
  intros H. rewrite Nat2N.inj_succ, N.pow_succ_r' in H. rewrite N.shiftr_div_pow2. change (2 ^ 1) with 2.
  apply N.div_lt_upper_bound; lia.
Qed.

(* while ((mask&1) == 0) { mask >>= 1; ofs++; } on a non-zero mask of at most `fuel` bits *)
Lemma skip_zeros_spec fuel : forall mask ofs, mask <> 0 -> mask < 2 ^ N.of_nat fuel ->
  exists j, snd (skip_zeros fuel mask ofs) = ofs + j /\ fst (skip_zeros fuel mask ofs) = N.shiftr mask j /\
            N.testbit (N.shiftr mask j) 0 = true /\ (forall t, t < j -> N.testbit mask t = false).
Proof.
  induction fuel as [|f IH]; intros mask ofs Hnz Hlt.
  - cbn in Hlt. lia.
  - cbn [skip_zeros]. destruct (N.testbit mask 0) eqn:B.
    + exists 0. cbn [fst snd]. rewrite N.add_0_r, N.shiftr_0_r. repeat split; try assumption. intros t Ht. lia.
    + assert (Hnz1 : N.shiftr mask 1 <> 0).
      { rewrite N.shiftr_div_pow2. change (2 ^ 1) with 2. rewrite N.bit0_odd in B.
        pose proof (N.div_mod mask 2 ltac:(lia)) as D. rewrite <- N.bit0_mod, N.bit0_odd, B in D. cbn [N.b2n] in D. lia. }
      destruct (IH (N.shiftr mask 1) (ofs + 1) Hnz1 (shiftr1_lt mask f Hlt)) as (j & J1 & J2 & J3 & J4).
      exists (1 + j). rewrite J1, J2. rewrite !N.shiftr_shiftr in *. repeat split; try lia; try assumption.
      intros t Ht. destruct (N.eq_dec t 0) as [->|Hne]; [exact B|].
      specialize (J4 (t - 1) ltac:(lia)). rewrite N.shiftr_spec' in J4. replace (t - 1 + 1) with t in J4 by lia. exact J4.
Qed.

(* do { count++; mask >>= 1; } while ((mask&1) == 1); on a mask with bit 0 set and at most `fuel` bits *)
Lemma count_ones_spec fuel : forall mask count, N.testbit mask 0 = true -> mask < 2 ^ N.of_nat fuel ->
  exists j, 0 < j /\ count_ones fuel mask count = (N.shiftr mask j, count + j) /\
            (forall t, t < j -> N.testbit mask t = true) /\ N.testbit mask j = false.
Proof.
  induction fuel as [|f IH]; intros mask count B Hlt.
  - cbn in Hlt. assert (mask = 0) by lia. subst. rewrite N.bits_0 in B. discriminate.
  - cbn [count_ones]. destruct (N.testbit (N.shiftr mask 1) 0) eqn:B1.
    + destruct (IH (N.shiftr mask 1) (count + 1) B1 (shiftr1_lt mask f Hlt)) as (j & J0 & J1 & J2 & J3).
      exists (1 + j). rewrite J1, N.shiftr_shiftr. repeat split; try lia.
      * f_equal. lia.
      * intros t Ht. destruct (N.eq_dec t 0) as [->|Hne]; [exact B|].
        specialize (J2 (t - 1) ltac:(lia)). rewrite N.shiftr_spec' in J2. replace (t - 1 + 1) with t in J2 by lia. exact J2.
      * rewrite N.shiftr_spec' in J3. replace (1 + j) with (j + 1) by lia. exact J3.
    + exists 1. repeat split; try lia.
      * intros t Ht. assert (t = 0) by lia. subst. exact B.
      * rewrite N.shiftr_spec' in B1. exact B1.
Qed.

Lemma bit_at ws i o : o < 64 -> N.testbit (mask_of_fields ws) (64 * N.of_nat i + o) = N.testbit (word ws i) o.
Proof.
  intros Ho. rewrite mof_bit.
  assert (E1 : (64 * N.of_nat i + o) / 64 = N.of_nat i) by lia. assert (E2 : (64 * N.of_nat i + o) mod 64 = o) by lia.
  rewrite E1, E2, Nat2N.id. reflexivity.
Qed.

(* the "find first ones" loop: the first set bit at or after bit ofs of word i, with the word index, the bit offset and
   the shifted word the C code holds at that point *)
Lemma find_first_spec ws : Forall (fun w => w < 2 ^ 64) ws -> forall n i ofs, (i + n = 8)%nat -> ofs < 64 ->
  match find_first n ws i ofs with
  | None => forall k, 64 * N.of_nat i + ofs <= k -> k < 512 -> N.testbit (mask_of_fields ws) k = false
  | Some (i', o', m') =>
      (i' < 8)%nat /\ o' < 64 /\ 64 * N.of_nat i + ofs <= 64 * N.of_nat i' + o' /\
      (forall k, 64 * N.of_nat i + ofs <= k -> k < 64 * N.of_nat i' + o' -> N.testbit (mask_of_fields ws) k = false) /\
      m' = N.shiftr (word ws i') o' /\ N.testbit m' 0 = true
  end.
Proof.
  intros Hok. induction n as [|n IH]; intros i ofs Hn Ho; cbn [find_first].
  - intros k K1 K2. assert (i = 8%nat) by lia. subst i. change (N.of_nat 8) with 8 in K1. lia.
  - set (mask := N.shiftr (word ws i) ofs). destruct (mask =? 0) eqn:E; cbn [negb].
    + apply N.eqb_eq in E.
      assert (Hz : forall k, 64 * N.of_nat i + ofs <= k -> k < 64 * N.of_nat i + 64 -> N.testbit (mask_of_fields ws) k = false).
      { intros k K1 K2. replace k with (64 * N.of_nat i + (k - 64 * N.of_nat i)) by lia. rewrite bit_at by lia.
        assert (T : N.testbit mask (k - 64 * N.of_nat i - ofs) = false) by (rewrite E; apply N.bits_0).
        unfold mask in T. rewrite N.shiftr_spec' in T. replace (k - 64 * N.of_nat i - ofs + ofs) with (k - 64 * N.of_nat i) in T by lia. exact T. }
      specialize (IH (S i) 0 ltac:(lia) ltac:(lia)). rewrite Nat2N.inj_succ in IH.
      destruct (find_first n ws (S i) 0) as [[[i' o'] m']|].
      * destruct IH as (I1 & I2 & I3 & I4 & I5 & I6). repeat split; try lia; try assumption.
        intros k K1 K2. destruct (N.lt_ge_cases k (64 * N.of_nat i + 64)) as [L|G]; [apply Hz; lia|apply I4; lia].
      * intros k K1 K2. destruct (N.lt_ge_cases k (64 * N.of_nat i + 64)) as [L|G]; [apply Hz; lia|apply IH; lia].
    + apply N.eqb_neq in E.
      pose proof (skip_zeros_spec FIELD_BITS_nat mask ofs E) as Sk. rewrite FIELD_BITS_nat_N in Sk.
      specialize (Sk (shiftr_lt _ _ _ (word_lt ws Hok i))). destruct Sk as (j & J1 & J2 & J3 & J4).
      destruct (skip_zeros FIELD_BITS_nat mask ofs) as [m' o']. cbn [fst snd] in J1, J2. subst o' m'.
      unfold mask in *. rewrite N.shiftr_shiftr in *.
      assert (Hj : ofs + j < 64).
      { destruct (N.lt_ge_cases (ofs + j) 64) as [L|G]; [exact L|]. rewrite N.shiftr_spec' in J3.
        rewrite (word_high ws i (0 + (ofs + j)) Hok) in J3 by lia. discriminate. }
      repeat split; try lia; try assumption.
      intros k K1 K2. replace k with (64 * N.of_nat i + (k - 64 * N.of_nat i)) by lia. rewrite bit_at by lia.
      specialize (J4 (k - 64 * N.of_nat i - ofs) ltac:(lia)). rewrite N.shiftr_spec' in J4.
      replace (k - 64 * N.of_nat i - ofs + ofs) with (k - 64 * N.of_nat i) in J4 by lia. exact J4.
Qed.

(* the "count ones" loop, entered at position idx + count = 64 i + o with mask = word i >> o and bit 0 of mask set *)
Lemma count_run_spec ws : Forall (fun w => w < 2 ^ 64) ws -> forall n i idx mask count,
  (i < 8)%nat -> (8 - i <= n)%nat ->
  (idx + count) / 64 = N.of_nat i -> mask = N.shiftr (word ws i) ((idx + count) mod 64) -> N.testbit mask 0 = true ->
  (forall k, idx <= k -> k < idx + count -> N.testbit (mask_of_fields ws) k = true) ->
  count < count_run n ws i idx mask count /\ idx + count_run n ws i idx mask count <= 512 /\
  (forall k, idx <= k -> k < idx + count_run n ws i idx mask count -> N.testbit (mask_of_fields ws) k = true) /\
  (idx + count_run n ws i idx mask count = 512 \/ N.testbit (mask_of_fields ws) (idx + count_run n ws i idx mask count) = false).
Proof.
  intros Hok. induction n as [|n IH]; intros i idx mask count Hi Hn Hq Hm Hb Hrun; [lia|].
  cbn [count_run].
  pose proof (count_ones_spec FIELD_BITS_nat mask count Hb) as Co. rewrite FIELD_BITS_nat_N in Co.
  assert (Hml : mask < 2 ^ 64) by (subst mask; apply shiftr_lt, word_lt; exact Hok).
  destruct (Co Hml) as (j & J0 & J1 & J2 & J3). clear Co. rewrite J1. cbv beta iota.
  set (o := (idx + count) mod 64) in *.
  assert (Ho : o < 64) by (unfold o; lia).
  assert (Hpos : idx + count = 64 * N.of_nat i + o) by (unfold o; lia).
  assert (Hw : forall t, N.testbit mask t = N.testbit (word ws i) (t + o)) by (intros t; subst mask; apply N.shiftr_spec').
  assert (Hoj : o + j <= 64).
  { destruct (N.le_gt_cases (o + j) 64) as [L|G]; [exact L|]. exfalso.
    assert (T : N.testbit mask (64 - o) = true) by (apply J2; lia). rewrite Hw in T.
    rewrite (word_high ws i (64 - o + o) Hok) in T by lia. discriminate. }
  assert (Hrun' : forall k, idx <= k -> k < idx + (count + j) -> N.testbit (mask_of_fields ws) k = true).
  { intros k K1 K2. destruct (N.lt_ge_cases k (idx + count)) as [L|G]; [apply Hrun; assumption|].
    replace k with (64 * N.of_nat i + (o + (k - (idx + count)))) by lia. rewrite bit_at by lia.
    rewrite N.add_comm, <- Hw. apply J2. lia. }
  assert (Hend : o + j < 64 -> N.testbit (mask_of_fields ws) (idx + (count + j)) = false).
  { intros L. replace (idx + (count + j)) with (64 * N.of_nat i + (j + o)) by lia. rewrite bit_at by lia. rewrite <- Hw. exact J3. }
  rewrite FIELD_BITS_val.
  destruct ((idx + (count + j)) mod 64 =? 0) eqn:Eb.
  - apply N.eqb_eq in Eb. assert (Ej : o + j = 64) by lia.
    rewrite FIELD_COUNT_nat_val. destruct (Nat.leb 8 (S i)) eqn:L; [apply Nat.leb_le in L|apply Nat.leb_gt in L].
    + assert (i = 7%nat) by lia. subst i. change (N.of_nat 7) with 7 in *.
      repeat split; try lia; exact Hrun'.
    + destruct (N.testbit (word ws (S i)) 0) eqn:B2.
      * assert (Hq' : (idx + (count + j)) / 64 = N.of_nat (S i)) by (rewrite Nat2N.inj_succ; lia).
        assert (Hm' : word ws (S i) = N.shiftr (word ws (S i)) ((idx + (count + j)) mod 64)) by (rewrite Eb, N.shiftr_0_r; reflexivity).
        destruct (IH (S i) idx (word ws (S i)) (count + j) ltac:(lia) ltac:(lia) Hq' Hm' B2 Hrun') as (R1 & R2 & R3 & R4).
        repeat split; try lia; assumption.
      * repeat split; try lia. exact Hrun'. right.
        replace (idx + (count + j)) with (64 * N.of_nat (S i) + 0) by (rewrite Nat2N.inj_succ; lia).
        rewrite bit_at by lia. exact B2.
  - apply N.eqb_neq in Eb. assert (Ej : o + j < 64) by lia.
    assert (T : N.testbit (N.shiftr mask j) 0 = false) by (rewrite N.shiftr_spec', N.add_0_l; exact J3).
    rewrite T. repeat split; try lia. exact Hrun'. right. apply Hend. exact Ej.
Qed.

(* the word-level model returns the first maximal run at or after idx *)
Lemma next_run_words_spec ws idx : words_ok ws ->
  next_run_spec (mask_of_fields ws) idx (fst (next_run_words ws idx)) (snd (next_run_words ws idx)).
Proof.
  intros [Hlen Hok]. unfold next_run_words. rewrite FIELD_BITS_val, FIELD_COUNT_nat_val.
  assert (MB : MASK_BITS = 512) by reflexivity.
  destruct (N.lt_ge_cases idx 512) as [L|G].
  - assert (Hi : (N.to_nat (idx / 64) < 8)%nat) by lia.
    pose proof (find_first_spec ws Hok (8 - N.to_nat (idx / 64)) (N.to_nat (idx / 64)) (idx mod 64) ltac:(lia) ltac:(lia)) as F.
    rewrite N2Nat.id in F. replace (64 * (idx / 64) + idx mod 64) with idx in F by lia.
    destruct (find_first (8 - N.to_nat (idx / 64)) ws (N.to_nat (idx / 64)) (idx mod 64)) as [[[i' o'] m']|].
    + destruct F as (F1 & F2 & F3 & F4 & F5 & F6). cbn [fst snd].
      set (s := N.of_nat i' * 64 + o'). assert (Es : s = 64 * N.of_nat i' + o') by (unfold s; lia).
      destruct (count_run_spec ws Hok (S 8) i' s m' 0 F1 ltac:(lia)) as (R1 & R2 & R3 & R4).
      * rewrite N.add_0_r. lia.
      * rewrite N.add_0_r. replace (s mod 64) with o' by lia. exact F5.
      * exact F6.
      * intros k K1 K2. lia.
      * right. rewrite MB. repeat split; try lia; try assumption. intros k K1 K2. apply F4; lia.
    + left. cbn [fst snd]. rewrite MB. repeat split. intros k K1 K2. apply F; lia.
  - assert (E : (8 - N.to_nat (idx / 64) = 0)%nat) by lia. rewrite E. cbn [find_first fst snd].
    left. rewrite MB. repeat split. intros k K1 K2. lia.
Qed.

(* the C loops over the words compute the bit-level function, for all 8-word masks and every idx *)
Theorem next_run_words_refines ws idx : words_ok ws ->
  next_run_words ws idx = commit_mask_next_run (mask_of_fields ws) idx.
Proof.
  intros H.
  destruct (next_run_spec_unique _ _ _ _ _ _ (next_run_words_spec ws idx H) (next_run_bits_spec (mask_of_fields ws) idx)) as [E1 E2].
  destruct (next_run_words ws idx), (commit_mask_next_run (mask_of_fields ws) idx). cbn [fst snd] in *. subst. reflexivity.
Qed.

(* ... and so does the foreach built on them *)
Theorem foreach_words_eq ws : words_ok ws -> foreach_words ws = Some (mask_runs (mask_of_fields ws)).
Proof.
  intros H. unfold foreach_words. rewrite <- foreach_runs_eq. unfold foreach_runs.
  apply foreach_from_ext. intros i. apply next_run_words_refines. exact H.
Qed.

(* fields_of_mask produces 8 words below 2^64: every mask number has a word representation *)
Lemma fields_of_mask_aux_ok n : forall m, length (fields_of_mask_aux n m) = n /\ Forall (fun w => w < 2 ^ 64) (fields_of_mask_aux n m).
Proof.
  induction n as [|n IH]; intros m; cbn [fields_of_mask_aux length]; [split; [reflexivity|constructor]|].
  destruct (IH (N.shiftr m FIELD_BITS)) as [I1 I2]. split; [rewrite I1; reflexivity|]. constructor; [|exact I2].
  rewrite FIELD_BITS_val, N.land_ones. apply N.mod_lt. discriminate.
Qed.
Lemma fields_of_mask_ok m : words_ok (fields_of_mask m).
Proof. unfold words_ok, fields_of_mask. apply fields_of_mask_aux_ok. Qed.

(* ------------------------------------------------------------------------------------- *)
(* statements used by Properties/C18.v                                                     *)
(* ------------------------------------------------------------------------------------- *)
Lemma foreach_enumerates cm :
  foreach_runs cm = Some (mask_runs cm) /\
  sorted_from 0 (mask_runs cm) /\
  (forall r k, In r (mask_runs cm) -> in_run r k -> k < MASK_BITS /\ N.testbit cm k = true) /\
  (forall k, k < MASK_BITS -> N.testbit cm k = true -> exists r, In r (mask_runs cm) /\ in_run r k) /\
  (forall r, In r (mask_runs cm) ->
     (fst r = 0 \/ N.testbit cm (fst r - 1) = false) /\ (fst r + snd r = MASK_BITS \/ N.testbit cm (fst r + snd r) = false)).
Proof.
  split; [apply foreach_runs_eq|]. split; [apply mask_runs_sorted|]. split; [apply mask_runs_sound|].
  split; [apply mask_runs_complete|]. apply mask_runs_maximal.
Qed.

Lemma words_refine ws idx : length ws = 8%nat -> Forall (fun w => w < 2 ^ 64) ws ->
  next_run_words ws idx = commit_mask_next_run (mask_of_fields ws) idx /\
  foreach_words ws = Some (mask_runs (mask_of_fields ws)).
Proof.
  intros H1 H2. assert (H : words_ok ws) by (split; [exact H1|exact H2]).
  split; [apply next_run_words_refines; exact H|apply foreach_words_eq; exact H].
Qed.
