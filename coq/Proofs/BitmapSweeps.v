(* vm_compute witnesses and concrete runs for property C14 (kept apart from the proofs). *)
From Coq Require Import NArith List Bool.
From MiV Require Import Gen.Consts Model.Arith Model.Bitmap.
Import ListNotations.
Local Open Scope N_scope.

(* the witness of the multi-block limitation: a default-shaped arena (1 GiB = 32 blocks of 32 MiB:
   one field, bits 32..63 pre-claimed), all 32 blocks free, a request of 3 blocks fails, a request of
   2 blocks succeeds *)
Lemma multiblock_witness :
  arena_fields 32 = 1 /\ arena_init 32 = [18446744069414584320] /\
  zero_run_at (arena_init 32) 0 3 = true /\ zero_bits (arena_init 32) = 32 /\
  try_find_from_claim_across (arena_init 32) (arena_fields 32) 0 3 = (None, arena_init 32) /\
  try_find_from_claim_across (arena_init 32) (arena_fields 32) 0 2 = (Some 0, [18446744069414584323]).
Proof. vm_compute. repeat split. Qed.

(* the same in an arena of 70 blocks (2 fields): after 22 claims of 3 blocks 4 blocks are free and
   contiguous (bits 66..69) but the 23rd claim of 3 fails *)
Lemma multiblock_witness_70 :
  match claim_times 22 (arena_init 70) 2 0 3 with
  | Some bm => zero_run_at bm 66 4 = true /\ try_find_from_claim_across bm 2 0 3 = (None, bm)
  | None => False
  end.
Proof. vm_compute. repeat split. Qed.

(* a concrete interleaving that reaches the rollback: thread 0 claims 130 bits from field 0 (crossing
   fields 0..2), thread 1 claims 3 bits in field 2 after thread 0 has scanned ahead *)
Definition ex_pre : list N := [N.ones 62; 0; 0; 0].
Definition ex_progs : list (list op) := [[OpClaim 0 130]; [OpClaim 2 3]].
Definition ex_sched : list nat := [0;0;0;1;1;1;0;0;0;0]%nat.
Definition ex_state : state := run_schedule (init_state ex_pre ex_progs) ex_sched.

Lemma ex_rollback_state :
  inv_b ex_pre ex_state = true /\
  s_pool ex_state = [(1%nat, (128, 3))] /\
  s_bm ex_state = [FULL; FULL; 7; 0] /\
  match map t_pc (s_thr ex_state) with
  | [ARollStore l 1; Idle] => held (ARollStore l 1) = (62, 128)
  | _ => False
  end.
Proof. vm_compute. repeat split. Qed.

(* running on: the rollback clears everything, the retry finds the free run behind thread 1's claim;
   when both claims are freed the bitmap is the initial one *)
Definition ex_sched2 : list nat := (ex_sched ++ repeat 0 40)%nat%list.
Lemma ex_after_rollback :
  let s := run_schedule (init_state ex_pre ex_progs) ex_sched2 in
  finished s = true /\ inv_b ex_pre s = true /\
  map t_res (s_thr s) = [[GClaimFailed]; [GClaimed 128 3]] /\ s_bm s = [N.ones 62; 0; 7; 0].
Proof. vm_compute. repeat split. Qed.
