(* Composition of the queue traversal of the heap model (Model/Heap.v: mi_heap_visit_pages reaches every page of the
   heap exactly once, visit_all_queues_once) with the walk model (Model/Walk.v): the walk of a heap reports, for every page
   the heap owns, its area record and exactly its live blocks, once. *)
From Coq Require Import NArith List Bool.
From MiV Require Import Gen.Consts Model.Arith Model.Page Model.Walk Model.Heap
  Proofs.Base Proofs.PageProofs Proofs.WalkProofs Proofs.HeapBase Proofs.HeapOps Proofs.HeapDel Proofs.HeapProofs.
Import ListNotations. Local Open Scope N_scope.

(* the heap as the walk sees it: the pages in mi_heap_visit_pages order, each with its contents *)
Definition walk_input (s : Heap.state) (h : hid) (content : pid -> Page.page) : list (N * Page.page) :=
  map (fun p => (p, content p)) (heap_visit_pages s h).

Theorem heap_walk_every_page_once (s : Heap.state) (h : hid) hp (content : pid -> Page.page)
  (S : Type) (visitor : S -> vcall -> S * bool) (st : S) :
  heap_Inv s -> get_heap s h = Some hp -> heap_visit_pages s h <> [] ->
  (forall p, In p (heap_visit_pages s h) -> walkable (content p)) ->
  (forall s0 c, snd (visitor s0 c) = true) ->
  (exists st', heap_visit_blocks S visitor true (walk_input s h content) st = (st', live_calls (walk_input s h content), true)) /\
  NoDup (map fst (walk_input s h content)) /\
  (forall p, In p (map fst (walk_input s h content)) <-> exists pi, get_page s p = Some pi /\ pheap pi = Some h).
Proof.
  intros HI Hh Hne Hw Hacc.
  destruct (visit_all_queues_once s h hp HI Hh) as (Hnd & Hall & _).
  assert (Hfst : map fst (walk_input s h content) = heap_visit_pages s h).
  { unfold walk_input. rewrite map_map. cbn [fst]. apply map_id. }
  split; [|split].
  - apply walk_reports_exactly_live.
    + unfold walk_input. intros E. apply map_eq_nil in E. contradiction.
    + unfold walk_input. apply Forall_forall. intros x Hx. apply in_map_iff in Hx. destruct Hx as (p & <- & Hp). cbn [snd]. apply Hw. exact Hp.
    + exact Hacc.
  - rewrite Hfst. exact Hnd.
  - intros p. rewrite Hfst. apply Hall.
Qed.
