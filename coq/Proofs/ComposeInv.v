(* Composition layer (C01): the invariant mem_inv of the composite memory state, the set of live blocks,
   and the static facts: live blocks are pairwise disjoint, inside their page area, inside their span,
   inside their segment.  The layer theorems are REUSED (PageProofs, SpanProofs, ArithProofs). *)
From Coq Require Import NArith ZArith Lia Bool List.
From Coq Require Import ZifyN ZifyBool.
From MiV Require Import Gen.Consts Gen.Bins Model.Arith Model.Page Model.Span Model.Compose
  Proofs.Base Proofs.PageProofs Proofs.SpanBase Proofs.SpanInv Proofs.SpanProofs Proofs.ComposeBase.
Import ListNotations.
Local Open Scope N_scope.

(* ------------------------------------------------------------------------------------- *)
(* the invariant                                                                           *)
(* ------------------------------------------------------------------------------------- *)

(* ghost flags = complement of the three lists within capacity *)
Definition ghost_ok (cp : cpage) : Prop :=
  NoDup (map fst (cp_ghost cp)) /\
  (forall b, In b (map fst (cp_ghost cp)) <-> is_live (cp_page cp) b) /\
  (forall b r, In (b, r) (cp_ghost cp) -> r <= bsize (cp_page cp)).

(* a page of the segment at `base` whose first slice entry is e: the Page.v invariant, the block size is
   the one in the slice array, the page area is the one the span layer assigns *)
Definition page_ok (base : N) (e : slice) (cp : cpage) : Prop :=
  page_Inv (cp_page cp) /\ bsize (cp_page cp) = bsz e /\
  reserved (cp_page cp) =
    snd (page_start_from_slice base (cp_idx cp) (slice_count e) (bsz e)) / bsize (cp_page cp) /\
  ghost_ok cp.

Definition seg_ok (cs : cseg) : Prop :=
  let base := cs_base cs in let sg := fst (cs_st cs) in
  base mod MI_SEGMENT_SIZE = 0 /\ 0 < base /\ base + MI_SEGMENT_SIZE < 2^63 /\ base + seg_size cs < 2^63 /\
  span_Inv (cs_st cs) /\
  NoDup (map cp_idx (cs_pages cs)) /\
  (forall i, In i (map cp_idx (cs_pages cs)) <-> 0 < i /\ exists c, In (i, c) (used_spans sg)) /\
  (forall cp, In cp (cs_pages cs) -> page_ok base (get (entries sg) (cp_idx cp)) cp) /\
  (kind sg = SegNormal -> forall i c, In (i, c) (used_spans sg) -> c <= MI_MAX_SLICE_OFFSET_COUNT + 1) /\
  (kind sg = SegHuge -> forall cp, In cp (cs_pages cs) -> reserved (cp_page cp) <= 1).

(* segments occupy pairwise disjoint address ranges (the OS layer's contract) *)
Definition apart (m : mem) : Prop :=
  forall a b, In a m -> In b m -> cs_base a <> cs_base b ->
    cs_base a + seg_size a <= cs_base b \/ cs_base b + seg_size b <= cs_base a.

Definition mem_inv (m : mem) : Prop :=
  NoDup (map cs_base m) /\ (forall cs, In cs m -> seg_ok cs) /\ apart m.

(* block b of page cp of segment cs is live with requested size req *)
Definition live_at (m : mem) (cs : cseg) (cp : cpage) (b req : N) : Prop :=
  In cs m /\ In cp (cs_pages cs) /\ In (b, req) (cp_ghost cp).

Lemma In_live_blocks m x : In x (live_blocks m) <->
  exists cs cp b req, live_at m cs cp b req /\ x = (block_addr cs cp b, bsize (cp_page cp), req).
Proof.
  unfold live_blocks, seg_blocks, page_blocks, live_at. rewrite in_flat_map. split.
  - intros (cs & Hcs & H). apply in_flat_map in H as (cp & Hcp & H). apply in_map_iff in H as ([b r] & <- & Hg).
    exists cs, cp, b, r. cbn [fst snd]. auto.
  - intros (cs & cp & b & r & (Hcs & Hcp & Hg) & ->). exists cs. split; [assumption|].
    apply in_flat_map. exists cp. split; [assumption|]. apply in_map_iff. exists (b, r). auto.
Qed.

Lemma mem_inv_nil : mem_inv [].
Proof. split; [constructor|]. split; [intros ? []|intros ? ? []]. Qed.

(* ------------------------------------------------------------------------------------- *)
(* lookups                                                                                 *)
(* ------------------------------------------------------------------------------------- *)

Lemma find_seg_In m base cs : mem_inv m -> (find_seg m base = Some cs <-> In cs m /\ cs_base cs = base).
Proof. intros (Hnd & _). apply kfind_iff. assumption. Qed.

Lemma find_page_In cs idx cp : seg_ok cs -> (find_page cs idx = Some cp <-> In cp (cs_pages cs) /\ cp_idx cp = idx).
Proof. intros (_ & _ & _ & _ & _ & Hnd & _). apply kfind_iff. assumption. Qed.

Lemma seg_ok_In m cs : mem_inv m -> In cs m -> seg_ok cs.
Proof. intros (_ & H & _). apply H. Qed.

Lemma page_ok_In cs cp : seg_ok cs -> In cp (cs_pages cs) ->
  page_ok (cs_base cs) (get (entries (fst (cs_st cs))) (cp_idx cp)) cp.
Proof. intros (_ & _ & _ & _ & _ & _ & _ & H & _). apply H. Qed.

(* a page is a used span *)
Lemma page_span cs cp : seg_ok cs -> In cp (cs_pages cs) ->
  0 < cp_idx cp /\ exists c, In (cp_idx cp, c) (used_spans (fst (cs_st cs))).
Proof. intros (_ & _ & _ & _ & _ & _ & H & _) Hin. apply H. apply in_map. assumption. Qed.

(* the span (i, c) of a valid segment: first entry, extent *)
Lemma used_span_facts cs i c : seg_ok cs -> In (i, c) (used_spans (fst (cs_st cs))) ->
  slice_count (get (entries (fst (cs_st cs))) i) = c /\ 0 < bsz (get (entries (fst (cs_st cs))) i) /\
  0 < c /\ c < 4294967296 /\ i <= MI_SLICES_PER_SEGMENT /\
  (0 < i -> (i + c) * MI_SEGMENT_SLICE_SIZE <= seg_size cs).
Proof.
  intros (_ & _ & _ & _ & Hinv & _) Hin. unfold seg_size.
  destruct (cs_st cs) as [sg qs] eqn:Est. cbn [fst] in *.
  destruct (used_spans_disjoint _ Hinv) as (_ & R). destruct (R i c Hin) as (Hc & Hi & Hinfo & Hk). cbn [fst] in *.
  destruct Hinv as (sps & m & Hinv). apply (In_used_spans _ _ _ _ _ _ Hinv) in Hin as (Hin & Hbz). cbn [fst] in *.
  pose proof Hinv as (Ht & Hm & Hf & Hok & (r & Hr) & Hshape & _ & _ & _ & Hn & _). cbn [fst snd] in *.
  rewrite Forall_forall in Hf, Hok. destruct (Hf _ Hin) as (_ & Hcnt & _). destruct (Hok _ Hin) as (K1 & _).
  cbn [fst snd] in *.
  repeat split; try assumption; try lia.
  intros Hi0. unfold seg_slices. destruct (kind sg) eqn:Ek.
  - specialize (Hk eq_refl). unfold MI_SEGMENT_SLICE_SIZE. nia.
  - unfold huge_shape in Hshape. rewrite Ek in Hshape. destruct Hshape as (c' & Es). rewrite Es in Hin.
    destruct Hin as [E|[E|[]]]; inversion E; subst; lia.
Qed.

(* ------------------------------------------------------------------------------------- *)
(* geometry of one live block                                                              *)
(* ------------------------------------------------------------------------------------- *)

Lemma page_area_eq cs idx : page_area cs idx =
  page_start_from_slice (cs_base cs) idx (slice_count (get (entries (fst (cs_st cs))) idx))
                        (bsz (get (entries (fst (cs_st cs))) idx)).
Proof. reflexivity. Qed.

Lemma ghost_live cp b r : ghost_ok cp -> In (b, r) (cp_ghost cp) -> is_live (cp_page cp) b.
Proof. intros (_ & H & _) Hin. apply H. apply (in_map fst) in Hin. exact Hin. Qed.

(* block b of page cp of segment cs exists (below the page's capacity), live or not *)
Definition block_at (m : mem) (cs : cseg) (cp : cpage) (b : N) : Prop :=
  In cs m /\ In cp (cs_pages cs) /\ b < capacity (cp_page cp).

Lemma live_block_at m cs cp b req : mem_inv m -> live_at m cs cp b req -> block_at m cs cp b.
Proof.
  intros Hm (Hcs & Hcp & Hg). split; [assumption|]. split; [assumption|].
  destruct (page_ok_In _ _ (seg_ok_In _ _ Hm Hcs) Hcp) as (_ & _ & _ & Hgo).
  apply (ghost_live _ _ _ Hgo Hg).
Qed.

(* a block lies inside its page area, the area inside its span, the span inside the segment *)
Theorem block_inside m cs cp b : mem_inv m -> block_at m cs cp b ->
  let idx := cp_idx cp in let bs := bsize (cp_page cp) in
  let start := fst (page_area cs idx) in let psize := snd (page_area cs idx) in
  let p := block_addr cs cp b in
  exists c, In (idx, c) (used_spans (fst (cs_st cs))) /\ 0 < idx /\
    0 < bs /\
    start <= p /\ p + bs <= start + psize /\
    cs_base cs + idx * MI_SEGMENT_SLICE_SIZE <= start /\
    start <= cs_base cs + idx * MI_SEGMENT_SLICE_SIZE + MI_SEGMENT_SLICE_SIZE /\
    start + psize = cs_base cs + (idx + c) * MI_SEGMENT_SLICE_SIZE /\
    (idx + c) * MI_SEGMENT_SLICE_SIZE <= seg_size cs /\
    cs_base cs + seg_size cs < 2^63.
Proof.
  intros Hm (Hcs & Hcp & Hcap). cbv zeta.
  pose proof (seg_ok_In _ _ Hm Hcs) as Hs.
  destruct (page_span _ _ Hs Hcp) as (Hi0 & c & Hsp).
  destruct (used_span_facts _ _ _ Hs Hsp) as (Hcnt & Hbz & Hc & Hc32 & Hi512 & Hext).
  destruct (page_ok_In _ _ Hs Hcp) as (Hpi & Hbs & Hres & Hgo).
  pose proof Hs as (Hal & Hb0 & Hb63 & Hbsz & _).
  exists c. split; [assumption|]. split; [assumption|].
  rewrite page_area_eq. rewrite Hcnt in *.
  destruct (page_area_in_span (cs_base cs) (cp_idx cp) c (bsz (get (entries (fst (cs_st cs))) (cp_idx cp))) Hal Hb63 Hc Hc32 Hi512)
    as (A1 & A2 & A3). cbv zeta in A1, A2, A3.
  set (ps := page_start_from_slice (cs_base cs) (cp_idx cp) c (bsz (get (entries (fst (cs_st cs))) (cp_idx cp)))) in *.
  destruct (block_inside_area (cp_page cp) (fst ps) (snd ps) b Hpi Hres Hcap) as (B1 & B2).
  unfold block_addr. rewrite page_area_eq, Hcnt. fold ps.
  split; [rewrite Hbs; assumption|].
  split; [assumption|]. split; [assumption|]. split; [assumption|]. split; [assumption|].
  split; [assumption|]. split; [apply Hext; assumption|assumption].
Qed.

Theorem live_inside m cs cp b req : mem_inv m -> live_at m cs cp b req ->
  let idx := cp_idx cp in let bs := bsize (cp_page cp) in
  let start := fst (page_area cs idx) in let psize := snd (page_area cs idx) in
  let p := block_addr cs cp b in
  exists c, In (idx, c) (used_spans (fst (cs_st cs))) /\ 0 < idx /\
    0 < bs /\ req <= bs /\ b < capacity (cp_page cp) /\
    start <= p /\ p + bs <= start + psize /\
    cs_base cs + idx * MI_SEGMENT_SLICE_SIZE <= start /\
    start <= cs_base cs + idx * MI_SEGMENT_SLICE_SIZE + MI_SEGMENT_SLICE_SIZE /\
    start + psize = cs_base cs + (idx + c) * MI_SEGMENT_SLICE_SIZE /\
    (idx + c) * MI_SEGMENT_SLICE_SIZE <= seg_size cs /\
    cs_base cs + seg_size cs < 2^63.
Proof.
  intros Hm L. pose proof (live_block_at _ _ _ _ _ Hm L) as B. cbv zeta.
  destruct (block_inside _ _ _ _ Hm B) as (c & H1 & H2 & H3 & H4). exists c.
  destruct L as (Hcs & Hcp & Hg). destruct (page_ok_In _ _ (seg_ok_In _ _ Hm Hcs) Hcp) as (_ & _ & _ & (_ & _ & Hreq)).
  split; [assumption|]. split; [assumption|]. split; [assumption|]. split; [apply (Hreq _ _ Hg)|].
  split; [apply B|]. exact H4.
Qed.

(* ------------------------------------------------------------------------------------- *)
(* C01_compose_live_disjoint                                                               *)
(* ------------------------------------------------------------------------------------- *)

Theorem blocks_disjoint m cs1 cp1 b1 cs2 cp2 b2 :
  mem_inv m -> block_at m cs1 cp1 b1 -> block_at m cs2 cp2 b2 ->
  (cs_base cs1, cp_idx cp1, b1) <> (cs_base cs2, cp_idx cp2, b2) ->
  block_addr cs1 cp1 b1 + bsize (cp_page cp1) <= block_addr cs2 cp2 b2 \/
  block_addr cs2 cp2 b2 + bsize (cp_page cp2) <= block_addr cs1 cp1 b1.
Proof.
  intros Hm L1 L2 Hne.
  destruct (block_inside _ _ _ _ Hm L1) as (c1 & Hsp1 & Hi1 & Hbs1 & A1 & A2 & _ & _ & _ & E1 & _).
  destruct (block_inside _ _ _ _ Hm L2) as (c2 & Hsp2 & Hi2 & Hbs2 & B1 & B2 & _ & _ & _ & E2 & _).
  destruct L1 as (Hcs1 & Hcp1 & Hg1). destruct L2 as (Hcs2 & Hcp2 & Hg2).
  pose proof (seg_ok_In _ _ Hm Hcs1) as Hs1. pose proof (seg_ok_In _ _ Hm Hcs2) as Hs2.
  destruct (page_ok_In _ _ Hs1 Hcp1) as (_ & Hbz1 & _). destruct (page_ok_In _ _ Hs2 Hcp2) as (_ & Hbz2 & _).
  pose proof Hs1 as (Hal1 & _ & Hw1 & _ & Hinv1 & _). pose proof Hs2 as (Hal2 & _ & Hw2 & _ & Hinv2 & _).
  destruct Hm as (Hnd & _ & Hap).
  assert (X := blocks_disjoint_across_pages (cs_base cs1) (cs_st cs1) (cp_idx cp1) c1 b1
                 (cs_base cs2) (cs_st cs2) (cp_idx cp2) c2 b2 (seg_size cs1) (seg_size cs2)
                 Hinv1 Hinv2 Hal1 Hw1 Hal2 Hw2 Hsp1 Hsp2).
  unfold block_in_page, block_hi, block_lo in X. unfold block_addr, page_area in *.
  rewrite <- Hbz1, <- Hbz2 in X.
  apply X; clear X; try assumption.
  - split; lia.
  - split; lia.
  - intros Eb. rewrite (key_inj cs_base m cs1 cs2 Hnd Hcs1 Hcs2 Eb). reflexivity.
  - intros Eb. apply Hap; assumption.
Qed.

Theorem live_disjoint m cs1 cp1 b1 r1 cs2 cp2 b2 r2 :
  mem_inv m -> live_at m cs1 cp1 b1 r1 -> live_at m cs2 cp2 b2 r2 ->
  (cs_base cs1, cp_idx cp1, b1) <> (cs_base cs2, cp_idx cp2, b2) ->
  block_addr cs1 cp1 b1 + bsize (cp_page cp1) <= block_addr cs2 cp2 b2 \/
  block_addr cs2 cp2 b2 + bsize (cp_page cp2) <= block_addr cs1 cp1 b1.
Proof.
  intros Hm L1 L2. apply (blocks_disjoint m); [assumption|eapply live_block_at; eassumption|eapply live_block_at; eassumption].
Qed.

(* two blocks with the same address are the same block *)
Lemma block_same_addr m cs1 cp1 b1 cs2 cp2 b2 :
  mem_inv m -> block_at m cs1 cp1 b1 -> block_at m cs2 cp2 b2 ->
  block_addr cs1 cp1 b1 = block_addr cs2 cp2 b2 -> cs1 = cs2 /\ cp1 = cp2 /\ b1 = b2.
Proof.
  intros Hm L1 L2 E.
  destruct (block_inside _ _ _ _ Hm L1) as (_ & _ & _ & Hbs1 & _).
  destruct (block_inside _ _ _ _ Hm L2) as (_ & _ & _ & Hbs2 & _).
  assert (T : (cs_base cs1, cp_idx cp1, b1) = (cs_base cs2, cp_idx cp2, b2)).
  { destruct (N.eq_dec (cs_base cs1) (cs_base cs2)) as [Ea|Ea];
    [destruct (N.eq_dec (cp_idx cp1) (cp_idx cp2)) as [Eb|Eb]; [destruct (N.eq_dec b1 b2) as [Ec|Ec]; [congruence|]|]|];
    (exfalso; assert (Hne : (cs_base cs1, cp_idx cp1, b1) <> (cs_base cs2, cp_idx cp2, b2)) by congruence;
     destruct (blocks_disjoint _ _ _ _ _ _ _ Hm L1 L2 Hne); lia). }
  inversion T as [[Ea Eb Ec]].
  destruct L1 as (Hcs1 & Hcp1 & Hg1). destruct L2 as (Hcs2 & Hcp2 & Hg2).
  pose proof Hm as (Hnd & _). pose proof (key_inj cs_base m cs1 cs2 Hnd Hcs1 Hcs2 Ea) as ->.
  pose proof (seg_ok_In _ _ Hm Hcs1) as Hs. pose proof Hs as (_ & _ & _ & _ & _ & Hndp & _).
  pose proof (key_inj cp_idx _ cp1 cp2 Hndp Hcp1 Hcp2 Eb) as ->. auto.
Qed.

Lemma live_same_addr m cs1 cp1 b1 r1 cs2 cp2 b2 r2 :
  mem_inv m -> live_at m cs1 cp1 b1 r1 -> live_at m cs2 cp2 b2 r2 ->
  block_addr cs1 cp1 b1 = block_addr cs2 cp2 b2 -> cs1 = cs2 /\ cp1 = cp2 /\ b1 = b2 /\ r1 = r2.
Proof.
  intros Hm L1 L2 E.
  destruct (block_same_addr m cs1 cp1 b1 cs2 cp2 b2 Hm (live_block_at _ _ _ _ _ Hm L1) (live_block_at _ _ _ _ _ Hm L2) E)
    as (-> & -> & ->).
  destruct L1 as (Hcs1 & Hcp1 & Hg1). destruct L2 as (Hcs2 & Hcp2 & Hg2).
  destruct (page_ok_In _ _ (seg_ok_In _ _ Hm Hcs1) Hcp1) as (_ & _ & _ & (Hndg & _)).
  repeat split; try reflexivity.
  pose proof (key_inj fst _ (b2, r1) (b2, r2) Hndg Hg1 Hg2 eq_refl) as Er. inversion Er. reflexivity.
Qed.
