(* The boolean checker of the cross-thread free model is complete: a configuration that satisfies the invariant
   (Inv, InvT) passes inv_b.  (Soundness: Proofs/TFreeCheck.v.)  Together: inv_b c = true <-> Inv c /\ InvT c. *)
From Coq Require Import NArith List Bool Lia Arith.
From MiV Require Import Model.TFree Proofs.TFreeBase Proofs.TFreeInv Proofs.TFreeGen Proofs.TFreeTop Proofs.TFreeStep
  Proofs.TFreeStep5 Proofs.TFreeProofs Proofs.TFreeCheck.
Import ListNotations.
Local Open Scope N_scope.

Lemma cnt_nodup_b l : (forall b, (cnt (bid_eqb b) l <= 1)%nat) -> nodup_b l = true.
Proof.
  induction l as [|x r IH]; [reflexivity|]. intros H. cbn [nodup_b]. apply andb_true_intro. split.
  - apply negb_true_iff. destruct (mem_bid x r) eqn:E; [|reflexivity]. exfalso.
    apply mem_bid_In in E. apply cnt_In in E. specialize (H x). rewrite cnt_cons, bid_eqb_refl in H. lia.
  - apply IH. intros b. specialize (H b). rewrite cnt_cons in H. lia.
Qed.

Lemma forallb_intro {A} (f : A -> bool) l : (forall x, In x l -> f x = true) -> forallb f l = true.
Proof. intros H. apply forallb_forall. exact H. Qed.

Lemma page_eqb0_pg0 : page_eqb0 pg0 = true.
Proof. reflexivity. Qed.

Section Complete.
  Variable c : cfg.
  Hypothesis HI : Inv c.
  Hypothesis HT : InvT c.

  Let Hwf : wf c := i_wf c HI.
  Let HA : InvA c := i_A c HI.
  Let HB : InvB c := i_B c HI.
  Let HS : InvS c := i_S c HI.

  Lemma th_get t th : In (t, th) (c_th c) -> gett c t = th.
  Proof. intros H. destruct (wf_parts c Hwf) as (N1 & _). exact (fget_In th0 _ t th N1 H). Qed.
  Lemma pg_get p pg : In (p, pg) (c_pg c) -> getp c p = pg.
  Proof. intros H. destruct (wf_parts c Hwf) as (_ & N2 & _). exact (fget_In pg0 _ p pg N2 H). Qed.
  Lemma hp_get h hp : In (h, hp) (c_hp c) -> geth c h = hp.
  Proof. intros H. destruct (wf_parts c Hwf) as (_ & _ & N3). exact (fget_In hp0 _ h hp N3 H). Qed.

  Lemma complete_uniq : uniq_b c = true.
  Proof. unfold uniq_b. apply cnt_nodup_b. intros b. rewrite cnt_all_blocks. apply (a_uniq c HA). Qed.

  Lemma complete_range : range_b c = true.
  Proof.
    unfold range_b. apply forallb_intro. intros b Hb. apply cnt_In in Hb. rewrite cnt_all_blocks in Hb.
    destruct (a_range c HA b Hb) as [H1 H2]. rewrite H1. apply N.ltb_lt in H2. rewrite H2. reflexivity.
  Qed.

  Lemma complete_count : count_b c = true.
  Proof.
    unfold count_b. apply forallb_intro. intros p _. cbn beta zeta. destruct (a_count c HA p) as (H1 & H2 & H3 & H4).
    rewrite !andb_true_iff. repeat split; [apply N.eqb_eq; exact H1|apply N.eqb_eq; exact H2|apply N.leb_le; exact H3|apply N.ltb_lt; exact H4].
  Qed.

  Lemma complete_local : local_b c = true.
  Proof.
    unfold local_b. apply andb_true_intro. split.
    - apply forallb_intro. intros [p pg] Hin. cbn [fst snd]. rewrite <- (pg_get p pg Hin). apply (a_local c HA).
    - apply forallb_intro. intros [t th] Hin. cbn [fst snd]. apply forallb_intro. intros fr Hfr.
      destruct fr; try reflexivity.
      pose proof (s_frames c HS t) as H. rewrite (th_get t th Hin) in H.
      pose proof (forallb_In _ _ H _ Hfr) as H1. cbn [fr_ok] in H1. apply andb_prop in H1 as [_ H1]. exact H1.
  Qed.

  Lemma complete_win : win_b c = true.
  Proof. unfold win_b. apply forallb_intro. intros p _. apply Nat.eqb_eq. apply (b_win c HB). Qed.

  Lemma complete_nd : nd_b c = true.
  Proof.
    unfold nd_b. apply forallb_intro. intros p _.
    destruct (Nat.leb 1 (mD c (onp p))) eqn:E; [apply orb_true_r|]. rewrite orb_false_r. apply negb_true_iff.
    apply Nat.leb_gt in E. apply orb_false_iff. split.
    - apply flag_eqb_neq. intros F. pose proof (b_nd c HB p (or_introl F)). lia.
    - apply Nat.leb_gt. destruct (le_lt_dec 1 (mPw c p)) as [L|L]; [|exact L]. pose proof (b_nd c HB p (or_intror L)). lia.
  Qed.

  Lemma complete_tfl : tfl_b c = true.
  Proof.
    unfold tfl_b. apply forallb_intro. intros p _.
    destruct (Nat.leb 1 (mD c (onp p) + mPh c p)) eqn:E; [apply orb_true_r|]. rewrite orb_false_r. apply negb_true_iff.
    apply Nat.leb_gt in E. apply andb_false_iff.
    destruct (isnil (pg_tf (getp c p))) eqn:E1; [left; reflexivity|]. right.
    apply flag_eqb_neq. intros F. apply isnil_false in E1. pose proof (HT p E1 F). lia.
  Qed.

  Lemma complete_dead : dead_b c = true.
  Proof.
    unfold dead_b. apply forallb_intro. intros [p pg] Hin. cbn [snd]. destruct (pg_alive pg) eqn:E; [reflexivity|]. cbn.
    pose proof (pg_get p pg Hin) as G. pose proof (s_dead c HS p) as H. rewrite G in H. rewrite (H E). reflexivity.
  Qed.

  Lemma complete_pheap : pheap_b c = true.
  Proof.
    unfold pheap_b. apply forallb_intro. intros [p pg] Hin. cbn [snd]. destruct (pg_alive pg) eqn:E; [|reflexivity]. cbn.
    pose proof (pg_get p pg Hin) as G. pose proof (s_pheap c HS p) as H. rewrite G in H. destruct (H E) as (h & H1 & H2).
    rewrite H1. exact H2.
  Qed.

  Lemma complete_heaps : heaps_b c = true.
  Proof.
    unfold heaps_b. apply andb_true_intro. split.
    - apply forallb_intro. intros [t th] Hin. cbn [fst snd]. destruct (th_backing th) as [bk|] eqn:E; [|reflexivity].
      pose proof (th_get t th Hin) as G. pose proof (s_back c HS t bk) as H. rewrite G in H. destruct (H E) as [H1 H2].
      rewrite H1, H2. reflexivity.
    - apply forallb_intro. intros [h hp] Hin. cbn [fst snd]. cbn zeta. pose proof (hp_get h hp Hin) as G.
      apply andb_true_intro. split.
      + destruct (hp_alive hp && hp_backing hp) eqn:E; [|reflexivity]. cbn. apply andb_prop in E as [E1 E2].
        pose proof (s_back2 c HS h) as H. rewrite G in H. rewrite (H E1 E2). apply oN_eqb_refl.
      + destruct (hp_alive hp) eqn:E; [reflexivity|]. cbn. pose proof (s_hdead c HS h) as H. rewrite G in H. rewrite (H E). reflexivity.
  Qed.

  Lemma complete_del : del_b c = true.
  Proof.
    unfold del_b. apply forallb_intro. intros [h hp] Hin. cbn [fst snd]. pose proof (s_del c HS h) as H.
    rewrite (hp_get h hp Hin) in H. exact H.
  Qed.

  Lemma complete_frames : frames_b c = true.
  Proof.
    unfold frames_b. apply forallb_intro. intros [t th] Hin. cbn [fst snd]. pose proof (th_get t th Hin) as G.
    pose proof (s_shape c HS t) as H1. pose proof (s_frames c HS t) as H2. rewrite G in H1, H2. rewrite H1, H2. reflexivity.
  Qed.

  Lemma hd_fr_ok_complete th f : hd_fr_okP c th f -> hd_fr_ok c th f = true.
  Proof.
    destruct f; cbn [hd_fr_ok hd_fr_okP]; auto.
    - intros H. apply forallb_intro. intros [p pg] Hin. cbn [fst snd]. pose proof (pg_get p pg Hin) as G.
      destruct (pg_alive pg) eqn:E1; [|reflexivity]. destruct (oN_eqb (pg_heap pg) (Some h)) eqn:E2; [|reflexivity]. cbn.
      apply oN_eqb_eq in E2. specialize (H p). rewrite G in H. specialize (H E1 E2).
      unfold memN. apply existsb_exists. exists p. split; [exact H|apply N.eqb_refl].
    - intros [H1 H2]. apply andb_true_intro. split.
      + apply forallb_intro. intros [p pg] Hin. cbn [fst snd]. pose proof (pg_get p pg Hin) as G.
        destruct (pg_alive pg) eqn:E1; [|reflexivity]. destruct (oN_eqb (pg_heap pg) (Some h)) eqn:E2; [|reflexivity]. exfalso.
        apply oN_eqb_eq in E2. specialize (H1 p). rewrite G in H1. exact (H1 E1 E2).
      + destruct (hd4_quiet (th_stk th) (th_ret th)) eqn:E; [|reflexivity]. cbn. rewrite (H2 eq_refl). reflexivity.
  Qed.

  Lemma complete_hd : hd_b c = true.
  Proof.
    unfold hd_b. apply forallb_intro. intros [t th] Hin. cbn [snd]. unfold hd_ok. apply forallb_intro. intros f Hf.
    apply hd_fr_ok_complete. pose proof (s_hd c HS t) as H. rewrite (th_get t th Hin) in H. exact (H f Hf).
  Qed.

  Theorem inv_b_complete_c : inv_b c = true.
  Proof.
    unfold inv_b. rewrite !andb_true_iff. repeat split.
    - exact Hwf.
    - exact complete_uniq.
    - exact complete_range.
    - exact complete_count.
    - exact complete_local.
    - exact complete_win.
    - exact complete_nd.
    - exact complete_tfl.
    - exact complete_dead.
    - exact complete_pheap.
    - exact complete_heaps.
    - exact complete_del.
    - exact complete_frames.
    - exact complete_hd.
  Qed.
End Complete.

Theorem inv_b_complete : forall c, Inv c -> InvT c -> inv_b c = true.
Proof. intros c H1 H2. apply inv_b_complete_c; assumption. Qed.

Theorem inv_b_iff : forall c, inv_b c = true <-> Inv c /\ InvT c.
Proof. intros c. split; [apply inv_b_sound|intros [H1 H2]; apply inv_b_complete; assumption]. Qed.
