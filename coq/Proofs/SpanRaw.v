(* The invariant of a normal segment with one "raw" region [a, a+w): a range of slices that belongs to
   no span at the moment (taken out of its queue / being freed); the entries inside are unconstrained.
   Every span operation is: open a raw region, grow it over free neighbours, fill it again. *)
From Coq Require Import NArith ZArith Lia Bool List.
From Coq Require Import ZifyN ZifyBool.
From MiV Require Import Gen.Consts Gen.Bins Model.Arith Model.Span Proofs.Base Proofs.ArithProofs
  Proofs.SpanBase Proofs.SpanInv Proofs.SpanOps.
Import ListNotations.
Local Open Scope N_scope.

Definition raw_inv (U : N) (st : state) (a w : N) (l1 l2 : list (N * N)) (m : N) : Prop :=
  let sg := fst st in let qs := snd st in
  let es := entries sg in let n := slice_entries sg in
  kind sg = SegNormal /\
  tiles 0 a l1 /\ 0 < w /\ tiles (a + w) m l2 /\ n <= m /\ a + w <= n /\
  Forall (first_ok es n) (l1 ++ l2) /\
  Forall (span_ok sg qs) (l1 ++ l2) /\
  (exists r, l1 = (0, info_slices sg) :: r) /\ 0 < bsz (get es 0) /\
  U + 1 = count_used es (l1 ++ l2) /\
  len es = n + 1 /\ n <= MI_SLICES_PER_SEGMENT /\
  queues_ok sg (l1 ++ l2) qs.

(* ------------------------------------------------------------------------------------- *)
(* transfer of the per-span clauses to a state that agrees on the span's own entries       *)
(* ------------------------------------------------------------------------------------- *)

Lemma span_ok_transfer sg qs sg' qs' i c :
  kind sg = SegNormal -> frame_seg sg sg' -> 0 < c ->
  (forall j, i <= j -> j < i + c -> get (entries sg') j = get (entries sg) j) ->
  (queued sg = true -> In i (q_get qs (slice_bin c)) -> In i (q_get qs' (slice_bin c))) ->
  span_ok sg qs (i, c) -> span_ok sg' qs' (i, c).
Proof.
  intros Hk Hfr Hc Hget Hq (H1 & H2 & H3 & H4). cbn [fst snd] in *.
  pose proof (frame_seg_queued _ _ Hfr) as Hqd.
  destruct Hfr as (F1 & F2 & F3 & F4 & F5).
  specialize (H2 Hk).
  unfold span_ok. cbn [fst snd]. rewrite F3.
  split; [assumption|]. split; [intros; assumption|].
  rewrite (Hget i) by lia.
  split.
  - intros Hb. specialize (H3 Hb). destruct H3 as (U1 & U2 & U3).
    unfold used_ok. rewrite F3. cbv zeta. rewrite N.min_l in * by lia.
    split; [|split].
    + intros k Hk1 Hk2 Hk3. rewrite Hget by lia. apply U1; assumption.
    + rewrite N.min_l in * by lia. intros Hlt. rewrite Hget by lia. apply U2. assumption.
    + intros Hh. congruence.
  - intros Hb. specialize (H4 Hb). destruct H4 as (V1 & V2 & V3 & V4).
    unfold free_ok. rewrite F3, F4, F1, Hqd. cbv zeta. rewrite N.min_l in * by lia.
    rewrite Hget by lia.
    split; [assumption|]. split; [assumption|]. split; [assumption|].
    intros Hq'. apply Hq; [assumption|]. apply V4. assumption.
Qed.

Lemma Forall_span_ok_transfer sg qs sg' qs' l :
  kind sg = SegNormal -> frame_seg sg sg' ->
  (forall i c, In (i, c) l -> 0 < c /\
     (forall j, i <= j -> j < i + c -> get (entries sg') j = get (entries sg) j) /\
     (queued sg = true -> In i (q_get qs (slice_bin c)) -> In i (q_get qs' (slice_bin c)))) ->
  Forall (span_ok sg qs) l -> Forall (span_ok sg' qs') l.
Proof.
  intros Hk Hfr H Hf. apply Forall_forall. intros [i c] Hin.
  rewrite Forall_forall in Hf. destruct (H i c Hin) as (H1 & H2 & H3).
  apply (span_ok_transfer sg qs); auto.
Qed.

Lemma Forall_first_ok_transfer es es' n l :
  (forall i c, In (i, c) l -> get es' i = get es i) ->
  Forall (first_ok es n) l -> Forall (first_ok es' n) l.
Proof.
  intros H Hf. apply Forall_forall. intros [i c] Hin. rewrite Forall_forall in Hf.
  specialize (Hf _ Hin). unfold first_ok in *. cbn [fst snd] in *. rewrite (H i c Hin). assumption.
Qed.

Lemma count_used_ext es es' l :
  (forall i c, In (i, c) l -> bsz (get es' i) = bsz (get es i)) -> count_used es' l = count_used es l.
Proof.
  intros H. unfold count_used. f_equal. f_equal. apply filter_ext_in. intros [i c] Hin. cbn [fst].
  rewrite (H i c Hin). reflexivity.
Qed.

Lemma count_used_app es l1 l2 : count_used es (l1 ++ l2) = count_used es l1 + count_used es l2.
Proof. unfold count_used. rewrite filter_app, app_length. lia. Qed.

Lemma count_used_cons es i c l :
  count_used es ((i, c) :: l) = (if 0 <? bsz (get es i) then 1 else 0) + count_used es l.
Proof. unfold count_used. cbn [filter fst]. destruct (0 <? bsz (get es i)); cbn [length]; lia. Qed.

(* ------------------------------------------------------------------------------------- *)
(* positions of the spans around the raw region                                            *)
(* ------------------------------------------------------------------------------------- *)

Lemma raw_left a l1 i c : tiles 0 a l1 -> In (i, c) l1 -> i + c <= a /\ 0 < c.
Proof. intros H Hin. destruct (tiles_In _ _ _ _ _ H Hin) as (_ & H2 & H3). split; assumption. Qed.

Lemma raw_right b m l2 i c : tiles b m l2 -> In (i, c) l2 -> b <= i /\ 0 < c.
Proof. intros H Hin. destruct (tiles_In _ _ _ _ _ H Hin) as (H1 & _ & H3). split; assumption. Qed.

(* every span of l1 ++ l2 lies outside [a, a+w) *)
Lemma raw_outside a w m l1 l2 i c :
  tiles 0 a l1 -> tiles (a + w) m l2 -> In (i, c) (l1 ++ l2) -> 0 < c /\ (i + c <= a \/ a + w <= i).
Proof.
  intros H1 H2 Hin. apply in_app_or in Hin as [Hin|Hin].
  - destruct (raw_left _ _ _ _ H1 Hin). split; [assumption|left; assumption].
  - destruct (raw_right _ _ _ _ _ H2 Hin). split; [assumption|right; assumption].
Qed.

(* ------------------------------------------------------------------------------------- *)
(* frame: changes inside the raw region do not matter                                      *)
(* ------------------------------------------------------------------------------------- *)

Lemma raw_inv_frame U sg qs sg' a w l1 l2 m :
  raw_inv U (sg, qs) a w l1 l2 m ->
  frame_seg sg sg' ->
  (forall j, j < a \/ a + w <= j -> get (entries sg') j = get (entries sg) j) ->
  raw_inv U (sg', qs) a w l1 l2 m.
Proof.
  intros (Hk & T1 & Hw & T2 & Hm & Haw & Hf & Hok & (r & Hr) & Hb0 & Hu & Hl & Hn & (Q1 & Q2 & Q3 & Q4)) Hfr Hget.
  cbn [fst snd] in *.
  pose proof (frame_seg_queued _ _ Hfr) as Hqd.
  pose proof Hfr as (F1 & F2 & F3 & F4 & F5).
  assert (Hout : forall i c, In (i, c) (l1 ++ l2) -> forall j, i <= j -> j < i + c -> get (entries sg') j = get (entries sg) j).
  { intros i c Hin j Hj1 Hj2. destruct (raw_outside _ _ _ _ _ _ _ T1 T2 Hin) as (Hc & [H|H]); apply Hget; lia. }
  assert (Hpos : forall i c, In (i, c) (l1 ++ l2) -> 0 < c).
  { intros i c Hin. destruct (raw_outside _ _ _ _ _ _ _ T1 T2 Hin). assumption. }
  unfold raw_inv. cbn [fst snd]. rewrite F1, F3, F4, F5.
  split; [assumption|]. split; [assumption|]. split; [assumption|]. split; [assumption|].
  split; [assumption|]. split; [assumption|].
  split. { apply (Forall_first_ok_transfer (entries sg)); [|assumption]. intros i c Hin. apply (Hout i c Hin); [lia|]. specialize (Hpos i c Hin). lia. }
  split. { apply (Forall_span_ok_transfer sg qs); auto. intros i c Hin. split; [apply (Hpos i c Hin)|]. split; [apply (Hout i c Hin)|auto]. }
  split. { exists r. assumption. }
  split. { rewrite Hget; [assumption|]. left. subst l1. cbn in T1. destruct T1 as (_ & Hc & T1). apply tiles_le in T1. lia. }
  split. { rewrite (count_used_ext (entries sg)); [assumption|]. intros i c Hin. rewrite (Hout i c Hin); [reflexivity|lia|]. specialize (Hpos i c Hin). lia. }
  split; [assumption|]. split; [assumption|].
  unfold queues_ok. split; [assumption|]. split; [assumption|]. split.
  - intros b i Hin. destruct (Q3 b i Hin) as (A1 & A2 & A3).
    assert (E : get (entries sg') i = get (entries sg) i).
    { apply (Hout _ _ A2); [lia|]. specialize (Hpos _ _ A2). lia. }
    rewrite E. auto.
  - rewrite Hqd. assumption.
Qed.

(* ------------------------------------------------------------------------------------- *)
(* opening a raw region                                                                    *)
(* ------------------------------------------------------------------------------------- *)

Lemma Forall_app_inv {A} (P : A -> Prop) l1 x l2 : Forall P (l1 ++ x :: l2) -> Forall P (l1 ++ l2) /\ P x.
Proof.
  intros H. apply Forall_app in H as [H1 H2]. inversion H2; subst. split; [apply Forall_app; split; assumption|assumption].
Qed.

Lemma In_app_mid {A} (x y : A) l1 l2 : In x (l1 ++ y :: l2) <-> x = y \/ In x (l1 ++ l2).
Proof. rewrite !in_app_iff. cbn. split; intros; intuition (subst; auto). Qed.

(* a used span (not the info span) of a valid normal segment is forgotten: the region becomes raw *)
Lemma raw_open_used U sg qs sps m i c :
  span_Inv_with U (sg, qs) sps m -> kind sg = SegNormal -> In (i, c) sps -> i <> 0 ->
  0 < bsz (get (entries sg) i) ->
  exists l1 l2, sps = l1 ++ (i, c) :: l2 /\ 1 <= U /\ raw_inv (U - 1) (sg, qs) i c l1 l2 m.
Proof.
  intros (Ht & Hm & Hf & Hok & (r & Hr) & Hhs & Hb0 & Hu & Hl & Hn & (Q1 & Q2 & Q3 & Q4)) Hk Hin Hi0 Hbi.
  cbn [fst snd] in *.
  destruct (tiles_split _ _ _ _ _ Ht Hin) as (l1 & l2 & E & T1 & T2).
  exists l1, l2. split; [assumption|].
  assert (Hl1 : exists r1, l1 = (0, info_slices sg) :: r1).
  { destruct l1 as [|x r1]; [cbn in E; rewrite Hr in E; inversion E; congruence|].
    cbn in E. rewrite Hr in E. inversion E; subst. exists r1. reflexivity. }
  clear Hr. subst sps.
  apply Forall_app_inv in Hf as [Hf Hfi]. apply Forall_app_inv in Hok as [Hok Hoki].
  destruct Hoki as (K1 & K2 & K3 & K4). cbn [fst snd] in *. specialize (K2 Hk).
  destruct (tiles_In _ _ _ _ _ Ht Hin) as (_ & _ & Hc).
  rewrite count_used_app, count_used_cons in Hu.
  assert (Eb : (0 <? bsz (get (entries sg) i)) = true) by (apply N.ltb_lt; assumption). rewrite Eb in Hu.
  assert (H1 : 1 <= count_used (entries sg) l1).
  { destruct Hl1 as (r1 & ->). rewrite count_used_cons.
    assert (E0 : (0 <? bsz (get (entries sg) 0)) = true) by (apply N.ltb_lt; assumption). rewrite E0. lia. }
  split; [lia|].
  unfold raw_inv. cbn [fst snd].
  split; [assumption|]. split; [assumption|]. split; [assumption|]. split; [assumption|].
  split; [assumption|]. split; [assumption|]. split; [assumption|]. split; [assumption|].
  split; [assumption|]. split; [assumption|].
  split; [rewrite count_used_app; lia|]. split; [assumption|]. split; [assumption|].
  unfold queues_ok. split; [assumption|]. split; [assumption|]. split; [|assumption].
  intros b j Hj. destruct (Q3 b j Hj) as (A1 & A2 & A3). split; [assumption|]. split; [|assumption].
  apply In_app_mid in A2 as [A2|A2]; [|assumption]. inversion A2; subst. lia.
Qed.

(* a free span of a valid normal segment is taken out of its queue: the region becomes raw *)
Lemma raw_open_free U sg qs sps m i c :
  span_Inv_with U (sg, qs) sps m -> kind sg = SegNormal -> In (i, c) sps ->
  bsz (get (entries sg) i) = 0 ->
  exists l1 l2, sps = l1 ++ (i, c) :: l2 /\
    raw_inv U (if owned sg then span_queue_delete (sg, qs) (slice_bin c) i else (sg, qs)) i c l1 l2 m.
Proof.
  intros (Ht & Hm & Hf & Hok & (r & Hr) & Hhs & Hb0 & Hu & Hl & Hn & (Q1 & Q2 & Q3 & Q4)) Hk Hin Hbi.
  cbn [fst snd] in *.
  destruct (tiles_split _ _ _ _ _ Ht Hin) as (l1 & l2 & E & T1 & T2).
  exists l1, l2. split; [assumption|].
  assert (Hi0 : i <> 0) by (intros ->; lia).
  assert (Hl1 : exists r1, l1 = (0, info_slices sg) :: r1).
  { destruct l1 as [|x r1]; [cbn in E; rewrite Hr in E; inversion E; congruence|].
    cbn in E. rewrite Hr in E. inversion E; subst. exists r1. reflexivity. }
  clear Hr. subst sps.
  apply Forall_app_inv in Hf as [Hf Hfi]. apply Forall_app_inv in Hok as [Hok Hoki].
  destruct Hfi as (Hin' & Hcnt & Hoff). cbn [fst snd] in *.
  destruct Hoki as (K1 & K2 & K3 & K4). cbn [fst snd] in *. specialize (K2 Hk).
  destruct (tiles_In _ _ _ _ _ Ht Hin) as (_ & _ & Hc).
  rewrite count_used_app, count_used_cons in Hu.
  assert (Eb : (0 <? bsz (get (entries sg) i)) = false) by (apply N.ltb_ge; lia). rewrite Eb in Hu.
  assert (Hq3 : forall b j, In j (q_get qs b) -> j <> i -> In (j, slice_count (get (entries sg) j)) (l1 ++ l2)).
  { intros b j Hj Hne. destruct (Q3 b j Hj) as (A1 & A2 & A3).
    apply In_app_mid in A2 as [A2|A2]; [inversion A2; congruence|assumption]. }
  destruct (owned sg) eqn:Eo.
  - (* queued: the span is removed from its queue, its block_size becomes 1 *)
    assert (Hqd : queued sg = true) by (unfold queued; rewrite Hk; assumption).
    unfold span_queue_delete.
    apply (raw_inv_frame U sg _ (set_entries sg (set_bsz (entries sg) i 1))).
    2:{ apply frame_set_entries. apply set_bsz_length. }
    2:{ intros j Hj. cbn. apply get_set_bsz_other. lia. }
    unfold raw_inv. cbn [fst snd].
    split; [assumption|]. split; [assumption|]. split; [assumption|]. split; [assumption|].
    split; [assumption|]. split; [assumption|]. split; [assumption|].
    split.
    { apply (Forall_span_ok_transfer sg qs); auto; [apply frame_seg_refl|].
      intros j cj Hj. destruct (raw_outside _ _ _ _ _ _ _ T1 T2 Hj) as (Hcj & Hpos).
      split; [assumption|]. split; [reflexivity|].
      intros _ Hjq. rewrite q_get_remove.
      destruct (slice_bin cj =? slice_bin c) eqn:Eq; [|assumption].
      apply N.eqb_eq in Eq. rewrite <- Eq. apply In_removeN. split; [assumption|]. lia. }
    split; [assumption|]. split; [assumption|].
    split; [rewrite count_used_app; lia|]. split; [assumption|]. split; [assumption|].
    unfold queues_ok. split; [rewrite q_upd_length; assumption|].
    split. { intros b. rewrite q_get_remove. destruct (b =? slice_bin c); [apply NoDup_removeN|]; apply Q2. }
    split.
    + intros b j Hj. rewrite q_get_remove in Hj.
      assert (Hj' : In j (q_get qs b) /\ (b = slice_bin c -> j <> i)).
      { destruct (b =? slice_bin c) eqn:Eb'.
        - apply N.eqb_eq in Eb'. subst b. apply In_removeN in Hj. tauto.
        - apply N.eqb_neq in Eb'. tauto. }
      destruct Hj' as (Hj1 & Hj2).
      destruct (Q3 b j Hj1) as (A1 & A2 & A3).
      assert (Hne : j <> i).
      { intros E. subst j. assert (Hb : b = slice_bin c) by (rewrite <- A3, Hcnt; reflexivity).
        apply (Hj2 Hb). reflexivity. }
      split; [assumption|]. split; [|assumption]. apply (Hq3 b); assumption.
    + intros Hq. congruence.
  - (* abandoned: nothing is queued *)
    unfold raw_inv. cbn [fst snd].
    split; [assumption|]. split; [assumption|]. split; [assumption|]. split; [assumption|].
    split; [assumption|]. split; [assumption|]. split; [assumption|]. split; [assumption|].
    split; [assumption|]. split; [assumption|].
    split; [rewrite count_used_app; lia|]. split; [assumption|]. split; [assumption|].
    unfold queues_ok. split; [assumption|]. split; [assumption|]. split; [|assumption].
    assert (Hqd : queued sg = false) by (unfold queued; rewrite Hk; assumption).
    intros b j Hj. rewrite (Q4 Hqd b) in Hj. destruct Hj.
Qed.

(* ------------------------------------------------------------------------------------- *)
(* the part of the invariant that only sees the spans as a set                             *)
(* ------------------------------------------------------------------------------------- *)

Definition flat_inv (U : N) (sg : segment) (qs : queues) (L : list (N * N)) : Prop :=
  kind sg = SegNormal /\
  Forall (first_ok (entries sg) (slice_entries sg)) L /\ Forall (span_ok sg qs) L /\
  U + 1 = count_used (entries sg) L /\
  len (entries sg) = slice_entries sg + 1 /\ slice_entries sg <= MI_SLICES_PER_SEGMENT /\
  queues_ok sg L qs.

Lemma raw_inv_flat U sg qs a w l1 l2 m :
  raw_inv U (sg, qs) a w l1 l2 m <->
  (tiles 0 a l1 /\ 0 < w /\ tiles (a + w) m l2 /\ slice_entries sg <= m /\ a + w <= slice_entries sg /\
   (exists r, l1 = (0, info_slices sg) :: r) /\ 0 < bsz (get (entries sg) 0) /\
   flat_inv U sg qs (l1 ++ l2)).
Proof. unfold raw_inv, flat_inv. cbn [fst snd]. tauto. Qed.

(* a free span leaves the set: it is taken out of its queue (block_size 1) *)
Lemma flat_drop_free U sg qs L1 i c L2 :
  flat_inv U sg qs (L1 ++ (i, c) :: L2) -> bsz (get (entries sg) i) = 0 -> 0 < c ->
  (forall j cj, In (j, cj) (L1 ++ L2) -> 0 < cj /\ (j + cj <= i \/ i + c <= j)) ->
  let st' := if owned sg then span_queue_delete (sg, qs) (slice_bin c) i else (sg, qs) in
  flat_inv U (fst st') (snd st') (L1 ++ L2) /\ frame_seg sg (fst st') /\
  (forall j, j <> i -> get (entries (fst st')) j = get (entries sg) j).
Proof.
  intros (Hk & Hf & Hok & Hu & Hl & Hn & (Q1 & Q2 & Q3 & Q4)) Hbi Hc Hpos.
  apply Forall_app_inv in Hf as [Hf Hfi]. apply Forall_app_inv in Hok as [Hok Hoki].
  destruct Hfi as (Hin' & Hcnt & Hoff). cbn [fst snd] in *.
  rewrite count_used_app, count_used_cons in Hu.
  assert (Eb : (0 <? bsz (get (entries sg) i)) = false) by (apply N.ltb_ge; lia). rewrite Eb in Hu.
  assert (Hq3 : forall b j, In j (q_get qs b) -> j <> i -> In (j, slice_count (get (entries sg) j)) (L1 ++ L2)).
  { intros b j Hj Hne. destruct (Q3 b j Hj) as (A1 & A2 & A3).
    apply In_app_mid in A2 as [A2|A2]; [inversion A2; congruence|assumption]. }
  destruct (owned sg) eqn:Eo; cbv zeta.
  - assert (Hqd : queued sg = true) by (unfold queued; rewrite Hk; assumption).
    unfold span_queue_delete. cbn [fst snd].
    set (sg' := set_entries sg (set_bsz (entries sg) i 1)).
    assert (Hfr : frame_seg sg sg') by (apply frame_set_entries; apply set_bsz_length).
    assert (Hget : forall j, j <> i -> get (entries sg') j = get (entries sg) j).
    { intros j Hj. cbn. apply get_set_bsz_other. assumption. }
    split; [|split; assumption].
    assert (Hout : forall j cj, In (j, cj) (L1 ++ L2) -> forall x, j <= x -> x < j + cj -> get (entries sg') x = get (entries sg) x).
    { intros j cj Hj x Hx1 Hx2. apply Hget. destruct (Hpos j cj Hj) as (_ & [H|H]); lia. }
    unfold flat_inv.
    split; [assumption|].
    split. { apply (Forall_first_ok_transfer (entries sg)); [|assumption]. intros j cj Hj.
             apply (Hout j cj Hj); [lia|]. destruct (Hpos j cj Hj). lia. }
    split.
    { apply (Forall_span_ok_transfer sg qs); auto.
      intros j cj Hj. destruct (Hpos j cj Hj) as (Hcj & Hp).
      split; [assumption|]. split; [apply (Hout j cj Hj)|].
      intros _ Hjq. rewrite q_get_remove.
      destruct (slice_bin cj =? slice_bin c) eqn:Eq; [|assumption].
      apply N.eqb_eq in Eq. rewrite <- Eq. apply In_removeN. split; [assumption|]. lia. }
    split. { rewrite (count_used_ext (entries sg)); [rewrite count_used_app; lia|].
             intros j cj Hj. rewrite (Hout j cj Hj); [reflexivity|lia|]. destruct (Hpos j cj Hj). lia. }
    split; [change (entries sg') with (set_bsz (entries sg) i 1); rewrite set_bsz_length; assumption|].
    split; [assumption|].
    unfold queues_ok. split; [rewrite q_upd_length; assumption|].
    split. { intros b. rewrite q_get_remove. destruct (b =? slice_bin c); [apply NoDup_removeN|]; apply Q2. }
    split.
    + intros b j Hj. rewrite q_get_remove in Hj.
      assert (Hj' : In j (q_get qs b) /\ (b = slice_bin c -> j <> i)).
      { destruct (b =? slice_bin c) eqn:Eb'.
        - apply N.eqb_eq in Eb'. subst b. apply In_removeN in Hj. tauto.
        - apply N.eqb_neq in Eb'. tauto. }
      destruct Hj' as (Hj1 & Hj2).
      destruct (Q3 b j Hj1) as (A1 & A2 & A3).
      assert (Hne : j <> i).
      { intros E. subst j. assert (Hb : b = slice_bin c) by (rewrite <- A3, Hcnt; reflexivity).
        apply (Hj2 Hb). reflexivity. }
      rewrite (Hget j Hne). split; [assumption|]. split; [|assumption]. apply (Hq3 b); assumption.
    + intros Hq. rewrite (frame_seg_queued _ _ Hfr) in Hq. congruence.
  - cbn [fst snd]. split; [|split; [apply frame_seg_refl|reflexivity]].
    unfold flat_inv.
    split; [assumption|]. split; [assumption|]. split; [assumption|].
    split; [rewrite count_used_app; lia|]. split; [assumption|]. split; [assumption|].
    unfold queues_ok. split; [assumption|]. split; [assumption|]. split; [|assumption].
    assert (Hqd : queued sg = false) by (unfold queued; rewrite Hk; assumption).
    intros b j Hj. rewrite (Q4 Hqd b) in Hj. destruct Hj.
Qed.

(* the raw region grows over the free span that follows it *)
Lemma raw_absorb_right U sg qs a w l1 c2 l2 m :
  raw_inv U (sg, qs) a w l1 ((a + w, c2) :: l2) m -> bsz (get (entries sg) (a + w)) = 0 ->
  raw_inv U (if owned sg then span_queue_delete (sg, qs) (slice_bin c2) (a + w) else (sg, qs)) a (w + c2) l1 l2 m.
Proof.
  intros H Hb. apply raw_inv_flat in H as (T1 & Hw & T2 & Hm & Haw & (r & Hr) & Hb0 & Hflat).
  cbn [tiles] in T2. destruct T2 as (_ & Hc2 & T2).
  assert (Hle : a + w + c2 <= slice_entries sg).
  { destruct Hflat as (Hk & _ & Hok & _). apply Forall_app_inv in Hok as [_ Hx].
    destruct Hx as (_ & Hx & _). cbn [fst snd] in Hx. apply Hx. assumption. }
  destruct (flat_drop_free U sg qs l1 (a + w) c2 l2 Hflat Hb Hc2) as (Hflat' & Hfr & Hget).
  { intros j cj Hj. apply in_app_or in Hj as [Hj|Hj].
    - destruct (raw_left _ _ _ _ T1 Hj). split; [assumption|]. left. lia.
    - destruct (raw_right _ _ _ _ _ T2 Hj). split; [assumption|]. right. lia. }
  cbv zeta in Hflat', Hfr, Hget.
  set (st' := if owned sg then span_queue_delete (sg, qs) (slice_bin c2) (a + w) else (sg, qs)) in *.
  destruct st' as [sg' qs']. cbn [fst snd] in *.
  apply raw_inv_flat. destruct Hfr as (F1 & F2 & F3 & F4 & F5). rewrite F3, F4.
  split; [assumption|]. split; [lia|]. split; [rewrite N.add_assoc; assumption|].
  split; [assumption|]. split; [lia|]. split; [exists r; assumption|].
  split; [|assumption]. rewrite Hget; [assumption|].
  subst l1. cbn in T1. destruct T1 as (_ & Hc & T1). apply tiles_le in T1. lia.
Qed.

(* the raw region grows over the free span in front of it *)
Lemma raw_absorb_left U sg qs a w l1 j cj l2 m :
  raw_inv U (sg, qs) a w (l1 ++ [(j, cj)]) l2 m -> bsz (get (entries sg) j) = 0 ->
  j + cj = a /\
  raw_inv U (if owned sg then span_queue_delete (sg, qs) (slice_bin cj) j else (sg, qs)) j (cj + w) l1 l2 m.
Proof.
  intros H Hb. apply raw_inv_flat in H as (T1 & Hw & T2 & Hm & Haw & (r & Hr) & Hb0 & Hflat).
  apply tiles_app in T1 as (k & T1 & T1'). cbn [tiles] in T1'. destruct T1' as (Ej & Hcj & E). subst k.
  split; [assumption|].
  rewrite <- app_assoc in Hflat. cbn [app] in Hflat.
  destruct (flat_drop_free U sg qs l1 j cj l2 Hflat Hb Hcj) as (Hflat' & Hfr & Hget).
  { intros x cx Hx. apply in_app_or in Hx as [Hx|Hx].
    - destruct (raw_left _ _ _ _ T1 Hx). split; [assumption|]. left. lia.
    - destruct (raw_right _ _ _ _ _ T2 Hx). split; [assumption|]. right. lia. }
  cbv zeta in Hflat', Hfr, Hget.
  set (st' := if owned sg then span_queue_delete (sg, qs) (slice_bin cj) j else (sg, qs)) in *.
  destruct st' as [sg' qs']. cbn [fst snd] in *.
  assert (Hj0 : j <> 0) by (intros ->; lia).
  apply raw_inv_flat. destruct Hfr as (F1 & F2 & F3 & F4 & F5). rewrite F3, F4.
  split; [assumption|]. split; [lia|]. split; [replace (j + (cj + w)) with (a + w) by lia; assumption|].
  split; [assumption|]. split; [lia|].
  split.
  { destruct l1 as [|x r1].
    - cbn in Hr. inversion Hr. congruence.
    - cbn in Hr. inversion Hr. exists r1. reflexivity. }
  split; [|assumption]. rewrite Hget; [assumption|]. lia.
Qed.

(* ------------------------------------------------------------------------------------- *)
(* closing the raw region                                                                  *)
(* ------------------------------------------------------------------------------------- *)

Lemma tiles_mid a w m l1 l2 : tiles 0 a l1 -> 0 < w -> tiles (a + w) m l2 -> tiles 0 m (l1 ++ (a, w) :: l2).
Proof.
  intros T1 Hw T2. apply tiles_app. exists a. split; [assumption|]. cbn. repeat split; assumption.
Qed.

Lemma Forall_mid {A} (P : A -> Prop) l1 x l2 : Forall P (l1 ++ l2) -> P x -> Forall P (l1 ++ x :: l2).
Proof.
  intros H Hx. apply Forall_app in H as [H1 H2]. apply Forall_app. split; [assumption|]. constructor; assumption.
Qed.

(* mi_segment_span_free on a region that no span of L1 ++ L2 touches adds the free span (a, w) *)
Lemma flat_add_free U sg qs a w L1 L2 :
  flat_inv U sg qs (L1 ++ L2) -> 0 < w -> a + w <= slice_entries sg -> 0 < a ->
  (forall i c, In (i, c) (L1 ++ L2) -> 0 < c /\ (i + c <= a \/ a + w <= i)) ->
  let st' := span_free (sg, qs) a w in
  flat_inv U (fst st') (snd st') (L1 ++ (a, w) :: L2) /\ frame_seg sg (fst st') /\
  (forall j, j < a \/ a + w <= j -> get (entries (fst st')) j = get (entries sg) j) /\
  get (entries (fst st')) a = mkSlice w 0 0.
Proof.
  intros (Hk & Hf & Hok & Hu & Hl & Hn & (Q1 & Q2 & Q3 & Q4)) Hw Haw Ha0 Hposn.
  cbv zeta. rewrite span_free_unfold. cbn [fst snd].
  destruct (sf_entries_spec sg a w Hw Haw Hn Hl) as (S1 & S2 & S3 & S4).
  set (es' := sf_entries sg a w) in *.
  set (sg' := set_entries sg es').
  set (qs' := if queued sg then q_upd qs (slice_bin w) (cons a) else qs).
  assert (Hfr : frame_seg sg sg') by (apply frame_set_entries; assumption).
  assert (Hout : forall i c, In (i, c) (L1 ++ L2) -> forall j, i <= j -> j < i + c -> get es' j = get (entries sg) j).
  { intros i c Hin j Hj1 Hj2. destruct (Hposn _ _ Hin) as (Hc & [H|H]); apply S4; lia. }
  assert (Hpos : forall i c, In (i, c) (L1 ++ L2) -> 0 < c /\ i <> a).
  { intros i c Hin. destruct (Hposn _ _ Hin) as (Hc & [H|H]); split; lia. }
  assert (Hbin : slice_bin w < len qs).
  { rewrite Q1. apply slice_bin_lt. lia. }
  assert (Hqin : forall i b, In i (q_get qs b) -> In i (q_get qs' b)).
  { intros i b Hi. unfold qs'. destruct (queued sg); [|assumption].
    rewrite q_get_push by assumption. destruct (b =? slice_bin w) eqn:E; [|assumption].
    apply N.eqb_eq in E. subst b. right. assumption. }
  split; [|split; [assumption|split; [intros j Hj; apply S4; lia|exact S2]]].
  unfold flat_inv.
  change (entries sg') with es'. change (slice_entries sg') with (slice_entries sg).
  split; [assumption|].
  split.
  { apply Forall_mid.
    - apply (Forall_first_ok_transfer (entries sg)); [|assumption]. intros i c Hin.
      apply (Hout i c Hin); [lia|]. destruct (Hpos i c Hin). lia.
    - unfold first_ok. cbn [fst snd]. rewrite S2. cbn. repeat split; lia. }
  split.
  { apply Forall_mid.
    - apply (Forall_span_ok_transfer sg qs); auto. intros i c Hin. destruct (Hpos i c Hin).
      split; [assumption|]. split; [apply (Hout i c Hin)|]. intros _. apply Hqin.
    - unfold span_ok. cbn [fst snd]. change (entries sg') with es'. rewrite S2. cbn [bsz].
      split; [unfold MI_SLICES_PER_SEGMENT in Hn; lia|]. split; [intros; assumption|]. split; [intros; lia|].
      intros _. unfold free_ok. change (entries sg') with es'. change (slice_entries sg') with (slice_entries sg).
      change (kind sg') with (kind sg). change (queued sg') with (queued sg). cbv zeta.
      rewrite N.min_l by lia.
      destruct (N.eq_dec w 1) as [->|Hw1].
      + replace (a + 1 - 1) with a by lia. rewrite S2. cbn.
        split; [intros; lia|]. split; [left; reflexivity|]. split; [left; reflexivity|].
        intros Hq. unfold qs'. rewrite Hq. rewrite q_get_push by assumption. rewrite N.eqb_refl. left; reflexivity.
      + rewrite S3 by lia. cbn.
        split; [intros; lia|]. split; [right; reflexivity|]. split; [left; reflexivity|].
        intros Hq. unfold qs'. rewrite Hq. rewrite q_get_push by assumption. rewrite N.eqb_refl. left; reflexivity. }
  split.
  { rewrite count_used_app, count_used_cons, S2. cbn [bsz]. cbn [N.ltb N.compare].
    rewrite count_used_app in Hu.
    rewrite (count_used_ext (entries sg) es' L1), (count_used_ext (entries sg) es' L2); [lia| |].
    - intros i c Hin. assert (Hin' : In (i, c) (L1 ++ L2)) by (apply in_or_app; right; assumption).
      rewrite (Hout i c Hin'); [reflexivity|lia|]. destruct (Hpos i c Hin'). lia.
    - intros i c Hin. assert (Hin' : In (i, c) (L1 ++ L2)) by (apply in_or_app; left; assumption).
      rewrite (Hout i c Hin'); [reflexivity|lia|]. destruct (Hpos i c Hin'). lia. }
  split; [rewrite S1; assumption|]. split; [assumption|].
  unfold queues_ok. change (entries sg') with es'. change (queued sg') with (queued sg).
  split. { unfold qs'. destruct (queued sg); [rewrite q_upd_length|]; assumption. }
  assert (Hmem : forall b i, In i (q_get qs b) -> i <> a /\ get es' i = get (entries sg) i /\
                              In (i, slice_count (get (entries sg) i)) (L1 ++ (a, w) :: L2)).
  { intros b i Hi. destruct (Q3 b i Hi) as (A1 & A2 & A3). destruct (Hpos _ _ A2) as (Hc & Hne).
    split; [assumption|]. split; [apply (Hout _ _ A2); lia|]. apply In_app_mid. right. assumption. }
  split.
  { intros b. unfold qs'. destruct (queued sg); [|apply Q2]. rewrite q_get_push by assumption.
    destruct (b =? slice_bin w) eqn:E; [|apply Q2]. apply N.eqb_eq in E. subst b.
    constructor; [|apply Q2]. intros Hi. destruct (Hmem _ _ Hi). congruence. }
  split.
  - intros b i Hi.
    assert (Hcase : (i = a /\ b = slice_bin w /\ queued sg = true) \/ In i (q_get qs b)).
    { unfold qs' in Hi. destruct (queued sg); [|right; assumption]. rewrite q_get_push in Hi by assumption.
      destruct (b =? slice_bin w) eqn:E; [|right; assumption]. apply N.eqb_eq in E.
      destruct Hi as [Hi|Hi]; [left; auto|right; subst; assumption]. }
    destruct Hcase as [(-> & -> & _)|Hi'].
    + rewrite S2. cbn. split; [reflexivity|]. split; [|reflexivity]. apply In_app_mid. left. reflexivity.
    + destruct (Hmem b i Hi') as (M1 & M2 & M3). destruct (Q3 b i Hi') as (A1 & A2 & A3). rewrite M2. auto.
  - intros Hq. unfold qs'. rewrite Hq. apply Q4. assumption.
Qed.

Lemma inv_with_flat U sg qs sps m :
  kind sg = SegNormal ->
  (span_Inv_with U (sg, qs) sps m <->
   (tiles 0 m sps /\ slice_entries sg <= m /\ (exists r, sps = (0, info_slices sg) :: r) /\
    0 < bsz (get (entries sg) 0) /\ flat_inv U sg qs sps)).
Proof. intros Hk. unfold span_Inv_with, flat_inv, huge_shape. cbn [fst snd]. rewrite Hk. tauto. Qed.

Lemma raw_a_pos U st a w l1 l2 m : raw_inv U st a w l1 l2 m -> 0 < a.
Proof.
  destruct st as [sg qs]. intros H. apply raw_inv_flat in H as (T1 & _ & _ & _ & _ & (r & Hr) & _).
  subst l1. cbn in T1. destruct T1 as (_ & Hc & T1). apply tiles_le in T1. lia.
Qed.

(* mi_segment_span_free on the raw region: a valid segment with the free span (a, w) *)
Lemma raw_fill_free U sg qs a w l1 l2 m :
  raw_inv U (sg, qs) a w l1 l2 m ->
  span_Inv_with U (span_free (sg, qs) a w) (l1 ++ (a, w) :: l2) m.
Proof.
  intros H. pose proof (raw_a_pos _ _ _ _ _ _ _ H) as Ha0.
  apply raw_inv_flat in H as (T1 & Hw & T2 & Hm & Haw & (r & Hr) & Hb0 & Hflat).
  destruct (flat_add_free U sg qs a w l1 l2 Hflat Hw Haw Ha0) as (Hflat' & Hfr & Hget & _).
  { intros i c Hin. apply (raw_outside _ _ _ _ _ _ _ T1 T2 Hin). }
  cbv zeta in Hflat', Hfr, Hget.
  destruct (span_free (sg, qs) a w) as [sg' qs']. cbn [fst snd] in *.
  destruct Hflat' as (Hk' & Hrest). pose proof (conj Hk' Hrest) as Hflat'.
  apply (inv_with_flat U sg' qs' _ m Hk').
  destruct Hfr as (F1 & F2 & F3 & F4 & F5). rewrite F3, F4.
  split; [apply tiles_mid; assumption|]. split; [assumption|].
  split. { exists (match l1 with [] => [] | _ :: t => t end ++ (a, w) :: l2). rewrite Hr. reflexivity. }
  split; [|assumption]. rewrite Hget by lia. assumption.
Qed.

(* mi_segment_slice_split, span part: the tail of the raw region becomes a free span *)
Lemma raw_shrink_right U sg qs a w l1 l2 m k :
  raw_inv U (sg, qs) a w l1 l2 m -> 0 < k -> k < w ->
  let st' := span_free (sg, qs) (a + k) (w - k) in
  raw_inv U st' a k l1 ((a + k, w - k) :: l2) m /\ frame_seg sg (fst st') /\
  (forall j, j < a + k \/ a + w <= j -> get (entries (fst st')) j = get (entries sg) j).
Proof.
  intros H Hk0 Hkw. pose proof (raw_a_pos _ _ _ _ _ _ _ H) as Ha0.
  apply raw_inv_flat in H as (T1 & Hw & T2 & Hm & Haw & (r & Hr) & Hb0 & Hflat).
  destruct (flat_add_free U sg qs (a + k) (w - k) l1 l2 Hflat) as (Hflat' & Hfr & Hget & _); try lia.
  { intros i c Hin. destruct (raw_outside _ _ _ _ _ _ _ T1 T2 Hin) as (Hc & Hp). split; [assumption|]. lia. }
  cbv zeta in Hflat', Hfr, Hget |- *.
  destruct (span_free (sg, qs) (a + k) (w - k)) as [sg' qs']. cbn [fst snd] in *.
  split; [|split; [assumption|intros j Hj; apply Hget; lia]].
  apply raw_inv_flat.
  destruct Hfr as (F1 & F2 & F3 & F4 & F5). rewrite F3, F4.
  split; [assumption|]. split; [assumption|].
  split. { cbn [tiles]. split; [reflexivity|]. split; [lia|]. replace (a + k + (w - k)) with (a + w) by lia. assumption. }
  split; [assumption|]. split; [lia|]. split; [exists r; assumption|].
  split; [|assumption]. rewrite Hget by lia. assumption.
Qed.

(* mi_segment_span_allocate on the raw region: a valid segment with the used span (a, w) *)
Lemma raw_fill_used U sg qs a w l1 l2 m :
  raw_inv U (sg, qs) a w l1 l2 m ->
  span_Inv_with (U + 1) (set_used (set_entries sg (sa_entries sg a w)) (used sg + 1), qs) (l1 ++ (a, w) :: l2) m.
Proof.
  intros (Hk & T1 & Hw & T2 & Hm & Haw & Hf & Hok & (r & Hr) & Hb0 & Hu & Hl & Hn & (Q1 & Q2 & Q3 & Q4)).
  cbn [fst snd] in *.
  assert (Han : a < slice_entries sg) by lia.
  destruct (sa_entries_spec sg a w Hw Han Hn Hl) as (S1 & S2 & S3 & S4 & S5).
  destruct (sa_normal (slice_entries sg) a w Hw Haw) as (EE & EL). rewrite EE in S3, S5. rewrite EL in S4, S5.
  set (es' := sa_entries sg a w) in *.
  set (sg' := set_used (set_entries sg es') (used sg + 1)).
  assert (Hfr : frame_seg sg sg') by (repeat split; assumption).
  assert (Ha0 : 0 < a). { subst l1. cbn in T1. destruct T1 as (_ & Hc & T1). apply tiles_le in T1. lia. }
  assert (Hin_frame : forall j, j < a \/ a + w <= j -> get es' j = get (entries sg) j).
  { intros j Hj. apply S5; lia. }
  assert (Hout : forall i c, In (i, c) (l1 ++ l2) -> forall j, i <= j -> j < i + c -> get es' j = get (entries sg) j).
  { intros i c Hin j Hj1 Hj2. destruct (raw_outside _ _ _ _ _ _ _ T1 T2 Hin) as (Hc & [H|H]); apply Hin_frame; lia. }
  assert (Hpos : forall i c, In (i, c) (l1 ++ l2) -> 0 < c /\ i <> a).
  { intros i c Hin. destruct (raw_outside _ _ _ _ _ _ _ T1 T2 Hin) as (Hc & [H|H]); split; lia. }
  assert (Hw32 : wrap32 w = w) by (apply wrap32_small; unfold MI_SLICES_PER_SEGMENT in Hn; lia).
  assert (Hbs : 0 < wmul w MI_SEGMENT_SLICE_SIZE).
  { rewrite wmul_small; unfold MI_SEGMENT_SLICE_SIZE, MI_SLICES_PER_SEGMENT in *; [lia|rewrite W64_val; lia]. }
  unfold span_Inv_with. cbn [fst snd]. fold sg'.
  change (entries sg') with es'. change (slice_entries sg') with (slice_entries sg).
  change (info_slices sg') with (info_slices sg).
  split; [apply tiles_mid; assumption|]. split; [assumption|].
  split.
  { apply Forall_mid.
    - apply (Forall_first_ok_transfer (entries sg)); [|assumption]. intros i c Hin.
      apply (Hout i c Hin); [lia|]. destruct (Hpos i c Hin). lia.
    - unfold first_ok. cbn [fst snd]. rewrite S2, Hw32. cbn. repeat split; lia. }
  split.
  { apply Forall_mid.
    - apply (Forall_span_ok_transfer sg qs); auto. intros i c Hin. destruct (Hpos i c Hin).
      split; [assumption|]. split; [apply (Hout i c Hin)|]. auto.
    - unfold span_ok. cbn [fst snd]. change (entries sg') with es'. rewrite S2. cbn [bsz].
      split; [unfold MI_SLICES_PER_SEGMENT in Hn; lia|]. split; [intros; assumption|]. split; [|intros; lia].
      intros _. unfold used_ok. change (entries sg') with es'. change (slice_entries sg') with (slice_entries sg).
      change (kind sg') with (kind sg). cbv zeta. rewrite !N.min_l by lia.
      split; [|split].
      + intros k Hk1 Hk2 Hk3. apply S3; lia.
      + intros Hlt. replace (a + w - 1 - a) with (a + w - 1 - a) by lia. apply S4. assumption.
      + intros Hh. congruence. }
  split. { exists (match l1 with [] => [] | _ :: t => t end ++ (a, w) :: l2). rewrite Hr. reflexivity. }
  split. { unfold huge_shape. change (kind sg') with (kind sg). rewrite Hk. exact I. }
  split. { rewrite Hin_frame by lia. assumption. }
  split.
  { rewrite count_used_app, count_used_cons, S2. cbn [bsz].
    assert (Eb : (0 <? wmul w MI_SEGMENT_SLICE_SIZE) = true) by (apply N.ltb_lt; assumption). rewrite Eb.
    rewrite count_used_app in Hu.
    rewrite (count_used_ext (entries sg) es' l1), (count_used_ext (entries sg) es' l2); [lia| |].
    - intros i c Hin. assert (Hin' : In (i, c) (l1 ++ l2)) by (apply in_or_app; right; assumption).
      rewrite (Hout i c Hin'); [reflexivity|lia|]. destruct (Hpos i c Hin'). lia.
    - intros i c Hin. assert (Hin' : In (i, c) (l1 ++ l2)) by (apply in_or_app; left; assumption).
      rewrite (Hout i c Hin'); [reflexivity|lia|]. destruct (Hpos i c Hin'). lia. }
  split; [rewrite S1; assumption|]. split; [assumption|].
  unfold queues_ok. change (entries sg') with es'. change (queued sg') with (queued sg).
  split; [assumption|]. split; [assumption|]. split; [|assumption].
  intros b i Hi. destruct (Q3 b i Hi) as (A1 & A2 & A3). destruct (Hpos _ _ A2) as (Hc & Hne).
  assert (E : get es' i = get (entries sg) i) by (apply (Hout _ _ A2); lia).
  rewrite E. split; [assumption|]. split; [|assumption]. apply In_app_mid. right. assumption.
Qed.
