(* Sequential specifications of the bitmap functions (property C14, second file of proofs):
   what a successful / failing find-and-claim does to the bitmap, unclaim restores, completeness of
   the claims of at most 2 bits, unit claims fill the bitmap, and the top-bit limitation of the
   claims of more than 2 bits. *)
From Coq Require Import NArith ZArith PeanoNat Lia Bool List ZifyN ZifyBool.
From MiV Require Import Gen.Consts Model.Arith Proofs.Base Model.Bitmap Proofs.BitmapProofs.
Import ListNotations.
Local Open Scope N_scope.
Local Open Scope bool_scope.

Ltac w64lia := pose proof W64_val; lia.

(* bm' is bm with the c bits from flat position s set; these bits were clear in bm *)
Definition set_range (bm bm' : list N) (s c : N) : Prop :=
  length bm' = length bm /\ bm_ok bm' /\
  forall i b, i < nfields bm -> b < 64 ->
    N.testbit (getf bm' i) b = N.testbit (getf bm i) b || in_rng (s, s + c) (64 * i + b) /\
    (in_rng (s, s + c) (64 * i + b) = true -> N.testbit (getf bm i) b = false).

(* ---- _mi_bitmap_try_find_claim_field ---- *)

Lemma try_find_claim_field_spec bm idx count r bm' :
  1 <= count -> count <= 64 -> try_find_claim_field bm idx count = (r, bm') ->
  match r with
  | Some x => exists bit, x = 64 * idx + bit /\ bit + count <= 64 /\
                          N.land (getf bm idx) (mask_ count bit) = 0 /\
                          bm' = setf bm idx (N.lor (getf bm idx) (mask_ count bit))
  | None => bm' = bm
  end.
Proof.
  intros H1 H64 H. unfold try_find_claim_field in H.
  destruct (getf bm idx =? FULL); [inversion H; reflexivity|].
  destruct (scan_field _ _ _ _ _) as [[b m]|] eqn:E; [|inversion H; reflexivity].
  apply scan_field_spec in E; try assumption; try reflexivity.
  destruct E as (Ha & Hb & Hc & _). inversion H; subst. exists b. unfold index_create. repeat split; try lia.
Qed.

Lemma set_field_range bm i v c bit :
  bm_ok bm -> i < nfields bm -> v = getf bm i -> bit + c <= 64 -> N.land v (mask_ c bit) = 0 ->
  set_range bm (setf bm i (N.lor v (mask_ c bit))) (64 * i + bit) c.
Proof.
  intros Hok Hi Hv Hc Hz. split; [apply length_setf|]. split.
  - apply setf_ok; [exact Hok|]. apply lor_lt; [subst v; apply getf_lt, Hok|apply mask_lt].
  - intros j b Hj Hb. rewrite getf_setf by exact Hi. pose proof (land_zero_bit _ _ b Hz) as Hzb.
    rewrite mask_testbit in Hzb by lia. unfold in_rng. cbn [fst snd].
    destruct (j =? i) eqn:E.
    + assert (j = i) by lia. subst j. rewrite N.lor_spec, mask_testbit by lia. rewrite <- Hv. split; [|intros Hin]; lia.
    + split; [|intros Hin]; lia.
Qed.

(* ---- the generic field loop (for (visited = 0; visited < fields; visited++, idx++) with wrap) ---- *)

Fixpoint gloop (F : list N -> N -> option N * list N) (n : nat) (bm : list N) (fields idx : N) : option N * list N :=
  match n with
  | O => (None, bm)
  | S k =>
    let idx := if fields <=? idx then 0 else idx in
    match F bm idx with
    | (Some r, bm') => (Some r, bm')
    | (None, bm') => gloop F k bm' fields (idx + 1)
    end
  end.

Lemma find_from_loop_gloop n bm fields idx count :
  find_from_loop n bm fields idx count = gloop (fun bm i => try_find_claim_field bm i count) n bm fields idx.
Proof. revert bm idx. induction n as [|n IH]; intros bm idx; [reflexivity|]. cbn [find_from_loop gloop]. destruct (try_find_claim_field _ _ _) as [[r|] bm']; [reflexivity|apply IH]. Qed.
Lemma find_from_across_loop_gloop n bm fields idx count :
  find_from_across_loop n bm fields idx count =
  gloop (fun bm i => try_find_claim_field_across ACROSS_TRIES bm fields i count 0) n bm fields idx.
Proof. revert bm idx. induction n as [|n IH]; intros bm idx; [reflexivity|]. cbn [find_from_across_loop gloop]. destruct (try_find_claim_field_across _ _ _ _ _ _) as [[r|] bm']; [reflexivity|apply IH]. Qed.

(* success comes from one field attempt on the unchanged bitmap (failed attempts change nothing) *)
Lemma gloop_some F n bm fields idx x bm' :
  0 < fields -> (forall i b', i < fields -> F bm i = (None, b') -> b' = bm) ->
  gloop F n bm fields idx = (Some x, bm') -> exists i, i < fields /\ F bm i = (Some x, bm').
Proof.
  intros Hf HF. revert idx. induction n as [|n IH]; intros idx H; cbn [gloop] in H; [discriminate|].
  set (i := if fields <=? idx then 0 else idx) in *.
  assert (Hi : i < fields) by (subst i; destruct (fields <=? idx) eqn:E2; lia).
  destruct (F bm i) as [[r|] bm1] eqn:E.
  - inversion H; subst. exists i. split; [exact Hi|exact E].
  - apply HF in E; [|exact Hi]. subst bm1. apply IH in H. exact H.
Qed.
(* failure: every field has been tried on the unchanged bitmap *)
Lemma gloop_none F n bm fields idx bm' :
  0 < fields -> N.of_nat n <= fields -> (forall i b', i < fields -> F bm i = (None, b') -> b' = bm) ->
  gloop F n bm fields idx = (None, bm') ->
  bm' = bm /\
  forall i, i < fields ->
    let idx' := if fields <=? idx then 0 else idx in
    (idx' <= i /\ i < idx' + N.of_nat n) \/ i + fields < idx' + N.of_nat n -> fst (F bm i) = None.
Proof.
  intros Hf Hn HF. revert idx Hn. induction n as [|n IH]; intros idx Hn H; cbn [gloop] in H.
  - inversion H. split; [reflexivity|]. intros i Hi idx' Hc. subst idx'. destruct (fields <=? idx) eqn:E2; lia.
  - set (i0 := if fields <=? idx then 0 else idx) in *.
    assert (Hi0 : i0 < fields) by (subst i0; destruct (fields <=? idx) eqn:E2; lia).
    destruct (F bm i0) as [[r|] bm1] eqn:E; [discriminate|].
    pose proof (HF _ _ Hi0 E). subst bm1. apply IH in H; [|lia]. destruct H as [-> H]. split; [reflexivity|].
    intros i Hi idx' Hc. subst idx'. fold i0 in Hc.
    destruct (N.eq_dec i i0) as [->|Hne]; [rewrite E; reflexivity|].
    apply H; [exact Hi|]. cbv zeta.
    destruct (fields <=? i0 + 1) eqn:E3; lia.
Qed.
Lemma gloop_none_all F bm fields idx bm' :
  0 < fields -> (forall i b', i < fields -> F bm i = (None, b') -> b' = bm) ->
  gloop F (N.to_nat fields) bm fields idx = (None, bm') ->
  bm' = bm /\ forall i, i < fields -> fst (F bm i) = None.
Proof.
  intros Hf HF H. apply gloop_none in H; try assumption; [|lia]. destruct H as [-> H]. split; [reflexivity|].
  intros i Hi. apply H; [exact Hi|]. cbv zeta. rewrite N2Nat.id.
  destruct (fields <=? idx) eqn:E; lia.
Qed.
Lemma gloop_zero_fields F bm idx : gloop F (N.to_nat 0) bm 0 idx = (None, bm).
Proof. reflexivity. Qed.

Lemma field_none_same count bm i bm' : 1 <= count -> count <= 64 -> try_find_claim_field bm i count = (None, bm') -> bm' = bm.
Proof. intros H1 H2 H. apply (try_find_claim_field_spec _ _ _ _ _ H1 H2 H). Qed.

(* ---- mi_bitmap_try_find_claim_field_across ---- *)

Lemma lor_land_wnot v m : v < W64 -> m < W64 -> N.land v m = 0 -> N.land (N.lor v m) (wnot m) = v.
Proof.
  intros Hv Hm Hz. apply eq_of_bits64; [apply land_lt, lor_lt; assumption|exact Hv|]. intros b Hb.
  rewrite N.land_spec, N.lor_spec, wnot_testbit by exact Hm. pose proof (land_zero_bit _ _ b Hz).
  destruct (N.testbit v b), (N.testbit m b); cbn in *; try reflexivity; try discriminate; lia.
Qed.

Lemma claim_mid_spec n bm j r bm' :
  bm_ok bm -> j + N.of_nat n <= nfields bm -> claim_mid n bm j = (r, bm') ->
  let k := match r with None => j + N.of_nat n | Some f => f end in
  length bm' = length bm /\ bm_ok bm' /\ j <= k /\ k <= j + N.of_nat n /\
  (match r with Some f => f < j + N.of_nat n | None => True end) /\
  (forall i, j <= i -> i < k -> getf bm i = 0) /\
  (forall i, getf bm' i = if (j <=? i) && (i <? k) then FULL else getf bm i).
Proof.
  revert bm j. induction n as [|n IH]; intros bm j Hok Hn H; cbn [claim_mid] in H.
  - inversion H; subst. cbv zeta. repeat split; try assumption; try lia. intros i. destruct ((j <=? i) && (i <? j + N.of_nat 0)) eqn:E; [lia|reflexivity].
  - destruct (getf bm j =? 0) eqn:E0.
    + apply IH in H; [|apply setf_ok; [exact Hok|apply FULL_lt]|rewrite nfields_setf; lia].
      cbv zeta in *. destruct H as (L & O & K1 & K2 & K3 & Z & G). rewrite length_setf in L.
      set (k := match r with None => j + 1 + N.of_nat n | Some f => f end) in *.
      assert (Ek : match r with None => j + N.of_nat (S n) | Some f => f end = k) by (subst k; destruct r; lia).
      rewrite Ek. repeat split; try assumption; try lia.
      * destruct r; lia.
      * intros i H1 H2. destruct (N.eq_dec i j) as [->|Hne]; [lia|].
        rewrite <- (Z i) by lia. rewrite getf_setf_other by lia. reflexivity.
      * intros i. rewrite G. destruct (N.eq_dec i j) as [->|Hne].
        -- rewrite getf_setf_same by lia. destruct ((j + 1 <=? j) && (j <? k)) eqn:E1, ((j <=? j) && (j <? k)) eqn:E2; try reflexivity; lia.
        -- rewrite getf_setf_other by lia. destruct ((j + 1 <=? i) && (i <? k)) eqn:E1, ((j <=? i) && (i <? k)) eqn:E2; try reflexivity; lia.
    + inversion H; subst. cbv zeta. repeat split; try assumption; try lia. intros i.
      destruct ((j <=? i) && (i <? j)) eqn:E; [lia|reflexivity].
Qed.

Lemma rollback_mid_spec n bm j :
  bm_ok bm -> N.of_nat n <= j + 1 -> j < nfields bm ->
  length (rollback_mid n bm j) = length bm /\ bm_ok (rollback_mid n bm j) /\
  forall i, getf (rollback_mid n bm j) i = if (j + 1 - N.of_nat n <=? i) && (i <=? j) then 0 else getf bm i.
Proof.
  revert bm j. induction n as [|n IH]; intros bm j Hok Hn Hj; cbn [rollback_mid].
  - repeat split; try assumption. intros i. destruct ((j + 1 - N.of_nat 0 <=? i) && (i <=? j)) eqn:E; [lia|reflexivity].
  - destruct (IH (setf bm j 0) (j - 1)) as (L & O & G); [apply setf_ok; [exact Hok|reflexivity]|lia|rewrite nfields_setf; lia|].
    rewrite length_setf in L. repeat split; try assumption. intros i. rewrite G.
    destruct (N.eq_dec i j) as [->|Hne].
    + rewrite getf_setf_same by exact Hj.
      destruct ((j - 1 + 1 - N.of_nat n <=? j) && (j <=? j - 1)) eqn:E1, ((j + 1 - N.of_nat (S n) <=? j) && (j <=? j)) eqn:E2; try reflexivity; lia.
    + rewrite getf_setf_other by lia.
      destruct ((j - 1 + 1 - N.of_nat n <=? i) && (i <=? j - 1)) eqn:E1, ((j + 1 - N.of_nat (S n) <=? i) && (i <=? j)) eqn:E2; try reflexivity; lia.
Qed.

(* the rollback restores the bitmap exactly *)
Lemma rollback_restores bm bm2 idx f v imask :
  bm_ok bm -> bm_ok bm2 -> length bm2 = length bm -> idx < f -> f <= nfields bm -> imask < W64 ->
  v = getf bm idx -> N.land v imask = 0 ->
  (forall i, idx + 1 <= i -> i < f -> getf bm i = 0) ->
  (forall i, getf bm2 i = if i =? idx then N.lor v imask else if (idx + 1 <=? i) && (i <? f) then FULL else getf bm i) ->
  rollback bm2 idx f imask = bm.
Proof.
  intros Hok Hok2 Hl Hif Hf Hm Hv Hz Z G. unfold rollback.
  assert (E : (f =? idx) = false) by lia. rewrite E.
  assert (Hnf : nfields bm2 = nfields bm) by (unfold nfields; rewrite Hl; reflexivity).
  destruct (rollback_mid_spec (N.to_nat (f - 1 - idx)) bm2 (f - 1)) as (L3 & O3 & G3); [exact Hok2|lia|lia|].
  set (bm3 := rollback_mid (N.to_nat (f - 1 - idx)) bm2 (f - 1)) in *.
  apply bm_ext; [rewrite length_setf; congruence|]. intros i Hi.
  rewrite nfields_setf in Hi.
  assert (Hnf3 : nfields bm3 = nfields bm) by (unfold nfields; rewrite L3, Hl; reflexivity).
  rewrite getf_setf by lia.
  assert (G3' : forall i, getf bm3 i = if (idx + 1 <=? i) && (i <? f) then 0 else getf bm2 i).
  { intros k. rewrite G3. destruct ((f - 1 + 1 - N.of_nat (N.to_nat (f - 1 - idx)) <=? k) && (k <=? f - 1)) eqn:E1,
      ((idx + 1 <=? k) && (k <? f)) eqn:E2; try reflexivity; lia. }
  destruct (i =? idx) eqn:Ei.
  - assert (i = idx) by lia. subst i. rewrite G3'. assert (E1 : (idx + 1 <=? idx) && (idx <? f) = false) by lia. rewrite E1.
    rewrite G, N.eqb_refl. rewrite lor_land_wnot; try assumption. subst v. apply getf_lt, Hok.
  - rewrite G3', G, Ei. destruct ((idx + 1 <=? i) && (i <? f)) eqn:E1; [|reflexivity]. symmetry. apply Z; lia.
Qed.

Lemma claim_range_spec bm idx final initial mb ok bm' :
  bm_ok bm -> idx < final -> final < nfields bm -> 1 <= initial -> initial <= 64 -> 1 <= mb -> mb <= 64 ->
  claim_range bm idx final (mask_ initial (64 - initial)) (mask_ mb 0) = (ok, bm') ->
  if ok then set_range bm bm' (64 * idx + (64 - initial)) (initial + 64 * (final - idx - 1) + mb) else bm' = bm.
Proof.
  intros Hok Hif Hf Hi1 Hi2 Hm1 Hm2 H. unfold claim_range in H.
  set (imask := mask_ initial (64 - initial)) in *. set (fmask := mask_ mb 0) in *.
  set (v := getf bm idx) in *.
  destruct (N.land v imask =? 0) eqn:Ez; cbn [negb] in H.
  2:{ inversion H; subst. unfold rollback. rewrite N.eqb_refl. reflexivity. }
  assert (Hz : N.land v imask = 0) by lia.
  assert (Hv : v < W64) by (apply getf_lt, Hok).
  set (bm1 := setf bm idx (N.lor v imask)) in *.
  assert (Hok1 : bm_ok bm1) by (apply setf_ok; [exact Hok|apply lor_lt; [exact Hv|apply mask_lt]]).
  destruct (claim_mid (N.to_nat (final - idx - 1)) bm1 (idx + 1)) as [r bm2] eqn:Em.
  apply claim_mid_spec in Em; [|exact Hok1|subst bm1; rewrite nfields_setf; lia].
  cbv zeta in Em. destruct Em as (L2 & O2 & K1 & K2 & K3 & Z2 & G2).
  subst bm1. rewrite length_setf in L2.
  assert (G1 : forall i, getf (setf bm idx (N.lor v imask)) i = if i =? idx then N.lor v imask else getf bm i)
    by (intros i; apply getf_setf; lia).
  assert (RB : forall f, idx < f -> f <= final ->
             (forall i, idx + 1 <= i -> i < f -> getf bm i = 0) ->
             (forall i, getf bm2 i = if (idx + 1 <=? i) && (i <? f) then FULL else getf (setf bm idx (N.lor v imask)) i) ->
             rollback bm2 idx f imask = bm).
  { intros f F1 F2 Zf Gf. apply rollback_restores with (v := v); try assumption; try reflexivity; try lia; [apply mask_lt|].
    intros i. rewrite Gf, G1. destruct (i =? idx) eqn:E1; [|reflexivity].
    destruct ((idx + 1 <=? i) && (i <? f)) eqn:E2; [lia|reflexivity]. }
  destruct r as [f|].
  - (* an intermediate CAS failed *)
    inversion H; subst. apply RB; try lia; [|exact G2].
    intros i A1 A2. rewrite <- (Z2 i) by lia. rewrite G1. assert ((i =? idx) = false) by lia. rewrite H0. reflexivity.
  - replace (idx + 1 + N.of_nat (N.to_nat (final - idx - 1))) with final in * by lia.
    assert (Zb : forall i, idx + 1 <= i -> i < final -> getf bm i = 0).
    { intros i A1 A2. rewrite <- (Z2 i) by lia. rewrite G1. assert ((i =? idx) = false) by lia. rewrite H0. reflexivity. }
    set (v2 := getf bm2 final) in *.
    assert (Hv2 : v2 = getf bm final).
    { subst v2. rewrite G2, G1. assert (E1 : (idx + 1 <=? final) && (final <? final) = false) by lia.
      assert (E2 : (final =? idx) = false) by lia. rewrite E1, E2. reflexivity. }
    destruct (N.land v2 fmask =? 0) eqn:Ez2; cbn [negb] in H.
    2:{ inversion H; subst. apply RB; try lia; [exact Zb|exact G2]. }
    inversion H; subst ok bm'. clear H.
    assert (Hz2 : N.land v2 fmask = 0) by lia.
    assert (Hnf2 : nfields bm2 = nfields bm) by (unfold nfields; rewrite L2; reflexivity).
    split; [rewrite length_setf; exact L2|]. split.
    + apply setf_ok; [exact O2|]. apply lor_lt; [subst v2; apply getf_lt, O2|apply mask_lt].
    + intros i b Hi Hb. rewrite getf_setf by lia. unfold in_rng. cbn [fst snd].
      pose proof (land_zero_bit _ _ b Hz) as Hzb. pose proof (land_zero_bit _ _ b Hz2) as Hzb2.
      subst imask fmask. rewrite mask_testbit in Hzb, Hzb2 by lia.
      destruct (i =? final) eqn:E1.
      * assert (i = final) by lia. subst i. rewrite N.lor_spec, mask_testbit by lia. rewrite <- Hv2. split; [|intros Hin]; lia.
      * rewrite G2, G1. destruct ((idx + 1 <=? i) && (i <? final)) eqn:E2.
        -- rewrite (Zb i) by lia. rewrite FULL_testbit, N.bits_0. split; [|intros Hin]; lia.
        -- destruct (i =? idx) eqn:E3.
           ++ assert (i = idx) by lia. subst i. rewrite N.lor_spec, mask_testbit by lia. fold v. split; [|intros Hin]; lia.
           ++ split; [|intros Hin]; lia.
Qed.

Lemma scan_ahead_spec fuel bm idx initial j found count final fmask :
  idx < j -> found = initial + 64 * (j - idx - 1) -> found < count ->
  scan_ahead fuel bm j found count = Some (final, fmask) ->
  j <= final /\
  let mb := count - (initial + 64 * (final - idx - 1)) in
  1 <= mb /\ mb <= 64 /\ initial + 64 * (final - idx - 1) < count /\ fmask = mask_ mb 0.
Proof.
  revert j found. induction fuel as [|fuel IH]; intros j found Hj Hf Hc H; cbn [scan_ahead] in H; [discriminate|].
  set (mask_bits := if found + 64 <=? count then 64 else count - found) in *.
  destruct (N.land (getf bm j) (mask_ mask_bits 0) =? 0); cbn [negb] in H; [|discriminate].
  destruct (found + mask_bits <? count) eqn:E.
  - apply IH in H; try lia.
    + destruct H as [H1 H2]. split; [lia|exact H2].
    + subst mask_bits. destruct (found + 64 <=? count) eqn:E2; lia.
  - inversion H; subst final fmask. split; [lia|]. cbv zeta. subst mask_bits.
    destruct (found + 64 <=? count) eqn:E2.
    + assert (count - (initial + 64 * (j - idx - 1)) = 64) by lia. rewrite H0. repeat split; lia.
    + assert (count - (initial + 64 * (j - idx - 1)) = count - found) by lia. rewrite H0. repeat split; lia.
Qed.

Lemma across_field_spec tries bm fields idx count retries r bm' :
  bm_ok bm -> nfields bm = fields -> idx < fields -> 1 <= count -> count + 64 < W64 ->
  try_find_claim_field_across tries bm fields idx count retries = (r, bm') ->
  match r with
  | Some x => 64 * idx <= x /\ x < 64 * idx + 64 /\ x + count <= 64 * fields /\ set_range bm bm' x count
  | None => bm' = bm
  end.
Proof.
  intros Hok Hnf Hidx H1 HW. revert retries. induction tries as [|tries IH]; intros retries H; cbn [try_find_claim_field_across] in H.
  all: set (initial := clz (getf bm idx)) in *;
    (destruct (initial =? 0) eqn:E0; [inversion H; reflexivity|]);
    (destruct (count <=? initial) eqn:E1;
     [ pose proof (clz_le64 (getf bm idx)) as Hcl; fold initial in Hcl;
       pose proof (try_find_claim_field_spec _ _ _ _ _ H1 ltac:(lia) H) as Hs;
       destruct r as [x|]; [|exact Hs];
       destruct Hs as (bit & -> & Hb & Hz & ->);
       (split; [lia|]); (split; [lia|]); (split; [lia|]);
       apply set_field_range; try assumption; try reflexivity; lia |]);
    (destruct (fields - idx <=? divide_up (count - initial) 64) eqn:E2; [inversion H; reflexivity|]);
    rewrite divide_up_64 in E2 by lia;
    (destruct (scan_ahead (N.to_nat fields) bm (idx + 1) initial count) as [[final fmask]|] eqn:Es; [|inversion H; reflexivity]);
    pose proof (clz_le64 (getf bm idx)) as Hcl; fold initial in Hcl;
    apply (scan_ahead_spec _ _ idx initial) in Es; try lia;
    destruct Es as (F1 & F2 & F3 & F4 & F5); subst fmask;
    set (mb := count - (initial + 64 * (final - idx - 1))) in *;
    (destruct (claim_range bm idx final (mask_ initial (64 - initial)) (mask_ mb 0)) as [ok bm1] eqn:Ec);
    apply (claim_range_spec _ _ _ initial mb) in Ec; try assumption; try lia.
  (* tries = 0 *)
  - destruct ok.
    + assert (Hr : r = Some (index_create idx (64 - initial))) by congruence.
      assert (Hb : bm' = bm1) by congruence. subst r bm'. unfold index_create.
      replace (initial + 64 * (final - idx - 1) + mb) with count in Ec by lia.
      replace (idx * 64 + (64 - initial)) with (64 * idx + (64 - initial)) by lia.
      split; [lia|]. split; [lia|]. split; [lia|]. exact Ec.
    + subst bm1. destruct (retries <=? 2); inversion H; reflexivity.
  - destruct ok.
    + assert (Hr : r = Some (index_create idx (64 - initial))) by congruence.
      assert (Hb : bm' = bm1) by congruence. subst r bm'. unfold index_create.
      replace (initial + 64 * (final - idx - 1) + mb) with count in Ec by lia.
      replace (idx * 64 + (64 - initial)) with (64 * idx + (64 - initial)) by lia.
      split; [lia|]. split; [lia|]. split; [lia|]. exact Ec.
    + subst bm1. destruct (retries <=? 2); [apply IH in H; exact H|inversion H; reflexivity].
Qed.

(* ---- _mi_bitmap_try_find_from_claim_across: the specification of a call ---- *)

(* exactly the `count` bits from x, all clear before, are set; nothing else changes; inside the bitmap *)
Definition claim_post (bm bm' : list N) (fields x count : N) : Prop :=
  x + count <= 64 * fields /\ length bm' = length bm /\ bm_ok bm' /\
  forall p, p < 64 * fields ->
    bm_bit bm' p = bm_bit bm p || in_rng (x, x + count) p /\
    (in_rng (x, x + count) p = true -> bm_bit bm p = false).

Lemma set_range_post bm bm' fields x count :
  nfields bm = fields -> x + count <= 64 * fields -> set_range bm bm' x count -> claim_post bm bm' fields x count.
Proof.
  intros Hnf Hx (L & O & B). repeat split; try assumption.
  - destruct (flat_split p) as [E Hb]. rewrite E at 1 2. rewrite !bm_bit_ib by exact Hb.
    rewrite (proj1 (B (p / 64) (p mod 64) ltac:(lia) Hb)). rewrite <- E. reflexivity.
  - intros Hin. destruct (flat_split p) as [E Hb]. rewrite E at 1. rewrite bm_bit_ib by exact Hb.
    apply (proj2 (B (p / 64) (p mod 64) ltac:(lia) Hb)). rewrite <- E. exact Hin.
Qed.

Lemma small_field_F bm fields count i b' :
  1 <= count -> count <= 64 -> i < fields -> try_find_claim_field bm i count = (None, b') -> b' = bm.
Proof. intros H1 H2 _ H. apply (field_none_same _ _ _ _ H1 H2 H). Qed.
Lemma across_field_F bm fields count i b' :
  bm_ok bm -> nfields bm = fields -> 1 <= count -> count + 64 < W64 -> i < fields ->
  try_find_claim_field_across ACROSS_TRIES bm fields i count 0 = (None, b') -> b' = bm.
Proof. intros Hok Hnf H1 HW Hi H. apply (across_field_spec _ _ _ _ _ _ _ _ Hok Hnf Hi H1 HW H). Qed.

Theorem claim_across_success bm fields start count x bm' :
  bm_ok bm -> nfields bm = fields -> 1 <= count -> count + 64 < W64 ->
  try_find_from_claim_across bm fields start count = (Some x, bm') ->
  claim_post bm bm' fields x count.
Proof.
  intros Hok Hnf H1 HW H. unfold try_find_from_claim_across in H.
  destruct (N.eq_dec fields 0) as [->|Hf0].
  { destruct (count <=? 2); cbn in H; discriminate. }
  destruct (count <=? 2) eqn:E2.
  - unfold try_find_from_claim in H. rewrite find_from_loop_gloop in H.
    apply gloop_some in H; [|lia|intros i b' Hi; apply small_field_F with (fields := fields); lia].
    destruct H as (i & Hi & H). apply try_find_claim_field_spec in H; try lia.
    destruct H as (bit & -> & Hb & Hz & ->).
    apply set_range_post; [exact Hnf|lia|]. apply set_field_range; try assumption; try reflexivity; lia.
  - rewrite find_from_across_loop_gloop in H.
    apply gloop_some in H; [|lia|intros i b' Hi; apply across_field_F; assumption].
    destruct H as (i & Hi & H). apply across_field_spec in H; try assumption.
    destruct H as (A1 & A2 & A3 & A4). apply set_range_post; assumption.
Qed.

Theorem claim_across_failure bm fields start count bm' :
  bm_ok bm -> nfields bm = fields -> 1 <= count -> count + 64 < W64 ->
  try_find_from_claim_across bm fields start count = (None, bm') -> bm' = bm.
Proof.
  intros Hok Hnf H1 HW H. unfold try_find_from_claim_across in H.
  destruct (N.eq_dec fields 0) as [->|Hf0].
  { destruct (count <=? 2); cbn in H; inversion H; reflexivity. }
  destruct (count <=? 2) eqn:E2.
  - unfold try_find_from_claim in H. rewrite find_from_loop_gloop in H.
    apply gloop_none_all in H; [|lia|intros i b' Hi; apply small_field_F with (fields := fields); lia]. apply H.
  - rewrite find_from_across_loop_gloop in H.
    apply gloop_none_all in H; [|lia|intros i b' Hi; apply across_field_F; assumption]. apply H.
Qed.

(* ---- _mi_bitmap_unclaim_across ---- *)

Lemma wnot_FULL : wnot FULL = 0.
Proof. reflexivity. Qed.

Lemma unclaim_mid_spec n bm j a a' bm' :
  bm_ok bm -> j + N.of_nat n <= nfields bm -> unclaim_mid n bm j FULL a = (a', bm') ->
  length bm' = length bm /\ bm_ok bm' /\
  (forall i, getf bm' i = if (j <=? i) && (i <? j + N.of_nat n) then 0 else getf bm i) /\
  ((forall i, j <= i -> i < j + N.of_nat n -> getf bm i = FULL) -> a' = a).
Proof.
  revert bm j a. induction n as [|n IH]; intros bm j a Hok Hn H; cbn [unclaim_mid] in H.
  - inversion H; subst. repeat split; try assumption. intros i. destruct ((j <=? i) && (i <? j + N.of_nat 0)) eqn:E; [lia|reflexivity].
  - rewrite wnot_FULL, N.land_0_r in H.
    apply IH in H; [|apply setf_ok; [exact Hok|reflexivity]|rewrite nfields_setf; lia].
    destruct H as (L & O & G & A). rewrite length_setf in L. repeat split; try assumption.
    + intros i. rewrite G. destruct (N.eq_dec i j) as [->|Hne].
      * rewrite getf_setf_same by lia.
        destruct ((j + 1 <=? j) && (j <? j + 1 + N.of_nat n)) eqn:E1, ((j <=? j) && (j <? j + N.of_nat (S n))) eqn:E2; try reflexivity; lia.
      * rewrite getf_setf_other by lia.
        destruct ((j + 1 <=? i) && (i <? j + 1 + N.of_nat n)) eqn:E1, ((j <=? i) && (i <? j + N.of_nat (S n))) eqn:E2; try reflexivity; lia.
    + intros Hfull. rewrite A.
      * rewrite (Hfull j) by lia. change (N.land FULL FULL) with FULL. rewrite N.eqb_refl, andb_true_r. reflexivity.
      * intros i I1 I2. rewrite getf_setf_other by lia. apply Hfull; lia.
Qed.

Theorem unclaim_across_spec bm fields count x a bm' :
  bm_ok bm -> nfields bm = fields -> 1 <= count -> x + count <= 64 * fields ->
  unclaim_across bm fields count x = (a, bm') ->
  length bm' = length bm /\ bm_ok bm' /\
  (forall i b, i < fields -> b < 64 ->
     N.testbit (getf bm' i) b = N.testbit (getf bm i) b && negb (in_rng (x, x + count) (64 * i + b))) /\
  ((forall i b, i < fields -> b < 64 -> in_rng (x, x + count) (64 * i + b) = true -> N.testbit (getf bm i) b = true) -> a = true).
Proof.
  intros Hok Hnf H1 Hx H. unfold unclaim_across, mask_across, index_field, index_bit_in_field in H.
  set (idx := x / 64) in *. set (bit := x mod 64) in *.
  assert (Hxe : x = 64 * idx + bit) by (subst idx bit; lia).
  assert (Hbit : bit < 64) by (subst bit; lia).
  destruct (bit + count <=? 64) eqn:Ec.
  - (* inside one field *)
    cbn [unclaim_mid N.to_nat] in H. cbn [N.eqb negb] in H. inversion H; subst a bm'. clear H.
    assert (Hidx : idx < fields) by lia.
    split; [apply length_setf|]. split; [apply setf_ok; [exact Hok|apply land_lt, getf_lt, Hok]|]. split.
    + intros i b Hi Hb. rewrite getf_setf by lia. unfold in_rng. cbn [fst snd]. destruct (i =? idx) eqn:E.
      * assert (i = idx) by lia. subst i. rewrite N.land_spec, wnot_testbit by apply mask_lt. rewrite mask_testbit by lia. lia.
      * lia.
    + intros Hall. apply N.eqb_eq. apply land_eq_of_bits. intros b Hm. rewrite mask_testbit in Hm by lia.
      apply Hall; try lia. unfold in_rng. cbn [fst snd]. lia.
  - set (c' := count - (64 - bit)) in *. set (midc := c' / 64) in *. set (pc := c' mod 64) in *.
    assert (Hc' : c' = 64 * midc + pc) by (subst midc pc; lia).
    assert (Hpc : pc < 64) by (subst pc; lia).
    set (v := getf bm idx) in *.
    set (bm1 := setf bm idx (N.land v (wnot (mask_ (64 - bit) bit)))) in *.
    assert (Hidx : idx + 1 + midc + (if pc =? 0 then 0 else 1) <= fields) by (destruct (pc =? 0) eqn:E; lia).
    assert (Hok1 : bm_ok bm1) by (apply setf_ok; [exact Hok|apply land_lt, getf_lt, Hok]).
    destruct (unclaim_mid (N.to_nat midc) bm1 (idx + 1) FULL (N.land v (mask_ (64 - bit) bit) =? mask_ (64 - bit) bit)) as [a2 bm2] eqn:Em.
    apply unclaim_mid_spec in Em; [|exact Hok1|subst bm1; rewrite nfields_setf; lia].
    destruct Em as (L2 & O2 & G2 & A2). subst bm1. rewrite length_setf in L2. rewrite N2Nat.id in *.
    assert (G1 : forall i, getf (setf bm idx (N.land v (wnot (mask_ (64 - bit) bit)))) i
                           = if i =? idx then N.land v (wnot (mask_ (64 - bit) bit)) else getf bm i)
      by (intros i; apply getf_setf; lia).
    assert (Hpre : forall b, b < 64 -> N.testbit (N.land v (wnot (mask_ (64 - bit) bit))) b = N.testbit v b && negb (bit <=? b)).
    { intros b Hb. rewrite N.land_spec, wnot_testbit by apply mask_lt. rewrite mask_testbit by lia. lia. }
    assert (A1 : (forall i b, i < fields -> b < 64 -> in_rng (x, x + count) (64 * i + b) = true -> N.testbit (getf bm i) b = true) ->
                 (N.land v (mask_ (64 - bit) bit) =? mask_ (64 - bit) bit) = true).
    { intros Hall. apply N.eqb_eq. apply land_eq_of_bits. intros b Hm. rewrite mask_testbit in Hm by lia.
      apply Hall; try lia. unfold in_rng. cbn [fst snd]. lia. }
    assert (A2' : (forall i b, i < fields -> b < 64 -> in_rng (x, x + count) (64 * i + b) = true -> N.testbit (getf bm i) b = true) ->
                  a2 = true).
    { intros Hall. rewrite A2; [apply A1, Hall|]. intros i I1 I2. rewrite G1. assert (E : (i =? idx) = false) by lia. rewrite E.
      apply eq_of_bits64; [apply getf_lt, Hok|apply FULL_lt|]. intros b Hb. rewrite FULL_testbit.
      rewrite Hall; try lia. unfold in_rng. cbn [fst snd]. lia. }
    destruct (pc =? 0) eqn:Ep.
    + cbn [N.eqb negb] in H. inversion H; subst a bm'. clear H.
      split; [exact L2|]. split; [exact O2|]. split; [|exact A2'].
      intros i b Hi Hb. rewrite G2, G1. unfold in_rng. cbn [fst snd].
      destruct ((idx + 1 <=? i) && (i <? idx + 1 + midc)) eqn:E1.
      * rewrite N.bits_0. lia.
      * destruct (i =? idx) eqn:E2; [assert (i = idx) by lia; subst i; rewrite Hpre by exact Hb; fold v; lia|lia].
    + assert (Hnz : mask_ pc 0 <> 0) by (apply mask_nonzero; lia).
      assert (En : negb (mask_ pc 0 =? 0) = true) by lia. rewrite En in H.
      inversion H; subst a bm'. clear H.
      assert (Hnf2 : nfields bm2 = fields) by (unfold nfields in *; rewrite L2; exact Hnf).
      assert (Hv3 : getf bm2 (idx + 1 + midc) = getf bm (idx + 1 + midc)).
      { rewrite G2, G1. assert (E1 : (idx + 1 <=? idx + 1 + midc) && (idx + 1 + midc <? idx + 1 + midc) = false) by lia.
        assert (E2 : (idx + 1 + midc =? idx) = false) by lia. rewrite E1, E2. reflexivity. }
      remember (idx + 1 + midc) as j eqn:Ej.
      split; [rewrite length_setf; exact L2|]. split; [apply setf_ok; [exact O2|apply land_lt, getf_lt, O2]|]. split.
      * intros i b Hi Hb. rewrite getf_setf by lia. unfold in_rng. cbn [fst snd]. destruct (i =? j) eqn:E0.
        -- assert (i = j) by lia. subst i. rewrite N.land_spec, wnot_testbit by apply mask_lt. rewrite mask_testbit by lia.
           rewrite Hv3. lia.
        -- subst j. rewrite G2, G1. destruct ((idx + 1 <=? i) && (i <? idx + 1 + midc)) eqn:E1.
           ++ rewrite N.bits_0. lia.
           ++ destruct (i =? idx) eqn:E2; [assert (i = idx) by lia; subst i; rewrite Hpre by exact Hb; fold v; lia|lia].
      * intros Hall. rewrite (A2' Hall). cbn [andb]. apply N.eqb_eq. apply land_eq_of_bits. intros b Hm.
        rewrite mask_testbit in Hm by lia. rewrite Hv3. apply Hall; try lia. unfold in_rng. cbn [fst snd]. lia.
Qed.

(* free_all_restores: releasing a successful claim gives back exactly the previous bitmap *)
Theorem free_all_restores bm fields start count x bm' :
  bm_ok bm -> nfields bm = fields -> 1 <= count -> count + 64 < W64 ->
  try_find_from_claim_across bm fields start count = (Some x, bm') ->
  unclaim_across bm' fields count x = (true, bm).
Proof.
  intros Hok Hnf H1 HW H. apply claim_across_success in H; try assumption.
  destruct H as (Hx & L & O & B).
  assert (Hnf' : nfields bm' = fields) by (unfold nfields in *; rewrite L; exact Hnf).
  destruct (unclaim_across bm' fields count x) as [a bm2] eqn:Eu.
  apply unclaim_across_spec in Eu; try assumption. destruct Eu as (L2 & O2 & B2 & A2).
  assert (Hbits : forall i b, i < fields -> b < 64 ->
            N.testbit (getf bm' i) b = N.testbit (getf bm i) b || in_rng (x, x + count) (64 * i + b) /\
            (in_rng (x, x + count) (64 * i + b) = true -> N.testbit (getf bm i) b = false)).
  { intros i b Hi Hb. specialize (B (64 * i + b) ltac:(lia)). rewrite !bm_bit_ib in B by exact Hb. exact B. }
  f_equal.
  - apply A2. intros i b Hi Hb Hin. rewrite (proj1 (Hbits i b Hi Hb)), Hin. apply orb_true_r.
  - apply bm_ext; [congruence|]. intros i Hi.
    assert (Hi' : i < fields) by (unfold nfields in *; rewrite L2, L in Hi; rewrite <- Hnf; exact Hi).
    apply eq_of_bits64; [apply getf_lt, O2|apply getf_lt, Hok|]. intros b Hb.
    rewrite B2 by assumption. destruct (Hbits i b Hi' Hb) as [E1 E2]. rewrite E1.
    destruct (in_rng (x, x + count) (64 * i + b)) eqn:Ein.
    + rewrite (E2 eq_refl). reflexivity.
    + rewrite orb_false_r, andb_true_r. reflexivity.
Qed.

(* ---- completeness of the single-field claim (hence of all claims of at most 2 bits) ---- *)

Lemma ctz_pos_spec p :
  N.testbit (Npos p) (ctz_pos p) = true /\ forall b, b < ctz_pos p -> N.testbit (Npos p) b = false.
Proof.
  induction p as [q IH|q IH|]; cbn [ctz_pos].
  - split; [reflexivity|]. intros b Hb. lia.
  - destruct IH as [I1 I2]. change (N.pos q~0) with (2 * N.pos q). split.
    + rewrite N.testbit_even_succ by lia. exact I1.
    + intros b Hb. destruct (N.eq_dec b 0) as [->|Hne]; [apply N.testbit_even_0|].
      replace b with (N.succ (N.pred b)) by lia. rewrite N.testbit_even_succ by lia. apply I2. lia.
  - split; [reflexivity|]. intros b Hb. lia.
Qed.

Lemma ctz_spec x : x <> 0 -> x < W64 ->
  ctz x < 64 /\ N.testbit x (ctz x) = true /\ forall b, b < ctz x -> N.testbit x b = false.
Proof.
  intros Hne Hx. destruct x as [|p]; [congruence|]. cbn [ctz]. destruct (ctz_pos_spec p) as [I1 I2].
  split; [|split; assumption].
  destruct (N.lt_ge_cases (ctz_pos p) 64) as [H|H]; [exact H|].
  rewrite testbit_lt_W64_high in I1 by assumption. discriminate.
Qed.

(* position b is a free run of `count` bits inside the field `map` *)
Definition free_at (map count b : N) : Prop := b + count <= 64 /\ N.land map (mask_ count b) = 0.

Lemma free_at_bits map count b : b + count <= 64 ->
  (N.land map (mask_ count b) = 0 <-> forall k, b <= k -> k < b + count -> N.testbit map k = false).
Proof.
  intros Hb. split.
  - intros Hz k K1 K2. pose proof (land_zero_bit _ _ k Hz) as H. rewrite mask_testbit in H by exact Hb.
    destruct (N.testbit map k); [|reflexivity]. lia.
  - intros H. apply land_zero_of_bits. intros k. rewrite mask_testbit by exact Hb.
    destruct ((b <=? k) && (k <? b + count)) eqn:E; [|apply andb_false_r]. rewrite H by lia. reflexivity.
Qed.

Lemma scan_field_complete fuel count map bitidx m :
  1 <= count -> count <= 64 -> map < W64 -> m = wrap (N.shiftl (mask_ count 0) bitidx) ->
  65 - bitidx <= N.of_nat fuel ->
  (forall b, b < bitidx -> ~ free_at map count b) ->
  scan_field fuel count map bitidx m = None -> forall b, ~ free_at map count b.
Proof.
  intros H1 H64 Hmap. revert bitidx m. induction fuel as [|fuel IH]; intros bitidx m Hm Hfuel Hbelow H b [B1 B2].
  - apply (Hbelow b); [lia|split; assumption].
  - cbn [scan_field] in H. destruct (bitidx <=? 64 - count) eqn:Eb.
    2:{ apply (Hbelow b); [lia|split; assumption]. }
    assert (Hmm : m = mask_ count bitidx) by (rewrite Hm; apply wrap_shiftl_mask; lia).
    destruct (N.land map m =? 0) eqn:Ez; [discriminate|].
    set (mapm := N.land map m) in *.
    assert (Hnz : mapm <> 0) by lia.
    (* the highest set bit of mapm lies in the window and is set in map *)
    set (h := N.log2 mapm).
    assert (Hh : N.testbit mapm h = true) by (apply N.bit_log2, Hnz).
    unfold mapm in Hh. rewrite N.land_spec in Hh. apply andb_prop in Hh as [Hh1 Hh2].
    rewrite Hmm, mask_testbit in Hh2 by lia.
    assert (Hclz : 64 - clz mapm = h + 1).
    { unfold clz. assert (E : (mapm =? 0) = false) by lia. rewrite E. fold h.
      assert (mapm < W64) by (apply land_lt, Hmap).
      assert (h < 64) by (apply N.log2_lt_pow2; [lia|exact H0]). lia. }
    set (shift := if count =? 1 then 1 else 64 - clz mapm - bitidx) in *.
    assert (Hshift : 1 <= shift /\ bitidx + shift <= h + 1) by (subst shift; destruct (count =? 1) eqn:E1; lia).
    eapply (IH (bitidx + shift) _ _ _ _ H b); [split; assumption].
    Unshelve.
    + rewrite Hm. apply wrap_shiftl_shiftl.
    + lia.
    + intros b' Hb' [C1 C2]. destruct (N.lt_ge_cases b' bitidx) as [Hlt|Hge]; [apply (Hbelow b' Hlt); split; assumption|].
      (* the window at b' contains the set bit h *)
      rewrite free_at_bits in C2 by exact C1. rewrite (C2 h) in Hh1 by lia. discriminate.
Qed.

Theorem claim_field_complete bm idx count bm' :
  bm_ok bm -> 1 <= count -> count <= 64 ->
  try_find_claim_field bm idx count = (None, bm') -> forall b, ~ free_at (getf bm idx) count b.
Proof.
  intros Hok H1 H64 H. unfold try_find_claim_field in H.
  set (map := getf bm idx) in *. assert (Hmap : map < W64) by (apply getf_lt, Hok).
  destruct (map =? FULL) eqn:Ef.
  - intros b [B1 B2]. assert (map = FULL) by lia. rewrite free_at_bits in B2 by exact B1.
    specialize (B2 b ltac:(lia) ltac:(lia)). rewrite H0, FULL_testbit in B2. lia.
  - destruct (scan_field _ _ _ _ _) as [[b0 m0]|] eqn:E; [discriminate|].
    assert (Hnz : wnot map <> 0).
    { intros Hz. apply Bool.not_true_iff_false in Ef. apply Ef. apply N.eqb_eq.
      apply eq_of_bits64; [exact Hmap|apply FULL_lt|]. intros b Hb. rewrite FULL_testbit.
      assert (Hw : N.testbit (wnot map) b = false) by (rewrite Hz; apply N.bits_0).
      rewrite wnot_testbit in Hw by exact Hmap. destruct (N.testbit map b); lia. }
    destruct (ctz_spec (wnot map) Hnz (wnot_lt _ Hmap)) as (C1 & C2 & C3).
    eapply scan_field_complete; try eassumption; try reflexivity.
    + unfold SCAN_FUEL. lia.
    + intros b Hb [B1 B2]. rewrite free_at_bits in B2 by exact B1.
      specialize (C3 b Hb). rewrite wnot_testbit in C3 by exact Hmap.
      rewrite (B2 b) in C3 by lia. cbn in C3. lia.
Qed.

(* a claim of at most 2 bits succeeds exactly when some field contains a free run of that length *)
Theorem small_claim_complete bm fields start count :
  bm_ok bm -> nfields bm = fields -> 1 <= count -> count <= 2 ->
  (exists x bm', try_find_from_claim_across bm fields start count = (Some x, bm')) <->
  (exists i b, i < fields /\ free_at (getf bm i) count b).
Proof.
  intros Hok Hnf H1 H2. unfold try_find_from_claim_across. assert (E : (count <=? 2) = true) by lia. rewrite E.
  unfold try_find_from_claim. rewrite find_from_loop_gloop. split.
  - intros (x & bm' & H). destruct (N.eq_dec fields 0) as [->|Hf0]; [cbn in H; discriminate|].
    apply gloop_some in H; [|lia|intros i b' Hi; apply small_field_F with (fields := fields); lia].
    destruct H as (i & Hi & H). apply try_find_claim_field_spec in H; try lia.
    destruct H as (bit & _ & Hb & Hz & _). exists i, bit. split; [exact Hi|split; assumption].
  - intros (i & b & Hi & Hfree).
    destruct (gloop _ (N.to_nat fields) bm fields start) as [[x|] bm'] eqn:G; [exists x, bm'; reflexivity|].
    exfalso. apply gloop_none_all in G; [|lia|intros j b' Hj; apply small_field_F with (fields := fields); lia].
    destruct G as [_ G]. specialize (G i Hi). cbv beta in G.
    destruct (try_find_claim_field bm i count) as [r bm1] eqn:Et. cbn [fst] in G. subst r.
    pose proof (claim_field_complete _ _ _ _ Hok H1 ltac:(lia) Et) as Hcf. exact (Hcf b Hfree).
Qed.

(* ---- the limitation of claims of more than 2 bits: nothing starts in a field whose top bit is set ---- *)

Lemma across_field_top_bit tries bm fields idx count retries :
  bm_ok bm -> N.testbit (getf bm idx) 63 = true ->
  try_find_claim_field_across tries bm fields idx count retries = (None, bm).
Proof.
  intros Hok Ht. assert (E : clz (getf bm idx) = 0) by (apply top_clz_zero; [exact Ht|apply getf_lt, Hok]).
  destruct tries; cbn [try_find_claim_field_across]; rewrite E; reflexivity.
Qed.

Theorem multiblock_top_bit bm fields start count :
  bm_ok bm -> 2 < count -> (forall i, i < fields -> N.testbit (getf bm i) 63 = true) ->
  try_find_from_claim_across bm fields start count = (None, bm).
Proof.
  intros Hok Hc Htop. unfold try_find_from_claim_across. assert (E : (count <=? 2) = false) by lia. rewrite E.
  destruct (N.eq_dec fields 0) as [->|Hf0]; [reflexivity|].
  generalize start. induction (N.to_nat fields) as [|n IH]; intros st; cbn [find_from_across_loop]; [reflexivity|].
  rewrite across_field_top_bit; [apply IH|exact Hok|].
  apply Htop. destruct (fields <=? st) eqn:Es; lia.
Qed.

(* ---- unit claims fill the bitmap ---- *)

Lemma count_below_zero n f : count_below n f = 0 <-> forall k, (k < n)%nat -> f (N.of_nat k) = false.
Proof.
  induction n as [|n IH]; cbn [count_below].
  - split; [intros _ k Hk; lia|reflexivity].
  - split.
    + intros H k Hk. destruct (f (N.of_nat n)) eqn:E; [lia|].
      destruct (Nat.eq_dec k n) as [->|Hne]; [exact E|]. apply IH; lia.
    + intros H. rewrite (H n) by lia. rewrite (proj2 IH); [reflexivity|]. intros k Hk. apply H. lia.
Qed.
Lemma count_below_pos n f : 0 < count_below n f -> exists k, (k < n)%nat /\ f (N.of_nat k) = true.
Proof.
  induction n as [|n IH]; cbn [count_below]; intros H; [lia|].
  destruct (f (N.of_nat n)) eqn:E; [exists n; split; [lia|exact E]|].
  destruct (IH ltac:(lia)) as (k & Hk & Hf). exists k. split; [lia|exact Hf].
Qed.
Lemma count_below_ext n f g : (forall k, (k < n)%nat -> f (N.of_nat k) = g (N.of_nat k)) -> count_below n f = count_below n g.
Proof.
  induction n as [|n IH]; intros H; cbn [count_below]; [reflexivity|]. rewrite H by lia. rewrite IH; [reflexivity|].
  intros k Hk. apply H. lia.
Qed.
Lemma count_below_flip n f g p :
  (p < n)%nat -> f (N.of_nat p) = true -> g (N.of_nat p) = false ->
  (forall k, (k < n)%nat -> k <> p -> g (N.of_nat k) = f (N.of_nat k)) ->
  count_below n f = 1 + count_below n g.
Proof.
  induction n as [|n IH]; intros Hp Hf Hg Hs; [lia|]. cbn [count_below].
  destruct (Nat.eq_dec p n) as [->|Hne].
  - rewrite Hf, Hg. rewrite (count_below_ext n f g); [lia|]. intros k Hk. symmetry. apply Hs; lia.
  - rewrite IH; try assumption; try lia.
    + rewrite (Hs n) by lia. lia.
    + intros k Hk Hkp. apply Hs; lia.
Qed.

Lemma zero_bits_zero_full bm : bm_ok bm -> zero_bits bm = 0 -> forall i, i < nfields bm -> getf bm i = FULL.
Proof.
  intros Hok Hz i Hi. unfold zero_bits in Hz. rewrite count_below_zero in Hz.
  apply eq_of_bits64; [apply getf_lt, Hok|apply FULL_lt|]. intros b Hb. rewrite FULL_testbit.
  specialize (Hz (N.to_nat (64 * i + b)) ltac:(unfold nfields in Hi; lia)). rewrite N2Nat.id, bm_bit_ib in Hz by exact Hb.
  destruct (N.testbit (getf bm i) b); cbn in Hz; lia.
Qed.

Lemma full_no_unit_claim bm fields start :
  bm_ok bm -> nfields bm = fields -> (forall i, i < fields -> getf bm i = FULL) ->
  try_find_from_claim_across bm fields start 1 = (None, bm).
Proof.
  intros Hok Hnf Hfull.
  destruct (try_find_from_claim_across bm fields start 1) as [[x|] bm'] eqn:E.
  - exfalso. assert (Hex : exists x bm', try_find_from_claim_across bm fields start 1 = (Some x, bm')) by (exists x, bm'; exact E).
    apply small_claim_complete in Hex; try assumption; try lia. destruct Hex as (i & b & Hi & B1 & B2).
    rewrite free_at_bits in B2 by exact B1. specialize (B2 b ltac:(lia) ltac:(lia)).
    rewrite (Hfull i Hi), FULL_testbit in B2. lia.
  - f_equal. apply claim_across_failure in E; try assumption; try lia. reflexivity.
Qed.

Lemma unit_claim_step bm fields start :
  bm_ok bm -> nfields bm = fields -> 0 < zero_bits bm ->
  exists x bm', try_find_from_claim_across bm fields start 1 = (Some x, bm') /\
                bm_ok bm' /\ nfields bm' = fields /\ zero_bits bm = 1 + zero_bits bm' /\
                bm_bit bm x = false /\ x < 64 * fields.
Proof.
  intros Hok Hnf Hz. unfold zero_bits in Hz. apply count_below_pos in Hz. destruct Hz as (k & Hk & Hf).
  destruct (flat_split (N.of_nat k)) as [Ek Hb]. set (i := N.of_nat k / 64) in *. set (b := N.of_nat k mod 64) in *.
  rewrite Ek, bm_bit_ib in Hf by exact Hb.
  assert (Hi : i < fields) by (unfold nfields in Hnf; lia).
  assert (Hex : exists x bm', try_find_from_claim_across bm fields start 1 = (Some x, bm')).
  { apply small_claim_complete; try assumption; try lia. exists i, b. split; [exact Hi|]. split; [lia|].
    apply free_at_bits; [lia|]. intros j J1 J2. assert (j = b) by lia. subst j. destruct (N.testbit (getf bm i) b); [discriminate|reflexivity]. }
  destruct Hex as (x & bm' & E). exists x, bm'. split; [exact E|].
  pose proof (W64_val) as HW.
  apply claim_across_success in E; try assumption; try lia.
  destruct E as (Hx & L & O & B).
  assert (Hnf' : nfields bm' = fields) by (unfold nfields in *; rewrite L; exact Hnf).
  split; [exact O|]. split; [exact Hnf'|].
  destruct (B x ltac:(lia)) as [Bx1 Bx2].
  assert (Hinx : in_rng (x, x + 1) x = true) by (unfold in_rng; cbn [fst snd]; lia).
  split; [|split; [apply Bx2, Hinx|lia]].
  unfold zero_bits. rewrite L.
  apply count_below_flip with (p := N.to_nat x).
  - unfold nfields in Hnf. lia.
  - rewrite N2Nat.id. rewrite (Bx2 Hinx). reflexivity.
  - rewrite N2Nat.id. rewrite Bx1, Hinx, orb_true_r. reflexivity.
  - intros j Hj Hne. destruct (B (N.of_nat j) ltac:(unfold nfields in Hnf; lia)) as [Bj _]. rewrite Bj.
    assert (Ej : in_rng (x, x + 1) (N.of_nat j) = false) by (unfold in_rng; cbn [fst snd]; lia).
    rewrite Ej, orb_false_r. reflexivity.
Qed.

(* unit_claims_fill: on ANY bitmap, exactly as many successive one-bit claims succeed as there are
   zero bits (every free bit can be claimed); then the bitmap is full and the next claim fails *)
Theorem unit_claims_fill n bm fields start :
  bm_ok bm -> nfields bm = fields -> zero_bits bm = N.of_nat n ->
  exists bm', claim_times n bm fields start 1 = Some bm' /\ bm_ok bm' /\ nfields bm' = fields /\
              (forall i, i < fields -> getf bm' i = FULL) /\
              try_find_from_claim_across bm' fields start 1 = (None, bm').
Proof.
  revert bm. induction n as [|n IH]; intros bm Hok Hnf Hz.
  - exists bm. cbn [claim_times]. split; [reflexivity|]. split; [exact Hok|]. split; [exact Hnf|].
    assert (Hfull : forall i, i < fields -> getf bm i = FULL) by (intros i Hi; apply zero_bits_zero_full; [exact Hok|lia|lia]).
    split; [exact Hfull|]. apply full_no_unit_claim; assumption.
  - destruct (unit_claim_step bm fields start Hok Hnf ltac:(lia)) as (x & bm1 & E & O1 & N1 & Z1 & _).
    destruct (IH bm1 O1 N1 ltac:(lia)) as (bm' & C & R). exists bm'. split; [|exact R].
    cbn [claim_times]. rewrite E. exact C.
Qed.

(* ---- the in-use bitmap of a fresh arena (mi_manage_os_memory_ex2) ---- *)

Lemma nth_repeat0 n k : nth k (repeat 0 n) 0 = 0.
Proof. revert k. induction n as [|n IH]; intros [|k]; cbn; auto. Qed.
Lemma getf_repeat0 n i : getf (repeat 0 n) i = 0.
Proof. apply nth_repeat0. Qed.
Lemma bm_ok_repeat0 n : bm_ok (repeat 0 n).
Proof. unfold bm_ok. induction n; cbn; constructor; [reflexivity|assumption]. Qed.

Theorem arena_init_spec bcount : 1 <= bcount -> bcount + 64 < W64 ->
  let fields := arena_fields bcount in
  fields = (bcount + 63) / 64 /\ nfields (arena_init bcount) = fields /\ bm_ok (arena_init bcount) /\
  forall i b, i < fields -> b < 64 -> N.testbit (getf (arena_init bcount) i) b = (bcount <=? 64 * i + b).
Proof.
  intros H1 HW. cbv zeta. unfold arena_init. unfold arena_fields. rewrite divide_up_64 by exact HW.
  set (fields := (bcount + 63) / 64). set (post := fields * 64 - bcount).
  assert (Hf : 64 * (fields - 1) < bcount /\ bcount <= 64 * fields /\ 1 <= fields) by (subst fields; lia).
  split; [reflexivity|].
  destruct (0 <? post) eqn:Ep.
  - unfold claim, index_field, index_bit_in_field, index_create. cbn [snd].
    replace (((fields - 1) * 64 + (64 - post)) / 64) with (fields - 1) by (subst post; lia).
    replace (((fields - 1) * 64 + (64 - post)) mod 64) with (64 - post) by (subst post; lia).
    rewrite getf_repeat0, N.lor_0_l.
    assert (Hnf : nfields (repeat 0 (N.to_nat fields)) = fields) by (unfold nfields; rewrite repeat_length; lia).
    split; [rewrite nfields_setf; exact Hnf|]. split; [apply setf_ok; [apply bm_ok_repeat0|apply mask_lt]|].
    intros i b Hi Hb. rewrite getf_setf by (rewrite Hnf; lia). destruct (i =? fields - 1) eqn:E.
    + rewrite mask_testbit by (subst post; lia). subst post. lia.
    + rewrite getf_repeat0, N.bits_0. lia.
  - assert (Hnf : nfields (repeat 0 (N.to_nat fields)) = fields) by (unfold nfields; rewrite repeat_length; lia).
    split; [exact Hnf|]. split; [apply bm_ok_repeat0|].
    intros i b Hi Hb. rewrite getf_repeat0, N.bits_0. subst post. lia.
Qed.

Lemma count_below_lt n c : count_below n (fun p => p <? c) = N.min (N.of_nat n) c.
Proof.
  induction n as [|n IH]; cbn [count_below]; [lia|]. rewrite IH. destruct (N.of_nat n <? c) eqn:E; lia.
Qed.

Lemma arena_init_zero_bits bcount : 1 <= bcount -> bcount + 64 < W64 -> zero_bits (arena_init bcount) = bcount.
Proof.
  intros H1 HW. destruct (arena_init_spec bcount H1 HW) as (F & Nf & Ok & B). cbv zeta in *.
  set (fields := arena_fields bcount) in *. unfold zero_bits.
  rewrite (count_below_ext _ _ (fun p => p <? bcount)).
  - rewrite count_below_lt. unfold nfields in Nf. lia.
  - intros k Hk. destruct (flat_split (N.of_nat k)) as [E Hb]. rewrite E at 1. rewrite bm_bit_ib by exact Hb.
    rewrite B; [|unfold nfields in Nf; lia|exact Hb]. rewrite <- E. lia.
Qed.

(* unit_claims_fill_arena: a freshly created (or completely freed) arena of `bcount` blocks can be
   handed out completely with exactly `bcount` one-block claims *)
Theorem unit_claims_fill_arena bcount start : 1 <= bcount -> bcount + 64 < W64 ->
  exists bm', claim_times (N.to_nat bcount) (arena_init bcount) (arena_fields bcount) start 1 = Some bm' /\
              (forall i, i < arena_fields bcount -> getf bm' i = FULL) /\
              try_find_from_claim_across bm' (arena_fields bcount) start 1 = (None, bm').
Proof.
  intros H1 HW. destruct (arena_init_spec bcount H1 HW) as (F & Nf & Ok & B). cbv zeta in *.
  destruct (unit_claims_fill (N.to_nat bcount) (arena_init bcount) (arena_fields bcount) start Ok Nf) as (bm' & C & _ & _ & Fu & Nx).
  - rewrite arena_init_zero_bits by assumption. lia.
  - exists bm'. repeat split; assumption.
Qed.

(* a request of 1 or 2 blocks that fits into a completely free arena succeeds *)
Theorem small_claim_free_arena bcount start count : 1 <= count -> count <= 2 -> count <= bcount -> bcount + 64 < W64 ->
  exists x bm', try_find_from_claim_across (arena_init bcount) (arena_fields bcount) start count = (Some x, bm').
Proof.
  intros H1 H2 Hc HW. destruct (arena_init_spec bcount ltac:(lia) HW) as (F & Nf & Ok & B). cbv zeta in *.
  apply small_claim_complete; try assumption. exists 0, 0. split; [rewrite F; lia|]. split; [lia|].
  apply free_at_bits; [lia|]. intros k K1 K2. rewrite B; [lia|rewrite F; lia|lia].
Qed.
