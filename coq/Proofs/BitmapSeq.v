(* Sequential specifications of the bitmap functions (property C14, second file of proofs):
   what a successful / failing find-and-claim does to the bitmap, unclaim restores, completeness of
   the claims of at most 2 bits, unit claims fill the bitmap, and the top-bit limitation of the
   claims of more than 2 bits. *)
From Coq Require Import NArith ZArith PeanoNat Lia Bool List ZifyN ZifyBool.
From MiV Require Import Gen.Consts Model.Arith Proofs.Base Model.Bitmap Proofs.BitmapProofs.
Import ListNotations.
Local Open Scope N_scope.
Local Open Scope bool_scope.

Ltac w64lia := pose proof W64_val; lia.

(* bm' is bm with the c bits from flat position s set; these bits were clear in bm *)
Definition set_range (bm bm' : list N) (s c : N) : Prop :=
  length bm' = length bm /\ bm_ok bm' /\
  forall i b, i < nfields bm -> b < 64 ->
    N.testbit (getf bm' i) b = N.testbit (getf bm i) b || in_rng (s, s + c) (64 * i + b) /\
    (in_rng (s, s + c) (64 * i + b) = true -> N.testbit (getf bm i) b = false).

(* ---- _mi_bitmap_try_find_claim_field ---- *)

Lemma try_find_claim_field_spec bm idx count r bm' :
  1 <= count -> count <= 64 -> try_find_claim_field bm idx count = (r, bm') ->
  match r with
  | Some x => exists bit, x = 64 * idx + bit /\ bit + count <= 64 /\
                          N.land (getf bm idx) (mask_ count bit) = 0 /\
                          bm' = setf bm idx (N.lor (getf bm idx) (mask_ count bit))
  | None => bm' = bm
  end.
Proof.
  intros H1 H64 H. unfold try_find_claim_field in H.
  destruct (getf bm idx =? FULL); [inversion H; reflexivity|].
  destruct (scan_field _ _ _ _ _) as [[b m]|] eqn:E; [|inversion H; reflexivity].
  apply scan_field_spec in E; try assumption; try reflexivity.
  destruct E as (Ha & Hb & Hc & _). inversion H; subst. exists b. unfold index_create. repeat split; try lia.
Qed.

Lemma set_field_range bm i v c bit :
  bm_ok bm -> i < nfields bm -> v = getf bm i -> bit + c <= 64 -> N.land v (mask_ c bit) = 0 ->
  set_range bm (setf bm i (N.lor v (mask_ c bit))) (64 * i + bit) c.
Proof.
  intros Hok Hi Hv Hc Hz. split; [apply length_setf|]. split.
  - apply setf_ok; [exact Hok|]. apply lor_lt; [subst v; apply getf_lt, Hok|apply mask_lt].
  - intros j b Hj Hb. rewrite getf_setf by exact Hi. pose proof (land_zero_bit _ _ b Hz) as Hzb.
    rewrite mask_testbit in Hzb by lia. unfold in_rng. cbn [fst snd].
    destruct (j =? i) eqn:E.
    + assert (j = i) by lia. subst j. rewrite N.lor_spec, mask_testbit by lia. rewrite <- Hv. split; [|intros Hin]; lia.
    + split; [|intros Hin]; lia.
Qed.

(* ---- the generic field loop (for (visited = 0; visited < fields; visited++, idx++) with wrap) ---- *)

Fixpoint gloop (F : list N -> N -> option N * list N) (n : nat) (bm : list N) (fields idx : N) : option N * list N :=
  match n with
  | O => (None, bm)
  | S k =>
    let idx := if fields <=? idx then 0 else idx in
    match F bm idx with
    | (Some r, bm') => (Some r, bm')
    | (None, bm') => gloop F k bm' fields (idx + 1)
    end
  end.

Lemma find_from_loop_gloop n bm fields idx count :
  find_from_loop n bm fields idx count = gloop (fun bm i => try_find_claim_field bm i count) n bm fields idx.
Proof. revert bm idx. induction n as [|n IH]; intros bm idx; [reflexivity|]. cbn [find_from_loop gloop]. destruct (try_find_claim_field _ _ _) as [[r|] bm']; [reflexivity|apply IH]. Qed.
Lemma find_from_across_loop_gloop n bm fields idx count :
  find_from_across_loop n bm fields idx count =
  gloop (fun bm i => try_find_claim_field_across ACROSS_TRIES bm fields i count 0) n bm fields idx.
Proof. revert bm idx. induction n as [|n IH]; intros bm idx; [reflexivity|]. cbn [find_from_across_loop gloop]. destruct (try_find_claim_field_across _ _ _ _ _ _) as [[r|] bm']; [reflexivity|apply IH]. Qed.

(* success comes from one field attempt on the unchanged bitmap (failed attempts change nothing) *)
Lemma gloop_some F n bm fields idx x bm' :
  0 < fields -> (forall b i b', F b i = (None, b') -> b' = b) ->
  gloop F n bm fields idx = (Some x, bm') -> exists i, i < fields /\ F bm i = (Some x, bm').
Proof.
  intros Hf HF. revert bm idx. induction n as [|n IH]; intros bm idx H; cbn [gloop] in H; [discriminate|].
  set (i := if fields <=? idx then 0 else idx) in *.
  destruct (F bm i) as [[r|] bm1] eqn:E.
  - inversion H; subst. exists i. split; [subst i; destruct (fields <=? idx) eqn:E2; lia|exact E].
  - apply HF in E. subst bm1. apply IH in H. exact H.
Qed.
(* failure: every field has been tried on the unchanged bitmap *)
Lemma gloop_none F n bm fields idx bm' :
  0 < fields -> N.of_nat n <= fields -> (forall b i b', F b i = (None, b') -> b' = b) ->
  gloop F n bm fields idx = (None, bm') ->
  bm' = bm /\
  forall i, i < fields ->
    let idx' := if fields <=? idx then 0 else idx in
    (idx' <= i /\ i < idx' + N.of_nat n) \/ i + fields < idx' + N.of_nat n -> fst (F bm i) = None.
Proof.
  intros Hf Hn HF. revert bm idx Hn. induction n as [|n IH]; intros bm idx Hn H; cbn [gloop] in H.
  - inversion H. split; [reflexivity|]. intros i Hi idx' Hc. subst idx'. destruct (fields <=? idx) eqn:E2; lia.
  - set (i0 := if fields <=? idx then 0 else idx) in *.
    destruct (F bm i0) as [[r|] bm1] eqn:E; [discriminate|].
    pose proof (HF _ _ _ E). subst bm1. apply IH in H; [|lia]. destruct H as [-> H]. split; [reflexivity|].
    intros i Hi idx' Hc. subst idx'. fold i0 in Hc.
    destruct (N.eq_dec i i0) as [->|Hne]; [rewrite E; reflexivity|].
    apply H; [exact Hi|]. cbv zeta. assert (i0 < fields) by (subst i0; destruct (fields <=? idx) eqn:E2; lia).
    destruct (fields <=? i0 + 1) eqn:E3; lia.
Qed.
Lemma gloop_none_all F bm fields idx bm' :
  0 < fields -> (forall b i b', F b i = (None, b') -> b' = b) ->
  gloop F (N.to_nat fields) bm fields idx = (None, bm') ->
  bm' = bm /\ forall i, i < fields -> fst (F bm i) = None.
Proof.
  intros Hf HF H. apply gloop_none in H; try assumption; [|lia]. destruct H as [-> H]. split; [reflexivity|].
  intros i Hi. apply H; [exact Hi|]. cbv zeta. rewrite N2Nat.id.
  destruct (fields <=? idx) eqn:E; lia.
Qed.
Lemma gloop_zero_fields F bm idx : gloop F (N.to_nat 0) bm 0 idx = (None, bm).
Proof. reflexivity. Qed.

Lemma field_none_same count bm i bm' : 1 <= count -> count <= 64 -> try_find_claim_field bm i count = (None, bm') -> bm' = bm.
Proof. intros H1 H2 H. apply (try_find_claim_field_spec _ _ _ _ _ H1 H2 H). Qed.
