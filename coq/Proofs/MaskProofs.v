(* Lemmas about the commit/purge masks of a segment (Model/Mask.v): bit-level meaning of the mask
   helpers, rounding of mi_segment_commit_mask, the runs enumerated by mi_commit_mask_foreach, and
   the behaviour of commit / purge / schedule_purge / try_purge (C13 mask part, C18 segment part). *)
From Coq Require Import NArith ZArith Lia Bool List.
From Coq Require Import ZifyN ZifyBool.
From MiV Require Import Gen.Consts Gen.OsConsts Model.Arith Proofs.Base Proofs.BitsProofs Model.Os Model.Mask Proofs.OsProofs.
Import ListNotations.
Ltac Zify.zify_post_hook ::= Z.div_mod_to_equations.
Local Open Scope N_scope.

(* ------------------------------------------------------------------------------------- *)
(* bits                                                                                    *)
(* ------------------------------------------------------------------------------------- *)
Lemma range_bit idx cnt k : N.testbit (N.shiftl (N.ones cnt) idx) k = (idx <=? k) && (k <? idx + cnt).
Proof.
  destruct (idx <=? k) eqn:E.
  - apply N.leb_le in E. rewrite N.shiftl_spec_high' by assumption. cbn [andb].
    destruct (k <? idx + cnt) eqn:F.
    + apply N.ltb_lt in F. apply N.ones_spec_low. lia.
    + apply N.ltb_ge in F. apply N.ones_spec_high. lia.
  - apply N.leb_gt in E. rewrite N.shiftl_spec_low by assumption. reflexivity.
Qed.

Lemma MASK_BITS_val : MASK_BITS = 512.
Proof. reflexivity. Qed.
Lemma COMMIT_SIZE_val : MI_COMMIT_SIZE = 65536.
Proof. reflexivity. Qed.
Lemma MINCOMMIT_SIZE_val : MI_MINIMAL_COMMIT_SIZE = 65536.
Proof. reflexivity. Qed.
Lemma SEGSIZE_val : MI_SEGMENT_SIZE = 33554432.
Proof. reflexivity. Qed.

Lemma full_bit k : N.testbit mask_full k = (k <? MASK_BITS).
Proof.
  unfold mask_full. destruct (k <? MASK_BITS) eqn:F.
  - apply N.ltb_lt in F. apply N.ones_spec_low. assumption.
  - apply N.ltb_ge in F. apply N.ones_spec_high. assumption.
Qed.

Lemma create_bit idx cnt k : idx + cnt <= MASK_BITS ->
  N.testbit (commit_mask_create idx cnt) k = (idx <=? k) && (k <? idx + cnt).
Proof.
  intros H. unfold commit_mask_create.
  destruct (cnt =? MASK_BITS) eqn:E1.
  - apply N.eqb_eq in E1. rewrite full_bit. assert (idx = 0) by lia. subst. rewrite MASK_BITS_val in *.
    destruct (k <? 512) eqn:F; destruct (0 <=? k) eqn:G; destruct (k <? 0 + 512) eqn:I; try reflexivity; lia.
  - destruct (cnt =? 0) eqn:E2.
    + apply N.eqb_eq in E2. subst. unfold mask_empty. rewrite N.bits_0.
      destruct (idx <=? k) eqn:G; destruct (k <? idx + 0) eqn:I; try reflexivity; lia.
    + apply range_bit.
Qed.

(* subset of masks *)
Definition msub (a b : N) : Prop := forall k, N.testbit a k = true -> N.testbit b k = true.

Lemma msub_refl a : msub a a.
Proof. intros k H; exact H. Qed.
Lemma msub_0 b : msub 0 b.
Proof. intros k H. rewrite N.bits_0 in H. discriminate. Qed.
Lemma msub_trans a b c : msub a b -> msub b c -> msub a c.
Proof. intros H1 H2 k H. auto. Qed.
Lemma msub_ldiff a b m : msub a b -> msub (N.ldiff a m) (N.ldiff b m).
Proof.
  intros H k. rewrite !N.ldiff_spec. intros E. apply andb_prop in E as [E1 E2]. rewrite (H k E1), E2. reflexivity.
Qed.
Lemma msub_ldiff_l a m : msub (N.ldiff a m) a.
Proof. intros k. rewrite N.ldiff_spec. intros E. apply andb_prop in E as [E1 _]. exact E1. Qed.
Lemma msub_lor_r a b m : msub a b -> msub a (N.lor b m).
Proof. intros H k E. rewrite N.lor_spec, (H k E). reflexivity. Qed.
Lemma msub_lor_land a c m : msub a c -> msub (N.lor a (N.land c m)) c.
Proof.
  intros H k. rewrite N.lor_spec, N.land_spec. intros E. apply orb_prop in E as [E|E]; [auto|].
  apply andb_prop in E as [E _]. exact E.
Qed.
Lemma all_set_msub commit cm : commit_mask_all_set commit cm = true <-> msub cm commit.
Proof.
  unfold commit_mask_all_set, msub. rewrite N.eqb_eq. split.
  - intros H k E. rewrite <- H in E. rewrite N.land_spec in E. apply andb_prop in E as [E _]. exact E.
  - intros H. apply N.bits_inj. intros k. rewrite N.land_spec.
    destruct (N.testbit cm k) eqn:E; [rewrite (H k E); reflexivity|apply andb_false_r].
Qed.
Lemma any_set_spec commit cm : commit_mask_any_set commit cm = true <-> exists k, N.testbit commit k = true /\ N.testbit cm k = true.
Proof.
  unfold commit_mask_any_set. rewrite negb_true_iff, N.eqb_neq. split.
  - intros H. destruct (N.land commit cm) eqn:E; [congruence|].
    exists (N.log2 (N.land commit cm)).
    assert (B : N.testbit (N.land commit cm) (N.log2 (N.land commit cm)) = true) by (apply N.bit_log2; rewrite E; discriminate).
    rewrite N.land_spec in B. apply andb_prop in B. exact B.
  - intros (k & A & B) E. assert (C : N.testbit (N.land commit cm) k = true) by (rewrite N.land_spec, A, B; reflexivity).
    rewrite E, N.bits_0 in C. discriminate.
Qed.
Lemma is_empty_spec m : commit_mask_is_empty m = true <-> m = 0.
Proof. unfold commit_mask_is_empty. apply N.eqb_eq. Qed.

(* ------------------------------------------------------------------------------------- *)
(* mi_segment_commit_mask                                                                  *)
(* ------------------------------------------------------------------------------------- *)
Definition CS : N := MI_COMMIT_SIZE.

(* the segment lies in the address space without wrap-around, and its size fits the 512 mask bits *)
Definition seg_ok (s : segment) : Prop :=
  s_size s <= MI_SEGMENT_SIZE /\ s_base s + s_size s < 2 ^ 62 /\ s_size s mod CS = 0 /\ s_info_size s mod CS = 0.

(* what the function returns when it does not bail out early *)
Lemma scm_body s (cv : bool) p size :
  seg_ok s -> is_huge s = false -> 0 < size -> size <= MI_SEGMENT_SIZE ->
  s_base s <= p -> p < s_base s + s_size s ->
  let pstart := p - s_base s in
  let start0 := if cv then (pstart + 65535) / 65536 * 65536 else pstart / 65536 * 65536 in
  let end0 := if cv then (pstart + size) / 65536 * 65536 else (pstart + size + 65535) / 65536 * 65536 in
  let start := if (s_info_size s <=? pstart) && (start0 <? s_info_size s) then s_info_size s else start0 in
  let end_ := if s_size s <? end0 then s_size s else end0 in
  let full := if start <? end_ then end_ - start else 0 in
  segment_commit_mask s cv p size =
    (if full =? 0 then (s_base s + start, 0, mask_empty)
     else (s_base s + start, full, commit_mask_create (start / 65536) (full / 65536))).
Proof.
  intros (Hsz & Hb & _ & _) Hh H0 Hs Hp Hp2. cbv zeta.
  unfold segment_commit_mask. rewrite Hh.
  assert (E1 : (size =? 0) = false) by (apply N.eqb_neq; lia).
  assert (E2 : (MI_SEGMENT_SIZE <? size) = false) by (apply N.ltb_ge; lia).
  rewrite E1, E2. cbn [orb].
  rewrite SEGSIZE_val in *.
  assert (W : 2 ^ 62 < W64) by (rewrite W64_val; reflexivity).
  assert (P62 : 2 ^ 62 = 4611686018427387904) by reflexivity. rewrite P62 in *. rewrite W64_val in W.
  rewrite (wadd_small (s_base s) (s_size s)) by (rewrite W64_val; lia).
  assert (E3 : (s_base s + s_size s <=? p) = false) by (apply N.leb_gt; lia).
  rewrite E3.
  rewrite (wsub_small p (s_base s)) by lia.
  rewrite COMMIT_SIZE_val, MINCOMMIT_SIZE_val.
  rewrite (wadd_small (p - s_base s) size) by (rewrite W64_val; lia).
  rewrite (align_up_spec (p - s_base s) 65536) by (rewrite ?W64_val; lia).
  rewrite (align_down_spec (p - s_base s + size) 65536) by (rewrite ?W64_val; lia).
  rewrite (align_down_spec (p - s_base s) 65536) by (rewrite ?W64_val; lia).
  rewrite (align_up_spec (p - s_base s + size) 65536) by (rewrite ?W64_val; lia).
  replace (p - s_base s + 65536 - 1) with (p - s_base s + 65535) by lia.
  replace (p - s_base s + size + 65536 - 1) with (p - s_base s + size + 65535) by lia.
  destruct cv.
  - destruct ((s_info_size s <=? p - s_base s) && ((p - s_base s + 65535) / 65536 * 65536 <? s_info_size s)) eqn:F.
    + apply andb_prop in F as [F1 F2]. apply N.leb_le in F1. apply N.ltb_lt in F2.
      rewrite (wadd_small (s_base s) (s_info_size s)) by (rewrite W64_val; lia). reflexivity.
    + rewrite (wadd_small (s_base s) ((p - s_base s + 65535) / 65536 * 65536)) by (rewrite W64_val; lia). reflexivity.
  - destruct ((s_info_size s <=? p - s_base s) && ((p - s_base s) / 65536 * 65536 <? s_info_size s)) eqn:F.
    + apply andb_prop in F as [F1 F2]. apply N.leb_le in F1. apply N.ltb_lt in F2.
      rewrite (wadd_small (s_base s) (s_info_size s)) by (rewrite W64_val; lia). reflexivity.
    + rewrite (wadd_small (s_base s) ((p - s_base s) / 65536 * 65536)) by (rewrite W64_val; lia). reflexivity.
Qed.

Lemma scm_early s cv p size :
  (size =? 0) || (MI_SEGMENT_SIZE <? size) || is_huge s = true -> segment_commit_mask s cv p size = (0, 0, mask_empty).
Proof. intros H. unfold segment_commit_mask. rewrite H. reflexivity. Qed.

Lemma scm_beyond s cv p size : seg_ok s -> s_base s + s_size s <= p -> segment_commit_mask s cv p size = (0, 0, mask_empty).
Proof.
  intros (Hsz & Hb & _ & _) Hp. unfold segment_commit_mask.
  destruct ((size =? 0) || (MI_SEGMENT_SIZE <? size) || is_huge s); [reflexivity|].
  assert (P62 : 2 ^ 62 = 4611686018427387904) by reflexivity. rewrite P62 in *.
  rewrite wadd_small by (rewrite W64_val; lia).
  assert (E : (s_base s + s_size s <=? p) = true) by (apply N.leb_le; assumption). rewrite E. reflexivity.
Qed.

(* C13 conservative_inside: the conservative mask names only slices that lie completely inside [p, p+size),
   and the byte range handed to the OS is exactly those slices *)
Lemma conservative_inside s p size start full mask :
  seg_ok s -> s_base s <= p -> p + size <= s_base s + s_size s ->
  segment_commit_mask s true p size = (start, full, mask) ->
  (forall k, N.testbit mask k = true -> p <= s_base s + k * CS /\ s_base s + (k + 1) * CS <= p + size) /\
  (mask <> 0 ->
     p <= start /\ start + full <= p + size /\
     exists i c, start = s_base s + i * CS /\ full = c * CS /\ 0 < c /\ i + c <= MASK_BITS /\
                 forall k, N.testbit mask k = (i <=? k) && (k <? i + c)) /\
  (full = 0 -> mask = 0).
Proof.
  intros Hok Hp Hps E.
  destruct ((size =? 0) || (MI_SEGMENT_SIZE <? size) || is_huge s) eqn:Early.
  { rewrite scm_early in E by assumption. injection E as <- <- <-. unfold mask_empty.
    split; [intros k; rewrite N.bits_0; discriminate|split; congruence]. }
  apply orb_false_elim in Early as [Early Hh]. apply orb_false_elim in Early as [E1 E2].
  apply N.eqb_neq in E1. apply N.ltb_ge in E2.
  destruct (N.le_gt_cases (s_base s + s_size s) p) as [Hb|Hb].
  { rewrite scm_beyond in E by assumption. injection E as <- <- <-. unfold mask_empty.
    split; [intros k; rewrite N.bits_0; discriminate|split; congruence]. }
  rewrite scm_body in E by (try assumption; lia). cbv zeta in E.
  destruct Hok as (Hsz & Hbb & Hm1 & Hm2). unfold CS in *. rewrite COMMIT_SIZE_val, ?SEGSIZE_val, ?MASK_BITS_val in *.
  assert (P62 : 2 ^ 62 = 4611686018427387904) by reflexivity. rewrite P62 in *.
  set (pstart := p - s_base s) in *.
  assert (Hstart : (if (s_info_size s <=? pstart) && ((pstart + 65535) / 65536 * 65536 <? s_info_size s) then s_info_size s
                    else (pstart + 65535) / 65536 * 65536) = (pstart + 65535) / 65536 * 65536).
  { destruct ((s_info_size s <=? pstart) && ((pstart + 65535) / 65536 * 65536 <? s_info_size s)) eqn:F; [|reflexivity].
    apply andb_prop in F as [F1 F2]. apply N.leb_le in F1. apply N.ltb_lt in F2. lia. }
  rewrite Hstart in E. clear Hstart.
  set (st := (pstart + 65535) / 65536 * 65536) in *.
  set (en := if s_size s <? (pstart + size) / 65536 * 65536 then s_size s else (pstart + size) / 65536 * 65536) in *.
  assert (Hen : en <= pstart + size /\ en <= s_size s /\ en mod 65536 = 0).
  { unfold en. destruct (s_size s <? (pstart + size) / 65536 * 65536) eqn:F; [apply N.ltb_lt in F|apply N.ltb_ge in F]; lia. }
  assert (Hst : pstart <= st /\ st mod 65536 = 0) by (unfold st; lia).
  destruct (st <? en) eqn:Flt.
  2:{ cbn in E. injection E as <- <- <-. unfold mask_empty. split; [intros k; rewrite N.bits_0; discriminate|split; congruence]. }
  apply N.ltb_lt in Flt.
  assert (Ene : (en - st =? 0) = false) by (apply N.eqb_neq; lia). rewrite Ene in E.
  injection E as <- <- <-.
  assert (Hbits : forall k, N.testbit (commit_mask_create (st / 65536) ((en - st) / 65536)) k = (st / 65536 <=? k) && (k <? st / 65536 + (en - st) / 65536)).
  { intros k. apply create_bit. rewrite MASK_BITS_val. lia. }
  split; [|split].
  - intros k Hk. rewrite Hbits in Hk. apply andb_prop in Hk as [K1 K2]. apply N.leb_le in K1. apply N.ltb_lt in K2.
    unfold pstart in *. lia.
  - intros _. split; [unfold pstart in *; lia|]. split; [unfold pstart in *; lia|].
    exists (st / 65536), ((en - st) / 65536). repeat split; try lia. exact Hbits.
  - lia.
Qed.

(* C13 liberal_covers: the liberal mask covers every byte of [p, p+size) *)
Lemma liberal_covers s p size start full mask :
  seg_ok s -> is_huge s = false -> 0 < size -> size <= MI_SEGMENT_SIZE ->
  s_base s <= p -> p + size <= s_base s + s_size s ->
  segment_commit_mask s false p size = (start, full, mask) ->
  (forall a, p <= a -> a < p + size -> N.testbit mask ((a - s_base s) / CS) = true) /\
  start <= p /\ p + size <= start + full /\ start + full <= s_base s + s_size s /\
  exists i c, start = s_base s + i * CS /\ full = c * CS /\ 0 < c /\ i + c <= MASK_BITS /\
              forall k, N.testbit mask k = (i <=? k) && (k <? i + c).
Proof.
  intros Hok Hh H0 Hs Hp Hps E.
  rewrite scm_body in E by (try assumption; lia). cbv zeta in E.
  destruct Hok as (Hsz & Hbb & Hm1 & Hm2). unfold CS in *. rewrite COMMIT_SIZE_val, ?SEGSIZE_val, ?MASK_BITS_val in *.
  assert (P62 : 2 ^ 62 = 4611686018427387904) by reflexivity. rewrite P62 in *.
  set (pstart := p - s_base s) in *.
  set (st := if (s_info_size s <=? pstart) && (pstart / 65536 * 65536 <? s_info_size s) then s_info_size s else pstart / 65536 * 65536) in *.
  assert (Hst : st <= pstart /\ st mod 65536 = 0).
  { unfold st. destruct ((s_info_size s <=? pstart) && (pstart / 65536 * 65536 <? s_info_size s)) eqn:F; [|lia].
    apply andb_prop in F as [F1 F2]. apply N.leb_le in F1. lia. }
  set (en := if s_size s <? (pstart + size + 65535) / 65536 * 65536 then s_size s else (pstart + size + 65535) / 65536 * 65536) in *.
  assert (Hen : pstart + size <= en /\ en <= s_size s /\ en mod 65536 = 0).
  { unfold en. destruct (s_size s <? (pstart + size + 65535) / 65536 * 65536) eqn:F; [apply N.ltb_lt in F|apply N.ltb_ge in F]; unfold pstart in *; lia. }
  assert (Flt : (st <? en) = true) by (apply N.ltb_lt; lia). rewrite Flt in E.
  assert (Ene : (en - st =? 0) = false) by (apply N.eqb_neq; lia). rewrite Ene in E.
  injection E as <- <- <-.
  assert (Hbits : forall k, N.testbit (commit_mask_create (st / 65536) ((en - st) / 65536)) k = (st / 65536 <=? k) && (k <? st / 65536 + (en - st) / 65536)).
  { intros k. apply create_bit. rewrite MASK_BITS_val. lia. }
  split; [|split; [|split; [|split]]].
  - intros a A1 A2. rewrite Hbits. apply andb_true_intro. split; [apply N.leb_le|apply N.ltb_lt]; unfold pstart in *; lia.
  - unfold pstart in *; lia.
  - unfold pstart in *; lia.
  - unfold pstart in *; lia.
  - exists (st / 65536), ((en - st) / 65536). repeat split; try lia. exact Hbits.
Qed.

(* mask of a run of whole slices: exactly its bits, and the byte range is the slices themselves *)
Lemma scm_aligned s i c :
  seg_ok s -> is_huge s = false -> 0 < c -> (i + c) * CS <= s_size s ->
  segment_commit_mask s true (s_base s + i * CS) (c * CS) = (s_base s + i * CS, c * CS, commit_mask_create i c).
Proof.
  intros Hok Hh Hc Hic.
  pose proof Hok as (Hsz & Hbb & Hm1 & Hm2). unfold CS in *. rewrite COMMIT_SIZE_val, ?SEGSIZE_val in *.
  assert (P62 : 2 ^ 62 = 4611686018427387904) by reflexivity. rewrite P62 in *.
  rewrite scm_body by (try assumption; rewrite ?SEGSIZE_val; lia). cbv zeta.
  replace (s_base s + i * 65536 - s_base s) with (i * 65536) by lia.
  assert (A1 : (i * 65536 + 65535) / 65536 * 65536 = i * 65536) by lia.
  assert (A2 : (i * 65536 + c * 65536) / 65536 * 65536 = (i + c) * 65536) by lia.
  rewrite A1, A2.
  assert (F : ((s_info_size s <=? i * 65536) && (i * 65536 <? s_info_size s)) = false).
  { destruct (s_info_size s <=? i * 65536) eqn:G; [|reflexivity]. apply N.leb_le in G. cbn [andb]. apply N.ltb_ge. exact G. }
  rewrite F.
  assert (F2 : (s_size s <? (i + c) * 65536) = false) by (apply N.ltb_ge; lia). rewrite F2.
  assert (F3 : (i * 65536 <? (i + c) * 65536) = true) by (apply N.ltb_lt; lia). rewrite F3.
  assert (F4 : ((i + c) * 65536 - i * 65536 =? 0) = false) by (apply N.eqb_neq; lia). rewrite F4.
  replace ((i + c) * 65536 - i * 65536) with (c * 65536) by lia.
  replace (i * 65536 / 65536) with i by lia. replace (c * 65536 / 65536) with c by lia. reflexivity.
Qed.

(* ------------------------------------------------------------------------------------- *)
(* the runs enumerated by mi_commit_mask_foreach                                           *)
(* ------------------------------------------------------------------------------------- *)
Definition in_run (r : N * N) (k : N) : Prop := fst r <= k /\ k < fst r + snd r.

Inductive sorted_from : N -> list (N * N) -> Prop :=
| sorted_nil lo : sorted_from lo []
| sorted_cons lo s l rest : lo <= s -> 0 < l -> sorted_from (s + l) rest -> sorted_from lo ((s, l) :: rest).

Lemma sorted_weaken lo lo' rs : lo' <= lo -> sorted_from lo rs -> sorted_from lo' rs.
Proof. intros H S. destruct S; constructor; try assumption. lia. Qed.

Lemma sorted_in lo rs r : sorted_from lo rs -> In r rs -> lo <= fst r /\ 0 < snd r.
Proof.
  intros S. induction S; intros I; [destruct I|].
  destruct I as [<-|I]; [cbn; lia|]. specialize (IHS I). lia.
Qed.

Lemma runs_aux_sorted n : forall bm i start len, (0 < len -> start + len = i) ->
  sorted_from (if 0 <? len then start else i) (runs_aux n bm i start len).
Proof.
  induction n as [|n IH]; intros bm i start len H; cbn [runs_aux].
  - destruct (0 <? len) eqn:E; [|constructor]. apply N.ltb_lt in E. constructor; [lia|assumption|constructor].
  - destruct (N.testbit bm i).
    + specialize (IH bm (i + 1) (if len =? 0 then i else start) (len + 1)).
      assert (E1 : (0 <? len + 1) = true) by (apply N.ltb_lt; lia). rewrite E1 in IH.
      destruct (len =? 0) eqn:E; [apply N.eqb_eq in E|apply N.eqb_neq in E].
      * subst len. cbn. apply IH. lia.
      * assert (E2 : (0 <? len) = true) by (apply N.ltb_lt; lia). rewrite E2. apply IH. lia.
    + specialize (IH bm (i + 1) 0 0). cbn in IH.
      destruct (0 <? len) eqn:E; [apply N.ltb_lt in E|].
      * cbn. constructor; [lia|assumption|]. apply sorted_weaken with (lo := i + 1); [lia|]. apply IH. lia.
      * cbn. apply sorted_weaken with (lo := i + 1); [lia|]. apply IH. lia.
Qed.

(* every position of every run is either in the run that was open at i, or a set bit among the n positions *)
Lemma runs_aux_sound n : forall bm i start len r k, (0 < len -> start + len = i) ->
  In r (runs_aux n bm i start len) -> in_run r k ->
  (0 < len /\ start <= k /\ k < i) \/ (i <= k /\ k < i + N.of_nat n /\ N.testbit bm k = true).
Proof.
  induction n as [|n IH]; intros bm i start len r k H I K; cbn [runs_aux] in I.
  - destruct (0 <? len) eqn:E; [|destruct I]. apply N.ltb_lt in E. destruct I as [<-|[]]. unfold in_run in K. cbn in K. lia.
  - destruct (N.testbit bm i) eqn:B.
    + apply IH with (k := k) in I; [|destruct (len =? 0) eqn:E; [apply N.eqb_eq in E|apply N.eqb_neq in E]; lia|assumption].
      destruct I as [(_ & I1 & I2)|(I1 & I2 & I3)].
      * destruct (N.eq_dec k i) as [->|Hne].
        { right. split; [lia|]. split; [lia|assumption]. }
        destruct (len =? 0) eqn:E; [apply N.eqb_eq in E|apply N.eqb_neq in E]; [lia|]. left. lia.
      * right. split; [lia|]. split; [lia|assumption].
    + apply in_app_or in I. destruct I as [I|I].
      * destruct (0 <? len) eqn:E; [|destruct I]. apply N.ltb_lt in E. destruct I as [<-|[]]. unfold in_run in K. cbn in K. left. lia.
      * apply IH with (k := k) in I; [|lia|assumption]. destruct I as [(I0 & _)|(I1 & I2 & I3)]; [lia|]. right. split; [lia|]. split; [lia|assumption].
Qed.

(* every set bit among the n positions, and every position of the open run, is in some run *)
Lemma runs_aux_complete n : forall bm i start len k, (0 < len -> start + len = i) ->
  (0 < len /\ start <= k /\ k < i) \/ (i <= k /\ k < i + N.of_nat n /\ N.testbit bm k = true) ->
  exists r, In r (runs_aux n bm i start len) /\ in_run r k.
Proof.
  induction n as [|n IH]; intros bm i start len k H K; cbn [runs_aux].
  - destruct K as [(K0 & K1 & K2)|K]; [|lia].
    assert (E : (0 <? len) = true) by (apply N.ltb_lt; assumption). rewrite E.
    exists (start, len). split; [left; reflexivity|]. unfold in_run. cbn. lia.
  - destruct (N.testbit bm i) eqn:B.
    + apply IH; [destruct (len =? 0) eqn:E; [apply N.eqb_eq in E|apply N.eqb_neq in E]; lia|].
      destruct K as [(K0 & K1 & K2)|(K1 & K2 & K3)].
      * left. destruct (len =? 0) eqn:E; [apply N.eqb_eq in E|apply N.eqb_neq in E]; lia.
      * destruct (N.eq_dec k i) as [->|Hne].
        { left. destruct (len =? 0) eqn:E; [apply N.eqb_eq in E|apply N.eqb_neq in E]; lia. }
        right. split; [lia|]. split; [lia|assumption].
    + destruct K as [(K0 & K1 & K2)|(K1 & K2 & K3)].
      * assert (E : (0 <? len) = true) by (apply N.ltb_lt; assumption). rewrite E.
        exists (start, len). split; [apply in_or_app; left; left; reflexivity|]. unfold in_run. cbn. lia.
      * assert (k <> i) by (intros ->; congruence).
        destruct (IH bm (i + 1) 0 0 k ltac:(lia)) as (r & R1 & R2); [right; split; [lia|]; split; [lia|assumption]|].
        exists r. split; [apply in_or_app; right; assumption|assumption].
Qed.

Lemma MASK_BITS_nat_N : N.of_nat MASK_BITS_nat = MASK_BITS.
Proof. apply N2Nat.id. Qed.

Lemma mask_runs_sorted cm : sorted_from 0 (mask_runs cm).
Proof.
  unfold mask_runs, runs_in. generalize MASK_BITS_nat. intros n.
  apply (runs_aux_sorted n cm 0 0 0). lia.
Qed.

Lemma mask_runs_sound cm r k : In r (mask_runs cm) -> in_run r k -> k < MASK_BITS /\ N.testbit cm k = true.
Proof.
  unfold mask_runs, runs_in. rewrite <- MASK_BITS_nat_N. generalize MASK_BITS_nat. intros n I K.
  destruct (runs_aux_sound n cm 0 0 0 r k ltac:(lia) I K) as [H|(H1 & H2 & H3)]; [lia|].
  split; [lia|assumption].
Qed.

Lemma mask_runs_complete cm k : k < MASK_BITS -> N.testbit cm k = true -> exists r, In r (mask_runs cm) /\ in_run r k.
Proof.
  unfold mask_runs, runs_in. rewrite <- MASK_BITS_nat_N. generalize MASK_BITS_nat. intros n K B.
  apply (runs_aux_complete n cm 0 0 0 k ltac:(lia)). right. split; [lia|]. split; assumption.
Qed.

Lemma mask_runs_bound cm r : In r (mask_runs cm) -> 0 < snd r /\ fst r + snd r <= MASK_BITS.
Proof.
  intros I. pose proof (sorted_in 0 _ r (mask_runs_sorted cm) I) as [_ Hl]. split; [assumption|].
  destruct (mask_runs_sound cm r (fst r + snd r - 1) I) as [H _]; [unfold in_run; lia|]. lia.
Qed.

(* ------------------------------------------------------------------------------------- *)
(* commit / purge / schedule / try_purge                                                   *)
(* ------------------------------------------------------------------------------------- *)
(* the fields that none of the mask functions changes *)
Definition same_frame (s s' : segment) : Prop :=
  s_base s' = s_base s /\ s_kind s' = s_kind s /\ s_size s' = s_size s /\ s_info_size s' = s_info_size s /\
  s_allow_decommit s' = s_allow_decommit s /\ s_allow_purge s' = s_allow_purge s.
Lemma same_frame_refl s : same_frame s s.
Proof. repeat split. Qed.
Lemma same_frame_trans a b c : same_frame a b -> same_frame b c -> same_frame a c.
Proof. unfold same_frame. intros (A1 & A2 & A3 & A4 & A5 & A6) (B1 & B2 & B3 & B4 & B5 & B6). repeat split; congruence. Qed.
Lemma same_frame_ok s s' : same_frame s s' -> seg_ok s -> seg_ok s'.
Proof. unfold same_frame, seg_ok. intros (A1 & A2 & A3 & A4 & A5 & A6). rewrite A1, A3, A4. tauto. Qed.
Lemma same_frame_huge s s' : same_frame s s' -> is_huge s' = is_huge s.
Proof. unfold same_frame, is_huge. intros (A1 & A2 & _). rewrite A2. reflexivity. Qed.

Section WithOracle.
Variable cfg : oscfg.
Variable oracle : nat -> answer.

(* ---- mi_segment_purge ---- *)
Lemma segment_purge_frame o s p size : same_frame s (snd (segment_purge cfg oracle o s p size)).
Proof.
  unfold segment_purge. destruct (s_allow_purge s); cbn [negb]; [|apply same_frame_refl].
  destruct (segment_commit_mask s true p size) as [[st fu] m].
  destruct (commit_mask_is_empty m || (fu =? 0)); [apply same_frame_refl|].
  destruct (commit_mask_any_set (s_commit s) m).
  - destruct (os_purge cfg oracle o st fu) as [o1 d]. destruct d; cbn; repeat split.
  - cbn. repeat split.
Qed.

Lemma segment_purge_expire o s p size : s_expire (snd (segment_purge cfg oracle o s p size)) = s_expire s.
Proof.
  unfold segment_purge. destruct (s_allow_purge s); cbn [negb]; [|reflexivity].
  destruct (segment_commit_mask s true p size) as [[st fu] m].
  destruct (commit_mask_is_empty m || (fu =? 0)); [reflexivity|].
  destruct (commit_mask_any_set (s_commit s) m).
  - destruct (os_purge cfg oracle o st fu) as [o1 d]. destruct d; reflexivity.
  - reflexivity.
Qed.

(* what mi_segment_purge does to the two masks, whatever the range *)
Lemma segment_purge_masks o s p size :
  let m := snd (segment_commit_mask s true p size) in
  let s' := snd (segment_purge cfg oracle o s p size) in
  (s_purge s' = s_purge s \/ s_purge s' = N.ldiff (s_purge s) m) /\
  (s_commit s' = s_commit s \/ (s_commit s' = N.ldiff (s_commit s) m /\ s_purge s' = N.ldiff (s_purge s) m)).
Proof.
  cbv zeta. unfold segment_purge. destruct (s_allow_purge s); cbn [negb]; [|cbn; auto].
  destruct (segment_commit_mask s true p size) as [[st fu] m]. cbn [snd].
  destruct (commit_mask_is_empty m || (fu =? 0)); [cbn; auto|].
  destruct (commit_mask_any_set (s_commit s) m).
  - destruct (os_purge cfg oracle o st fu) as [o1 d]. destruct d; cbn; auto.
  - cbn. auto.
Qed.

(* C13 purge_mask_subset_commit, purge *)
Lemma segment_purge_subset o s p size :
  msub (s_purge s) (s_commit s) ->
  msub (s_purge (snd (segment_purge cfg oracle o s p size))) (s_commit (snd (segment_purge cfg oracle o s p size))).
Proof.
  intros H. destruct (segment_purge_masks o s p size) as [[P|P] [C|[C P']]]; cbv zeta in *.
  - rewrite P, C. exact H.
  - rewrite C, P'. apply msub_ldiff. exact H.
  - rewrite P, C. eapply msub_trans; [apply msub_ldiff_l|exact H].
  - rewrite C, P'. apply msub_ldiff. exact H.
Qed.

(* C18 delay_neg_never, segments: with purge_delay < 0 a purge changes nothing in the OS *)
Lemma segment_purge_neg o s p size : (purge_delay cfg < 0)%Z -> fst (segment_purge cfg oracle o s p size) = o.
Proof.
  intros H. unfold segment_purge. destruct (s_allow_purge s); cbn [negb]; [|reflexivity].
  destruct (segment_commit_mask s true p size) as [[st fu] m].
  destruct (commit_mask_is_empty m || (fu =? 0)); [reflexivity|].
  destruct (commit_mask_any_set (s_commit s) m); [|reflexivity].
  unfold os_purge. rewrite os_purge_ex_neg by assumption. reflexivity.
Qed.

(* a purge of a run of whole slices that has a committed slice *)
Definition seg_ok2 (s : segment) : Prop := seg_ok s /\ 0 < s_base s /\ s_base s mod PAGE = 0.

Lemma run_area s i c : seg_ok2 s -> 0 < c -> (i + c) * CS <= s_size s -> aligned_area (s_base s + i * CS) (c * CS).
Proof.
  intros ((Hsz & Hb & Hm1 & Hm2) & Hp & Hpm) Hc Hic. unfold aligned_area, CS in *.
  rewrite COMMIT_SIZE_val, SEGSIZE_val, PAGE_val, OsProofs.P62 in *. repeat split; lia.
Qed.

Lemma wrun s i c : seg_ok s -> (i + c) * CS <= s_size s ->
  wadd (s_base s) (wmul i CS) = s_base s + i * CS /\ wmul c CS = c * CS.
Proof.
  intros (Hsz & Hb & _ & _) Hic. unfold CS in *. rewrite COMMIT_SIZE_val, SEGSIZE_val, OsProofs.P62 in *.
  rewrite (wmul_small i 65536), (wmul_small c 65536) by (rewrite W64_val; lia).
  rewrite wadd_small by (rewrite W64_val; lia). split; reflexivity.
Qed.

Lemma segment_purge_run o s i c :
  seg_ok2 s -> is_huge s = false -> s_allow_purge s = true -> 0 < c -> (i + c) * CS <= s_size s ->
  (exists k, i <= k /\ k < i + c /\ N.testbit (s_commit s) k = true) ->
  let r := segment_purge cfg oracle o s (wadd (s_base s) (wmul i CS)) (wmul c CS) in
  calls (fst r) = calls o ++ purge_sigs cfg (s_base s + i * CS) (c * CS) true /\
  s_purge (snd r) = N.ldiff (s_purge s) (commit_mask_create i c) /\
  (s_commit (snd r) = s_commit s \/ s_commit (snd r) = N.ldiff (s_commit s) (commit_mask_create i c)).
Proof.
  intros Hok2 Hh Hap Hc Hic (k & K1 & K2 & K3). cbv zeta.
  pose proof Hok2 as (Hok & _).
  destruct (wrun s i c Hok Hic) as [W1 W2]. rewrite W1, W2.
  unfold segment_purge. rewrite Hap. cbn [negb].
  rewrite scm_aligned by assumption.
  assert (Hbound : i + c <= MASK_BITS).
  { destruct Hok as (Hsz & _). unfold CS in *. rewrite COMMIT_SIZE_val, SEGSIZE_val, MASK_BITS_val in *. lia. }
  assert (Hne : commit_mask_is_empty (commit_mask_create i c) = false).
  { apply not_true_is_false. intros E. apply is_empty_spec in E.
    assert (B : N.testbit (commit_mask_create i c) i = true).
    { rewrite create_bit by assumption. apply andb_true_intro. split; [apply N.leb_le|apply N.ltb_lt]; lia. }
    rewrite E, N.bits_0 in B. discriminate. }
  assert (Hf : (c * CS =? 0) = false) by (apply N.eqb_neq; unfold CS; rewrite COMMIT_SIZE_val; lia).
  rewrite Hne, Hf. cbn [orb].
  assert (Hany : commit_mask_any_set (s_commit s) (commit_mask_create i c) = true).
  { apply any_set_spec. exists k. split; [assumption|]. rewrite create_bit by assumption.
    apply andb_true_intro. split; [apply N.leb_le|apply N.ltb_lt]; lia. }
  rewrite Hany.
  destruct (os_purge cfg oracle o (s_base s + i * CS) (c * CS)) as [o1 d] eqn:P.
  assert (C1 : calls o1 = calls o ++ purge_sigs cfg (s_base s + i * CS) (c * CS) true).
  { replace o1 with (fst (os_purge cfg oracle o (s_base s + i * CS) (c * CS))) by (rewrite P; reflexivity).
    unfold os_purge. apply os_purge_ex_calls. apply run_area; assumption. }
  destruct d; cbn; auto.
Qed.

(* ---- the loop of mi_segment_try_purge ---- *)
Definition run_step (b : N) (st : os * segment) (r : N * N) : os * segment :=
  let '(idx, count) := r in segment_purge cfg oracle (fst st) (snd st) (wadd b (wmul idx MI_COMMIT_SIZE)) (wmul count MI_COMMIT_SIZE).

Lemma purge_runs_unfold o s rs : purge_runs cfg oracle o s rs = fold_left (run_step (s_base s)) rs (o, s).
Proof. reflexivity. Qed.

Lemma fold_runs_frame b : forall rs o s, same_frame s (snd (fold_left (run_step b) rs (o, s))) /\
  s_expire (snd (fold_left (run_step b) rs (o, s))) = s_expire s /\
  (s_purge s = 0 -> s_purge (snd (fold_left (run_step b) rs (o, s))) = 0) /\
  msub (s_commit (snd (fold_left (run_step b) rs (o, s)))) (s_commit s) /\
  ((purge_delay cfg < 0)%Z -> fst (fold_left (run_step b) rs (o, s)) = o).
Proof.
  induction rs as [|[i c] rs IH]; intros o s; cbn [fold_left].
  - split; [apply same_frame_refl|]. split; [reflexivity|]. split; [auto|]. split; [apply msub_refl|reflexivity].
  - change (run_step b (o, s) (i, c)) with (segment_purge cfg oracle o s (wadd b (wmul i MI_COMMIT_SIZE)) (wmul c MI_COMMIT_SIZE)).
    set (r := segment_purge cfg oracle o s (wadd b (wmul i MI_COMMIT_SIZE)) (wmul c MI_COMMIT_SIZE)).
    pose proof (segment_purge_frame o s (wadd b (wmul i MI_COMMIT_SIZE)) (wmul c MI_COMMIT_SIZE)) as F.
    pose proof (segment_purge_expire o s (wadd b (wmul i MI_COMMIT_SIZE)) (wmul c MI_COMMIT_SIZE)) as X.
    pose proof (segment_purge_masks o s (wadd b (wmul i MI_COMMIT_SIZE)) (wmul c MI_COMMIT_SIZE)) as M.
    pose proof (segment_purge_neg o s (wadd b (wmul i MI_COMMIT_SIZE)) (wmul c MI_COMMIT_SIZE)) as Ng.
    fold r in F, X, M, Ng. destruct r as [o1 s1]. cbn [fst snd] in F, X, M, Ng. cbv zeta in M.
    destruct (IH o1 s1) as (I1 & I2 & I3 & I4 & I5).
    split; [eapply same_frame_trans; eassumption|]. split; [congruence|]. split; [|split].
    + intros Z. apply I3. destruct M as [[P|P] _]; rewrite P, Z; [reflexivity|apply N.ldiff_0_l].
    + eapply msub_trans; [exact I4|]. destruct M as [_ [C|[C _]]]; rewrite C; [apply msub_refl|apply msub_ldiff_l].
    + intros Hn. rewrite I5 by assumption. apply Ng. assumption.
Qed.

(* exact list of system calls of the loop over sorted runs whose slices are all committed *)
Lemma fold_runs_calls : forall rs lo o s,
  seg_ok2 s -> is_huge s = false -> s_allow_purge s = true ->
  sorted_from lo rs ->
  (forall r, In r rs -> (fst r + snd r) * CS <= s_size s /\ forall k, in_run r k -> N.testbit (s_commit s) k = true) ->
  calls (fst (fold_left (run_step (s_base s)) rs (o, s))) =
    calls o ++ flat_map (fun r => purge_sigs cfg (s_base s + fst r * CS) (snd r * CS) true) rs.
Proof.
  induction rs as [|[i c] rs IH]; intros lo o s Hok2 Hh Hap Hsort Hrs; cbn [fold_left flat_map].
  - rewrite app_nil_r. reflexivity.
  - inversion Hsort as [|lo' i' c' rest' Hlo Hc Hrest]; subst.
    destruct (Hrs (i, c) (or_introl eq_refl)) as [Hic Hbits]. cbn [fst snd] in Hic, Hbits.
    change (run_step (s_base s) (o, s) (i, c)) with (segment_purge cfg oracle o s (wadd (s_base s) (wmul i CS)) (wmul c CS)).
    pose proof (segment_purge_run o s i c Hok2 Hh Hap Hc Hic) as R.
    assert (Hex : exists k, i <= k /\ k < i + c /\ N.testbit (s_commit s) k = true).
    { exists i. split; [lia|]. split; [lia|]. apply Hbits. unfold in_run. cbn. lia. }
    specialize (R Hex). cbv zeta in R. fold CS in R |- *.
    pose proof (segment_purge_frame o s (wadd (s_base s) (wmul i CS)) (wmul c CS)) as F.
    destruct (segment_purge cfg oracle o s (wadd (s_base s) (wmul i CS)) (wmul c CS)) as [o1 s1] eqn:E.
    cbn [fst snd] in R, F. destruct R as (R1 & R2 & R3).
    pose proof F as (F1 & F2 & F3 & F4 & F5 & F6).
    rewrite <- F1.
    rewrite (IH (i + c) o1 s1).
    + rewrite R1, <- app_assoc. rewrite F1. reflexivity.
    + destruct Hok2 as (A & B & C). split; [eapply same_frame_ok; eassumption|]. rewrite F1. split; assumption.
    + rewrite (same_frame_huge s s1 F). assumption.
    + congruence.
    + assumption.
    + intros r Hr. destruct (Hrs r (or_intror Hr)) as [H1 H2]. rewrite F3. split; [assumption|].
      intros k Hk. specialize (H2 k Hk).
      destruct R3 as [R3|R3]; rewrite R3; [assumption|].
      rewrite N.ldiff_spec, H2. cbn [andb]. apply negb_true_iff.
      assert (Hb : i + c <= MASK_BITS).
      { destruct Hok2 as ((Hsz & _) & _). unfold CS in *. rewrite COMMIT_SIZE_val, SEGSIZE_val, MASK_BITS_val in *. lia. }
      rewrite create_bit by assumption.
      pose proof (sorted_in (i + c) rs r Hrest Hr) as [S1 S2]. unfold in_run in Hk.
      apply andb_false_intro2. apply N.ltb_ge. lia.
Qed.

End WithOracle.

Section WithOracle2.
Variable cfg : oscfg.
Variable oracle : nat -> answer.

(* ------------------------------------------------------------------------------------- *)
(* C18: mi_segment_try_purge                                                               *)
(* ------------------------------------------------------------------------------------- *)
(* now < purge_expire and not forced: nothing happens at all *)
Lemma try_purge_not_expired o s now : (now < s_expire s)%Z -> segment_try_purge cfg oracle o s false now = (o, s).
Proof.
  intros H. unfold segment_try_purge.
  destruct (negb (s_allow_purge s) || (s_expire s =? 0)%Z || commit_mask_is_empty (s_purge s)); [reflexivity|].
  apply Z.ltb_lt in H. rewrite H. reflexivity.
Qed.

(* nothing scheduled (or purging not allowed): nothing happens *)
Lemma try_purge_idle o s force now :
  s_allow_purge s = false \/ s_expire s = 0%Z \/ s_purge s = 0 -> segment_try_purge cfg oracle o s force now = (o, s).
Proof.
  intros H. unfold segment_try_purge.
  assert (E : negb (s_allow_purge s) || (s_expire s =? 0)%Z || commit_mask_is_empty (s_purge s) = true).
  { destruct H as [H|[H|H]]; rewrite H; cbn; rewrite ?orb_true_r; reflexivity. }
  rewrite E. reflexivity.
Qed.

(* forced, or the expiry has passed: exactly the runs of the purge mask are handed to _mi_os_purge, in order,
   the purge mask becomes empty and the expiry is reset *)
Lemma try_purge_expired o s force now :
  seg_ok2 s -> is_huge s = false -> s_size s = MI_SEGMENT_SIZE -> s_allow_purge s = true ->
  s_expire s <> 0%Z -> s_purge s <> 0 -> msub (s_purge s) (s_commit s) ->
  force = true \/ (s_expire s <= now)%Z ->
  let r := segment_try_purge cfg oracle o s force now in
  calls (fst r) = calls o ++ flat_map (fun r => purge_sigs cfg (s_base s + fst r * CS) (snd r * CS) true) (mask_runs (s_purge s)) /\
  s_purge (snd r) = 0 /\ s_expire (snd r) = 0%Z /\ msub (s_commit (snd r)) (s_commit s) /\ same_frame s (snd r).
Proof.
  intros Hok2 Hh Hsz Hap Hex Hpu Hsub Hwhen. cbv zeta. unfold segment_try_purge.
  assert (E : negb (s_allow_purge s) || (s_expire s =? 0)%Z || commit_mask_is_empty (s_purge s) = false).
  { rewrite Hap. cbn [negb orb]. apply orb_false_intro; [apply Z.eqb_neq; assumption|].
    apply not_true_is_false. intros C. apply is_empty_spec in C. contradiction. }
  rewrite E.
  assert (E2 : negb force && (now <? s_expire s)%Z = false).
  { destruct Hwhen as [->|H]; [reflexivity|]. apply andb_false_intro2. apply Z.ltb_ge. assumption. }
  rewrite E2. rewrite purge_runs_unfold.
  set (s0 := set_purge (set_expire s 0%Z) mask_empty).
  assert (F0 : same_frame s s0) by (unfold s0; repeat split).
  assert (Hok0 : seg_ok2 s0).
  { destruct Hok2 as (A & B & C). split; [eapply same_frame_ok; eassumption|]. exact (conj B C). }
  pose proof (fold_runs_frame cfg oracle (s_base s0) (mask_runs (s_purge s)) o s0) as (I1 & I2 & I3 & I4 & _).
  split; [|split; [|split; [|split]]].
  - change (s_base s) with (s_base s0).
    apply (fold_runs_calls cfg oracle (mask_runs (s_purge s)) 0 o s0 Hok0).
    + rewrite (same_frame_huge s s0 F0). assumption.
    + exact Hap.
    + apply mask_runs_sorted.
    + intros r Hr. pose proof (mask_runs_bound _ r Hr) as [B1 B2]. split.
      * change (s_size s0) with (s_size s). rewrite Hsz. unfold CS. rewrite COMMIT_SIZE_val, SEGSIZE_val. rewrite MASK_BITS_val in B2. lia.
      * intros k Hk. change (s_commit s0) with (s_commit s). apply Hsub. exact (proj2 (mask_runs_sound _ r k Hr Hk)).
  - apply I3. reflexivity.
  - rewrite I2. reflexivity.
  - exact I4.
  - exact (same_frame_trans _ _ _ F0 I1).
Qed.

(* C18 delay_neg_never, segments *)
Lemma try_purge_neg o s force now : (purge_delay cfg < 0)%Z -> fst (segment_try_purge cfg oracle o s force now) = o.
Proof.
  intros H. unfold segment_try_purge.
  destruct (negb (s_allow_purge s) || (s_expire s =? 0)%Z || commit_mask_is_empty (s_purge s)); [reflexivity|].
  destruct (negb force && (now <? s_expire s)%Z); [reflexivity|].
  rewrite purge_runs_unfold.
  exact (proj2 (proj2 (proj2 (proj2 (fold_runs_frame cfg oracle _ _ o _)))) H).
Qed.

Lemma try_purge_subset o s force now :
  msub (s_purge s) (s_commit s) ->
  msub (s_purge (snd (segment_try_purge cfg oracle o s force now))) (s_commit (snd (segment_try_purge cfg oracle o s force now))).
Proof.
  intros H. unfold segment_try_purge.
  destruct (negb (s_allow_purge s) || (s_expire s =? 0)%Z || commit_mask_is_empty (s_purge s)); [exact H|].
  destruct (negb force && (now <? s_expire s)%Z); [exact H|].
  rewrite purge_runs_unfold.
  pose proof (fold_runs_frame cfg oracle (s_base (set_purge (set_expire s 0%Z) mask_empty)) (mask_runs (s_purge s)) o
                (set_purge (set_expire s 0%Z) mask_empty)) as (_ & _ & I3 & _ & _).
  rewrite I3 by reflexivity. apply msub_0.
Qed.

(* ------------------------------------------------------------------------------------- *)
(* C18: mi_segment_schedule_purge                                                          *)
(* ------------------------------------------------------------------------------------- *)
Lemma schedule_not_allowed o s p size now : s_allow_purge s = false -> segment_schedule_purge cfg oracle o s p size now = (o, s).
Proof. intros H. unfold segment_schedule_purge. rewrite H. reflexivity. Qed.

(* delay 0: purge at once *)
Lemma schedule_delay0 o s p size now : s_allow_purge s = true -> purge_delay cfg = 0%Z ->
  segment_schedule_purge cfg oracle o s p size now = segment_purge cfg oracle o s p size.
Proof. intros H D. unfold segment_schedule_purge. rewrite H, D. reflexivity. Qed.

(* the three expiry-update cases (and the fourth: an old expired mask is purged first) *)
Lemma schedule_rules o s p size now st fu m :
  s_allow_purge s = true -> purge_delay cfg <> 0%Z ->
  segment_commit_mask s true p size = (st, fu, m) -> m <> 0 -> fu <> 0 ->
  let s1 := set_purge s (N.lor (s_purge s) (N.land (s_commit s) m)) in
  (s_expire s = 0%Z -> segment_schedule_purge cfg oracle o s p size now = (o, set_expire s1 (now + purge_delay cfg)%Z)) /\
  (s_expire s <> 0%Z -> (now < s_expire s)%Z ->
     segment_schedule_purge cfg oracle o s p size now = (o, set_expire s1 (s_expire s + purge_extend_delay cfg)%Z)) /\
  (s_expire s <> 0%Z -> (s_expire s <= now)%Z -> (now < s_expire s + purge_extend_delay cfg)%Z ->
     segment_schedule_purge cfg oracle o s p size now = (o, set_expire s1 (now + purge_extend_delay cfg)%Z)) /\
  (s_expire s <> 0%Z -> (s_expire s + purge_extend_delay cfg <= now)%Z -> (s_expire s <= now)%Z ->
     segment_schedule_purge cfg oracle o s p size now = segment_try_purge cfg oracle o s1 true now).
Proof.
  intros Hap Hd E Hm Hf. cbv zeta. unfold segment_schedule_purge. rewrite Hap, E. cbn [negb].
  assert (D : (purge_delay cfg =? 0)%Z = false) by (apply Z.eqb_neq; assumption). rewrite D.
  assert (M : commit_mask_is_empty m || (fu =? 0) = false).
  { apply orb_false_intro; [apply not_true_is_false; intros C; apply is_empty_spec in C; contradiction|apply N.eqb_neq; assumption]. }
  rewrite M. unfold commit_mask_create_intersect, commit_mask_set. cbn [s_expire set_purge].
  repeat split.
  - intros Z. rewrite Z. reflexivity.
  - intros NZ L. apply Z.eqb_neq in NZ. rewrite NZ. assert (G : (s_expire s <=? now)%Z = false) by (apply Z.leb_gt; assumption). rewrite G. reflexivity.
  - intros NZ L1 L2. apply Z.eqb_neq in NZ. rewrite NZ. apply Z.leb_le in L1. rewrite L1.
    assert (G : (s_expire s + purge_extend_delay cfg <=? now)%Z = false) by (apply Z.leb_gt; assumption). rewrite G. reflexivity.
  - intros NZ L1 L2. apply Z.eqb_neq in NZ. rewrite NZ. apply Z.leb_le in L1, L2. rewrite L1, L2. reflexivity.
Qed.

Lemma schedule_neg o s p size now : (purge_delay cfg < 0)%Z -> fst (segment_schedule_purge cfg oracle o s p size now) = o.
Proof.
  intros H. unfold segment_schedule_purge. destruct (s_allow_purge s); cbn [negb]; [|reflexivity].
  destruct (purge_delay cfg =? 0)%Z; [apply segment_purge_neg; assumption|].
  destruct (segment_commit_mask s true p size) as [[st fu] m].
  destruct (commit_mask_is_empty m || (fu =? 0)); [reflexivity|]. cbn [s_expire set_purge].
  destruct (s_expire s =? 0)%Z; [reflexivity|]. destruct (s_expire s <=? now)%Z; [|reflexivity].
  destruct (s_expire s + purge_extend_delay cfg <=? now)%Z; [|reflexivity]. apply try_purge_neg. assumption.
Qed.

Lemma schedule_subset o s p size now :
  msub (s_purge s) (s_commit s) ->
  msub (s_purge (snd (segment_schedule_purge cfg oracle o s p size now))) (s_commit (snd (segment_schedule_purge cfg oracle o s p size now))).
Proof.
  intros H. unfold segment_schedule_purge. destruct (s_allow_purge s); cbn [negb]; [|exact H].
  destruct (purge_delay cfg =? 0)%Z; [apply segment_purge_subset; exact H|].
  destruct (segment_commit_mask s true p size) as [[st fu] m].
  destruct (commit_mask_is_empty m || (fu =? 0)); [exact H|]. cbn [s_expire set_purge].
  assert (H1 : msub (commit_mask_set (s_purge s) (commit_mask_create_intersect (s_commit s) m)) (s_commit s)).
  { apply msub_lor_land. exact H. }
  destruct (s_expire s =? 0)%Z; [exact H1|]. destruct (s_expire s <=? now)%Z; [|exact H1].
  destruct (s_expire s + purge_extend_delay cfg <=? now)%Z; [|exact H1]. apply try_purge_subset. exact H1.
Qed.

(* ------------------------------------------------------------------------------------- *)
(* C13: mi_segment_commit / mi_segment_ensure_committed                                    *)
(* ------------------------------------------------------------------------------------- *)
Lemma segment_commit_masks o s p size now :
  let m := snd (segment_commit_mask s false p size) in
  let r := segment_commit cfg oracle o s p size now in
  (s_purge (snd (fst r)) = s_purge s /\ s_commit (snd (fst r)) = s_commit s) \/
  (snd r = true /\ s_purge (snd (fst r)) = N.ldiff (s_purge s) m /\
   (s_commit (snd (fst r)) = s_commit s \/ s_commit (snd (fst r)) = N.lor (s_commit s) m)).
Proof.
  cbv zeta. unfold segment_commit. destruct (segment_commit_mask s false p size) as [[st fu] m]. cbn [snd].
  destruct (commit_mask_is_empty m || (fu =? 0)); [left; split; reflexivity|].
  destruct (commit_mask_all_set (s_commit s) m); cbn [negb].
  - right. cbn. destruct (commit_mask_any_set (s_purge s) m); cbn; auto.
  - destruct (os_commit oracle o st fu) as [o1 ok]. destruct ok; cbn.
    + right. destruct (commit_mask_any_set (s_purge s) m); cbn; auto.
    + left. split; reflexivity.
Qed.

Lemma segment_commit_subset o s p size now :
  msub (s_purge s) (s_commit s) ->
  msub (s_purge (snd (fst (segment_commit cfg oracle o s p size now)))) (s_commit (snd (fst (segment_commit cfg oracle o s p size now)))).
Proof.
  intros H. destruct (segment_commit_masks o s p size now) as [[P C]|(_ & P & [C|C])]; cbv zeta in *; rewrite P, C.
  - exact H.
  - eapply msub_trans; [apply msub_ldiff_l|exact H].
  - apply msub_lor_r. eapply msub_trans; [apply msub_ldiff_l|exact H].
Qed.

Lemma ensure_committed_subset o s p size now :
  msub (s_purge s) (s_commit s) ->
  msub (s_purge (snd (fst (segment_ensure_committed cfg oracle o s p size now))))
       (s_commit (snd (fst (segment_ensure_committed cfg oracle o s p size now)))).
Proof.
  intros H. unfold segment_ensure_committed.
  destruct (commit_mask_is_full (s_commit s) && commit_mask_is_empty (s_purge s)); [exact H|].
  apply segment_commit_subset. exact H.
Qed.

(* commit bits are set only for memory that is accessible in the ghost kernel *)
Definition mask_sound (o : os) (s : segment) : Prop :=
  forall k a, N.testbit (s_commit s) k = true -> s_base s + k * CS <= a -> a < s_base s + (k + 1) * CS ->
              accessible (os_k o) a = true.

(* C13 allocate_clears_purge + commit_then_accessible: after a successful mi_segment_ensure_committed every
   slice of the range is in the commit mask and not in the purge mask, and (if the commit mask was sound)
   every byte of the range is accessible and the commit mask is still sound *)
Lemma ensure_committed_spec o s p size now o' s' :
  seg_ok2 s -> is_huge s = false -> 0 < size -> size <= MI_SEGMENT_SIZE ->
  s_base s <= p -> p + size <= s_base s + s_size s ->
  segment_ensure_committed cfg oracle o s p size now = (o', s', true) ->
  (forall a, p <= a -> a < p + size ->
     N.testbit (s_purge s') ((a - s_base s) / CS) = false /\ N.testbit (s_commit s') ((a - s_base s) / CS) = true) /\
  (mask_sound o s -> mask_sound o' s' /\ forall a, p <= a -> a < p + size -> accessible (os_k o') a = true).
Proof.
  intros Hok2 Hh H0 Hs Hp Hps E.
  pose proof Hok2 as (Hok & Hb0 & Hbm). pose proof Hok as (Hsz & Hbb & Hm1 & Hm2).
  assert (Hidx : forall a, p <= a -> a < p + size -> (a - s_base s) / CS < MASK_BITS /\
                  s_base s + (a - s_base s) / CS * CS <= a /\ a < s_base s + ((a - s_base s) / CS + 1) * CS).
  { intros a A1 A2. unfold CS in *. rewrite COMMIT_SIZE_val, SEGSIZE_val, MASK_BITS_val in *. lia. }
  unfold segment_ensure_committed in E.
  destruct (commit_mask_is_full (s_commit s) && commit_mask_is_empty (s_purge s)) eqn:Short.
  { injection E as <- <-. apply andb_prop in Short as [S1 S2].
    unfold commit_mask_is_full in S1. apply N.eqb_eq in S1. apply is_empty_spec in S2.
    assert (Hc : forall a, p <= a -> a < p + size -> N.testbit (s_commit s) ((a - s_base s) / CS) = true).
    { intros a A1 A2. rewrite S1, full_bit. apply N.ltb_lt. apply Hidx; assumption. }
    split.
    - intros a A1 A2. split; [rewrite S2; apply N.bits_0|apply Hc; assumption].
    - intros Hs0. split; [exact Hs0|]. intros a A1 A2. destruct (Hidx a A1 A2) as (_ & I2 & I3).
      apply (Hs0 ((a - s_base s) / CS) a (Hc a A1 A2) I2 I3). }
  unfold segment_commit in E.
  destruct (segment_commit_mask s false p size) as [[st fu] m] eqn:M.
  destruct (liberal_covers s p size st fu m Hok Hh H0 Hs Hp Hps M) as (Cov & L1 & L2 & L3 & i & c & -> & -> & Hc & Hic & Hbits).
  assert (Hne : commit_mask_is_empty m = false).
  { apply not_true_is_false. intros C. apply is_empty_spec in C.
    assert (B : N.testbit m i = true) by (rewrite Hbits; apply andb_true_intro; split; [apply N.leb_le|apply N.ltb_lt]; lia).
    rewrite C, N.bits_0 in B. discriminate. }
  assert (Hf : (c * CS =? 0) = false) by (apply N.eqb_neq; unfold CS; rewrite COMMIT_SIZE_val; lia).
  rewrite Hne, Hf in E. cbn [orb] in E.
  assert (Hcs : (i + c) * CS <= s_size s).
  { unfold CS in *. rewrite COMMIT_SIZE_val, SEGSIZE_val in *. lia. }
  destruct (commit_mask_all_set (s_commit s) m) eqn:All; cbn [negb] in E.
  - (* already committed: no OS call *)
    apply all_set_msub in All.
    assert (E' : o' = o /\ s_commit s' = s_commit s /\ s_purge s' = N.ldiff (s_purge s) m).
    { destruct (commit_mask_any_set (s_purge s) m); injection E as <- <-; cbn; auto. }
    destruct E' as (-> & C' & P'). split.
    + intros a A1 A2. rewrite P', C', N.ldiff_spec, (Cov a A1 A2). split; [apply andb_false_r|apply All; apply Cov; assumption].
    + intros Hs0. split.
      * intros k a K. rewrite C' in K. replace (s_base s') with (s_base s). apply Hs0; assumption.
        destruct (commit_mask_any_set (s_purge s) m); injection E as <-; reflexivity.
      * intros a A1 A2. destruct (Hidx a A1 A2) as (_ & I2 & I3).
        apply (Hs0 ((a - s_base s) / CS) a (All _ (Cov a A1 A2)) I2 I3).
  - (* commit through the OS *)
    destruct (os_commit oracle o (s_base s + i * CS) (c * CS)) as [o1 ok] eqn:OC.
    destruct ok; [|discriminate E].
    assert (E' : o' = o1 /\ s_base s' = s_base s /\ s_commit s' = N.lor (s_commit s) m /\ s_purge s' = N.ldiff (s_purge s) m).
    { cbn in E. destruct (commit_mask_any_set (s_purge s) m); injection E as <- <-; cbn; auto. }
    destruct E' as (-> & B' & C' & P').
    destruct (os_commit_accessible oracle o _ _ o1 (run_area s i c Hok2 Hc Hcs) OC) as [Acc Keep].
    split.
    + intros a A1 A2. rewrite P', C', N.ldiff_spec, N.lor_spec, (Cov a A1 A2). split; [apply andb_false_r|apply orb_true_r].
    + intros Hs0. split.
      * intros k a K A1 A2. rewrite B' in A1, A2. rewrite C', N.lor_spec in K. apply orb_prop in K as [K|K].
        { apply Keep. apply (Hs0 k a K A1 A2). }
        { rewrite Hbits in K. apply andb_prop in K as [K1 K2]. apply N.leb_le in K1. apply N.ltb_lt in K2.
          apply Acc; unfold CS in *; rewrite COMMIT_SIZE_val in *; lia. }
      * intros a A1 A2. apply Acc; lia.
Qed.

(* C13 purge_only_scheduled: every system call issued by mi_segment_try_purge is on the slices of one run of the
   purge mask, i.e. on slices that were scheduled (and not taken back by an allocation) *)
Lemma try_purge_only_scheduled o s force now :
  seg_ok2 s -> is_huge s = false -> s_size s = MI_SEGMENT_SIZE -> s_allow_purge s = true ->
  s_expire s <> 0%Z -> s_purge s <> 0 -> msub (s_purge s) (s_commit s) ->
  force = true \/ (s_expire s <= now)%Z ->
  forall sg, In sg (calls (fst (segment_try_purge cfg oracle o s force now))) ->
  In sg (calls o) \/
  exists r, In r (mask_runs (s_purge s)) /\ snd (fst sg) = snd r * CS /\ snd (fst (fst sg)) = s_base s + fst r * CS /\
            forall k, in_run r k -> N.testbit (s_purge s) k = true.
Proof.
  intros Hok2 Hh Hsz Hap Hex Hpu Hsub Hwhen sg Hin.
  destruct (try_purge_expired o s force now Hok2 Hh Hsz Hap Hex Hpu Hsub Hwhen) as (C & _).
  rewrite C in Hin. apply in_app_or in Hin. destruct Hin as [Hin|Hin]; [left; exact Hin|right].
  apply in_flat_map in Hin. destruct Hin as (r & R1 & R2). exists r. split; [assumption|].
  assert (G : snd (fst sg) = snd r * CS /\ snd (fst (fst sg)) = s_base s + fst r * CS).
  { unfold purge_sigs in R2. destruct (purge_delay cfg <? 0)%Z; [destruct R2|].
    destruct (purge_decommits cfg).
    - destruct R2 as [<-|R2]; [cbn; auto|]. destruct (decommit_protects cfg); [|destruct R2]. destruct R2 as [<-|[]]. cbn. auto.
    - destruct R2 as [<-|[]]. cbn. auto. }
  destruct G as [G1 G2]. split; [assumption|]. split; [assumption|].
  intros k Hk. exact (proj2 (mask_runs_sound _ r k R1 Hk)).
Qed.

End WithOracle2.
