(* Bit-level facts behind the address arithmetic: masks, power-of-two test, align up/down,
   interior pointer -> block start, pointer -> segment, slice index, page start. *)
From Coq Require Import NArith ZArith Lia Bool List.
From Coq Require Import ZifyN ZifyBool.
From MiV Require Import Gen.Consts Gen.Bins Model.Arith Proofs.Base Proofs.ArithProofs.
Ltac Zify.zify_post_hook ::= Z.div_mod_to_equations.
Local Open Scope N_scope.

(* ------------------------------------------------------------------------------------- *)
(* helpers                                                                                 *)
(* ------------------------------------------------------------------------------------- *)

Lemma pow2_pos k : 0 < 2 ^ k.
Proof. apply N.neq_0_lt_0. apply N.pow_nonzero. lia. Qed.

Lemma ones_eq k : N.ones k = 2 ^ k - 1.
Proof. rewrite N.ones_equiv. rewrite N.sub_1_r. reflexivity. Qed.

Lemma log2_lt_64' x : x < W64 -> N.log2 x < 64.
Proof.
  intros H. destruct (N.eq_dec x 0) as [->|Hn]; [reflexivity|].
  apply N.log2_lt_pow2; [lia|]. rewrite <- W64_pow. assumption.
Qed.

Lemma pow2_lt_W64 k : k < 64 -> 2 ^ k < W64.
Proof. intros H. rewrite W64_pow. apply N.pow_lt_mono_r; lia. Qed.

Lemma pow2_le_W64 k : k <= 64 -> 2 ^ k <= W64.
Proof. intros H. rewrite W64_pow. apply N.pow_le_mono_r; lia. Qed.

Lemma pow2_lt_W64_inv k : 2 ^ k < W64 -> k < 64.
Proof. rewrite W64_pow. intros H. apply N.pow_lt_mono_r_iff in H; lia. Qed.

(* ------------------------------------------------------------------------------------- *)
(* masks                                                                                   *)
(* ------------------------------------------------------------------------------------- *)

Lemma land_wnot_mask x k : x < W64 -> k <= 64 -> N.land x (wnot (2^k - 1)) = (x / 2^k) * 2^k.
Proof.
  intros Hx Hk. unfold wnot.
  pose proof (pow2_pos k) as Hp. pose proof (pow2_le_W64 k Hk) as Hle.
  assert (Hlog : N.log2 (N.ones k) < 64).
  { apply log2_lt_64'. rewrite ones_eq. lia. }
  replace (W64 - 1) with (N.ones 64) by reflexivity.
  rewrite <- ones_eq.
  rewrite <- (N.lnot_sub_low _ _ Hlog).
  rewrite <- (N.ldiff_land_low x (N.ones k) 64) by (apply log2_lt_64'; assumption).
  rewrite N.ldiff_ones_r. rewrite N.shiftl_mul_pow2, N.shiftr_div_pow2. reflexivity.
Qed.

Lemma land_mask x k : N.land x (2^k - 1) = x mod 2^k.
Proof. rewrite <- ones_eq. apply N.land_ones. Qed.

(* ------------------------------------------------------------------------------------- *)
(* power of two test: x & (x-1) == 0                                                       *)
(* ------------------------------------------------------------------------------------- *)

Lemma land_even_odd a b : N.land (2 * a) (2 * b + 1) = 2 * N.land a b.
Proof.
  apply N.bits_inj. intros n.
  destruct (N.eq_dec n 0) as [->|Hn].
  - rewrite N.land_spec. rewrite !N.testbit_even_0. reflexivity.
  - replace n with (N.succ (N.pred n)) by lia.
    rewrite N.land_spec. rewrite !N.testbit_even_succ by lia.
    rewrite N.testbit_odd_succ by lia. rewrite N.land_spec. reflexivity.
Qed.

Lemma land_odd_even a b : N.land (2 * a + 1) (2 * b) = 2 * N.land a b.
Proof. rewrite N.land_comm, land_even_odd, N.land_comm. reflexivity. Qed.

Lemma pos_land_pred_pow2 p :
  N.land (Npos p) (Npos p - 1) = 0 <-> exists k, Npos p = 2 ^ k.
Proof.
  induction p as [p IH|p IH|].
  - (* p~1 : 2p+1 & 2p = 2p <> 0, and 2p+1 >= 3 is odd so not a power of two *)
    split.
    + intros H. exfalso.
      replace (N.pos p~1 - 1) with (2 * N.pos p) in H by lia.
      change (N.pos p~1) with (2 * N.pos p + 1) in H.
      rewrite land_odd_even, N.land_diag in H. lia.
    + intros [k Hk]. exfalso.
      destruct (N.eq_dec k 0) as [->|Hk0].
      * cbn in Hk. lia.
      * replace k with (N.succ (N.pred k)) in Hk by lia.
        rewrite N.pow_succ_r' in Hk. lia.
  - (* p~0 *)
    assert (E : N.pos p~0 - 1 = 2 * (N.pos p - 1) + 1) by lia.
    assert (L : N.land (N.pos p~0) (N.pos p~0 - 1) = 2 * N.land (N.pos p) (N.pos p - 1)).
    { rewrite E. change (N.pos p~0) with (2 * N.pos p). apply land_even_odd. }
    rewrite L. split.
    + intros H. assert (H' : N.land (N.pos p) (N.pos p - 1) = 0) by lia.
      apply IH in H' as [k Hk]. exists (N.succ k). rewrite N.pow_succ_r'. lia.
    + intros [k Hk].
      destruct (N.eq_dec k 0) as [->|Hk0]; [cbn in Hk; lia|].
      replace k with (N.succ (N.pred k)) in Hk by lia.
      rewrite N.pow_succ_r' in Hk.
      assert (Hp : N.pos p = 2 ^ N.pred k) by lia.
      assert (H0 : N.land (N.pos p) (N.pos p - 1) = 0) by (apply IH; eexists; exact Hp).
      rewrite H0. reflexivity.
  - split; [intros _; exists 0; reflexivity | intros _; reflexivity].
Qed.

Lemma is_power_of_two_spec x : 0 < x -> x < W64 -> (is_power_of_two x = true <-> exists k, x = 2^k).
Proof.
  intros H0 Hx. unfold is_power_of_two. rewrite wsub_small by lia.
  rewrite N.eqb_eq. destruct x as [|p]; [lia|]. apply pos_land_pred_pow2.
Qed.

Lemma is_power_of_two_pow k : k < 64 -> is_power_of_two (2^k) = true.
Proof.
  intros Hk. apply is_power_of_two_spec; [apply pow2_pos|apply pow2_lt_W64; assumption|].
  exists k; reflexivity.
Qed.

Lemma ctz_pow2 k : ctz (2^k) = k.
Proof.
  induction k as [|k IH] using N.peano_ind; [reflexivity|].
  rewrite N.pow_succ_r'. pose proof (pow2_pos k) as Hp.
  destruct (2 ^ k) as [|p] eqn:E; [lia|].
  change (2 * N.pos p) with (N.pos p~0). cbn [ctz ctz_pos]. cbn [ctz] in IH. rewrite IH. reflexivity.
Qed.

(* the test in the C code, `(alignment & (alignment-1)) == 0`, for a non-zero alignment *)
Lemma land_pred_pow2_dec a : 0 < a -> a < W64 ->
  (N.land a (wsub a 1) =? 0) = true -> exists k, k < 64 /\ a = 2 ^ k.
Proof.
  intros H0 Ha H. pose proof (proj1 (is_power_of_two_spec a H0 Ha) H) as [k Hk].
  exists k. split; [|assumption]. apply pow2_lt_W64_inv. rewrite <- Hk. assumption.
Qed.

(* ------------------------------------------------------------------------------------- *)
(* align up / down, divide up                                                              *)
(* ------------------------------------------------------------------------------------- *)

Lemma div_mul_le x a : 0 < a -> x / a * a <= x.
Proof. intros H. rewrite N.mul_comm. apply N.mul_div_le. lia. Qed.

Lemma div_mul_gt x a : 0 < a -> x < x / a * a + a.
Proof.
  intros H. pose proof (N.div_mod x a ltac:(lia)). pose proof (N.mod_lt x a ltac:(lia)). lia.
Qed.

Lemma div_mul_mod x a : 0 < a -> (x / a * a) mod a = 0.
Proof. intros H. apply N.mod_mul. lia. Qed.

Theorem align_up_spec sz a : 0 < a -> sz + a - 1 < W64 -> a < W64 ->
  align_up sz a = ((sz + a - 1) / a) * a.
Proof.
  intros H0 Hs Ha. unfold align_up. cbv zeta.
  assert (Hm : wadd sz (wsub a 1) = sz + a - 1).
  { rewrite wsub_small by lia. rewrite wadd_small by lia. lia. }
  rewrite Hm.
  destruct (N.land a (wsub a 1) =? 0) eqn:E.
  - destruct (land_pred_pow2_dec a H0 Ha E) as (k & Hk & ->).
    rewrite wsub_small by lia. apply land_wnot_mask; [assumption|lia].
  - apply wmul_small. pose proof (div_mul_le (sz + a - 1) a H0). lia.
Qed.

Theorem align_up_props sz a : 0 < a -> sz + a - 1 < W64 -> a < W64 ->
  sz <= align_up sz a /\ align_up sz a < sz + a /\ align_up sz a mod a = 0.
Proof.
  intros H0 Hs Ha. rewrite align_up_spec by assumption.
  pose proof (div_mul_le (sz + a - 1) a H0). pose proof (div_mul_gt (sz + a - 1) a H0).
  split; [lia|]. split; [lia|]. apply div_mul_mod; assumption.
Qed.

Theorem align_down_spec sz a : 0 < a -> sz < W64 -> a < W64 -> align_down sz a = (sz / a) * a.
Proof.
  intros H0 Hs Ha. unfold align_down. cbv zeta.
  destruct (N.land a (wsub a 1) =? 0) eqn:E.
  - destruct (land_pred_pow2_dec a H0 Ha E) as (k & Hk & ->).
    rewrite wsub_small by lia. apply land_wnot_mask; [assumption|lia].
  - apply wmul_small. pose proof (div_mul_le sz a H0). lia.
Qed.

Theorem align_down_props sz a : 0 < a -> sz < W64 -> a < W64 ->
  align_down sz a <= sz /\ sz < align_down sz a + a /\ align_down sz a mod a = 0.
Proof.
  intros H0 Hs Ha. rewrite align_down_spec by assumption.
  pose proof (div_mul_le sz a H0). pose proof (div_mul_gt sz a H0).
  split; [lia|]. split; [lia|]. apply div_mul_mod; assumption.
Qed.

Theorem divide_up_spec s d : 0 < d -> s + d - 1 < W64 ->
  s <= divide_up s d * d /\ divide_up s d * d < s + d.
Proof.
  intros H0 Hs. unfold divide_up.
  destruct (d =? 0) eqn:E; [apply N.eqb_eq in E; lia|].
  assert (Hm : wsub (wadd s d) 1 = s + d - 1).
  { destruct (N.eq_dec (s + d) W64) as [Ew|Ew].
    - unfold wadd. rewrite Ew. change (wrap W64) with 0. change (wsub 0 1) with (W64 - 1). reflexivity.
    - rewrite wadd_small by lia. rewrite wsub_small by lia. reflexivity. }
  rewrite Hm.
  pose proof (div_mul_le (s + d - 1) d H0). pose proof (div_mul_gt (s + d - 1) d H0). lia.
Qed.

(* ------------------------------------------------------------------------------------- *)
(* block_size_shift, _mi_page_ptr_unalign                                                  *)
(* ------------------------------------------------------------------------------------- *)

Lemma block_size_shift_pow2 k : k < 64 -> block_size_shift (2 ^ k) = k.
Proof.
  intros Hk. unfold block_size_shift. rewrite is_power_of_two_pow by assumption.
  pose proof (pow2_pos k) as Hp. apply N.ltb_lt in Hp. rewrite Hp. cbn [andb].
  rewrite ctz_pow2. change 255 with (2 ^ 8 - 1). rewrite land_mask.
  apply N.mod_small. change (2 ^ 8) with 256. lia.
Qed.

Lemma block_size_shift_cases bs : 0 < bs -> bs < W64 ->
  (exists k, k < 64 /\ bs = 2 ^ k /\ block_size_shift bs = k) \/ block_size_shift bs = 0.
Proof.
  intros H0 Hb. destruct (is_power_of_two bs) eqn:E.
  - left. apply (is_power_of_two_spec bs H0 Hb) in E as [k Hk]. subst bs.
    apply pow2_lt_W64_inv in Hb. exists k. split; [assumption|]. split; [reflexivity|].
    apply block_size_shift_pow2; assumption.
  - right. unfold block_size_shift. rewrite E. reflexivity.
Qed.

Lemma block_size_shift_spec bs : 0 < bs -> bs < W64 ->
  (block_size_shift bs <> 0 -> bs = 2 ^ block_size_shift bs) .
Proof.
  intros H0 Hb Hn. destruct (block_size_shift_cases bs H0 Hb) as [(k & Hk & E & Es)|E].
  - rewrite Es. exact E.
  - contradiction.
Qed.

Lemma mod_mul_add i bs off : off < bs -> (i * bs + off) mod bs = off.
Proof.
  intros H. rewrite N.add_comm. rewrite N.mod_add by lia. apply N.mod_small; assumption.
Qed.

Theorem unalign_correct page_start bs i off :
  0 < bs -> bs < W64 -> off < bs -> page_start + i * bs + off < W64 ->
  ptr_unalign page_start bs (page_start + i * bs + off) = page_start + i * bs.
Proof.
  intros H0 Hb Hoff Hp. unfold ptr_unalign. cbv zeta.
  assert (Hd : wsub (page_start + i * bs + off) page_start = i * bs + off).
  { rewrite wsub_small by lia. lia. }
  rewrite Hd.
  assert (Hadj : (if negb (block_size_shift bs =? 0)
                  then N.land (i * bs + off) (wsub (wrap (N.shiftl 1 (block_size_shift bs))) 1)
                  else (i * bs + off) mod bs) = off).
  { destruct (block_size_shift bs =? 0) eqn:E; cbn [negb].
    - apply mod_mul_add; assumption.
    - apply N.eqb_neq in E.
      destruct (block_size_shift_cases bs H0 Hb) as [(k & Hk & Ebs & Es)|Es]; [|contradiction].
      rewrite Es. rewrite N.shiftl_1_l. rewrite wrap_small by (apply pow2_lt_W64; assumption).
      pose proof (pow2_pos k). rewrite wsub_small by lia. rewrite land_mask. rewrite <- Ebs.
      apply mod_mul_add; assumption. }
  rewrite Hadj. rewrite wsub_small by lia. lia.
Qed.

(* ------------------------------------------------------------------------------------- *)
(* _mi_ptr_segment, slice index                                                            *)
(* ------------------------------------------------------------------------------------- *)

Theorem ptr_segment_spec seg p :
  seg mod MI_SEGMENT_SIZE = 0 -> 0 < seg -> seg + MI_SEGMENT_SIZE < 2^63 ->
  seg < p -> p <= seg + MI_SEGMENT_SIZE -> ptr_segment p = seg.
Proof.
  intros Hal H0 H63 Hlo Hhi. unfold ptr_segment. cbv zeta.
  assert (E63 : 2 ^ 63 = 9223372036854775808) by reflexivity.
  rewrite E63 in *. unfold MI_SEGMENT_SIZE in *.
  rewrite wsub_small by lia.
  change MI_SEGMENT_MASK with (2 ^ 25 - 1).
  rewrite land_wnot_mask by (rewrite ?W64_val; lia).
  change (2 ^ 25) with 33554432.
  assert (Es : (p - 1) / 33554432 * 33554432 = seg) by lia.
  rewrite Es.
  destruct (seg =? 0) eqn:E1; [apply N.eqb_eq in E1; lia|].
  destruct (9223372036854775808 <=? seg) eqn:E2; [apply N.leb_le in E2; lia|].
  reflexivity.
Qed.

Theorem slice_index_of_spec seg idx off :
  seg + idx * MI_SEGMENT_SLICE_SIZE + off < W64 -> off < MI_SEGMENT_SLICE_SIZE ->
  slice_index_of seg (seg + idx * MI_SEGMENT_SLICE_SIZE + off) = idx.
Proof.
  intros Hp Hoff. unfold slice_index_of. rewrite wsub_small by lia.
  rewrite N.shiftr_div_pow2. unfold MI_SEGMENT_SLICE_SHIFT, MI_SEGMENT_SLICE_SIZE in *.
  change (2 ^ 16) with 65536. lia.
Qed.

(* ------------------------------------------------------------------------------------- *)
(* _mi_segment_page_start_from_slice                                                       *)
(* ------------------------------------------------------------------------------------- *)

(* the two intermediate offsets of the C code, without the (never taken) wrap-arounds *)
Definition pstart_off0 (pstart psize bs : N) : N :=
  if (0 <? bs) && (bs <=? MI_MAX_ALIGN_GUARANTEE) then
    let adjust := bs - pstart mod bs in
    if (adjust <? bs) && (bs + adjust <=? psize) then adjust else 0
  else 0.

Definition pstart_off1 (bs off0 : N) : N :=
  if MI_INTPTR_SIZE <=? bs then
    if bs <=? 64 then off0 + 3 * bs
    else if bs <=? 512 then off0 + bs
    else off0
  else off0.

Lemma pstart_off0_bound pstart psize bs :
  pstart_off0 pstart psize bs = 0 \/
  (pstart_off0 pstart psize bs < bs /\ bs <= MI_MAX_ALIGN_GUARANTEE).
Proof.
  unfold pstart_off0.
  destruct ((0 <? bs) && (bs <=? MI_MAX_ALIGN_GUARANTEE)) eqn:E; [|left; reflexivity].
  apply andb_prop in E as [E1 E2]. apply N.leb_le in E2. cbv zeta.
  destruct ((bs - pstart mod bs <? bs) && (bs + (bs - pstart mod bs) <=? psize)) eqn:F;
    [|left; reflexivity].
  apply andb_prop in F as [F1 F2]. apply N.ltb_lt in F1. right. split; assumption.
Qed.

Lemma pstart_off1_bound bs off0 :
  off0 = 0 \/ (off0 < bs /\ bs <= MI_MAX_ALIGN_GUARANTEE) ->
  pstart_off1 bs off0 <= 65535.
Proof.
  unfold pstart_off1, MI_INTPTR_SIZE, MI_MAX_ALIGN_GUARANTEE. intros H.
  destruct (8 <=? bs) eqn:E8; [|lia].
  destruct (bs <=? 64) eqn:E64; [apply N.leb_le in E64; lia|].
  destruct (bs <=? 512) eqn:E512; [apply N.leb_le in E512; lia|]. lia.
Qed.

Lemma page_start_eq seg idx cnt bs :
  seg mod MI_SEGMENT_SIZE = 0 -> seg + MI_SEGMENT_SIZE < W64 -> 0 < cnt ->
  idx + cnt <= MI_SLICES_PER_SEGMENT ->
  let pstart := seg + idx * MI_SEGMENT_SLICE_SIZE in
  let psize := cnt * MI_SEGMENT_SLICE_SIZE in
  let off1 := pstart_off1 bs (pstart_off0 pstart psize bs) in
  let so := (off1 + 15) / 16 * 16 in
  page_start_from_slice seg idx cnt bs = (pstart + so, psize - so) /\
  so <= MI_SEGMENT_SLICE_SIZE /\ off1 <= so.
Proof.
  intros Hal Hw Hc Hic pstart psize off1 so.
  pose proof (pstart_off0_bound pstart psize bs) as Hb0.
  pose proof (pstart_off1_bound bs _ Hb0) as Hb1. fold off1 in Hb1.
  assert (Hso : so <= 65536 /\ off1 <= so) by (unfold so; lia).
  split; [|unfold MI_SEGMENT_SLICE_SIZE; exact Hso].
  unfold page_start_from_slice.
  unfold MI_SEGMENT_SIZE, MI_SLICES_PER_SEGMENT in *.
  rewrite W64_val in Hw.
  assert (E1 : wmul cnt MI_SEGMENT_SLICE_SIZE = psize).
  { apply wmul_small. unfold MI_SEGMENT_SLICE_SIZE. rewrite W64_val. lia. }
  assert (E2 : wadd seg (wmul idx MI_SEGMENT_SLICE_SIZE) = pstart).
  { unfold pstart. rewrite wmul_small by (unfold MI_SEGMENT_SLICE_SIZE; rewrite W64_val; lia).
    apply wadd_small. unfold MI_SEGMENT_SLICE_SIZE. rewrite W64_val. lia. }
  rewrite E1, E2. cbv zeta.
  (* off0 *)
  assert (E3 : (if (0 <? bs) && (bs <=? MI_MAX_ALIGN_GUARANTEE)
                then if (bs - pstart mod bs <? bs) && (wadd bs (bs - pstart mod bs) <=? psize)
                     then bs - pstart mod bs else 0
                else 0) = pstart_off0 pstart psize bs).
  { unfold pstart_off0. destruct ((0 <? bs) && (bs <=? MI_MAX_ALIGN_GUARANTEE)) eqn:E; [|reflexivity].
    apply andb_prop in E as [_ E]. apply N.leb_le in E. unfold MI_MAX_ALIGN_GUARANTEE in E.
    cbv zeta. rewrite wadd_small by (rewrite W64_val; lia). reflexivity. }
  rewrite E3. clear E3.
  set (off0 := pstart_off0 pstart psize bs) in *.
  (* off1 *)
  assert (E4 : (if MI_INTPTR_SIZE <=? bs
                then if bs <=? 64 then wadd off0 (wmul 3 bs)
                     else if bs <=? 512 then wadd off0 bs else off0
                else off0) = off1).
  { unfold off1, pstart_off1. unfold MI_MAX_ALIGN_GUARANTEE in Hb0.
    destruct (MI_INTPTR_SIZE <=? bs); [|reflexivity].
    destruct (bs <=? 64) eqn:E64.
    - apply N.leb_le in E64. rewrite wmul_small by (rewrite W64_val; lia).
      apply wadd_small. rewrite W64_val; lia.
    - destruct (bs <=? 512) eqn:E512; [|reflexivity].
      apply N.leb_le in E512. apply wadd_small. rewrite W64_val; lia. }
  rewrite E4. clear E4.
  assert (E5 : align_up off1 MI_MAX_ALIGN_SIZE = so).
  { unfold MI_MAX_ALIGN_SIZE. rewrite align_up_spec by (rewrite ?W64_val; lia).
    unfold so. f_equal. f_equal. lia. }
  rewrite E5.
  rewrite wadd_small by (unfold pstart, MI_SEGMENT_SLICE_SIZE; rewrite W64_val; lia).
  rewrite wsub_small by (unfold psize, MI_SEGMENT_SLICE_SIZE; lia).
  reflexivity.
Qed.

(* The third conjunct holds unconditionally (start_offset <= one slice <= psize); the premise
   `bs <= cnt * MI_SEGMENT_SLICE_SIZE / 8` of the requested statement is kept but is not needed:
   see page_start_span_end below. *)
Theorem page_start_aligned16 seg idx cnt bs :
  seg mod MI_SEGMENT_SIZE = 0 -> seg + MI_SEGMENT_SIZE < W64 -> 0 < cnt ->
  idx + cnt <= MI_SLICES_PER_SEGMENT -> bs < W64 ->
  let '(start, psize) := page_start_from_slice seg idx cnt bs in
  start mod MI_MAX_ALIGN_SIZE = 0 /\
  seg + idx * MI_SEGMENT_SLICE_SIZE <= start /\
  (bs <= cnt * MI_SEGMENT_SLICE_SIZE / 8 ->   (* what page allocation guarantees: at least 8 blocks fit... *)
     start + psize = seg + (idx + cnt) * MI_SEGMENT_SLICE_SIZE).
Proof.
  intros Hal Hw Hc Hic _.
  destruct (page_start_eq seg idx cnt bs Hal Hw Hc Hic) as (E & Hso & _).
  rewrite E. clear E.
  set (so := (pstart_off1 bs _ + 15) / 16 * 16) in *.
  assert (Hso16 : so mod 16 = 0) by (unfold so; apply N.mod_mul; lia).
  clearbody so.
  unfold MI_SEGMENT_SIZE, MI_SEGMENT_SLICE_SIZE, MI_MAX_ALIGN_SIZE, MI_SLICES_PER_SEGMENT in *.
  split; [lia|]. split; [lia|]. intros _. lia.
Qed.

(* the same without the superfluous premises *)
Theorem page_start_span_end seg idx cnt bs :
  seg mod MI_SEGMENT_SIZE = 0 -> seg + MI_SEGMENT_SIZE < W64 -> 0 < cnt ->
  idx + cnt <= MI_SLICES_PER_SEGMENT ->
  fst (page_start_from_slice seg idx cnt bs) + snd (page_start_from_slice seg idx cnt bs)
    = seg + (idx + cnt) * MI_SEGMENT_SLICE_SIZE /\
  fst (page_start_from_slice seg idx cnt bs) <= seg + idx * MI_SEGMENT_SLICE_SIZE + MI_SEGMENT_SLICE_SIZE.
Proof.
  intros Hal Hw Hc Hic.
  destruct (page_start_eq seg idx cnt bs Hal Hw Hc Hic) as (E & Hso & _).
  rewrite E. clear E. cbn [fst snd].
  set (so := (pstart_off1 bs _ + 15) / 16 * 16) in *. clearbody so.
  unfold MI_SEGMENT_SIZE, MI_SEGMENT_SLICE_SIZE, MI_SLICES_PER_SEGMENT in *. lia.
Qed.

Lemma align16_id x : x mod 16 = 0 -> (x + 15) / 16 * 16 = x.
Proof. intros H. lia. Qed.

Lemma mod16_of_mod a b : 0 < b -> b mod 16 = 0 -> a mod 16 = 0 -> (a mod b) mod 16 = 0.
Proof.
  intros H0 Hb Ha.
  pose proof (N.div_mod b 16 ltac:(lia)) as E. rewrite Hb, N.add_0_r in E.
  assert (Hq : b / 16 <> 0) by (intros Hq; rewrite Hq in E; lia).
  rewrite E. rewrite N.mod_mul_r by (try assumption; lia).
  rewrite Ha, N.add_0_l. rewrite N.mul_comm. apply N.mod_mul. lia.
Qed.

Lemma mod16_add_mul x c y : x mod 16 = 0 -> y mod 16 = 0 -> (x + c * y) mod 16 = 0.
Proof.
  intros Hx Hy. rewrite N.add_mod by lia. rewrite (N.mul_mod c y) by lia.
  rewrite Hx, Hy, N.mul_0_r. reflexivity.
Qed.

(* Block alignment of the page start.  It holds for block sizes that are multiples of 16 and for
   bs = 8 (more generally for divisors of 16), but NOT for the other multiples of 8
   (24, 40, 56, ...): there the `align_up (.., 16)` after the adjustment can add 8 bytes; see
   page_start_not_block_aligned_24 below. *)
Theorem page_start_block_aligned seg idx cnt bs :
  seg mod MI_SEGMENT_SIZE = 0 -> seg + MI_SEGMENT_SIZE < W64 -> 0 < cnt ->
  idx + cnt <= MI_SLICES_PER_SEGMENT ->
  0 < bs -> bs <= MI_MAX_ALIGN_GUARANTEE -> bs mod 16 = 0 \/ bs = 8 ->
  2 * bs <= cnt * MI_SEGMENT_SLICE_SIZE ->
  fst (page_start_from_slice seg idx cnt bs) mod bs = 0.
Proof.
  intros Hal Hw Hc Hic H0 Hg Hbs H2.
  destruct (page_start_eq seg idx cnt bs Hal Hw Hc Hic) as (E & _ & _).
  rewrite E. clear E. cbn [fst].
  set (pstart := seg + idx * MI_SEGMENT_SLICE_SIZE) in *.
  set (psize := cnt * MI_SEGMENT_SLICE_SIZE) in *.
  assert (Hp16 : pstart mod 16 = 0).
  { unfold pstart, MI_SEGMENT_SIZE, MI_SEGMENT_SLICE_SIZE in *. lia. }
  clearbody pstart psize. clear Hal Hw Hic Hc.
  destruct Hbs as [Hbs| ->].
  - (* bs a multiple of 16 *)
    pose proof (N.div_mod pstart bs ltac:(lia)) as Hdm.
    pose proof (N.mod_lt pstart bs ltac:(lia)) as Hr.
    set (q := pstart / bs) in *. set (r := pstart mod bs) in *.
    assert (Hr16 : r mod 16 = 0).
    { unfold r. apply mod16_of_mod; assumption. }
    (* off0 *)
    assert (Hoff0 : exists m, pstart + pstart_off0 pstart psize bs = m * bs /\
                              pstart_off0 pstart psize bs mod 16 = 0).
    { unfold pstart_off0. apply N.ltb_lt in H0. apply N.leb_le in Hg. rewrite H0, Hg. cbn [andb].
      apply N.ltb_lt in H0. cbv zeta. fold r.
      destruct (N.eq_dec r 0) as [Er0|Er0].
      - rewrite Er0, N.sub_0_r. rewrite N.ltb_irrefl. cbn [andb].
        exists q. split; [lia|reflexivity].
      - assert (F1 : bs - r <? bs = true) by (apply N.ltb_lt; lia).
        assert (F2 : bs + (bs - r) <=? psize = true) by (apply N.leb_le; lia).
        rewrite F1, F2. cbn [andb]. exists (q + 1). split; [lia|]. lia. }
    destruct Hoff0 as (m & Hm & Ho16).
    set (off0 := pstart_off0 pstart psize bs) in *. clearbody off0.
    (* off1 *)
    assert (Hoff1 : exists c, pstart_off1 bs off0 = off0 + c * bs).
    { unfold pstart_off1. destruct (MI_INTPTR_SIZE <=? bs); [|exists 0; lia].
      destruct (bs <=? 64); [exists 3; lia|].
      destruct (bs <=? 512); [exists 1; lia|exists 0; lia]. }
    destruct Hoff1 as (c & Hc1). rewrite Hc1.
    assert (H16 : (off0 + c * bs) mod 16 = 0).
    { apply mod16_add_mul; assumption. }
    rewrite (align16_id _ H16).
    rewrite N.add_assoc, Hm, <- N.mul_add_distr_r.
    apply N.mod_mul. lia.
  - (* bs = 8 : pstart is 8-aligned, so adjust = 0, off1 = 24, start_offset = 32 *)
    assert (Hp8 : pstart mod 8 = 0) by lia.
    unfold pstart_off0. rewrite Hp8. change (pstart_off1 8 _) with 24.
    change ((24 + 15) / 16 * 16) with 32. lia.
Qed.

(* ... and a concrete counter-example for a real size class that is not a multiple of 16:
   segment at 5 * MI_SEGMENT_SIZE, slice 1, block size 24: start = span + 96, start mod 24 = 8. *)
Lemma page_start_not_block_aligned_24 :
  fst (page_start_from_slice (5 * MI_SEGMENT_SIZE) 1 1 24) mod 24 = 8.
Proof. vm_compute. reflexivity. Qed.
